import Momo.Proof.TableRows
/-!
  C07, table level, part 3: indexes created after the data (`AddUniqueHashIndex`, `AddMultiHashIndex` through
  `pvAddHashIndex`) and the copy constructor (`pvFill`): the invariant holds for the new index / the new table.
-/
namespace Momo.Table
open List

/-! ### the index operations read the store only at the raws involved -/

theorem findPos_congr (vis : Vis) (h : Nat) (hs : List Nat) (p p' : Nat → Bool) (hp : ∀ i, i < hs.length → p i = p' i) :
    findPos vis h hs p = findPos vis h hs p' := by
  unfold findPos
  congr 1
  funext i
  by_cases hi : i < hs.length
  · simp [hi, hp i hi]
  · simp [hi]

theorem UIdx.find_congr (vis : Vis) (u : UIdx) (h : Nat) (pred pred' : Nat → Bool) (hp : ∀ e ∈ u.ents, pred e.id = pred' e.id) :
    u.find vis h pred = u.find vis h pred' := by
  unfold UIdx.find
  apply findPos_congr
  intro i hi
  rw [length_map] at hi
  rw [u.idAt_lt hi]
  exact hp _ (getElem_mem hi)

theorem MIdx.find_congr (vis : Vis) (m : MIdx) (h : Nat) (pred pred' : Nat → Bool) (hp : ∀ g ∈ m.groups, pred g.key = pred' g.key) :
    m.find vis h pred = m.find vis h pred' := by
  unfold MIdx.find
  apply findPos_congr
  intro i hi
  rw [length_map] at hi
  rw [m.keyAt_lt hi]
  exact hp _ (getElem_mem hi)

theorem UIdx.add_congr (vis : Vis) (acc : Acc) (u : UIdx) (st st' : Store) (raw : Nat) (o : Option Nat) (fail : Bool)
    (h1 : valsOf st raw = valsOf st' raw) (h2 : ∀ e ∈ u.ents, valsOf st e.id = valsOf st' e.id) :
    u.add vis acc st raw o fail = u.add vis acc st' raw o fail := by
  unfold UIdx.add UIdx.findRaw
  rw [h1, u.find_congr vis _ _ (fun id => keyEq u.cols (valsOf st' raw) (valsOf st' id)) (fun e he => by rw [h2 e he])]

theorem insertByAddr_congr {addr addr' : Nat → Nat} (x : Nat) : ∀ (l : List Nat), (∀ y ∈ x :: l, addr y = addr' y) →
    insertByAddr addr x l = insertByAddr addr' x l
  | [], _ => rfl
  | y :: ys, h => by
    unfold insertByAddr
    rw [h y (by simp), h x (by simp), insertByAddr_congr x ys (fun z hz => h z (by
      rcases mem_cons.mp hz with e | e
      · simp [e]
      · simp [e]))]

theorem sortByAddr_congr {addr addr' : Nat → Nat} : ∀ (l : List Nat), (∀ y ∈ l, addr y = addr' y) →
    sortByAddr addr l = sortByAddr addr' l
  | [], _ => rfl
  | x :: xs, h => by
    unfold sortByAddr
    rw [sortByAddr_congr xs (fun y hy => h y (mem_cons_of_mem _ hy))]
    apply insertByAddr_congr
    intro y hy
    rcases mem_cons.mp hy with e | e
    · rw [e]; exact h x mem_cons_self
    · exact h y (mem_cons_of_mem _ ((sortByAddr_perm addr' xs).mem_iff.mp e))

theorem pvAddSort_congr {addr addr' : Nat → Nat} (l : List Nat) (h : ∀ y ∈ l, addr y = addr' y) :
    pvAddSort addr l = pvAddSort addr' l := by
  unfold pvAddSort sortSeg
  rw [sortByAddr_congr (drop (l.length - segSize ((Seg.getSeg Seg.Func.sqrt L0 l.length).fst - 1)) (take l.length l))
    (fun y hy => h y ((take_sublist _ _).subset ((drop_sublist _ _).subset hy)))]

theorem modify_congr {α : Type} (f f' : α → α) : ∀ (l : List α) (p : Nat), (∀ a ∈ l, f a = f' a) → l.modify p f = l.modify p f'
  | [], _, _ => by simp
  | a :: as, 0, h => by simp [h a mem_cons_self]
  | a :: as, p + 1, h => by
    simp only [modify_succ_cons]
    rw [modify_congr f f' as p (fun b hb => h b (mem_cons_of_mem _ hb))]

theorem MIdx.add_congr (vis : Vis) (acc : Acc) (m : MIdx) (st st' : Store) (raw : Nat) (fail : Bool)
    (h1 : valsOf st raw = valsOf st' raw) (h2 : ∀ g ∈ m.groups, valsOf st g.key = valsOf st' g.key)
    (h3 : ∀ g ∈ m.groups, ∀ x ∈ g.raws, addrOf st x = addrOf st' x) :
    m.add vis acc st raw fail = m.add vis acc st' raw fail := by
  have hpv : ∀ p fl, MIdx.pvAdd st m p raw fl = MIdx.pvAdd st' m p raw fl := by
    intro p fl
    unfold MIdx.pvAdd
    congr 1
    apply modify_congr
    intro g hg
    rw [pvAddSort_congr g.raws (h3 g hg)]
  unfold MIdx.add MIdx.findRaw
  rw [h1, m.find_congr vis _ _ (fun id => keyEq m.cols (valsOf st' raw) (valsOf st' id)) (fun g hg => by rw [h2 g hg])]
  simp only [hpv]

/-! ### index creation after the data (`pvAddHashIndex`) -/

theorem ids_cons (r : Row) (st : Store) : ids (r :: st) = r.id :: ids st := rfl

theorem store_agree_prefix (done : Store) (r : Row) (rest : Store) {x : Nat} (hx : x ∈ ids (done ++ [r])) :
    valsOf (done ++ r :: rest) x = valsOf (done ++ [r]) x ∧ addrOf (done ++ r :: rest) x = addrOf (done ++ [r]) x := by
  have e : done ++ r :: rest = (done ++ [r]) ++ rest := by simp
  rw [e]
  exact ⟨valsOf_append_left _ hx, addrOf_append_left _ hx⟩

section create
variable {vis : Vis} (hc : Complete vis) (acc : Acc)
include hc

/-- the loop of `pvAddHashIndex` for a unique index over the rows not yet indexed -/
theorem fillUnique_spec : ∀ (todo : List Row) (done : Store) (u : UIdx), (ids (done ++ todo)).Nodup → UInv acc done u →
    match fillUnique vis acc (done ++ todo) (ids todo) u with
    | .ok u' => UInv acc (done ++ todo) u' ∧ u'.cols = u.cols
    | .error raw => ∃ pre r post x, todo = pre ++ r :: post ∧ r.id = raw ∧ x ∈ done ++ pre ∧
        keyEq u.cols r.vals x.vals = true
  | [], done, u, _, hu => by
    simp only [ids, map_nil, fillUnique, append_nil]
    exact ⟨hu, trivial⟩
  | r :: rest, done, u, hnd, hu => by
    have hnd1 : (ids (done ++ [r])).Nodup := by
      have : (done ++ [r]).Sublist (done ++ r :: rest) := by
        apply Sublist.append_left; simp
      exact (this.map _).nodup hnd
    have hndd : (ids done).Nodup := by
      have : done.Sublist (done ++ r :: rest) := sublist_append_left _ _
      exact (this.map _).nodup hnd
    have hr : r.id ∉ ids done := by
      rw [ids_append, nodup_append] at hnd1
      intro h; exact hnd1.2.2 _ h _ (by simp) rfl
    have hmem : ∀ e ∈ u.ents, e.id ∈ ids done := fun e he => hu.perm.mem_iff.mp (mem_map_of_mem he)
    have hcongr : u.add vis acc (done ++ r :: rest) r.id none false = u.add vis acc (done ++ [r]) r.id none false := by
      apply UIdx.add_congr
      · exact (store_agree_prefix done r rest (by rw [ids_append]; simp)).1
      · intro e he; exact (store_agree_prefix done r rest (by rw [ids_append]; simp [hmem e he])).1
    rw [ids_cons]
    unfold fillUnique
    rw [hcongr]
    rcases UIdx.add_new hc acc hndd hr u hu false with ⟨x, hx, hk, he⟩ | ⟨hno, he⟩
    · rw [he]
      have hne : (x.id != r.id) = true := by
        have : x.id ≠ r.id := fun e => hr (e ▸ mem_ids_iff.mpr ⟨x, hx, rfl⟩)
        simpa using this
      simp only [hne, if_true]
      exact ⟨[], r, rest, x, rfl, rfl, by simpa using hx, hk⟩
    · rw [he]
      simp only [Bool.false_eq_true, if_false, bne_self_eq_false]
      have hu' := UInv_add acc hndd hr u hu hno
      have e : done ++ r :: rest = (done ++ [r]) ++ rest := by simp
      have ih := fillUnique_spec rest (done ++ [r]) (uAdded acc u r.id r.vals).acceptAdd (by rw [← e]; exact hnd) hu'
      rw [← e] at ih
      cases hres : fillUnique vis acc (done ++ r :: rest) (ids rest) (uAdded acc u r.id r.vals).acceptAdd with
      | ok u' => rw [hres] at ih; exact ⟨ih.1, ih.2⟩
      | error raw =>
        rw [hres] at ih
        obtain ⟨pre, r', post, x, h1, h2, h3, h4⟩ := ih
        exact ⟨r :: pre, r', post, x, by rw [h1]; rfl, h2, by simpa using h3, h4⟩

/-- the loop of `pvAddHashIndex` for a multi index -/
theorem fillMulti_spec : ∀ (todo : List Row) (done : Store) (m : MIdx), (ids (done ++ todo)).Nodup → AddrInj (done ++ todo) →
    MInv acc done m → MInv acc (done ++ todo) (fillMulti vis acc (done ++ todo) (ids todo) m) ∧
      (fillMulti vis acc (done ++ todo) (ids todo) m).cols = m.cols
  | [], done, m, _, _, hm => by
    simp only [ids, map_nil, fillMulti, append_nil]
    exact ⟨hm, trivial⟩
  | r :: rest, done, m, hnd, hai, hm => by
    have hsub1 : (done ++ [r]).Sublist (done ++ r :: rest) := by apply Sublist.append_left; simp
    have hsubd : done.Sublist (done ++ r :: rest) := sublist_append_left _ _
    have hnd1 : (ids (done ++ [r])).Nodup := (hsub1.map _).nodup hnd
    have hndd : (ids done).Nodup := (hsubd.map _).nodup hnd
    have haid : AddrInj done := (hsubd.map _).nodup hai
    have hr : r.id ∉ ids done := by
      rw [ids_append, nodup_append] at hnd1
      intro h; exact hnd1.2.2 _ h _ (by simp) rfl
    have hcongr : m.add vis acc (done ++ r :: rest) r.id false = m.add vis acc (done ++ [r]) r.id false := by
      apply MIdx.add_congr
      · exact (store_agree_prefix done r rest (by rw [ids_append]; simp)).1
      · intro g hg
        exact (store_agree_prefix done r rest (by rw [ids_append]; simp [hm.members_sub hg g.key (by simp [Group.members])])).1
      · intro g hg x hx
        exact (store_agree_prefix done r rest (by rw [ids_append]; simp [hm.members_sub hg x (by simp [Group.members, hx])])).2
    rw [ids_cons]
    unfold fillMulti
    rw [hcongr]
    have hm' := (MIdx.add_spec hc acc hndd haid hr m hm).1
    have hcols : (m.add vis acc (done ++ [r]) r.id false).1.acceptAdd.cols = m.cols := by
      unfold MIdx.add MIdx.acceptAdd MIdx.pvAdd
      split <;> simp
      split <;> simp
    have e : done ++ r :: rest = (done ++ [r]) ++ rest := by simp
    have ih := fillMulti_spec rest (done ++ [r]) _ (by rw [← e]; exact hnd) (by rw [← e]; exact hai) hm'
    rw [← e] at ih
    exact ⟨ih.1, ih.2.trans hcols⟩

variable (keep : Bool)

/-- **`AddUniqueHashIndex` on a table with data**: either the columns already have an index, or no two rows agree on
    them and the new index satisfies the invariant, or the table is unchanged and a row that agrees with an earlier one
    is reported (`UniqueIndexViolation`) -/
theorem createUnique_spec (t : Table) (hinv : Inv acc keep t) (cols : List Nat) (hcn : cols.Nodup) :
    Inv acc keep (createUnique vis acc t cols).1 ∧ (createUnique vis acc t cols).1.rows = t.rows ∧
    match (createUnique vis acc t cols).2 with
    | .ok i => ∃ u, (createUnique vis acc t cols).1.uidx[i]? = some u ∧ sameCols u.cols cols = true
    | .error raw => (createUnique vis acc t cols).1 = t ∧
        ∃ r x, r ∈ t.rows ∧ x ∈ t.rows ∧ r.id = raw ∧ x.id ≠ r.id ∧ keyEq cols r.vals x.vals = true := by
  unfold createUnique
  cases hi : indexOfCols (t.uidx.map (·.cols)) cols with
  | some i =>
    simp only
    refine ⟨hinv, trivial, ?_⟩
    obtain ⟨cs, hcs, hsame⟩ := indexOfCols_spec _ _ _ hi
    rw [getElem?_map] at hcs
    cases hu : t.uidx[i]? with
    | none => rw [hu] at hcs; simp at hcs
    | some u => rw [hu] at hcs; simp at hcs; exact ⟨u, rfl, by rw [hcs]; exact hsame⟩
  | none =>
    simp only
    have h := fillUnique_spec hc acc t.rows [] { cols := cols } (by simpa using hinv.idsNodup)
      ⟨hcn, ⟨rfl, rfl⟩, by simp [ids], by simp, by simp [ids]⟩
    simp only [nil_append] at h
    have hids : t.rows.map (·.id) = ids t.rows := rfl
    rw [hids]
    cases hres : fillUnique vis acc t.rows (ids t.rows) { cols := cols } with
    | ok u =>
      rw [hres] at h
      simp only
      refine ⟨⟨hinv.idsNodup, hinv.addrInj, hinv.nums, ?_, hinv.minv⟩, trivial, u, by simp, ?_⟩
      · intro u' hu'
        rcases mem_append.mp hu' with h1 | h1
        · exact hinv.uinv u' h1
        · simp at h1; rw [h1]; exact h.1
      · rw [h.2]; unfold sameCols; simp
    | error raw =>
      rw [hres] at h
      simp only
      obtain ⟨pre, r, post, x, h1, h2, h3, h4⟩ := h
      refine ⟨hinv, trivial, trivial, r, x, by rw [h1]; simp, by rw [h1]; exact mem_append_left _ h3, h2, ?_, h4⟩
      intro e
      have hnd := hinv.idsNodup
      have e2 : ids (pre ++ r :: post) = ids pre ++ r.id :: ids post := by unfold ids; simp
      rw [h1, e2, nodup_append] at hnd
      exact hnd.2.2 _ (mem_ids_iff.mpr ⟨x, h3, rfl⟩) _ (by simp) e

/-- **`AddMultiHashIndex` on a table with data** -/
theorem createMulti_spec (t : Table) (hinv : Inv acc keep t) (cols : List Nat) (hcn : cols.Nodup) :
    Inv acc keep (createMulti vis acc t cols).1 ∧ (createMulti vis acc t cols).1.rows = t.rows ∧
    ∃ m, (createMulti vis acc t cols).1.midx[(createMulti vis acc t cols).2]? = some m ∧ sameCols m.cols cols = true := by
  unfold createMulti
  cases hi : indexOfCols (t.midx.map (·.cols)) cols with
  | some i =>
    simp only
    refine ⟨hinv, trivial, ?_⟩
    obtain ⟨cs, hcs, hsame⟩ := indexOfCols_spec _ _ _ hi
    rw [getElem?_map] at hcs
    cases hm : t.midx[i]? with
    | none => rw [hm] at hcs; simp at hcs
    | some m => rw [hm] at hcs; simp at hcs; exact ⟨m, rfl, by rw [hcs]; exact hsame⟩
  | none =>
    simp only
    have h := fillMulti_spec hc acc t.rows [] { cols := cols } (by simpa using hinv.idsNodup) (by simpa using hinv.addrInj)
      ⟨hcn, ⟨rfl, rfl⟩, by simp [ids], by simp, by simp, by simp, by simp⟩
    simp only [nil_append] at h
    have hids : t.rows.map (·.id) = ids t.rows := rfl
    rw [hids]
    refine ⟨⟨hinv.idsNodup, hinv.addrInj, hinv.nums, hinv.uinv, ?_⟩, trivial, fillMulti vis acc t.rows (ids t.rows) { cols := cols }, by simp, ?_⟩
    · intro m' hm'
      rcases mem_append.mp hm' with h1 | h1
      · exact hinv.minv m' h1
      · simp at h1; rw [h1]; exact h.1
    · rw [h.2]; unfold sameCols; simp

end create
/-! ### the index definitions are not changed by `AddRaw` -/

theorem UIdx.add_cols {vis : Vis} {acc : Acc} {st : Store} {u u' : UIdx} {raw r : Nat} {o : Option Nat} {fail : Bool}
    (h : u.add vis acc st raw o fail = some (u', r)) : u'.cols = u.cols := by
  unfold UIdx.add at h
  split at h
  · simp only [Option.some.injEq, Prod.mk.injEq] at h
    rw [← h.1]; split <;> rfl
  · split at h
    · simp at h
    · simp only [Option.some.injEq, Prod.mk.injEq] at h
      rw [← h.1]

theorem MIdx.add_cols (vis : Vis) (acc : Acc) (st : Store) (m : MIdx) (raw : Nat) (fail : Bool) :
    (m.add vis acc st raw fail).1.cols = m.cols := by
  unfold MIdx.add MIdx.pvAdd
  split
  · split
    · split <;> rfl
    · rfl
  · split <;> rfl

theorem UIdx.rejectAdd_cols (u : UIdx) : u.rejectAdd.cols = u.cols := by unfold UIdx.rejectAdd; split <;> rfl
theorem MIdx.rejectAdd_cols (m : MIdx) : m.rejectAdd.cols = m.cols := by
  unfold MIdx.rejectAdd; split
  · rfl
  · split <;> rfl

theorem uAddAll_cols (vis : Vis) (acc : Acc) (st : Store) (raw : Nat) (f : Fault) : ∀ (us : List UIdx) (j : Nat),
    (uAddAll vis acc st raw f j us).1.map (·.cols) = us.map (·.cols)
  | [], _ => rfl
  | u :: us, j => by
    unfold uAddAll
    cases h : u.add vis acc st raw none (f.hits j) with
    | none => rfl
    | some p =>
      obtain ⟨u', r⟩ := p
      simp only
      have := UIdx.add_cols h
      split
      · simp [this]
      · simp [this, uAddAll_cols vis acc st raw f us (j + 1)]

theorem mAddAll_cols (vis : Vis) (acc : Acc) (st : Store) (raw : Nat) (f : Fault) : ∀ (ms : List MIdx) (j : Nat),
    (mAddAll vis acc st raw f j ms).1.map (·.cols) = ms.map (·.cols)
  | [], _ => rfl
  | m :: ms, j => by
    unfold mAddAll
    split
    · simp [MIdx.add_cols, mAddAll_cols vis acc st raw f ms (j + 1)]
    · simp [MIdx.add_cols]

theorem addRaw_cols (vis : Vis) (acc : Acc) (t : Table) (st : Store) (raw : Nat) (f : Fault) :
    (addRaw vis acc t st raw f).1.uidx.map (·.cols) = t.uidx.map (·.cols) ∧
    (addRaw vis acc t st raw f).1.midx.map (·.cols) = t.midx.map (·.cols) := by
  have hu := uAddAll_cols vis acc st raw f t.uidx 0
  have hm := mAddAll_cols vis acc st raw f t.midx t.uidx.length
  have hra : ∀ l : List UIdx, (l.map UIdx.rejectAdd).map (·.cols) = l.map (·.cols) := fun l => by
    rw [map_map]; apply map_congr_left; intro u _; exact u.rejectAdd_cols
  have hrm : ∀ l : List MIdx, (l.map MIdx.rejectAdd).map (·.cols) = l.map (·.cols) := fun l => by
    rw [map_map]; apply map_congr_left; intro m _; exact m.rejectAdd_cols
  have haa : ∀ l : List UIdx, (l.map UIdx.acceptAdd).map (·.cols) = l.map (·.cols) := fun l => by
    rw [map_map]; apply map_congr_left; intro u _; rfl
  have ham : ∀ l : List MIdx, (l.map MIdx.acceptAdd).map (·.cols) = l.map (·.cols) := fun l => by
    rw [map_map]; apply map_congr_left; intro m _; rfl
  unfold addRaw
  cases hU : uAddAll vis acc st raw f 0 t.uidx with
  | mk us s =>
    rw [hU] at hu; simp only at hu
    cases s with
    | none =>
      simp only
      cases hM : mAddAll vis acc st raw f t.uidx.length t.midx with
      | mk ms s2 =>
        rw [hM] at hm; simp only at hm
        cases s2 <;> simp only [haa, ham, hra, hrm, hu, hm] <;> exact ⟨trivial, trivial⟩
    | dup x j => simp only [hra, hrm, hu]; exact ⟨trivial, trivial⟩
    | fault => simp only [hra, hrm, hu]; exact ⟨trivial, trivial⟩

/-! ### the copy constructor (`pvFill`) -/

section copy
variable {vis : Vis} (hc : Complete vis) (acc : Acc)
include hc

theorem fillRows_spec : ∀ (rs : List Row) (t : Table), Inv acc false t → (ids (t.rows ++ rs)).Nodup → AddrInj (t.rows ++ rs) →
    (∀ cs ∈ t.uidx.map (·.cols), (t.rows ++ rs).Pairwise (fun a b => keyEq cs a.vals b.vals = false)) →
    Inv acc false (fillRows vis acc rs t) ∧ (fillRows vis acc rs t).rows = t.rows ++ rs ∧
    (fillRows vis acc rs t).uidx.map (·.cols) = t.uidx.map (·.cols) ∧
    (fillRows vis acc rs t).midx.map (·.cols) = t.midx.map (·.cols)
  | [], t, hinv, _, _, _ => by simp [fillRows, hinv]
  | r :: rs, t, hinv, hnd, hai, hpw => by
    have hsub1 : (t.rows ++ [r]).Sublist (t.rows ++ r :: rs) := by apply Sublist.append_left; simp
    have hnd1 : (ids (t.rows ++ [r])).Nodup := (hsub1.map _).nodup hnd
    have hai1 : AddrInj (t.rows ++ [r]) := (hsub1.map _).nodup hai
    have hr : r.id ∉ ids t.rows := by
      rw [ids_append, nodup_append] at hnd1
      intro h; exact hnd1.2.2 _ h _ (by simp) rfl
    have e : t.rows ++ r :: rs = (t.rows ++ [r]) ++ rs := by simp
    have hcols := addRaw_cols vis acc t (t.rows ++ [r]) r.id .none
    have h := addRaw_spec hc acc false t hinv r hr .none
    unfold fillRows
    cases hs : (addRaw vis acc t (t.rows ++ [r]) r.id .none).2 with
    | none =>
      rw [hs] at h
      obtain ⟨hu, hm, _, _⟩ := h
      have hinv1 : Inv acc false { (addRaw vis acc t (t.rows ++ [r]) r.id .none).1 with rows := t.rows ++ [r] } :=
        ⟨hnd1, hai1, fun hk => absurd hk (by simp), hu, hm⟩
      have ih := fillRows_spec rs _ hinv1 (by rw [← e]; exact hnd) (by rw [← e]; exact hai)
        (by intro cs hcs; rw [← e]; exact hpw cs (by rw [← hcols.1]; exact hcs))
      exact ⟨ih.1, by rw [ih.2.1, e], ih.2.2.1.trans hcols.1, ih.2.2.2.trans hcols.2⟩
    | dup x j =>
      rw [hs] at h
      obtain ⟨_, _, u, row, hu, hrow, _, hk, _⟩ := h
      have := hpw u.cols (mem_map_of_mem (mem_of_getElem? hu))
      rw [pairwise_append] at this
      have := this.2.2 row hrow r mem_cons_self
      rw [keyEq_symm, hk] at this; exact absurd this (by simp)
    | fault =>
      rw [hs] at h
      exact absurd rfl h.2.2

variable (keep : Bool)

/-- **copy constructor** `DataTable(table, rowFilter)`: the imported rows (pairwise different on the columns of every
    unique index, as rows of a table are), same index definitions, the invariant holds -/
theorem copyOf_spec (t : Table) (hinv : Inv acc keep t) (newRows : List Row) (hnd : (ids newRows).Nodup)
    (hai : AddrInj newRows)
    (hpw : ∀ u ∈ t.uidx, newRows.Pairwise (fun a b => keyEq u.cols a.vals b.vals = false)) :
    Inv acc keep (copyOf vis acc keep t newRows) ∧ (copyOf vis acc keep t newRows).rows = setNumbers keep 0 newRows ∧
    (copyOf vis acc keep t newRows).uidx.map (·.cols) = t.uidx.map (·.cols) ∧
    (copyOf vis acc keep t newRows).midx.map (·.cols) = t.midx.map (·.cols) := by
  have h0 : Inv acc false (Table.mk [] (t.uidx.map (fun u => ({ cols := u.cols } : UIdx))) (t.midx.map (fun m => ({ cols := m.cols } : MIdx)))) := by
    apply Inv_empty _ _ _ rfl
    · intro u hu
      obtain ⟨u0, hu0, rfl⟩ := mem_map.mp hu
      exact ⟨(hinv.uinv u0 hu0).colsNodup, rfl, rfl, rfl⟩
    · intro m hm
      obtain ⟨m0, hm0, rfl⟩ := mem_map.mp hm
      exact ⟨(hinv.minv m0 hm0).colsNodup, rfl, rfl, rfl⟩
  obtain ⟨h1, h2, h3, h4⟩ := fillRows_spec hc acc newRows _ h0 (by simpa using hnd) (by simpa using hai) (by
    intro cs hcs
    simp only [map_map, mem_map, Function.comp] at hcs
    obtain ⟨u, hu, rfl⟩ := hcs
    simpa using hpw u hu)
  simp only [nil_append] at h2
  refine ⟨?_, by unfold copyOf; simp only; rw [h2], by unfold copyOf; simp only; rw [h3]; simp [map_map, Function.comp],
    by unfold copyOf; simp only; rw [h4]; simp [map_map, Function.comp]⟩
  refine Inv_renumbered (t := copyOf vis acc keep t newRows) h1.idsNodup h1.addrInj (Perm.refl _) rfl h1.uinv h1.minv

end copy

/-- rows of a table differ pairwise on the columns of every unique index -/
theorem rows_pairwise_distinct {acc : Acc} {keep : Bool} {t : Table} (hinv : Inv acc keep t) {u : UIdx} (hu : u ∈ t.uidx) :
    t.rows.Pairwise (fun a b => keyEq u.cols a.vals b.vals = false) := by
  have hnd := hinv.idsNodup
  have : t.rows.Pairwise (fun a b => a.id ≠ b.id) := by
    unfold ids at hnd; exact (pairwise_map.mp hnd)
  refine this.imp_of_mem ?_
  intro a b ha hb hne
  by_contra hk
  have hk' : keyEq u.cols a.vals b.vals = true := by simpa using hk
  apply hne
  have := (hinv.uinv u hu).uniq a.id (mem_ids_iff.mpr ⟨a, ha, rfl⟩) b.id (mem_ids_iff.mpr ⟨b, hb, rfl⟩)
  rw [valsOf_mem hnd ha, valsOf_mem hnd hb] at this
  exact this hk'

end Momo.Table
