import Momo.Proof.HashTableOps
/-!
  C01/C11, part 7: whole-table operations that rebuild or filter — `Remove(pred)` and the copy
  constructor. Also the "shrunk generation" lemma shared with `MergeTo`.
-/
namespace Momo.HT
open Momo Momo.Probe

/-! ### a generation whose buckets only lost items keeps its invariant -/

/-- bucket `b'` is bucket `b` after some removals: fewer items, same flags and bound -/
def Shr (b' b : Bucket) : Prop :=
  (∀ x ∈ b'.items, x ∈ b.items) ∧ b'.items.length ≤ b.items.length ∧
  b'.wasFull = b.wasFull ∧ b'.bst = b.bst

theorem forall2_bkt (sp : Spec) (R : Bucket → Bucket → Prop) (hR : R (emptyBucket sp) (emptyBucket sp))
    {bs' bs : List Bucket} (h : List.Forall₂ R bs' bs) : ∀ i, R (bkt sp bs' i) (bkt sp bs i) := by
  induction h with
  | nil => intro i; simpa [bkt] using hR
  | cons hab _ ih =>
    intro i
    cases i with
    | zero => simpa [bkt] using hab
    | succ n => simpa [bkt] using ih n

theorem genInv_shrink (sp : Spec) (hf : Nat → Nat) (g : Gen) (bs' : List Bucket) (hI : GenInv sp hf g)
    (h : List.Forall₂ Shr bs' g.bs) : GenInv sp hf { g with bs := bs' } := by
  have hb := forall2_bkt sp Shr ⟨fun _ h => h, Nat.le_refl _, rfl, rfl⟩ h
  refine ⟨?_, ?_, ?_, ?_, ?_⟩
  · show bs'.length = 2 ^ g.L
    rw [h.length_eq]; exact hI.len
  · intro hu i
    exact Nat.le_trans (hb i).2.1 (hI.size hu i)
  · intro i hi
    show (bkt sp bs' i).wasFull = true
    rw [(hb i).2.2.1]
    apply hI.full i
    have hi' : isFull sp (bkt sp bs' i) = true := hi
    unfold isFull at hi' ⊢
    have := (hb i).2.1
    simp only [Bool.and_eq_true, Bool.not_eq_true', decide_eq_true_eq] at hi' ⊢
    exact ⟨hi'.1, by omega⟩
  · intro i x hx
    obtain ⟨p, e, hp, hq⟩ := hI.place i x ((hb i).1 x hx)
    refine ⟨p, e, ?_, fun q hlt => ?_⟩
    · show p ≤ maxProbe sp g.L (bkt sp bs' _)
      rw [maxProbe_congr sp g.L _ _ (hb _).2.2.2]; exact hp
    · show (bkt sp bs' _).wasFull = true
      rw [(hb _).2.2.1]; exact hq q hlt
  · intro i
    exact BstOK_congr sp _ _ (hb i).2.2.2.symm (hI.enc i)

/-- iterator order of a bucket list -/
def bsItems (bs : List Bucket) : List Item := (bs.map (fun b => b.items.reverse)).flatten

theorem genItems_eq_bsItems (g : Gen) : genItems g = bsItems g.bs := rfl
@[simp] theorem bsItems_nil : bsItems [] = [] := rfl
@[simp] theorem bsItems_cons (b : Bucket) (bs : List Bucket) :
    bsItems (b :: bs) = b.items.reverse ++ bsItems bs := rfl

/-- pointwise "the kept items are those satisfying `P`" lifts to the bucket array -/
theorem bsItems_forall2_filter (P : Item → Bool) {bs' bs : List Bucket}
    (h : List.Forall₂ (fun b' b => b'.items.Perm (b.items.filter P)) bs' bs) :
    (bsItems bs').Perm ((bsItems bs).filter P) := by
  induction h with
  | nil => simp
  | cons hab _ ih =>
    simp only [bsItems_cons, List.filter_append]
    refine List.Perm.append ?_ ih
    exact (List.reverse_perm _).trans (hab.trans ((List.reverse_perm _).filter P).symm)

theorem forall2_map_left {α β : Type} (R : β → α → Prop) (f : α → β) (l : List α)
    (h : ∀ a ∈ l, R (f a) a) : List.Forall₂ R (l.map f) l := by
  induction l with
  | nil => exact List.Forall₂.nil
  | cons a as ih =>
    exact List.Forall₂.cons (h a (by simp)) (ih (fun x hx => h x (by simp [hx])))

theorem forall2_imp {α β : Type} {R S : β → α → Prop} (hRS : ∀ b a, R b a → S b a) {l' : List β}
    {l : List α} (h : List.Forall₂ R l' l) : List.Forall₂ S l' l := by
  induction h with
  | nil => exact List.Forall₂.nil
  | cons hab _ ih => exact List.Forall₂.cons (hRS _ _ hab) ih

theorem length_filter_partition (P : Item → Bool) (l : List Item) :
    (l.filter P).length + (l.filter (fun x => !P x)).length = l.length := by
  induction l with
  | nil => rfl
  | cons a as ih =>
    simp only [List.filter_cons]
    cases P a <;> simp <;> omega

/-! ### `Remove(pred)` -/

/-- the in-place filtering loop of one bucket, in the `take i / drop i` form: positions `< i` are
    still to be examined, the rest is settled -/
theorem removePredBucket_go (pred : Item → Bool) :
    ∀ (i : Nat) (b : Bucket) (r : Nat),
      ((removePredBucket.go pred i b r).1.items).Perm
        ((b.items.take i).filter (fun x => !pred x) ++ b.items.drop i) ∧
      (removePredBucket.go pred i b r).2 + (removePredBucket.go pred i b r).1.items.length
        = r + b.items.length ∧
      (removePredBucket.go pred i b r).1.wasFull = b.wasFull ∧
      (removePredBucket.go pred i b r).1.bst = b.bst := by
  intro i
  induction i with
  | zero => intro b r; simp [removePredBucket.go]
  | succ i ih =>
    intro b r
    simp only [removePredBucket.go]
    cases hi : b.items[i]? with
    | none =>
      simp only
      have hle : b.items.length ≤ i := by simpa using hi
      obtain ⟨a1, a2, a3, a4⟩ := ih b r
      refine ⟨?_, a2, a3, a4⟩
      rw [List.take_of_length_le (by omega), List.drop_of_length_le (by omega)]
      rw [List.take_of_length_le hle, List.drop_of_length_le hle] at a1
      exact a1
    | some it =>
      simp only
      obtain ⟨hilt, hget⟩ := List.getElem?_eq_some_iff.mp hi
      have htake : b.items.take (i + 1) = b.items.take i ++ [it] := by
        rw [List.take_add_one, hi]; rfl
      have hdrop : b.items.drop i = it :: b.items.drop (i + 1) := by
        rw [List.drop_eq_getElem_cons hilt, hget]
      cases hp : pred it with
      | false =>
        simp only [Bool.false_eq_true, if_false]
        obtain ⟨a1, a2, a3, a4⟩ := ih b r
        refine ⟨?_, a2, a3, a4⟩
        rw [htake, List.filter_append]
        simp only [List.filter_cons, hp, Bool.not_false, if_true, List.filter_nil, List.append_assoc,
          List.singleton_append]
        rw [hdrop] at a1; exact a1
      | true =>
        simp only [if_true]
        obtain ⟨a1, a2, a3, a4⟩ := ih (removeAt i b) (r + 1)
        obtain ⟨R, hR, hRp⟩ := removeAt_decomp i b hilt
        have hlen : (b.items.take i).length = i := by simp; omega
        refine ⟨?_, ?_, by rw [a3]; rfl, by rw [a4]; rfl⟩
        · rw [hR, List.take_left' hlen, List.drop_left' hlen] at a1
          rw [htake, List.filter_append]
          simp only [List.filter_cons, hp, Bool.not_true, Bool.false_eq_true, if_false, List.filter_nil,
            List.append_nil]
          exact a1.trans (List.Perm.append_left _ hRp)
        · rw [length_removeAt] at a2; omega

theorem removePredBucket_spec (pred : Item → Bool) (b : Bucket) :
    ((removePredBucket pred b).1.items).Perm (b.items.filter (fun x => !pred x)) ∧
    (removePredBucket pred b).2 + (removePredBucket pred b).1.items.length = b.items.length ∧
    (removePredBucket pred b).1.wasFull = b.wasFull ∧ (removePredBucket pred b).1.bst = b.bst := by
  unfold removePredBucket
  obtain ⟨a1, a2, a3, a4⟩ := removePredBucket_go pred b.items.length b 0
  refine ⟨?_, by omega, a3, a4⟩
  simpa using a1

/-- `foldl` with an appending accumulator and a counter is a `map` and a sum -/
theorem foldl_acc2 {α β : Type} (F : α → β × Nat) (l : List α) (acc : List β) (n : Nat) :
    l.foldl (fun (a : List β × Nat) x => (a.1 ++ [(F x).1], a.2 + (F x).2)) (acc, n)
      = (acc ++ l.map (fun x => (F x).1), n + (l.map (fun x => (F x).2)).sum) := by
  induction l generalizing acc n with
  | nil => simp
  | cons x xs ih =>
    simp only [List.foldl_cons, ih, List.map_cons, List.sum_cons, List.append_assoc,
      List.singleton_append, Nat.add_assoc]

/-- one generation after `Remove(pred)` and the number of items removed from it -/
def rpGen (pred : Item → Bool) (g : Gen) : Gen × Nat :=
  ({ g with bs := g.bs.map (fun b => (removePredBucket pred b).1) },
   (g.bs.map (fun b => (removePredBucket pred b).2)).sum)

theorem removePred_eq (t : Table) (pred : Item → Bool) :
    removePred t pred =
      ({ t with gens := t.gens.map (fun g => (rpGen pred g).1),
                count := t.count - (t.gens.map (fun g => (rpGen pred g).2)).sum },
       (t.gens.map (fun g => (rpGen pred g).2)).sum) := by
  unfold removePred
  have hin : ∀ g : Gen, g.bs.foldl (fun (a : List Bucket × Nat) b =>
        match removePredBucket pred b with
        | (b', r) => (a.1 ++ [b'], a.2 + r)) ([], 0)
      = (g.bs.map (fun b => (removePredBucket pred b).1),
         (g.bs.map (fun b => (removePredBucket pred b).2)).sum) := by
    intro g
    have := foldl_acc2 (removePredBucket pred) g.bs [] 0
    simpa using this
  have hout := foldl_acc2 (rpGen pred) t.gens [] 0
  simp only [hin]
  simp only [List.nil_append, Nat.zero_add] at hout
  unfold rpGen at hout ⊢
  simp only at hout ⊢
  rw [hout]

theorem rpGen_spec (sp : Spec) (hf : Nat → Nat) (pred : Item → Bool) (g : Gen) (hI : GenInv sp hf g) :
    GenInv sp hf (rpGen pred g).1 ∧
    (genItems (rpGen pred g).1).Perm ((genItems g).filter (fun x => !pred x)) ∧
    (rpGen pred g).2 + (genItems (rpGen pred g).1).length = (genItems g).length ∧
    (rpGen pred g).1.L = g.L := by
  unfold rpGen
  simp only
  have hF : List.Forall₂ (fun b' b => b'.items.Perm (b.items.filter (fun x => !pred x)) ∧
      b'.wasFull = b.wasFull ∧ b'.bst = b.bst)
      (g.bs.map (fun b => (removePredBucket pred b).1)) g.bs :=
    forall2_map_left _ _ _ (fun b _ => by
      obtain ⟨a1, _, a3, a4⟩ := removePredBucket_spec pred b; exact ⟨a1, a3, a4⟩)
  refine ⟨?_, ?_, ?_, by simp⟩
  · apply genInv_shrink sp hf g _ hI
    refine forall2_imp ?_ hF
    intro b' b ⟨h1, h2, h3⟩
    refine ⟨fun x hx => ?_, ?_, h2, h3⟩
    · have := (h1.mem_iff).mp hx
      exact (List.mem_filter.mp this).1
    · rw [h1.length_eq]; exact List.length_filter_le _ _
  · exact bsItems_forall2_filter _ (forall2_imp (fun _ _ h => h.1) hF)
  · rw [genItems_eq_bsItems, genItems_eq_bsItems]
    simp only
    generalize g.bs = bs
    induction bs with
    | nil => simp
    | cons b rest ih =>
      obtain ⟨_, a2, _, _⟩ := removePredBucket_spec pred b
      simp only [List.map_cons, List.sum_cons, bsItems_cons, List.length_append, List.length_reverse]
      omega

/-- **`Remove(pred)`**: the invariant is kept, exactly the items satisfying the predicate leave the
    traversal, and the returned number is their count -/
theorem removePred_spec (sp : Spec) (hf : Nat → Nat) (t : Table) (pred : Item → Bool)
    (hI : TableInv sp hf t) :
    TableInv sp hf (removePred t pred).1 ∧
    (traverse (removePred t pred).1).Perm ((traverse t).filter (fun x => !pred x)) ∧
    (removePred t pred).2 = ((traverse t).filter pred).length := by
  rw [removePred_eq]
  simp only
  have hgens : ∀ gs : List Gen, (∀ g ∈ gs, GenInv sp hf g) →
      (gensItems (gs.map (fun g => (rpGen pred g).1))).Perm ((gensItems gs).filter (fun x => !pred x)) ∧
      (gs.map (fun g => (rpGen pred g).2)).sum + (gensItems (gs.map (fun g => (rpGen pred g).1))).length
        = (gensItems gs).length := by
    intro gs
    induction gs with
    | nil => intro _; simp
    | cons g rest ih =>
      intro h
      obtain ⟨_, b2, b3, _⟩ := rpGen_spec sp hf pred g (h g (by simp))
      obtain ⟨c1, c2⟩ := ih (fun g' hg' => h g' (by simp [hg']))
      simp only [List.map_cons, gensItems_cons, List.filter_append, List.sum_cons, List.length_append]
      exact ⟨List.Perm.append b2 c1, by omega⟩
  obtain ⟨hp, hsum⟩ := hgens t.gens hI.core.gens
  have hp' : (traverse { t with gens := t.gens.map (fun g => (rpGen pred g).1), count := t.count - (t.gens.map (fun g => (rpGen pred g).2)).sum }).Perm
      ((traverse t).filter (fun x => !pred x)) := hp
  have hpart := length_filter_partition pred (traverse t)
  have hlen := hp.length_eq
  rw [← traverse_eq_gensItems] at hsum hlen
  refine ⟨⟨⟨?_, ?_, ?_, ?_, ?_⟩, ?_⟩, hp', ?_⟩
  · intro g' hg'
    obtain ⟨g, hg, rfl⟩ := List.mem_map.mp hg'
    exact (rpGen_spec sp hf pred g (hI.core.gens g hg)).1
  · have hsub : (((traverse t).filter (fun x => !pred x)).map (·.key)).Sublist ((traverse t).map (·.key)) :=
      List.Sublist.map _ List.filter_sublist
    exact nodup_keys_perm hp' (hI.core.nodup.sublist hsub)
  · show t.count - _ = (gensItems (t.gens.map (fun g => (rpGen pred g).1))).length
    rw [hI.core.count]; omega
  · intro hu g' rest' hgr
    show t.cap ≤ _
    cases hgs : t.gens with
    | nil => rw [hgs] at hgr; simp at hgr
    | cons g0 rest0 =>
      rw [hgs] at hgr
      simp only [List.map_cons, List.cons.injEq] at hgr
      obtain ⟨rfl, _⟩ := hgr
      exact hI.core.capLe hu g0 rest0 hgs
  · intro h
    have : t.gens = [] := by simpa using h
    exact hI.core.capNil this
  · intro hnr
    show (t.gens.map _).length ≤ 1
    rw [List.length_map]; exact hI.single hnr
  · omega

/-! ### the copy constructor -/

/-- the loop of the copy constructor: items added one by one to a single bucket array -/
theorem foldl_add_spec (sp : Spec) (hf : Nat → Nat) (ok : SpecOK sp) :
    ∀ (l : List Item) (g : Gen), GenInv sp hf g →
      (sp.unlimited = true ∨ (genItems g).length + l.length ≤ 2 ^ g.L * sp.maxCount) →
      GenInv sp hf (l.foldl (fun g it => match addNogrowGen sp g (hf it.key) it with
        | some (g', _) => g' | none => g) g) ∧
      (genItems (l.foldl (fun g it => match addNogrowGen sp g (hf it.key) it with
        | some (g', _) => g' | none => g) g)).Perm (l ++ genItems g) ∧
      (l.foldl (fun g it => match addNogrowGen sp g (hf it.key) it with
        | some (g', _) => g' | none => g) g).L = g.L := by
  intro l
  induction l with
  | nil => intro g hI _; exact ⟨hI, List.Perm.refl _, rfl⟩
  | cons it rest ih =>
    intro g hI hroom
    simp only [List.foldl_cons]
    have hsome := addNogrowGen_isSome sp g (hf it.key) it hI.len (by
      rcases hroom with h | h
      · exact Or.inl h
      · right; rw [genCount_eq]; simp only [List.length_cons] at h; omega)
    cases hadd : addNogrowGen sp g (hf it.key) it with
    | none => rw [hadd] at hsome; cases hsome
    | some r =>
      obtain ⟨g', idx⟩ := r
      simp only
      obtain ⟨hI', hperm, hL⟩ := addNogrowGen_inv sp hf ok g g' it idx hI hadd
      obtain ⟨a1, a2, a3⟩ := ih g' hI' (by
        rcases hroom with h | h
        · exact Or.inl h
        · right
          have := hperm.length_eq
          simp only [List.length_cons] at this h
          rw [hL]; omega)
      refine ⟨a1, ?_, by rw [a3, hL]⟩
      refine a2.trans ?_
      simp only [List.cons_append]
      exact (List.Perm.append_left _ hperm).trans List.perm_middle

/-- the bucket-array size the copy constructor picks -/
def copyLog (sp : Spec) (t : Table) : Nat := copyOf.pick sp t 64 sp.logStart

/-- the copy's single bucket array has a slot for every element. (It does whenever the count does
    not exceed the capacity of `2^(logStart+63)` buckets: `copyFits_of_cap`.) -/
def CopyFits (sp : Spec) (t : Table) : Prop :=
  sp.unlimited = true ∨ t.count ≤ 2 ^ copyLog sp t * sp.maxCount

theorem pick_spec (sp : Spec) (t : Table) : ∀ fuel L, (∃ j, j < fuel ∧ t.count ≤ capacityOf sp (L + j)) →
    t.count ≤ capacityOf sp (copyOf.pick sp t fuel L) := by
  intro fuel
  induction fuel with
  | zero => intro L ⟨j, hj, _⟩; omega
  | succ f ih =>
    intro L ⟨j, hj, hc⟩
    simp only [copyOf.pick]
    split
    · rename_i h; exact h
    · rename_i h
      apply ih (L + 1)
      cases j with
      | zero => simp at hc; exact absurd hc h
      | succ j' => exact ⟨j', by omega, by rw [show L + 1 + j' = L + (j' + 1) by omega]; exact hc⟩

theorem copyFits_of_cap (sp : Spec) (ok : SpecOK sp) (t : Table)
    (h : ∃ j, j < 64 ∧ t.count ≤ capacityOf sp (sp.logStart + j)) : CopyFits sp t := by
  unfold CopyFits copyLog
  cases hu : sp.unlimited with
  | true => exact Or.inl rfl
  | false => exact Or.inr (Nat.le_trans (pick_spec sp t 64 _ h) (ok.capLe hu _))

/-- **copy constructor**: the copy satisfies the invariant and holds the same items -/
theorem copyOf_spec (sp : Spec) (hf : Nat → Nat) (ok : SpecOK sp) (t : Table) (hI : TableInv sp hf t)
    (hfit : CopyFits sp t) :
    TableInv sp hf (copyOf sp hf t) ∧ (traverse (copyOf sp hf t)).Perm (traverse t) := by
  unfold copyOf
  split
  · rename_i h0
    have hc := hI.core.count
    have h0' : t.count = 0 := by simpa using h0
    rw [h0'] at hc
    have : traverse t = [] := List.eq_nil_of_length_eq_zero hc.symm
    rw [this]
    exact ⟨emptyTable_inv sp hf, List.Perm.refl _⟩
  · simp only
    have hroom : sp.unlimited = true ∨
        (genItems (emptyGen sp (copyLog sp t))).length + (traverse t).length
          ≤ 2 ^ (emptyGen sp (copyLog sp t)).L * sp.maxCount := by
      rcases hfit with h | h
      · exact Or.inl h
      · right; rw [← hI.core.count]; simpa using h
    obtain ⟨a1, a2, a3⟩ := foldl_add_spec sp hf ok (traverse t) (emptyGen sp (copyLog sp t))
      (emptyGen_inv sp hf ok _) hroom
    unfold copyLog at a1 a2 a3
    generalize hg : (traverse t).foldl (fun g it => match addNogrowGen sp g (hf it.key) it with
        | some (g', _) => g' | none => g) (emptyGen sp (copyOf.pick sp t 64 sp.logStart)) = g at *
    simp only [genItems_emptyGen, List.append_nil, emptyGen_L] at a2 a3
    have hp : (traverse { gens := [g], count := t.count, cap := capacityOf sp (copyOf.pick sp t 64 sp.logStart) }).Perm (traverse t) := by
      rw [traverse_eq_gensItems]; simpa using a2
    refine ⟨⟨⟨?_, ?_, ?_, ?_, ?_⟩, fun _ => by simp⟩, hp⟩
    · intro g' hg'
      simp only [List.mem_singleton] at hg'; subst hg'; exact a1
    · exact nodup_keys_perm hp hI.core.nodup
    · show t.count = _
      rw [hp.length_eq]; exact hI.core.count
    · intro hu g' rest' hgr
      simp only [List.cons.injEq] at hgr
      obtain ⟨rfl, _⟩ := hgr
      show capacityOf sp _ ≤ _
      rw [a3]; exact ok.capLe hu _
    · intro h; simp at h

instance (sp : Spec) (t : Table) : Decidable (CopyFits sp t) :=
  inferInstanceAs (Decidable (sp.unlimited = true ∨ t.count ≤ 2 ^ copyLog sp t * sp.maxCount))

end Momo.HT
