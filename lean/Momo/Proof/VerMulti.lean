import Momo.Proof.VerTree
/-!
  HashMultiMap (C15): two version cells per object.  Every entry point increments the key version whenever the
  key set (or the capacity of the nested map) changes, and one of the two versions whenever anything changes;
  key iterators check the key version, value iterators both.  Core Lean only.
-/
namespace Momo.Ver

def MMap.keysOf (m : MMap) : List Nat := m.kv.map (·.1)

/-- effect of one call on one multimap: the cells stay, the key cell is incremented `nk` times, the value cell `nv`
    times; `nk > 0` when the key list or the nested capacity changed, `nk + nv > 0` when anything changed -/
def MEff (cs : Cells) (m : MMap) (cs' : Cells) (m' : MMap) : Prop :=
  m'.kcell = m.kcell ∧ m'.vcell = m.vcell ∧ ∃ nk nv, cs' = bumpN (bumpN cs m.kcell nk) m.vcell nv ∧
    ((m'.keysOf ≠ m.keysOf ∨ m'.cap ≠ m.cap) → 0 < nk) ∧ (m'.kv ≠ m.kv → 0 < nk + nv)

theorem MEff.refl (cs : Cells) (m : MMap) : MEff cs m cs m :=
  ⟨rfl, rfl, 0, 0, by rw [bumpN_zero, bumpN_zero], by simp, fun h => absurd rfl h⟩

/-- only the value version moves (keys and capacity untouched) -/
theorem MEff.values {cs : Cells} {m m' : MMap} {n : Nat} (hn : 0 < n) (hk : m'.kcell = m.kcell) (hv : m'.vcell = m.vcell)
    (hkeys : m'.keysOf = m.keysOf) (hcap : m'.cap = m.cap) : MEff cs m (bumpN cs m.vcell n) m' :=
  ⟨hk, hv, 0, n, by rw [bumpN_zero], fun h => by rcases h with h | h <;> contradiction, fun _ => by omega⟩

theorem MEff.both {cs cs' : Cells} {m m' : MMap} (hcs : cs' = bump (bump cs m.kcell) m.vcell)
    (hk : m'.kcell = m.kcell) (hv : m'.vcell = m.vcell) : MEff cs m cs' m' :=
  ⟨hk, hv, 1, 1, hcs, fun _ => Nat.one_pos, fun _ => by omega⟩

theorem MEff.keyOnly {cs cs' : Cells} {m m' : MMap} (hcs : cs' = bump cs m.kcell)
    (hk : m'.kcell = m.kcell) (hv : m'.vcell = m.vcell) : MEff cs m cs' m' :=
  ⟨hk, hv, 1, 0, by rw [hcs, bumpN_zero]; rfl, fun _ => Nat.one_pos, fun _ => by omega⟩

namespace MMap

theorem keysOf_setVals (m : MMap) (k : Nat) (vs : List Nat) : (m.setVals k vs).keysOf = m.keysOf := by
  simp only [setVals, keysOf, List.map_map]
  apply List.map_congr_left
  intro p _
  simp only [Function.comp]
  split
  · rename_i h; simp at h; exact h.symm
  · rfl

theorem pushValue_eff (m : MMap) (cs : Cells) (k v : Nat) : MEff cs m (m.pushValue cs k v).1 (m.pushValue cs k v).2 :=
  MEff.values (n := 1) Nat.one_pos rfl rfl (keysOf_setVals _ _ _) rfl

theorem add_eff (m : MMap) (cs : Cells) (k v nc : Nat) : MEff cs m (m.add cs k v nc).1 (m.add cs k v nc).2.1 := by
  unfold add
  split
  · exact pushValue_eff m cs k v
  · exact MEff.both rfl rfl rfl

theorem addAt_eff {m : MMap} {cs : Cells} {h : HPos} {v : Nat} {r} (hr : m.addAt cs h v = some r) : MEff cs m r.1 r.2.1 := by
  unfold addAt at hr
  cases hk : m.mutKey cs h <;> simp [hk] at hr
  subst hr
  exact pushValue_eff m cs _ v

theorem insertKey_eff (m : MMap) (cs : Cells) (k nc : Nat) : MEff cs m (m.insertKey cs k nc).1 (m.insertKey cs k nc).2.1 := by
  unfold insertKey
  split
  · exact MEff.refl cs m
  · exact MEff.keyOnly rfl rfl rfl

theorem addKey_eff {m : MMap} {cs : Cells} {h : HPos} {k nc : Nat} {r} (hr : m.addKey cs h k nc = some r) : MEff cs m r.1 r.2.1 := by
  unfold addKey at hr
  cases h1 : chk (h.kp.checkAt cs m.kcell false) <;> simp [h1] at hr
  cases h2 : chk h.elem.isNone <;> simp [h2] at hr
  subst hr
  exact MEff.keyOnly rfl rfl rfl

theorem dropValue_eff (m : MMap) (cs : Cells) (k i : Nat) : MEff cs m (m.dropValue cs k i).1 (m.dropValue cs k i).2 :=
  MEff.values (n := 1) Nat.one_pos rfl rfl (keysOf_setVals _ _ _) rfl

theorem removeAt_eff {m : MMap} {cs : Cells} {h : HPos} {i : Nat} {to} {r} (hr : m.removeAt cs h i to = some r) :
    MEff cs m r.1 r.2.1 := by
  unfold removeAt at hr
  cases hk : m.kderef cs h <;> simp [hk] at hr
  rename_i kc
  cases h2 : chk (decide (i < kc.2)) <;> simp [h2] at hr
  cases h3 : m.mutKey cs h <;> simp [h3] at hr
  subst hr
  exact dropValue_eff m cs _ i

theorem remove_eff {m : MMap} {cs : Cells} {it : VIt} {to} {r} (hr : m.remove cs it to = some r) : MEff cs m r.1 r.2.1 := by
  unfold remove at hr
  cases h1 : chk (it.vp.checkAt cs m.vcell false) <;> simp [h1] at hr
  cases h2 : it.vidx <;> simp [h2] at hr
  cases h3 : m.mutKey cs it.kit <;> simp [h3] at hr
  subst hr
  exact dropValue_eff m cs _ _

theorem removeValues_eff {m : MMap} {cs : Cells} {h : HPos} {to} {r} (hr : m.removeValues cs h to = some r) :
    MEff cs m r.1 r.2.1 := by
  unfold removeValues at hr
  cases h3 : m.mutKey cs h <;> simp [h3] at hr
  subst hr
  exact MEff.values (n := 1) Nat.one_pos rfl rfl (keysOf_setVals _ _ _) rfl

theorem removeKey_eff {m : MMap} {cs : Cells} {h : HPos} {nx} {r} (hr : m.removeKey cs h nx = some r) : MEff cs m r.1 r.2.1 := by
  unfold removeKey at hr
  cases h3 : m.mutKey cs h <;> simp [h3] at hr
  cases h4 : chk (m.cap != 0) <;> simp [h4] at hr
  subst hr
  exact MEff.both rfl rfl rfl

theorem removeKeyByKey_eff (m : MMap) (cs : Cells) (k : Nat) :
    MEff cs m (m.removeKeyByKey cs k).1 (m.removeKeyByKey cs k).2.1 := by
  unfold removeKeyByKey
  split
  · exact MEff.both rfl rfl rfl
  · exact MEff.refl cs m

theorem sum_eq_zero_all {l : List Nat} (h : l.sum = 0) : ∀ x ∈ l, x = 0 := by
  induction l with
  | nil => intro x hx; simp at hx
  | cons a as ih =>
    intro x hx
    simp only [List.sum_cons] at h
    rcases List.mem_cons.mp hx with rfl | hx
    · omega
    · exact ih (by omega) x hx

theorem swapFilter_id (p : Nat → Bool) : ∀ (fuel i : Nat) (l : List Nat), (∀ x ∈ l, p x = false) → swapFilter p fuel i l = l := by
  intro fuel
  induction fuel with
  | zero => intro i l _; rfl
  | succ n ih =>
    intro i l h
    unfold swapFilter
    cases hx : l[i]? with
    | none => rfl
    | some x =>
      have hm : x ∈ l := List.mem_of_getElem? hx
      simp only [h x hm, Bool.false_eq_true, ↓reduceIte]
      exact ih (i + 1) l h

theorem removeIf_eff (m : MMap) (cs : Cells) (mo r : Nat) : MEff cs m (m.removeIf cs mo r).1 (m.removeIf cs mo r).2.1 := by
  refine ⟨rfl, rfl, 0, (m.kv.map (fun p => (p.2.filter (fun v => v % mo == r)).length)).sum, ?_, ?_, ?_⟩
  · rw [bumpN_zero]; rfl
  · intro h
    exfalso
    simp only [removeIf, keysOf, List.map_map] at h
    rcases h with h | h
    · exact h (List.map_congr_left (fun _ _ => rfl))
    · exact h rfl
  · intro h
    simp only [removeIf] at h
    apply Nat.pos_of_ne_zero
    intro hz
    apply h
    rw [Nat.zero_add] at hz
    have hall := sum_eq_zero_all hz
    have : ∀ p ∈ m.kv, (p.1, swapFilter (fun v => v % mo == r) (2 * p.2.length) 0 p.2) = p := by
      intro p hp
      have h0 := hall _ (List.mem_map_of_mem (f := fun p : Nat × List Nat => (p.2.filter (fun v => v % mo == r)).length) hp)
      have hnil := List.length_eq_zero_iff.mp h0
      have : swapFilter (fun v => v % mo == r) (2 * p.2.length) 0 p.2 = p.2 := by
        apply swapFilter_id
        intro v hv
        have := List.filter_eq_nil_iff.mp hnil v hv
        simpa using this
      rw [this]
    calc m.kv.map (fun p => (p.1, swapFilter (fun v => v % mo == r) (2 * p.2.length) 0 p.2)) = m.kv.map id :=
          List.map_congr_left (fun p hp => this p hp)
      _ = m.kv := List.map_id _

/-- `Clear`; the nested map has no buckets only while it is empty (`hinv`) -/
theorem clear_eff (m : MMap) (cs : Cells) (hinv : m.cap = 0 → m.kv = []) : MEff cs m (m.clear cs).1 (m.clear cs).2 := by
  unfold clear
  split
  · rename_i hc
    have hc' : m.cap = 0 := by simpa using hc
    refine ⟨rfl, rfl, 0, 1, by rw [bumpN_zero]; rfl, ?_, fun _ => by omega⟩
    intro h
    exfalso
    rcases h with h | h
    · simp only [keysOf, hinv hc', List.map_nil] at h
      exact h rfl
    · exact h hc'.symm
  · exact MEff.both rfl rfl rfl

end MMap
end Momo.Ver

namespace Momo.Ver
namespace MMap

theorem deref_none_of_check {h : HPos} {cs : Cells} (hc : h.kp.check cs = false) : h.deref cs = none := by
  simp [HPos.deref, hc, chk]

theorem mutKey_none_of_check {m : MMap} {h : HPos} {cs : Cells} (hc : h.kp.check cs = false) : m.mutKey cs h = none := by
  unfold mutKey
  cases chk (h.kp.checkAt cs m.kcell true) <;> simp [deref_none_of_check hc]

/-- **key iterator whose key version moved** (`InsertKey`, `Add` of a new key, `RemoveKey`, `Clear`, growth of the nested
    map …): every entry point that takes it throws -/
theorem key_uses_rejected (m : MMap) (cs : Cells) (h : HPos) (hc : h.kp.check cs = false) (hs : ∀ ae, h.kp.checkAt cs m.kcell ae = false) :
    m.kderef cs h = none ∧ (∀ n, h.inc cs n = none) ∧ (∀ v, m.addAt cs h v = none) ∧ (∀ k nc, m.addKey cs h k nc = none) ∧
    (∀ i to, m.removeAt cs h i to = none) ∧ (∀ to, m.removeValues cs h to = none) ∧ (∀ nx, m.removeKey cs h nx = none) ∧
    (∀ k, m.resetKey cs h k = none) ∧ (∀ i to, (h.elem.isSome = true ∨ i ≠ 0) → m.makeIt cs h i to = none) ∧
    (∀ ae, m.checkKey cs h ae = none) := by
  have hd := deref_none_of_check hc
  have hm : m.mutKey cs h = none := mutKey_none_of_check hc
  refine ⟨?_, ?_, ?_, ?_, ?_, ?_, ?_, ?_, ?_, ?_⟩
  · simp [kderef, hd]
  · intro n; simp [HPos.inc, hd]
  · intro v; simp [addAt, hm]
  · intro k nc; simp [addKey, hs, chk]
  · intro i to; simp [removeAt, kderef, hd]
  · intro to; simp [removeValues, hm]
  · intro nx; simp [removeKey, hm]
  · intro k; simp [resetKey, hs, chk]
  · intro i to hne
    unfold makeIt
    have : (h.elem.isNone && i == 0) = false := by
      rcases hne with h1 | h1
      · cases he : h.elem <;> simp_all
      · simp [h1]
    simp [this, hs, chk]
  · intro ae; simp [checkKey, hs, chk]

/-- stale / foreign key keepers fail both forms of the check -/
theorem key_stale_rejected (m : MMap) (cs : Cells) (h : HPos) (hs : Stale h.kp cs) :
    m.kderef cs h = none ∧ (∀ v, m.addAt cs h v = none) ∧ (∀ i to, m.removeAt cs h i to = none) ∧
    (∀ to, m.removeValues cs h to = none) ∧ (∀ nx, m.removeKey cs h nx = none) ∧ (∀ k, m.resetKey cs h k = none) ∧
    (∀ k nc, m.addKey cs h k nc = none) ∧ (∀ n, h.inc cs n = none) :=
  let r := key_uses_rejected m cs h hs.check (fun ae => hs.checkAt _ ae)
  ⟨r.1, r.2.2.1, r.2.2.2.2.1, r.2.2.2.2.2.1, r.2.2.2.2.2.2.1, r.2.2.2.2.2.2.2.1, r.2.2.2.1, r.2.1⟩

/-- **value iterator**: it is rejected when the value version moved since it was made (any `Add`, `Remove`, `RemoveValues`,
    `RemoveKey`, `Clear`) and also when only the key version moved (`InsertKey` / `AddKeyCrt`: its key iterator is stale) -/
theorem value_uses_rejected (m : MMap) (cs : Cells) (it : VIt) (hv : it.vidx.isSome = true)
    (hs : Stale it.vp cs ∨ Stale it.kit.kp cs) :
    m.vderef cs it = none ∧ (∀ to, MMap.vinc cs it to = none) ∧ (∀ to, m.remove cs it to = none) ∧
    m.makeMutable cs it = none ∧ (∀ ae, m.checkIt cs it ae = none) := by
  obtain ⟨i, hi⟩ := Option.isSome_iff_exists.mp hv
  have hn : it.vidx.isNone = false := by simp [hi]
  rcases hs with hs | hs
  · have h1 := hs.check
    have h2 := hs.checkAt m.vcell false
    refine ⟨?_, ?_, ?_, ?_, ?_⟩
    · simp [vderef, h1, chk]
    · intro to; simp [vinc, h1, chk]
    · intro to; simp [remove, h2, chk]
    · simp [makeMutable, hn, h2, chk]
    · intro ae
      unfold checkIt
      cases chk (it.kit.kp.checkAt cs m.kcell ae) <;> simp [hi, h2, chk]
  · have hd := deref_none_of_check hs.check
    have hm : m.mutKey cs it.kit = none := mutKey_none_of_check hs.check
    refine ⟨?_, ?_, ?_, ?_, ?_⟩
    · unfold vderef; cases chk (it.vp.check cs) <;> simp [hi, hd]
    · intro to; unfold vinc; cases chk (it.vp.check cs) <;> simp [hi, hd]
    · intro to; unfold remove; cases chk (it.vp.checkAt cs m.vcell false) <;> simp [hi, hm]
    · unfold makeMutable; simp only [hn, Bool.false_eq_true, ↓reduceIte]
      cases chk (it.vp.checkAt cs m.vcell false) <;> simp [hm]
    · intro ae; simp [checkIt, hs.checkAt, chk]

/-- the end iterator / a null value iterator where a value is required -/
theorem value_end_rejected (m : MMap) (cs : Cells) (it : VIt) (hv : it.vidx = none) :
    m.vderef cs it = none ∧ (∀ to, MMap.vinc cs it to = none) ∧ (∀ to, m.remove cs it to = none) := by
  refine ⟨?_, ?_, ?_⟩
  · unfold vderef; cases chk (it.vp.check cs) <;> simp [hv]
  · intro to; unfold vinc; cases chk (it.vp.check cs) <;> simp [hv]
  · intro to; unfold remove; cases chk (it.vp.checkAt cs m.vcell false) <;> simp [hv]

/-- **no false positive**: a value iterator made from the current versions, pointing at value `i` of a stored key `k` -/
theorem value_fresh_accepted (m : MMap) (cs : Cells) (k i : Nat) (mv : Bool) (vs : List Nat) (hk : m.vals k = some vs) (hi : i < vs.length) :
    let it : VIt := ⟨⟨snap cs m.kcell, some k, mv⟩, snap cs m.vcell, some i⟩
    (m.vderef cs it).isSome = true ∧ (∀ to, (MMap.vinc cs it to).isSome = true) ∧ (∀ to, (m.remove cs it to).isSome = true) ∧
    (m.makeMutable cs it).isSome = true ∧ (∀ ae, (m.checkIt cs it ae).isSome = true) := by
  intro it
  have hd : it.kit.deref cs = some k := by simp [it, HPos.deref, snap_check, chk]
  have hm : m.mutKey cs it.kit = some k := by simp [mutKey, it, snap_checkAt, chk, HPos.deref, snap_check]
  refine ⟨?_, ?_, ?_, ?_, ?_⟩
  · simp only [vderef, it, snap_check, chk, ↓reduceIte, Option.bind_eq_bind, Option.bind_some]
    simp only [it] at hd
    rw [hd]; simp [hk, hi]
  · intro to
    simp only [vinc, it, snap_check, chk, ↓reduceIte, Option.bind_eq_bind, Option.bind_some]
    simp only [it] at hd
    rw [hd]; simp
  · intro to
    simp only [remove, it, snap_checkAt, chk, ↓reduceIte, Option.bind_eq_bind, Option.bind_some]
    simp only [it] at hm
    rw [hm]; simp
  · simp only [makeMutable, it, Option.isNone_some, Bool.false_eq_true, ↓reduceIte, snap_checkAt, chk, Option.bind_eq_bind, Option.bind_some]
    simp only [it] at hm
    rw [hm]; simp
  · intro ae; simp [checkIt, it, snap_checkAt, chk]

/-- a key iterator made from the current key version, pointing at a stored key -/
theorem key_fresh_accepted (m : MMap) (cs : Cells) (k : Nat) (mv : Bool) (vs : List Nat) (hk : m.vals k = some vs) (hcap : m.cap ≠ 0) :
    let h : HPos := ⟨snap cs m.kcell, some k, mv⟩
    (m.kderef cs h).isSome = true ∧ (∀ v, (m.addAt cs h v).isSome = true) ∧ (∀ to, (m.removeValues cs h to).isSome = true) ∧
    (∀ nx, (m.removeKey cs h nx).isSome = true) ∧ (∀ k', (m.resetKey cs h k').isSome = true) ∧
    (∀ i to, i < vs.length → (m.removeAt cs h i to).isSome = true) ∧ (∀ i to, i ≤ vs.length → (m.makeIt cs h i to).isSome = true) := by
  intro h
  have hd : h.deref cs = some k := by simp [h, HPos.deref, snap_check, chk]
  have hm : m.mutKey cs h = some k := by simp [mutKey, h, snap_checkAt, chk, HPos.deref, snap_check]
  have hkd : m.kderef cs h = some (k, vs.length) := by simp [kderef, hd, hk]
  refine ⟨by simp [hkd], ?_, ?_, ?_, ?_, ?_, ?_⟩
  · intro v; simp [addAt, hm]
  · intro to; simp [removeValues, hm]
  · intro nx; simp [removeKey, hm, chk, hcap]
  · intro k'; simp [resetKey, h, snap_checkAt, chk]
  · intro i to hi; simp [removeAt, hkd, chk, hi, hm]
  · intro i to hi
    unfold makeIt
    simp only [h, Option.isNone_some, Bool.false_and, Bool.false_eq_true, ↓reduceIte, snap_checkAt, chk, Option.bind_eq_bind, Option.bind_some]
    simp only [h] at hkd
    rw [hkd]; simp [hi]

end MMap

namespace MWorld

theorem step_reject_unchanged (w : MWorld) (op : MOp) (h : (w.step op).2 = none) : (w.step op).1 = w := by
  cases op <;> simp only [step] at h ⊢ <;> first | rfl | (split at h <;> simp_all) | simp_all

end MWorld
end Momo.Ver

namespace Momo.Ver

/-- the object a mutating entry point of HashMultiMap is called on -/
def MOp.target : MOp → Option Bool
  | .add o _ _ _ => some o
  | .addAt o _ _ => some o
  | .insertKey o _ _ => some o
  | .addKey o _ _ _ => some o
  | .removeAt o _ _ _ => some o
  | .remove o _ _ => some o
  | .removeValues o _ _ => some o
  | .removeKey o _ _ => some o
  | .removeKeyByKey o _ => some o
  | .removeIf o _ _ => some o
  | .clear o => some o
  | _ => none

namespace MWorld

theorem setObj_cs (w : MWorld) (o : Bool) (cs' : Cells) (m' : MMap) : (w.setObj o cs' m').cs = cs' := by
  cases o <;> rfl
theorem setObj_obj_same (w : MWorld) (o : Bool) (cs' : Cells) (m' : MMap) : (w.setObj o cs' m').obj o = m' := by
  cases o <;> rfl

/-- **version table of HashMultiMap**: every mutating entry point (ResetKey and Swap aside) leaves the object's two cells in
    place, increments the key version whenever the key list or the nested capacity changed and at least one of the
    two versions whenever anything changed; calls that throw change nothing -/
theorem step_eff (w : MWorld) (op : MOp) (o : Bool) (ht : op.target = some o)
    (hinv : (w.obj o).cap = 0 → (w.obj o).kv = []) :
    MEff w.cs (w.obj o) (w.step op).1.cs ((w.step op).1.obj o) := by
  cases op <;> simp only [MOp.target, Option.some.injEq, reduceCtorEq] at ht <;> subst ht <;> simp only [step]
  case add k v nc => rw [setObj_cs, setObj_obj_same]; exact MMap.add_eff _ _ _ _ _
  case addAt o h v =>
    split
    · rename_i r hr; rw [setObj_cs, setObj_obj_same]; exact MMap.addAt_eff hr
    · exact MEff.refl _ _
  case insertKey o k nc => rw [setObj_cs, setObj_obj_same]; exact MMap.insertKey_eff _ _ _ _
  case addKey o h k nc =>
    split
    · rename_i r hr; rw [setObj_cs, setObj_obj_same]; exact MMap.addKey_eff hr
    · exact MEff.refl _ _
  case removeAt o h i to =>
    split
    · rename_i r hr; rw [setObj_cs, setObj_obj_same]; exact MMap.removeAt_eff hr
    · exact MEff.refl _ _
  case remove o it to =>
    split
    · rename_i r hr; rw [setObj_cs, setObj_obj_same]; exact MMap.remove_eff hr
    · exact MEff.refl _ _
  case removeValues o h to =>
    split
    · rename_i r hr; rw [setObj_cs, setObj_obj_same]; exact MMap.removeValues_eff hr
    · exact MEff.refl _ _
  case removeKey o h nx =>
    split
    · rename_i r hr; rw [setObj_cs, setObj_obj_same]; exact MMap.removeKey_eff hr
    · exact MEff.refl _ _
  case removeKeyByKey o k => rw [setObj_cs, setObj_obj_same]; exact MMap.removeKeyByKey_eff _ _ _
  case removeIf o mo r => rw [setObj_cs, setObj_obj_same]; exact MMap.removeIf_eff _ _ _ _
  case clear o => rw [setObj_cs, setObj_obj_same]; exact MMap.clear_eff _ _ hinv

end MWorld

/-- consequences of `MEff` for handles made before the call (cells distinct, fewer than 2^64 increments overall) -/
theorem MEff.key_stale {cs cs' : Cells} {m m' : MMap} (he : MEff cs m cs' m') (hne : m.kcell ≠ m.vcell)
    (hchg : m'.keysOf ≠ m.keysOf ∨ m'.cap ≠ m.cap) (hlt : cs' m.kcell < cs m.kcell + W) : Stale (snap cs m.kcell) cs' := by
  obtain ⟨_, _, nk, nv, hcs, hk, _⟩ := he
  have hpos := hk hchg
  apply snap_stale _ hlt
  rw [hcs, bumpN_other _ _ hne, bumpN_same]; omega

theorem MEff.value_stale {cs cs' : Cells} {m m' : MMap} (he : MEff cs m cs' m') (hne : m.kcell ≠ m.vcell)
    (hchg : m'.kv ≠ m.kv) (hlt1 : cs' m.kcell < cs m.kcell + W) (hlt2 : cs' m.vcell < cs m.vcell + W) :
    Stale (snap cs m.vcell) cs' ∨ Stale (snap cs m.kcell) cs' := by
  obtain ⟨_, _, nk, nv, hcs, _, hv⟩ := he
  have hpos := hv hchg
  by_cases h0 : 0 < nv
  · left
    apply snap_stale _ hlt2
    rw [hcs, bumpN_same, bumpN_other _ _ (fun e => hne e.symm)]; omega
  · right
    apply snap_stale _ hlt1
    rw [hcs, bumpN_other _ _ hne, bumpN_same]; omega

end Momo.Ver

namespace Momo.Ver

/-! ### HashMultiMap: the two-object world, uses of handles, histories -/

/-- the key iterator an entry point requires to be valid (`MakeIterator(keyIter, 0)` with an empty key iterator returns the
    end iterator without looking at it, HashMultiMap.h:1219) -/
def MOp.khandle : MOp → Option HPos
  | .kderef h => some h
  | .kinc h _ => some h
  | .addAt _ h _ => some h
  | .addKey _ h _ _ => some h
  | .removeAt _ h _ _ => some h
  | .removeValues _ h _ => some h
  | .removeKey _ h _ => some h
  | .resetKey _ h _ => some h
  | .makeIt _ h i _ => if h.elem.isSome || i != 0 then some h else none
  | .checkKey _ h _ => some h
  | _ => none

/-- the value iterator an entry point takes -/
def MOp.vhandle : MOp → Option VIt
  | .vderef it => some it
  | .vinc it _ => some it
  | .remove _ it _ => some it
  | .makeMutable _ it => some it
  | .checkIt _ it _ => some it
  | _ => none

/-- the object an entry point that takes a handle is called on (none: called on the iterator itself) -/
def MOp.on : MOp → Option Bool
  | .addAt o _ _ => some o
  | .addKey o _ _ _ => some o
  | .removeAt o _ _ _ => some o
  | .remove o _ _ => some o
  | .removeValues o _ _ => some o
  | .removeKey o _ _ => some o
  | .resetKey o _ _ => some o
  | .makeIt o _ _ _ => some o
  | .makeMutable o _ => some o
  | .checkIt o _ _ => some o
  | .checkKey o _ _ => some o
  | _ => none

namespace MWorld

/-- **stale key iterator**: every entry point that needs it throws and the world is unchanged -/
theorem key_stale_rejected (w : MWorld) (op : MOp) (h : HPos) (hh : op.khandle = some h) (hs : Stale h.kp w.cs) :
    w.step op = (w, none) := by
  have r := fun m => MMap.key_uses_rejected m w.cs h hs.check (fun ae => hs.checkAt _ ae)
  cases op <;> simp only [MOp.khandle, Option.some.injEq, reduceCtorEq] at hh
  case kderef h' => subst hh; simp only [step, (r _).1, Option.map_none]
  case kinc h' n => subst hh; simp only [step, (r w.a).2.1, Option.map_none]
  case addAt o h' v => subst hh; simp only [step, (r _).2.2.1]
  case addKey o h' k nc => subst hh; simp only [step, (r _).2.2.2.1]
  case removeAt o h' i to => subst hh; simp only [step, (r _).2.2.2.2.1]
  case removeValues o h' to => subst hh; simp only [step, (r _).2.2.2.2.2.1]
  case removeKey o h' nx => subst hh; simp only [step, (r _).2.2.2.2.2.2.1]
  case resetKey o h' k => subst hh; simp only [step, (r _).2.2.2.2.2.2.2.1]
  case makeIt o h' i to =>
    split at hh
    · rename_i hc
      simp only [Option.some.injEq] at hh; subst hh
      have := (r (w.obj o)).2.2.2.2.2.2.2.2.1 i to (by
        simp only [Bool.or_eq_true, bne_iff_ne, ne_eq] at hc
        exact hc)
      simp only [step, this, Option.map_none]
    · simp at hh
  case checkKey o h' ae => subst hh; simp only [step, (r _).2.2.2.2.2.2.2.2.2, Option.map_none]

/-- **stale value iterator** (its value version or its key version moved): every entry point that takes it throws -/
theorem value_stale_rejected (w : MWorld) (op : MOp) (it : VIt) (hh : op.vhandle = some it) (hv : it.vidx.isSome = true)
    (hs : Stale it.vp w.cs ∨ Stale it.kit.kp w.cs) : w.step op = (w, none) := by
  have r := fun m => MMap.value_uses_rejected m w.cs it hv hs
  cases op <;> simp only [MOp.vhandle, Option.some.injEq, reduceCtorEq] at hh <;> subst hh
  case vderef => simp only [step, (r _).1, Option.map_none]
  case vinc to => simp only [step, (r w.a).2.1, Option.map_none]
  case remove o to => simp only [step, (r _).2.2.1]
  case makeMutable o => simp only [step, (r _).2.2.2.1, Option.map_none]
  case checkIt o ae => simp only [step, (r _).2.2.2.2, Option.map_none]


/-- **key iterator of another container**: an entry point of object `o` rejects a key iterator whose keeper points to the
    crew of a different nested map -/
theorem foreign_key_rejected (w : MWorld) (op : MOp) (h : HPos) (o : Bool) (c' : Nat) (hh : op.khandle = some h)
    (ht : op.on = some o) (hc : h.kp.cell = some c') (hne : c' ≠ (w.obj o).kcell) : w.step op = (w, none) := by
  have hf : ∀ ae, h.kp.checkAt w.cs (w.obj o).kcell ae = false := fun ae => foreign_checkAt hc hne ae
  have hm : (w.obj o).mutKey w.cs h = none := by simp [MMap.mutKey, hf, chk]
  cases op <;> simp only [MOp.khandle, MOp.on, Option.some.injEq, reduceCtorEq] at hh ht
  case addAt o' h' v => subst hh; subst ht; simp only [step, MMap.addAt, hm, Option.bind_eq_bind, Option.bind_none]
  case addKey o' h' k nc => subst hh; subst ht; simp [step, MMap.addKey, hf, chk]
  case removeAt o' h' i to =>
    subst hh; subst ht
    have : (w.obj o').removeAt w.cs h' i to = none := by
      unfold MMap.removeAt
      cases (w.obj o').kderef w.cs h' with
      | none => rfl
      | some kc => cases chk (decide (i < kc.2)) <;> simp [hm]
    simp only [step, this]
  case removeValues o' h' to => subst hh; subst ht; simp only [step, MMap.removeValues, hm, Option.bind_eq_bind, Option.bind_none]
  case removeKey o' h' nx => subst hh; subst ht; simp only [step, MMap.removeKey, hm, Option.bind_eq_bind, Option.bind_none]
  case resetKey o' h' k => subst hh; subst ht; simp [step, MMap.resetKey, hf, chk]
  case makeIt o' h' i to =>
    subst ht
    split at hh
    · rename_i hcond
      simp only [Option.some.injEq] at hh; subst hh
      have hb : (h'.elem.isNone && i == 0) = false := by
        simp only [Bool.or_eq_true, bne_iff_ne, ne_eq] at hcond
        rcases hcond with h1 | h1
        · cases he : h'.elem <;> simp_all
        · simp [h1]
      simp [step, MMap.makeIt, hb, hf, chk]
    · simp at hh
  case checkKey o' h' ae => subst hh; subst ht; simp [step, MMap.checkKey, hf, chk]

/-- **value iterator of another container** (value keeper or key keeper belongs to another object) -/
theorem foreign_value_rejected (w : MWorld) (op : MOp) (it : VIt) (o : Bool) (hh : op.vhandle = some it)
    (ht : op.on = some o) (hv : it.vidx.isSome = true)
    (hc : (∃ c', it.vp.cell = some c' ∧ c' ≠ (w.obj o).vcell) ∨ (∃ c', it.kit.kp.cell = some c' ∧ c' ≠ (w.obj o).kcell)) :
    w.step op = (w, none) := by
  obtain ⟨i, hi⟩ := Option.isSome_iff_exists.mp hv
  have hn : it.vidx.isNone = false := by simp [hi]
  have key : (w.obj o).remove w.cs it = (fun _ => none) ∧ (w.obj o).makeMutable w.cs it = none ∧
      ∀ ae, (w.obj o).checkIt w.cs it ae = none := by
    rcases hc with ⟨c', h1, h2⟩ | ⟨c', h1, h2⟩
    · have hf : ∀ ae, it.vp.checkAt w.cs (w.obj o).vcell ae = false := fun ae => foreign_checkAt h1 h2 ae
      refine ⟨?_, ?_, ?_⟩
      · funext to; simp [MMap.remove, hf, chk]
      · simp [MMap.makeMutable, hn, hf, chk]
      · intro ae
        unfold MMap.checkIt
        cases chk (it.kit.kp.checkAt w.cs (w.obj o).kcell ae) <;> simp [hi, hf, chk]
    · have hf : ∀ ae, it.kit.kp.checkAt w.cs (w.obj o).kcell ae = false := fun ae => foreign_checkAt h1 h2 ae
      have hm : (w.obj o).mutKey w.cs it.kit = none := by simp [MMap.mutKey, hf, chk]
      refine ⟨?_, ?_, ?_⟩
      · funext to; unfold MMap.remove; cases chk (it.vp.checkAt w.cs (w.obj o).vcell false) <;> simp [hi, hm]
      · unfold MMap.makeMutable; simp only [hn, Bool.false_eq_true, ↓reduceIte]
        cases chk (it.vp.checkAt w.cs (w.obj o).vcell false) <;> simp [hm]
      · intro ae; simp [MMap.checkIt, hf, chk]
  cases op <;> simp only [MOp.vhandle, MOp.on, Option.some.injEq, reduceCtorEq] at hh ht <;> subst hh <;> subst ht
  case remove to => simp only [step, key.1]
  case makeMutable => simp only [step, key.2.1, Option.map_none]
  case checkIt ae => simp only [step, key.2.2 ae, Option.map_none]

end MWorld
end Momo.Ver
namespace Momo.Ver

/-- `cap = 0` (the nested map has no buckets) only while there is no key -/
def MMap.CapI (m : MMap) : Prop := m.cap = 0 → m.kv = []

/-- the capacity an insertion reports afterwards is positive -/
def MOp.CapOK : MOp → Prop
  | .add _ _ _ nc => nc ≠ 0
  | .insertKey _ _ nc => nc ≠ 0
  | .addKey _ _ _ nc => nc ≠ 0
  | _ => True

namespace MMap

theorem setVals_capI {m : MMap} (h : m.CapI) (k : Nat) (vs : List Nat) : (m.setVals k vs).CapI := by
  intro hc
  have := h hc
  simp [setVals, this]

theorem filter_capI {m : MMap} (h : m.CapI) (p : Nat × List Nat → Bool) : ({ m with kv := m.kv.filter p } : MMap).CapI := by
  intro hc
  have := h hc
  simp [this]

theorem map_capI {m : MMap} (h : m.CapI) (f : Nat × List Nat → Nat × List Nat) : ({ m with kv := m.kv.map f } : MMap).CapI := by
  intro hc
  have := h hc
  simp [this]

theorem add_capI {m : MMap} (h : m.CapI) (cs : Cells) (k v nc : Nat) (hn : nc ≠ 0) : (m.add cs k v nc).2.1.CapI := by
  unfold add
  split
  · exact setVals_capI h _ _
  · intro hc; exact absurd hc hn

theorem insertKey_capI {m : MMap} (h : m.CapI) (cs : Cells) (k nc : Nat) (hn : nc ≠ 0) : (m.insertKey cs k nc).2.1.CapI := by
  unfold insertKey
  split
  · exact h
  · intro hc; exact absurd hc hn

theorem addAt_capI {m : MMap} (h : m.CapI) {cs : Cells} {hp : HPos} {v : Nat} {r} (hr : m.addAt cs hp v = some r) : r.2.1.CapI := by
  unfold addAt at hr
  cases hk : m.mutKey cs hp <;> simp [hk] at hr
  subst hr
  exact setVals_capI h _ _

theorem addKey_capI {m : MMap} {cs : Cells} {hp : HPos} {k nc : Nat} (hn : nc ≠ 0) {r} (hr : m.addKey cs hp k nc = some r) : r.2.1.CapI := by
  unfold addKey at hr
  cases h1 : chk (hp.kp.checkAt cs m.kcell false) <;> simp [h1] at hr
  cases h2 : chk hp.elem.isNone <;> simp [h2] at hr
  subst hr
  intro hc; exact absurd hc hn

theorem removeAt_capI {m : MMap} (h : m.CapI) {cs : Cells} {hp : HPos} {i : Nat} {to} {r} (hr : m.removeAt cs hp i to = some r) : r.2.1.CapI := by
  unfold removeAt at hr
  cases hk : m.kderef cs hp <;> simp [hk] at hr
  rename_i kc
  cases h2 : chk (decide (i < kc.2)) <;> simp [h2] at hr
  cases h3 : m.mutKey cs hp <;> simp [h3] at hr
  subst hr
  exact setVals_capI h _ _

theorem remove_capI {m : MMap} (h : m.CapI) {cs : Cells} {it : VIt} {to} {r} (hr : m.remove cs it to = some r) : r.2.1.CapI := by
  unfold remove at hr
  cases h1 : chk (it.vp.checkAt cs m.vcell false) <;> simp [h1] at hr
  cases h2 : it.vidx <;> simp [h2] at hr
  cases h3 : m.mutKey cs it.kit <;> simp [h3] at hr
  subst hr
  exact setVals_capI h _ _

theorem removeValues_capI {m : MMap} (h : m.CapI) {cs : Cells} {hp : HPos} {to} {r} (hr : m.removeValues cs hp to = some r) : r.2.1.CapI := by
  unfold removeValues at hr
  cases h3 : m.mutKey cs hp <;> simp [h3] at hr
  subst hr
  exact setVals_capI h _ _

theorem removeKey_capI {m : MMap} (h : m.CapI) {cs : Cells} {hp : HPos} {nx} {r} (hr : m.removeKey cs hp nx = some r) : r.2.1.CapI := by
  unfold removeKey at hr
  cases h3 : m.mutKey cs hp <;> simp [h3] at hr
  cases h4 : chk (m.cap != 0) <;> simp [h4] at hr
  subst hr
  exact filter_capI h _

theorem removeKeyByKey_capI {m : MMap} (h : m.CapI) (cs : Cells) (k : Nat) : (m.removeKeyByKey cs k).2.1.CapI := by
  unfold removeKeyByKey
  split
  · exact filter_capI h _
  · exact h

theorem removeIf_capI {m : MMap} (h : m.CapI) (cs : Cells) (mo r : Nat) : (m.removeIf cs mo r).2.1.CapI :=
  map_capI h _

theorem clear_capI (m : MMap) (cs : Cells) : (m.clear cs).2.CapI := fun _ => rfl

theorem resetKey_facts {m : MMap} (h : m.CapI) {cs : Cells} {hp : HPos} {k : Nat} {m'} (hr : m.resetKey cs hp k = some m') :
    m'.CapI ∧ m'.kcell = m.kcell ∧ m'.vcell = m.vcell := by
  unfold resetKey at hr
  cases h1 : chk (hp.kp.checkAt cs m.kcell false) <;> simp [h1] at hr
  cases h2 : hp.elem <;> simp [h2] at hr
  subst hr
  exact ⟨map_capI h _, rfl, rfl⟩

/-- removing a stored key changes the key list -/
theorem filter_key_ne {l : List (Nat × List Nat)} {k : Nat} {vs : List Nat} (h : l.lookup k = some vs) :
    l.filter (fun p => !(p.1 == k)) ≠ l := by
  have hlt : (l.filter (fun p => !(p.1 == k))).length < l.length := by
    induction l with
    | nil => simp at h
    | cons a as ih =>
      obtain ⟨a1, a2⟩ := a
      by_cases hk : k = a1
      · subst hk
        simp only [List.filter_cons, beq_self_eq_true, Bool.not_true, Bool.false_eq_true, ↓reduceIte, List.length_cons]
        exact Nat.lt_succ_of_le (List.length_filter_le _ _)
      · have hk' : (k == a1) = false := by simp [hk]
        have hk'' : (a1 == k) = false := by
          have : ¬ a1 = k := fun e => hk e.symm
          simp [this]
        simp only [List.lookup_cons, hk'] at h
        simp only [List.filter_cons, hk'', Bool.not_false, ↓reduceIte, List.length_cons]
        exact Nat.succ_lt_succ (ih h)
  intro e
  rw [e] at hlt
  exact Nat.lt_irrefl _ hlt

end MMap

namespace MWorld

/-- the four version cells of the two objects are pairwise distinct -/
def WF (w : MWorld) : Prop :=
  w.a.kcell ≠ w.a.vcell ∧ w.a.kcell ≠ w.b.kcell ∧ w.a.kcell ≠ w.b.vcell ∧
  w.a.vcell ≠ w.b.kcell ∧ w.a.vcell ≠ w.b.vcell ∧ w.b.kcell ≠ w.b.vcell

def CapInv (w : MWorld) : Prop := w.a.CapI ∧ w.b.CapI

/-- (key list, nested capacity) of the object whose nested map owns key cell `kc` -/
def kshape (w : MWorld) (kc : Nat) : Option (List Nat × Nat) := (w.byKeyCell kc).map (fun m => (m.keysOf, m.cap))
/-- complete contents of that object -/
def content (w : MWorld) (kc : Nat) : Option (List (Nat × List Nat)) := (w.byKeyCell kc).map (·.kv)
/-- its value-version cell -/
def vcellOf (w : MWorld) (kc : Nat) : Option Nat := (w.byKeyCell kc).map (·.vcell)

/-- facts about one step that the history theorems need -/
structure StepFacts (w w' : MWorld) : Prop where
  wf : w'.WF
  inv : w'.CapInv
  mono : ∀ c, w.cs c ≤ w'.cs c
  vcell : ∀ kc, w'.vcellOf kc = w.vcellOf kc
  kbump : ∀ kc, w'.kshape kc ≠ w.kshape kc → w.cs kc < w'.cs kc
  vbump : ∀ kc vc, w.vcellOf kc = some vc → w'.content kc ≠ w.content kc → w.cs kc < w'.cs kc ∨ w.cs vc < w'.cs vc

theorem StepFacts.refl (w : MWorld) (hw : w.WF) (hi : w.CapInv) : StepFacts w w :=
  ⟨hw, hi, fun _ => Nat.le_refl _, fun _ => rfl, fun _ h => absurd rfl h, fun _ _ _ h => absurd rfl h⟩

theorem bump2_k {cs : Cells} {k v nk nv : Nat} (hne : k ≠ v) : bumpN (bumpN cs k nk) v nv k = cs k + nk := by
  rw [bumpN_other _ _ hne, bumpN_same]
theorem bump2_v {cs : Cells} {k v nk nv : Nat} (hne : k ≠ v) : bumpN (bumpN cs k nk) v nv v = cs v + nv := by
  rw [bumpN_same, bumpN_other _ _ (fun e => hne e.symm)]
theorem bump2_other {cs : Cells} {k v nk nv c : Nat} (h1 : c ≠ k) (h2 : c ≠ v) : bumpN (bumpN cs k nk) v nv c = cs c := by
  rw [bumpN_other _ _ h2, bumpN_other _ _ h1]

/-- updating object `o` with an `MEff` effect -/
theorem facts_of_eff (w : MWorld) (hw : w.WF) (hi : w.CapInv) (o : Bool) {cs' : Cells} {m' : MMap}
    (he : MEff w.cs (w.obj o) cs' m') (hc : m'.CapI) : StepFacts w (w.setObj o cs' m') := by
  obtain ⟨hk, hv, nk, nv, hcs, hpk, hpv⟩ := he
  obtain ⟨w1, w2, w3, w4, w5, w6⟩ := hw
  cases o
  · simp only [obj, Bool.false_eq_true, ↓reduceIte] at hk hv hcs hpk hpv
    refine ⟨?_, ⟨hc, hi.2⟩, ?_, ?_, ?_, ?_⟩
    · simp only [setObj, Bool.false_eq_true, ↓reduceIte, WF, hk, hv]; exact ⟨w1, w2, w3, w4, w5, w6⟩
    · intro c; simp only [setObj, Bool.false_eq_true, ↓reduceIte]; rw [hcs]
      exact Nat.le_trans (le_bumpN _ _ _ _) (le_bumpN _ _ _ _)
    · intro kc
      simp only [vcellOf, byKeyCell, setObj, Bool.false_eq_true, ↓reduceIte, hk]
      by_cases h : w.a.kcell = kc <;> simp [h, hv]
    · intro kc hne
      simp only [kshape, byKeyCell, setObj, Bool.false_eq_true, ↓reduceIte, hk] at hne ⊢
      by_cases h : w.a.kcell = kc
      · simp only [h, beq_self_eq_true, ↓reduceIte, Option.map_some, ne_eq, Option.some.injEq, Prod.mk.injEq, not_and] at hne
        have : m'.keysOf ≠ w.a.keysOf ∨ m'.cap ≠ w.a.cap := by
          by_cases hkk : m'.keysOf = w.a.keysOf
          · right; exact hne hkk
          · left; exact hkk
        have hpos := hpk this
        rw [hcs, ← h, bump2_k w1]; omega
      · have : (w.a.kcell == kc) = false := by simp [h]
        simp [this] at hne
    · intro kc vc hvc hne
      simp only [content, vcellOf, byKeyCell, setObj, Bool.false_eq_true, ↓reduceIte, hk] at hne hvc ⊢
      by_cases h : w.a.kcell = kc
      · simp only [h, beq_self_eq_true, ↓reduceIte, Option.map_some, ne_eq, Option.some.injEq] at hne hvc
        have hpos := hpv hne
        rw [hcs, ← h, ← hvc, bump2_k w1, bump2_v w1]; omega
      · have : (w.a.kcell == kc) = false := by simp [h]
        simp [this] at hne
  · simp only [obj, ↓reduceIte] at hk hv hcs hpk hpv
    refine ⟨?_, ⟨hi.1, hc⟩, ?_, ?_, ?_, ?_⟩
    · simp only [setObj, ↓reduceIte, WF, hk, hv]; exact ⟨w1, w2, w3, w4, w5, w6⟩
    · intro c; simp only [setObj, ↓reduceIte]; rw [hcs]
      exact Nat.le_trans (le_bumpN _ _ _ _) (le_bumpN _ _ _ _)
    · intro kc
      simp only [vcellOf, byKeyCell, setObj, ↓reduceIte, hk]
      by_cases h : w.a.kcell = kc <;> by_cases h' : w.b.kcell = kc <;> simp [h, h', hv]
    · intro kc hne
      simp only [kshape, byKeyCell, setObj, ↓reduceIte, hk] at hne ⊢
      by_cases h : w.a.kcell = kc
      · simp [h] at hne
      · have ha : (w.a.kcell == kc) = false := by simp [h]
        by_cases h' : w.b.kcell = kc
        · simp only [ha, Bool.false_eq_true, ↓reduceIte, h', beq_self_eq_true, Option.map_some, ne_eq, Option.some.injEq,
            Prod.mk.injEq, not_and] at hne
          have : m'.keysOf ≠ w.b.keysOf ∨ m'.cap ≠ w.b.cap := by
            by_cases hkk : m'.keysOf = w.b.keysOf
            · right; exact hne hkk
            · left; exact hkk
          have hpos := hpk this
          rw [hcs, ← h', bump2_k w6]; omega
        · have hb : (w.b.kcell == kc) = false := by simp [h']
          simp [ha, hb] at hne
    · intro kc vc hvc hne
      simp only [content, vcellOf, byKeyCell, setObj, ↓reduceIte, hk] at hne hvc ⊢
      by_cases h : w.a.kcell = kc
      · simp [h] at hne
      · have ha : (w.a.kcell == kc) = false := by simp [h]
        by_cases h' : w.b.kcell = kc
        · simp only [ha, Bool.false_eq_true, ↓reduceIte, h', beq_self_eq_true, Option.map_some, ne_eq, Option.some.injEq] at hne hvc
          have hpos := hpv hne
          rw [hcs, ← h', ← hvc, bump2_k w6, bump2_v w6]; omega
        · have hb : (w.b.kcell == kc) = false := by simp [h']
          simp [ha, hb] at hne

theorem obj_capI (w : MWorld) (hi : w.CapInv) (o : Bool) : (w.obj o).CapI := by
  cases o
  · exact hi.1
  · exact hi.2

theorem byKeyCell_swap (w : MWorld) (hw : w.WF) (kc : Nat) :
    ({ w with a := w.b, b := w.a } : MWorld).byKeyCell kc = w.byKeyCell kc := by
  simp only [byKeyCell]
  by_cases h1 : w.a.kcell = kc <;> by_cases h2 : w.b.kcell = kc <;> simp [h1, h2]
  exact absurd (h1.trans h2.symm) hw.2.1

/-- **every entry point** other than ResetKey -/
theorem step_facts (w : MWorld) (hw : w.WF) (hi : w.CapInv) (op : MOp) (hcap : op.CapOK)
    (hnr : ∀ o h k, op ≠ .resetKey o h k) : StepFacts w (w.step op).1 := by
  have hinv : ∀ o, (w.obj o).cap = 0 → (w.obj o).kv = [] := fun o => obj_capI w hi o
  cases op with
  | findKey o k => exact StepFacts.refl w hw hi
  | keyBegin o f => exact StepFacts.refl w hw hi
  | begin_ o f to => exact StepFacts.refl w hw hi
  | end_ o => exact StepFacts.refl w hw hi
  | kderef h => exact StepFacts.refl w hw hi
  | kinc h n => exact StepFacts.refl w hw hi
  | vderef it => exact StepFacts.refl w hw hi
  | vinc it to => exact StepFacts.refl w hw hi
  | add o k v nc => exact facts_of_eff w hw hi o (MMap.add_eff _ _ _ _ _) (MMap.add_capI (obj_capI w hi o) _ _ _ _ hcap)
  | addAt o h v =>
    simp only [step]
    split
    · rename_i r hr; exact facts_of_eff w hw hi o (MMap.addAt_eff hr) (MMap.addAt_capI (obj_capI w hi o) hr)
    · exact StepFacts.refl w hw hi
  | insertKey o k nc => exact facts_of_eff w hw hi o (MMap.insertKey_eff _ _ _ _) (MMap.insertKey_capI (obj_capI w hi o) _ _ _ hcap)
  | addKey o h k nc =>
    simp only [step]
    split
    · rename_i r hr; exact facts_of_eff w hw hi o (MMap.addKey_eff hr) (MMap.addKey_capI hcap hr)
    · exact StepFacts.refl w hw hi
  | removeAt o h i to =>
    simp only [step]
    split
    · rename_i r hr; exact facts_of_eff w hw hi o (MMap.removeAt_eff hr) (MMap.removeAt_capI (obj_capI w hi o) hr)
    · exact StepFacts.refl w hw hi
  | remove o it to =>
    simp only [step]
    split
    · rename_i r hr; exact facts_of_eff w hw hi o (MMap.remove_eff hr) (MMap.remove_capI (obj_capI w hi o) hr)
    · exact StepFacts.refl w hw hi
  | removeValues o h to =>
    simp only [step]
    split
    · rename_i r hr; exact facts_of_eff w hw hi o (MMap.removeValues_eff hr) (MMap.removeValues_capI (obj_capI w hi o) hr)
    · exact StepFacts.refl w hw hi
  | removeKey o h nx =>
    simp only [step]
    split
    · rename_i r hr; exact facts_of_eff w hw hi o (MMap.removeKey_eff hr) (MMap.removeKey_capI (obj_capI w hi o) hr)
    · exact StepFacts.refl w hw hi
  | removeKeyByKey o k => exact facts_of_eff w hw hi o (MMap.removeKeyByKey_eff _ _ _) (MMap.removeKeyByKey_capI (obj_capI w hi o) _ _)
  | removeIf o mo r => exact facts_of_eff w hw hi o (MMap.removeIf_eff _ _ _ _) (MMap.removeIf_capI (obj_capI w hi o) _ _ _)
  | resetKey o h k => exact absurd rfl (hnr o h k)
  | makeIt o h i to => exact StepFacts.refl w hw hi
  | makeMutable o it => exact StepFacts.refl w hw hi
  | checkIt o it ae => exact StepFacts.refl w hw hi
  | checkKey o h ae => exact StepFacts.refl w hw hi
  | clear o => exact facts_of_eff w hw hi o (MMap.clear_eff _ _ (hinv o)) (MMap.clear_capI _ _)
  | swap =>
    obtain ⟨w1, w2, w3, w4, w5, w6⟩ := hw
    refine ⟨⟨w6, fun e => w2 e.symm, fun e => w4 e.symm, fun e => w3 e.symm, fun e => w5 e.symm, w1⟩, ⟨hi.2, hi.1⟩,
      fun _ => Nat.le_refl _, ?_, ?_, ?_⟩
    · intro kc; simp only [step, vcellOf, byKeyCell_swap w ⟨w1, w2, w3, w4, w5, w6⟩ kc]
    · intro kc hne; simp only [step, kshape, byKeyCell_swap w ⟨w1, w2, w3, w4, w5, w6⟩ kc] at hne; exact absurd rfl hne
    · intro kc vc _ hne; simp only [step, content, byKeyCell_swap w ⟨w1, w2, w3, w4, w5, w6⟩ kc] at hne; exact absurd rfl hne

/-- ResetKey keeps every counter, the cells and the invariants -/
theorem step_resetKey (w : MWorld) (hw : w.WF) (hi : w.CapInv) (o : Bool) (h : HPos) (k : Nat) :
    (w.step (.resetKey o h k)).1.WF ∧ (w.step (.resetKey o h k)).1.CapInv ∧ (w.step (.resetKey o h k)).1.cs = w.cs ∧
    ∀ kc, (w.step (.resetKey o h k)).1.vcellOf kc = w.vcellOf kc := by
  simp only [step]
  split
  · rename_i m' hm
    obtain ⟨hc, hk, hv⟩ := MMap.resetKey_facts (obj_capI w hi o) hm
    cases o
    · simp only [obj, Bool.false_eq_true, ↓reduceIte] at hk hv
      refine ⟨by simp only [setObj, Bool.false_eq_true, ↓reduceIte, WF, hk, hv]; exact hw, ⟨hc, hi.2⟩, rfl, ?_⟩
      intro kc
      simp only [vcellOf, byKeyCell, setObj, Bool.false_eq_true, ↓reduceIte, hk]
      by_cases h : w.a.kcell = kc <;> simp [h, hv]
    · simp only [obj, ↓reduceIte] at hk hv
      refine ⟨by simp only [setObj, ↓reduceIte, WF, hk, hv]; exact hw, ⟨hi.1, hc⟩, rfl, ?_⟩
      intro kc
      simp only [vcellOf, byKeyCell, setObj, ↓reduceIte, hk]
      by_cases h : w.a.kcell = kc <;> by_cases h' : w.b.kcell = kc <;> simp [h, h', hv]
  · exact ⟨hw, hi, rfl, fun _ => rfl⟩

/-! ### histories -/

def run (w : MWorld) : List MOp → MWorld
  | [] => w
  | op :: ops => run (w.step op).1 ops

theorem step_basic (w : MWorld) (hw : w.WF) (hi : w.CapInv) (op : MOp) (hcap : op.CapOK) :
    (w.step op).1.WF ∧ (w.step op).1.CapInv ∧ (∀ c, w.cs c ≤ (w.step op).1.cs c) ∧ ∀ kc, (w.step op).1.vcellOf kc = w.vcellOf kc := by
  by_cases h : ∃ o h k, op = .resetKey o h k
  · obtain ⟨o, hh, k, rfl⟩ := h
    have := step_resetKey w hw hi o hh k
    exact ⟨this.1, this.2.1, fun c => by rw [this.2.2.1]; exact Nat.le_refl _, this.2.2.2⟩
  · have := step_facts w hw hi op hcap (fun o hh k e => h ⟨o, hh, k, e⟩)
    exact ⟨this.wf, this.inv, this.mono, this.vcell⟩

theorem run_basic (ops : List MOp) : ∀ (w : MWorld), w.WF → w.CapInv → (∀ op ∈ ops, op.CapOK) →
    (w.run ops).WF ∧ (w.run ops).CapInv ∧ (∀ c, w.cs c ≤ (w.run ops).cs c) ∧ ∀ kc, (w.run ops).vcellOf kc = w.vcellOf kc := by
  induction ops with
  | nil => intro w hw hi _; exact ⟨hw, hi, fun _ => Nat.le_refl _, fun _ => rfl⟩
  | cons op ops ih =>
    intro w hw hi hc
    have h1 := step_basic w hw hi op (hc op (List.mem_cons_self ..))
    have h2 := ih _ h1.1 h1.2.1 (fun x hx => hc x (List.mem_cons_of_mem _ hx))
    exact ⟨h2.1, h2.2.1, fun c => Nat.le_trans (h1.2.2.1 c) (h2.2.2.1 c), fun kc => (h2.2.2.2 kc).trans (h1.2.2.2 kc)⟩

/-- some call of the history (other than ResetKey) changed the key list or the nested capacity of the object with key cell `kc` -/
def SomeKeyChange (kc : Nat) : MWorld → List MOp → Prop
  | _, [] => False
  | w, op :: ops => ((∀ o h k, op ≠ .resetKey o h k) ∧ (w.step op).1.kshape kc ≠ w.kshape kc) ∨ SomeKeyChange kc (w.step op).1 ops

/-- some call of the history (other than ResetKey) changed anything in the object with key cell `kc` -/
def SomeChange (kc : Nat) : MWorld → List MOp → Prop
  | _, [] => False
  | w, op :: ops => ((∀ o h k, op ≠ .resetKey o h k) ∧ (w.step op).1.content kc ≠ w.content kc) ∨ SomeChange kc (w.step op).1 ops

theorem run_key_change (kc : Nat) (ops : List MOp) : ∀ (w : MWorld), w.WF → w.CapInv → (∀ op ∈ ops, op.CapOK) →
    SomeKeyChange kc w ops → w.cs kc < (w.run ops).cs kc := by
  induction ops with
  | nil => intro w _ _ _ h; exact absurd h (by simp [SomeKeyChange])
  | cons op ops ih =>
    intro w hw hi hc hch
    have hcap := hc op (List.mem_cons_self ..)
    have hc' : ∀ x ∈ ops, x.CapOK := fun x hx => hc x (List.mem_cons_of_mem _ hx)
    have h1 := step_basic w hw hi op hcap
    have h2 := run_basic ops _ h1.1 h1.2.1 hc'
    simp only [run]
    rcases hch with ⟨hnr, hs⟩ | hch
    · exact Nat.lt_of_lt_of_le ((step_facts w hw hi op hcap hnr).kbump kc hs) (h2.2.2.1 kc)
    · exact Nat.lt_of_le_of_lt (h1.2.2.1 kc) (ih _ h1.1 h1.2.1 hc' hch)

theorem run_change (kc vc : Nat) (ops : List MOp) : ∀ (w : MWorld), w.WF → w.CapInv → (∀ op ∈ ops, op.CapOK) →
    w.vcellOf kc = some vc → SomeChange kc w ops → w.cs kc < (w.run ops).cs kc ∨ w.cs vc < (w.run ops).cs vc := by
  induction ops with
  | nil => intro w _ _ _ _ h; exact absurd h (by simp [SomeChange])
  | cons op ops ih =>
    intro w hw hi hc hvc hch
    have hcap := hc op (List.mem_cons_self ..)
    have hc' : ∀ x ∈ ops, x.CapOK := fun x hx => hc x (List.mem_cons_of_mem _ hx)
    have h1 := step_basic w hw hi op hcap
    have h2 := run_basic ops _ h1.1 h1.2.1 hc'
    simp only [run]
    rcases hch with ⟨hnr, hs⟩ | hch
    · rcases (step_facts w hw hi op hcap hnr).vbump kc vc hvc hs with h | h
      · left; exact Nat.lt_of_lt_of_le h (h2.2.2.1 kc)
      · right; exact Nat.lt_of_lt_of_le h (h2.2.2.1 vc)
    · rcases ih _ h1.1 h1.2.1 hc' ((h1.2.2.2 kc).trans hvc) hch with h | h
      · left; exact Nat.lt_of_le_of_lt (h1.2.2.1 kc) h
      · right; exact Nat.lt_of_le_of_lt (h1.2.2.1 vc) h

/-- a key iterator made in `w0`, used after a history in which some call changed the key set / nested capacity of its map -/
theorem history_key_stale_rejected (w0 : MWorld) (hw : w0.WF) (hi : w0.CapInv) (ops : List MOp) (hc : ∀ op ∈ ops, op.CapOK)
    (kc : Nat) (op : MOp) (h : HPos) (hh : op.khandle = some h) (hk : h.kp = snap w0.cs kc) (hch : SomeKeyChange kc w0 ops)
    (hlt : (w0.run ops).cs kc < w0.cs kc + W) : (w0.run ops).step op = (w0.run ops, none) :=
  key_stale_rejected _ op h hh (hk ▸ snap_stale (run_key_change kc ops w0 hw hi hc hch) hlt)

/-- a value iterator made in `w0` (value keeper on `vc`, key keeper on `kc`, both of one object), used after a history in
    which some call changed anything in that object -/
theorem history_value_stale_rejected (w0 : MWorld) (hw : w0.WF) (hi : w0.CapInv) (ops : List MOp) (hc : ∀ op ∈ ops, op.CapOK)
    (kc vc : Nat) (hvc : w0.vcellOf kc = some vc) (op : MOp) (it : VIt) (hh : op.vhandle = some it) (hv : it.vidx.isSome = true)
    (hvp : it.vp = snap w0.cs vc) (hkp : it.kit.kp = snap w0.cs kc) (hch : SomeChange kc w0 ops)
    (hlt1 : (w0.run ops).cs kc < w0.cs kc + W) (hlt2 : (w0.run ops).cs vc < w0.cs vc + W) :
    (w0.run ops).step op = (w0.run ops, none) := by
  apply value_stale_rejected _ op it hh hv
  rcases run_change kc vc ops w0 hw hi hc hvc hch with h | h
  · right; rw [hkp]; exact snap_stale h hlt1
  · left; rw [hvp]; exact snap_stale h hlt2

end MWorld
end Momo.Ver
namespace Momo.Ver

/-- mutating entry points of HashMultiMap for which "nothing changed" implies "no version increment" (`InsertKey` of a stored
    key and `RemoveKey` of an absent key are no-ops).  `RemoveValues` / `Clear` / `Remove(filter)` increment unconditionally. -/
def MOp.QuietMut : MOp → Prop
  | .insertKey _ _ _ => True
  | .removeKeyByKey _ _ => True
  | _ => False

namespace MWorld

theorem byKeyCell_kcell {w : MWorld} {kc : Nat} {m : MMap} (h : w.byKeyCell kc = some m) : m.kcell = kc := by
  simp only [byKeyCell] at h
  split at h
  · rename_i h1; simp only [Option.some.injEq] at h; subst h; simpa using h1
  · split at h
    · rename_i _ h2; simp only [Option.some.injEq] at h; subst h; simpa using h2
    · simp at h

theorem byKeyCell_obj (w : MWorld) (hw : w.WF) (o : Bool) : w.byKeyCell (w.obj o).kcell = some (w.obj o) := by
  cases o
  · simp [byKeyCell, obj]
  · have : (w.a.kcell == w.b.kcell) = false := by simp [hw.2.1]
    simp [byKeyCell, obj, this]

theorem byKeyCell_cases {w : MWorld} {kc : Nat} {m : MMap} (h : w.byKeyCell kc = some m) : ∃ o, m = w.obj o := by
  simp only [byKeyCell] at h
  split at h
  · simp only [Option.some.injEq] at h; exact ⟨false, h.symm⟩
  · split at h
    · simp only [Option.some.injEq] at h; exact ⟨true, h.symm⟩
    · simp at h

theorem byKeyCell_setObj_same (w : MWorld) (hw : w.WF) (o : Bool) (cs' : Cells) (m' : MMap) (hk : m'.kcell = (w.obj o).kcell) :
    (w.setObj o cs' m').byKeyCell (w.obj o).kcell = some m' := by
  cases o
  · simp only [obj, Bool.false_eq_true, ↓reduceIte] at hk
    simp [byKeyCell, setObj, obj, hk]
  · simp only [obj, ↓reduceIte] at hk
    have : (w.a.kcell == w.b.kcell) = false := by simp [hw.2.1]
    simp [byKeyCell, setObj, obj, hk, this]

/-- the cells of object `o` differ from the cells `kc`, `vc` of the other object -/
theorem other_cells (w : MWorld) (hw : w.WF) (o : Bool) (kc vc : Nat) (hvc : w.vcellOf kc = some vc) (hne : (w.obj o).kcell ≠ kc) :
    kc ≠ (w.obj o).kcell ∧ kc ≠ (w.obj o).vcell ∧ vc ≠ (w.obj o).kcell ∧ vc ≠ (w.obj o).vcell := by
  obtain ⟨w1, w2, w3, w4, w5, w6⟩ := hw
  simp only [vcellOf, Option.map_eq_some_iff] at hvc
  obtain ⟨m, hm, hv⟩ := hvc
  have hkc := byKeyCell_kcell hm
  obtain ⟨o', rfl⟩ := byKeyCell_cases hm
  subst hkc; subst hv
  cases o <;> cases o'
  · exact absurd rfl hne
  · exact ⟨fun e => w2 e.symm, fun e => w4 e.symm, fun e => w3 e.symm, fun e => w5 e.symm⟩
  · exact ⟨w2, w3, w4, w5⟩
  · exact absurd rfl hne

end MWorld
end Momo.Ver
namespace Momo.Ver
namespace MWorld

/-- entry points without a mutated object (queries, uses of iterators, ResetKey, Swap) increment nothing -/
theorem step_cs_of_no_target (w : MWorld) (op : MOp) (ht : op.target = none) : (w.step op).1.cs = w.cs := by
  cases op <;> simp only [MOp.target, reduceCtorEq] at ht <;> simp only [step]
  case resetKey o h k =>
    split
    · exact setObj_cs _ _ _ _
    · rfl

/-- one call that cannot invalidate handles of the object with key cell `kc`: it throws, or it is not a mutating entry point,
    or it mutates the other object, or it is a no-op `InsertKey` / `RemoveKey(key)` -/
def QuietStep (kc : Nat) (w : MWorld) (op : MOp) : Prop :=
  (w.step op).2 = none ∨ op.target = none ∨ (∃ o, op.target = some o ∧ (w.obj o).kcell ≠ kc) ∨
  (op.QuietMut ∧ (w.step op).1.content kc = w.content kc)

/-- **no increment without a change** (HashMultiMap) -/
theorem step_quiet (w : MWorld) (hw : w.WF) (hi : w.CapInv) (op : MOp) (kc vc : Nat) (hvc : w.vcellOf kc = some vc)
    (hq : QuietStep kc w op) : (w.step op).1.cs kc = w.cs kc ∧ (w.step op).1.cs vc = w.cs vc := by
  have other : ∀ o, op.target = some o → (w.obj o).kcell ≠ kc →
      (w.step op).1.cs kc = w.cs kc ∧ (w.step op).1.cs vc = w.cs vc := by
    intro o ht hne
    obtain ⟨_, _, nk, nv, hcs, _, _⟩ := step_eff w op o ht (obj_capI w hi o)
    obtain ⟨h1, h2, h3, h4⟩ := other_cells w hw o kc vc hvc hne
    rw [hcs]
    exact ⟨bump2_other h1 h2, bump2_other h3 h4⟩
  rcases hq with h | h | ⟨o, ht, hne⟩ | ⟨hqm, hcont⟩
  · rw [step_reject_unchanged w op h]; exact ⟨rfl, rfl⟩
  · rw [step_cs_of_no_target w op h]; exact ⟨rfl, rfl⟩
  · exact other o ht hne
  · cases op <;> simp only [MOp.QuietMut] at hqm
    case insertKey o k nc =>
      by_cases hne : (w.obj o).kcell = kc
      · simp only [step] at hcont ⊢
        rw [setObj_cs]
        unfold MMap.insertKey at hcont ⊢
        split
        · exact ⟨rfl, rfl⟩
        · rename_i habs
          exfalso
          simp only [habs, Bool.false_eq_true, ↓reduceIte] at hcont
          rw [content, content, ← hne, byKeyCell_setObj_same w hw o _ _ (by rfl), byKeyCell_obj w hw o] at hcont
          simp only [Option.map_some, Option.some.injEq] at hcont
          exact List.cons_ne_self _ _ hcont
      · exact other o rfl hne
    case removeKeyByKey o k =>
      by_cases hne : (w.obj o).kcell = kc
      · simp only [step] at hcont ⊢
        rw [setObj_cs]
        unfold MMap.removeKeyByKey at hcont ⊢
        split
        · rename_i vs hvs
          exfalso
          simp only [hvs] at hcont
          rw [content, content, ← hne, byKeyCell_setObj_same w hw o _ _ (by rfl), byKeyCell_obj w hw o] at hcont
          simp only [Option.map_some, Option.some.injEq] at hcont
          exact MMap.filter_key_ne hvs hcont
        · exact ⟨rfl, rfl⟩
      · exact other o rfl hne

/-- every call of the history is a `QuietStep` for the object with key cell `kc` -/
def AllQuiet (kc : Nat) : MWorld → List MOp → Prop
  | _, [] => True
  | w, op :: ops => QuietStep kc w op ∧ AllQuiet kc (w.step op).1 ops

theorem run_quiet (kc vc : Nat) (ops : List MOp) : ∀ (w : MWorld), w.WF → w.CapInv → (∀ op ∈ ops, op.CapOK) →
    w.vcellOf kc = some vc → AllQuiet kc w ops → (w.run ops).cs kc = w.cs kc ∧ (w.run ops).cs vc = w.cs vc := by
  induction ops with
  | nil => intro w _ _ _ _ _; exact ⟨rfl, rfl⟩
  | cons op ops ih =>
    intro w hw hi hc hvc hq
    have hcap := hc op (List.mem_cons_self ..)
    have hc' : ∀ x ∈ ops, x.CapOK := fun x hx => hc x (List.mem_cons_of_mem _ hx)
    have h1 := step_basic w hw hi op hcap
    have h2 := ih _ h1.1 h1.2.1 hc' ((h1.2.2.2 kc).trans hvc) hq.2
    have h3 := step_quiet w hw hi op kc vc hvc hq.1
    simp only [run]
    exact ⟨h2.1.trans h3.1, h2.2.trans h3.2⟩

theorem snap_eq_of_cell_eq' {cs cs' : Cells} {c : Nat} (h : cs' c = cs c) : snap cs c = snap cs' c := by
  simp [snap, stored, h]

/-- **no false positive over histories**, key iterators: a key iterator made in `w0` for a key that is still stored is accepted
    by every entry point after any history of `QuietStep`s -/
theorem history_key_fresh_accepted (w0 : MWorld) (hw : w0.WF) (hi : w0.CapInv) (ops : List MOp) (hc : ∀ op ∈ ops, op.CapOK)
    (kc vc : Nat) (hvc : w0.vcellOf kc = some vc) (hq : AllQuiet kc w0 ops) (m : MMap) (hm : (w0.run ops).byKeyCell kc = some m)
    (k : Nat) (mv : Bool) (vs : List Nat) (hk : m.vals k = some vs) (hcap : m.cap ≠ 0) :
    let h : HPos := ⟨snap w0.cs kc, some k, mv⟩
    let cs := (w0.run ops).cs
    (m.kderef cs h).isSome = true ∧ (∀ v, (m.addAt cs h v).isSome = true) ∧ (∀ to, (m.removeValues cs h to).isSome = true) ∧
    (∀ nx, (m.removeKey cs h nx).isSome = true) ∧ (∀ k', (m.resetKey cs h k').isSome = true) ∧
    (∀ i to, i < vs.length → (m.removeAt cs h i to).isSome = true) ∧ (∀ i to, i ≤ vs.length → (m.makeIt cs h i to).isSome = true) := by
  intro h cs
  have hcell := (run_quiet kc vc ops w0 hw hi hc hvc hq).1
  have hkc := byKeyCell_kcell hm
  have : h = ⟨snap cs m.kcell, some k, mv⟩ := by
    simp only [h, hkc]; rw [snap_eq_of_cell_eq' hcell]
  rw [this]
  exact MMap.key_fresh_accepted m cs k mv vs hk hcap

/-- … value iterators: made in `w0` (keepers on both versions of one object), pointing at a value that is still stored -/
theorem history_value_fresh_accepted (w0 : MWorld) (hw : w0.WF) (hi : w0.CapInv) (ops : List MOp) (hc : ∀ op ∈ ops, op.CapOK)
    (kc vc : Nat) (hvc : w0.vcellOf kc = some vc) (hq : AllQuiet kc w0 ops) (m : MMap) (hm : (w0.run ops).byKeyCell kc = some m)
    (k i : Nat) (mv : Bool) (vs : List Nat) (hk : m.vals k = some vs) (hi' : i < vs.length) :
    let it : VIt := ⟨⟨snap w0.cs kc, some k, mv⟩, snap w0.cs vc, some i⟩
    let cs := (w0.run ops).cs
    (m.vderef cs it).isSome = true ∧ (∀ to, (MMap.vinc cs it to).isSome = true) ∧ (∀ to, (m.remove cs it to).isSome = true) ∧
    (m.makeMutable cs it).isSome = true ∧ (∀ ae, (m.checkIt cs it ae).isSome = true) := by
  intro it cs
  have hcells := run_quiet kc vc ops w0 hw hi hc hvc hq
  have hkc := byKeyCell_kcell hm
  have hvc' : m.vcell = vc := by
    have := (run_basic ops w0 hw hi hc).2.2.2 kc
    rw [hvc, vcellOf, hm] at this
    simpa using this
  have : it = ⟨⟨snap cs m.kcell, some k, mv⟩, snap cs m.vcell, some i⟩ := by
    simp only [it, hkc, hvc']; rw [snap_eq_of_cell_eq' hcells.1, snap_eq_of_cell_eq' hcells.2]
  rw [this]
  exact MMap.value_fresh_accepted m cs k i mv vs hk hi'

end MWorld
end Momo.Ver

namespace Momo.Ver

/-- **empty / default-constructed key iterator where a key is required** (`Find` of an absent key, `GetKeyBounds().GetEnd()`) -/
theorem MMap.key_empty_rejected (m : MMap) (cs : Cells) (h : HPos) (he : h.elem = none) :
    m.kderef cs h = none ∧ (∀ n, h.inc cs n = none) ∧ (∀ v, m.addAt cs h v = none) ∧ (∀ i to, m.removeAt cs h i to = none) ∧
    (∀ to, m.removeValues cs h to = none) ∧ (∀ nx, m.removeKey cs h nx = none) ∧ (∀ k, m.resetKey cs h k = none) ∧
    (∀ i to, i ≠ 0 → m.makeIt cs h i to = none) := by
  have hd : h.deref cs = none := by
    unfold HPos.deref; cases chk (h.kp.check cs) <;> simp [he]
  have hm : m.mutKey cs h = none := by
    unfold MMap.mutKey; cases chk (h.kp.checkAt cs m.kcell true) <;> simp [hd]
  refine ⟨by simp [MMap.kderef, hd], fun n => by simp [HPos.inc, hd], fun v => by simp [MMap.addAt, hm],
    fun i to => by simp [MMap.removeAt, MMap.kderef, hd], fun to => by simp [MMap.removeValues, hm],
    fun nx => by simp [MMap.removeKey, hm], fun k => ?_, fun i to hi => ?_⟩
  · unfold MMap.resetKey; cases chk (h.kp.checkAt cs m.kcell false) <;> simp [he]
  · unfold MMap.makeIt
    have : (h.elem.isNone && i == 0) = false := by simp [hi]
    simp only [this, Bool.false_eq_true, ↓reduceIte]
    cases chk (h.kp.checkAt cs m.kcell true) <;> simp [MMap.kderef, hd]

end Momo.Ver
