import Momo.Proof.VerTree
/-!
  HashMultiMap (C15): two version cells per object.  Every entry point increments the key version whenever the
  key set (or the capacity of the nested map) changes, and one of the two versions whenever anything changes;
  key iterators check the key version, value iterators both.  Core Lean only.
-/
namespace Momo.Ver

def MMap.keysOf (m : MMap) : List Nat := m.kv.map (·.1)

/-- effect of one call on one multimap: the cells stay, the key cell is incremented `nk` times, the value cell `nv`
    times; `nk > 0` when the key list or the nested capacity changed, `nk + nv > 0` when anything changed -/
def MEff (cs : Cells) (m : MMap) (cs' : Cells) (m' : MMap) : Prop :=
  m'.kcell = m.kcell ∧ m'.vcell = m.vcell ∧ ∃ nk nv, cs' = bumpN (bumpN cs m.kcell nk) m.vcell nv ∧
    ((m'.keysOf ≠ m.keysOf ∨ m'.cap ≠ m.cap) → 0 < nk) ∧ (m'.kv ≠ m.kv → 0 < nk + nv)

theorem MEff.refl (cs : Cells) (m : MMap) : MEff cs m cs m :=
  ⟨rfl, rfl, 0, 0, by rw [bumpN_zero, bumpN_zero], by simp, fun h => absurd rfl h⟩

/-- only the value version moves (keys and capacity untouched) -/
theorem MEff.values {cs : Cells} {m m' : MMap} {n : Nat} (hn : 0 < n) (hk : m'.kcell = m.kcell) (hv : m'.vcell = m.vcell)
    (hkeys : m'.keysOf = m.keysOf) (hcap : m'.cap = m.cap) : MEff cs m (bumpN cs m.vcell n) m' :=
  ⟨hk, hv, 0, n, by rw [bumpN_zero], fun h => by rcases h with h | h <;> contradiction, fun _ => by omega⟩

theorem MEff.both {cs cs' : Cells} {m m' : MMap} (hcs : cs' = bump (bump cs m.kcell) m.vcell)
    (hk : m'.kcell = m.kcell) (hv : m'.vcell = m.vcell) : MEff cs m cs' m' :=
  ⟨hk, hv, 1, 1, hcs, fun _ => Nat.one_pos, fun _ => by omega⟩

theorem MEff.keyOnly {cs cs' : Cells} {m m' : MMap} (hcs : cs' = bump cs m.kcell)
    (hk : m'.kcell = m.kcell) (hv : m'.vcell = m.vcell) : MEff cs m cs' m' :=
  ⟨hk, hv, 1, 0, by rw [hcs, bumpN_zero]; rfl, fun _ => Nat.one_pos, fun _ => by omega⟩

namespace MMap

theorem keysOf_setVals (m : MMap) (k : Nat) (vs : List Nat) : (m.setVals k vs).keysOf = m.keysOf := by
  simp only [setVals, keysOf, List.map_map]
  apply List.map_congr_left
  intro p _
  simp only [Function.comp]
  split
  · rename_i h; simp at h; exact h.symm
  · rfl

theorem pushValue_eff (m : MMap) (cs : Cells) (k v : Nat) : MEff cs m (m.pushValue cs k v).1 (m.pushValue cs k v).2 :=
  MEff.values (n := 1) Nat.one_pos rfl rfl (keysOf_setVals _ _ _) rfl

theorem add_eff (m : MMap) (cs : Cells) (k v nc : Nat) : MEff cs m (m.add cs k v nc).1 (m.add cs k v nc).2.1 := by
  unfold add
  split
  · exact pushValue_eff m cs k v
  · exact MEff.both rfl rfl rfl

theorem addAt_eff {m : MMap} {cs : Cells} {h : HPos} {v : Nat} {r} (hr : m.addAt cs h v = some r) : MEff cs m r.1 r.2.1 := by
  unfold addAt at hr
  cases hk : m.mutKey cs h <;> simp [hk] at hr
  subst hr
  exact pushValue_eff m cs _ v

theorem insertKey_eff (m : MMap) (cs : Cells) (k nc : Nat) : MEff cs m (m.insertKey cs k nc).1 (m.insertKey cs k nc).2.1 := by
  unfold insertKey
  split
  · exact MEff.refl cs m
  · exact MEff.keyOnly rfl rfl rfl

theorem addKey_eff {m : MMap} {cs : Cells} {h : HPos} {k nc : Nat} {r} (hr : m.addKey cs h k nc = some r) : MEff cs m r.1 r.2.1 := by
  unfold addKey at hr
  cases h1 : chk (h.kp.checkAt cs m.kcell false) <;> simp [h1] at hr
  cases h2 : chk h.elem.isNone <;> simp [h2] at hr
  subst hr
  exact MEff.keyOnly rfl rfl rfl

theorem dropValue_eff (m : MMap) (cs : Cells) (k i : Nat) : MEff cs m (m.dropValue cs k i).1 (m.dropValue cs k i).2 :=
  MEff.values (n := 1) Nat.one_pos rfl rfl (keysOf_setVals _ _ _) rfl

theorem removeAt_eff {m : MMap} {cs : Cells} {h : HPos} {i : Nat} {to} {r} (hr : m.removeAt cs h i to = some r) :
    MEff cs m r.1 r.2.1 := by
  unfold removeAt at hr
  cases hk : m.kderef cs h <;> simp [hk] at hr
  rename_i kc
  cases h2 : chk (decide (i < kc.2)) <;> simp [h2] at hr
  cases h3 : m.mutKey cs h <;> simp [h3] at hr
  subst hr
  exact dropValue_eff m cs _ i

theorem remove_eff {m : MMap} {cs : Cells} {it : VIt} {to} {r} (hr : m.remove cs it to = some r) : MEff cs m r.1 r.2.1 := by
  unfold remove at hr
  cases h1 : chk (it.vp.checkAt cs m.vcell false) <;> simp [h1] at hr
  cases h2 : it.vidx <;> simp [h2] at hr
  cases h3 : m.mutKey cs it.kit <;> simp [h3] at hr
  subst hr
  exact dropValue_eff m cs _ _

theorem removeValues_eff {m : MMap} {cs : Cells} {h : HPos} {to} {r} (hr : m.removeValues cs h to = some r) :
    MEff cs m r.1 r.2.1 := by
  unfold removeValues at hr
  cases h3 : m.mutKey cs h <;> simp [h3] at hr
  subst hr
  exact MEff.values (n := 1) Nat.one_pos rfl rfl (keysOf_setVals _ _ _) rfl

theorem removeKey_eff {m : MMap} {cs : Cells} {h : HPos} {nx} {r} (hr : m.removeKey cs h nx = some r) : MEff cs m r.1 r.2.1 := by
  unfold removeKey at hr
  cases h3 : m.mutKey cs h <;> simp [h3] at hr
  cases h4 : chk (m.cap != 0) <;> simp [h4] at hr
  subst hr
  exact MEff.both rfl rfl rfl

theorem removeKeyByKey_eff (m : MMap) (cs : Cells) (k : Nat) :
    MEff cs m (m.removeKeyByKey cs k).1 (m.removeKeyByKey cs k).2.1 := by
  unfold removeKeyByKey
  split
  · exact MEff.both rfl rfl rfl
  · exact MEff.refl cs m

theorem sum_eq_zero_all {l : List Nat} (h : l.sum = 0) : ∀ x ∈ l, x = 0 := by
  induction l with
  | nil => intro x hx; simp at hx
  | cons a as ih =>
    intro x hx
    simp only [List.sum_cons] at h
    rcases List.mem_cons.mp hx with rfl | hx
    · omega
    · exact ih (by omega) x hx

theorem swapFilter_id (p : Nat → Bool) : ∀ (fuel i : Nat) (l : List Nat), (∀ x ∈ l, p x = false) → swapFilter p fuel i l = l := by
  intro fuel
  induction fuel with
  | zero => intro i l _; rfl
  | succ n ih =>
    intro i l h
    unfold swapFilter
    cases hx : l[i]? with
    | none => rfl
    | some x =>
      have hm : x ∈ l := List.mem_of_getElem? hx
      simp only [h x hm, Bool.false_eq_true, ↓reduceIte]
      exact ih (i + 1) l h

theorem removeIf_eff (m : MMap) (cs : Cells) (mo r : Nat) : MEff cs m (m.removeIf cs mo r).1 (m.removeIf cs mo r).2.1 := by
  refine ⟨rfl, rfl, 0, (m.kv.map (fun p => (p.2.filter (fun v => v % mo == r)).length)).sum, ?_, ?_, ?_⟩
  · rw [bumpN_zero]; rfl
  · intro h
    exfalso
    simp only [removeIf, keysOf, List.map_map] at h
    rcases h with h | h
    · exact h (List.map_congr_left (fun _ _ => rfl))
    · exact h rfl
  · intro h
    simp only [removeIf] at h
    apply Nat.pos_of_ne_zero
    intro hz
    apply h
    rw [Nat.zero_add] at hz
    have hall := sum_eq_zero_all hz
    have : ∀ p ∈ m.kv, (p.1, swapFilter (fun v => v % mo == r) (2 * p.2.length) 0 p.2) = p := by
      intro p hp
      have h0 := hall _ (List.mem_map_of_mem (f := fun p : Nat × List Nat => (p.2.filter (fun v => v % mo == r)).length) hp)
      have hnil := List.length_eq_zero_iff.mp h0
      have : swapFilter (fun v => v % mo == r) (2 * p.2.length) 0 p.2 = p.2 := by
        apply swapFilter_id
        intro v hv
        have := List.filter_eq_nil_iff.mp hnil v hv
        simpa using this
      rw [this]
    calc m.kv.map (fun p => (p.1, swapFilter (fun v => v % mo == r) (2 * p.2.length) 0 p.2)) = m.kv.map id :=
          List.map_congr_left (fun p hp => this p hp)
      _ = m.kv := List.map_id _

/-- `Clear`; the nested map has no buckets only while it is empty (`hinv`) -/
theorem clear_eff (m : MMap) (cs : Cells) (hinv : m.cap = 0 → m.kv = []) : MEff cs m (m.clear cs).1 (m.clear cs).2 := by
  unfold clear
  split
  · rename_i hc
    have hc' : m.cap = 0 := by simpa using hc
    refine ⟨rfl, rfl, 0, 1, by rw [bumpN_zero]; rfl, ?_, fun _ => by omega⟩
    intro h
    exfalso
    rcases h with h | h
    · simp only [keysOf, hinv hc', List.map_nil] at h
      exact h rfl
    · exact h hc'.symm
  · exact MEff.both rfl rfl rfl

end MMap
end Momo.Ver

namespace Momo.Ver
namespace MMap

theorem deref_none_of_check {h : HPos} {cs : Cells} (hc : h.kp.check cs = false) : h.deref cs = none := by
  simp [HPos.deref, hc, chk]

theorem mutKey_none_of_check {m : MMap} {h : HPos} {cs : Cells} (hc : h.kp.check cs = false) : m.mutKey cs h = none := by
  unfold mutKey
  cases chk (h.kp.checkAt cs m.kcell true) <;> simp [deref_none_of_check hc]

/-- **key iterator whose key version moved** (`InsertKey`, `Add` of a new key, `RemoveKey`, `Clear`, growth of the nested
    map …): every entry point that takes it throws -/
theorem key_uses_rejected (m : MMap) (cs : Cells) (h : HPos) (hc : h.kp.check cs = false) (hs : ∀ ae, h.kp.checkAt cs m.kcell ae = false) :
    m.kderef cs h = none ∧ (∀ n, h.inc cs n = none) ∧ (∀ v, m.addAt cs h v = none) ∧ (∀ k nc, m.addKey cs h k nc = none) ∧
    (∀ i to, m.removeAt cs h i to = none) ∧ (∀ to, m.removeValues cs h to = none) ∧ (∀ nx, m.removeKey cs h nx = none) ∧
    (∀ k, m.resetKey cs h k = none) ∧ (∀ i to, (h.elem.isSome = true ∨ i ≠ 0) → m.makeIt cs h i to = none) ∧
    (∀ ae, m.checkKey cs h ae = none) := by
  have hd := deref_none_of_check hc
  have hm : m.mutKey cs h = none := mutKey_none_of_check hc
  refine ⟨?_, ?_, ?_, ?_, ?_, ?_, ?_, ?_, ?_, ?_⟩
  · simp [kderef, hd]
  · intro n; simp [HPos.inc, hd]
  · intro v; simp [addAt, hm]
  · intro k nc; simp [addKey, hs, chk]
  · intro i to; simp [removeAt, kderef, hd]
  · intro to; simp [removeValues, hm]
  · intro nx; simp [removeKey, hm]
  · intro k; simp [resetKey, hs, chk]
  · intro i to hne
    unfold makeIt
    have : (h.elem.isNone && i == 0) = false := by
      rcases hne with h1 | h1
      · cases he : h.elem <;> simp_all
      · simp [h1]
    simp [this, hs, chk]
  · intro ae; simp [checkKey, hs, chk]

/-- stale / foreign key keepers fail both forms of the check -/
theorem key_stale_rejected (m : MMap) (cs : Cells) (h : HPos) (hs : Stale h.kp cs) :
    m.kderef cs h = none ∧ (∀ v, m.addAt cs h v = none) ∧ (∀ i to, m.removeAt cs h i to = none) ∧
    (∀ to, m.removeValues cs h to = none) ∧ (∀ nx, m.removeKey cs h nx = none) ∧ (∀ k, m.resetKey cs h k = none) ∧
    (∀ k nc, m.addKey cs h k nc = none) ∧ (∀ n, h.inc cs n = none) :=
  let r := key_uses_rejected m cs h hs.check (fun ae => hs.checkAt _ ae)
  ⟨r.1, r.2.2.1, r.2.2.2.2.1, r.2.2.2.2.2.1, r.2.2.2.2.2.2.1, r.2.2.2.2.2.2.2.1, r.2.2.2.1, r.2.1⟩

/-- **value iterator**: it is rejected when the value version moved since it was made (any `Add`, `Remove`, `RemoveValues`,
    `RemoveKey`, `Clear`) and also when only the key version moved (`InsertKey` / `AddKeyCrt`: its key iterator is stale) -/
theorem value_uses_rejected (m : MMap) (cs : Cells) (it : VIt) (hv : it.vidx.isSome = true)
    (hs : Stale it.vp cs ∨ Stale it.kit.kp cs) :
    m.vderef cs it = none ∧ (∀ to, MMap.vinc cs it to = none) ∧ (∀ to, m.remove cs it to = none) ∧
    m.makeMutable cs it = none ∧ (∀ ae, m.checkIt cs it ae = none) := by
  obtain ⟨i, hi⟩ := Option.isSome_iff_exists.mp hv
  have hn : it.vidx.isNone = false := by simp [hi]
  rcases hs with hs | hs
  · have h1 := hs.check
    have h2 := hs.checkAt m.vcell false
    refine ⟨?_, ?_, ?_, ?_, ?_⟩
    · simp [vderef, h1, chk]
    · intro to; simp [vinc, h1, chk]
    · intro to; simp [remove, h2, chk]
    · simp [makeMutable, hn, h2, chk]
    · intro ae
      unfold checkIt
      cases chk (it.kit.kp.checkAt cs m.kcell ae) <;> simp [hi, h2, chk]
  · have hd := deref_none_of_check hs.check
    have hm : m.mutKey cs it.kit = none := mutKey_none_of_check hs.check
    refine ⟨?_, ?_, ?_, ?_, ?_⟩
    · unfold vderef; cases chk (it.vp.check cs) <;> simp [hi, hd]
    · intro to; unfold vinc; cases chk (it.vp.check cs) <;> simp [hi, hd]
    · intro to; unfold remove; cases chk (it.vp.checkAt cs m.vcell false) <;> simp [hi, hm]
    · unfold makeMutable; simp only [hn, Bool.false_eq_true, ↓reduceIte]
      cases chk (it.vp.checkAt cs m.vcell false) <;> simp [hm]
    · intro ae; simp [checkIt, hs.checkAt, chk]

/-- the end iterator / a null value iterator where a value is required -/
theorem value_end_rejected (m : MMap) (cs : Cells) (it : VIt) (hv : it.vidx = none) :
    m.vderef cs it = none ∧ (∀ to, MMap.vinc cs it to = none) ∧ (∀ to, m.remove cs it to = none) := by
  refine ⟨?_, ?_, ?_⟩
  · unfold vderef; cases chk (it.vp.check cs) <;> simp [hv]
  · intro to; unfold vinc; cases chk (it.vp.check cs) <;> simp [hv]
  · intro to; unfold remove; cases chk (it.vp.checkAt cs m.vcell false) <;> simp [hv]

/-- **no false positive**: a value iterator made from the current versions, pointing at value `i` of a stored key `k` -/
theorem value_fresh_accepted (m : MMap) (cs : Cells) (k i : Nat) (mv : Bool) (vs : List Nat) (hk : m.vals k = some vs) (hi : i < vs.length) :
    let it : VIt := ⟨⟨snap cs m.kcell, some k, mv⟩, snap cs m.vcell, some i⟩
    (m.vderef cs it).isSome = true ∧ (∀ to, (MMap.vinc cs it to).isSome = true) ∧ (∀ to, (m.remove cs it to).isSome = true) ∧
    (m.makeMutable cs it).isSome = true ∧ (∀ ae, (m.checkIt cs it ae).isSome = true) := by
  intro it
  have hd : it.kit.deref cs = some k := by simp [it, HPos.deref, snap_check, chk]
  have hm : m.mutKey cs it.kit = some k := by simp [mutKey, it, snap_checkAt, chk, HPos.deref, snap_check]
  refine ⟨?_, ?_, ?_, ?_, ?_⟩
  · simp only [vderef, it, snap_check, chk, ↓reduceIte, Option.bind_eq_bind, Option.bind_some]
    simp only [it] at hd
    rw [hd]; simp [hk, hi]
  · intro to
    simp only [vinc, it, snap_check, chk, ↓reduceIte, Option.bind_eq_bind, Option.bind_some]
    simp only [it] at hd
    rw [hd]; simp
  · intro to
    simp only [remove, it, snap_checkAt, chk, ↓reduceIte, Option.bind_eq_bind, Option.bind_some]
    simp only [it] at hm
    rw [hm]; simp
  · simp only [makeMutable, it, Option.isNone_some, Bool.false_eq_true, ↓reduceIte, snap_checkAt, chk, Option.bind_eq_bind, Option.bind_some]
    simp only [it] at hm
    rw [hm]; simp
  · intro ae; simp [checkIt, it, snap_checkAt, chk]

/-- a key iterator made from the current key version, pointing at a stored key -/
theorem key_fresh_accepted (m : MMap) (cs : Cells) (k : Nat) (mv : Bool) (vs : List Nat) (hk : m.vals k = some vs) (hcap : m.cap ≠ 0) :
    let h : HPos := ⟨snap cs m.kcell, some k, mv⟩
    (m.kderef cs h).isSome = true ∧ (∀ v, (m.addAt cs h v).isSome = true) ∧ (∀ to, (m.removeValues cs h to).isSome = true) ∧
    (∀ nx, (m.removeKey cs h nx).isSome = true) ∧ (∀ k', (m.resetKey cs h k').isSome = true) ∧
    (∀ i to, i < vs.length → (m.removeAt cs h i to).isSome = true) ∧ (∀ i to, i ≤ vs.length → (m.makeIt cs h i to).isSome = true) := by
  intro h
  have hd : h.deref cs = some k := by simp [h, HPos.deref, snap_check, chk]
  have hm : m.mutKey cs h = some k := by simp [mutKey, h, snap_checkAt, chk, HPos.deref, snap_check]
  have hkd : m.kderef cs h = some (k, vs.length) := by simp [kderef, hd, hk]
  refine ⟨by simp [hkd], ?_, ?_, ?_, ?_, ?_, ?_⟩
  · intro v; simp [addAt, hm]
  · intro to; simp [removeValues, hm]
  · intro nx; simp [removeKey, hm, chk, hcap]
  · intro k'; simp [resetKey, h, snap_checkAt, chk]
  · intro i to hi; simp [removeAt, hkd, chk, hi, hm]
  · intro i to hi
    unfold makeIt
    simp only [h, Option.isNone_some, Bool.false_and, Bool.false_eq_true, ↓reduceIte, snap_checkAt, chk, Option.bind_eq_bind, Option.bind_some]
    simp only [h] at hkd
    rw [hkd]; simp [hi]

end MMap

namespace MWorld

theorem step_reject_unchanged (w : MWorld) (op : MOp) (h : (w.step op).2 = none) : (w.step op).1 = w := by
  cases op <;> simp only [step] at h ⊢ <;> first | rfl | (split at h <;> simp_all) | simp_all

end MWorld
end Momo.Ver

namespace Momo.Ver

/-- the object a mutating entry point of HashMultiMap is called on -/
def MOp.target : MOp → Option Bool
  | .add o _ _ _ => some o
  | .addAt o _ _ => some o
  | .insertKey o _ _ => some o
  | .addKey o _ _ _ => some o
  | .removeAt o _ _ _ => some o
  | .remove o _ _ => some o
  | .removeValues o _ _ => some o
  | .removeKey o _ _ => some o
  | .removeKeyByKey o _ => some o
  | .removeIf o _ _ => some o
  | .clear o => some o
  | _ => none

namespace MWorld

theorem setObj_cs (w : MWorld) (o : Bool) (cs' : Cells) (m' : MMap) : (w.setObj o cs' m').cs = cs' := by
  cases o <;> rfl
theorem setObj_obj_same (w : MWorld) (o : Bool) (cs' : Cells) (m' : MMap) : (w.setObj o cs' m').obj o = m' := by
  cases o <;> rfl

/-- **version table of HashMultiMap**: every mutating entry point (ResetKey and Swap aside) leaves the object's two cells in
    place, increments the key version whenever the key list or the nested capacity changed and at least one of the
    two versions whenever anything changed; calls that throw change nothing -/
theorem step_eff (w : MWorld) (op : MOp) (o : Bool) (ht : op.target = some o)
    (hinv : (w.obj o).cap = 0 → (w.obj o).kv = []) :
    MEff w.cs (w.obj o) (w.step op).1.cs ((w.step op).1.obj o) := by
  cases op <;> simp only [MOp.target, Option.some.injEq, reduceCtorEq] at ht <;> subst ht <;> simp only [step]
  case add k v nc => rw [setObj_cs, setObj_obj_same]; exact MMap.add_eff _ _ _ _ _
  case addAt o h v =>
    split
    · rename_i r hr; rw [setObj_cs, setObj_obj_same]; exact MMap.addAt_eff hr
    · exact MEff.refl _ _
  case insertKey o k nc => rw [setObj_cs, setObj_obj_same]; exact MMap.insertKey_eff _ _ _ _
  case addKey o h k nc =>
    split
    · rename_i r hr; rw [setObj_cs, setObj_obj_same]; exact MMap.addKey_eff hr
    · exact MEff.refl _ _
  case removeAt o h i to =>
    split
    · rename_i r hr; rw [setObj_cs, setObj_obj_same]; exact MMap.removeAt_eff hr
    · exact MEff.refl _ _
  case remove o it to =>
    split
    · rename_i r hr; rw [setObj_cs, setObj_obj_same]; exact MMap.remove_eff hr
    · exact MEff.refl _ _
  case removeValues o h to =>
    split
    · rename_i r hr; rw [setObj_cs, setObj_obj_same]; exact MMap.removeValues_eff hr
    · exact MEff.refl _ _
  case removeKey o h nx =>
    split
    · rename_i r hr; rw [setObj_cs, setObj_obj_same]; exact MMap.removeKey_eff hr
    · exact MEff.refl _ _
  case removeKeyByKey o k => rw [setObj_cs, setObj_obj_same]; exact MMap.removeKeyByKey_eff _ _ _
  case removeIf o mo r => rw [setObj_cs, setObj_obj_same]; exact MMap.removeIf_eff _ _ _ _
  case clear o => rw [setObj_cs, setObj_obj_same]; exact MMap.clear_eff _ _ hinv

end MWorld

/-- consequences of `MEff` for handles made before the call (cells distinct, fewer than 2^64 increments overall) -/
theorem MEff.key_stale {cs cs' : Cells} {m m' : MMap} (he : MEff cs m cs' m') (hne : m.kcell ≠ m.vcell)
    (hchg : m'.keysOf ≠ m.keysOf ∨ m'.cap ≠ m.cap) (hlt : cs' m.kcell < cs m.kcell + W) : Stale (snap cs m.kcell) cs' := by
  obtain ⟨_, _, nk, nv, hcs, hk, _⟩ := he
  have hpos := hk hchg
  apply snap_stale _ hlt
  rw [hcs, bumpN_other _ _ hne, bumpN_same]; omega

theorem MEff.value_stale {cs cs' : Cells} {m m' : MMap} (he : MEff cs m cs' m') (hne : m.kcell ≠ m.vcell)
    (hchg : m'.kv ≠ m.kv) (hlt1 : cs' m.kcell < cs m.kcell + W) (hlt2 : cs' m.vcell < cs m.vcell + W) :
    Stale (snap cs m.vcell) cs' ∨ Stale (snap cs m.kcell) cs' := by
  obtain ⟨_, _, nk, nv, hcs, _, hv⟩ := he
  have hpos := hv hchg
  by_cases h0 : 0 < nv
  · left
    apply snap_stale _ hlt2
    rw [hcs, bumpN_same, bumpN_other _ _ (fun e => hne e.symm)]; omega
  · right
    apply snap_stale _ hlt1
    rw [hcs, bumpN_other _ _ hne, bumpN_same]; omega

end Momo.Ver
