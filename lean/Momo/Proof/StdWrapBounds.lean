import Momo.Model.StdWrap
namespace Momo.StdWrap
open List

@[simp] theorem keyAt_cons_zero (e : Item) (t : List Item) : keyAt (e :: t) 0 = e.1 := by simp [keyAt]
@[simp] theorem keyAt_cons_succ (e : Item) (t : List Item) (i : Nat) : keyAt (e :: t) (i+1) = keyAt t i := by simp [keyAt]

theorem keyAt_mem (xs : List Item) (i : Nat) (h : i < xs.length) : ∃ e ∈ xs, e.1 = keyAt xs i := by
  refine ⟨xs[i], getElem_mem h, ?_⟩
  simp [keyAt, getElem?_eq_getElem h]

theorem lb_le_length (k : Nat) (xs : List Item) : lb k xs ≤ xs.length := by
  induction xs with
  | nil => simp [lb]
  | cons e t ih => simp only [lb]; split <;> simp <;> omega

theorem ub_le_length (k : Nat) (xs : List Item) : ub k xs ≤ xs.length := by
  induction xs with
  | nil => simp [ub]
  | cons e t ih => simp only [ub]; split <;> simp <;> omega

theorem lb_le_ub (k : Nat) (xs : List Item) : lb k xs ≤ ub k xs := by
  induction xs with
  | nil => simp [lb, ub]
  | cons e t ih =>
    simp only [lb, ub]
    by_cases h1 : e.1 < k
    · have : ¬ k < e.1 := by omega
      simp [h1, this]; exact ih
    · simp [h1]

theorem lb_lt (k : Nat) (xs : List Item) : ∀ i, i < lb k xs → keyAt xs i < k := by
  induction xs with
  | nil => intro i h; simp [lb] at h
  | cons e t ih =>
    intro i h
    simp only [lb] at h
    by_cases h1 : e.1 < k
    · simp only [h1, if_true] at h
      cases i with
      | zero => simpa using h1
      | succ j => simp; exact ih j (by omega)
    · simp [h1] at h

theorem ub_le (k : Nat) (xs : List Item) : ∀ i, i < ub k xs → keyAt xs i ≤ k := by
  induction xs with
  | nil => intro i h; simp [ub] at h
  | cons e t ih =>
    intro i h
    simp only [ub] at h
    by_cases h1 : k < e.1
    · simp [h1] at h
    · simp only [h1, if_false] at h
      cases i with
      | zero => simp; omega
      | succ j => simp; exact ih j (by omega)

theorem lb_ge (k : Nat) (xs : List Item) (hs : Sorted xs) : ∀ i, lb k xs ≤ i → i < xs.length → k ≤ keyAt xs i := by
  induction xs with
  | nil => intro i _ h; simp at h
  | cons e t ih =>
    intro i h hl
    have hs' := pairwise_cons.mp hs
    simp only [lb] at h
    by_cases h1 : e.1 < k
    · simp only [h1, if_true] at h
      cases i with
      | zero => omega
      | succ j => simp; exact ih hs'.2 j (by omega) (by simpa using hl)
    · cases i with
      | zero => simp; omega
      | succ j =>
        simp
        obtain ⟨x, hx, hxe⟩ := keyAt_mem t j (by simpa using hl)
        have := hs'.1 x hx
        omega

theorem ub_gt (k : Nat) (xs : List Item) (hs : Sorted xs) : ∀ i, ub k xs ≤ i → i < xs.length → k < keyAt xs i := by
  induction xs with
  | nil => intro i _ h; simp at h
  | cons e t ih =>
    intro i h hl
    have hs' := pairwise_cons.mp hs
    simp only [ub] at h
    by_cases h1 : k < e.1
    · cases i with
      | zero => simpa using h1
      | succ j =>
        simp
        obtain ⟨x, hx, hxe⟩ := keyAt_mem t j (by simpa using hl)
        have := hs'.1 x hx
        omega
    · simp only [h1, if_false] at h
      cases i with
      | zero => omega
      | succ j => simp; exact ih hs'.2 j (by omega) (by simpa using hl)

/-- the two tests of `pvCheckHint` / `pvFind(hint)` in terms of the bounds (equivalent-keys order) -/
theorem prev_le_iff (k : Nat) (xs : List Item) (hs : Sorted xs) (h : Nat) (h0 : h ≠ 0) (hl : h ≤ xs.length) :
    keyAt xs (h - 1) ≤ k ↔ h ≤ ub k xs := by
  constructor
  · intro hk
    apply Decidable.byContradiction; intro hn
    have := ub_gt k xs hs (h - 1) (by omega) (by omega)
    omega
  · intro hu; exact ub_le k xs (h - 1) (by omega)

theorem le_at_iff (k : Nat) (xs : List Item) (hs : Sorted xs) (h : Nat) (hl : h < xs.length) :
    k ≤ keyAt xs h ↔ lb k xs ≤ h := by
  constructor
  · intro hk
    apply Decidable.byContradiction; intro hn
    have := lb_lt k xs h (by omega)
    omega
  · intro hu; exact lb_ge k xs hs h hu hl

theorem prev_lt_iff (k : Nat) (xs : List Item) (hs : Sorted xs) (h : Nat) (h0 : h ≠ 0) (hl : h ≤ xs.length) :
    keyAt xs (h - 1) < k ↔ h ≤ lb k xs := by
  constructor
  · intro hk
    apply Decidable.byContradiction; intro hn
    have := lb_ge k xs hs (h - 1) (by omega) (by omega)
    omega
  · intro hu; exact lb_lt k xs (h - 1) (by omega)

theorem lt_at_iff (k : Nat) (xs : List Item) (hs : Sorted xs) (h : Nat) (hl : h < xs.length) :
    k < keyAt xs h ↔ ub k xs ≤ h := by
  constructor
  · intro hk
    apply Decidable.byContradiction; intro hn
    have := ub_le k xs h (by omega)
    omega
  · intro hu; exact ub_gt k xs hs h hu hl

theorem strict_sorted (xs : List Item) (h : StrictSorted xs) : Sorted xs :=
  Pairwise.imp (fun h => Nat.le_of_lt h) h

/-- with distinct keys at most one item is equivalent to `k` -/
theorem ub_le_lb_succ (k : Nat) (xs : List Item) (hs : StrictSorted xs) : ub k xs ≤ lb k xs + 1 := by
  apply Decidable.byContradiction; intro hn
  have hsr := strict_sorted xs hs
  have hl := ub_le_length k xs
  have h1 := lb_ge k xs hsr (lb k xs) (Nat.le_refl _) (by omega)
  have h2 := lb_ge k xs hsr (lb k xs + 1) (by omega) (by omega)
  have h3 := ub_le k xs (lb k xs) (by omega)
  have h4 := ub_le k xs (lb k xs + 1) (by omega)
  have := pairwise_iff_getElem.mp hs (lb k xs) (lb k xs + 1) (by omega) (by omega) (by omega)
  simp only [keyAt] at h1 h2 h3 h4
  rw [getElem?_eq_getElem (by omega)] at h1 h3
  rw [getElem?_eq_getElem (by omega)] at h2 h4
  simp at h1 h2 h3 h4
  omega

end Momo.StdWrap
