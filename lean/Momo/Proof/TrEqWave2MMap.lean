import Momo.Translated.Wave2
import Momo.Proof.TrEqMisc2Bucket
/-!
  C08: the branch tests of `internal::ArrayBucket::AddBackCrt / RemoveBack` (details/ArrayBucket.h) — first count, fast / heap,
  "array of this pool is full", new count, "still fits a fast pool", the state byte of a heap bucket, "last value" — as translated
  from the header (area Wave2, lean/Momo/Translated/Wave2.lean) are the tests of the model `VArr.addBack / removeBack`
  (`Momo/Model/MMap.lean`); together with the state-byte arithmetic of area Misc (`TrEqMisc2Bucket`) every test and every value
  of `VArr.addBack` comes from the header text.
  The generated definitions are rewritten by tools/translate.py from the current headers on every check; a changed
  function body makes the equalities below fail to elaborate.
-/
namespace Momo.TrEq
open Momo Momo.Seg Momo.MMap

theorem tr_ab_firstCount : Tr.ab_AddBack_firstCount = 1 := rfl
theorem tr_ab_isFast (pool : Nat) : (Tr.ab_AddBack_isFast pool = true) ↔ pool > 0 := by simp [Tr.ab_AddBack_isFast]
theorem tr_ab_isFull (c pool : Nat) : (Tr.ab_AddBack_isFull c pool = true) ↔ c = pool := by simp [Tr.ab_AddBack_isFull]
theorem tr_ab_newCount (c : Nat) (h : c < 2 ^ 64 - 1) : Tr.ab_AddBack_newCount c = c + 1 := by
  unfold Tr.ab_AddBack_newCount; rw [add64_of_lt (by omega)]
theorem tr_ab_staysFast (mf n : Nat) : (Tr.ab_AddBack_staysFast mf n = true) ↔ n ≤ mf := by simp [Tr.ab_AddBack_staysFast]
theorem tr_ab_heapState : Tr.ab_AddBack_heapState = 0 := rfl
theorem tr_ab_last (c : Nat) : (Tr.ab_RemoveBack_last c = true) ↔ c = 1 := by simp [Tr.ab_RemoveBack_last]
theorem tr_ab_removeIsFast (pool : Nat) : (Tr.ab_RemoveBack_isFast pool = true) ↔ pool > 0 := by simp [Tr.ab_RemoveBack_isFast]

/-- the state byte written for a heap bucket (`uint8_t{0}`) makes the fast test of the next call false; the state byte of the
    first value (`pvMakeState(pvGetFastMemPoolIndex(1), 1)`) makes it true: the model's three representations are told apart by
    the translated `memPoolIndex > 0` -/
theorem tr_ab_rep_tests :
    Tr.ab_AddBack_isFast (Tr.ab_pvGetMemPoolIndex Tr.ab_AddBack_heapState) = false ∧
    Tr.ab_RemoveBack_isFast (Tr.ab_pvGetMemPoolIndex Tr.ab_AddBack_heapState) = false ∧
    Tr.ab_AddBack_isFast (Tr.ab_pvGetMemPoolIndex
      (Tr.ab_pvMakeState (Tr.ab_pvGetFastMemPoolIndex Tr.ab_AddBack_firstCount) Tr.ab_AddBack_firstCount)) = true := by decide

/-- `AddBackCrt` (model `VArr.addBack`) with every test and every value from the translated header; `RemoveBack`'s first test -/
theorem addBack_tests_translated (mf : Nat) (hmf : mf < 2 ^ 63) (a : VArr) (v : Nat) (shrinkFails : Bool) :
    VArr.addBack mf a v =
      (match a.rep with
      | .none => ⟨.fast (Tr.ab_pvMakeState (Tr.ab_pvGetFastMemPoolIndex Tr.ab_AddBack_firstCount) Tr.ab_AddBack_firstCount), [v]⟩
      | .fast s =>
        if Tr.ab_AddBack_isFull (Tr.ab_pvGetFastCount s) (Tr.ab_pvGetMemPoolIndex s) = true then
          if Tr.ab_AddBack_staysFast mf (Tr.ab_AddBack_newCount (Tr.ab_pvGetFastCount s)) = true then
            ⟨.fast (Tr.ab_pvMakeState (Tr.ab_pvGetFastMemPoolIndex (Tr.ab_AddBack_newCount (Tr.ab_pvGetFastCount s)))
                (Tr.ab_AddBack_newCount (Tr.ab_pvGetFastCount s))),
              a.items.take (Tr.ab_pvGetFastCount s) ++ [v]⟩
          else ⟨.heap (Tr.ab_AddBack_heapCap mf), a.items.take (Tr.ab_pvGetFastCount s) ++ [v]⟩
        else ⟨.fast (Tr.ab_AddBack_incState s), a.items.take (Tr.ab_pvGetFastCount s) ++ [v]⟩
      | .heap cap =>
        if a.items.length < cap then ⟨.heap cap, a.items ++ [v]⟩
        else ⟨.heap (growCap cap (a.items.length + 1)), a.items ++ [v]⟩) ∧
    VArr.removeBack a shrinkFails =
      (if Tr.ab_RemoveBack_last a.count = true then VArr.empty else VArr.removeBack a shrinkFails) := by
  constructor
  · rw [addBack_translated mf hmf a v]
    cases a.rep with
    | none => rfl
    | heap cap => rfl
    | fast s =>
      have hc : Tr.ab_pvGetFastCount s < 16 := by
        unfold Tr.ab_pvGetFastCount
        exact Nat.lt_of_le_of_lt Nat.and_le_right (by decide)
      simp only [tr_ab_isFull, tr_ab_staysFast, tr_ab_newCount _ (show Tr.ab_pvGetFastCount s < 2 ^ 64 - 1 by omega)]
  · by_cases h : a.count = 1
    · rw [if_pos ((tr_ab_last _).mpr h)]; unfold VArr.removeBack; rw [if_pos h]
    · rw [if_neg (fun hh => h ((tr_ab_last _).mp hh))]

end Momo.TrEq
