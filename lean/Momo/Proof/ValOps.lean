import Momo.Proof.ValStep
/-!
  What the individual operations of the value-semantics model compute (C14): contents of a copy, exactness of
  move / swap, self-assignment, the null state.
-/
namespace Momo.Val

/-- the copy constructor's layout function keeps the elements and their order -/
def RebuildOk (k : Kind) : Prop := ∀ ls, (k.rebuild ls).flatten = ls.flatten

theorem srcCells_flatten (H : Heap) (s : Cont) :
    ((if s.inl = [] then [] else [s.inl]) ++ layout H s).flatten = contents H s := by
  unfold contents
  by_cases h : s.inl = [] <;> simp [h]

theorem contents_of_alloc (m : Mgr) (aux : List Nat) (ls : List (List Elem)) (H : Heap) (cap : Nat) :
    contents (allocCells m ls H).2 ⟨some m, aux, [], (allocCells m ls H).1, cap⟩ = ls.flatten := by
  simp only [contents, layout, List.nil_append]
  rw [allocCells_items]

/-- result of the primitive `copy`: the new object, and its contents -/
theorem copy_exec_spec (k : Kind) (hrb : RebuildOk k) {w w' : World} {evs : List Ev} (j i : Nat) (m : Mgr)
    (h : (Prim.copy j i m).exec k w = some (w', evs)) :
    ∃ s t, w.objs i = some s ∧ w.objs j = none ∧ w'.objs j = some t ∧ t.mgr = some m ∧
      contents w'.heap t = contents w.heap s ∧
      (∀ e, Ev.move e ∉ evs) ∧ (∀ m' h', Ev.free m' h' ∉ evs) ∧ (∀ m' h', Ev.alloc m' h' ∈ evs → m' = m) := by
  simp only [Prim.exec] at h
  split at h
  · rename_i s hj hi
    split at h
    · cases h
    · split at h
      · simp only [Option.some.injEq, Prod.mk.injEq] at h
        obtain ⟨rfl, rfl⟩ := h
        refine ⟨s, _, hi, hj, upd_same _ _ _, rfl, by simp [contents, layout], ?_, ?_, ?_⟩
        · intro e; simp
        · intro m' h'; simp
        · intro m' h' hm; simp at hm; exact hm.2.symm
      · simp only [Option.some.injEq, Prod.mk.injEq] at h
        obtain ⟨rfl, rfl⟩ := h
        refine ⟨s, _, hi, hj, upd_same _ _ _, rfl, ?_, ?_, ?_, ?_⟩
        · rw [contents_of_alloc, hrb, srcCells_flatten]
        · intro e; simp
        · intro m' h'; simp
        · intro m' h' hm
          simp at hm
          rcases hm with ⟨_, _, rfl, _⟩ | ⟨_, _, rfl, _⟩ <;> rfl
  · cases h

/-! ### evaluating single steps -/

theorem run_single (k : Kind) (w : World) (p : Prim) : run k w [p] = p.exec k w := by
  simp only [run]
  cases h : p.exec k w with
  | none => rfl
  | some r => obtain ⟨w1, e1⟩ := r; simp

theorem run_cons_inv {k : Kind} {w w' : World} {p : Prim} {ps : List Prim} {evs : List Ev}
    (h : run k w (p :: ps) = some (w', evs)) :
    ∃ w1 e1 e2, p.exec k w = some (w1, e1) ∧ run k w1 ps = some (w', e2) ∧ evs = e1 ++ e2 := by
  simp only [run] at h
  split at h
  · cases h
  · rename_i w1 e1 h1
    split at h
    · cases h
    · rename_i w2 e2 h2
      simp only [Option.some.injEq, Prod.mk.injEq] at h
      obtain ⟨rfl, rfl⟩ := h
      exact ⟨w1, e1, e2, h1, h2, rfl⟩

theorem run_nil_inv {k : Kind} {w w' : World} {evs : List Ev} (h : run k w [] = some (w', evs)) : w' = w ∧ evs = [] := by
  simp only [run, Option.some.injEq, Prod.mk.injEq] at h
  exact ⟨h.1.symm, h.2.symm⟩

theorem run_cons_some {k : Kind} {w w1 : World} {p : Prim} {e1 : List Ev} (ps : List Prim)
    (h1 : p.exec k w = some (w1, e1)) :
    run k w (p :: ps) = (run k w1 ps).map (fun r => (r.1, e1 ++ r.2)) := by
  simp only [run, h1]
  cases run k w1 ps with
  | none => rfl
  | some r => rfl

theorem freeCells_nil (H : Heap) : freeCells [] H = H := rfl
theorem destroyEvs_nil (k : Kind) : destroyEvs k [] = [] := by unfold destroyEvs; split <;> rfl
theorem contents_null (k : Kind) (H : Heap) (s : Cont) : contents H (nullOf k s) = [] := by
  simp [contents, layout, nullOf]

/-- the null state: nothing owned, nothing inside -/
def IsNull (c : Cont) : Prop := c.owned = [] ∧ c.inl = []
theorem nullOf_isNull (k : Kind) (s : Cont) : IsNull (nullOf k s) := ⟨rfl, rfl⟩

theorem IsNull.body {c : Cont} (h : IsNull c) : c.body = [] := by
  have := h.1; unfold Cont.owned at this; exact (List.append_eq_nil_iff.mp this).2

theorem IsNull.contents {c : Cont} (h : IsNull c) (H : Heap) : contents H c = [] := by
  simp [Val.contents, layout, h.2, h.body]

/-- destroying an object in the null state does nothing -/
theorem exec_destroy_null (k : Kind) (w : World) (i : Nat) (c : Cont) (hi : w.objs i = some c) (hn : IsNull c) :
    (Prim.destroy i).exec k w = some (⟨w.heap, upd w.objs i none⟩, []) := by
  simp only [Prim.exec, hi]
  cases hm : c.mgr with
  | none => simp [hn.1, hn.2]
  | some m => simp [hn.1, freeCells_nil, hn.contents, destroyEvs_nil]

theorem exec_move (k : Kind) (w : World) (j i : Nat) (s : Cont) (hj : w.objs j = none) (hi : w.objs i = some s) :
    (Prim.move j i).exec k w = some (⟨w.heap, upd (upd w.objs i (some (nullOf k s))) j (some s)⟩, relocEvs k s.inl) := by
  simp [Prim.exec, hj, hi]

theorem exec_swap (k : Kind) (w : World) (i j : Nat) (a b : Cont) (hi : w.objs i = some a) (hj : w.objs j = some b) :
    (Prim.swap i j).exec k w = some (⟨w.heap, upd (upd w.objs i (some b)) j (some a)⟩, []) := by
  simp [Prim.exec, hj, hi]

/-! ### events -/
theorem copy_not_mem_relocEvs (k : Kind) (hm : k.movable = true) (xs : List Elem) (e : Elem) : Ev.copy e ∉ relocEvs k xs := by
  unfold relocEvs; split
  · simp
  · simp [hm]

theorem alloc_not_mem_relocEvs (k : Kind) (xs : List Elem) (m : Mgr) (h : Nat) : Ev.alloc m h ∉ relocEvs k xs := by
  unfold relocEvs; split
  · simp
  · simp; intro x _; split <;> simp

theorem free_not_mem_relocEvs (k : Kind) (xs : List Elem) (m : Mgr) (h : Nat) : Ev.free m h ∉ relocEvs k xs := by
  unfold relocEvs; split
  · simp
  · simp; intro x _; split <;> simp

theorem mem_destroyEvs {k : Kind} {xs : List Elem} {ev : Ev} (h : ev ∈ destroyEvs k xs) : ∃ e, ev = Ev.destroy e := by
  unfold destroyEvs at h; split at h
  · cases h
  · obtain ⟨e, _, rfl⟩ := List.mem_map.mp h; exact ⟨e, rfl⟩

/-- what `destroy` does, whatever the object held -/
theorem destroy_inv {k : Kind} {w w' : World} {i : Nat} {evs : List Ev} (h : (Prim.destroy i).exec k w = some (w', evs)) :
    ∃ c, w.objs i = some c ∧ w'.objs = upd w.objs i none ∧ w'.heap.next = w.heap.next ∧
      (∀ h, h ∉ c.owned → w'.heap.get h = w.heap.get h) ∧
      (∀ e, Ev.copy e ∉ evs) ∧ (∀ e, Ev.move e ∉ evs) ∧ (∀ m h, Ev.alloc m h ∉ evs) ∧
      (∀ m h, Ev.free m h ∈ evs → c.mgr = some m ∧ h ∈ c.owned) := by
  simp only [Prim.exec] at h
  split at h
  · cases h
  · rename_i c hi
    split at h
    · split at h
      · simp only [Option.some.injEq, Prod.mk.injEq] at h
        obtain ⟨rfl, rfl⟩ := h
        exact ⟨c, hi, rfl, rfl, fun _ _ => rfl, by simp, by simp, by simp, by simp⟩
      · cases h
    · rename_i m hm
      simp only [Option.some.injEq, Prod.mk.injEq] at h
      obtain ⟨rfl, rfl⟩ := h
      refine ⟨c, hi, rfl, freeCells_next _ _, ?_, ?_, ?_, ?_, ?_⟩
      · intro h hh; show (freeCells c.owned w.heap).get h = _; rw [freeCells_get]; simp [hh]
      · intro e he
        rcases List.mem_append.mp he with he | he
        · obtain ⟨x, hx⟩ := mem_destroyEvs he; cases hx
        · simp at he
      · intro e he
        rcases List.mem_append.mp he with he | he
        · obtain ⟨x, hx⟩ := mem_destroyEvs he; cases hx
        · simp at he
      · intro m' h' he
        rcases List.mem_append.mp he with he | he
        · obtain ⟨x, hx⟩ := mem_destroyEvs he; cases hx
        · simp at he
      · intro m' h' he
        rcases List.mem_append.mp he with he | he
        · obtain ⟨x, hx⟩ := mem_destroyEvs he; cases hx
        · simp at he
          exact ⟨by rw [hm, he.2], he.1⟩

/-! ### move construction -/
theorem moveCtor_spec (cfg : Cfg) {w w1 : World} {evs : List Ev} (b a : Nat)
    (h : step cfg w (.moveCtor b a) = some (w1, evs)) :
    ∃ s, w.objs a = some s ∧ w.objs b = none ∧ w1.heap = w.heap ∧ w1.objs b = some s ∧
      w1.objs a = some (nullOf cfg.k s) ∧ (∀ x, x ≠ a → x ≠ b → w1.objs x = w.objs x) ∧ evs = relocEvs cfg.k s.inl := by
  simp only [step, expand, run_single, Prim.exec] at h
  split at h
  · rename_i s hb ha
    simp only [Option.some.injEq, Prod.mk.injEq] at h
    obtain ⟨rfl, rfl⟩ := h
    have hab : a ≠ b := by intro e; subst e; rw [hb] at ha; cases ha
    refine ⟨s, ha, hb, rfl, by simp [upd], by simp [upd, hab], ?_, rfl⟩
    intro x hxa hxb; simp [upd, hxa, hxb]
  · cases h

/-! ### swap -/

/-- Swap of two `Array`s (three `Data` moves): objects exchanged, heap untouched -/
theorem swap_array (cfg : Cfg) (hk : cfg.k.arrayStyle = true) (w : World) (i j : Nat) (a b : Cont) (hij : i ≠ j)
    (hi : w.objs i = some a) (hj : w.objs j = some b) (ht : w.objs cfg.t1 = none) :
    ∃ w1, step cfg w (.swap i j) = some (w1, relocEvs cfg.k a.inl ++ (relocEvs cfg.k b.inl ++ relocEvs cfg.k a.inl)) ∧
      w1.heap = w.heap ∧ w1.objs i = some b ∧ w1.objs j = some a ∧
      ∀ x, x ≠ i → x ≠ j → w1.objs x = w.objs x := by
  have hti : cfg.t1 ≠ i := by intro e; rw [e, hi] at ht; cases ht
  have htj : cfg.t1 ≠ j := by intro e; rw [e, hj] at ht; cases ht
  have hji : j ≠ i := fun e => hij e.symm
  have hit : i ≠ cfg.t1 := fun e => hti e.symm
  have hjt : j ≠ cfg.t1 := fun e => htj e.symm
  let k := cfg.k
  let o1 := upd (upd w.objs i (some (nullOf k a))) cfg.t1 (some a)
  have e1 := exec_move k w cfg.t1 i a ht hi
  have e2 := exec_destroy_null k ⟨w.heap, o1⟩ i (nullOf k a) (by simp [o1, upd, hit]) (nullOf_isNull _ _)
  let o2 := upd o1 i none
  have e3 := exec_move k ⟨w.heap, o2⟩ i j b (by simp [o2]) (by simp [o2, o1, upd, hji, hjt, hj])
  let o3 := upd (upd o2 j (some (nullOf k b))) i (some b)
  have e4 := exec_destroy_null k ⟨w.heap, o3⟩ j (nullOf k b) (by simp [o3, upd, hji]) (nullOf_isNull _ _)
  let o4 := upd o3 j none
  have e5 := exec_move k ⟨w.heap, o4⟩ j cfg.t1 a (by simp [o4]) (by simp [o4, o3, o2, o1, upd, hti, htj])
  let o5 := upd (upd o4 cfg.t1 (some (nullOf k a))) j (some a)
  have e6 := exec_destroy_null k ⟨w.heap, o5⟩ cfg.t1 (nullOf k a) (by simp [o5, upd, htj]) (nullOf_isNull _ _)
  refine ⟨⟨w.heap, upd o5 cfg.t1 none⟩, ?_, rfl, ?_, ?_, ?_⟩
  · simp only [step, expand, nativeSwap, hk, if_true, hij, if_false, run]
    simp only [k, o1, o2, o3, o4, o5] at e1 e2 e3 e4 e5 e6
    simp only [e1, e2, e3, e4, e5, e6, List.nil_append, List.append_nil]
    rfl
  · simp [o5, o4, o3, upd, hit, hij]
  · simp [o5, upd, hjt]
  · intro x hxi hxj
    by_cases hxt : x = cfg.t1
    · subst hxt; simp [upd, ht]
    · simp [o5, o4, o3, o2, o1, upd, hxi, hxj, hxt]

theorem swap_ptr (cfg : Cfg) (hk : cfg.k.arrayStyle = false) (w : World) (i j : Nat) (a b : Cont)
    (hi : w.objs i = some a) (hj : w.objs j = some b) :
    step cfg w (.swap i j) = some (⟨w.heap, upd (upd w.objs i (some b)) j (some a)⟩, []) := by
  simp only [step, expand, nativeSwap, hk, Bool.false_eq_true, if_false, run_single]
  exact exec_swap cfg.k w i j a b hi hj

/-- **swap exchanges exactly**: whatever the kind, the two objects are exchanged (handles, manager, internal
    items), the heap is untouched, nothing else changes, no element is copied, nothing is allocated or freed -/
theorem swap_exact (cfg : Cfg) (w : World) (i j : Nat) (a b : Cont) (hij : i ≠ j)
    (hi : w.objs i = some a) (hj : w.objs j = some b) (ht : w.objs cfg.t1 = none) :
    ∃ w1 evs, step cfg w (.swap i j) = some (w1, evs) ∧
      w1.heap = w.heap ∧ w1.objs i = some b ∧ w1.objs j = some a ∧ (∀ x, x ≠ i → x ≠ j → w1.objs x = w.objs x) ∧
      (cfg.k.movable = true → ∀ e, Ev.copy e ∉ evs) ∧ (∀ m h, Ev.alloc m h ∉ evs) ∧ (∀ m h, Ev.free m h ∉ evs) := by
  cases hk : cfg.k.arrayStyle with
  | true =>
    obtain ⟨w1, hs, h1, h2, h3, h4⟩ := swap_array cfg hk w i j a b hij hi hj ht
    refine ⟨w1, _, hs, h1, h2, h3, h4, ?_, ?_, ?_⟩
    · intro hm e he
      simp only [List.mem_append] at he
      rcases he with he | he | he <;> exact copy_not_mem_relocEvs cfg.k hm _ e he
    · intro m h he
      simp only [List.mem_append] at he
      rcases he with he | he | he <;> exact alloc_not_mem_relocEvs cfg.k _ m h he
    · intro m h he
      simp only [List.mem_append] at he
      rcases he with he | he | he <;> exact free_not_mem_relocEvs cfg.k _ m h he
  | false =>
    refine ⟨_, _, swap_ptr cfg hk w i j a b hi hj, rfl, ?_, ?_, ?_, by simp, by simp, by simp⟩
    · simp [upd, hij]
    · simp [upd]
    · intro x hxi hxj; simp [upd, hxi, hxj]

/-! ### self-assignment -/
theorem copyAssign_self (cfg : Cfg) (w : World) (i : Nat) : step cfg w (.copyAssign i i) = some (w, []) := by
  simp [step, expand, run]

theorem wCopyAssign_self (cfg : Cfg) (w : World) (i : Nat) : step cfg w (.wCopyAssign i i) = some (w, []) := by
  simp [step, expand, run]

theorem wMoveAssign_self (cfg : Cfg) (w : World) (i : Nat) (lay : Lay) (keep : Nat) :
    step cfg w (.wMoveAssign i i lay keep) = some (w, []) := by
  simp [step, expand, run]

theorem swap_self_array (cfg : Cfg) (hk : cfg.k.arrayStyle = true) (w : World) (i : Nat) : step cfg w (.swap i i) = some (w, []) := by
  simp [step, expand, nativeSwap, hk, run]

theorem upd_self_eq (f : Nat → Option Cont) (i : Nat) (c : Option Cont) (h : f i = c) : upd f i c = f := by
  funext x; by_cases hx : x = i
  · subst hx; simp [upd, h]
  · simp [upd, hx]

theorem swap_self_ptr (cfg : Cfg) (hk : cfg.k.arrayStyle = false) (w : World) (i : Nat) (c : Cont) (hi : w.objs i = some c) :
    step cfg w (.swap i i) = some (w, []) := by
  rw [swap_ptr cfg hk w i i c c hi hi]
  have : upd (upd w.objs i (some c)) i (some c) = w.objs := by
    funext x; by_cases hx : x = i
    · subst hx; simp [upd, hi]
    · simp [upd, hx]
  rw [this]

/-- `x = std::move(x)`: `Array` tests `this != &data`; the others run `C(std::move(x)).Swap(x)`, which hands
    everything back -/
theorem moveAssign_self (cfg : Cfg) (w : World) (i : Nat) (c : Cont) (hi : w.objs i = some c) (ht : w.objs cfg.t1 = none) :
    step cfg w (.moveAssign i i) = some (w, if cfg.k.arrayStyle then [] else relocEvs cfg.k c.inl) := by
  cases hk : cfg.k.arrayStyle with
  | true => simp [step, expand, nativeMoveAssign, hk, run]
  | false =>
    have hti : cfg.t1 ≠ i := by intro e; rw [e, hi] at ht; cases ht
    have hit : i ≠ cfg.t1 := fun e => hti e.symm
    let k := cfg.k
    let o1 := upd (upd w.objs i (some (nullOf k c))) cfg.t1 (some c)
    have e1 := exec_move k w cfg.t1 i c ht hi
    have e2 := exec_swap k ⟨w.heap, o1⟩ cfg.t1 i c (nullOf k c) (by simp [o1]) (by simp [o1, upd, hit])
    let o2 := upd (upd o1 cfg.t1 (some (nullOf k c))) i (some c)
    have e3 := exec_destroy_null k ⟨w.heap, o2⟩ cfg.t1 (nullOf k c) (by simp [o2, upd, hti]) (nullOf_isNull _ _)
    simp only [step, expand, nativeMoveAssign, hk, Bool.false_eq_true, if_false, run]
    simp only [k, o1, o2] at e1 e2 e3
    simp only [e1, e2, e3, List.nil_append, List.append_nil]
    have : upd (upd (upd (upd (upd w.objs i (some (nullOf cfg.k c))) cfg.t1 (some c)) cfg.t1 (some (nullOf cfg.k c))) i (some c)) cfg.t1 none = w.objs := by
      funext x
      by_cases hx : x = cfg.t1
      · subst hx; simp [upd, ht]
      · by_cases hxi : x = i
        · subst hxi; simp [upd, hx, hi]
        · simp [upd, hx, hxi]
    rw [this]

/-! ### move assignment -/

theorem move_inv {k : Kind} {w w' : World} {j i : Nat} {evs : List Ev} (h : (Prim.move j i).exec k w = some (w', evs)) :
    ∃ s, w.objs i = some s ∧ w.objs j = none ∧
      w' = ⟨w.heap, upd (upd w.objs i (some (nullOf k s))) j (some s)⟩ ∧ evs = relocEvs k s.inl := by
  simp only [Prim.exec] at h
  split at h
  · rename_i s hj hi
    simp only [Option.some.injEq, Prod.mk.injEq] at h
    exact ⟨s, hi, hj, h.1.symm, h.2.symm⟩
  · cases h

theorem swap_inv {k : Kind} {w w' : World} {i j : Nat} {evs : List Ev} (h : (Prim.swap i j).exec k w = some (w', evs)) :
    ∃ a b, w.objs i = some a ∧ w.objs j = some b ∧ w' = ⟨w.heap, upd (upd w.objs i (some b)) j (some a)⟩ ∧ evs = [] := by
  simp only [Prim.exec] at h
  split at h
  · rename_i a b hi hj
    simp only [Option.some.injEq, Prod.mk.injEq] at h
    exact ⟨a, b, hi, hj, h.1.symm, h.2.symm⟩
  · cases h

theorem run_append {k : Kind} {w w' : World} {ps qs : List Prim} {evs : List Ev}
    (h : run k w (ps ++ qs) = some (w', evs)) :
    ∃ w1 e1 e2, run k w ps = some (w1, e1) ∧ run k w1 qs = some (w', e2) ∧ evs = e1 ++ e2 := by
  induction ps generalizing w evs with
  | nil => exact ⟨w, [], evs, rfl, h, rfl⟩
  | cons p ps ih =>
    obtain ⟨wa, ea, eb, h1, h2, rfl⟩ := run_cons_inv (by simpa using h)
    obtain ⟨w1, e1, e2, h3, h4, rfl⟩ := ih h2
    refine ⟨w1, ea ++ e1, e2, ?_, h4, by simp⟩
    rw [run_cons_some ps h1, h3]; rfl

/-- native `i = std::move(j)` (both forms): `i` takes over exactly what `j` held, `j` is left in the null
    state, the old contents of `i` are released through the manager `i` held, nothing is allocated, no movable
    element is copied, no other object and no block of `j` is touched -/
theorem nativeMoveAssign_spec (cfg : Cfg) {w w1 : World} {evs : List Ev} (wf : WF w) (i j : Nat) (hij : i ≠ j)
    (ci cj : Cont) (hi : w.objs i = some ci) (hj : w.objs j = some cj)
    (h : run cfg.k w (nativeMoveAssign cfg i j) = some (w1, evs)) :
    w1.objs i = some cj ∧ w1.objs j = some (nullOf cfg.k cj) ∧
      (∀ x, x ≠ i → x ≠ j → w1.objs x = w.objs x) ∧
      (∀ h, h ∉ ci.owned → w1.heap.get h = w.heap.get h) ∧ w1.heap.next = w.heap.next ∧
      (cfg.k.movable = true → ∀ e, Ev.copy e ∉ evs) ∧ (∀ m h, Ev.alloc m h ∉ evs) ∧
      (∀ m h, Ev.free m h ∈ evs → ci.mgr = some m ∧ h ∈ ci.owned) := by
  have hji : j ≠ i := fun e => hij e.symm
  cases hk : cfg.k.arrayStyle with
  | true =>
    simp only [nativeMoveAssign, hk, if_true, hij, if_false] at h
    obtain ⟨wA, eA, eB, hA, hB, rfl⟩ := run_cons_inv h
    rw [run_single] at hB
    obtain ⟨c, hc, hoA, hnA, hgA, hcA, hmA, haA, hfA⟩ := destroy_inv hA
    rw [hi] at hc; cases hc
    obtain ⟨s, hs, _, rfl, rfl⟩ := move_inv hB
    have : wA.objs j = some cj := by rw [hoA]; simp [upd, hji, hj]
    rw [this] at hs; cases hs
    refine ⟨by simp [upd], by simp [upd, hji], ?_, hgA, hnA, ?_, ?_, ?_⟩
    · intro x hxi hxj; simp [upd, hxi, hxj, hoA]
    · intro hm e he
      rcases List.mem_append.mp he with he | he
      · exact hcA e he
      · exact copy_not_mem_relocEvs cfg.k hm _ e he
    · intro m h he
      rcases List.mem_append.mp he with he | he
      · exact haA m h he
      · exact alloc_not_mem_relocEvs cfg.k _ m h he
    · intro m h he
      rcases List.mem_append.mp he with he | he
      · exact hfA m h he
      · exact absurd he (free_not_mem_relocEvs cfg.k _ m h)
  | false =>
    simp only [nativeMoveAssign, hk, Bool.false_eq_true, if_false] at h
    obtain ⟨wA, eA, e', hA, h', rfl⟩ := run_cons_inv h
    obtain ⟨wB, eB, e'', hB, h'', rfl⟩ := run_cons_inv h'
    rw [run_single] at h''
    obtain ⟨s, hs, ht, rfl, rfl⟩ := move_inv hA
    rw [hj] at hs; cases hs
    have hti : cfg.t1 ≠ i := by intro e; rw [e, hi] at ht; cases ht
    have htj : cfg.t1 ≠ j := by intro e; rw [e, hj] at ht; cases ht
    have hit : i ≠ cfg.t1 := fun e => hti e.symm
    have hjt : j ≠ cfg.t1 := fun e => htj e.symm
    obtain ⟨a, b, ha, hb, rfl, rfl⟩ := swap_inv hB
    simp [upd] at ha
    simp [upd, hit, hij, hi] at hb
    subst ha; subst hb
    obtain ⟨c, hc, ho, hn, hg, hcD, hmD, haD, hfD⟩ := destroy_inv h''
    simp [upd, hti] at hc
    subst hc
    refine ⟨by rw [ho]; simp [upd, hit], by rw [ho]; simp [upd, hjt, hji], ?_, hg, hn, ?_, ?_, ?_⟩
    · intro x hxi hxj
      rw [ho]
      by_cases hxt : x = cfg.t1
      · subst hxt; simp [upd, ht]
      · simp [upd, hxi, hxj, hxt]
    · intro hm e he
      simp only [List.mem_append, List.not_mem_nil, false_or] at he
      rcases he with he | he
      · exact copy_not_mem_relocEvs cfg.k hm _ e he
      · exact hcD e he
    · intro m h he
      simp only [List.mem_append, List.not_mem_nil, false_or] at he
      rcases he with he | he
      · exact alloc_not_mem_relocEvs cfg.k _ m h he
      · exact haD m h he
    · intro m h he
      simp only [List.mem_append, List.not_mem_nil, false_or] at he
      rcases he with he | he
      · exact absurd he (free_not_mem_relocEvs cfg.k _ m h)
      · exact hfD m h he

/-- contents of an object whose blocks were not touched -/
theorem contents_untouched {w : World} (wf : WF w) {i j : Nat} (hij : i ≠ j) {ci cj : Cont}
    (hi : w.objs i = some ci) (hj : w.objs j = some cj) {H' : Heap}
    (hg : ∀ h, h ∉ ci.owned → H'.get h = w.heap.get h) : contents H' cj = contents w.heap cj :=
  (contents_agree (fun h hh => hg h (fun hc => wf.disj i j ci cj hij hi hj h hc hh))).1

theorem moveAssign_spec (cfg : Cfg) {w w1 : World} {evs : List Ev} (wf : WF w) (i j : Nat) (hij : i ≠ j)
    (ci cj : Cont) (hi : w.objs i = some ci) (hj : w.objs j = some cj)
    (h : step cfg w (.moveAssign i j) = some (w1, evs)) :
    w1.objs i = some cj ∧ w1.objs j = some (nullOf cfg.k cj) ∧ contents w1.heap cj = contents w.heap cj ∧
      (∀ x, x ≠ i → x ≠ j → w1.objs x = w.objs x) ∧
      (cfg.k.movable = true → ∀ e, Ev.copy e ∉ evs) ∧ (∀ m h, Ev.alloc m h ∉ evs) ∧
      (∀ m h, Ev.free m h ∈ evs → ci.mgr = some m ∧ h ∈ ci.owned) := by
  simp only [step, expand] at h
  obtain ⟨h1, h2, h3, h4, _, h6, h7, h8⟩ := nativeMoveAssign_spec cfg wf i j hij ci cj hi hj h
  exact ⟨h1, h2, contents_untouched wf hij hi hj h4, h3, h6, h7, h8⟩

/-! ### copy assignment -/

theorem copy_exec_aux {k : Kind} {w w' : World} {evs : List Ev} {j i : Nat} {m : Mgr}
    (h : (Prim.copy j i m).exec k w = some (w', evs)) : ∀ t, w'.objs j = some t → t.aux.length = k.auxCount := by
  simp only [Prim.exec] at h
  split at h
  · split at h
    · cases h
    · split at h <;>
      · simp only [Option.some.injEq, Prod.mk.injEq] at h
        obtain ⟨rfl, _⟩ := h
        intro t ht
        simp only [upd_same, Option.some.injEq] at ht
        subst ht
        simp [allocCells_fst]
  · cases h

/-- what the result of `copy T j a` looks like from outside -/
theorem copy_step_spec (cfg : Cfg) (hrb : RebuildOk cfg.k) {w wA : World} {eA : List Ev} (wf : WF w) (T j : Nat) (a : Mgr)
    (cj : Cont) (hj : w.objs j = some cj) (hA : (Prim.copy T j a).exec cfg.k w = some (wA, eA)) :
    WF wA ∧ w.objs T = none ∧ j ≠ T ∧ (∀ x, x ≠ T → wA.objs x = w.objs x) ∧
      ∃ t, wA.objs T = some t ∧ t.mgr = some a ∧ t.aux.length = cfg.k.auxCount ∧
        contents wA.heap t = contents w.heap cj ∧ contents wA.heap cj = contents w.heap cj ∧
        (∀ c x, x ≠ T → w.objs x = some c → contents wA.heap c = contents w.heap c) := by
  obtain ⟨wfA, fA⟩ := prim_sound cfg.k wf _ hA
  obtain ⟨s, t, hs, hT, hAT, htm, hct, _⟩ := copy_exec_spec cfg.k hrb T j a hA
  rw [hj] at hs; cases hs
  have hjT : j ≠ T := by intro e; subst e; rw [hT] at hj; cases hj
  have hfr : ∀ x, x ≠ T → wA.objs x = w.objs x := fun x hx => (fA x (by simpa [Prim.writes] using hx)).1
  refine ⟨wfA, hT, hjT, hfr, t, hAT, htm, copy_exec_aux hA t hAT, hct, ?_, ?_⟩
  · exact (fA.contents (x := j) (by simpa [Prim.writes] using hjT) hj).2
  · intro c x hx hc
    exact (fA.contents (x := x) (by simpa [Prim.writes] using hx) hc).2

/-- `[copy T j a] ++ (i = std::move(T)) ++ [~T]`: `Array::operator=(const Array&)`, and the wrappers' `operator=(const W&)` -/
theorem copyThenAssign_spec (cfg : Cfg) (hrb : RebuildOk cfg.k) {w w1 : World} {evs : List Ev} (wf : WF w)
    (i j T : Nat) (a : Mgr) (hij : i ≠ j) (ci cj : Cont) (hi : w.objs i = some ci) (hj : w.objs j = some cj)
    (h : run cfg.k w ([Prim.copy T j a] ++ nativeMoveAssign cfg i T ++ [Prim.destroy T]) = some (w1, evs)) :
    ∃ t, w1.objs i = some t ∧ t.mgr = some a ∧ t.aux.length = cfg.k.auxCount ∧
      contents w1.heap t = contents w.heap cj ∧ w1.objs j = some cj ∧ contents w1.heap cj = contents w.heap cj ∧
      w1.objs T = none := by
  rw [List.append_assoc] at h
  obtain ⟨wA, eA, e', hA, h', rfl⟩ := run_append h
  rw [run_single] at hA
  obtain ⟨wB, eB, eC, hB, hC, rfl⟩ := run_append h'
  rw [run_single] at hC
  obtain ⟨wfA, hT, hjT, hfr, t, hAT, htm, hta, hct, hcj, _⟩ := copy_step_spec cfg hrb wf T j a cj hj hA
  have hiT : i ≠ T := by intro e; subst e; rw [hT] at hi; cases hi
  have hAi : wA.objs i = some ci := by rw [hfr i hiT]; exact hi
  have hAj : wA.objs j = some cj := by rw [hfr j hjT]; exact hj
  obtain ⟨hBi, hBT, hBo, hBg, _, _⟩ := nativeMoveAssign_spec cfg wfA i T hiT ci t hAi hAT hB
  obtain ⟨c, hc, ho, _, hg, _⟩ := destroy_inv hC
  rw [hBT] at hc; cases hc
  have hg' : ∀ h, w1.heap.get h = wB.heap.get h := fun h => hg h (by simp [nullOf_owned])
  refine ⟨t, by rw [ho]; simp [upd, hiT, hBi], htm, hta, ?_, ?_, ?_, by rw [ho]; simp [upd]⟩
  · rw [(contents_agree (fun h _ => hg' h)).1, contents_untouched wfA hiT hAi hAT hBg, hct]
  · rw [ho]; simp only [upd, hjT, if_false]; rw [hBo j (fun e => hij e.symm) hjT]; exact hAj
  · rw [(contents_agree (fun h _ => hg' h)).1, contents_untouched wfA hij hAi hAj hBg, hcj]

/-- **`i = j` (copy assignment) of the native containers**: `i` afterwards holds a manager copied from `j`'s
    (`sel`), is usable, holds equal contents; `j` is unchanged -/
theorem copyAssign_spec (cfg : Cfg) (hrb : RebuildOk cfg.k) {w w1 : World} {evs : List Ev} (wf : WF w)
    (i j : Nat) (hij : i ≠ j) (ci cj : Cont) (hi : w.objs i = some ci) (hj : w.objs j = some cj)
    (h : step cfg w (.copyAssign i j) = some (w1, evs)) :
    ∃ t, w1.objs i = some t ∧ t.mgr = cj.mgr.map cfg.sel ∧ usable cfg.k t = true ∧
      contents w1.heap t = contents w.heap cj ∧ w1.objs j = some cj ∧ contents w1.heap cj = contents w.heap cj := by
  simp only [step, expand, hij, if_false, allocOf, hj, Option.bind_some] at h
  cases hm : cj.mgr with
  | none => simp [hm] at h
  | some m =>
    simp only [hm] at h
    cases hk : cfg.k.arrayStyle with
    | true =>
      simp only [hk, if_true] at h
      -- the temporary cannot be `i`: `i` is alive, the slot of the temporary must be free
      have hiT : i ≠ cfg.t1 := by
        intro e
        obtain ⟨wA, eA, e', hA, _, _⟩ := run_cons_inv h
        obtain ⟨_, _, _, hT, _⟩ := copy_exec_spec cfg.k hrb cfg.t1 j _ hA
        rw [← e, hi] at hT; cases hT
      have : run cfg.k w ([Prim.copy cfg.t1 j (cfg.sel m)] ++ nativeMoveAssign cfg i cfg.t1 ++ [Prim.destroy cfg.t1]) = some (w1, evs) := by
        simpa [nativeMoveAssign, hk, hiT] using h
      obtain ⟨t, h1, h2, h3, h4, h5, h6, _⟩ := copyThenAssign_spec cfg hrb wf i j cfg.t1 _ hij ci cj hi hj this
      exact ⟨t, h1, by simp [h2], by simp [usable, h2, h3], h4, h5, h6⟩
    | false =>
      simp only [hk, Bool.false_eq_true, if_false] at h
      obtain ⟨wA, eA, e', hA, h', rfl⟩ := run_cons_inv h
      obtain ⟨wB, eB, eC, hB, hC, rfl⟩ := run_cons_inv h'
      rw [run_single] at hC
      obtain ⟨wfA, hT, hjT, hfr, t, hAT, htm, hta, hct, hcj, _⟩ := copy_step_spec cfg hrb wf cfg.t1 j _ cj hj hA
      have hiT : i ≠ cfg.t1 := by intro e; rw [e, hT] at hi; cases hi
      have hAi : wA.objs i = some ci := by rw [hfr i hiT]; exact hi
      have hAj : wA.objs j = some cj := by rw [hfr j hjT]; exact hj
      obtain ⟨a, b, ha, hb, rfl, rfl⟩ := swap_inv hB
      rw [hAT] at ha; cases ha
      rw [hAi] at hb; cases hb
      obtain ⟨c, hc, ho, _, hg, _⟩ := destroy_inv hC
      have hTi : cfg.t1 ≠ i := fun e => hiT e.symm
      simp [upd, hTi] at hc
      subst hc
      refine ⟨t, by rw [ho]; simp [upd, hiT], by simp [htm], by simp [usable, htm, hta], ?_, ?_, ?_⟩
      · rw [contents_untouched wfA hiT hAi hAT hg, hct]
      · have hji : j ≠ i := fun e => hij e.symm
        rw [ho]; simp [upd, hjT, hji, hAj]
      · rw [contents_untouched wfA hij hAi hAj hg, hcj]

/-! ### the null state: every operation the property allows is defined -/

theorem exec_copy_some (k : Kind) (w : World) (T j : Nat) (a : Mgr) (cj : Cont) (hT : w.objs T = none)
    (hj : w.objs j = some cj) (hm : cj.mgr.isSome = true) :
    ∃ wA eA t, (Prim.copy T j a).exec k w = some (wA, eA) ∧ wA.objs = upd w.objs T (some t) := by
  have hn : cj.mgr.isNone = false := by cases h : cj.mgr <;> simp_all
  simp only [Prim.exec, hT, hj, hn, Bool.false_eq_true, if_false]
  split
  · exact ⟨_, _, _, rfl, rfl⟩
  · exact ⟨_, _, _, rfl, rfl⟩

theorem destroy_null_step (cfg : Cfg) (w : World) (i : Nat) (c : Cont) (hi : w.objs i = some c) (hn : IsNull c) :
    step cfg w (.destroy i) = some (⟨w.heap, upd w.objs i none⟩, []) := by
  simp only [step, expand, run_single]; exact exec_destroy_null cfg.k w i c hi hn

theorem clear_null_step (cfg : Cfg) (w : World) (i keep : Nat) (c : Cont) (hi : w.objs i = some c) (hn : IsNull c) :
    ∃ w1, step cfg w (.clear i keep) = some (w1, []) ∧ w1.heap = w.heap ∧ (∀ x, x ≠ i → w1.objs x = w.objs x) ∧
      ∃ c', w1.objs i = some c' ∧ IsNull c' ∧ c'.mgr = c.mgr := by
  simp only [step, expand, run_single, Prim.exec, hi]
  cases hm : c.mgr with
  | none =>
    simp only [hn.1, hn.2, and_self, if_true]
    exact ⟨w, rfl, rfl, fun _ _ => rfl, c, hi, hn, hm⟩
  | some m =>
    simp only [hn.body, List.take_nil, List.drop_nil, hn.contents, destroyEvs_nil, List.map_nil, List.append_nil]
    refine ⟨_, rfl, rfl, fun x hx => by simp [upd, hx], _, upd_same _ _ _, ⟨?_, rfl⟩, rfl⟩
    have := hn.1; unfold Cont.owned at this ⊢
    simp only [List.append_eq_nil_iff] at this ⊢
    exact ⟨this.1, trivial⟩

theorem copyAssign_null_defined (cfg : Cfg) (w : World) (i j : Nat) (ci cj : Cont) (hij : i ≠ j)
    (hi : w.objs i = some ci) (hn : IsNull ci) (hj : w.objs j = some cj) (hm : cj.mgr.isSome = true)
    (ht : w.objs cfg.t1 = none) : (step cfg w (.copyAssign i j)).isSome = true := by
  have hti : cfg.t1 ≠ i := by intro e; rw [e, hi] at ht; cases ht
  have hit : i ≠ cfg.t1 := fun e => hti e.symm
  obtain ⟨m, hmm⟩ := Option.isSome_iff_exists.mp hm
  obtain ⟨wA, eA, t, hA, hoA⟩ := exec_copy_some cfg.k w cfg.t1 j (cfg.sel m) cj ht hj hm
  simp only [step, expand, hij, if_false, allocOf, hj, Option.bind_some, hmm]
  cases hk : cfg.k.arrayStyle with
  | false =>
    simp only [Bool.false_eq_true, if_false]
    have eB := exec_swap cfg.k wA cfg.t1 i t ci (by rw [hoA]; simp) (by rw [hoA]; simp [upd, hit, hi])
    have eC := exec_destroy_null cfg.k ⟨wA.heap, upd (upd wA.objs cfg.t1 (some ci)) i (some t)⟩ cfg.t1 ci
      (by simp [upd, hti]) hn
    rw [run_cons_some _ hA, run_cons_some _ eB, run_single, eC]; rfl
  | true =>
    simp only [if_true]
    have eB := exec_destroy_null cfg.k wA i ci (by rw [hoA]; simp [upd, hit, hi]) hn
    have eC := exec_move cfg.k ⟨wA.heap, upd wA.objs i none⟩ i cfg.t1 t (by simp) (by rw [hoA]; simp [upd, hti])
    have eD := exec_destroy_null cfg.k
      ⟨wA.heap, upd (upd (upd wA.objs i none) cfg.t1 (some (nullOf cfg.k t))) i (some t)⟩ cfg.t1 (nullOf cfg.k t)
      (by simp [upd, hti]) (nullOf_isNull _ _)
    rw [run_cons_some _ hA, run_cons_some _ eB, run_cons_some _ eC, run_single, eD]; rfl

theorem moveAssign_null_defined (cfg : Cfg) (w : World) (i j : Nat) (ci cj : Cont) (hij : i ≠ j)
    (hi : w.objs i = some ci) (hn : IsNull ci) (hj : w.objs j = some cj) (ht : w.objs cfg.t1 = none) :
    (step cfg w (.moveAssign i j)).isSome = true := by
  have hti : cfg.t1 ≠ i := by intro e; rw [e, hi] at ht; cases ht
  have htj : cfg.t1 ≠ j := by intro e; rw [e, hj] at ht; cases ht
  have hit : i ≠ cfg.t1 := fun e => hti e.symm
  have hji : j ≠ i := fun e => hij e.symm
  simp only [step, expand, nativeMoveAssign]
  cases hk : cfg.k.arrayStyle with
  | false =>
    simp only [Bool.false_eq_true, if_false]
    have eA := exec_move cfg.k w cfg.t1 j cj ht hj
    have eB := exec_swap cfg.k ⟨w.heap, upd (upd w.objs j (some (nullOf cfg.k cj))) cfg.t1 (some cj)⟩ cfg.t1 i cj ci
      (by simp) (by simp [upd, hit, hij, hi])
    have eC := exec_destroy_null cfg.k
      ⟨w.heap, upd (upd (upd (upd w.objs j (some (nullOf cfg.k cj))) cfg.t1 (some cj)) cfg.t1 (some ci)) i (some cj)⟩ cfg.t1 ci
      (by simp [upd, hti]) hn
    rw [run_cons_some _ eA, run_cons_some _ eB, run_single, eC]; rfl
  | true =>
    simp only [if_true, hij, if_false]
    have eA := exec_destroy_null cfg.k w i ci hi hn
    have eB := exec_move cfg.k ⟨w.heap, upd w.objs i none⟩ i j cj (by simp) (by simp [upd, hji, hj])
    rw [run_cons_some _ eA, run_single, eB]; rfl

/-- array-like containers (manager held inside the object, no constructor blocks): the null state is an
    ordinary empty object -/
theorem null_usable_inline (k : Kind) (hc : k.crewPtr = false) (ha : k.ctorAux = 0) (s : Cont) (hs : s.mgr.isSome = true) :
    usable k (nullOf k s) = true := by
  simp [usable, nullOf, hc, hs, Kind.auxCount, ha]

theorem mutate_defined (cfg : Cfg) (w : World) (i : Nat) (c : Cont) (hi : w.objs i = some c) (hu : usable cfg.k c = true)
    (inl : List Elem) (cells : List (List Elem)) (cap : Nat) : (step cfg w (.mutate i inl cells cap)).isSome = true := by
  simp only [usable, Bool.and_eq_true, beq_iff_eq] at hu
  obtain ⟨m, hm⟩ := Option.isSome_iff_exists.mp hu.1
  simp [step, expand, run_single, Prim.exec, hi, hm, hu.2]

/-! ### wrappers: which manager, and the open finding F15 -/

/-- known finding F15 in the model: `operator=` of a wrapper whose crew pointer is null reads `get_allocator()`
    of `*this` when the allocator does not propagate — undefined -/
theorem wCopyAssign_null_crash (cfg : Cfg) (w : World) (i j : Nat) (ci : Cont) (hij : i ≠ j) (hi : w.objs i = some ci)
    (hm : ci.mgr = none) (hp : (cfg.isEmpty || cfg.pocca) = false) : step cfg w (.wCopyAssign i j) = none := by
  simp [step, expand, hij, hp, allocOf, hi, hm]

theorem wMoveAssign_null_crash (cfg : Cfg) (w : World) (i j : Nat) (ci : Cont) (hij : i ≠ j) (hi : w.objs i = some ci)
    (hm : ci.mgr = none) (hp : (cfg.isEmpty || cfg.pocma) = false) (lay : Lay) (keep : Nat) :
    step cfg w (.wMoveAssign i j lay keep) = none := by
  simp [step, expand, hij, hp, allocOf, hi, hm]

/-! ### wrappers: copy assignment -/

/-- slot of the temporary nested container built by the wrappers' `operator=` -/
def tmpT (cfg : Cfg) : Nat := if cfg.k.arrayStyle then cfg.t1 else cfg.t2

theorem wCopyAssign_expand (cfg : Cfg) (w : World) (i j : Nat) (a : Mgr) (hij : i ≠ j)
    (ha : allocOf w (if cfg.isEmpty || cfg.pocca then j else i) = some a) (hiT : cfg.k.arrayStyle = true → i ≠ cfg.t1) :
    expand cfg w (.wCopyAssign i j) =
      some ([Prim.copy (tmpT cfg) j a] ++ nativeMoveAssign cfg i (tmpT cfg) ++ [Prim.destroy (tmpT cfg)]) := by
  simp only [expand, hij, if_false, ha, tmpT, nativeMoveAssign]
  rcases Bool.eq_false_or_eq_true cfg.k.arrayStyle with hk | hk
  · simp [hk, hiT hk]
  · simp [hk]

/-- **`i = j` of a stdish wrapper**: the nested container is rebuilt with the allocator the propagation trait
    selects, then move-assigned -/
theorem wCopyAssign_spec (cfg : Cfg) (hrb : RebuildOk cfg.k) {w w1 : World} {evs : List Ev} (wf : WF w)
    (i j : Nat) (hij : i ≠ j) (ci cj : Cont) (hi : w.objs i = some ci) (hj : w.objs j = some cj)
    (h : step cfg w (.wCopyAssign i j) = some (w1, evs)) :
    ∃ t a, allocOf w (if cfg.isEmpty || cfg.pocca then j else i) = some a ∧
      w1.objs i = some t ∧ t.mgr = some a ∧ usable cfg.k t = true ∧
      contents w1.heap t = contents w.heap cj ∧ w1.objs j = some cj ∧ contents w1.heap cj = contents w.heap cj := by
  cases ha : allocOf w (if cfg.isEmpty || cfg.pocca then j else i) with
  | none => simp only [step, expand, hij, if_false, ha] at h; cases h
  | some a =>
    have hiT : cfg.k.arrayStyle = true → i ≠ cfg.t1 := by
      intro hk e
      simp only [step, expand, hij, if_false, ha, hk, if_true] at h
      obtain ⟨wA, eA, e', hA, _, _⟩ := run_cons_inv h
      obtain ⟨_, _, _, hT, _⟩ := copy_exec_spec cfg.k hrb cfg.t1 j _ hA
      rw [← e, hi] at hT; cases hT
    simp only [step, wCopyAssign_expand cfg w i j a hij ha hiT] at h
    obtain ⟨t, h1, h2, h3, h4, h5, h6, _⟩ := copyThenAssign_spec cfg hrb wf i j (tmpT cfg) a hij ci cj hi hj h
    exact ⟨t, a, rfl, h1, h2, by simp [usable, h2, h3], h4, h5, h6⟩

/-! ### element-wise transfer between unequal managers -/

/-- events that construct an element from another one -/
def isXfer : Ev → Bool
  | .move _ => true
  | .copy _ => true
  | _ => false

theorem filter_isXfer_xferEvs (k : Kind) (xs : List Elem) : (xferEvs k xs).filter isXfer = xferEvs k xs := by
  apply List.filter_eq_self.mpr
  intro ev hev
  obtain ⟨e, _, rfl⟩ := List.mem_map.mp hev
  split <;> rfl

theorem filter_isXfer_alloc (m : Mgr) (hs : List Nat) : (hs.map (Ev.alloc m)).filter isXfer = [] := by
  apply List.filter_eq_nil_iff.mpr; intro ev hev; obtain ⟨h, _, rfl⟩ := List.mem_map.mp hev; simp [isXfer]

theorem filter_isXfer_free (m : Mgr) (hs : List Nat) : (hs.map (Ev.free m)).filter isXfer = [] := by
  apply List.filter_eq_nil_iff.mpr; intro ev hev; obtain ⟨h, _, rfl⟩ := List.mem_map.mp hev; simp [isXfer]

theorem filter_isXfer_destroyEvs (k : Kind) (xs : List Elem) : (destroyEvs k xs).filter isXfer = [] := by
  apply List.filter_eq_nil_iff.mpr; intro ev hev; obtain ⟨e, rfl⟩ := mem_destroyEvs hev; simp [isXfer]

theorem exec_new (k : Kind) (w : World) (i : Nat) (m : Mgr) (hi : w.objs i = none) :
    (Prim.new i m).exec k w =
      some (⟨(allocCells m (List.replicate k.auxCount []) w.heap).2,
             upd w.objs i (some ⟨some m, (allocCells m (List.replicate k.auxCount []) w.heap).1, [], [], 0⟩)⟩,
            (allocCells m (List.replicate k.auxCount []) w.heap).1.map (Ev.alloc m)) := by
  simp [Prim.exec, hi]

/-- events of the element-wise transfer out of the slot `src` (as in `Prim.exec`, `setLayout`) -/
def srcXfer (k : Kind) (w : World) : Option Nat → List Ev
  | none => []
  | some s => match w.objs s with
    | some sc => xferEvs k (contents w.heap sc)
    | none => []

theorem setLayout_inv {k : Kind} {w w' : World} {i : Nat} {inl : List Elem} {cells : List (List Elem)} {cap : Nat}
    {src : Option Nat} {evs : List Ev} (h : (Prim.setLayout i inl cells cap src).exec k w = some (w', evs)) :
    ∃ c m, w.objs i = some c ∧ c.mgr = some m ∧ c.aux.length = k.auxCount ∧
      w' = ⟨(allocCells m cells (freeCells c.body w.heap)).2,
            upd w.objs i (some { c with inl := inl, body := (allocCells m cells (freeCells c.body w.heap)).1, cap := cap })⟩ ∧
      evs = srcXfer k w src ++ c.body.map (Ev.free m) ++ (allocCells m cells (freeCells c.body w.heap)).1.map (Ev.alloc m) := by
  cases hi : w.objs i with
  | none => simp [Prim.exec, hi] at h
  | some c =>
    cases hm : c.mgr with
    | none => simp [Prim.exec, hi, hm] at h
    | some m =>
      by_cases ha : c.aux.length = k.auxCount
      · simp only [Prim.exec, hi, hm, ha, if_true, Option.some.injEq, Prod.mk.injEq] at h
        refine ⟨c, m, rfl, hm, ha, ?_, ?_⟩
        · rw [← h.1, hm]
        · rw [← h.2]; cases src <;> rfl
      · simp [Prim.exec, hi, hm, ha] at h

/-- `Clear` of an object that holds a manager -/
theorem clear_inv {k : Kind} {w w' : World} {i keep : Nat} {evs : List Ev} {c : Cont} {m : Mgr}
    (hi : w.objs i = some c) (hm : c.mgr = some m) (h : (Prim.clear i keep).exec k w = some (w', evs)) :
    w' = ⟨freeCells (c.body.drop keep) (emptyCells (c.body.take keep) w.heap),
          upd w.objs i (some { c with inl := [], body := c.body.take keep, cap := if c.body.take keep = [] then 0 else c.cap })⟩ ∧
    evs = destroyEvs k (contents w.heap c) ++ (c.body.drop keep).map (Ev.free m) := by
  simp only [Prim.exec, hi, hm, Option.some.injEq, Prod.mk.injEq] at h
  refine ⟨?_, h.2.symm⟩
  rw [← h.1, hm]

/-- after `Clear` nothing is left inside -/
theorem contents_cleared {H : Heap} {c : Cont} (hnd : c.body.Nodup) (keep : Nat) :
    contents (freeCells (c.body.drop keep) (emptyCells (c.body.take keep) H))
      { c with inl := [], body := c.body.take keep, cap := 0 } = [] := by
  simp only [contents, layout, List.nil_append]
  apply List.flatten_eq_nil_iff.mpr
  intro l hl
  obtain ⟨h, hh, rfl⟩ := List.mem_map.mp hl
  have hnd' : h ∉ c.body.drop keep := by
    intro hd
    have := hnd
    rw [← List.take_append_drop keep c.body, List.nodup_append] at this
    exact this.2.2 h hh h hd rfl
  unfold itemsAt
  rw [freeCells_get, emptyCells_get]
  simp only [hnd', if_false, hh, if_true]
  cases H.get h <;> simp

end Momo.Val
