import Momo.Proof.ValOps
/-!
  Value-semantics model (C14), composite facts used by the property theorems:
  the full specification of the copy constructors, independence of untouched objects over whole
  histories, and the element-wise transfer between unequal managers (`pvCreate…(std::move(right), alloc)`).
-/
namespace Momo.Val

/-! ### copy construction, everything at once -/

/-- the primitive copy constructor: equal contents, source untouched, blocks of the copy shared with no other
    object, all of them obtained from the manager `m`, nothing freed, no element moved -/
theorem copyPrim_regular (cfg : Cfg) (hrb : RebuildOk cfg.k) {w w1 : World} {evs : List Ev} (wf : WF w) (b a : Nat) (m : Mgr)
    (h : (Prim.copy b a m).exec cfg.k w = some (w1, evs)) :
    ∃ s t, w.objs a = some s ∧ w.objs b = none ∧ w1.objs a = some s ∧ w1.objs b = some t ∧
      contents w1.heap t = contents w.heap s ∧ contents w1.heap s = contents w.heap s ∧
      t.mgr = some m ∧ usable cfg.k t = true ∧
      (∀ x c, x ≠ b → w1.objs x = some c → ∀ h ∈ t.owned, h ∉ c.owned) ∧
      (∀ x, x ≠ b → w1.objs x = w.objs x) ∧
      (∀ x c, x ≠ b → w.objs x = some c → contents w1.heap c = contents w.heap c) ∧ WF w1 ∧
      (∀ e, Ev.move e ∉ evs) ∧ (∀ m' h', Ev.free m' h' ∉ evs) ∧ (∀ m' h', Ev.alloc m' h' ∈ evs → m' = m) := by
  obtain ⟨s, t0, hs, hb, _, _, _, hmv, hfr, hal⟩ := copy_exec_spec cfg.k hrb b a m h
  obtain ⟨wf1, _, hab, hoth, t, ht, htm, hta, hct, hcs, hco⟩ := copy_step_spec cfg hrb wf b a m s hs h
  refine ⟨s, t, hs, hb, by rw [hoth a hab]; exact hs, ht, hct, hcs, htm, by simp [usable, htm, hta], ?_, hoth,
    fun x c hx hc => hco c x hx hc, wf1, hmv, hfr, hal⟩
  intro x c hx hc hh hm
  exact wf1.disj b x t c (fun e => hx e.symm) ht hc hh hm

/-! ### independence over histories -/

/-- an object that a history never names keeps its handles and its contents -/
theorem untouched_runOps (cfg : Cfg) {w w' : World} (wf : WF w) (ops : List Op) (h : runOps cfg w ops = some w')
    (x : Nat) (c : Cont) (hx : ∀ op ∈ ops, x ∉ op.writes cfg) (hc : w.objs x = some c) :
    w'.objs x = some c ∧ contents w'.heap c = contents w.heap c ∧ layout w'.heap c = layout w.heap c := by
  obtain ⟨_, f⟩ := runOps_sound cfg wf ops h
  have hx' : x ∉ ops.flatMap (Op.writes cfg) := by
    intro hm
    obtain ⟨op, hop, hxo⟩ := List.mem_flatMap.mp hm
    exact hx op hop hxo
  obtain ⟨e, g⟩ := f x hx'
  exact ⟨e.trans hc, (contents_agree (g c hc)).1, (contents_agree (g c hc)).2⟩

theorem runOps_single {cfg : Cfg} {w w1 : World} {evs : List Ev} {op : Op} (h : step cfg w op = some (w1, evs)) :
    runOps cfg w [op] = some w1 := by
  simp [runOps, h]

/-! ### the tail `i = std::move(T); ~T` shared by all assignments through a temporary -/

theorem assignFromTemp_spec (cfg : Cfg) {wA w1 : World} {evs : List Ev} (wfA : WF wA) (i T : Nat) (hiT : i ≠ T)
    (ci t : Cont) (hi : wA.objs i = some ci) (hT : wA.objs T = some t)
    (h : run cfg.k wA (nativeMoveAssign cfg i T ++ [Prim.destroy T]) = some (w1, evs)) :
    w1.objs i = some t ∧ w1.objs T = none ∧ contents w1.heap t = contents wA.heap t ∧
      (∀ x, x ≠ i → x ≠ T → w1.objs x = wA.objs x) ∧
      (∀ x c, x ≠ i → wA.objs x = some c → contents w1.heap c = contents wA.heap c) ∧
      (∀ h, h ∉ ci.owned → w1.heap.get h = wA.heap.get h) ∧
      (cfg.k.movable = true → ∀ e, Ev.copy e ∉ evs) ∧ (∀ m h, Ev.alloc m h ∉ evs) ∧
      (∀ m h, Ev.free m h ∈ evs → ci.mgr = some m ∧ h ∈ ci.owned) := by
  obtain ⟨wB, eB, eC, hB, hC, rfl⟩ := run_append h
  rw [run_single] at hC
  obtain ⟨hBi, hBT, hBo, hBg, _, hBc, hBa, hBf⟩ := nativeMoveAssign_spec cfg wfA i T hiT ci t hi hT hB
  obtain ⟨c, hc, ho, _, hg, hCc, _, hCa, hCf⟩ := destroy_inv hC
  rw [hBT] at hc; cases hc
  have hg' : ∀ h, w1.heap.get h = wB.heap.get h := fun h => hg h (by simp [nullOf_owned])
  have hTi : T ≠ i := fun e => hiT e.symm
  refine ⟨by rw [ho]; simp [upd, hiT, hBi], by rw [ho]; simp [upd], ?_, ?_, ?_, ?_, ?_, ?_, ?_⟩
  · rw [(contents_agree (fun h _ => hg' h)).1, contents_untouched wfA hiT hi hT hBg]
  · intro x hxi hxT; rw [ho]; simp only [upd, hxT, if_false]; exact hBo x hxi hxT
  · intro x c hxi hc
    rw [(contents_agree (fun h _ => hg' h)).1]
    exact contents_untouched wfA (fun e => hxi e.symm) hi hc hBg
  · intro h hh; rw [hg' h]; exact hBg h hh
  · intro hm e he
    rcases List.mem_append.mp he with he | he
    · exact hBc hm e he
    · exact hCc e he
  · intro m h he
    rcases List.mem_append.mp he with he | he
    · exact hBa m h he
    · exact hCa m h he
  · intro m h he
    rcases List.mem_append.mp he with he | he
    · exact hBf m h he
    · have := (hCf m h he).2; simp [nullOf_owned] at this

/-! ### element-wise transfer: `new j a; fill j from i element by element; i.clear()` -/

theorem filter_isXfer_append (a b : List Ev) : (a ++ b).filter isXfer = a.filter isXfer ++ b.filter isXfer :=
  List.filter_append a b

theorem new_inv {k : Kind} {w wA : World} {j : Nat} {a : Mgr} {eA : List Ev} (h : (Prim.new j a).exec k w = some (wA, eA)) :
    w.objs j = none ∧ ∃ t0 : Cont, wA.objs = upd w.objs j (some t0) ∧ t0.mgr = some a ∧ t0.body = [] ∧ t0.inl = [] ∧
      t0.aux.length = k.auxCount ∧ (∀ h ∈ t0.aux, w.heap.next ≤ h) ∧ w.heap.next ≤ wA.heap.next ∧
      eA = t0.aux.map (Ev.alloc a) := by
  have hj : w.objs j = none := by
    cases hjj : w.objs j with
    | none => rfl
    | some c => simp [Prim.exec, hjj] at h
  rw [exec_new k w j a hj] at h
  simp only [Option.some.injEq, Prod.mk.injEq] at h
  obtain ⟨rfl, rfl⟩ := h
  refine ⟨hj, _, rfl, rfl, rfl, rfl, by simp [allocCells_fst], ?_, ?_, rfl⟩
  · intro h hh; exact (mem_allocCells_fst.mp hh).1
  · show w.heap.next ≤ (allocCells a _ w.heap).2.next
    rw [allocCells_next]; omega

/-- filling a freshly constructed object -/
theorem setLayout_fresh_inv {k : Kind} {wA wB : World} {j : Nat} {inl : List Elem} {cells : List (List Elem)} {cap : Nat}
    {src : Option Nat} {eB : List Ev} {c : Cont} {m : Mgr} (hj : wA.objs j = some c) (hm : c.mgr = some m) (hb : c.body = [])
    (h : (Prim.setLayout j inl cells cap src).exec k wA = some (wB, eB)) :
    ∃ t : Cont, wB.objs = upd wA.objs j (some t) ∧ t.mgr = some m ∧ t.aux = c.aux ∧
      contents wB.heap t = inl ++ cells.flatten ∧ (∀ h ∈ t.body, wA.heap.next ≤ h) ∧
      eB = srcXfer k wA src ++ t.body.map (Ev.alloc m) := by
  obtain ⟨c', m', hc', hm', _, rfl, rfl⟩ := setLayout_inv h
  rw [hj] at hc'; cases hc'
  rw [hm] at hm'; cases hm'
  refine ⟨_, rfl, hm, rfl, ?_, ?_, ?_⟩
  · simp only [contents, layout]
    rw [allocCells_items]
  · intro h hh
    have := (mem_allocCells_fst.mp hh).1
    simpa [hb, freeCells_nil] using this
  · simp [hb]

/-- what `pvCreate…(std::move(right), alloc)` does when `alloc` differs from the allocator of `right` -/
theorem xferUnequal_spec (k : Kind) {w w1 : World} {evs : List Ev} (wf : WF w) (j i : Nat) (a ai : Mgr) (lay : Lay) (keep : Nat)
    (ci : Cont) (hi : w.objs i = some ci) (hm : ci.mgr = some ai)
    (h : run k w [.new j a, .setLayout j lay.inl lay.cells lay.cap (some i), .clear i keep] = some (w1, evs)) :
    WF w1 ∧ w.objs j = none ∧ i ≠ j ∧
    (∃ t, w1.objs j = some t ∧ t.mgr = some a ∧ usable k t = true ∧
        contents w1.heap t = lay.inl ++ lay.cells.flatten ∧ (∀ h ∈ t.owned, w.heap.next ≤ h)) ∧
    (∃ ci', w1.objs i = some ci' ∧ ci'.mgr = some ai ∧ ci'.aux = ci.aux ∧ ci'.body = ci.body.take keep ∧
        contents w1.heap ci' = []) ∧
    (∀ x, x ≠ i → x ≠ j → w1.objs x = w.objs x) ∧
    (∀ x c, x ≠ i → x ≠ j → w.objs x = some c → contents w1.heap c = contents w.heap c) ∧
    evs.filter isXfer = xferEvs k (contents w.heap ci) ∧
    (∀ m h, Ev.alloc m h ∈ evs → m = a ∧ w.heap.next ≤ h) ∧
    (∀ m h, Ev.free m h ∈ evs → m = ai ∧ h ∈ ci.body) := by
  obtain ⟨wfF, fF⟩ := run_sound k wf _ h
  obtain ⟨wA, eA, e', hA, h', rfl⟩ := run_cons_inv h
  obtain ⟨wB, eB, eC, hB, hC, rfl⟩ := run_cons_inv h'
  rw [run_single] at hC
  obtain ⟨wfA, fA⟩ := prim_sound k wf _ hA
  obtain ⟨wfB, fB⟩ := prim_sound k wfA _ hB
  obtain ⟨hj, t0, hoA, ht0m, ht0b, _, ht0a, ht0f, hnA, rfl⟩ := new_inv hA
  have hij : i ≠ j := by intro e; subst e; rw [hj] at hi; cases hi
  have hji : j ≠ i := fun e => hij e.symm
  have hAj : wA.objs j = some t0 := by rw [hoA]; simp
  have hAi : wA.objs i = some ci := by rw [hoA]; simp [upd, hij, hi]
  obtain ⟨t, hoB, htm, hta, htc, htf, rfl⟩ := setLayout_fresh_inv hAj ht0m ht0b hB
  have hBi : wB.objs i = some ci := by rw [hoB]; simp [upd, hij, hAi]
  have hBj : wB.objs j = some t := by rw [hoB]; simp
  obtain ⟨rfl, rfl⟩ := clear_inv hBi hm hC
  have hciA : contents wA.heap ci = contents w.heap ci :=
    (fA.contents (x := i) (by simpa [Prim.writes] using hij) hi).2
  have htfresh : ∀ h ∈ t.owned, w.heap.next ≤ h := by
    intro h hh
    have hh : h ∈ t.aux ∨ h ∈ t.body := by simpa [Cont.owned] using hh
    rcases hh with hh | hh
    · rw [hta] at hh; exact ht0f h hh
    · have := htf h hh; omega
  have hsx : srcXfer k wA (some i) = xferEvs k (contents w.heap ci) := by
    simp only [srcXfer, hAi]; rw [hciA]
  refine ⟨wfF, hj, hij, ?_, ?_, ?_, ?_, ?_, ?_, ?_⟩
  · -- the target
    refine ⟨t, by simp [upd, hji, hBj], htm, by simp [usable, htm, hta, ht0a], ?_, htfresh⟩
    have hagree : ∀ h ∈ t.owned,
        (freeCells (ci.body.drop keep) (emptyCells (ci.body.take keep) wB.heap)).get h = wB.heap.get h := by
      intro h hh
      have hnb : h ∉ ci.body := by
        intro hb
        have := wf.owned_lt hi (List.mem_append.mpr (Or.inr hb))
        have := htfresh h hh
        omega
      have h1 : h ∉ ci.body.drop keep := fun e => hnb (List.mem_of_mem_drop e)
      have h2 : h ∉ ci.body.take keep := fun e => hnb (List.mem_of_mem_take e)
      rw [freeCells_get, emptyCells_get]; simp [h1, h2]
    rw [(contents_agree hagree).1, htc]
  · -- the source
    refine ⟨{ ci with inl := [], body := ci.body.take keep, cap := if ci.body.take keep = [] then 0 else ci.cap },
      upd_same _ _ _, hm, rfl, rfl, ?_⟩
    have hnd : ci.body.Nodup := by
      have := (wf.ok i ci hi).nodup
      unfold Cont.owned at this
      exact (List.nodup_append.mp this).2.1
    have := contents_cleared (H := wB.heap) (c := ci) hnd keep
    simpa [contents, layout] using this
  · intro x hxi hxj; simp [upd, hxi, hxj, hoB, hoA]
  · intro x c hxi hxj hc
    have hx : x ∉ writesAll [Prim.new j a, Prim.setLayout j lay.inl lay.cells lay.cap (some i), Prim.clear i keep] := by
      simp [writesAll, Prim.writes, hxi, hxj]
    exact (fF.contents hx hc).2
  · -- the element events
    simp only [filter_isXfer_append, filter_isXfer_alloc, filter_isXfer_free, filter_isXfer_destroyEvs, hsx,
      filter_isXfer_xferEvs, List.nil_append, List.append_nil]
  · intro m' h' he
    simp only [List.mem_append] at he
    rcases he with he | (he | he) | he | he
    · obtain ⟨x, hx, e⟩ := List.mem_map.mp he
      cases e
      exact ⟨rfl, ht0f _ hx⟩
    · exfalso
      rw [hsx] at he
      obtain ⟨x, _, e⟩ := List.mem_map.mp he
      split at e <;> cases e
    · obtain ⟨x, hx, e⟩ := List.mem_map.mp he
      cases e
      exact ⟨rfl, htfresh _ (List.mem_append.mpr (Or.inr hx))⟩
    · obtain ⟨x, e⟩ := mem_destroyEvs he; cases e
    · obtain ⟨x, _, e⟩ := List.mem_map.mp he; cases e
  · intro m' h' he
    simp only [List.mem_append] at he
    rcases he with he | (he | he) | he | he
    · obtain ⟨x, _, e⟩ := List.mem_map.mp he; cases e
    · exfalso
      rw [hsx] at he
      obtain ⟨x, _, e⟩ := List.mem_map.mp he
      split at e <;> cases e
    · obtain ⟨x, _, e⟩ := List.mem_map.mp he; cases e
    · obtain ⟨x, e⟩ := mem_destroyEvs he; cases e
    · obtain ⟨x, hx, e⟩ := List.mem_map.mp he
      cases e
      exact ⟨rfl, List.mem_of_mem_drop hx⟩

/-! ### destruction of an object that holds a manager -/

theorem destroy_some_inv {k : Kind} {w w' : World} {i : Nat} {evs : List Ev} {c : Cont} {m : Mgr}
    (hi : w.objs i = some c) (hm : c.mgr = some m) (h : (Prim.destroy i).exec k w = some (w', evs)) :
    w' = ⟨freeCells c.owned w.heap, upd w.objs i none⟩ ∧
    evs = destroyEvs k (contents w.heap c) ++ c.owned.map (Ev.free m) := by
  simp only [Prim.exec, hi, hm, Option.some.injEq, Prod.mk.injEq] at h
  exact ⟨h.1.symm, h.2.symm⟩

theorem destroy_defined (cfg : Cfg) (w : World) (i : Nat) (c : Cont) (hi : w.objs i = some c) (hm : c.mgr.isSome = true) :
    (step cfg w (.destroy i)).isSome = true := by
  obtain ⟨m, hm⟩ := Option.isSome_iff_exists.mp hm
  simp [step, expand, run_single, Prim.exec, hi, hm]

theorem relocEvs_nil (k : Kind) : relocEvs k [] = [] := by unfold relocEvs; split <;> rfl

theorem allocOf_some {w : World} {i : Nat} {m : Mgr} (h : allocOf w i = some m) : ∃ s, w.objs i = some s ∧ s.mgr = some m := by
  unfold allocOf at h
  cases hs : w.objs i with
  | none => simp [hs] at h
  | some s => exact ⟨s, rfl, by simpa [hs] using h⟩

/-! ### the copy constructors' layouts keep the elements and their order -/

theorem chunk_flatten (sizes : Nat → Nat) : ∀ (fuel seg : Nat) (xs : List Elem), xs.length < fuel →
    (chunk sizes fuel seg xs).flatten = xs
  | 0, _, xs, h => by omega
  | fuel + 1, seg, xs, h => by
    unfold chunk
    cases xs with
    | nil => simp
    | cons x r =>
      have hn : 1 ≤ max 1 (sizes seg) := Nat.le_max_left _ _
      simp only [List.isEmpty_cons, Bool.false_eq_true, if_false, List.flatten_cons]
      rw [chunk_flatten sizes fuel (seg + 1) _ (by
        simp only [List.length_drop, List.length_cons] at h ⊢; omega)]
      exact List.take_append_drop _ _

theorem rebuildOk_one (k : Kind) (h : k.rebuild = rebuildOne) : RebuildOk k := by
  intro ls; simp [h, rebuildOne]
theorem rebuildOk_same (k : Kind) (h : k.rebuild = rebuildSame) : RebuildOk k := by
  intro ls; simp [h, rebuildSame]
theorem rebuildOk_seg (k : Kind) (sizes : Nat → Nat) (h : k.rebuild = rebuildSeg sizes) : RebuildOk k := by
  intro ls
  simp only [h, rebuildSeg, List.flatten_cons, List.nil_append]
  exact chunk_flatten sizes _ 0 _ (by omega)

end Momo.Val
