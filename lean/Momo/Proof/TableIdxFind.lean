import Momo.Model.TableIdx
import Momo.Proof.HashTableSummary
/-!
  C07 / F9, bucket level: the lookup of the refined index model (`findTableP`: first examined position whose item
  passes a predicate) against the lookup of the C01 model (`HT.findTable`: by key), and the generic facts about
  "first match in the visiting order" the F9 characterisation rests on.
-/
namespace Momo.TIdx
open Momo Momo.HT Momo.Probe

/-! ### lists -/

theorem find?_unique {α : Type} (l : List α) (q : α → Bool) (a : α) (ha : a ∈ l) (hq : q a = true)
    (hu : ∀ x ∈ l, q x = true → x = a) : l.find? q = some a := by
  cases h : l.find? q with
  | none => exact absurd hq (List.find?_eq_none.mp h a ha)
  | some x => rw [hu x (List.mem_of_find?_eq_some h) (List.find?_some h)]

/-- index of the first element passing `q`, if any -/
def firstIdx {α : Type} (l : List α) (q : α → Bool) : Option Nat :=
  if l.findIdx q < l.length then some (l.findIdx q) else none

theorem firstIdx_nil {α : Type} (q : α → Bool) : firstIdx ([] : List α) q = none := by
  simp [firstIdx]

theorem firstIdx_cons {α : Type} (a : α) (l : List α) (q : α → Bool) :
    firstIdx (a :: l) q = if q a then some 0 else (firstIdx l q).map (· + 1) := by
  unfold firstIdx
  rw [List.findIdx_cons]
  cases hq : q a with
  | true => simp
  | false =>
    simp only [cond_false, List.length_cons, Nat.add_lt_add_iff_right, Bool.false_eq_true, if_false]
    split <;> simp

/-- **first match among two kinds of candidates**: when the positions passing `P` are those passing `B` and, if `s`,
    those passing `A` (`A`, `B` exclusive), the first match passes `A` iff `s` and an `A` position comes before every
    `B` position -/
theorem find_two {α : Type} (A B P : α → Bool) (s : Bool) :
    ∀ (l : List α), (∀ x ∈ l, P x = (B x || (s && A x))) → (∀ x ∈ l, ¬ (A x = true ∧ B x = true)) →
      ((∃ x, l.find? P = some x ∧ A x = true) ↔ (s && before (firstIdx l A) (firstIdx l B)) = true) := by
  intro l
  induction l with
  | nil => intro _ _; simp [firstIdx_nil, before]
  | cons a l ih =>
    intro hP hAB
    have ih' := ih (fun x hx => hP x (List.mem_cons_of_mem _ hx)) (fun x hx => hAB x (List.mem_cons_of_mem _ hx))
    have hPa := hP a List.mem_cons_self
    have hABa := hAB a List.mem_cons_self
    rw [List.find?_cons, firstIdx_cons, firstIdx_cons]
    cases hA : A a <;> cases hB : B a <;> cases hs : s
    all_goals (try (exfalso; exact hABa ⟨hA, hB⟩))
    all_goals simp only [hA, hB, hs] at hPa ih' ⊢
    all_goals simp only [hPa, Bool.or_false, Bool.and_true, Bool.and_false, Bool.or_true, Bool.false_and, Bool.true_and,
      Bool.false_eq_true, if_false, if_true]
    -- remaining goals by the shape of (A a, B a, s)
    · -- A false, B false, s false
      simp only [Bool.false_and] at ih'
      rw [ih']; simp
    · -- A false, B false, s true
      simp only [Bool.true_and] at ih'
      rw [ih']
      cases firstIdx l A <;> cases firstIdx l B <;> simp [before]
    · -- A false, B true, s false: first match is `a`, which does not pass A
      simp [hA]
    · -- A false, B true, s true
      cases firstIdx l A <;> simp [before, hA]
    · -- A true, B false, s false: `a` does not pass P, go on; s false: never
      simp only [Bool.false_and] at ih'
      rw [ih']; simp
    · -- A true, B false, s true: `a` is the first match
      cases firstIdx l B <;> simp [before, hA]

/-! ### one bucket -/

/-- the test of a position of one generation -/
def holdsG (sp : Spec) (g : Gen) (p : Item → Bool) (q : Nat × Nat) : Bool :=
  match (bkt sp g.bs q.1).items[q.2]? with
  | some it => p it
  | none => false

theorem mem_scanOrder (bs : BSpec) (n j : Nat) : j ∈ scanOrder bs n ↔ j < n := by
  unfold scanOrder; split <;> simp

theorem mem_bucketSeq (bs : BSpec) (g : Gen) (b : Nat) (q : Nat × Nat) :
    q ∈ bucketSeq bs g b ↔ q.1 = b ∧ q.2 < (bkt bs.sp g.bs b).items.length := by
  unfold bucketSeq
  simp only [List.mem_map, mem_scanOrder]
  constructor
  · rintro ⟨j, hj, rfl⟩; exact ⟨rfl, hj⟩
  · rintro ⟨h1, h2⟩; exact ⟨q.2, h2, by cases q; simp at h1; simp [h1]⟩

/-- in a bucket whose keys are distinct the scan order does not matter for a lookup by key -/
theorem bucketSeq_find_key (bs : BSpec) (g : Gen) (b k : Nat)
    (hnd : ((bkt bs.sp g.bs b).items.map (·.key)).Nodup) :
    (bucketSeq bs g b).find? (holdsG bs.sp g (fun it => it.key == k)) =
      (keyIdx (bkt bs.sp g.bs b).items k).map (fun j => (b, j)) := by
  cases hk : keyIdx (bkt bs.sp g.bs b).items k with
  | none =>
    simp only [Option.map_none]
    apply List.find?_eq_none.mpr
    intro q hq
    obtain ⟨h1, h2⟩ := (mem_bucketSeq bs g b q).mp hq
    unfold holdsG
    rw [h1, List.getElem?_eq_getElem h2]
    simp only [beq_iff_eq]
    exact keyIdx_none _ _ hk _ (List.getElem_mem h2)
  | some j0 =>
    obtain ⟨it0, hj0, hkey0⟩ := keyIdx_some _ _ _ hk
    have hlt0 : j0 < (bkt bs.sp g.bs b).items.length := by
      rcases List.getElem?_eq_some_iff.mp hj0 with ⟨h, _⟩; exact h
    simp only [Option.map_some]
    apply find?_unique
    · exact (mem_bucketSeq bs g b (b, j0)).mpr ⟨rfl, hlt0⟩
    · unfold holdsG; simp [hj0, hkey0]
    · intro q hq hh
      obtain ⟨h1, h2⟩ := (mem_bucketSeq bs g b q).mp hq
      unfold holdsG at hh
      rw [h1, List.getElem?_eq_getElem h2] at hh
      simp only [beq_iff_eq] at hh
      have e1 : ((bkt bs.sp g.bs b).items.map (·.key))[q.2]? = some k := by
        rw [List.getElem?_map, List.getElem?_eq_getElem h2]; simp [hh]
      have e2 : ((bkt bs.sp g.bs b).items.map (·.key))[j0]? = some k := by
        rw [List.getElem?_map, hj0]; simp [hkey0]
      have : q.2 = j0 := (List.getElem?_inj (by simpa using h2) hnd).mp (e1.trans e2.symm)
      cases q; simp at h1 this; simp [h1, this]

/-! ### one generation -/

theorem pathLoop_find_key (bs : BSpec) (g : Gen) (k maxP : Nat)
    (hnd : ∀ b, ((bkt bs.sp g.bs b).items.map (·.key)).Nodup) :
    ∀ fuel probe idx,
      ((pathLoop bs.sp g maxP fuel probe idx).flatMap (bucketSeq bs g)).find? (holdsG bs.sp g (fun it => it.key == k)) =
        findLoop bs.sp g k maxP fuel probe idx := by
  intro fuel
  induction fuel with
  | zero => intro _ _; simp [pathLoop, findLoop]
  | succ f ih =>
    intro probe idx
    simp only [pathLoop, findLoop]
    split
    · simp only [List.flatMap_cons, List.find?_append]
      rw [bucketSeq_find_key bs g _ k (hnd _), ih]
      cases keyIdx (bkt bs.sp g.bs (nextIdx bs.sp g.L idx probe)).items k <;> simp
    · simp

theorem visitGen_find_key (bs : BSpec) (g : Gen) (h k : Nat)
    (hnd : ∀ b, ((bkt bs.sp g.bs b).items.map (·.key)).Nodup) :
    (visitGen bs g h).find? (holdsG bs.sp g (fun it => it.key == k)) = findGen bs.sp g h k := by
  unfold visitGen pathGen findGen
  simp only [List.flatMap_cons, List.find?_append]
  rw [bucketSeq_find_key bs g _ k (hnd _), pathLoop_find_key bs g k _ hnd]
  cases keyIdx (bkt bs.sp g.bs (start g.L h)).items k <;> simp

/-! ### the table -/

theorem holds_eq_holdsG (sp : Spec) (t : Table) (p : Item → Bool) (gi : Nat) (g : Gen) (hg : t.gens[gi]? = some g)
    (q : Nat × Nat) : holds sp t p (gi, q.1, q.2) = holdsG sp g p q := by
  unfold holds itemAt holdsG
  simp only [hg]
  rfl

theorem visitGens_find_key (bs : BSpec) (hf : Nat → Nat) (k : Nat) (t : Table)
    (hnd : ∀ g ∈ t.gens, ∀ b, ((bkt bs.sp g.bs b).items.map (·.key)).Nodup) :
    ∀ (gs : List Gen) (gi : Nat), (∀ i g, gs[i]? = some g → t.gens[gi + i]? = some g) →
      (visitGens bs (hf k) gi gs).find? (holds bs.sp t (fun it => it.key == k)) = findTable.go bs.sp hf k gi gs := by
  intro gs
  induction gs with
  | nil => intro _ _; simp [visitGens, findTable.go]
  | cons g rest ih =>
    intro gi hsub
    have hg : t.gens[gi]? = some g := by simpa using hsub 0 g (by simp)
    have hgm : g ∈ t.gens := List.mem_of_getElem? hg
    simp only [visitGens, findTable.go, List.find?_append, List.find?_map]
    have hcomp : (holds bs.sp t (fun it => it.key == k) ∘ fun p : Nat × Nat => (gi, p.1, p.2)) =
        holdsG bs.sp g (fun it => it.key == k) := by
      funext q; exact holds_eq_holdsG bs.sp t _ gi g hg q
    rw [hcomp, visitGen_find_key bs g (hf k) k (hnd g hgm)]
    cases hfg : findGen bs.sp g (hf k) k with
    | some r => obtain ⟨b, j⟩ := r; simp
    | none =>
      simp only [Option.map_none, Option.none_or]
      split
      · simp
      · exact ih (gi + 1) (fun i g' hi => by
          have := hsub (i + 1) g' (by simpa using hi)
          rw [show gi + 1 + i = gi + (i + 1) by omega]; exact this)

/-- keys distinct in the whole table ⇒ distinct in every bucket -/
theorem bucket_keys_nodup (sp : Spec) (t : Table) (hnd : ((traverse t).map (·.key)).Nodup) :
    ∀ g ∈ t.gens, ∀ b, ((bkt sp g.bs b).items.map (·.key)).Nodup := by
  intro g hg b
  by_cases hb : b < g.bs.length
  · -- the bucket's items, reversed, are a sublist of the traversal
    have h1 : ((bkt sp g.bs b).items.reverse).Sublist (genItems g) := by
      unfold genItems
      have : bkt sp g.bs b = g.bs[b] := by unfold bkt; simp [List.getD_eq_getElem?_getD, hb]
      rw [this]
      exact List.sublist_flatten_of_mem (List.mem_map.mpr ⟨g.bs[b], List.getElem_mem hb, rfl⟩)
    have h2 : (genItems g).Sublist (traverse t) := by
      rw [traverse_eq]
      exact List.sublist_flatten_of_mem (List.mem_map.mpr ⟨g, hg, rfl⟩)
    have h3 := ((h1.trans h2).map (·.key)).nodup hnd
    rw [List.map_reverse] at h3
    exact List.nodup_reverse.mp h3
  · rw [bkt_of_ge sp g.bs b (by omega)]; simp

/-- **the refined lookup agrees with the C01 lookup on tables without duplicate keys** -/
theorem findTableP_key (bs : BSpec) (hf : Nat → Nat) (t : Table) (k : Nat)
    (hnd : ((traverse t).map (·.key)).Nodup) :
    findTableP bs t (hf k) (fun it => it.key == k) = findTable bs.sp hf t k := by
  unfold findTableP findTable visitSeq
  split
  · rfl
  · exact visitGens_find_key bs hf k t (bucket_keys_nodup bs.sp t hnd) t.gens 0 (fun i g h => by simpa using h)

/-! ### generic facts about `findTableP` -/

theorem findTableP_sound (bs : BSpec) (t : Table) (h : Nat) (p : Item → Bool) (pos : Nat × Nat × Nat)
    (hf : findTableP bs t h p = some pos) : holds bs.sp t p pos = true ∧ pos ∈ visitSeq bs t h := by
  unfold findTableP at hf
  split at hf
  · simp at hf
  · exact ⟨List.find?_some hf, List.mem_of_find?_eq_some hf⟩

/-- a weaker test finds something whenever a stronger one does -/
theorem findTableP_mono (bs : BSpec) (t : Table) (h : Nat) (p q : Item → Bool)
    (hpq : ∀ pos ∈ visitSeq bs t h, holds bs.sp t p pos = true → holds bs.sp t q pos = true)
    (hp : (findTableP bs t h p).isSome) : (findTableP bs t h q).isSome := by
  unfold findTableP at *
  split
  · rename_i h0; simp [h0] at hp
  · rename_i h0
    simp only [h0] at hp
    obtain ⟨x, hx, hxp⟩ := List.find?_isSome.mp hp
    exact List.find?_isSome.mpr ⟨x, hx, hpq x hx hxp⟩

theorem find?_congr_mem {α : Type} (p q : α → Bool) :
    ∀ (l : List α), (∀ x ∈ l, p x = q x) → l.find? p = l.find? q := by
  intro l
  induction l with
  | nil => intro _; rfl
  | cons a l ih =>
    intro h
    rw [List.find?_cons, List.find?_cons, h a List.mem_cons_self,
      ih (fun x hx => h x (List.mem_cons_of_mem _ hx))]

theorem findTableP_congr (bs : BSpec) (t : Table) (h : Nat) (p q : Item → Bool)
    (hpq : ∀ pos ∈ visitSeq bs t h, holds bs.sp t p pos = holds bs.sp t q pos) :
    findTableP bs t h p = findTableP bs t h q := by
  unfold findTableP
  split
  · rfl
  · exact find?_congr_mem _ _ _ hpq

/-- the item at a position that passed a test -/
theorem holds_item (sp : Spec) (t : Table) (p : Item → Bool) (pos : Nat × Nat × Nat)
    (h : holds sp t p pos = true) : ∃ it, itemAt sp t pos = some it ∧ p it = true ∧ it ∈ traverse t := by
  unfold holds at h
  cases hi : itemAt sp t pos with
  | none => simp [hi] at h
  | some it =>
    simp only [hi] at h
    refine ⟨it, rfl, h, ?_⟩
    unfold itemAt at hi
    cases hg : t.gens[pos.1]? with
    | none => simp [hg] at hi
    | some g =>
      simp only [hg] at hi
      exact (mem_traverse t it).mpr ⟨g, List.mem_of_getElem? hg,
        (mem_genItems sp g it).mpr ⟨pos.2.1, List.mem_of_getElem? hi⟩⟩

end Momo.TIdx
