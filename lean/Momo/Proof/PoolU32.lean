import Momo.Model.PoolU32
import Momo.Proof.PoolBulk
/-!
  `MemPoolUInt32` (C09): index arithmetic and geometry - the decomposition of a 32-bit block index into buffer number
  and offset is a bijection, a block lies inside its buffer, distinct indices map to disjoint real blocks.
-/
namespace Momo.PoolU32
open Momo
open Momo.Pool (Ev ledger Disj Inside)

/-- legal configurations: `blockCount > 0` (static assertion 810), `mBlockSize >= sizeof(uint32_t)`, and
    `maxTotalBlockCount < max32` (assertion 828), which bounds every block index below `nullPtr` -/
structure Cfg.Legal (C : Cfg) : Prop where
  hN : 0 < C.N
  hS : sizeofU32 ≤ C.S
  hMax : C.maxBuf * C.N < nullPtr

theorem mkCfg_legal (blockCount blockSize maxTotal : Nat) (hN : 0 < blockCount) (hT : maxTotal < nullPtr) :
    (mkCfg blockCount blockSize maxTotal).Legal := by
  refine ⟨hN, ?_, ?_⟩
  · simp only [mkCfg]; split <;> omega
  · simp only [mkCfg]
    have := Nat.div_mul_le_self maxTotal blockCount
    omega

/-- index <-> (buffer number, offset): the decomposition `GetRealPointer` uses is a bijection -/
theorem index_roundtrip (C : Cfg) (hN : 0 < C.N) :
    (∀ i, bufferOf C i * C.N + offsetOf C i = i ∧ offsetOf C i < C.N) ∧
    (∀ k o, o < C.N → bufferOf C (k * C.N + o) = k ∧ offsetOf C (k * C.N + o) = o) := by
  constructor
  · intro i
    unfold bufferOf offsetOf
    have := Nat.div_add_mod i C.N
    rw [Nat.mul_comm] at this
    exact ⟨this, Nat.mod_lt _ hN⟩
  · intro k o ho
    unfold bufferOf offsetOf
    rw [Nat.mul_comm k C.N]
    constructor
    · rw [Nat.mul_add_div hN, Nat.div_eq_of_lt ho]; rfl
    · rw [Nat.mul_add_mod, Nat.mod_eq_of_lt ho]

theorem bufferOf_lt (C : Cfg) (n i : Nat) (hi : i < n * C.N) : bufferOf C i < n := by
  unfold bufferOf
  exact Nat.div_lt_of_lt_mul (by rw [Nat.mul_comm]; exact hi)

/-- the real pointer of an index inside the buffers -/
theorem rp_eq (C : Cfg) (st : State) (i : Nat) (hi : i < st.bufs.length * C.N) :
    ∃ b, st.bufs[bufferOf C i]? = some b ∧ b ∈ st.bufs ∧ realPtr C st i = some (b + ((offsetOf C i * C.S : Nat) : Int)) ∧
      rp C st i = b + ((offsetOf C i * C.S : Nat) : Int) := by
  have hk := bufferOf_lt C _ i hi
  refine ⟨st.bufs[bufferOf C i], List.getElem?_eq_getElem hk, List.getElem_mem hk, ?_, ?_⟩
  · unfold realPtr; rw [List.getElem?_eq_getElem hk]; rfl
  · unfold rp realPtr; rw [List.getElem?_eq_getElem hk]; rfl

theorem off_inside (C : Cfg) (hN : 0 < C.N) (i : Nat) :
    ((offsetOf C i * C.S : Nat) : Int) + C.S ≤ (C.bufferSize : Int) := by
  have ho : offsetOf C i < C.N := Nat.mod_lt _ hN
  have : (offsetOf C i + 1) * C.S ≤ C.N * C.S := Nat.mul_le_mul_right _ ho
  unfold Cfg.bufferSize
  have e : (offsetOf C i + 1) * C.S = offsetOf C i * C.S + C.S := by rw [Nat.add_mul, Nat.one_mul]
  omega

/-- a block lies inside its buffer -/
theorem rp_inside (C : Cfg) (hN : 0 < C.N) (st : State) (i : Nat) (hi : i < st.bufs.length * C.N) :
    ∃ b ∈ st.bufs, st.bufs[bufferOf C i]? = some b ∧ Inside (rp C st i) C.S b (b + C.bufferSize) := by
  obtain ⟨b, h1, h2, _, h4⟩ := rp_eq C st i hi
  refine ⟨b, h2, h1, ?_⟩
  have := off_inside C hN i
  unfold Inside; rw [h4]; omega

/-- **distinct indices map to disjoint real blocks** when the buffers do not overlap -/
theorem rp_disj (C : Cfg) (hN : 0 < C.N) (st : State)
    (hd : st.bufs.Pairwise (fun a b => Disj a C.bufferSize b C.bufferSize))
    (i j : Nat) (hi : i < st.bufs.length * C.N) (hj : j < st.bufs.length * C.N) (hij : i ≠ j) :
    Disj (rp C st i) C.S (rp C st j) C.S := by
  obtain ⟨b1, g1, _, _, e1⟩ := rp_eq C st i hi
  obtain ⟨b2, g2, _, _, e2⟩ := rp_eq C st j hj
  have hk1 := bufferOf_lt C _ i hi
  have hk2 := bufferOf_lt C _ j hj
  have i1 := off_inside C hN i
  have i2 := off_inside C hN j
  obtain ⟨r1, _⟩ := (index_roundtrip C hN).1 i
  obtain ⟨r2, _⟩ := (index_roundtrip C hN).1 j
  rw [e1, e2]
  by_cases hk : bufferOf C i = bufferOf C j
  · -- same buffer: the offsets differ
    rw [hk] at g1; rw [g1] at g2; cases g2
    have ho : offsetOf C i ≠ offsetOf C j := by intro e; apply hij; rw [← r1, ← r2, hk, e]
    unfold Disj
    rcases Nat.lt_or_gt_of_ne ho with hlt | hgt
    · have : (offsetOf C i + 1) * C.S ≤ offsetOf C j * C.S := Nat.mul_le_mul_right _ hlt
      have e : (offsetOf C i + 1) * C.S = offsetOf C i * C.S + C.S := by rw [Nat.add_mul, Nat.one_mul]
      left; omega
    · have : (offsetOf C j + 1) * C.S ≤ offsetOf C i * C.S := Nat.mul_le_mul_right _ hgt
      have e : (offsetOf C j + 1) * C.S = offsetOf C j * C.S + C.S := by rw [Nat.add_mul, Nat.one_mul]
      right; omega
  · -- different buffers
    rw [List.getElem?_eq_getElem hk1] at g1; rw [List.getElem?_eq_getElem hk2] at g2
    cases g1; cases g2
    have hp := List.pairwise_iff_getElem.mp hd
    unfold Disj
    rcases Nat.lt_or_gt_of_ne hk with hlt | hgt
    · have := hp _ _ hk1 hk2 hlt
      unfold Disj at this
      rcases this with h | h
      · left; omega
      · right; omega
    · have := hp _ _ hk2 hk1 hgt
      unfold Disj at this
      rcases this with h | h
      · right; omega
      · left; omega

/-- alignment: if the buffers and the block size are multiples of `a`, so is every real pointer -/
theorem rp_aligned (C : Cfg) (st : State) (a : Int) (hS : a ∣ (C.S : Int)) (hb : ∀ b ∈ st.bufs, a ∣ b)
    (i : Nat) (hi : i < st.bufs.length * C.N) : a ∣ rp C st i := by
  obtain ⟨b, _, hm, _, e⟩ := rp_eq C st i hi
  rw [e]
  apply Int.dvd_add (hb b hm)
  rw [Int.natCast_mul]
  obtain ⟨c, hc⟩ := hS
  exact ⟨(offsetOf C i : Int) * c, by rw [hc, Int.mul_left_comm]⟩

end Momo.PoolU32
