import Momo.Proof.MMapArr
import Momo.Proof.MMapKeyMap
/-!
  C08, part 4: the multimap layer.  Invariant `MM.Inv` (key map invariant; every value array well
  formed; arrays exist only next to present keys; `mValueCount` = sum of the array sizes over the
  keys), abstraction `MM.abs : Key → Option (List Value)` (`none` = key absent, `some []` = key
  present without values) and one refinement lemma per operation.
-/
namespace Momo.MMap
open Momo

/-! ### the association list of value arrays -/

theorem lookup_filter_ne (l : List (Nat × VArr)) (k k' : Nat) (h : k' ≠ k) :
    (l.filter (fun e => e.1 != k)).lookup k' = l.lookup k' := by
  induction l with
  | nil => rfl
  | cons e l ih =>
    obtain ⟨a, b⟩ := e
    by_cases ha : a = k
    · subst ha
      have hne : (k' == a) = false := by simpa using h
      simp [List.lookup_cons, hne, ih]
    · have hne : (a != k) = true := by simpa using ha
      simp only [List.filter_cons, hne, if_true, List.lookup_cons, ih]

theorem lookup_filter_same (l : List (Nat × VArr)) (k : Nat) :
    (l.filter (fun e => e.1 != k)).lookup k = none := by
  induction l with
  | nil => rfl
  | cons e l ih =>
    obtain ⟨a, b⟩ := e
    by_cases ha : a = k
    · subst ha; simp [ih]
    · have hne : (a != k) = true := by simpa using ha
      have hne2 : (k == a) = false := by simpa using fun h : k = a => ha h.symm
      simp [hne, List.lookup_cons, hne2, ih]

@[simp] theorem getArr_nil (k : Nat) : getArr [] k = VArr.empty := rfl

theorem getArr_delArr (l : List (Nat × VArr)) (k k' : Nat) :
    getArr (delArr l k) k' = if k' = k then VArr.empty else getArr l k' := by
  unfold getArr delArr
  by_cases h : k' = k
  · subst h; simp [lookup_filter_same]
  · simp [h, lookup_filter_ne l k k' h]

theorem getArr_setArr (l : List (Nat × VArr)) (k : Nat) (a : VArr) (k' : Nat) :
    getArr (setArr l k a) k' = if k' = k then a else getArr l k' := by
  by_cases h : k' = k
  · subst h; simp [getArr, setArr]
  · have hne : (k' == k) = false := by simpa using h
    have := getArr_delArr l k k'
    simp only [h, if_false] at this ⊢
    rw [← this]
    simp [getArr, setArr, List.lookup_cons, hne]

/-! ### sums over the key list -/

theorem sum_update (ks : List Nat) (f g : Nat → Nat) (k : Nat) (hn : ks.Nodup) (hk : k ∈ ks)
    (h : ∀ k', k' ≠ k → g k' = f k') : (ks.map g).sum + f k = (ks.map f).sum + g k := by
  induction ks with
  | nil => simp at hk
  | cons x xs ih =>
    simp only [List.nodup_cons] at hn
    simp only [List.map_cons, List.sum_cons]
    by_cases hx : x = k
    · subst hx
      have : xs.map g = xs.map f := List.map_congr_left (fun y hy => h y (fun e => hn.1 (e ▸ hy)))
      rw [this]; omega
    · have hk' : k ∈ xs := by
        rcases List.mem_cons.mp hk with e | e
        · exact absurd e.symm hx
        · exact e
      have := ih hn.2 hk'
      rw [h x hx]; omega

theorem sum_congr_notin (ks : List Nat) (f g : Nat → Nat) (k : Nat) (hk : k ∉ ks)
    (h : ∀ k', k' ≠ k → g k' = f k') : (ks.map g).sum = (ks.map f).sum := by
  congr 1
  exact List.map_congr_left (fun y hy => h y (fun e => hk (e ▸ hy)))

theorem le_sum_of_mem (ks : List Nat) (f : Nat → Nat) (k : Nat) (hk : k ∈ ks) : f k ≤ (ks.map f).sum := by
  induction ks with
  | nil => simp at hk
  | cons x xs ih =>
    simp only [List.map_cons, List.sum_cons]
    rcases List.mem_cons.mp hk with e | e
    · subst e; omega
    · have := ih e; omega

/-! ### invariant and abstraction -/

section
variable {σ : Type} (K : KeyMap σ) (L : K.Lawful) (mf : Nat)

structure MM.Inv (m : MM σ) : Prop where
  km : L.Inv m.km
  wf : ∀ k, (getArr m.arrs k).WF mf
  absent : ∀ k, k ∉ K.keys m.km → getArr m.arrs k = VArr.empty
  total : m.count = ((K.keys m.km).map (fun k => (getArr m.arrs k).bounds.length)).sum

/-- the abstract mapping: `none` = key absent, `some vs` = key present with the value list `vs` -/
def MM.abs (m : MM σ) : Nat → Option (List Nat) :=
  fun k => if k ∈ K.keys m.km then some (getArr m.arrs k).bounds else none

theorem MM.empty_inv : MM.Inv K L mf (MM.empty K) where
  km := L.inv_empty
  wf _ := VArr.empty_wf mf
  absent _ _ := rfl
  total := by simp [MM.empty, L.keys_empty]

include L in
theorem MM.empty_abs : MM.abs K (MM.empty K) = fun _ => none := by
  funext k; simp [MM.abs, MM.empty, L.keys_empty]

end

/-! ### three state changes every operation is made of -/

section
variable {σ : Type} (K : KeyMap σ) (L : K.Lawful) (mf : Nat)

/-- the array of a present key is replaced -/
theorem MM.upd_inv (m : MM σ) (hI : MM.Inv K L mf m) (k : Nat) (hk : k ∈ K.keys m.km)
    (arrs' : List (Nat × VArr)) (a' : VArr) (c' : Nat)
    (hget : ∀ k', getArr arrs' k' = if k' = k then a' else getArr m.arrs k')
    (hw : a'.WF mf) (hc : c' + (getArr m.arrs k).bounds.length = m.count + a'.bounds.length) :
    MM.Inv K L mf ⟨m.km, arrs', c'⟩ ∧
    MM.abs K ⟨m.km, arrs', c'⟩ = fun k' => if k' = k then some a'.bounds else MM.abs K m k' := by
  refine ⟨⟨hI.km, ?_, ?_, ?_⟩, ?_⟩
  · intro k'; show (getArr arrs' k').WF mf
    rw [hget]; split
    · exact hw
    · exact hI.wf k'
  · intro k' hk'
    show getArr arrs' k' = VArr.empty
    have : k' ≠ k := fun e => hk' (e ▸ hk)
    rw [hget, if_neg this]; exact hI.absent k' hk'
  · show c' = ((K.keys m.km).map (fun k' => (getArr arrs' k').bounds.length)).sum
    have hs := sum_update (K.keys m.km) (fun k' => (getArr m.arrs k').bounds.length)
      (fun k' => (getArr arrs' k').bounds.length) k (L.nodup _ hI.km) hk
      (fun k' hne => by simp only [hget, if_neg hne])
    have ht := hI.total
    simp only [hget k, if_true] at hs
    omega
  · funext k'
    simp only [MM.abs]
    by_cases e : k' = k
    · subst e; simp [hk, hget]
    · simp [e, hget]

/-- a key is added (`keys' ~ k :: keys`) together with its array -/
theorem MM.newkey_inv (m : MM σ) (hI : MM.Inv K L mf m) (k : Nat) (hk : k ∉ K.keys m.km)
    (km' : σ) (hkm : L.Inv km') (hp : (K.keys km').Perm (k :: K.keys m.km))
    (arrs' : List (Nat × VArr)) (a' : VArr)
    (hget : ∀ k', getArr arrs' k' = if k' = k then a' else getArr m.arrs k') (hw : a'.WF mf) :
    MM.Inv K L mf ⟨km', arrs', m.count + a'.bounds.length⟩ ∧
    MM.abs K ⟨km', arrs', m.count + a'.bounds.length⟩ = fun k' => if k' = k then some a'.bounds else MM.abs K m k' := by
  have hmem : ∀ k', k' ∈ K.keys km' ↔ k' = k ∨ k' ∈ K.keys m.km := by
    intro k'; rw [hp.mem_iff]; simp
  refine ⟨⟨hkm, ?_, ?_, ?_⟩, ?_⟩
  · intro k'; show (getArr arrs' k').WF mf
    rw [hget]; split
    · exact hw
    · exact hI.wf k'
  · intro k' hk'
    show getArr arrs' k' = VArr.empty
    have hk'' : k' ∉ K.keys km' := hk'
    rw [hmem] at hk''
    have h1 : k' ≠ k := fun e => hk'' (Or.inl e)
    rw [hget, if_neg h1]; exact hI.absent k' (fun e => hk'' (Or.inr e))
  · show m.count + a'.bounds.length = ((K.keys km').map (fun k' => (getArr arrs' k').bounds.length)).sum
    rw [(hp.map _).sum_nat]
    simp only [List.map_cons, List.sum_cons, hget k, if_true]
    rw [sum_congr_notin (K.keys m.km) (fun k' => (getArr m.arrs k').bounds.length)
      (fun k' => (getArr arrs' k').bounds.length) k hk (fun k' hne => by simp only [hget, if_neg hne])]
    have := hI.total; omega
  · funext k'
    simp only [MM.abs]
    by_cases e : k' = k
    · subst e; simp [(hmem k').mpr (Or.inl rfl), hget]
    · have : (k' ∈ K.keys km') ↔ (k' ∈ K.keys m.km) := by rw [hmem]; simp [e]
      simp [e, hget, this]

/-- a key leaves (`k :: keys' ~ keys`) together with its array -/
theorem MM.delkey_inv (m : MM σ) (hI : MM.Inv K L mf m) (k : Nat)
    (km' : σ) (hkm : L.Inv km') (hp : (k :: K.keys km').Perm (K.keys m.km)) :
    MM.Inv K L mf ⟨km', delArr m.arrs k, m.count - (getArr m.arrs k).bounds.length⟩ ∧
    MM.abs K ⟨km', delArr m.arrs k, m.count - (getArr m.arrs k).bounds.length⟩
      = fun k' => if k' = k then none else MM.abs K m k' := by
  have hnd : (k :: K.keys km').Nodup := hp.nodup_iff.mpr (L.nodup _ hI.km)
  have hknot : k ∉ K.keys km' := (List.nodup_cons.mp hnd).1
  have hmem : ∀ k', k' ∈ K.keys m.km ↔ k' = k ∨ k' ∈ K.keys km' := by
    intro k'; rw [← hp.mem_iff]; simp
  refine ⟨⟨hkm, ?_, ?_, ?_⟩, ?_⟩
  · intro k'; show (getArr (delArr m.arrs k) k').WF mf
    rw [getArr_delArr]; split
    · exact VArr.empty_wf mf
    · exact hI.wf k'
  · intro k' hk'
    show getArr (delArr m.arrs k) k' = VArr.empty
    rw [getArr_delArr]; split
    · rfl
    · rename_i hne
      exact hI.absent k' (fun e => by rcases (hmem k').mp e with e | e; exact hne e; exact hk' e)
  · show m.count - (getArr m.arrs k).bounds.length
        = ((K.keys km').map (fun k' => (getArr (delArr m.arrs k) k').bounds.length)).sum
    have ht := hI.total
    rw [← (hp.map _).sum_nat] at ht
    simp only [List.map_cons, List.sum_cons] at ht
    rw [sum_congr_notin (K.keys km') (fun k' => (getArr m.arrs k').bounds.length)
      (fun k' => (getArr (delArr m.arrs k) k').bounds.length) k hknot
      (fun k' hne => by simp only [getArr_delArr, if_neg hne])]
    omega
  · funext k'
    simp only [MM.abs]
    by_cases e : k' = k
    · subst e; simp [hknot]
    · have : (k' ∈ K.keys km') ↔ (k' ∈ K.keys m.km) := by rw [hmem]; simp [e]
      simp [e, getArr_delArr, this]

end

/-! ### the abstract operations on `Key → Option (List Value)` -/

abbrev AMap := Nat → Option (List Nat)

def AMap.add (A : AMap) (k v : Nat) : AMap := fun k' => if k' = k then some ((A k).getD [] ++ [v]) else A k'
def AMap.insertKey (A : AMap) (k : Nat) : AMap := fun k' => if k' = k then some ((A k).getD []) else A k'
def AMap.removeValue (A : AMap) (k i : Nat) : AMap :=
  fun k' => if k' = k then (A k).map (fun l => swapRemove l i) else A k'
def AMap.removeValues (A : AMap) (k : Nat) : AMap := fun k' => if k' = k then (A k).map (fun _ => []) else A k'
def AMap.removeKey (A : AMap) (k : Nat) : AMap := fun k' => if k' = k then none else A k'
def AMap.removeIf (A : AMap) (p : Nat → Nat → Bool) : AMap :=
  fun k' => (A k').map (fun l => swapFilter (p k') l.length l 0)

/-! ### every operation keeps the invariant and refines its abstract counterpart -/

section
variable {σ : Type} (K : KeyMap σ) (L : K.Lawful) (mf : Nat)

theorem MM.abs_of_mem {m : MM σ} {k : Nat} (hk : k ∈ K.keys m.km) :
    MM.abs K m k = some (getArr m.arrs k).bounds := by simp [MM.abs, hk]

theorem MM.abs_of_not_mem {m : MM σ} {k : Nat} (hk : k ∉ K.keys m.km) : MM.abs K m k = none := by
  simp [MM.abs, hk]

theorem has_false_iff {m : MM σ} (hI : MM.Inv K L mf m) (k : Nat) :
    K.has m.km k = false ↔ k ∉ K.keys m.km := by
  rw [← L.has_iff _ k hI.km]; simp

/-- **Add(key, value) / Add(keyIter, value)** -/
theorem MM.add_spec (h1 : 1 ≤ mf) (hmf : mf < Extracted.abMaxFastLimit) (m : MM σ) (hI : MM.Inv K L mf m)
    (k tg v : Nat) (f : HT.Faults) (hF : L.FOK f) (fv : Bool) :
    MM.Inv K L mf (MM.add K mf m k tg v f fv).1 ∧
    MM.abs K (MM.add K mf m k tg v f fv).1 =
      (if (MM.add K mf m k tg v f fv).2 = .ok then AMap.add (MM.abs K m) k v else MM.abs K m) := by
  unfold MM.add
  by_cases hh : K.has m.km k = true
  · have hk := (L.has_iff _ k hI.km).mp hh
    simp only [hh, if_true]
    cases fv with
    | true => simp only [if_true]; exact ⟨hI, by simp⟩
    | false =>
      simp only [Bool.false_eq_true, if_false, if_true]
      have hw := VArr.addBack_wf h1 hmf (hI.wf k) v
      have hb := VArr.addBack_bounds h1 hmf (hI.wf k) v
      obtain ⟨i1, i2⟩ := MM.upd_inv K L mf m hI k hk (setArr m.arrs k ((getArr m.arrs k).addBack mf v))
        ((getArr m.arrs k).addBack mf v) (m.count + 1) (getArr_setArr _ _ _) hw (by rw [hb]; simp; omega)
      refine ⟨i1, ?_⟩
      rw [i2]; funext k'
      simp only [AMap.add, MM.abs_of_mem K hk, hb, Option.getD_some]
  · have hh' : K.has m.km k = false := by simpa using hh
    have hk := (has_false_iff K L mf hI k).mp hh'
    simp only [hh', Bool.false_eq_true, if_false]
    by_cases hok : (K.add m.km k tg f).2 = .ok
    · simp only [hok, if_true]
      obtain ⟨a1, a2⟩ := L.add_ok m.km k tg f hI.km hF hh' hok
      have hw := VArr.addBack_wf h1 hmf (VArr.empty_wf mf) v
      have hb := VArr.addBack_bounds h1 hmf (VArr.empty_wf mf) v
      have hb1 : (VArr.empty.addBack mf v).bounds.length = 1 := by rw [hb]; simp [VArr.bounds, VArr.empty, VArr.count]
      obtain ⟨i1, i2⟩ := MM.newkey_inv K L mf m hI k hk _ a1 a2 (setArr m.arrs k (VArr.empty.addBack mf v))
        (VArr.empty.addBack mf v) (getArr_setArr _ _ _) hw
      rw [hb1] at i1 i2
      refine ⟨i1, ?_⟩
      rw [i2]; funext k'
      simp only [AMap.add, MM.abs_of_not_mem K hk, hb, Option.getD_none]
      simp [VArr.bounds, VArr.empty, VArr.count]
    · simp only [hok, if_false]
      rw [L.add_fail m.km k tg f hok]
      exact ⟨hI, rfl⟩

/-- **InsertKey / AddKeyCrt** -/
theorem MM.insertKey_spec (m : MM σ) (hI : MM.Inv K L mf m) (k tg : Nat) (f : HT.Faults) (hF : L.FOK f) :
    MM.Inv K L mf (MM.insertKey K m k tg f).1 ∧
    MM.abs K (MM.insertKey K m k tg f).1 =
      (if (MM.insertKey K m k tg f).2.1 = .ok then AMap.insertKey (MM.abs K m) k else MM.abs K m) ∧
    ((MM.insertKey K m k tg f).2.2 = true ↔ ((MM.insertKey K m k tg f).2.1 = .ok ∧ MM.abs K m k = none)) := by
  unfold MM.insertKey
  by_cases hh : K.has m.km k = true
  · have hk := (L.has_iff _ k hI.km).mp hh
    simp only [hh, if_true]
    refine ⟨hI, ?_, by simp [MM.abs_of_mem K hk]⟩
    funext k'
    simp only [AMap.insertKey, MM.abs_of_mem K hk, Option.getD_some]
    split
    · rename_i e; subst e; exact MM.abs_of_mem K hk
    · rfl
  · have hh' : K.has m.km k = false := by simpa using hh
    have hk := (has_false_iff K L mf hI k).mp hh'
    simp only [hh', Bool.false_eq_true, if_false]
    by_cases hok : (K.add m.km k tg f).2 = .ok
    · simp only [hok, if_true]
      obtain ⟨a1, a2⟩ := L.add_ok m.km k tg f hI.km hF hh' hok
      obtain ⟨i1, i2⟩ := MM.newkey_inv K L mf m hI k hk _ a1 a2 (delArr m.arrs k) VArr.empty
        (getArr_delArr _ _) (VArr.empty_wf mf)
      have e0 : VArr.empty.bounds.length = 0 := rfl
      rw [e0, Nat.add_zero] at i1 i2
      refine ⟨i1, ?_, by simp [MM.abs_of_not_mem K hk]⟩
      rw [i2]; funext k'
      simp only [AMap.insertKey, MM.abs_of_not_mem K hk, Option.getD_none]
      rfl
    · simp only [hok, if_false]
      rw [L.add_fail m.km k tg f hok]
      exact ⟨hI, rfl, by simp⟩

/-- **Remove(keyIter, valueIndex)** (the precondition `valueIndex < count` is part of the statement) -/
theorem MM.removeValue_spec (hmf : mf < Extracted.abMaxFastLimit) (m : MM σ) (hI : MM.Inv K L mf m)
    (k i : Nat) (sf : Bool) (hk : k ∈ K.keys m.km) (hi : i < (getArr m.arrs k).bounds.length) :
    MM.Inv K L mf (MM.removeValue K m k i sf) ∧
    MM.abs K (MM.removeValue K m k i sf) = AMap.removeValue (MM.abs K m) k i ∧
    (MM.removeValue K m k i sf).count + 1 = m.count := by
  have hh := (L.has_iff _ k hI.km).mpr hk
  have hcnt : (getArr m.arrs k).count = (getArr m.arrs k).bounds.length := by
    rw [(hI.wf k).bounds_eq hmf, (hI.wf k).count_eq hmf]
  unfold MM.removeValue
  have hc : K.has m.km k = true ∧ i < (getArr m.arrs k).count := ⟨hh, by rw [hcnt]; exact hi⟩
  simp only [hc, and_self, if_true]
  obtain ⟨hw, hb⟩ := VArr.removeAt_spec hmf (hI.wf k) i sf
  have hlen : (swapRemove (getArr m.arrs k).bounds i).length + 1 = (getArr m.arrs k).bounds.length := by
    unfold swapRemove
    cases hl : (getArr m.arrs k).bounds.getLast? with
    | none =>
      have : (getArr m.arrs k).bounds = [] := List.getLast?_eq_none_iff.mp hl
      rw [this] at hi; simp at hi
    | some x => simp; omega
  have hle := le_sum_of_mem (K.keys m.km) (fun k' => (getArr m.arrs k').bounds.length) k hk
  have ht := hI.total
  obtain ⟨i1, i2⟩ := MM.upd_inv K L mf m hI k hk (setArr m.arrs k ((getArr m.arrs k).removeAt i sf))
    ((getArr m.arrs k).removeAt i sf) (m.count - 1) (getArr_setArr _ _ _) hw (by rw [hb]; omega)
  refine ⟨i1, ?_, by show m.count - 1 + 1 = m.count; omega⟩
  rw [i2]; funext k'
  simp only [AMap.removeValue, MM.abs_of_mem K hk, hb, Option.map_some]

/-- **RemoveValues(keyIter)**: the key stays, with no values -/
theorem MM.removeValues_spec (hmf : mf < Extracted.abMaxFastLimit) (m : MM σ) (hI : MM.Inv K L mf m) (k : Nat) :
    MM.Inv K L mf (MM.removeValues K m k) ∧
    MM.abs K (MM.removeValues K m k) = AMap.removeValues (MM.abs K m) k := by
  unfold MM.removeValues
  by_cases hh : K.has m.km k = true
  · have hk := (L.has_iff _ k hI.km).mp hh
    simp only [hh, if_true]
    have hcnt : (getArr m.arrs k).count = (getArr m.arrs k).bounds.length := by
      rw [(hI.wf k).bounds_eq hmf, (hI.wf k).count_eq hmf]
    have hle := le_sum_of_mem (K.keys m.km) (fun k' => (getArr m.arrs k').bounds.length) k hk
    have ht := hI.total
    obtain ⟨i1, i2⟩ := MM.upd_inv K L mf m hI k hk (delArr m.arrs k) VArr.empty
      (m.count - (getArr m.arrs k).count) (getArr_delArr _ _) (VArr.empty_wf mf)
      (by rw [hcnt]; show _ = m.count + 0; omega)
    refine ⟨i1, ?_⟩
    rw [i2]; funext k'
    simp only [AMap.removeValues, MM.abs_of_mem K hk, Option.map_some]
    rfl
  · have hh' : K.has m.km k = false := by simpa using hh
    have hk := (has_false_iff K L mf hI k).mp hh'
    simp only [hh', Bool.false_eq_true, if_false]
    refine ⟨hI, ?_⟩
    funext k'
    simp only [AMap.removeValues, MM.abs_of_not_mem K hk, Option.map_none]
    split
    · rename_i e; subst e; exact MM.abs_of_not_mem K hk
    · rfl

/-- **RemoveKey**: returns the number of values the key had (0 when absent) -/
theorem MM.removeKey_spec (hmf : mf < Extracted.abMaxFastLimit) (m : MM σ) (hI : MM.Inv K L mf m) (k : Nat) :
    MM.Inv K L mf (MM.removeKey K m k).1 ∧
    MM.abs K (MM.removeKey K m k).1 = AMap.removeKey (MM.abs K m) k ∧
    (MM.removeKey K m k).2 = ((MM.abs K m k).getD []).length ∧
    (MM.removeKey K m k).1.count + (MM.removeKey K m k).2 = m.count := by
  unfold MM.removeKey
  by_cases hh : K.has m.km k = true
  · have hk := (L.has_iff _ k hI.km).mp hh
    simp only [hh, if_true]
    have hcnt : (getArr m.arrs k).count = (getArr m.arrs k).bounds.length := by
      rw [(hI.wf k).bounds_eq hmf, (hI.wf k).count_eq hmf]
    obtain ⟨d1, d2⟩ := L.del_ok m.km k hI.km hh
    obtain ⟨i1, i2⟩ := MM.delkey_inv K L mf m hI k _ d1 d2
    have hle := le_sum_of_mem (K.keys m.km) (fun k' => (getArr m.arrs k').bounds.length) k hk
    have ht := hI.total
    rw [hcnt]
    refine ⟨i1, by rw [i2]; rfl, by simp [MM.abs_of_mem K hk], ?_⟩
    show m.count - _ + _ = m.count
    omega
  · have hh' : K.has m.km k = false := by simpa using hh
    have hk := (has_false_iff K L mf hI k).mp hh'
    simp only [hh', Bool.false_eq_true, if_false]
    refine ⟨hI, ?_, by simp [MM.abs_of_not_mem K hk], rfl⟩
    funext k'
    simp only [AMap.removeKey]
    split
    · rename_i e; subst e; exact MM.abs_of_not_mem K hk
    · rfl

/-- **ResetKey**: nothing the abstract map sees changes -/
theorem MM.resetKey_spec (m : MM σ) (hI : MM.Inv K L mf m) (k tg : Nat) :
    MM.Inv K L mf (MM.resetKey K m k tg) ∧ MM.abs K (MM.resetKey K m k tg) = MM.abs K m := by
  unfold MM.resetKey
  split
  · obtain ⟨s1, s2⟩ := L.setTag_ok m.km k tg hI.km
    refine ⟨⟨s1, hI.wf, ?_, ?_⟩, ?_⟩
    · intro k' hk'; exact hI.absent k' (by rw [← s2]; exact hk')
    · show m.count = _; rw [s2]; exact hI.total
    · funext k'; simp only [MM.abs, s2]
  · exact ⟨hI, rfl⟩

/-- **Clear** -/
theorem MM.clear_spec (m : MM σ) (hI : MM.Inv K L mf m) :
    MM.Inv K L mf (MM.clear K m) ∧ MM.abs K (MM.clear K m) = fun _ => none := by
  obtain ⟨c1, c2⟩ := L.clear_ok m.km hI.km
  refine ⟨⟨c1, fun _ => VArr.empty_wf mf, fun _ _ => rfl, ?_⟩, ?_⟩
  · show 0 = _; simp [MM.clear, c2]
  · funext k'; simp [MM.abs, MM.clear, c2]

/-- one key of **Remove(pairFilter)** -/
theorem MM.removeIfKey_spec (hmf : mf < Extracted.abMaxFastLimit) (m : MM σ) (hI : MM.Inv K L mf m)
    (p : Nat → Nat → Bool) (k : Nat) (hk : k ∈ K.keys m.km) :
    MM.Inv K L mf (MM.removeIfKey p m k) ∧ (MM.removeIfKey p m k).km = m.km ∧
    (∀ k', getArr (MM.removeIfKey p m k).arrs k' =
        if k' = k then VArr.removeIf (p k) (getArr m.arrs k).count (getArr m.arrs k) 0 else getArr m.arrs k') ∧
    (VArr.removeIf (p k) (getArr m.arrs k).count (getArr m.arrs k) 0).bounds
        = swapFilter (p k) (getArr m.arrs k).bounds.length (getArr m.arrs k).bounds 0 ∧
    (MM.removeIfKey p m k).count + (getArr m.arrs k).bounds.countP (p k) = m.count := by
  have hcnt : (getArr m.arrs k).count = (getArr m.arrs k).bounds.length := by
    rw [(hI.wf k).bounds_eq hmf, (hI.wf k).count_eq hmf]
  obtain ⟨hw, hb⟩ := VArr.removeIf_spec (p k) hmf (getArr m.arrs k).count (getArr m.arrs k) 0 (hI.wf k)
  have hcnt' := hw.count_eq hmf
  rw [← hw.bounds_eq hmf] at hcnt'
  rw [hcnt] at hb
  have hlen := swapFilter_length (p k) (getArr m.arrs k).bounds
  rw [← hb] at hlen
  have hle := le_sum_of_mem (K.keys m.km) (fun k' => (getArr m.arrs k').bounds.length) k hk
  have ht := hI.total
  unfold MM.removeIfKey
  obtain ⟨i1, _⟩ := MM.upd_inv K L mf m hI k hk
    (setArr m.arrs k (VArr.removeIf (p k) (getArr m.arrs k).count (getArr m.arrs k) 0))
    (VArr.removeIf (p k) (getArr m.arrs k).count (getArr m.arrs k) 0)
    (m.count - ((getArr m.arrs k).count - (VArr.removeIf (p k) (getArr m.arrs k).count (getArr m.arrs k) 0).count))
    (getArr_setArr _ _ _) hw (by rw [hcnt', hcnt]; omega)
  refine ⟨i1, rfl, getArr_setArr _ _ _, by rw [← hcnt]; rw [hcnt] ; exact hb, ?_⟩
  show m.count - _ + _ = m.count
  rw [hcnt', hcnt]; omega

/-- the loop of **Remove(pairFilter)** over any duplicate-free list of present keys -/
theorem MM.removeIf_fold (hmf : mf < Extracted.abMaxFastLimit) (p : Nat → Nat → Bool) :
    ∀ (ks : List Nat) (m : MM σ), MM.Inv K L mf m → ks.Nodup → (∀ k ∈ ks, k ∈ K.keys m.km) →
      MM.Inv K L mf (ks.foldl (MM.removeIfKey p) m) ∧ (ks.foldl (MM.removeIfKey p) m).km = m.km ∧
      (∀ k', (getArr (ks.foldl (MM.removeIfKey p) m).arrs k').bounds =
          if k' ∈ ks then swapFilter (p k') (getArr m.arrs k').bounds.length (getArr m.arrs k').bounds 0
          else (getArr m.arrs k').bounds) ∧
      (ks.foldl (MM.removeIfKey p) m).count + (ks.map (fun k => (getArr m.arrs k).bounds.countP (p k))).sum = m.count := by
  intro ks
  induction ks with
  | nil => intro m hI _ _; exact ⟨hI, rfl, fun _ => by simp, by simp⟩
  | cons k ks ih =>
    intro m hI hn hsub
    simp only [List.nodup_cons] at hn
    obtain ⟨s1, s2, s3, s4, s5⟩ := MM.removeIfKey_spec K L mf hmf m hI p k (hsub k (by simp))
    obtain ⟨f1, f2, f3, f4⟩ := ih (MM.removeIfKey p m k) s1 hn.2
      (fun k' hk' => by rw [s2]; exact hsub k' (by simp [hk']))
    simp only [List.foldl_cons]
    refine ⟨f1, by rw [f2, s2], ?_, ?_⟩
    · intro k'
      rw [f3 k', s3 k']
      by_cases e : k' = k
      · subst e; simp [hn.1, s4]
      · simp [e]
    · have : (ks.map (fun k' => (getArr (MM.removeIfKey p m k).arrs k').bounds.countP (p k')))
          = (ks.map (fun k' => (getArr m.arrs k').bounds.countP (p k'))) := by
        apply List.map_congr_left
        intro k' hk'
        have e : k' ≠ k := fun e => hn.1 (e ▸ hk')
        rw [s3 k', if_neg e]
      rw [this] at f4
      simp only [List.map_cons, List.sum_cons]
      omega

/-- **Remove(pairFilter)**: every value list is scanned (`swapFilter`), keys stay, and the returned
    number is the number of pairs that satisfied the predicate -/
theorem MM.removeIf_spec (hmf : mf < Extracted.abMaxFastLimit) (m : MM σ) (hI : MM.Inv K L mf m)
    (p : Nat → Nat → Bool) :
    MM.Inv K L mf (MM.removeIf K m p).1 ∧
    MM.abs K (MM.removeIf K m p).1 = AMap.removeIf (MM.abs K m) p ∧
    (MM.removeIf K m p).2 = ((K.keys m.km).map (fun k => (getArr m.arrs k).bounds.countP (p k))).sum ∧
    (MM.removeIf K m p).1.count + (MM.removeIf K m p).2 = m.count := by
  obtain ⟨f1, f2, f3, f4⟩ := MM.removeIf_fold K L mf hmf p (K.keys m.km) m hI (L.nodup _ hI.km) (fun _ h => h)
  unfold MM.removeIf
  refine ⟨f1, ?_, by simp only; omega, by simp only; omega⟩
  funext k'
  simp only [AMap.removeIf, MM.abs, f2]
  by_cases hk : k' ∈ K.keys m.km
  · simp [hk, f3 k']
  · simp [hk]

/-! ### copy constructor -/

theorem MM.copy_fold_none (src : MM σ) (ks : List Nat) :
    ks.foldl (MM.copyStep K mf src) none = none := by
  induction ks with
  | nil => rfl
  | cons k ks ih => simpa [MM.copyStep] using ih

/-- state of the copy loop after the keys `done` -/
structure MM.PartialCopy (src d : MM σ) (done : List Nat) : Prop where
  km : L.Inv d.km
  keys : (K.keys d.km).Perm done
  arrs : ∀ k, getArr d.arrs k = if k ∈ done then (getArr src.arrs k).copy mf else VArr.empty
  count : d.count = src.count

theorem MM.copy_fold (src : MM σ) : ∀ (ks : List Nat) (d : MM σ) (done : List Nat) (m' : MM σ),
    MM.PartialCopy K L mf src d done → (∀ k ∈ ks, k ∉ done) → ks.Nodup →
    ks.foldl (MM.copyStep K mf src) (some d) = some m' →
    ∃ done', done'.Perm (done ++ ks) ∧ MM.PartialCopy K L mf src m' done' := by
  intro ks
  induction ks with
  | nil =>
    intro d done m' hP _ _ h
    simp only [List.foldl_nil, Option.some.injEq] at h
    subst h
    exact ⟨done, by simp, hP⟩
  | cons k ks ih =>
    intro d done m' hP hnot hn h
    simp only [List.nodup_cons] at hn
    simp only [List.foldl_cons] at h
    have hkd : k ∉ done := hnot k (by simp)
    have hknot : k ∉ K.keys d.km := fun e => hkd (hP.keys.mem_iff.mp e)
    have hh : K.has d.km k = false := by
      cases hb : K.has d.km k with
      | false => rfl
      | true => exact absurd ((L.has_iff _ k hP.km).mp hb) hknot
    simp only [MM.copyStep, hh, Bool.false_eq_true, if_false] at h
    by_cases hok : (K.add d.km k (K.tag src.km k) {}).2 = .ok
    · simp only [hok, if_true] at h
      obtain ⟨a1, a2⟩ := L.add_ok d.km k (K.tag src.km k) {} hP.km L.fok_default hh hok
      have hP' : MM.PartialCopy K L mf src
          ⟨(K.add d.km k (K.tag src.km k) {}).1, setArr d.arrs k ((getArr src.arrs k).copy mf), d.count⟩ (k :: done) := by
        refine ⟨a1, a2.trans (hP.keys.cons k), ?_, hP.count⟩
        intro k'
        show getArr (setArr d.arrs k _) k' = _
        rw [getArr_setArr, hP.arrs k']
        by_cases e : k' = k
        · subst e; simp
        · simp [e]
      obtain ⟨done', hp', hPC⟩ := ih _ (k :: done) m' hP'
        (fun k' hk' => by
          intro hmem
          rcases List.mem_cons.mp hmem with e | e
          · exact hn.1 (e ▸ hk')
          · exact hnot k' (by simp [hk']) e) hn.2 h
      refine ⟨done', hp'.trans ?_, hPC⟩
      simp only [List.cons_append]
      exact List.perm_middle.symm
    · simp only [hok, if_false] at h
      rw [MM.copy_fold_none] at h
      cases h

/-- **copy constructor**: when it succeeds the copy is a well-formed multimap with the same abstract
    contents (every value list in the same order) and the same value count -/
theorem MM.copy_spec (hmf : mf < Extracted.abMaxFastLimit) (m m' : MM σ) (hI : MM.Inv K L mf m)
    (h : MM.copy K mf m = some m') :
    MM.Inv K L mf m' ∧ MM.abs K m' = MM.abs K m ∧ m'.count = m.count := by
  unfold MM.copy at h
  obtain ⟨r1, r2⟩ := L.reserve_ok K.empty (K.keys m.km).length L.inv_empty
  rw [L.keys_empty] at r2
  have hP0 : MM.PartialCopy K L mf m ⟨K.reserve K.empty (K.keys m.km).length, [], m.count⟩ [] :=
    ⟨r1, r2, fun k => by simp, rfl⟩
  obtain ⟨done, hp, hPC⟩ := MM.copy_fold K L mf m (K.keys m.km) _ [] m' hP0 (fun _ _ => by simp)
    (L.nodup _ hI.km) h
  simp only [List.nil_append] at hp
  have hkeys : (K.keys m'.km).Perm (K.keys m.km) := hPC.keys.trans hp
  have hmem : ∀ k, k ∈ done ↔ k ∈ K.keys m.km := fun k => hp.mem_iff
  have hb : ∀ k, (getArr m'.arrs k).bounds = (getArr m.arrs k).bounds := by
    intro k
    rw [hPC.arrs k]
    by_cases hk : k ∈ K.keys m.km
    · rw [if_pos ((hmem k).mpr hk)]; exact (VArr.copy_spec hmf (hI.wf k)).2
    · rw [if_neg (fun e => hk ((hmem k).mp e)), hI.absent k hk]
  refine ⟨⟨hPC.km, ?_, ?_, ?_⟩, ?_, hPC.count⟩
  · intro k
    rw [hPC.arrs k]; split
    · exact (VArr.copy_spec hmf (hI.wf k)).1
    · exact VArr.empty_wf mf
  · intro k hk
    rw [hPC.arrs k, if_neg (fun e => hk (hkeys.mem_iff.mpr ((hmem k).mp e)))]
  · rw [hPC.count, hI.total, ← (hkeys.map _).sum_nat]
    congr 1
    exact List.map_congr_left (fun k _ => (hb k).symm ▸ rfl)
  · funext k
    simp only [MM.abs, hkeys.mem_iff, hb]

end

end Momo.MMap
