import Momo.Model.PoolWalk
import Momo.Proof.PoolDll
import Momo.Proof.PoolIf
/-!
  Pointer level of `MemPool` (C09), traversals: on a heap that holds the buffer list of the state machine, reading `prev` /
  `next` is reading the list view (`Pool.nextOf` / `Pool.prevOf`), walking the links from the head visits exactly `post` /
  `pre`, the two loops of `DeallocateAll` delete `pre ++ post` in the order of the list-level model, and the two loops of
  `DeallocateIf` visit exactly the buffers the list-level loops visit, whatever the sweeps do to the visited buffer.
-/
namespace Momo.Pool

theorem headOr_none_eq (l : List Int) : headOr l none = l.head? := by cases l <;> rfl

theorem lastOr_none_eq (l : List Int) : lastOr l none = l.reverse.head? := by
  rcases snoc_cases l with rfl | ⟨l', x, rfl⟩
  · rfl
  · rw [lastOr_snoc]; simp

/-- **reading the links = reading the list view.** On a heap that holds the list `l`, `pvGetNextBuffer` / `pvGetPrevBuffer`
    of a buffer of the list return its successor / predecessor in `l` -/
theorem dll_reads (h : Heap) (l : List Int) (hd : IsDll h l) (x : Int) (hx : x ∈ l) :
    (h x).next = succIn l x ∧ (h x).prev = succIn l.reverse x := by
  obtain ⟨hnd, hs⟩ := hd
  obtain ⟨A, T, rfl⟩ := List.append_of_mem hx
  have hnd' := List.nodup_append.mp hnd
  have hxA : x ∉ A := fun hm => hnd'.2.2 x hm x (by simp) rfl
  have hxT : x ∉ T := (List.nodup_cons.mp hnd'.2.1).1
  rw [Seg_append] at hs
  obtain ⟨_, hp, hn, _⟩ := hs
  constructor
  · rw [hn, succIn_split A T x hxA, headOr_none_eq]
  · rw [hp]
    have : (A ++ x :: T).reverse = T.reverse ++ x :: A.reverse := by simp
    rw [this, succIn_split T.reverse A.reverse x (by simpa using hxT), lastOr_none_eq]

/-- walking `next` from a buffer visits the rest of the list -/
theorem ptrWalk_seg (h : Heap) : ∀ (t : List Int) (a : Int) (p : Option Int) (fuel : Nat), t.length < fuel →
    Seg h p (a :: t) none → ptrWalk fuel h a = a :: t := by
  intro t
  induction t with
  | nil =>
    intro a p fuel hf hs
    cases fuel with
    | zero => simp at hf
    | succ f => have : (h a).next = none := hs.2.1; simp [ptrWalk, this]
  | cons b t ih =>
    intro a p fuel hf hs
    cases fuel with
    | zero => simp at hf
    | succ f =>
      have hn : (h a).next = some b := hs.2.1
      simp only [ptrWalk, hn]
      rw [ih b (some a) f (by simpa using hf) hs.2.2]

/-- walking `prev` from a buffer visits the list before it, nearest first -/
theorem ptrWalkBack_seg (h : Heap) : ∀ (pre : List Int) (n : Option Int) (fuel : Nat), pre.length ≤ fuel →
    Seg h none pre.reverse n → ptrWalkBack fuel h pre.head? = pre := by
  intro pre
  induction pre with
  | nil => intro n fuel _ _; cases fuel <;> rfl
  | cons a pre ih =>
    intro n fuel hf hs
    cases fuel with
    | zero => simp at hf
    | succ f =>
      simp only [List.reverse_cons] at hs
      rw [Seg_append] at hs
      obtain ⟨h1, h2, _, _⟩ := hs
      simp only [List.head?_cons, ptrWalkBack]
      rw [h2, lastOr_none_eq, List.reverse_reverse]
      rw [ih _ f (by simpa using hf) h1]

/-- **walking the links from the head visits exactly the list of the state machine**: on a heap that holds
    `pre.reverse ++ head :: rest` (= `Pool.order` with `post = head :: rest`), following `next` from `mFreeBufferHead` visits
    `post`, following `prev` from `pvGetPrevBuffer(mFreeBufferHead)` visits `pre` -/
theorem ptrWalk_refines (h : Heap) (pre rest : List Int) (head : Int) (fuel : Nat)
    (hf1 : rest.length < fuel) (hf2 : pre.length ≤ fuel) (hd : IsDll h (pre.reverse ++ head :: rest)) :
    ptrWalk fuel h head = head :: rest ∧ ptrWalkBack fuel h (h head).prev = pre := by
  obtain ⟨_, hs⟩ := hd
  rw [Seg_append] at hs
  obtain ⟨h1, h2⟩ := hs
  refine ⟨ptrWalk_seg h rest head _ fuel hf1 h2, ?_⟩
  rw [h2.1, lastOr_none_eq, List.reverse_reverse]
  exact ptrWalkBack_seg h pre _ fuel hf2 h1

/-- first loop of `DeallocateAll` at the pointer level: deletes the buffers before the head, nearest first - the order in
    which `deleteAllPre` takes them from `pre` - and leaves the list `head :: rest` -/
theorem ptrDeleteAllPre_spec (head : Int) (rest : List Int) : ∀ (pre : List Int) (h : Heap) (fuel : Nat), pre.length ≤ fuel →
    IsDll h (pre.reverse ++ head :: rest) →
    (ptrDeleteAllPre head fuel h).1 = pre ∧ IsDll (ptrDeleteAllPre head fuel h).2 (head :: rest) ∧
    ∀ x, x ∉ pre.reverse ++ head :: rest → (ptrDeleteAllPre head fuel h).2 x = h x := by
  intro pre
  induction pre with
  | nil =>
    intro h fuel _ hd
    have hp : (h head).prev = none := by
      have := hd.2; simp only [List.reverse_nil, List.nil_append] at this; exact this.1
    have : ptrDeleteAllPre head fuel h = ([], h) := by
      cases fuel with
      | zero => rfl
      | succ f => simp [ptrDeleteAllPre, hp]
    rw [this]; exact ⟨rfl, by simpa using hd, fun _ _ => rfl⟩
  | cons a pre ih =>
    intro h fuel hf hd
    cases fuel with
    | zero => simp at hf
    | succ f =>
      have hd' : IsDll h (pre.reverse ++ a :: (head :: rest)) := by simpa [List.reverse_cons, List.append_assoc] using hd
      have hp : (h head).prev = some a := by
        have := hd'.2; rw [Seg_append] at this; exact this.2.2.2.1
      obtain ⟨hu, hframe⟩ := ptrUnlink_split h pre.reverse (head :: rest) a hd'
      obtain ⟨i1, i2, i3⟩ := ih (ptrUnlink h a) f (by simpa using hf) hu
      simp only [ptrDeleteAllPre, hp]
      refine ⟨by rw [i1], i2, ?_⟩
      intro x hx
      rw [i3 x (by simp only [List.reverse_cons, List.append_assoc, List.mem_append, List.mem_cons, List.mem_reverse,
                    List.mem_nil_iff, or_false] at hx ⊢; tauto)]
      exact hframe x (by simp only [List.reverse_cons, List.append_assoc, List.mem_append, List.mem_cons, List.mem_reverse,
                    List.mem_nil_iff, or_false] at hx ⊢; tauto)

/-- second loop of `DeallocateAll` at the pointer level: deletes the head and every buffer behind it, in list order -/
theorem ptrDeleteAllPost_spec : ∀ (l : List Int) (h : Heap) (fuel : Nat), l.length ≤ fuel → IsDll h l →
    (ptrDeleteAllPost fuel h l.head?).1 = l ∧ ∀ x, x ∉ l → (ptrDeleteAllPost fuel h l.head?).2 x = h x := by
  intro l
  induction l with
  | nil => intro h fuel _ _; cases fuel <;> exact ⟨rfl, fun _ _ => rfl⟩
  | cons b t ih =>
    intro h fuel hf hd
    cases fuel with
    | zero => simp at hf
    | succ f =>
      have hn : (h b).next = t.head? := by rw [hd.2.2.1, headOr_none_eq]
      obtain ⟨hu, hframe⟩ := ptrUnlink_split h [] t b (by simpa using hd)
      obtain ⟨i1, i2⟩ := ih (ptrUnlink h b) f (by simpa using hf) (by simpa using hu)
      simp only [List.head?_cons, ptrDeleteAllPost, hn]
      refine ⟨by rw [i1], ?_⟩
      intro x hx
      rw [i2 x (fun hm => hx (by simp [hm]))]
      exact hframe x (by simpa using hx)

/-- **`DeallocateAll` at the pointer level** gives the buffers back in the order `pre ++ post` of the state machine
    (`deleteAllPre` then `deleteAllPost`), each exactly once, and touches no buffer outside the list -/
theorem ptrDeallocateAll_refines (h : Heap) (pre rest : List Int) (head : Int) (fuel : Nat)
    (hf1 : rest.length < fuel) (hf2 : pre.length ≤ fuel) (hd : IsDll h (pre.reverse ++ head :: rest)) :
    (ptrDeallocateAll fuel h head).1 = pre ++ head :: rest ∧
    ∀ x, x ∉ pre.reverse ++ head :: rest → (ptrDeallocateAll fuel h head).2 x = h x := by
  obtain ⟨a1, a2, a3⟩ := ptrDeleteAllPre_spec head rest pre h fuel hf2 hd
  obtain ⟨b1, b2⟩ := ptrDeleteAllPost_spec (head :: rest) (ptrDeleteAllPre head fuel h).2 fuel (by simp only [List.length_cons]; omega) a2
  simp only [List.head?_cons] at b1 b2
  unfold ptrDeallocateAll
  refine ⟨by rw [a1, b1], ?_⟩
  intro x hx
  simp only
  rw [b2 x (fun hm => hx (by simp only [List.mem_append, List.mem_cons] at hm ⊢; tauto))]
  exact a3 x hx

/-- what the traversals of `DeallocateIf` need of the sweep of one buffer: whatever `pvDeleteBlocks(buffer)` does to the
    links - nothing, unlinking the buffer (`pvDeleteBuffer`), moving it before the head (`pvMoveBufferToHead`) - the list
    stays a well-formed doubly linked list and the buffers not yet visited keep their places behind (forward loop) /
    before (backward loop) the visited part -/
def SweepFwdOK (sweep : Int → Heap → Heap) : Prop :=
  ∀ (h : Heap) (A T : List Int) (b : Int), IsDll h (A ++ b :: T) → ∃ A', IsDll (sweep b h) (A' ++ T)
def SweepBwdOK (sweep : Int → Heap → Heap) : Prop :=
  ∀ (h : Heap) (T Z : List Int) (b : Int), IsDll h (T ++ b :: Z) → ∃ Z', IsDll (sweep b h) (T ++ Z')

/-- **forward loop of `DeallocateIf` at the pointer level** visits exactly the buffers from the head to the end of the
    list the state machine had when the loop started (`difForward` follows `nextOf` on that list), each once, whatever
    the sweeps do to the visited buffers -/
theorem ptrDifForward_visits (sweep : Int → Heap → Heap) (hs : SweepFwdOK sweep) :
    ∀ (T A : List Int) (b : Int) (h : Heap) (fuel : Nat), T.length < fuel → IsDll h (A ++ b :: T) →
    (ptrDifForward sweep fuel h b).1 = b :: T ∧ ∃ A', IsDll (ptrDifForward sweep fuel h b).2 A' := by
  intro T
  induction T with
  | nil =>
    intro A b h fuel hf hd
    cases fuel with
    | zero => simp at hf
    | succ f =>
      have hn : (h b).next = none := by
        have := hd.2; rw [Seg_append] at this; exact this.2.2.1
      obtain ⟨A', hA'⟩ := hs h A [] b hd
      simp only [ptrDifForward, hn]
      exact ⟨trivial, A' ++ [], hA'⟩
  | cons n T ih =>
    intro A b h fuel hf hd
    cases fuel with
    | zero => simp at hf
    | succ f =>
      have hn : (h b).next = some n := by
        have := hd.2; rw [Seg_append] at this; exact this.2.2.1
      obtain ⟨A', hA'⟩ := hs h A (n :: T) b hd
      obtain ⟨i1, i2⟩ := ih A' n (sweep b h) f (by simpa using hf) hA'
      simp only [ptrDifForward, hn]
      exact ⟨by rw [i1], i2⟩

/-- **backward loop of `DeallocateIf` at the pointer level** visits exactly the buffers before the head, nearest first
    (`difBackward` follows `prevOf`), each once -/
theorem ptrDifBackward_visits (sweep : Int → Heap → Heap) (hs : SweepBwdOK sweep) :
    ∀ (pre Z : List Int) (h : Heap) (fuel : Nat), pre.length ≤ fuel → IsDll h (pre.reverse ++ Z) →
    (ptrDifBackward sweep fuel h pre.head?).1 = pre ∧ ∃ L, IsDll (ptrDifBackward sweep fuel h pre.head?).2 L := by
  intro pre
  induction pre with
  | nil =>
    intro Z h fuel _ hd
    have hd0 : IsDll h Z := by simpa using hd
    cases fuel <;> exact ⟨rfl, Z, hd0⟩
  | cons a pre ih =>
    intro Z h fuel hf hd
    cases fuel with
    | zero => simp at hf
    | succ f =>
      have hd' : IsDll h (pre.reverse ++ a :: Z) := by simpa [List.reverse_cons, List.append_assoc] using hd
      have hp : (h a).prev = pre.head? := by
        have := hd'.2; rw [Seg_append] at this
        rw [this.2.1, lastOr_none_eq, List.reverse_reverse]
      obtain ⟨Z', hZ'⟩ := hs h pre.reverse Z a hd'
      obtain ⟨i1, i2⟩ := ih Z' (sweep a h) f (by simpa using hf) hZ'
      simp only [List.head?_cons, ptrDifBackward, hp]
      exact ⟨by rw [i1], i2⟩

/-- the sweeps of the source that delete the swept buffer (all its blocks were selected) or leave the links alone satisfy
    both conditions -/
theorem sweep_unlink_ok (del : Int → Bool) :
    SweepFwdOK (fun b h => if del b then ptrUnlink h b else h) ∧
    SweepBwdOK (fun b h => if del b then ptrUnlink h b else h) := by
  constructor
  · intro h A T b hd
    by_cases hb : del b = true
    · exact ⟨A, by simp only [hb, if_true]; exact (ptrUnlink_split h A T b hd).1⟩
    · exact ⟨A ++ [b], by simp only [hb]; simpa using hd⟩
  · intro h T Z b hd
    by_cases hb : del b = true
    · exact ⟨Z, by simp only [hb, if_true]; exact (ptrUnlink_split h T Z b hd).1⟩
    · exact ⟨b :: Z, by simp only [hb]; simpa using hd⟩

end Momo.Pool
