import Momo.Proof.BTreeTree
/-!
  C02, operations by key and histories: `pvInsert` is stable upper-bound insertion (unique keys: no insertion when an
  equivalent key is present, the returned iterator names it); `pvFind / ContainsKey`; iterators obtained by stepping
  from `GetBegin()`; the reference semantics `Spec` on sorted lists and the history theorem. Core Lean only.
-/
namespace Momo.BTree
open Node
variable {α : Type}

/-! ### list lemmas about sorted insertion -/

theorem pairwise_insertIdx {R : α → α → Prop} (l : List α) (i : Nat) (x : α) (hi : i ≤ l.length)
    (hp : l.Pairwise R) (hb : ∀ j y, j < i → l[j]? = some y → R y x) (ha : ∀ j y, i ≤ j → l[j]? = some y → R x y) :
    (l.insertIdx i x).Pairwise R := by
  rw [insertIdx_eq_take_drop l i x hi]
  have hsplit : l = l.take i ++ l.drop i := (List.take_append_drop i l).symm
  rw [hsplit] at hp
  obtain ⟨h1, h2, h3⟩ := List.pairwise_append.mp hp
  refine List.pairwise_append.mpr ⟨h1, List.pairwise_cons.mpr ⟨?_, h2⟩, ?_⟩
  · intro y hy
    obtain ⟨j, hj⟩ := List.getElem?_of_mem hy
    rw [List.getElem?_drop] at hj
    exact ha (i + j) y (by omega) hj
  · intro a hma b hmb
    rcases List.mem_cons.mp hmb with rfl | hmb
    · obtain ⟨j, hj⟩ := List.getElem?_of_mem hma
      have hjlt : j < (l.take i).length := lt_of_getElem? hj
      rw [List.getElem?_take] at hj
      simp at hjlt
      split at hj
      · exact hb j a (by omega) hj
      · cases hj
    · exact h3 a hma b hmb

/-- equivalence of keys: neither is less -/
def equiv (lt : α → α → Bool) (a b : α) : Bool := !lt a b && !lt b a

section insert
variable (lt : α → α → Bool)

/-- elements before the upper bound are not greater than `x`, elements from it on are greater -/
theorem upperIdx_facts (ho : Order lt) (l : List α) (x : α) (hs : l.Pairwise (fun a b => lt b a = false)) :
    upperIdx lt l x ≤ l.length ∧ (∀ j y, j < upperIdx lt l x → l[j]? = some y → lt x y = false) ∧
    (∀ j y, upperIdx lt l x ≤ j → l[j]? = some y → lt x y = true) := by
  rw [← firstTrue_upper]
  exact ⟨firstTrue_le _ l, fun j y hj hy => firstTrue_false_before _ l j hj y hy,
    fun j y hj hy => (mono_upper ho x hs).true_after j hj y hy⟩

theorem lowerIdx_facts (ho : Order lt) (l : List α) (x : α) (hs : l.Pairwise (fun a b => lt b a = false)) :
    lowerIdx lt l x ≤ l.length ∧ (∀ j y, j < lowerIdx lt l x → l[j]? = some y → lt y x = true) ∧
    (∀ j y, lowerIdx lt l x ≤ j → l[j]? = some y → lt y x = false) := by
  rw [← firstTrue_lower]
  refine ⟨firstTrue_le _ l, fun j y hj hy => ?_, fun j y hj hy => ?_⟩
  · have := firstTrue_false_before _ l j hj y hy; simpa using this
  · have := (mono_lower ho x hs).true_after j hj y hy; simpa using this

/-- unique keys: an equivalent element exists iff the element before the upper bound is not less than `x` -/
theorem equiv_iff_prev_upper (ho : Order lt) (l : List α) (x : α) (hs : l.Pairwise (fun a b => lt b a = false)) :
    (∃ y ∈ l, equiv lt y x = true) ↔
      (0 < upperIdx lt l x ∧ ∃ z, l[upperIdx lt l x - 1]? = some z ∧ lt z x = false) := by
  obtain ⟨h1, h2, h3⟩ := upperIdx_facts lt ho l x hs
  constructor
  · rintro ⟨y, hy, he⟩
    simp only [equiv, Bool.and_eq_true, Bool.not_eq_true'] at he
    obtain ⟨j, hj⟩ := List.getElem?_of_mem hy
    have hju : j < upperIdx lt l x := by
      apply Decidable.byContradiction; intro hc
      have := h3 j y (by omega) hj
      rw [he.2] at this; cases this
    obtain ⟨z, hz⟩ := getElem?_of_lt (l := l) (i := upperIdx lt l x - 1) (by omega)
    refine ⟨by omega, z, hz, ?_⟩
    by_cases hjz : j = upperIdx lt l x - 1
    · subst hjz; rw [hj] at hz; cases hz; exact he.1
    · -- y ≤ z by sortedness, x ≤ y, so x ≤ z
      have hyz : lt z y = false := by
        have hjl := lt_of_getElem? hj
        have hzl := lt_of_getElem? hz
        have := List.pairwise_iff_getElem.mp hs j (upperIdx lt l x - 1) hjl hzl (by omega)
        rw [List.getElem?_eq_getElem hjl] at hj
        rw [List.getElem?_eq_getElem hzl] at hz
        cases hj; cases hz; exact this
      exact ho.le_trans x y z he.1 hyz
  · rintro ⟨hpos, z, hz, hzx⟩
    refine ⟨z, List.mem_of_getElem? hz, ?_⟩
    simp only [equiv, Bool.and_eq_true, Bool.not_eq_true']
    exact ⟨hzx, h2 _ z (by omega) hz⟩

/-- `pvInsert`: what it does to the in-order list, what it returns, and that the invariants stay -/
theorem tree_insert_spec (ho : Order lt) (cfg : Cfg) (hmax : 0 < cfg.maxCap) (t : Tree α) (hw : t.WF cfg)
    (hs : SortedBy lt cfg.multi t.toList) (x : α) :
    (if cfg.multi = false ∧ ∃ y ∈ t.toList, equiv lt y x = true then
        (Tree.insert lt cfg t x).1 = t ∧ (Tree.insert lt cfg t x).2.2 = false ∧
        ∃ z, t.toList[t.idxOf (Tree.insert lt cfg t x).2.1]? = some z ∧ equiv lt z x = true
      else
        (Tree.insert lt cfg t x).1.toList = t.toList.insertIdx (upperIdx lt t.toList x) x ∧
        (Tree.insert lt cfg t x).2.2 = true ∧
        (Tree.insert lt cfg t x).1.idxOf (Tree.insert lt cfg t x).2.1 = upperIdx lt t.toList x) ∧
    (Tree.insert lt cfg t x).1.WF cfg ∧ SortedBy lt cfg.multi (Tree.insert lt cfg t x).1.toList ∧
    (Tree.insert lt cfg t x).1.ValidElem (Tree.insert lt cfg t x).2.1 := by
  have hsw := hs.weak ho
  obtain ⟨u1, u2⟩ := upperBound_spec lt ho cfg t hw x hsw
  obtain ⟨f1, f2, f3⟩ := upperIdx_facts lt ho t.toList x hsw
  obtain ⟨b1, b2, b3, b4⟩ := tree_begin_end_spec cfg t hw
  -- the position test `iter != GetBegin()` is the index test `0 < upper bound`
  have hbegin : (Tree.upperBound lt cfg t x ≠ t.beginPos) ↔ 0 < upperIdx lt t.toList x := by
    rw [← u1]
    constructor
    · intro hne
      apply Decidable.byContradiction; intro hz
      apply hne
      unfold Tree.ValidPos at u2 b2
      unfold Tree.idxOf at hz b1
      cases hr : t.root with
      | none => simp only [hr] at u2 b2; rw [u2, b2]
      | some r =>
        obtain ⟨d, hb⟩ := hw.bal r hr
        simp only [hr] at u2 b2 hz b1
        exact validPos_eq_of_idx hb u2 b2 (by omega)
    · intro hpos he; rw [he, b1] at hpos; omega
  -- the predecessor test
  have hprev : 0 < upperIdx lt t.toList x →
      ∃ z, t.elemAt? (t.prev (Tree.upperBound lt cfg t x)) = some z ∧
        t.toList[upperIdx lt t.toList x - 1]? = some z ∧
        t.idxOf (t.prev (Tree.upperBound lt cfg t x)) = upperIdx lt t.toList x - 1 ∧
        t.ValidElem (t.prev (Tree.upperBound lt cfg t x)) := by
    intro hpos
    obtain ⟨p1, p2⟩ := tree_prev_spec cfg t hw _ u2 (by rw [u1]; exact hpos)
    obtain ⟨z, hz1, hz2⟩ := tree_elemAt_spec cfg t hw _ p2
    have : t.idxOf (t.prev (Tree.upperBound lt cfg t x)) = upperIdx lt t.toList x - 1 := by omega
    exact ⟨z, hz1, by rw [← this]; exact hz2, this, p2⟩
  have hequiv := equiv_iff_prev_upper lt ho t.toList x hsw
  unfold Tree.insert
  by_cases hcase : cfg.multi = false ∧ ∃ y ∈ t.toList, equiv lt y x = true
  · -- unique keys and the key is present
    obtain ⟨hmulti, hex⟩ := hcase
    obtain ⟨hpos, z, hz, hzx⟩ := hequiv.mp hex
    obtain ⟨z', hz1, hz2, hz3, hz4⟩ := hprev hpos
    rw [hz] at hz2; cases hz2
    have hcond : (!cfg.multi && decide (Tree.upperBound lt cfg t x ≠ t.beginPos) &&
        Tree.prevNotLess lt t (Tree.upperBound lt cfg t x) x) = true := by
      simp [Tree.prevNotLess, hmulti, hbegin.mpr hpos, hz1, hzx]
    rw [if_pos hcond, if_pos ⟨hmulti, hex⟩]
    refine ⟨⟨rfl, rfl, z, by rw [hz3]; exact hz, ?_⟩, hw, hs, hz4⟩
    simp only [equiv, Bool.and_eq_true, Bool.not_eq_true']
    exact ⟨hzx, f2 _ z (by omega) hz⟩
  · -- insertion at the upper bound
    have hcond : ¬ ((!cfg.multi && decide (Tree.upperBound lt cfg t x ≠ t.beginPos) &&
        Tree.prevNotLess lt t (Tree.upperBound lt cfg t x) x) = true) := by
      intro hc
      simp only [Bool.and_eq_true, Bool.not_eq_true', decide_eq_true_eq] at hc
      obtain ⟨⟨hm, hne⟩, hm3⟩ := hc
      have hpos := hbegin.mp hne
      obtain ⟨z, hz1, hz2, _, _⟩ := hprev hpos
      simp only [Tree.prevNotLess, hz1, Bool.not_eq_true'] at hm3
      exact hcase ⟨hm, hequiv.mpr ⟨hpos, z, hz2, hm3⟩⟩
    rw [if_neg hcond, if_neg hcase]
    obtain ⟨a1, a2, a3, a4⟩ := tree_add_spec cfg hmax t hw _ u2 x
    rw [u1] at a1 a3
    refine ⟨⟨a1, rfl, a3⟩, a2, ?_, a4⟩
    rw [a1]
    unfold SortedBy at hs ⊢
    cases hmulti : cfg.multi with
    | true =>
      simp only [hmulti, if_true] at hs ⊢
      exact pairwise_insertIdx _ _ x f1 hs (fun j y hj hy => f2 j y hj hy)
        (fun j y hj hy => ho.asymm _ _ (f3 j y hj hy))
    | false =>
      simp only [hmulti, Bool.false_eq_true, if_false] at hs ⊢
      refine pairwise_insertIdx _ _ x f1 hs (fun j y hj hy => ?_) (fun j y hj hy => f3 j y hj hy)
      -- not equivalent and not greater, hence less
      cases hyx : lt y x with
      | true => rfl
      | false =>
        exfalso; apply hcase
        refine ⟨hmulti, y, List.mem_of_getElem? hy, ?_⟩
        simp only [equiv, Bool.and_eq_true, Bool.not_eq_true']
        exact ⟨hyx, f2 j y hj hy⟩

/-- `ContainsKey` and `pvFind` -/
theorem tree_find_spec (ho : Order lt) (cfg : Cfg) (t : Tree α) (hw : t.WF cfg)
    (hs : t.toList.Pairwise (fun a b => lt b a = false)) (k : α) :
    (Tree.contains lt cfg t k = true ↔ ∃ y ∈ t.toList, equiv lt y k = true) ∧
    t.idxOf (Tree.find lt cfg t k) =
      (if Tree.contains lt cfg t k then lowerIdx lt t.toList k else t.toList.length) := by
  obtain ⟨l1, l2⟩ := lowerBound_spec lt ho cfg t hw k hs
  obtain ⟨f1, f2, f3⟩ := lowerIdx_facts lt ho t.toList k hs
  have hg := isGreater_spec lt t cfg hw _ l2 k
  rw [l1] at hg
  obtain ⟨_, _, b3, _⟩ := tree_begin_end_spec cfg t hw
  constructor
  · unfold Tree.contains
    rw [hg]
    constructor
    · intro h
      cases hx : t.toList[lowerIdx lt t.toList k]? with
      | none => simp [hx] at h
      | some y =>
        simp only [hx, Bool.not_eq_true'] at h
        refine ⟨y, List.mem_of_getElem? hx, ?_⟩
        simp only [equiv, Bool.and_eq_true, Bool.not_eq_true']
        exact ⟨f3 _ y (Nat.le_refl _) hx, h⟩
    · rintro ⟨y, hy, he⟩
      simp only [equiv, Bool.and_eq_true, Bool.not_eq_true'] at he
      obtain ⟨j, hj⟩ := List.getElem?_of_mem hy
      have hjl : lowerIdx lt t.toList k ≤ j := by
        apply Decidable.byContradiction; intro hc
        have := f2 j y (by omega) hj
        rw [he.1] at this; cases this
      have hjlen := lt_of_getElem? hj
      obtain ⟨z, hz⟩ := getElem?_of_lt (l := t.toList) (i := lowerIdx lt t.toList k) (by omega)
      simp only [hz, Bool.not_eq_true']
      by_cases hjz : j = lowerIdx lt t.toList k
      · subst hjz; rw [hj] at hz; cases hz; exact he.2
      · have hzy : lt y z = false := by
          have hzl := lt_of_getElem? hz
          have := List.pairwise_iff_getElem.mp hs (lowerIdx lt t.toList k) j hzl hjlen (by omega)
          rw [List.getElem?_eq_getElem hjlen] at hj
          rw [List.getElem?_eq_getElem hzl] at hz
          cases hj; cases hz; exact this
        -- z ≤ y ≤ k
        exact ho.le_trans z y k hzy he.2
  · unfold Tree.find Tree.contains
    by_cases h : (!Tree.isGreater lt t (Tree.lowerBound lt cfg t k) k) = true
    · rw [if_pos h, if_pos h]; exact l1
    · rw [if_neg h, if_neg h]; exact b3

end insert

/-! ### iterators obtained by stepping from `GetBegin()` -/

theorem posOfIdx_spec (cfg : Cfg) (t : Tree α) (hw : t.WF cfg) (i : Nat) (hi : i ≤ t.toList.length) :
    t.idxOf (t.posOfIdx i) = i ∧ t.ValidPos (t.posOfIdx i) := by
  obtain ⟨b1, b2, b3, b4⟩ := tree_begin_end_spec cfg t hw
  induction i with
  | zero => exact ⟨b1, b2⟩
  | succ j ih =>
    obtain ⟨i1, i2⟩ := ih (by omega)
    have hve : t.ValidElem (t.posOfIdx j) := validElem_of_lt cfg t hw _ i2 (by omega)
    obtain ⟨n1, n2⟩ := tree_next_spec cfg t hw _ hve
    exact ⟨by simp only [Tree.posOfIdx]; omega, n2⟩
where
  validElem_of_lt (cfg : Cfg) (t : Tree α) (hw : t.WF cfg) (pos : Pos) (hv : t.ValidPos pos)
      (h : t.idxOf pos < t.toList.length) : t.ValidElem pos := by
    unfold Tree.ValidPos at hv
    unfold Tree.idxOf Tree.toList at h
    unfold Tree.ValidElem
    cases hr : t.root with
    | none => simp [hr] at h
    | some r =>
      obtain ⟨d, hb⟩ := hw.bal r hr
      simp only [hr] at hv h ⊢
      rcases hv with hv | rfl
      · exact hv
      · rw [idxOf_endPos hb] at h; simp [size] at h

theorem validElem_of_idx_lt (cfg : Cfg) (t : Tree α) (hw : t.WF cfg) (pos : Pos) (hv : t.ValidPos pos)
    (h : t.idxOf pos < t.toList.length) : t.ValidElem pos :=
  posOfIdx_spec.validElem_of_lt cfg t hw pos hv h

/-! ### `GetKeyCount` -/

section keycount
variable (lt : α → α → Bool)

theorem lowerIdx_le_upperIdx (ho : Order lt) (l : List α) (k : α) (hs : l.Pairwise (fun a b => lt b a = false)) :
    lowerIdx lt l k ≤ upperIdx lt l k := by
  obtain ⟨l1, l2, l3⟩ := lowerIdx_facts lt ho l k hs
  obtain ⟨u1, u2, u3⟩ := upperIdx_facts lt ho l k hs
  apply Decidable.byContradiction; intro hc
  obtain ⟨y, hy⟩ := getElem?_of_lt (l := l) (i := upperIdx lt l k) (by omega)
  have h1 := u3 _ y (Nat.le_refl _) hy
  have h2 := l2 _ y (by omega) hy
  rw [ho.asymm _ _ h2] at h1; cases h1

/-- the loop of `pvGetKeyCount` started at index `j` between the bounds counts up to the upper bound -/
theorem keyRun_spec (ho : Order lt) (cfg : Cfg) (t : Tree α) (hw : t.WF cfg)
    (hs : t.toList.Pairwise (fun a b => lt b a = false)) (k : α) (fuel : Nat) (pos : Pos) (hv : t.ValidPos pos)
    (hj : t.idxOf pos ≤ upperIdx lt t.toList k) (hf : upperIdx lt t.toList k ≤ t.idxOf pos + fuel) :
    Tree.keyRun lt t k fuel pos = upperIdx lt t.toList k - t.idxOf pos := by
  obtain ⟨u1, u2, u3⟩ := upperIdx_facts lt ho t.toList k hs
  induction fuel generalizing pos with
  | zero => simp only [Tree.keyRun]; omega
  | succ f ih =>
    have hg := isGreater_spec lt t cfg hw pos hv k
    simp only [Tree.keyRun]
    by_cases hlt : t.idxOf pos < upperIdx lt t.toList k
    · obtain ⟨y, hy⟩ := getElem?_of_lt (l := t.toList) (i := t.idxOf pos) (by omega)
      have := u2 _ y hlt hy
      rw [hy] at hg
      simp only [hg, this, Bool.false_eq_true, if_false]
      have hve := validElem_of_idx_lt cfg t hw pos hv (by omega)
      obtain ⟨n1, n2⟩ := tree_next_spec cfg t hw pos hve
      rw [ih (t.next pos) n2 (by omega) (by omega), n1]; omega
    · have he : t.idxOf pos = upperIdx lt t.toList k := by omega
      have : Tree.isGreater lt t pos k = true := by
        rw [hg]
        cases hy : t.toList[t.idxOf pos]? with
        | none => rfl
        | some y => exact u3 _ y (by omega) hy
      simp only [this, if_true]; omega

/-- `GetKeyCount(k)` = distance between the bounds, for unique and multi keys -/
theorem tree_keyCount_spec (ho : Order lt) (cfg : Cfg) (t : Tree α) (hw : t.WF cfg)
    (hs : SortedBy lt cfg.multi t.toList) (k : α) :
    Tree.keyCount lt cfg t k = upperIdx lt t.toList k - lowerIdx lt t.toList k := by
  have hsw := hs.weak ho
  obtain ⟨l1, l2⟩ := lowerBound_spec lt ho cfg t hw k hsw
  obtain ⟨f1, f2, f3⟩ := lowerIdx_facts lt ho t.toList k hsw
  obtain ⟨u1, u2, u3⟩ := upperIdx_facts lt ho t.toList k hsw
  have hle := lowerIdx_le_upperIdx lt ho t.toList k hsw
  unfold Tree.keyCount
  cases hm : cfg.multi with
  | true =>
    simp only [if_true]
    rw [keyRun_spec lt ho cfg t hw hsw k t.count _ l2 (by rw [l1]; exact hle) (by rw [l1, hw.count]; omega), l1]
  | false =>
    simp only [Bool.false_eq_true, if_false]
    have hstrict : t.toList.Pairwise (fun a b => lt a b = true) := by
      unfold SortedBy at hs; simpa [hm] using hs
    obtain ⟨c1, _⟩ := tree_find_spec lt ho cfg t hw hsw k
    -- at most one element lies between the bounds
    have hle1 : upperIdx lt t.toList k ≤ lowerIdx lt t.toList k + 1 := by
      apply Decidable.byContradiction; intro hc
      obtain ⟨a, ha⟩ := getElem?_of_lt (l := t.toList) (i := lowerIdx lt t.toList k) (by omega)
      obtain ⟨b, hb⟩ := getElem?_of_lt (l := t.toList) (i := lowerIdx lt t.toList k + 1) (by omega)
      have hab : lt a b = true := by
        have hal := lt_of_getElem? ha
        have hbl := lt_of_getElem? hb
        have := List.pairwise_iff_getElem.mp hstrict _ _ hal hbl (by omega)
        rw [List.getElem?_eq_getElem hal] at ha
        rw [List.getElem?_eq_getElem hbl] at hb
        cases ha; cases hb; exact this
      have h1 : lt k b = false := u2 _ b (by omega) hb
      have h2 : lt a k = false := f3 _ a (Nat.le_refl _) ha
      rw [ho.le_trans b k a h1 h2] at hab; cases hab
    by_cases hc : Tree.contains lt cfg t k = true
    · simp only [hc, if_true]
      obtain ⟨y, hy, he⟩ := c1.mp hc
      simp only [equiv, Bool.and_eq_true, Bool.not_eq_true'] at he
      obtain ⟨j, hj⟩ := List.getElem?_of_mem hy
      have h1 : lowerIdx lt t.toList k ≤ j := by
        apply Decidable.byContradiction; intro hcc
        have := f2 j y (by omega) hj; rw [he.1] at this; cases this
      have h2 : j < upperIdx lt t.toList k := by
        apply Decidable.byContradiction; intro hcc
        have := u3 j y (by omega) hj; rw [he.2] at this; cases this
      omega
    · simp only [hc, Bool.false_eq_true, if_false]
      apply Decidable.byContradiction; intro hcc
      apply hc
      apply c1.mpr
      obtain ⟨y, hy⟩ := getElem?_of_lt (l := t.toList) (i := lowerIdx lt t.toList k) (by omega)
      refine ⟨y, List.mem_of_getElem? hy, ?_⟩
      simp only [equiv, Bool.and_eq_true, Bool.not_eq_true']
      exact ⟨f3 _ y (Nat.le_refl _) hy, u2 _ y (by omega) hy⟩

end keycount

/-! ### histories -/

/-- the operations of the proved history theorem. Iterators are given by their in-order index
    (`std::next(GetBegin(), i)`); `Extract` + `Insert(ExtractedItem)` is `removeAt` followed by `insert` -/
inductive Op (α : Type) where
  | insert (x : α)
  | addHint (i : Nat) (x : α)
  | removeAt (i : Nat)
  | resetKey (i : Nat) (x : α)
  | clear

/-- the implementation model run on one operation -/
def Tree.runOp (lt : α → α → Bool) (cfg : Cfg) (t : Tree α) : Op α → Tree α
  | .insert x => (Tree.insert lt cfg t x).1
  | .addHint i x => (Tree.add cfg t (t.posOfIdx i) x).1
  | .removeAt i => (Tree.remove cfg t (t.posOfIdx i)).1
  | .resetKey i x => Tree.resetKey t (t.posOfIdx i) x
  | .clear => {}

instance (lt : α → α → Bool) (multi : Bool) (l : List α) : Decidable (SortedBy lt multi l) := by
  unfold SortedBy; cases multi <;> exact inferInstance

/-- reference semantics on the sorted sequence; `none` = the operation's precondition does not hold
    (index out of range, hint or new key that would break the order) -/
def Spec.step (lt : α → α → Bool) (multi : Bool) (l : List α) : Op α → Option (List α)
  | .insert x => if multi = false ∧ l.any (fun y => equiv lt y x) then some l
                 else some (l.insertIdx (upperIdx lt l x) x)
  | .addHint i x => if i ≤ l.length ∧ SortedBy lt multi (l.insertIdx i x) then some (l.insertIdx i x) else none
  | .removeAt i => if i < l.length then some (l.eraseIdx i) else none
  | .resetKey i x => if i < l.length ∧ SortedBy lt multi (l.set i x) then some (l.set i x) else none
  | .clear => some []

def Spec.run (lt : α → α → Bool) (multi : Bool) : List α → List (Op α) → Option (List α)
  | l, [] => some l
  | l, op :: ops => match Spec.step lt multi l op with
    | some l' => Spec.run lt multi l' ops
    | none => none

theorem sortedBy_eraseIdx (lt : α → α → Bool) (multi : Bool) (l : List α) (i : Nat) (h : SortedBy lt multi l) :
    SortedBy lt multi (l.eraseIdx i) := by
  unfold SortedBy at h ⊢
  split <;> rename_i hm <;> simp only [hm] at h <;> exact List.Pairwise.sublist (List.eraseIdx_sublist _ _) (by simpa using h)

/-- one step: the model follows the reference semantics and keeps the invariants -/
theorem runOp_spec (lt : α → α → Bool) (ho : Order lt) (cfg : Cfg) (hmax : 0 < cfg.maxCap) (t : Tree α)
    (hw : t.WF cfg) (hs : SortedBy lt cfg.multi t.toList) (op : Op α) (l' : List α)
    (h : Spec.step lt cfg.multi t.toList op = some l') :
    (Tree.runOp lt cfg t op).toList = l' ∧ (Tree.runOp lt cfg t op).WF cfg ∧
    SortedBy lt cfg.multi (Tree.runOp lt cfg t op).toList := by
  cases op with
  | insert x =>
    obtain ⟨a, b, c, _⟩ := tree_insert_spec lt ho cfg hmax t hw hs x
    simp only [Tree.runOp]
    refine ⟨?_, b, c⟩
    simp only [Spec.step, List.any_eq_true] at h
    split at h
    · rename_i hc; rw [if_pos hc] at a; cases h; rw [a.1]
    · rename_i hc; rw [if_neg hc] at a; cases h; exact a.1
  | addHint i x =>
    simp only [Spec.step] at h
    split at h
    · rename_i hc
      cases h
      obtain ⟨p1, p2⟩ := posOfIdx_spec cfg t hw i hc.1
      obtain ⟨a1, a2, _, _⟩ := tree_add_spec cfg hmax t hw _ p2 x
      rw [p1] at a1
      simp only [Tree.runOp]
      exact ⟨a1, a2, by rw [a1]; exact hc.2⟩
    · cases h
  | removeAt i =>
    simp only [Spec.step] at h
    split at h
    · rename_i hc
      cases h
      obtain ⟨p1, p2⟩ := posOfIdx_spec cfg t hw i (by omega)
      have hve := validElem_of_idx_lt cfg t hw _ p2 (by rw [p1]; exact hc)
      obtain ⟨a1, a2, _, _⟩ := tree_remove_spec cfg t hw _ hve
      rw [p1] at a1
      simp only [Tree.runOp]
      exact ⟨a1, a2, by rw [a1]; exact sortedBy_eraseIdx lt _ _ i hs⟩
    · cases h
  | resetKey i x =>
    simp only [Spec.step] at h
    split at h
    · rename_i hc
      cases h
      obtain ⟨p1, p2⟩ := posOfIdx_spec cfg t hw i (by omega)
      have hve := validElem_of_idx_lt cfg t hw _ p2 (by rw [p1]; exact hc.1)
      obtain ⟨a1, a2⟩ := tree_resetKey_spec cfg t hw _ hve x
      rw [p1] at a1
      simp only [Tree.runOp]
      exact ⟨a1, a2, by rw [a1]; exact hc.2⟩
    · cases h
  | clear =>
    simp only [Spec.step] at h
    cases h
    simp only [Tree.runOp]
    refine ⟨by simp [Tree.toList], Tree.wf_empty cfg, ?_⟩
    unfold SortedBy; split <;> simp [Tree.toList]

/-- histories: from any state that satisfies the invariants -/
theorem run_spec (lt : α → α → Bool) (ho : Order lt) (cfg : Cfg) (hmax : 0 < cfg.maxCap) (ops : List (Op α))
    (t : Tree α) (hw : t.WF cfg) (hs : SortedBy lt cfg.multi t.toList) (l' : List α)
    (h : Spec.run lt cfg.multi t.toList ops = some l') :
    (ops.foldl (Tree.runOp lt cfg) t).toList = l' ∧ (ops.foldl (Tree.runOp lt cfg) t).WF cfg ∧
    SortedBy lt cfg.multi (ops.foldl (Tree.runOp lt cfg) t).toList := by
  induction ops generalizing t with
  | nil => simp only [Spec.run] at h; cases h; exact ⟨rfl, hw, hs⟩
  | cons op ops ih =>
    simp only [Spec.run] at h
    cases hstep : Spec.step lt cfg.multi t.toList op with
    | none => simp [hstep] at h
    | some l1 =>
      simp only [hstep] at h
      obtain ⟨a, b, c⟩ := runOp_spec lt ho cfg hmax t hw hs op l1 hstep
      simp only [List.foldl_cons]
      exact ih _ b c (by rw [a]; exact h)

/-! ### the complete operation set (reference semantics only; see `Props/C02.lean` for what is proved) -/

/-- every operation the property names, on one container; merging takes the other container as a value -/
inductive OpFull (α : Type) where
  | base (op : Op α)
  | removeKey (k : α)
  | removeRange (i j : Nat)
  | removeIf (f : α → Bool)
  | insertRange (xs : List α)
  /-- `src.MergeTo(*this)` / `this->MergeFrom(src)` -/
  | mergeFrom (src : Tree α)
  /-- replace the container by a copy of itself (copy construction + swap) -/
  | copy

def Tree.runOpFull (lt : α → α → Bool) (cfg : Cfg) (t : Tree α) : OpFull α → Tree α
  | .base op => Tree.runOp lt cfg t op
  | .removeKey k => (Tree.removeKey lt cfg t k).1
  | .removeRange i j => (Tree.removeRange cfg t (t.posOfIdx i) (t.posOfIdx j) (j - i)).1
  | .removeIf f => Tree.removeIf cfg f t
  | .insertRange xs => Tree.insertRange lt cfg t xs
  | .mergeFrom src => (Tree.mergeTo lt cfg src t).2
  | .copy => Tree.copy cfg t

/-- stable insertion of one element into the reference sequence -/
def Spec.insert1 (lt : α → α → Bool) (multi : Bool) (l : List α) (x : α) : List α :=
  if multi = false ∧ l.any (fun y => equiv lt y x) then l else l.insertIdx (upperIdx lt l x) x

/-- `pvIsOrdered` on two elements -/
def Spec.ordered (lt : α → α → Bool) (multi : Bool) (a b : α) : Bool := if multi then !lt b a else lt a b

/-- reference semantics of a merge: everything in front when the whole source precedes the destination, everything
    behind when it follows, else one stable insertion after the other -/
def Spec.merge (lt : α → α → Bool) (multi : Bool) (src dst : List α) : List α :=
  match src.getLast?, dst.head? with
  | none, _ => dst
  | _, none => src
  | some a, some b =>
    if Spec.ordered lt multi a b then src ++ dst
    else match dst.getLast?, src.head? with
      | some c, some d => if Spec.ordered lt multi c d then dst ++ src else src.foldl (Spec.insert1 lt multi) dst
      | _, _ => src.foldl (Spec.insert1 lt multi) dst

open Classical in
noncomputable def Spec.stepFull (lt : α → α → Bool) (cfg : Cfg) (l : List α) : OpFull α → Option (List α)
  | .base op => Spec.step lt cfg.multi l op
  | .removeKey k => some (l.filter (fun y => !equiv lt y k))
  | .removeRange i j => if i ≤ j ∧ j ≤ l.length then some (l.take i ++ l.drop j) else none
  | .removeIf f => some (l.filter (fun y => !f y))
  | .insertRange xs => some (xs.foldl (Spec.insert1 lt cfg.multi) l)
  | .mergeFrom src =>
      if src.WF cfg ∧ SortedBy lt cfg.multi src.toList then some (Spec.merge lt cfg.multi src.toList l) else none
  | .copy => some l

noncomputable def Spec.runFull (lt : α → α → Bool) (cfg : Cfg) : List α → List (OpFull α) → Option (List α)
  | l, [] => some l
  | l, op :: ops => match Spec.stepFull lt cfg l op with
    | some l' => Spec.runFull lt cfg l' ops
    | none => none

end Momo.BTree
