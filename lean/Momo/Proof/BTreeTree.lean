import Momo.Proof.BTreeSearch
import Momo.Proof.BTreeRemove
/-!
  C02, container level: the invariant of `Tree` (count, balance, capacities), the order axioms, and the refinement of
  `pvGetLowerBound / pvGetUpperBound / pvFind / ContainsKey / GetKeyCount / pvInsert / pvAdd / Remove(iter) / ResetKey /
  Clear` to operations on the in-order list. Core Lean only.
-/
namespace Momo.BTree
open Node
variable {α : Type}

/-! ### order -/

/-- what the container needs from `IsLess` (a strict weak order gives both) -/
structure Order (lt : α → α → Bool) : Prop where
  asymm : ∀ a b, lt a b = true → lt b a = false
  /-- transitivity of "not greater": `a ≤ b → b ≤ c → a ≤ c` with `x ≤ y := ¬ y < x` -/
  le_trans : ∀ a b c, lt b a = false → lt c b = false → lt c a = false

/-- non-decreasing key order (`multi`), strictly increasing for unique keys -/
def SortedBy (lt : α → α → Bool) (multi : Bool) (l : List α) : Prop :=
  if multi then l.Pairwise (fun a b => lt b a = false) else l.Pairwise (fun a b => lt a b = true)

theorem SortedBy.weak {lt : α → α → Bool} (ho : Order lt) {multi : Bool} {l : List α} (h : SortedBy lt multi l) :
    l.Pairwise (fun a b => lt b a = false) := by
  unfold SortedBy at h
  cases multi with
  | true => simpa using h
  | false => exact List.Pairwise.imp (fun hab => ho.asymm _ _ hab) (by simpa using h)

theorem Order.lt_trans {lt : α → α → Bool} (ho : Order lt) (a b c : α) (h1 : lt a b = true) (h2 : lt b c = true) :
    lt a c = true := by
  cases h : lt a c with
  | true => rfl
  | false =>
    have := ho.le_trans c a b h (ho.asymm _ _ h1)
    rw [this] at h2; cases h2

theorem mono_lower {lt : α → α → Bool} (ho : Order lt) (k : α) {l : List α}
    (h : l.Pairwise (fun a b => lt b a = false)) : Mono (fun x => !lt x k) l := by
  refine List.Pairwise.imp ?_ h
  intro a b hab ha
  simp only [Bool.not_eq_true'] at ha ⊢
  exact ho.le_trans k a b ha hab

theorem mono_upper {lt : α → α → Bool} (ho : Order lt) (k : α) {l : List α}
    (h : l.Pairwise (fun a b => lt b a = false)) : Mono (fun x => lt k x) l := by
  refine List.Pairwise.imp ?_ h
  intro a b hab ha
  show lt k b = true
  have ha' : lt k a = true := ha
  cases hb : lt k b with
  | true => rfl
  | false =>
    have := ho.le_trans a b k hab hb
    rw [this] at ha'; cases ha'

/-- index of the first element not less than `k` (`std::lower_bound`) -/
def lowerIdx (lt : α → α → Bool) (l : List α) (k : α) : Nat := (l.takeWhile (fun x => lt x k)).length

/-- index of the first element greater than `k` (`std::upper_bound`) -/
def upperIdx (lt : α → α → Bool) (l : List α) (k : α) : Nat := (l.takeWhile (fun x => !lt k x)).length

theorem firstTrue_lower (lt : α → α → Bool) (l : List α) (k : α) :
    firstTrue (fun x => !lt x k) l = lowerIdx lt l k := by
  rw [firstTrue_eq_takeWhile]; simp [lowerIdx]

theorem firstTrue_upper (lt : α → α → Bool) (l : List α) (k : α) :
    firstTrue (fun x => lt k x) l = upperIdx lt l k := by
  rw [firstTrue_eq_takeWhile]; simp [upperIdx]

/-! ### the invariant -/

structure Tree.WF (cfg : Cfg) (t : Tree α) : Prop where
  count : t.count = t.toList.length
  bal : ∀ r, t.root = some r → ∃ d, Bal d r
  caps : ∀ r, t.root = some r → Caps cfg.maxCap r

/-- an iterator of the container: an element position or `GetEnd()`; the null iterator of a container without root -/
def Tree.ValidPos (t : Tree α) (pos : Pos) : Prop :=
  match t.root with
  | some r => BTree.ValidPos r pos
  | none => pos = ⟨[], 0⟩

/-- an iterator that can be dereferenced -/
def Tree.ValidElem (t : Tree α) (pos : Pos) : Prop :=
  match t.root with
  | some r => BTree.ValidElem r pos.path pos.idx
  | none => False

theorem Tree.wf_empty (cfg : Cfg) : Tree.WF cfg ({} : Tree α) :=
  ⟨by simp [Tree.toList], (by intro r h; cases h), (by intro r h; cases h)⟩

theorem validPos_slot {r : Node α} {pos : Pos} (h : BTree.ValidPos r pos) :
    ∃ m, nodeAt? r pos.path = some m ∧ pos.idx ≤ m.count := by
  rcases h with h | rfl
  · exact h.slot
  · exact ⟨r, by simp [endPos], by simp [endPos]⟩

theorem validPos_idx_le {d : Nat} {r : Node α} (hb : Bal d r) {pos : Pos} (h : BTree.ValidPos r pos) :
    idxOf r pos.path pos.idx ≤ size r := by
  rcases h with h | rfl
  · exact Nat.le_of_lt (idxOf_lt_size hb _ _ h)
  · exact Nat.le_of_eq (idxOf_endPos hb)

/-- two iterators of a tree with the same in-order index are the same iterator -/
theorem validPos_eq_of_idx {d : Nat} {r : Node α} (hb : Bal d r) {p q : Pos} (hp : BTree.ValidPos r p)
    (hq : BTree.ValidPos r q) (h : idxOf r p.path p.idx = idxOf r q.path q.idx) : p = q := by
  rcases hp with hp | rfl
  · rcases hq with hq | rfl
    · have := idxOf_inj hb _ _ _ _ hp hq h
      cases p; cases q; simp_all
    · have h1 := idxOf_lt_size hb _ _ hp
      rw [h, idxOf_endPos hb] at h1; omega
  · rcases hq with hq | rfl
    · have h1 := idxOf_lt_size hb _ _ hq
      rw [← h, idxOf_endPos hb] at h1; omega
    · rfl

/-! ### search -/

section search
variable (lt : α → α → Bool)

theorem lowerBound_spec (ho : Order lt) (cfg : Cfg) (t : Tree α) (hw : t.WF cfg) (k : α)
    (hs : t.toList.Pairwise (fun a b => lt b a = false)) :
    t.idxOf (Tree.lowerBound lt cfg t k) = lowerIdx lt t.toList k ∧ t.ValidPos (Tree.lowerBound lt cfg t k) := by
  unfold Tree.lowerBound Tree.idxOf Tree.ValidPos Tree.toList
  cases hr : t.root with
  | none => simp [lowerIdx]
  | some r =>
    obtain ⟨d, hb⟩ := hw.bal r hr
    simp only [Tree.toList, hr] at hs
    have hm := mono_lower ho k hs
    refine ⟨by simp only; rw [findPos_idx cfg.linear _ hb hm, firstTrue_lower], ?_⟩
    rcases findPos_valid cfg.linear _ hb hm with h | h
    · exact Or.inl h.1
    · exact Or.inr h.1

theorem upperBound_spec (ho : Order lt) (cfg : Cfg) (t : Tree α) (hw : t.WF cfg) (k : α)
    (hs : t.toList.Pairwise (fun a b => lt b a = false)) :
    t.idxOf (Tree.upperBound lt cfg t k) = upperIdx lt t.toList k ∧ t.ValidPos (Tree.upperBound lt cfg t k) := by
  unfold Tree.upperBound Tree.idxOf Tree.ValidPos Tree.toList
  cases hr : t.root with
  | none => simp [upperIdx]
  | some r =>
    obtain ⟨d, hb⟩ := hw.bal r hr
    simp only [Tree.toList, hr] at hs
    have hm := mono_upper ho k hs
    refine ⟨by simp only; rw [findPos_idx cfg.linear _ hb hm, firstTrue_upper], ?_⟩
    rcases findPos_valid cfg.linear _ hb hm with h | h
    · exact Or.inl h.1
    · exact Or.inr h.1

/-- `pvIsGreater(iter, key)` in terms of the in-order list -/
theorem isGreater_spec (t : Tree α) (cfg : Cfg) (hw : t.WF cfg) (pos : Pos) (hv : t.ValidPos pos) (k : α) :
    Tree.isGreater lt t pos k = (match t.toList[t.idxOf pos]? with
      | some x => lt k x
      | none => true) := by
  unfold Tree.isGreater Tree.endPos Tree.elemAt? Tree.idxOf Tree.toList
  unfold Tree.ValidPos at hv
  cases hr : t.root with
  | none => simp
  | some r =>
    obtain ⟨d, hb⟩ := hw.bal r hr
    simp only [hr] at hv ⊢
    rcases hv with hv | rfl
    · have hne := validElem_ne_end hv
      obtain ⟨x, hx⟩ := validElem_elemAt hv
      have hx' := elemAt_toList hb _ _ x hx
      have hpp : (⟨pos.path, pos.idx⟩ : Pos) = pos := rfl
      rw [hpp] at hx
      simp [hne, hx, hx']
    · have := idxOf_endPos hb
      simp only [if_true]
      rw [this]
      simp [size]

end search

/-! ### iteration -/

theorem tree_traverse_spec (cfg : Cfg) (t : Tree α) (hw : t.WF cfg) : t.traverse = t.toList := by
  cases t with
  | mk root count =>
    cases root with
    | none =>
      have : count = 0 := by simpa [Tree.toList] using hw.count
      subst this; simp [Tree.traverse, Tree.traverse.go, Tree.toList]
    | some r =>
      obtain ⟨d, hb⟩ := hw.bal r rfl
      simpa [Tree.toList] using traverse_eq hb count (by simpa [Tree.toList, size] using hw.count)

theorem tree_traverseBack_spec (cfg : Cfg) (t : Tree α) (hw : t.WF cfg) : t.traverseBack = t.toList.reverse := by
  cases t with
  | mk root count =>
    cases root with
    | none =>
      have : count = 0 := by simpa [Tree.toList] using hw.count
      subst this; simp [Tree.traverseBack, Tree.traverseBack.go, Tree.toList]
    | some r =>
      obtain ⟨d, hb⟩ := hw.bal r rfl
      have hc : count = size r := by simpa [Tree.toList, size] using hw.count
      unfold Tree.traverseBack
      simp only [Tree.endPos]
      rw [traverseBack_go hb count count (Node.endPos r) (Or.inr rfl) (by rw [idxOf_endPos hb]; omega), idxOf_endPos hb]
      simp [Tree.toList, size]

theorem tree_next_spec (cfg : Cfg) (t : Tree α) (hw : t.WF cfg) (pos : Pos) (hv : t.ValidElem pos) :
    t.idxOf (t.next pos) = t.idxOf pos + 1 ∧ t.ValidPos (t.next pos) := by
  unfold Tree.ValidElem at hv
  unfold Tree.idxOf Tree.next Tree.ValidPos
  cases hr : t.root with
  | none => simp [hr] at hv
  | some r =>
    obtain ⟨d, hb⟩ := hw.bal r hr
    simp only [hr] at hv ⊢
    exact BTree.next_spec hb pos.path pos.idx hv

theorem tree_prev_spec (cfg : Cfg) (t : Tree α) (hw : t.WF cfg) (pos : Pos) (hv : t.ValidPos pos)
    (hpos : 0 < t.idxOf pos) : t.idxOf (t.prev pos) + 1 = t.idxOf pos ∧ t.ValidElem (t.prev pos) := by
  unfold Tree.ValidPos at hv
  unfold Tree.idxOf at hpos ⊢
  unfold Tree.prev Tree.ValidElem
  cases hr : t.root with
  | none => simp [hr] at hpos
  | some r =>
    obtain ⟨d, hb⟩ := hw.bal r hr
    simp only [hr] at hv hpos ⊢
    obtain ⟨m, hm, hi⟩ := validPos_slot hv
    exact BTree.prev_spec hb pos.path pos.idx hm hi hpos

theorem tree_begin_end_spec (cfg : Cfg) (t : Tree α) (hw : t.WF cfg) :
    t.idxOf t.beginPos = 0 ∧ t.ValidPos t.beginPos ∧ t.idxOf t.endPos = t.toList.length ∧ t.ValidPos t.endPos := by
  unfold Tree.idxOf Tree.beginPos Tree.endPos Tree.ValidPos Tree.toList
  cases hr : t.root with
  | none => simp
  | some r =>
    obtain ⟨d, hb⟩ := hw.bal r hr
    obtain ⟨b1, b2⟩ := beginPos_spec hb
    exact ⟨b1, b2, by simpa [size] using idxOf_endPos hb, Or.inr rfl⟩

theorem tree_elemAt_spec (cfg : Cfg) (t : Tree α) (hw : t.WF cfg) (pos : Pos) (hv : t.ValidElem pos) :
    ∃ x, t.elemAt? pos = some x ∧ t.toList[t.idxOf pos]? = some x := by
  unfold Tree.ValidElem at hv
  unfold Tree.elemAt? Tree.toList Tree.idxOf
  cases hr : t.root with
  | none => simp [hr] at hv
  | some r =>
    obtain ⟨d, hb⟩ := hw.bal r hr
    simp only [hr] at hv ⊢
    obtain ⟨x, hx⟩ := validElem_elemAt hv
    exact ⟨x, hx, elemAt_toList hb _ _ x hx⟩

/-! ### `pvAdd` -/

theorem tree_add_spec (cfg : Cfg) (hmax : 0 < cfg.maxCap) (t : Tree α) (hw : t.WF cfg) (pos : Pos)
    (hv : t.ValidPos pos) (x : α) :
    (t.add cfg pos x).1.toList = t.toList.insertIdx (t.idxOf pos) x ∧ (t.add cfg pos x).1.WF cfg ∧
    (t.add cfg pos x).1.idxOf (t.add cfg pos x).2 = t.idxOf pos ∧ (t.add cfg pos x).1.ValidElem (t.add cfg pos x).2 := by
  unfold Tree.ValidPos at hv
  unfold Tree.add Tree.idxOf Tree.toList
  cases hr : t.root with
  | none =>
    have hc : t.count = 0 := by simpa [Tree.toList, hr] using hw.count
    simp only [hr] at hv ⊢
    have hl := leafCap_bounds cfg 0 0 (Nat.zero_le _)
    have hl1 := leafCap_bounds cfg 0 1 (by omega)
    refine ⟨by simp, ⟨by simp [Tree.toList, hc], ?_, ?_⟩, by simp, ?_⟩
    · intro r h; cases h; exact ⟨0, Bal.leaf _ _⟩
    · intro r h; cases h
      refine Caps.leaf _ _ ?_ hl.2
      -- a fresh leaf has room for one item: `leafCap cfg 0 0 ≥ 1`
      unfold leafCap
      split
      · simp; omega
      · have : cfg.step * min ((cfg.maxCap - 0) / cfg.step) (lastLeafPool cfg) ≤ cfg.maxCap / 2 := by
          simp only [lastLeafPool, Extracted.treeLeafPoolDivisor, Nat.sub_zero]
          calc cfg.step * min (cfg.maxCap / cfg.step) (cfg.maxCap / (2 * cfg.step))
              ≤ cfg.step * (cfg.maxCap / (2 * cfg.step)) := Nat.mul_le_mul_left _ (Nat.min_le_right _ _)
            _ = cfg.step * (cfg.maxCap / 2 / cfg.step) := by rw [Nat.div_div_eq_div_mul]
            _ ≤ cfg.maxCap / 2 := Nat.mul_div_le _ _
        simp only [List.length_singleton]; omega
    · simp only [Tree.ValidElem]
      refine ⟨_, nodeAt?_nil _, ?_⟩
      simp [Node.count]
  | some r =>
    obtain ⟨d, hb⟩ := hw.bal r hr
    simp only [hr] at hv ⊢
    obtain ⟨m, hm, hi⟩ := validPos_slot hv
    obtain ⟨a, b, c, v⟩ := addRoot_spec cfg x hmax hb pos hm hi
    refine ⟨a, ⟨?_, ?_, ?_⟩, c, v⟩
    · simp only [Tree.toList, a]
      have hk := validPos_idx_le hb hv
      rw [List.length_insertIdx_of_le_length (by simpa [size] using hk)]
      have := hw.count; simp only [Tree.toList, hr] at this; omega
    · intro r' h; cases h
      rcases b with b | b
      · exact ⟨d, b⟩
      · exact ⟨d+1, b⟩
    · intro r' h; cases h
      exact addRoot_caps cfg x hmax hb (hw.caps r hr) pos hm hi

/-! ### `Remove(iter)` -/

theorem tree_remove_spec (cfg : Cfg) (t : Tree α) (hw : t.WF cfg) (pos : Pos) (hv : t.ValidElem pos) :
    (t.remove cfg pos).1.toList = t.toList.eraseIdx (t.idxOf pos) ∧ (t.remove cfg pos).1.WF cfg ∧
    (t.remove cfg pos).1.idxOf (t.remove cfg pos).2 = t.idxOf pos ∧ (t.remove cfg pos).1.ValidPos (t.remove cfg pos).2 := by
  unfold Tree.ValidElem at hv
  unfold Tree.remove Tree.idxOf Tree.toList
  cases hr : t.root with
  | none => simp [hr] at hv
  | some r =>
    obtain ⟨d, hb⟩ := hw.bal r hr
    simp only [hr] at hv ⊢
    obtain ⟨a, b, c, v, f⟩ := removeAt_spec cfg hb pos hv
    refine ⟨a, ⟨?_, fun r' h => by cases h; exact b, fun r' h => by cases h; exact f (hw.caps r hr)⟩, c, v⟩
    simp only [Tree.toList, a]
    have hk := idxOf_lt_size hb _ _ hv
    rw [List.length_eraseIdx_of_lt (by simpa [size] using hk)]
    have := hw.count; simp only [Tree.toList, hr] at this; omega

/-! ### `ResetKey` -/

theorem tree_resetKey_spec (cfg : Cfg) (t : Tree α) (hw : t.WF cfg) (pos : Pos) (hv : t.ValidElem pos) (x : α) :
    (t.resetKey pos x).toList = t.toList.set (t.idxOf pos) x ∧ (t.resetKey pos x).WF cfg := by
  unfold Tree.ValidElem at hv
  unfold Tree.resetKey Tree.idxOf Tree.toList
  cases hr : t.root with
  | none => simp [hr] at hv
  | some r =>
    obtain ⟨d, hb⟩ := hw.bal r hr
    simp only [hr] at hv ⊢
    obtain ⟨m, hm, hi⟩ := hv
    have hbm := (hb.nodeAt hm).1
    -- the modified node: same shape, item `idx` replaced
    have key : Bal (d - pos.path.length) (setItem pos.idx x m) ∧
        Node.toList (setItem pos.idx x m) = (Node.toList m).set (Node.idxOf m [] pos.idx) x ∧
        (∀ maxCap, Caps maxCap m → Caps maxCap (setItem pos.idx x m)) := by
      cases m with
      | leaf cap is =>
        refine ⟨?_, by simp [setItem], ?_⟩
        · have := hbm.leaf_depth; rw [this]; exact Bal.leaf _ _
        · intro maxCap hc; cases hc with
          | leaf _ _ h1 h2 => exact Caps.leaf _ _ (by simpa using h1) h2
      | inner is cs =>
        obtain ⟨dm, hdm, hall⟩ := hbm.inner_depth
        have hlen := hbm.inner_len
        simp only [Node.count] at hi
        refine ⟨?_, ?_, ?_⟩
        · rw [hdm]; exact Bal.inner dm _ _ (by simpa using hlen) hall
        · obtain ⟨c, hc⟩ := getElem?_of_lt (l := cs) (i := pos.idx) (by omega)
          obtain ⟨y, hy⟩ := getElem?_of_lt hi
          have h1 := inter_split cs is pos.idx c hc hlen
          have h2 := inter_split cs (is.set pos.idx x) pos.idx c hc (by simpa using hlen)
          have hd : is.drop pos.idx = y :: is.drop (pos.idx + 1) := by
            rw [List.drop_eq_getElem_cons hi]; congr 1
            rw [List.getElem?_eq_getElem hi] at hy; exact Option.some.inj hy
          have hd' : (is.set pos.idx x).drop pos.idx = x :: is.drop (pos.idx + 1) := by
            rw [List.drop_eq_getElem_cons (by simpa using hi)]; simp [List.drop_set_of_lt]
          simp only [setItem]
          rw [toList_inner, toList_inner, h2, h1, idxOf_inner_nil, sum_take_succ cs _ c hc]
          have hpl := preOf_length cs is pos.idx (by omega) hlen
          have hp2 : preOf cs (is.set pos.idx x) pos.idx = preOf cs is pos.idx := by
            simp [preOf, List.take_set_of_le]
          simp only [postOf, hd, hd', hp2]
          have : ((cs.take pos.idx).map (fun c => size c)).sum + size c + pos.idx =
              (preOf cs is pos.idx ++ Node.toList c).length := by simp [hpl, size]; omega
          rw [this, List.set_append_right _ _ (Nat.le_refl _)]; simp
        · intro maxCap hc; cases hc with
          | inner _ _ h1 h2 => exact Caps.inner _ _ (by simpa using h1) h2
    obtain ⟨hbm', htl, hcaps⟩ := key
    obtain ⟨pre, post, e1, e2, e3, e4, e5, e6, e7⟩ := modifyAt_spec hb pos.path hm (setItem pos.idx x) hbm'
    refine ⟨?_, ⟨?_, fun r' h => by cases h; exact ⟨d, e4⟩,
      fun r' h => by cases h; exact e7 _ (hw.caps r hr) (hcaps _ (capsAt (hw.caps r hr) pos.path hm))⟩⟩
    · rw [e3, htl, e1, idxOf_eq_offset r _ pos.path pos.idx hm, ← e2]
      have hlt : Node.idxOf m [] pos.idx < (Node.toList m).length := by
        have := idxOf_lt_size hbm [] pos.idx ⟨m, by simp, hi⟩; simpa [size] using this
      have h3 : (pre ++ Node.toList m ++ post) = pre ++ (Node.toList m ++ post) := by simp
      rw [h3, List.set_append_right _ _ (Nat.le_add_right _ _), Nat.add_sub_cancel_left,
        List.set_append_left _ _ hlt]
      simp
    · have h1 := hw.count
      simp only [Tree.toList, hr] at h1 ⊢
      rw [e3, htl, h1, e1]; simp

end Momo.BTree
