import Momo.Proof.PoolLayout
/-!
  Geometry of one `MemPool` buffer (C09): where blocks and metadata lie relative to one another and to
  the memory obtained from the memory manager; the single-block form.  Core lemmas and `omega` only.
-/
namespace Momo.Pool

/-- the byte ranges `[a, a+la)` and `[b, b+lb)` do not overlap -/
def Disj (a la b lb : Int) : Prop := a + la ≤ b ∨ b + lb ≤ a
/-- `[a, a+la)` lies in `[lo, hi)` -/
def Inside (a la lo hi : Int) : Prop := lo ≤ a ∧ a + la ≤ hi

theorem lowBit_table : ∀ a : Nat, a < 1025 → 0 < a →
    0 < min maxAllocAlignment (lowBit a) ∧ min maxAllocAlignment (lowBit a) ∣ a := by
  decide +kernel

theorem allocAlign_spec (P : Params) (hA : 0 < P.A) (hA2 : P.A ≤ 1024) :
    0 < P.allocAlign ∧ P.allocAlign ∣ P.A ∧ P.allocAlign ≤ 16 := by
  obtain ⟨a, ha⟩ : ∃ a : Nat, P.A = (a : Int) := ⟨P.A.toNat, by omega⟩
  have h1 := lowBit_table a (by omega) (by omega)
  have h16 : min maxAllocAlignment (lowBit a) ≤ 16 := Nat.min_le_left _ _
  unfold Params.allocAlign
  rw [ha]; simp only [Int.toNat_natCast, Int.ofNat_eq_natCast]
  generalize min maxAllocAlignment (lowBit a) = m at h1 h16
  refine ⟨?_, ?_, ?_⟩
  · have := h1.1; omega
  · exact Int.natCast_dvd_natCast.mpr h1.2
  · omega

theorem ceilTo_le (x m g : Int) (hg : 0 < g) (hm : 0 < m) (hgm : g ∣ m) (hgx : g ∣ x) :
    x ≤ ceilTo x m ∧ ceilTo x m ≤ x + m - g ∧ ceilTo x m % m = 0 := by
  have hc0 : ceilTo x m % m = 0 := by unfold ceilTo; exact Int.mul_emod_left _ _
  have hc1 : x ≤ ceilTo x m ∧ ceilTo x m < x + m := by
    unfold ceilTo
    have := Int.emod_add_mul_ediv (x + m - 1) m
    have h2 := Int.emod_lt_of_pos (x + m - 1) hm
    have h2' := Int.emod_nonneg (x + m - 1) (by omega : m ≠ 0)
    have h3 : (x + m - 1) / m * m = m * ((x + m - 1) / m) := Int.mul_comm _ _
    omega
  refine ⟨hc1.1, ?_, hc0⟩
  have hgc : g ∣ ceilTo x m := Int.dvd_trans hgm (Int.dvd_of_emod_eq_zero hc0)
  obtain ⟨t, ht⟩ := hgm
  obtain ⟨s, hs⟩ := Int.dvd_sub hgc hgx
  have hlt : g * s < g * t := by omega
  have hst : s < t := Int.lt_of_mul_lt_mul_left hlt (by omega)
  have : g * (s + 1) ≤ g * t := Int.mul_le_mul_of_nonneg_left (by omega) (by omega)
  rw [Int.mul_add] at this
  omega

end Momo.Pool

namespace Momo.Pool
namespace Multi
variable {P : Params} {k : Int} (h : Multi P k)
include h

theorem S_div_A : P.S / P.A = k := by
  rw [h.hS, Int.mul_ediv_cancel_left _ (by have := h.hA; omega)]

theorem A_dvd_S : P.A ∣ P.S := ⟨k, h.hS⟩

theorem getBlock_aligned (buf i : Int) (hb : buf % P.A = 0) : getBlock P buf i % P.A = 0 := by
  have h1 : P.A ∣ buf := Int.dvd_of_emod_eq_zero hb
  have h2 : P.A ∣ i * P.S := Int.dvd_trans h.A_dvd_S (Int.dvd_mul_left _ _)
  apply Int.emod_eq_zero_of_dvd
  unfold getBlock
  split
  · exact Int.dvd_add (Int.dvd_add h1 h2) (Int.dvd_refl _)
  · simpa using Int.dvd_add h1 h2

/-- where the blocks of a buffer lie: between `buf + first * S` and `blocksEnd`, outside the gap
    `[buf, buf + A)` that holds the near metadata -/
theorem block_geometry (buf first i : Int) (hf : -P.N < first) (hi : first ≤ i)
    (hi2 : i < first + P.N) :
    buf + first * P.S ≤ getBlock P buf i ∧ getBlock P buf i + P.S ≤ blocksEnd P buf first ∧
    (getBlock P buf i + P.S ≤ buf ∨ buf + P.A ≤ getBlock P buf i) := by
  have hS := h.S_pos; have hA := h.hA
  have m1 : first * P.S ≤ i * P.S := Int.mul_le_mul_of_nonneg_right hi (by omega)
  have m2 : (i + 1) * P.S ≤ (P.N + first) * P.S := Int.mul_le_mul_of_nonneg_right (by omega) (by omega)
  rw [Int.add_mul, Int.one_mul] at m2
  have e : P.S * (P.N + first) = (P.N + first) * P.S := Int.mul_comm _ _
  unfold getBlock blocksEnd
  rw [e]
  by_cases hs : 0 ≤ i
  · rw [if_pos hs]
    have m3 : 0 ≤ i * P.S := Int.mul_nonneg hs (by omega)
    refine ⟨by omega, by omega, Or.inr (by omega)⟩
  · rw [if_neg hs]
    have m3 : (i + 1) * P.S ≤ 0 * P.S := Int.mul_le_mul_of_nonneg_right (by omega) (by omega)
    rw [Int.add_mul, Int.one_mul, Int.zero_mul] at m3
    have m4 : 0 ≤ (P.N + first) * P.S := Int.mul_nonneg (by omega) (by omega)
    refine ⟨by omega, by omega, Or.inl (by omega)⟩

/-- blocks are laid out in index order without overlap -/
theorem block_order (buf i j : Int) (hij : i < j) : getBlock P buf i + P.S ≤ getBlock P buf j := by
  have hS := h.S_pos; have hA := h.hA
  have m2 : (i + 1) * P.S ≤ j * P.S := Int.mul_le_mul_of_nonneg_right (by omega) (by omega)
  rw [Int.add_mul, Int.one_mul] at m2
  unfold getBlock
  split <;> split <;> omega


theorem blocksEnd_ge (buf first : Int) (hf : -P.N < first) : buf + P.A ≤ blocksEnd P buf first := by
  have hS := h.S_pos
  have : 0 ≤ P.S * (P.N + first) := Int.mul_nonneg (by omega) (by omega)
  unfold blocksEnd; omega

/-- every metadata field lies either in the gap `[buf, buf + A)` or behind the blocks -/
theorem meta_geometry (buf first : Int) (hf : -P.N < first) :
    ∀ r ∈ metaRanges P buf first,
      (buf ≤ r.1 ∧ r.1 + r.2 ≤ buf + P.A) ∨
      (blocksEnd P buf first ≤ r.1 ∧ r.1 + r.2 ≤ metaEnd P buf first) := by
  have hA := h.hA
  have hE := h.blocksEnd_ge buf first hf
  intro r hr
  simp only [metaRanges, List.mem_cons, List.mem_nil_iff, or_false] at hr
  by_cases hn : P.A ≥ sizeofBufferBytes + 1
  · have hb : P.bytesNear = true := by simp [Params.bytesNear, hn]
    rcases hr with rfl | rfl | rfl | rfl | rfl <;>
      simp only [bytesPos, prevPos, nextPos, beginOffPos, metaEnd, hb, ↓reduceIte] <;>
      simp only [sizeofBufferBytes, sizeofPtr, sizeofU16] at * <;> omega
  · have hb : P.bytesNear = false := by simp [Params.bytesNear, hn]
    rcases hr with rfl | rfl | rfl | rfl | rfl <;>
      simp only [bytesPos, prevPos, nextPos, beginOffPos, metaEnd, hb, Bool.false_eq_true, ↓reduceIte] <;>
      simp only [sizeofBufferBytes, sizeofPtr, sizeofU16] at * <;> omega

/-- the metadata fields do not overlap one another -/
theorem meta_pairwise (buf first : Int) (hf : -P.N < first) :
    (metaRanges P buf first).Pairwise (fun r s => Disj r.1 r.2 s.1 s.2) := by
  have hA := h.hA
  have hE := h.blocksEnd_ge buf first hf
  by_cases hn : P.A ≥ sizeofBufferBytes + 1
  · have hb : P.bytesNear = true := by simp [Params.bytesNear, hn]
    simp only [metaRanges, List.pairwise_cons, List.mem_cons, List.mem_nil_iff, or_false, forall_eq_or_imp,
      forall_eq, List.Pairwise.nil, and_true, Disj, bytesPos, prevPos, nextPos, beginOffPos, hb, ↓reduceIte,
      implies_true, List.not_mem_nil, false_implies]
    simp only [sizeofBufferBytes, sizeofPtr, sizeofU16] at *
    omega
  · have hb : P.bytesNear = false := by simp [Params.bytesNear, hn]
    simp only [metaRanges, List.pairwise_cons, List.mem_cons, List.mem_nil_iff, or_false, forall_eq_or_imp,
      forall_eq, List.Pairwise.nil, and_true, Disj, bytesPos, prevPos, nextPos, beginOffPos, hb,
      Bool.false_eq_true, ↓reduceIte, implies_true, List.not_mem_nil, false_implies]
    simp only [sizeofBufferBytes, sizeofPtr, sizeofU16] at *
    omega

/-- **`pvNewBuffer` stays inside the memory it obtained.** If the address returned by the memory manager is
    aligned as the pool assumes (`allocAlign`), everything the buffer uses - from its lowest block to its
    last metadata byte - lies in `[base, base + pvGetBufferSize())`, and the begin offset fits 16 bits. -/
theorem newBuffer_inside (base : Int) (hA2 : P.A ≤ 1024) (hbase : P.allocAlign ∣ base) :
    base ≤ (newBuffer P base).buf + (newBuffer P base).first * P.S ∧
    metaEnd P (newBuffer P base).buf (newBuffer P base).first ≤ base + P.bufferSize ∧
    0 ≤ (newBuffer P base).beginOffset ∧ (newBuffer P base).beginOffset < 4 * P.A ∧
    getBlock P (newBuffer P base).buf (newBuffer P base).first - (newBuffer P base).beginOffset = base := by
  have hA := h.hA; have hS := h.S_pos; have hk := h.hk
  obtain ⟨hg0, hgA, _⟩ := allocAlign_spec P hA hA2
  obtain ⟨hc1, hc2, _⟩ := ceilTo_le base P.A P.allocAlign hg0 hA hgA hbase
  obtain ⟨_, hi1, hi2, _, hgb, hlo, hbb, _, hup⟩ := h.firstBlock_ok base
  have hkm : 0 ≤ k % 2 ∧ k % 2 < 2 := ⟨Int.emod_nonneg _ (by omega), Int.emod_lt_of_pos _ (by omega)⟩
  have e2 : (2 + k % 2) * P.A = 2 * P.A + (k % 2) * P.A := Int.add_mul _ _ _
  have e3 : 0 ≤ (k % 2) * P.A ∧ (k % 2) * P.A ≤ 1 * P.A :=
    ⟨Int.mul_nonneg hkm.1 (by omega), Int.mul_le_mul_of_nonneg_right (by omega) (by omega)⟩
  simp only [newBuffer]
  generalize hb : firstBlock P base = b at *
  generalize hbuf : blockBuf P b = buf at *
  generalize hfi : blockIdx P b = first at *
  have eN : P.S * (P.N + first) = P.N * P.S + first * P.S := by
    rw [Int.mul_add, Int.mul_comm P.S P.N, Int.mul_comm P.S first]
  refine ⟨?_, ?_, by omega, ?_, by rw [hgb]; omega⟩
  · by_cases h0 : first = 0
    · rw [if_pos h0] at hlo; rw [h0]; omega
    · rw [if_neg h0] at hlo; exact hlo
  · unfold metaEnd beginOffPos nextPos prevPos blocksEnd Params.bufferSize Params.alignAddend
    rw [h.S_div_A, eN, show ((Extracted.poolBufSizeAlignMul : Nat) : Int) = 2 from rfl]
    simp only [sizeofBufferBytes, sizeofPtr, sizeofU16]
    by_cases h0 : first = 0
    · rw [if_pos h0] at hup
      have : b = buf + P.A := by rw [← hgb, h0]; simp [getBlock]
      rw [h0]; split <;> omega
    · rw [if_neg h0] at hup
      have : b = buf + first * P.S := by
        rw [← hgb]; unfold getBlock; rw [if_neg (by omega)]; omega
      split <;> omega
  · omega

end Multi
end Momo.Pool

namespace Momo.Pool

/-- **single-block form (`pvNewBlock1`).** The block is aligned, starts at or after `base`, the stored 16-bit
    offset leads back to `base`, and block plus offset bytes fit into `pvGetBufferSize1()` -/
theorem newBlock1_ok (P : Params) (base : Int) (hA : 0 < P.A) (hA2 : P.A ≤ 1024)
    (hbase : P.allocAlign ∣ base) :
    (newBlock1 P base).1 % P.A = 0 ∧ base ≤ (newBlock1 P base).1 ∧
    0 ≤ (newBlock1 P base).2 ∧ (newBlock1 P base).2 ≤ P.alignAddend ∧
    (newBlock1 P base).2 < (Extracted.poolOffsetLimit1 : Int) ∧
    (newBlock1 P base).1 + P.S + sizeofU16 ≤ base + P.bufferSize1 ∧
    (newBlock1 P base).1 - (newBlock1 P base).2 = base := by
  obtain ⟨hg0, hgA, _⟩ := allocAlign_spec P hA hA2
  obtain ⟨hc1, hc2, hc3⟩ := ceilTo_le base P.A P.allocAlign hg0 hA hgA hbase
  simp only [newBlock1, Params.bufferSize1, Params.alignAddend, Extracted.poolOffsetLimit1, sizeofU16]
  refine ⟨hc3, hc1, by omega, by omega, by omega, by omega, by omega⟩

/-- `blockCount == 1` with `pvGetAlignmentAddend() == 0`: the manager's address is itself aligned -/
theorem plain_single_ok (P : Params) (base : Int) (hA : 0 < P.A) (hA2 : P.A ≤ 1024)
    (hbase : P.allocAlign ∣ base) (h0 : P.alignAddend = 0) : base % P.A = 0 := by
  have : P.allocAlign = P.A := by unfold Params.alignAddend at h0; omega
  rw [this] at hbase
  exact Int.emod_eq_zero_of_dvd hbase


/-- all layout facts of one buffer at once (used by `C09_blocks_disjoint_inside`) -/
theorem Multi.buffer_layout_ok {P : Params} {k : Int} (hM : Multi P k) (hA2 : P.A ≤ 1024) (base : Int)
    (hbase : P.allocAlign ∣ base) (buf first : Int) (hbuf : buf = (newBuffer P base).buf)
    (hfirst : first = (newBuffer P base).first) :
    (∀ i, first ≤ i → i < first + P.N →
        getBlock P buf i % P.A = 0 ∧ Inside (getBlock P buf i) P.S base (base + P.bufferSize) ∧
        (∀ j, first ≤ j → j < first + P.N → i ≠ j → Disj (getBlock P buf i) P.S (getBlock P buf j) P.S) ∧
        (∀ r ∈ metaRanges P buf first, Disj (getBlock P buf i) P.S r.1 r.2)) ∧
    (∀ r ∈ metaRanges P buf first, Inside r.1 r.2 base (base + P.bufferSize)) ∧
    (metaRanges P buf first).Pairwise (fun r s => Disj r.1 r.2 s.1 s.2) ∧
    0 ≤ (newBuffer P base).beginOffset ∧
    (newBuffer P base).beginOffset < 2 ^ Extracted.poolBeginOffsetLog ∧
    getBlock P buf first - (newBuffer P base).beginOffset = base := by
  subst hbuf hfirst
  obtain ⟨hlo, hhi, ho0, ho1, hoff⟩ := hM.newBuffer_inside base hA2 hbase
  obtain ⟨_, hf1, hf2, hok, _⟩ := hM.firstBlock_ok base
  have hf1' : -P.N < (newBuffer P base).first := hf1
  have hf2' : (newBuffer P base).first ≤ 0 := hf2
  have hok' : BufOK P (newBuffer P base).buf := hok
  clear hf1 hf2 hok
  have hS := hM.S_pos; have hA := hM.hA
  have hmeta := hM.meta_geometry (newBuffer P base).buf (newBuffer P base).first hf1'
  have hE := hM.blocksEnd_ge (newBuffer P base).buf (newBuffer P base).first hf1'
  have hmEnd : blocksEnd P (newBuffer P base).buf (newBuffer P base).first ≤ metaEnd P (newBuffer P base).buf (newBuffer P base).first := by
    simp only [metaEnd, beginOffPos, nextPos, prevPos, sizeofPtr, sizeofU16, sizeofBufferBytes]
    split <;> omega
  refine ⟨?_, ?_, hM.meta_pairwise (newBuffer P base).buf (newBuffer P base).first hf1', ho0, ?_, hoff⟩
  · intro i hi hi2
    obtain ⟨g1, g2, g3⟩ := hM.block_geometry (newBuffer P base).buf (newBuffer P base).first i hf1' hi hi2
    refine ⟨hM.getBlock_aligned (newBuffer P base).buf i hok'.aligned, ⟨by omega, by omega⟩, ?_, ?_⟩
    · intro j _ _ hij
      rcases Int.lt_or_gt_of_ne hij with hlt | hgt
      · exact Or.inl (hM.block_order (newBuffer P base).buf i j hlt)
      · exact Or.inr (hM.block_order (newBuffer P base).buf j i hgt)
    · intro r hr
      rcases hmeta r hr with ⟨m1, m2⟩ | ⟨m1, m2⟩
      · rcases g3 with g3 | g3
        · exact Or.inl (by omega)
        · exact Or.inr (by omega)
      · exact Or.inl (by omega)
  · intro r hr
    have hb0 : base ≤ (newBuffer P base).buf := by
      have m : (newBuffer P base).first * P.S ≤ 0 * P.S := Int.mul_le_mul_of_nonneg_right hf2' (by omega)
      omega
    rcases hmeta r hr with ⟨m1, m2⟩ | ⟨m1, m2⟩
    · exact ⟨by omega, by omega⟩
    · exact ⟨by omega, by omega⟩
  · have : P.A ≤ 1024 := hA2
    simp only [Extracted.poolBeginOffsetLog]; omega


end Momo.Pool
