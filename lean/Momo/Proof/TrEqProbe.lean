import Momo.Translated
import Momo.Proof.SegMachine
import Momo.Proof.Probe
/-!
  C13: the search-bound encoders of `BucketOpen2N2` and `BucketOpenN1`/`BucketOpen8` as translated from the headers
  compute the model functions `MP2.upd/dec`, `upd3/dec3/getMax3/enc3` the C13 theorems are about.
  The generated definitions (`Momo.Tr.*`, lean/Momo/Translated.lean) are rewritten by tools/translate.py from the current
  headers on every check; a changed function body makes the equalities below fail to elaborate.
-/
namespace Momo.TrEq
open Momo Momo.Seg

open Momo.Probe

theorem while_shrink (lim : Nat) : ∀ (fuel m e : Nat), e + fuel < 2 ^ 64 →
    Tr.whileN fuel (fun (x : Nat × Nat) => decide (x.1 ≥ lim)) (fun x => (x.1 >>> 1, add64 x.2 1)) (m, e)
      = shrinkLoop lim fuel m e
  | 0, m, e, _ => rfl
  | f+1, m, e, h => by
    rw [Tr.whileN_succ]
    simp only [shrinkLoop, ge_iff_le, decide_eq_true_eq]
    split
    · rw [add64_of_lt (by omega), Nat.shiftRight_eq_div_pow, Nat.pow_one]
      exact while_shrink lim f (m / 2) (e + 1) (by omega)
    · rfl

/-- `pvGetMaxProbe` on the two state bytes = `MP2.dec` on (mantissa, exponent), as long as the decoded
    value is a `size_t` (reachable states: mantissa ≤ 255, exponent ≤ 57 — `C13_state_fits_open2n2`) -/
theorem tr_open2n2_getMaxProbe (m s1 : Nat) (h : m * 2 ^ (s1 >>> 2) < 2 ^ 64) :
    Tr.open2n2_pvGetMaxProbe m s1 = (MP2.mk m (s1 >>> 2)).dec := by
  unfold Tr.open2n2_pvGetMaxProbe MP2.dec
  exact shl64_of_lt h

theorem or_shift2 (a e : Nat) (ha : a < 4) : a ||| (e <<< 2) = a + 4 * e := by
  rw [Nat.or_comm, ← Nat.shiftLeft_add_eq_or_of_lt (by simpa using ha), Nat.shiftLeft_eq]
  omega

/-- the pattern-matching lambdas the translator writes are the projections used in `while_shrink` -/
theorem tr_open2n2_pvUpdate (m s1 p : Nat) (hp0 : 0 < p) (hp : p < 2 ^ 64) (hs : s1 < 256) :
    Tr.open2n2_pvUpdateMaxProbe m s1 p =
      ((shrinkLoop Extracted.open2n2MantLimit 64 (p - 1) 0).1 + 1,
       s1 % 4 + 4 * (shrinkLoop Extracted.open2n2MantLimit 64 (p - 1) 0).2) := by
  unfold Tr.open2n2_pvUpdateMaxProbe
  simp only [Extracted.open2n2MantLimit]
  rw [sub64_of_le (by omega)]
  have hw := while_shrink 255 64 (p - 1) 0 (by decide)
  have hfun1 : (fun (x : Nat × Nat) => match x with | (maxProbe0, maxProbe1) => decide (maxProbe0 ≥ 255)) = (fun (x : Nat × Nat) => decide (x.1 ≥ 255)) := by
    funext x; rfl
  have hfun2 : (fun (x : Nat × Nat) => match x with | (maxProbe0, maxProbe1) => (maxProbe0 >>> 1, add64 maxProbe1 1)) = (fun (x : Nat × Nat) => (x.1 >>> 1, add64 x.2 1)) := by
    funext x; rfl
  simp only [hfun1, hfun2, hw]
  obtain ⟨a, _, _, _⟩ := shrinkLoop_spec 255 64 (p - 1) 0 (by omega)
  obtain ⟨_, hl⟩ := shrinkLoop_last 255 64 (p - 1) 0
  have he : (shrinkLoop 255 64 (p - 1) 0).2 ≤ 57 := by
    generalize shrinkLoop 255 64 (p - 1) 0 = r at *
    apply Decidable.byContradiction
    intro hcon
    have h := hl (by omega)
    simp only [Nat.sub_zero] at h
    have hpow : (2:Nat) ^ 57 ≤ 2 ^ (r.2 - 1) := Nat.pow_le_pow_right (by decide) (by omega)
    have hlt : (p - 1) / 2 ^ (r.2 - 1) < 255 := by
      apply Nat.div_lt_of_lt_mul
      have : (2:Nat) ^ 64 ≤ 2 ^ 57 * 255 := by decide
      have h2 : 2 ^ 57 * 255 ≤ 2 ^ (r.2 - 1) * 255 := Nat.mul_le_mul_right _ hpow
      omega
    omega
  generalize shrinkLoop 255 64 (p - 1) 0 = r at *
  have h3 : s1 &&& 3 = s1 % 4 := Nat.and_two_pow_sub_one_eq_mod s1 2
  have hsh : shl64 r.2 2 = r.2 * 2 ^ 2 := shl64_of_lt (by omega)
  rw [h3, hsh]
  have e1 : r.1 % 256 = r.1 := Nat.mod_eq_of_lt (by omega)
  have e2 : (r.1 + 1) % 256 = r.1 + 1 := Nat.mod_eq_of_lt (by omega)
  have e3 : s1 % 4 % 256 = s1 % 4 := Nat.mod_eq_of_lt (by omega)
  have e4 : r.2 * 2 ^ 2 % 256 = r.2 * 2 ^ 2 := Nat.mod_eq_of_lt (by omega)
  rw [e1, e2, e3, e4]
  have e5 : r.2 * 2 ^ 2 = r.2 <<< 2 := (Nat.shiftLeft_eq _ _).symm
  rw [e5, or_shift2 _ _ (by omega)]
  have e6 : (s1 % 4 + 4 * r.2) % 256 = s1 % 4 + 4 * r.2 := Nat.mod_eq_of_lt (by omega)
  rw [e6]


/-- exponent bound for probes up to 2^63 (a table cannot have more than 2^63 buckets) -/
theorem shrink_e56 (p : Nat) (hp : p ≤ 2 ^ 63) :
    (shrinkLoop 255 64 (p - 1) 0).2 ≤ 56 ∧ (shrinkLoop 255 64 (p - 1) 0).1 < 255 ∧
    ((shrinkLoop 255 64 (p - 1) 0).1 + 1) * 2 ^ (shrinkLoop 255 64 (p - 1) 0).2 < 2 ^ 64 := by
  obtain ⟨a, _, c, _⟩ := shrinkLoop_spec 255 64 (p - 1) 0 (by omega)
  obtain ⟨_, hl⟩ := shrinkLoop_last 255 64 (p - 1) 0
  generalize shrinkLoop 255 64 (p - 1) 0 = r at *
  simp only [Nat.sub_zero] at c hl
  have he : r.2 ≤ 56 := by
    apply Decidable.byContradiction
    intro hcon
    have h := hl (by omega)
    have hpow : (2:Nat) ^ 56 ≤ 2 ^ (r.2 - 1) := Nat.pow_le_pow_right (by decide) (by omega)
    have hlt : (p - 1) / 2 ^ (r.2 - 1) < 255 := by
      apply Nat.div_lt_of_lt_mul
      have : (2:Nat) ^ 63 ≤ 2 ^ 56 * 255 := by decide
      have h2 : 2 ^ 56 * 255 ≤ 2 ^ (r.2 - 1) * 255 := Nat.mul_le_mul_right _ hpow
      omega
    omega
  refine ⟨he, a, ?_⟩
  have h1 : (2:Nat) ^ r.2 ≤ 2 ^ 56 := Nat.pow_le_pow_right (by decide) he
  have h2 : (r.1 + 1) * 2 ^ r.2 ≤ 255 * 2 ^ 56 := Nat.mul_le_mul (by omega) h1
  have : 255 * 2 ^ 56 < 2 ^ 64 := by decide
  omega

/-- state bytes whose decoded bound is a `size_t`: mantissa ≤ 255, exponent ≤ 56 -/
def Fit2 (m s1 : Nat) : Prop := m ≤ 255 ∧ s1 / 4 ≤ 56 ∧ s1 < 256

theorem Fit2.dec_lt {m s1 : Nat} (h : Fit2 m s1) : m * 2 ^ (s1 >>> 2) < 2 ^ 64 := by
  have hsh : s1 >>> 2 = s1 / 4 := by rw [Nat.shiftRight_eq_div_pow]
  rw [hsh]
  have h1 : (2:Nat) ^ (s1 / 4) ≤ 2 ^ 56 := Nat.pow_le_pow_right (by decide) h.2.1
  have h2 : m * 2 ^ (s1 / 4) ≤ 255 * 2 ^ 56 := Nat.mul_le_mul h.1 h1
  have : 255 * 2 ^ 56 < 2 ^ 64 := by decide
  omega

/-- **`BucketOpen2N2::UpdateMaxProbe` as written = the model `MP2.upd`** on the decoded fields
(mantissa = `mState[0]`, exponent = `mState[1] >> 2`); the two low bits of `mState[1]` (item count) are kept.
Probes are displacements in a table, hence ≤ 2^63; beyond 2^64 − 2^57 the real `pvGetMaxProbe` would wrap. -/
theorem tr_open2n2_update (m s1 p : Nat) (hf : Fit2 m s1) (hp : p ≤ 2 ^ 63) :
    (Tr.open2n2_UpdateMaxProbe m s1 p).1 = ((MP2.mk m (s1 / 4)).upd p).m ∧
    (Tr.open2n2_UpdateMaxProbe m s1 p).2 / 4 = ((MP2.mk m (s1 / 4)).upd p).e ∧
    (Tr.open2n2_UpdateMaxProbe m s1 p).2 % 4 = s1 % 4 ∧
    Fit2 (Tr.open2n2_UpdateMaxProbe m s1 p).1 (Tr.open2n2_UpdateMaxProbe m s1 p).2 := by
  have hsh : s1 >>> 2 = s1 / 4 := by rw [Nat.shiftRight_eq_div_pow]
  have hs := hf.2.2
  unfold Tr.open2n2_UpdateMaxProbe MP2.upd
  rw [tr_open2n2_getMaxProbe m s1 hf.dec_lt, hsh]
  simp only [Extracted.open2n2FastLimit, Bool.or_eq_true, decide_eq_true_eq]
  split
  · exact ⟨rfl, rfl, rfl, hf⟩
  · split
    · rename_i h255
      have e : p % 256 = p := Nat.mod_eq_of_lt (by omega)
      refine ⟨e, rfl, rfl, ?_⟩
      show Fit2 (p % 256) s1
      rw [e]; exact ⟨h255, hf.2.1, hs⟩
    · rename_i h0 h255
      have hp0 : 0 < p := by omega
      rw [tr_open2n2_pvUpdate m s1 p hp0 (by omega) hs]
      obtain ⟨he, ha, _⟩ := shrink_e56 p hp
      simp only [Extracted.open2n2MantLimit]
      generalize shrinkLoop 255 64 (p - 1) 0 = r at *
      refine ⟨trivial, ?_, ?_, ?_, ?_, ?_⟩ <;> omega

/-- the state reached by the *translated* `UpdateMaxProbe` from an empty bucket state `(0, c)`, `c < 4` -/
def runOpen2N2 (c : Nat) (ps : List Nat) : Nat × Nat :=
  ps.foldl (fun st p => Tr.open2n2_UpdateMaxProbe st.1 st.2 p) (0, c)

theorem runOpen2N2_rel (c : Nat) (hc : c < 4) (ps : List Nat) (h : ∀ p ∈ ps, p ≤ 2 ^ 63) :
    (runOpen2N2 c ps).1 = (ps.foldl MP2.upd MP2.init).m ∧ (runOpen2N2 c ps).2 / 4 = (ps.foldl MP2.upd MP2.init).e ∧
    (runOpen2N2 c ps).2 % 4 = c ∧ Fit2 (runOpen2N2 c ps).1 (runOpen2N2 c ps).2 := by
  unfold runOpen2N2
  suffices H : ∀ (m s1 : Nat) (s : MP2), s.m = m → s.e = s1 / 4 → Fit2 m s1 →
      let r := ps.foldl (fun st p => Tr.open2n2_UpdateMaxProbe st.1 st.2 p) (m, s1)
      r.1 = (ps.foldl MP2.upd s).m ∧ r.2 / 4 = (ps.foldl MP2.upd s).e ∧ r.2 % 4 = s1 % 4 ∧ Fit2 r.1 r.2 by
    have := H 0 c MP2.init rfl (by simp [MP2.init]; omega) ⟨by omega, by omega, by omega⟩
    simpa [Nat.mod_eq_of_lt hc] using this
  induction ps with
  | nil => intro m s1 s h1 h2 h3; exact ⟨h1.symm, h2.symm, rfl, h3⟩
  | cons a as ih =>
    intro m s1 s h1 h2 h3
    simp only [List.foldl_cons]
    obtain ⟨e1, e2, e3, e4⟩ := tr_open2n2_update m s1 a h3 (h a (by simp))
    have hs : s = ⟨m, s1 / 4⟩ := by cases s; simp_all
    have := ih (fun q hq => h q (by simp [hq])) (Tr.open2n2_UpdateMaxProbe m s1 a).1 (Tr.open2n2_UpdateMaxProbe m s1 a).2
      (s.upd a) (by rw [hs]; exact e1.symm) (by rw [hs]; exact e2.symm) e4
    obtain ⟨r1, r2, r3, r4⟩ := this
    exact ⟨r1, r2, by rw [r3, e3], r4⟩

/-! ### OpenN1 -/

theorem tr_openN1_pvGetMaxProbe (b : Nat) (hb : b < 256) : Tr.openN1_pvGetMaxProbe b = dec3 b := by
  unfold Tr.openN1_pvGetMaxProbe dec3
  simp only [Extracted.openN1MantMask]
  have h7 : b &&& 7 = b % 8 := Nat.and_two_pow_sub_one_eq_mod b 3
  have hs : b >>> 3 = b / 8 := by rw [Nat.shiftRight_eq_div_pow]
  rw [h7, hs, Nat.shiftLeft_eq]
  apply shl64_of_lt
  have h1 : (2:Nat) ^ (b / 8) ≤ 2 ^ 31 := Nat.pow_le_pow_right (by decide) (by omega)
  have h2 : b % 8 * 2 ^ (b / 8) ≤ 7 * 2 ^ 31 := Nat.mul_le_mul (by omega) h1
  have : 7 * 2 ^ 31 < 2 ^ 64 := by decide
  omega

theorem shrink7 (p : Nat) (hp : p < 2 ^ 64) :
    (shrinkLoop 7 64 (p - 1) 0).1 < 7 ∧ (shrinkLoop 7 64 (p - 1) 0).2 ≤ 64 := by
  obtain ⟨a, _, _, _⟩ := shrinkLoop_spec 7 64 (p - 1) 0 (by omega)
  refine ⟨a, ?_⟩
  have : ∀ (fuel m e : Nat), (shrinkLoop 7 fuel m e).2 ≤ e + fuel := by
    intro fuel
    induction fuel with
    | zero => intro m e; simp [shrinkLoop]
    | succ f ih => intro m e; simp only [shrinkLoop]; split
                   · have := ih (m / 2) (e + 1); omega
                   · simp
  have := this 64 (p - 1) 0
  omega

theorem tr_openN1_pvUpdate (b p : Nat) (hp0 : 0 < p) (hp : p < 2 ^ 64) :
    Tr.openN1_pvUpdateMaxProbe b p = enc3 p := by
  unfold Tr.openN1_pvUpdateMaxProbe enc3
  simp only [Extracted.openN1MantLimit, Extracted.openN1ExpLimit, infProbeExp, Extracted.openN1InfProbeExp]
  rw [sub64_of_le (by omega)]
  have hw := while_shrink 7 64 (p - 1) 0 (by decide)
  have hfun1 : (fun (x : Nat × Nat) => match x with | (maxProbe0, maxProbe1) => decide (maxProbe0 ≥ 7)) = (fun (x : Nat × Nat) => decide (x.1 ≥ 7)) := by
    funext x; rfl
  have hfun2 : (fun (x : Nat × Nat) => match x with | (maxProbe0, maxProbe1) => (maxProbe0 >>> 1, add64 maxProbe1 1)) = (fun (x : Nat × Nat) => (x.1 >>> 1, add64 x.2 1)) := by
    funext x; rfl
  simp only [hfun1, hfun2, hw]
  obtain ⟨a, he⟩ := shrink7 p hp
  generalize shrinkLoop 7 64 (p - 1) 0 = r at *
  simp only [decide_eq_true_eq]
  split
  · rename_i h31
    rw [add64_of_lt (by omega), shl64_of_lt (by omega)]
    have e1 : (r.1 + 1) % 256 = r.1 + 1 := Nat.mod_eq_of_lt (by omega)
    have e2 : r.2 * 2 ^ 3 % 256 = r.2 * 2 ^ 3 := Nat.mod_eq_of_lt (by omega)
    have e3 : r.2 * 2 ^ 3 = r.2 <<< 3 := (Nat.shiftLeft_eq _ _).symm
    rw [e1, e2, e3, or_shift3 _ _ (by omega)]
    exact Nat.mod_eq_of_lt (by omega)
  · rfl

theorem tr_openN1_update (b p : Nat) (hb : b < 256) (hp : p < 2 ^ 64) : Tr.openN1_UpdateMaxProbe b p = upd3 b p := by
  unfold Tr.openN1_UpdateMaxProbe upd3
  simp only [decide_eq_true_eq, Bool.or_eq_true, infProbeExp]
  split
  · rfl
  · rename_i h0
    rw [tr_openN1_pvGetMaxProbe b hb]
    split
    · rfl
    · exact tr_openN1_pvUpdate b p (by omega) hp

theorem tr_openN1_getMaxProbe (L b : Nat) (hL : L < 64) (hb : b < 256) : Tr.openN1_GetMaxProbe b L = getMax3 L b := by
  unfold Tr.openN1_GetMaxProbe getMax3
  simp only [decide_eq_true_eq, infProbeExp]
  split
  · rw [shl64_one hL, sub64_of_le (Nat.two_pow_pos L)]
  · exact tr_openN1_pvGetMaxProbe b hb

/-- the byte reached by the *translated* `BucketOpenN1::UpdateMaxProbe` from the cleared state -/
def runOpenN1 (ps : List Nat) : Nat := ps.foldl Tr.openN1_UpdateMaxProbe 0

theorem upd3_lt (b p : Nat) (hb : b < 256) (hp : p < 2 ^ 64) : upd3 b p < 256 := by
  unfold upd3
  split
  · exact hb
  · split
    · exact hb
    · rename_i h0 _
      rcases enc3_spec p (by omega) hp with h | h
      · rw [h]; decide
      · exact h.1

theorem runOpenN1_eq (ps : List Nat) (h : ∀ p ∈ ps, p < 2 ^ 64) :
    runOpenN1 ps = ps.foldl upd3 0 ∧ runOpenN1 ps < 256 := by
  unfold runOpenN1
  suffices H : ∀ b, b < 256 → ps.foldl Tr.openN1_UpdateMaxProbe b = ps.foldl upd3 b ∧ ps.foldl Tr.openN1_UpdateMaxProbe b < 256 from H 0 (by decide)
  induction ps with
  | nil => intro b hb; exact ⟨rfl, hb⟩
  | cons a as ih =>
    intro b hb
    simp only [List.foldl_cons]
    have ha := h a (by simp)
    rw [tr_openN1_update b a hb ha]
    exact ih (fun q hq => h q (by simp [hq])) _ (upd3_lt b a hb ha)

end Momo.TrEq
