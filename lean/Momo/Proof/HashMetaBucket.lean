import Momo.Proof.HashMeta
/-!
  Metadata invariants of one bucket over arbitrary add/remove histories (C12 `meta_inv`, `count_decode`):
  every byte that `GetHashCodePart` would consume for the element at position `i` is the byte `AddCrt` wrote for
  the element that is at position `i` *now* — this is what the compaction rules of `Remove` have to guarantee.
-/
namespace Momo.HashMeta

theorem upd_same (f : Nat → Nat) (i v : Nat) : upd f i v i = v := by simp [upd]
theorem upd_other (f : Nat → Nat) (i v j : Nat) (h : j ≠ i) : upd f i v j = f j := by simp [upd, h]

namespace P4

/-- the usability test of `GetHashCodePart`: `!(uint8_t(hashProbe + 1) <= maskEmpty)` -/
def usable (x : Nat) : Prop := ¬ (u8 (x + 1) ≤ maskEmpty)

theorem maskEmpty_val : maskEmpty = 128 := rfl
theorem emptyHashProbe_val : emptyHashProbe = 255 := rfl

theorem not_usable_lt (x : Nat) (hx : x < 128) : ¬ usable x := by
  unfold usable u8; rw [maskEmpty_val]; omega

theorem not_usable_255 : ¬ usable 255 := by
  unfold usable u8; rw [maskEmpty_val]; omega

structure Inv (b : Bucket) (a : Abs) : Prop where
  hc4 : 4 ≤ b.hc
  mc4 : b.maxCount ≤ 4
  n_le : a.n ≤ b.maxCount
  null0 : b.nonnull = false → a.n = 0
  short : ∀ i, i < a.n → (a.it i).h < 2 ^ 64 ∧ b.sh i = shortHash (a.it i).h
  free : ∀ j, a.n ≤ j → 128 ≤ b.sh j
  probe : ∀ i, i < a.n → usable (b.sh (b.hc - 1 - i)) →
            b.sh (b.hc - 1 - i) = encByte (a.it i).h (a.it i).L (a.it i).p

theorem inv_new (hc maxCount minMpi : Nat) (h4 : 4 ≤ hc) (hm : maxCount ≤ 4) :
    Inv (Bucket.new hc maxCount minMpi) Abs.init := by
  refine ⟨h4, hm, Nat.zero_le _, fun _ => rfl, ?_, ?_, ?_⟩
  · intro i hi; exact absurd hi (Nat.not_lt_zero i)
  · intro j _; simp [Bucket.new, Bucket.empty, emptyHashProbe_val]
  · intro i hi; exact absurd hi (Nat.not_lt_zero i)

theorem inv_short_lt {b : Bucket} {a : Abs} (hi : Inv b a) (i : Nat) (h : i < a.n) : b.sh i < 128 := by
  obtain ⟨h64, he⟩ := hi.short i h
  rw [he]; exact shortHash_lt _ h64

/-- `pvGetCount` decodes the number of elements from the bytes -/
theorem count_decode {b : Bucket} {a : Abs} (hi : Inv b a) : b.count = a.n := by
  have hn : a.n ≤ 4 := Nat.le_trans hi.n_le hi.mc4
  have l0 := inv_short_lt hi 0
  have l1 := inv_short_lt hi 1
  have l2 := inv_short_lt hi 2
  have l3 := inv_short_lt hi 3
  have f0 := hi.free 0
  have f1 := hi.free 1
  have f2 := hi.free 2
  have f3 := hi.free 3
  unfold Bucket.count countOf
  rw [maskEmpty_val]
  split <;> (repeat' split) <;> omega

/-- `IsFull` is `count == maxCount` -/
theorem isFull_decode {b : Bucket} {a : Abs} (hi : Inv b a) (hm : 0 < b.maxCount) :
    b.isFull = decide (a.n = b.maxCount) := by
  unfold Bucket.isFull
  rw [maskEmpty_val]
  by_cases h : a.n = b.maxCount
  · have := inv_short_lt hi (b.maxCount - 1) (by omega)
    simp [h, this]
  · have := hi.free (b.maxCount - 1) (by have := hi.n_le; omega)
    have h2 : ¬ (b.sh (b.maxCount - 1) < 128) := by omega
    simp [h, h2]

theorem inv_add {b : Bucket} {a : Abs} (hi : Inv b a) (h L p : Nat) (hn : a.n < b.maxCount) (h64 : h < 2 ^ 64) :
    Inv (b.addCrt h L p) (a.stepP4 (.add h L p)) := by
  have hcnt := count_decode hi
  have hn4 : a.n < 4 := Nat.lt_of_lt_of_le hn hi.mc4
  have hc4 := hi.hc4
  -- both branches of AddCrt write the same bytes: index = count (= 0 when the pointer is null)
  have hsh : (b.addCrt h L p).sh = upd (setHashProbe b.hc b.sh a.n h L p) a.n (shortHash h) := by
    unfold Bucket.addCrt
    cases hnn : b.nonnull
    · simp [hi.null0 hnn]
    · simp [hcnt]
  have hhc : (b.addCrt h L p).hc = b.hc := by unfold Bucket.addCrt; split <;> rfl
  have hmc : (b.addCrt h L p).maxCount = b.maxCount := by unfold Bucket.addCrt; split <;> rfl
  have hnn' : (b.addCrt h L p).nonnull = true := by
    unfold Bucket.addCrt; cases hnn : b.nonnull <;> simp
  have hencge := (encByte_ge h L p).1
  have hsl := shortHash_lt h h64
  refine ⟨(by rw [hhc]; exact hc4), (by rw [hmc]; exact hi.mc4), (by rw [hmc]; simp only [Abs.stepP4]; omega),
    (fun hf => by rw [hnn'] at hf; cases hf), ?_, ?_, ?_⟩
  · intro i hlt
    simp only [Abs.stepP4] at hlt ⊢
    rw [hsh]
    by_cases hia : i = a.n
    · rw [hia, upd_same]; simp only [if_true]; exact ⟨h64, trivial⟩
    · have hlt' : i < a.n := by omega
      rw [upd_other _ _ _ _ hia]
      simp only [hia, if_false]
      unfold setHashProbe
      split
      · exact hi.short i hlt'
      · rw [upd_other _ _ _ _ (by omega)]; exact hi.short i hlt'
  · intro j hj
    simp only [Abs.stepP4] at hj
    rw [hsh, upd_other _ _ _ _ (by omega)]
    unfold setHashProbe
    split
    · exact hi.free j (by omega)
    · by_cases hje : j = b.hc - 1 - a.n
      · subst hje; rw [upd_same]; exact hencge
      · rw [upd_other _ _ _ _ hje]; exact hi.free j (by omega)
  · intro i hlt
    simp only [Abs.stepP4] at hlt ⊢
    rw [hsh, hhc]
    by_cases hia : i = a.n
    · rw [hia]
      simp only [if_true]
      by_cases hslot : b.hc - 1 - a.n ≤ a.n
      · -- no hash probe is stored for this index: the slot holds a short hash
        intro hu
        exfalso
        by_cases he : b.hc - 1 - a.n = a.n
        · rw [he, upd_same] at hu; exact not_usable_lt _ hsl hu
        · rw [upd_other _ _ _ _ he] at hu
          unfold setHashProbe at hu
          simp only [hslot, if_true] at hu
          exact not_usable_lt _ (inv_short_lt hi _ (by omega)) hu
      · intro _
        rw [upd_other _ _ _ _ (by omega)]
        unfold setHashProbe
        simp only [hslot, if_false, upd_same]
    · have hlt' : i < a.n := by omega
      simp only [hia, if_false]
      intro hu
      by_cases he : b.hc - 1 - i = a.n
      · exfalso; rw [he, upd_same] at hu; exact not_usable_lt _ hsl hu
      · rw [upd_other _ _ _ _ he] at hu ⊢
        unfold setHashProbe at hu ⊢
        split at hu
        · rename_i hs; simp only [hs, if_true]; exact hi.probe i hlt' hu
        · rename_i hs
          simp only [hs, if_false]
          rw [upd_other _ _ _ _ (by omega)] at hu ⊢
          exact hi.probe i hlt' hu

theorem inv_remove {b : Bucket} {a : Abs} (hi : Inv b a) (index : Nat) (hidx : index < a.n) :
    Inv (b.remove index) (a.stepP4 (.rem index)) := by
  have hcnt := count_decode hi
  have hn4 : a.n ≤ 4 := Nat.le_trans hi.n_le hi.mc4
  have hc4 := hi.hc4
  unfold Bucket.remove
  rw [hcnt]
  by_cases h1 : a.n = 1
  · -- the last element leaves: pvSetEmpty
    simp only [h1, if_true]
    refine ⟨hc4, hi.mc4, (by simp [Abs.stepP4, h1, Bucket.empty]), (fun _ => by simp [Abs.stepP4, h1]), ?_, ?_, ?_⟩
    · intro i hlt; simp [Abs.stepP4, h1] at hlt
    · intro j _; simp [Bucket.empty, emptyHashProbe_val]
    · intro i hlt; simp [Abs.stepP4, h1] at hlt
  · simp only [h1, if_false]
    have hn2 : 2 ≤ a.n := by omega
    have hlast : a.n - 1 < a.n := by omega
    have hlastlt := inv_short_lt hi (a.n - 1) hlast
    -- value of a byte after the three writes of `Remove`
    have key : ∀ j, removeBytes b.hc b.sh a.n index j =
        if j = b.hc - 1 - index ∧ b.hc - 1 - index ≥ a.n then (if b.hc - a.n ≥ a.n then b.sh (b.hc - a.n) else 255)
        else if j = a.n - 1 then 255 else if j = index then b.sh (a.n - 1) else b.sh j := by
      intro j
      unfold removeBytes
      by_cases hw : b.hc - 1 - index ≥ a.n
      · simp only [hw, if_true, and_true]
        by_cases hj : j = b.hc - 1 - index
        · subst hj
          rw [upd_same]
          simp only [if_true]
          split
          · rw [upd_other _ _ _ _ (by omega), upd_other _ _ _ _ (by omega)]
          · rfl
        · rw [upd_other _ _ _ _ hj]
          simp only [hj, if_false, upd]
      · simp only [hw, if_false, and_false, upd]
    refine ⟨hc4, hi.mc4, (by simp only [Abs.stepP4]; have := hi.n_le; omega),
      (fun hf => by have := hi.null0 hf; omega), ?_, ?_, ?_⟩
    · intro i hlt
      simp only [Abs.stepP4] at hlt ⊢
      rw [key]
      have e1 : ¬ (i = b.hc - 1 - index ∧ b.hc - 1 - index ≥ a.n) := by omega
      have e2 : ¬ (i = a.n - 1) := by omega
      simp only [e1, e2, if_false]
      by_cases hii : i = index
      · simp only [hii, if_true]; exact hi.short (a.n - 1) hlast
      · simp only [hii, if_false]; exact hi.short i (by omega)
    · intro j hj
      simp only [Abs.stepP4] at hj
      dsimp only
      rw [key]
      split
      · split
        · exact hi.free _ (by omega)
        · omega
      · split
        · omega
        · split
          · omega
          · exact hi.free j (by omega)
    · intro i hlt
      simp only [Abs.stepP4] at hlt ⊢
      rw [key]
      intro hu
      by_cases hii : i = index
      · subst hii
        simp only [if_true] at hu ⊢
        by_cases hw : b.hc - 1 - i ≥ a.n
        · simp only [hw, and_self, if_true] at hu ⊢
          split at hu
          · rename_i hge
            simp only [hge, if_true]
            have e : b.hc - a.n = b.hc - 1 - (a.n - 1) := by omega
            rw [e] at hu ⊢
            exact hi.probe (a.n - 1) hlast hu
          · exact absurd hu not_usable_255
        · exfalso
          simp only [hw, and_false, if_false] at hu
          split at hu
          · exact not_usable_255 hu
          · split at hu
            · exact not_usable_lt _ hlastlt hu
            · exact not_usable_lt _ (inv_short_lt hi _ (by omega)) hu
      · have e1 : ¬ (b.hc - 1 - i = b.hc - 1 - index ∧ b.hc - 1 - index ≥ a.n) := by omega
        simp only [e1, hii, if_false] at hu ⊢
        split at hu
        · exact absurd hu not_usable_255
        · split at hu
          · exact absurd hu (not_usable_lt _ hlastlt)
          · rename_i h2 h3
            simp only [h2, h3, if_false]
            exact hi.probe i (by omega) hu

theorem inv_step {b : Bucket} {a : Abs} (hi : Inv b a) (op : Op) (hl : op.legalP4 b.maxCount a) :
    Inv (b.step op) (a.stepP4 op) := by
  cases op with
  | add h L p => exact inv_add hi h L p hl.1 hl.2
  | rem index => exact inv_remove hi index hl

theorem step_maxCount (b : Bucket) (op : Op) : (b.step op).maxCount = b.maxCount := by
  cases op with
  | add h L p => simp only [Bucket.step, Bucket.addCrt]; split <;> rfl
  | rem index => simp only [Bucket.step, Bucket.remove]; split <;> rfl

theorem inv_hist (ops : List Op) : ∀ (b : Bucket) (a : Abs), Inv b a → legalHistP4 b.maxCount a ops →
    Inv (ops.foldl Bucket.step b) (ops.foldl Abs.stepP4 a) := by
  induction ops with
  | nil => intro b a hi _; exact hi
  | cons op rest ih =>
    intro b a hi hl
    simp only [List.foldl_cons]
    apply ih _ _ (inv_step hi op hl.1)
    rw [step_maxCount]; exact hl.2

end P4

namespace O2

structure Inv (b : Bucket) (a : Abs) : Prop where
  mc3 : b.maxCount ≤ 3
  cnt : b.cnt = a.n
  n_le : a.n ≤ b.maxCount
  live : ∀ i, b.maxCount - a.n ≤ i → i < b.maxCount →
    (a.it i).h < 2 ^ 64 ∧ b.sh i = shortHash (a.it i).h ∧ b.hp i = encByte (a.it i).h (a.it i).L (a.it i).p
  free : ∀ i, i < b.maxCount - a.n → b.sh i = emptyShortHash

theorem inv_new (maxCount : Nat) (hm : maxCount ≤ 3) : Inv (Bucket.new maxCount) Abs.init := by
  refine ⟨hm, rfl, Nat.zero_le _, ?_, ?_⟩
  · intro i h1 h2; simp [Abs.init, Bucket.new] at h1 h2; omega
  · intro i _; rfl

theorem inv_step {b : Bucket} {a : Abs} (hi : Inv b a) (op : Op) (hl : op.legalO2 b.maxCount a) :
    Inv (b.step op) (a.stepO2 b.maxCount op) := by
  cases op with
  | add h L p =>
    obtain ⟨hn, h64⟩ := hl
    simp only [Bucket.step, Bucket.addCrt, Abs.stepO2]
    refine ⟨hi.mc3, (by simp [hi.cnt]), (by simp only; omega), ?_, ?_⟩
    · intro i h1 h2
      simp only [hi.cnt] at h1 h2 ⊢
      by_cases he : i = b.maxCount - 1 - a.n
      · simp [he, upd_same, h64]
      · simp only [he, if_false, upd_other _ _ _ _ he]
        exact hi.live i (by omega) h2
    · intro i h1
      simp only [hi.cnt] at h1 ⊢
      rw [upd_other _ _ _ _ (by omega)]
      exact hi.free i (by omega)
  | rem index =>
    obtain ⟨h1, h2⟩ := hl
    simp only [Bucket.step, Bucket.remove, Abs.stepO2]
    have hn : 0 < a.n := by omega
    have hnle := hi.n_le
    refine ⟨hi.mc3, (by simp [hi.cnt]), (by simp only; omega), ?_, ?_⟩
    · intro i hlo hhi
      simp only [hi.cnt] at hlo hhi ⊢
      have hne : i ≠ b.maxCount - a.n := by omega
      rw [upd_other _ _ _ _ hne]
      by_cases he : i = index
      · subst he
        simp only [if_true, upd_same]
        exact hi.live (b.maxCount - a.n) (Nat.le_refl _) (by have := hi.n_le; omega)
      · simp only [he, if_false, upd_other _ _ _ _ he]
        exact hi.live i (by omega) hhi
    · intro i hlt
      simp only [hi.cnt] at hlt ⊢
      by_cases he : i = b.maxCount - a.n
      · rw [he, upd_same]
      · rw [upd_other _ _ _ _ he, upd_other _ _ _ _ (by omega)]
        exact hi.free i (by omega)

theorem step_maxCount (b : Bucket) (op : Op) : (b.step op).maxCount = b.maxCount := by
  cases op <;> rfl

theorem inv_hist (ops : List Op) : ∀ (b : Bucket) (a : Abs), Inv b a → legalHistO2 b.maxCount a ops →
    Inv (ops.foldl Bucket.step b) (ops.foldl (Abs.stepO2 b.maxCount) a) := by
  induction ops with
  | nil => intro b a hi _; exact hi
  | cons op rest ih =>
    intro b a hi hl
    simp only [List.foldl_cons]
    have := ih _ _ (inv_step hi op hl.1) (by rw [step_maxCount]; exact hl.2)
    rw [step_maxCount] at this
    exact this

end O2

end Momo.HashMeta
