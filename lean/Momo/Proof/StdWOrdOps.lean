import Momo.Proof.StdWOrdBase
/-!
  Lemmas for the C06 history theorem, ordered containers, part 2: every modifying operation of the wrapper model
  (`pvCheckHint` / `pvFind` / `pvInsert` / node handling / `operator[]` / native range insert and merge) yields the
  sequence, position, flag and node-handle contents the specification prescribes, and keeps the order invariant.
-/
namespace Momo.StdW
open Momo.StdWrap List
open Momo.StdSpec hiding Item

/-! ### insert / emplace -/

theorem sInsert_multi (xs : List Item) (x : Item) :
    sInsert true xs x = (insertAt xs (ub x.1 xs) x, ub x.1 xs, true) := by
  simp [sInsert, upperPos_eq, putAt_eq]

theorem sInsert_unique (xs : List Item) (hs : StrictSorted xs) (x : Item) :
    sInsert false xs x = if lb x.1 xs < ub x.1 xs then (xs, lb x.1 xs, false) else (insertAt xs (lb x.1 xs) x, lb x.1 xs, true) := by
  have hsr := strict_sorted xs hs
  have hlu := lb_le_ub x.1 xs
  unfold sInsert
  rw [hasKey_eq xs hsr, upperPos_eq, putAt_eq]
  by_cases h : lb x.1 xs < ub x.1 xs
  · simp [h, findPos_present xs hsr x.1 h]
  · have : ub x.1 xs = lb x.1 xs := by omega
    simp [h, this]

theorem mapInsert_none (multi : Bool) (xs : List Item) (x : Item) : mapInsert multi xs none x = treeInsert multi xs x := by
  unfold treeInsert mapInsert mapFind; rfl

theorem treeInsert_eq (multi : Bool) (xs : List Item) (hs : SortedK multi xs) (x : Item) :
    treeInsert multi xs x = sInsert multi xs x := by
  cases multi with
  | true => rw [sInsert_multi]; simp [treeInsert, treeFind_multi]
  | false =>
    rw [sInsert_unique xs hs.strict, ← mapInsert_none]
    exact (C06_hint_unique_core xs hs.strict none (by intro h hh; cases hh) x)
where
  /-- `mapInsert false … hint` in canonical form (the first part of `C06_hint_unique`, re-proved here because Props files
      are not imported by Proof files) -/
  C06_hint_unique_core (xs : List Item) (hs : StrictSorted xs) (hint : Option Nat)
      (hl : ∀ h, hint = some h → h ≤ xs.length) (x : Item) :
      mapInsert false xs hint x =
        (if lb x.1 xs < ub x.1 xs then (xs, lb x.1 xs, false) else (insertAt xs (lb x.1 xs) x, lb x.1 xs, true)) := by
    have hlu := lb_le_ub x.1 xs
    have hnone : mapInsert false xs none x =
        (if lb x.1 xs < ub x.1 xs then (xs, lb x.1 xs, false) else (insertAt xs (lb x.1 xs) x, lb x.1 xs, true)) := by
      unfold mapInsert mapFind
      simp only [treeFind_unique xs hs x.1]
      split <;> simp
    cases hint with
    | none => exact hnone
    | some h =>
      rw [mapInsert_hint]
      unfold setInsertHint
      rw [checkHint_unique xs hs h x.1 (hl h rfl)]
      by_cases hv : h ≤ lb x.1 xs ∧ ub x.1 xs ≤ h
      · have e1 : h = lb x.1 xs := by omega
        simp [hv, ← e1]
      · simp only [hv, if_false]
        rw [← mapInsert_none, hnone]

theorem mapInsert_unique (xs : List Item) (hs : StrictSorted xs) (hint : Option Nat)
    (hl : ∀ h, hint = some h → h ≤ xs.length) (x : Item) :
    mapInsert false xs hint x = sInsert false xs x := by
  rw [sInsert_unique xs hs]; exact treeInsert_eq.C06_hint_unique_core xs hs hint hl x

theorem wInsert_eq (kd : Kind) (xs : List Item) (hs : SortedK kd.multi xs) (x : Item) :
    wInsert kd xs x = sInsert kd.multi xs x := by
  unfold wInsert
  split
  · rw [mapInsert_none]; exact treeInsert_eq _ xs hs x
  · exact treeInsert_eq _ xs hs x

theorem sInsert_sorted (multi : Bool) (xs : List Item) (hs : SortedK multi xs) (x : Item) :
    SortedK multi (sInsert multi xs x).1 := by
  cases multi with
  | true =>
    rw [sInsert_multi]
    simpa [SortedK] using insertAt_sorted xs hs.sorted x _ (lb_le_ub x.1 xs) (Nat.le_refl _)
  | false =>
    rw [sInsert_unique xs hs.strict]
    split
    · exact hs
    · rename_i h
      simpa [SortedK] using insertAt_strict xs hs.strict x _ (by have := lb_le_ub x.1 xs; omega) (Nat.le_refl _)

/-! ### hinted insert -/

theorem closest_eq_clamp (h lo hi : Nat) (hle : lo ≤ hi) : closest h lo hi = clamp h lo hi := by
  unfold closest clamp; split <;> (try split) <;> omega

theorem setInsertHint_multi (xs : List Item) (hs : Sorted xs) (h : Nat) (hl : h ≤ xs.length) (x : Item) :
    setInsertHint true xs h x = (insertAt xs (clamp h (lb x.1 xs) (ub x.1 xs)) x, clamp h (lb x.1 xs) (ub x.1 xs), true) := by
  have hlu := lb_le_ub x.1 xs
  unfold setInsertHint
  rw [checkHint_multi xs hs h x.1 hl]
  by_cases hu : ub x.1 xs < h
  · have : clamp h (lb x.1 xs) (ub x.1 xs) = ub x.1 xs := by unfold clamp; omega
    simp [hu, treeInsert, treeFind_multi, this]
  · have : clamp h (lb x.1 xs) (ub x.1 xs) = max h (lb x.1 xs) := by unfold clamp; omega
    simp [hu, this]

theorem sInsertHint_multi (xs : List Item) (h : Nat) (x : Item) :
    sInsertHint true xs h x = (insertAt xs (clamp h (lb x.1 xs) (ub x.1 xs)) x, clamp h (lb x.1 xs) (ub x.1 xs)) := by
  simp [sInsertHint, lowerPos_eq, upperPos_eq, putAt_eq, closest_eq_clamp _ _ _ (lb_le_ub x.1 xs)]

theorem wInsertHint_eq (kd : Kind) (xs : List Item) (hs : SortedK kd.multi xs) (h : Nat) (hl : h ≤ xs.length) (x : Item) :
    wInsertHint kd xs h x = sInsertHint kd.multi xs h x := by
  unfold wInsertHint
  rw [mapInsert_hint]
  simp only [ite_self]
  obtain ⟨multi, isMap⟩ := kd
  cases multi with
  | true => simp only; rw [setInsertHint_multi xs hs.sorted h hl x, sInsertHint_multi]
  | false =>
    simp only
    rw [← mapInsert_hint, mapInsert_unique xs hs.strict (some h) (by intro h' hh; cases hh; exact hl) x]
    simp [sInsertHint]

theorem sInsertHint_sorted (multi : Bool) (xs : List Item) (hs : SortedK multi xs) (h : Nat) (x : Item) :
    SortedK multi (sInsertHint multi xs h x).1 := by
  cases multi with
  | true =>
    rw [sInsertHint_multi]
    have hlu := lb_le_ub x.1 xs
    simpa [SortedK] using insertAt_sorted xs hs.sorted x _ (by unfold clamp; omega) (by unfold clamp; omega)
  | false => simpa [sInsertHint] using sInsert_sorted false xs hs x

/-! ### range insert, merge -/

theorem insertMany_eq (kd : Kind) (viaLoop : Bool) (ys : List Item) : ∀ (xs : List Item), SortedK kd.multi xs →
    wInsertMany kd xs ys viaLoop = sInsertMany kd.multi xs ys ∧ SortedK kd.multi (sInsertMany kd.multi xs ys) := by
  induction ys with
  | nil => intro xs hs; cases viaLoop <;> simp [wInsertMany, natInsertRange, sInsertMany, hs]
  | cons y t ih =>
    intro xs hs
    have h1 := wInsert_eq kd xs hs y
    have h2 := treeInsert_eq kd.multi xs hs y
    have h3 := sInsert_sorted kd.multi xs hs y
    obtain ⟨i1, i2⟩ := ih (sInsert kd.multi xs y).1 h3
    refine ⟨?_, by simpa [sInsertMany] using i2⟩
    cases viaLoop with
    | true =>
      simp only [wInsertMany, if_true, foldl_cons, h1] at i1 ⊢
      simpa [sInsertMany] using i1
    | false =>
      simp only [wInsertMany, natInsertRange, foldl_cons, h2, Bool.false_eq_true, if_false] at i1 ⊢
      simpa [sInsertMany] using i1

theorem merge_eq (multi : Bool) (src : List Item) : ∀ (dst acc : List Item), SortedK multi dst →
    (src.foldl (fun acc y => if (treeInsert multi acc.1 y).2.2 then ((treeInsert multi acc.1 y).1, acc.2) else (acc.1, acc.2 ++ [y])) (dst, acc))
      = (src.foldl (fun acc y => if (sInsert multi acc.1 y).2.2 then ((sInsert multi acc.1 y).1, acc.2) else (acc.1, acc.2 ++ [y])) (dst, acc))
    ∧ SortedK multi (src.foldl (fun acc y => if (sInsert multi acc.1 y).2.2 then ((sInsert multi acc.1 y).1, acc.2) else (acc.1, acc.2 ++ [y])) (dst, acc)).1
    ∧ ∃ l, l.Sublist src ∧
        (src.foldl (fun acc y => if (sInsert multi acc.1 y).2.2 then ((sInsert multi acc.1 y).1, acc.2) else (acc.1, acc.2 ++ [y])) (dst, acc)).2 = acc ++ l := by
  induction src with
  | nil => intro dst acc hs; exact ⟨rfl, hs, [], Sublist.slnil, by simp⟩
  | cons y t ih =>
    intro dst acc hs
    have h2 := treeInsert_eq multi dst hs y
    have h3 := sInsert_sorted multi dst hs y
    simp only [foldl_cons, h2]
    by_cases hi : (sInsert multi dst y).2.2 = true
    · simp only [hi, if_true]
      obtain ⟨a, b, l, hl1, hl2⟩ := ih (sInsert multi dst y).1 acc h3
      exact ⟨a, b, l, Sublist.cons _ hl1, hl2⟩
    · simp only [hi, Bool.false_eq_true, if_false]
      obtain ⟨a, b, l, hl1, hl2⟩ := ih dst (acc ++ [y]) hs
      exact ⟨a, b, y :: l, Sublist.cons_cons _ hl1, by rw [hl2]; simp⟩

theorem natMergeFrom_eq (multi : Bool) (dst src : List Item) (hd : SortedK multi dst) (hsrc : SortedK multi src) :
    natMergeFrom multi dst src = sMerge multi dst src ∧ SortedK multi (sMerge multi dst src).1 ∧
    SortedK multi (sMerge multi dst src).2 := by
  obtain ⟨a, b, l, hl1, hl2⟩ := merge_eq multi src dst [] hd
  refine ⟨a, b, ?_⟩
  unfold sMerge
  rw [hl2]
  simpa using sortedK_sublist hsrc hl1

/-! ### insert_or_assign, operator[] -/

theorem mapInsertOrAssign_eq (xs : List Item) (hs : StrictSorted xs) (hint : Option Nat)
    (hl : ∀ h, hint = some h → h ≤ xs.length) (x : Item) :
    mapInsertOrAssign xs hint x = sInsertOrAssign xs x := by
  have hsr := strict_sorted xs hs
  have hlu := lb_le_ub x.1 xs
  unfold mapInsertOrAssign sInsertOrAssign
  rw [mapInsert_unique xs hs hint hl x, sInsert_unique xs hs, hasKey_eq xs hsr, upperPos_eq, putAt_eq]
  by_cases hp : lb x.1 xs < ub x.1 xs
  · simp [hp, keyAt_lb_present xs hsr x.1 hp, findPos_present xs hsr x.1 hp]
  · have : ub x.1 xs = lb x.1 xs := by omega
    simp [hp, this]

theorem sInsertOrAssign_sorted (xs : List Item) (hs : SortedK false xs) (x : Item) :
    SortedK false (sInsertOrAssign xs x).1 := by
  have hsr := hs.sorted
  have hlu := lb_le_ub x.1 xs
  unfold sInsertOrAssign
  rw [hasKey_eq xs hsr, upperPos_eq, putAt_eq]
  by_cases hp : lb x.1 xs < ub x.1 xs
  · simp only [hp, decide_true, if_true, findPos_present xs hsr x.1 hp]
    exact sortedK_set hs _ _ (fun _ => (keyAt_lb_present xs hsr x.1 hp).symm)
  · have : ub x.1 xs = lb x.1 xs := by omega
    simp only [hp, decide_false, Bool.false_eq_true, if_false, this]
    simpa [SortedK] using insertAt_strict xs hs.strict x _ (by omega) (Nat.le_refl _)

theorem insertAt_set (xs : List Item) (p : Nat) (hp : p ≤ xs.length) (x y : Item) :
    (insertAt xs p x).set p y = insertAt xs p y := by
  unfold insertAt
  have : (xs.take p).length = p := by simp; omega
  rw [set_append_right _ _ (by omega)]
  simp [this]

theorem keyAt_insertAt (xs : List Item) (p : Nat) (hp : p ≤ xs.length) (x : Item) : keyAt (insertAt xs p x) p = x.1 := by
  unfold keyAt insertAt
  have : (xs.take p).length = p := by simp; omega
  rw [getElem?_append_right (by omega)]
  simp [this]

theorem getElem?_insertAt (xs : List Item) (p : Nat) (hp : p ≤ xs.length) (x : Item) : (insertAt xs p x)[p]? = some x := by
  unfold insertAt
  have : (xs.take p).length = p := by simp; omega
  rw [getElem?_append_right (by omega)]
  simp [this]

/-- `m[k]` read: same sequence and same value as "insert (k, T()) unless present" -/
theorem wIndex_eq (xs : List Item) (hs : StrictSorted xs) (k : Nat) :
    (wIndex xs k).1 = (sInsert false xs (k, 0)).1 ∧ (wIndex xs k).2 = (sInsert false xs (k, 0)).2.1 := by
  have hsr := strict_sorted xs hs
  unfold wIndex
  rw [sInsert_unique xs hs]
  by_cases hp : lb k xs < ub k xs
  · rw [if_pos ((found_iff xs hsr k).mpr hp)]; simp [hp]
  · rw [if_neg (fun hh => hp ((found_iff xs hsr k).mp hh))]; simp [hp]

/-- `m[k] = v` -/
theorem wIndexAssign_eq (xs : List Item) (hs : StrictSorted xs) (k v : Nat) :
    (wIndex xs k).1.set (wIndex xs k).2 (keyAt (wIndex xs k).1 (wIndex xs k).2, v) = (sInsertOrAssign xs (k, v)).1 := by
  have hsr := strict_sorted xs hs
  have hlu := lb_le_ub k xs
  have hll := lb_le_length k xs
  unfold wIndex sInsertOrAssign
  rw [hasKey_eq xs hsr, upperPos_eq, putAt_eq]
  by_cases hp : lb k xs < ub k xs
  · rw [if_pos ((found_iff xs hsr k).mpr hp)]
    simp [hp, keyAt_lb_present xs hsr k hp, findPos_present xs hsr k hp]
  · rw [if_neg (fun hh => hp ((found_iff xs hsr k).mp hh))]
    have : ub k xs = lb k xs := by omega
    simp [hp, this, insertAt_set xs _ hll, keyAt_insertAt xs _ hll]

/-! ### node handles -/

theorem wInsertNode_eq (kd : Kind) (xs : List Item) (hs : SortedK kd.multi xs) (x : Item) :
    wInsertNode kd xs (some x) =
      ((sInsert kd.multi xs x).1, (sInsert kd.multi xs x).2.1, (sInsert kd.multi xs x).2.2,
        if (sInsert kd.multi xs x).2.2 then none else some x) := by
  simp [wInsertNode, insertNode, treeInsert_eq kd.multi xs hs x]

theorem wInsertNodeHint_eq (kd : Kind) (xs : List Item) (hs : SortedK kd.multi xs) (h : Nat) (hl : h ≤ xs.length) (x : Item) :
    wInsertNodeHint kd xs h (some x) =
      ((sInsertHint kd.multi xs h x).1, (sInsertHint kd.multi xs h x).2,
        if kd.multi || !hasKey x.1 xs then none else some x) := by
  obtain ⟨multi, isMap⟩ := kd
  have hlu := lb_le_ub x.1 xs
  cases multi with
  | true =>
    simp only at hs
    rw [sInsertHint_multi]
    have hc := checkHint_multi xs hs.sorted h x.1 hl
    cases isMap with
    | true =>
      simp only [wInsertNodeHint, if_true, mapInsertNodeHint, mapFind_hint, hc]
      by_cases hu : ub x.1 xs < h
      · have : clamp h (lb x.1 xs) (ub x.1 xs) = ub x.1 xs := by unfold clamp; omega
        simp [hu, treeFind_multi, this]
      · have : clamp h (lb x.1 xs) (ub x.1 xs) = max h (lb x.1 xs) := by unfold clamp; omega
        simp [hu, this]
    | false =>
      simp only [wInsertNodeHint, Bool.false_eq_true, if_false, setInsertNodeHint, hc]
      by_cases hu : ub x.1 xs < h
      · have : clamp h (lb x.1 xs) (ub x.1 xs) = ub x.1 xs := by unfold clamp; omega
        simp [hu, insertNode, treeInsert, treeFind_multi, this]
      · have : clamp h (lb x.1 xs) (ub x.1 xs) = max h (lb x.1 xs) := by unfold clamp; omega
        simp [hu, this]
  | false =>
    simp only at hs
    have hst := hs.strict
    have hsr := hs.sorted
    have hc := checkHint_unique xs hst h x.1 hl
    have hsi := sInsert_unique xs hst x
    simp only [sInsertHint, Bool.false_eq_true, if_false, Bool.false_or, hasKey_eq xs hsr, hsi]
    cases isMap with
    | true =>
      simp only [wInsertNodeHint, if_true, mapInsertNodeHint, mapFind_hint, hc]
      by_cases hv : h ≤ lb x.1 xs ∧ ub x.1 xs ≤ h
      · have e1 : h = lb x.1 xs := by omega
        have e2 : ¬ lb x.1 xs < ub x.1 xs := by omega
        simp [hv, ← e1, show ¬ h < ub x.1 xs by omega]
      · simp only [hv, if_false, treeFind_unique xs hst x.1]
        by_cases hp : lb x.1 xs < ub x.1 xs <;> simp [hp]
    | false =>
      simp only [wInsertNodeHint, Bool.false_eq_true, if_false, setInsertNodeHint, hc]
      by_cases hv : h ≤ lb x.1 xs ∧ ub x.1 xs ≤ h
      · have e1 : h = lb x.1 xs := by omega
        have e2 : ¬ lb x.1 xs < ub x.1 xs := by omega
        simp [hv, ← e1, show ¬ h < ub x.1 xs by omega]
      · simp only [hv, if_false, insertNode, treeInsert, treeFind_unique xs hst x.1]
        by_cases hp : lb x.1 xs < ub x.1 xs <;> simp [hp]

/-! ### lookups -/

theorem natContains_eq (xs : List Item) (hs : Sorted xs) (k : Nat) : natContains xs k = hasKey k xs := by
  rw [hasKey_eq xs hs]
  unfold natContains
  rw [Bool.eq_iff_iff, decide_eq_true_iff, decide_eq_true_iff]
  exact found_iff xs hs k

theorem natKeyCount_eq (multi : Bool) (xs : List Item) (hs : SortedK multi xs) (k : Nat) :
    natKeyCount multi xs k = countKey k xs := by
  have hsr := hs.sorted
  rw [countKey_eq xs hsr]
  unfold natKeyCount
  cases multi with
  | true => simp
  | false =>
    have h1 := ub_le_lb_succ k xs hs.strict
    have h2 := lb_le_ub k xs
    rw [natContains_eq xs hsr, hasKey_eq xs hsr]
    by_cases hp : lb k xs < ub k xs
    · simp [hp]; omega
    · simp [hp]; omega

theorem ordEqualRange_eq (multi : Bool) (xs : List Item) (hs : SortedK multi xs) (k : Nat) :
    ordEqualRange multi xs k = (lowerPos k xs, upperPos k xs) := by
  rw [lowerPos_eq, upperPos_eq]
  cases multi with
  | true => simp [ordEqualRange]
  | false => exact ordEqualRange_spec xs hs.strict k

theorem mapAt_eq (xs : List Item) (hs : Sorted xs) (k : Nat) :
    atObs (mapAt xs k) =
      if hasKey k xs then Obs.val (xs[findPos k xs]?.getD (0, 0)).2 else Obs.outOfRange := by
  have hub := ub_le_length k xs
  unfold mapAt
  rw [ordFind_spec xs hs, hasKey_eq xs hs]
  by_cases hp : lb k xs < ub k xs
  · have : lb k xs ≠ xs.length := by omega
    simp [hp, this, findPos_present xs hs k hp, atObs]
  · simp [hp, atObs]

theorem wExtractKey_eq (xs : List Item) (hs : Sorted xs) (k : Nat) :
    wExtractKey xs k = if hasKey k xs then (xs.eraseIdx (findPos k xs), xs[findPos k xs]?) else (xs, none) := by
  have hub := ub_le_length k xs
  unfold wExtractKey natRemoveAt
  rw [ordFind_spec xs hs, hasKey_eq xs hs]
  by_cases hp : lb k xs < ub k xs
  · have : lb k xs ≠ xs.length := by omega
    simp [hp, this, findPos_present xs hs k hp]
  · simp [hp]

theorem wEq_eq (a b : List Item) : wEq a b = (a == b) := by
  rw [Bool.eq_iff_iff, beq_iff_eq]
  unfold wEq
  induction a generalizing b with
  | nil => cases b <;> simp
  | cons x t ih =>
    cases b with
    | nil => simp
    | cons y u =>
      have := ih u
      simp only [length_cons, zip_cons_cons, all_cons, Bool.and_eq_true, beq_iff_eq, Nat.add_right_cancel_iff,
        cons.injEq] at this ⊢
      constructor
      · intro ⟨h1, h2, h3⟩; exact ⟨h2, this.mp ⟨h1, h3⟩⟩
      · intro ⟨h1, h2⟩; have := this.mpr h2; exact ⟨this.1, h1, this.2⟩

theorem wCmp_eq (a b : List Item) : wCmp a b = seqCmp a b := by
  simp [wCmp, seqCmp, wEq_eq]

end Momo.StdW
