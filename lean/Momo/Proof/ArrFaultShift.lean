import Momo.Proof.ArrFaultStrong
/-!
  C10, lemmas part 3: the loops of `ArrayShifter` as programs of primitive statements.
  * a program run without a fault is the corresponding loop of `Momo.Arr` (`runPrims_progN`, `runPrims_progR`, ...)
  * under any fault schedule a program stops after a prefix of its statements; every statement keeps
    "number of constructed objects = number of cells" (`execPrims_spec`).
-/
namespace Momo.ArrF
set_option linter.unusedSimpArgs false
set_option linter.unusedVariables false
open Momo Momo.Arr
open FM (throw tryCatch)
variable {α β γ : Type}

/-- number of statements of a program that construct a new last item -/
def adds : List (Prim α) → Nat
  | [] => 0
  | p :: ps => (if p.adds then 1 else 0) + adds ps

theorem adds_append (ps qs : List (Prim α)) : adds (ps ++ qs) = adds ps + adds qs := by
  induction ps with
  | nil => simp [adds]
  | cons p ps ih => simp [adds, ih]; omega

theorem runPrims_append (keeps : Bool) : ∀ (ps qs : List (Prim α)) (a : Cells α),
    runPrims keeps a (ps ++ qs) = runPrims keeps (runPrims keeps a ps) qs
  | [], _, _ => rfl
  | p :: ps, qs, a => by simp [runPrims, runPrims_append keeps ps qs]

theorem addBackFrom_length (keeps mv : Bool) (a : Cells α) (r : Ref α) : (addBackFrom keeps mv a r).length = a.length + 1 := by
  unfold addBackFrom
  split
  · cases r <;> simp [addBackMove_length]
  · simp

theorem assignFrom_length (keeps mv : Bool) (a : Cells α) (r : Ref α) (i : Nat) : (assignFrom keeps mv a r i).length = a.length := by
  unfold assignFrom
  split
  · cases r <;> simp [assignMove_length]
  · simp

theorem apply_length (keeps : Bool) (a : Cells α) (p : Prim α) :
    (p.apply keeps a).length = a.length + (if p.adds then 1 else 0) := by
  cases p <;> simp [Prim.apply, Prim.adds, addBackMove_length, assignMove_length, addBackFrom_length, assignFrom_length]

theorem runPrims_length (keeps : Bool) : ∀ (ps : List (Prim α)) (a : Cells α),
    (runPrims keeps a ps).length = a.length + adds ps
  | [], a => by simp [runPrims, adds]
  | p :: ps, a => by
    simp only [runPrims, adds]
    rw [runPrims_length keeps ps, apply_length]; omega

/-! ### fault-free runs of the programs are the loops of `Momo.Arr` -/

theorem runPrims_prog1 (keeps : Bool) : ∀ (c : Nat) (a : Cells α) (i : Nat),
    runPrims keeps a (prog1 i c) = loop1 keeps a i c
  | 0, _, _ => rfl
  | c+1, a, i => by simp only [prog1, runPrims, Prim.apply, loop1]; exact runPrims_prog1 keeps c _ _

theorem runPrims_prog2 (keeps : Bool) (count : Nat) : ∀ (f : Nat) (a : Cells α) (i : Nat),
    runPrims keeps a (prog2 count i f) = loop2 keeps a count i f
  | 0, _, _ => rfl
  | f+1, a, i => by simp only [prog2, runPrims, Prim.apply, loop2]; exact runPrims_prog2 keeps count f _ _

theorem runPrims_prog3 (keeps : Bool) (item : Ref α) : ∀ (c : Nat) (a : Cells α) (i : Nat),
    runPrims keeps a (prog3 item i c) = loop3 a item i c
  | 0, _, _ => rfl
  | c+1, a, i => by
    simp only [prog3, runPrims, Prim.apply, loop3, assignFrom, Bool.false_eq_true, ↓reduceIte]
    exact runPrims_prog3 keeps item c _ _

theorem runPrims_progA (keeps : Bool) (item : Ref α) : ∀ (c : Nat) (a : Cells α),
    runPrims keeps a (progA item c) = loopA a item c
  | 0, _ => rfl
  | c+1, a => by
    simp only [progA, runPrims, Prim.apply, loopA, addBackFrom, Bool.false_eq_true, ↓reduceIte]
    exact runPrims_progA keeps item c _

theorem runPrims_progB (keeps : Bool) (item : Ref α) : ∀ (c : Nat) (a : Cells α) (i : Nat),
    runPrims keeps a (progB item i c) = loopB keeps a item i c
  | 0, _, _ => rfl
  | c+1, a, i => by
    simp only [progB, runPrims, Prim.apply, loopB, assignFrom, Bool.false_eq_true, ↓reduceIte]
    exact runPrims_progB keeps item c _ _

theorem runPrims_progN (keeps : Bool) (a : Cells α) (index count : Nat) (item : Ref α) :
    runPrims keeps a (progN a.length index count item) = insertNogrowN keeps a index count item := by
  unfold progN insertNogrowN
  split
  · rfl
  · split
    · rw [runPrims_append, runPrims_append, runPrims_prog1, runPrims_prog2, runPrims_prog3]
    · rw [runPrims_append, runPrims_progA, runPrims_progB]

theorem runPrims_prog3R (keeps mv : Bool) : ∀ (rs : List (Ref α)) (a : Cells α) (i : Nat),
    runPrims keeps a (prog3R mv rs i) = loop3R keeps mv rs a i
  | [], _, _ => rfl
  | r :: rs, a, i => by simp only [prog3R, runPrims, Prim.apply, loop3R]; exact runPrims_prog3R keeps mv rs _ _

theorem runPrims_progAR (keeps mv : Bool) : ∀ (rs : List (Ref α)) (a : Cells α),
    runPrims keeps a (progAR mv rs) = loopAR keeps mv rs a
  | [], _ => rfl
  | r :: rs, a => by simp only [progAR, runPrims, Prim.apply, loopAR]; exact runPrims_progAR keeps mv rs _

theorem runPrims_progBR (keeps mv : Bool) : ∀ (c : Nat) (rs : List (Ref α)) (a : Cells α) (i : Nat),
    runPrims keeps a (progBR mv c rs i) = loopBR keeps mv c rs a i
  | 0, _, _, _ => by simp [progBR, runPrims, loopBR]
  | _+1, [], _, _ => by simp [progBR, runPrims, loopBR]
  | c+1, r :: rs, a, i => by
    simp only [progBR, runPrims, Prim.apply, loopBR]; exact runPrims_progBR keeps mv c rs _ _

theorem runPrims_progR (keeps mv : Bool) (a : Cells α) (index : Nat) (rs : List (Ref α)) :
    runPrims keeps a (progR mv a.length index rs) = insertNogrowR keeps mv a index rs := by
  unfold progR insertNogrowR
  split
  · rfl
  · split
    · rw [runPrims_append, runPrims_append, runPrims_prog1, runPrims_prog2, runPrims_prog3R]
    · unfold progR.progBRA
      rw [runPrims_append, runPrims_progAR, runPrims_progBR]

theorem runPrims_progRem (keeps : Bool) (count : Nat) : ∀ (f : Nat) (a : Cells α) (i : Nat),
    runPrims keeps a (progRem count i f) = loopRem keeps a count i f
  | 0, _, _ => rfl
  | f+1, a, i => by simp only [progRem, runPrims, Prim.apply, loopRem]; exact runPrims_progRem keeps count f _ _

/-! ### how many items a program appends -/

theorem adds_prog1 : ∀ (c i : Nat), adds (prog1 i c : List (Prim α)) = c
  | 0, _ => rfl
  | c+1, i => by simp [prog1, adds, Prim.adds, adds_prog1 c]; omega

theorem adds_prog2 (count : Nat) : ∀ (f i : Nat), adds (prog2 count i f : List (Prim α)) = 0
  | 0, _ => rfl
  | f+1, i => by simp [prog2, adds, Prim.adds, adds_prog2 count f]

theorem adds_prog3 (item : Ref α) : ∀ (c i : Nat), adds (prog3 item i c) = 0
  | 0, _ => rfl
  | c+1, i => by simp [prog3, adds, Prim.adds, adds_prog3 item c]

theorem adds_progA (item : Ref α) : ∀ (c : Nat), adds (progA item c) = c
  | 0 => rfl
  | c+1 => by simp [progA, adds, Prim.adds, adds_progA item c]; omega

theorem adds_progB (item : Ref α) : ∀ (c i : Nat), adds (progB item i c) = c
  | 0, _ => rfl
  | c+1, i => by simp [progB, adds, Prim.adds, adds_progB item c]; omega

theorem adds_progN (n index count : Nat) (item : Ref α) (hi : index ≤ n) : adds (progN n index count item) = count := by
  unfold progN
  split
  · simp [adds]; omega
  · split
    · simp [adds_append, adds_prog1, adds_prog2, adds_prog3]
    · simp [adds_append, adds_progA, adds_progB]; omega

theorem adds_prog3R (mv : Bool) : ∀ (rs : List (Ref α)) (i : Nat), adds (prog3R mv rs i) = 0
  | [], _ => rfl
  | r :: rs, i => by simp [prog3R, adds, Prim.adds, adds_prog3R mv rs]

theorem adds_progAR (mv : Bool) : ∀ (rs : List (Ref α)), adds (progAR mv rs) = rs.length
  | [] => rfl
  | r :: rs => by simp [progAR, adds, Prim.adds, adds_progAR mv rs]; omega

theorem adds_progBR (mv : Bool) : ∀ (c : Nat) (rs : List (Ref α)) (i : Nat), adds (progBR mv c rs i) = min c rs.length
  | 0, _, _ => by simp [progBR, adds]
  | _+1, [], _ => by simp [progBR, adds]
  | c+1, r :: rs, i => by simp [progBR, adds, Prim.adds, adds_progBR mv c rs]; omega

theorem adds_progR (mv : Bool) (n index : Nat) (rs : List (Ref α)) (hi : index ≤ n) : adds (progR mv n index rs) = rs.length := by
  unfold progR
  split
  · simp [adds]; omega
  · split
    · simp [adds_append, adds_prog1, adds_prog2, adds_prog3R]
    · unfold progR.progBRA
      simp [adds_append, adds_progAR, adds_progBR]; omega

theorem adds_progRem (count : Nat) : ∀ (f i : Nat), adds (progRem count i f : List (Prim α)) = 0
  | 0, _ => rfl
  | f+1, i => by simp [progRem, adds, Prim.adds, adds_progRem count f]

/-! ### programs under faults -/

theorem execPrim_spec (cfg : Cfg) (thr : Thr) (p : Prim α) (x : Sys α) :
    Post (execPrim cfg thr p) x
      (fun _ y => y.arr = { x.arr with cells := p.apply cfg.keeps x.arr.cells } ∧ y.blocks = x.blocks ∧
        y.objs = x.objs + (if p.adds then 1 else 0) ∧ y.bad = x.bad)
      (fun y => y.core = x.core) := by
  unfold execPrim
  apply Post.bind' _ _ (tick_spec _ x) (fun _ h => h)
  intro _ y hy
  simp only [core_eq_iff] at hy
  obtain ⟨ya, yb, yo, ybad⟩ := hy
  split
  · rename_i h
    simp only [post_born_bind, post_modifyCells, ya, h, ↓reduceIte, true_and]
    exact ⟨yb, by omega, ybad⟩
  · rename_i h
    simp only [post_pure_bind, post_modifyCells, ya, h, Bool.false_eq_true, ↓reduceIte, true_and]
    exact ⟨yb, by omega, ybad⟩

/-- a program under any fault schedule: it completes with the fault-free cells, or stops after a proper prefix;
    in both cases as many objects were constructed as items appended -/
theorem execPrims_spec (cfg : Cfg) (thr : Thr) : ∀ (ps : List (Prim α)) (x : Sys α),
    Post (execPrims cfg thr ps) x
      (fun _ y => y.arr = { x.arr with cells := runPrims cfg.keeps x.arr.cells ps } ∧ y.blocks = x.blocks ∧
        y.objs = x.objs + adds ps ∧ y.bad = x.bad)
      (fun y => ∃ n, n < ps.length ∧ y.arr = { x.arr with cells := runPrims cfg.keeps x.arr.cells (ps.take n) } ∧
        y.blocks = x.blocks ∧ y.objs = x.objs + adds (ps.take n) ∧ y.bad = x.bad)
  | [], x => by simp [execPrims, runPrims, adds]
  | p :: ps, x => by
    unfold execPrims
    apply Post.bind' _ _ (execPrim_spec cfg thr p x)
    · intro y hy
      simp only [core_eq_iff] at hy
      obtain ⟨ya, yb, yo, ybad⟩ := hy
      exact ⟨0, by simp, by simp [runPrims, ya], yb, by simp [adds, yo], ybad⟩
    · rintro _ y ⟨ya, yb, yo, ybad⟩
      apply Post.mono (execPrims_spec cfg thr ps y)
      · rintro _ z ⟨za, zb, zo, zbad⟩
        refine ⟨?_, zb.trans yb, ?_, zbad.trans ybad⟩
        · rw [za, ya]; simp [runPrims]
        · rw [zo, yo]; simp [adds]; omega
      · rintro z ⟨n, hn, za, zb, zo, zbad⟩
        refine ⟨n + 1, by simp; omega, ?_, zb.trans yb, ?_, zbad.trans ybad⟩
        · rw [za, ya]; simp [runPrims]
        · rw [zo, yo]; simp [adds]; omega

theorem adds_take_le : ∀ (ps : List (Prim α)) (n : Nat), adds (ps.take n) ≤ adds ps
  | [], n => by simp [adds]
  | p :: ps, 0 => by simp [adds]
  | p :: ps, n+1 => by simp only [List.take_succ_cons, adds]; have := adds_take_le ps n; omega

end Momo.ArrF
