import Momo.Model.StdWrap
/-!
  Lemmas for C06, part 1: `erase(first, last)` of the unordered wrappers removes exactly the elements
  the iterators enumerate between `first` and `last`.
-/
namespace Momo.StdWrap

/-! ### unordered_set / unordered_map -/

theorem reachU_mv (n : Nat) : ∀ (fuel p l : Nat) (b : Bool), p ≤ l → l ≤ n → l - p < fuel →
    reachU n fuel ⟨p, true⟩ ⟨l, b⟩ = some (List.range' p (l - p)) := by
  intro fuel
  induction fuel with
  | zero => intro p l b _ _ h; omega
  | succ f ih =>
    intro p l b hpl hln hf
    unfold reachU
    by_cases hpe : p = l
    · subst hpe; simp
    · have hlt : p < l := by omega
      have : ¬ (p ≥ n) := by omega
      simp only [hpe, this, if_false, nextU, if_true]
      rw [ih (p+1) l b (by omega) hln (by omega)]
      have : l - p = (l - (p+1)) + 1 := by omega
      rw [this, List.range'_succ]
      simp

theorem eraseRangeU_exact' (n : Nat) (first last : It) (hf : first.pos ≤ n) (hl : last.pos ≤ n)
    (h : eraseRangeU n first last ≠ .invalid) :
    reachU n (n+1) first last = some (erasedU n (eraseRangeU n first last)) := by
  unfold eraseRangeU at h ⊢
  by_cases h1 : first.pos = last.pos
  · simp [h1, reachU, erasedU]
  · simp only [h1, if_false] at h ⊢
    by_cases h2 : first.pos ≠ n ∧ (nextU n first).pos = last.pos
    · rw [if_pos h2]; simp only [erasedU]
      have hlt : first.pos < n := by omega
      obtain ⟨m, rfl⟩ : ∃ m, n = m + 1 := ⟨n - 1, by omega⟩
      have hge : ¬ (first.pos ≥ m + 1) := by omega
      simp [reachU, h1, hge, h2.2]
    · rw [if_neg h2] at h ⊢
      by_cases h3 : first.pos = 0 ∧ last.pos = n
      · rw [if_pos h3]; simp only [erasedU]
        obtain ⟨fp, fm⟩ := first
        obtain ⟨lp, lm⟩ := last
        simp only at h1 h2 h3 hf hl ⊢
        obtain ⟨rfl, rfl⟩ := h3
        cases fm with
        | true =>
          have := reachU_mv lp (lp+1) 0 lp lm (by omega) (by omega) (by omega)
          simpa [List.range_eq_range'] using this
        | false =>
          exfalso; apply h2
          simp [nextU]; omega
      · rw [if_neg h3] at h; exact absurd rfl h

/-! ### unordered_multimap: runs of equal keys -/

theorem runLen_le (k : Nat) (l : List Nat) : runLen k l ≤ l.length := by
  induction l with
  | nil => simp [runLen]
  | cons x t ih => simp only [runLen]; split <;> simp <;> omega

theorem gend_unfold (ks : List Nat) (p : Nat) (hp : p < ks.length) :
    gend ks p = p + 1 + runLen ks[p] (ks.drop (p+1)) := by
  unfold gend
  rw [List.getElem?_eq_getElem hp]
  simp only
  rw [List.drop_eq_getElem_cons hp]
  simp [runLen]; omega

theorem gend_bounds (ks : List Nat) (p : Nat) (hp : p < ks.length) :
    p < gend ks p ∧ gend ks p ≤ ks.length := by
  rw [gend_unfold ks p hp]
  have := runLen_le ks[p] (ks.drop (p+1))
  simp at this
  omega

theorem gend_same (ks : List Nat) (p : Nat) (h1 : p + 1 < ks.length) (h2 : ks[p+1]? = ks[p]?) :
    gend ks (p+1) = gend ks p := by
  have hp : p < ks.length := by omega
  rw [List.getElem?_eq_getElem h1, List.getElem?_eq_getElem hp] at h2
  have h2' : ks[p+1] = ks[p] := by simpa using h2
  rw [gend_unfold ks p hp, gend_unfold ks (p+1) h1, List.drop_eq_getElem_cons h1]
  simp [runLen, h2']; omega

theorem gend_diff (ks : List Nat) (p : Nat) (hp : p < ks.length)
    (h : ¬ (p + 1 < ks.length ∧ ks[p+1]? = ks[p]?)) : gend ks p = p + 1 := by
  rw [gend_unfold ks p hp]
  by_cases h1 : p + 1 < ks.length
  · rw [List.drop_eq_getElem_cons h1]
    have : ks[p+1] ≠ ks[p] := by
      intro e; apply h; refine ⟨h1, ?_⟩
      rw [List.getElem?_eq_getElem h1, List.getElem?_eq_getElem hp, e]
    simp [runLen, this]
  · rw [List.drop_eq_nil_of_le (by omega)]; simp [runLen]

/-- every position of the run holds the key of its first position -/
theorem run_key (ks : List Nat) : ∀ (d p : Nat), p < ks.length → p + d < gend ks p → ks[p + d]? = ks[p]? := by
  intro d
  induction d with
  | zero => intro p _ _; rfl
  | succ d ih =>
    intro p hp hlt
    by_cases h : p + 1 < ks.length ∧ ks[p+1]? = ks[p]?
    · have := ih (p+1) h.1 (by rw [gend_same ks p h.1 h.2]; omega)
      rw [← h.2, ← this]; congr 1; omega
    · rw [gend_diff ks p hp h] at hlt; omega

/-- the position behind the run holds another key -/
theorem run_stop (ks : List Nat) : ∀ (fuel p : Nat), p < ks.length → gend ks p - p ≤ fuel → gend ks p < ks.length →
    ks[gend ks p]? ≠ ks[p]? := by
  intro fuel
  induction fuel with
  | zero => intro p hp hf _; have := gend_bounds ks p hp; omega
  | succ f ih =>
    intro p hp hf hlt
    by_cases h : p + 1 < ks.length ∧ ks[p+1]? = ks[p]?
    · have hs := gend_same ks p h.1 h.2
      have := ih (p+1) h.1 (by rw [hs]; omega) (by rw [hs]; exact hlt)
      rw [hs, h.2] at this; exact this
    · have hd := gend_diff ks p hp h
      rw [hd] at hlt ⊢
      intro e; exact h ⟨hlt, e⟩

theorem reachMM_mv (ks : List Nat) : ∀ (fuel p l : Nat) (b : Bool), p ≤ l → l ≤ ks.length → l - p < fuel →
    reachMM ks fuel ⟨p, true⟩ ⟨l, b⟩ = some (List.range' p (l - p)) := by
  intro fuel
  induction fuel with
  | zero => intro p l b _ _ h; omega
  | succ f ih =>
    intro p l b hpl hln hf
    unfold reachMM
    by_cases hpe : p = l
    · subst hpe; simp
    · have hlt : p < l := by omega
      have hge : ¬ (p ≥ ks.length) := by omega
      have hn : nextMM ks ⟨p, true⟩ = ⟨p+1, true⟩ := by
        unfold nextMM; split <;> simp
      simp only [hpe, hge, if_false, hn]
      rw [ih (p+1) l b (by omega) hln (by omega)]
      have : l - p = (l - (p+1)) + 1 := by omega
      rw [this, List.range'_succ]
      simp

/-- a lookup result walks through the remaining values of its key and then becomes `end()` -/
theorem reachMM_nomv (ks : List Nat) : ∀ (fuel p : Nat) (b : Bool), p < ks.length → gend ks p - p < fuel →
    reachMM ks fuel ⟨p, false⟩ ⟨ks.length, b⟩ = some (List.range' p (gend ks p - p)) := by
  intro fuel
  induction fuel with
  | zero => intro p b _ h; omega
  | succ f ih =>
    intro p b hp hf
    unfold reachMM
    have hpe : ¬ (p = ks.length) := by omega
    have hge : ¬ (p ≥ ks.length) := by omega
    simp only [hpe, hge, if_false]
    by_cases h : p + 1 < ks.length ∧ ks[p+1]? = ks[p]?
    · have hn : nextMM ks ⟨p, false⟩ = ⟨p+1, false⟩ := by unfold nextMM; rw [if_pos h]
      have hs := gend_same ks p h.1 h.2
      have hb := gend_bounds ks (p+1) h.1
      rw [hn, ih (p+1) b h.1 (by rw [hs]; omega), hs]
      have : gend ks p - p = (gend ks p - (p+1)) + 1 := by omega
      rw [this, List.range'_succ]; simp
    · have hn : nextMM ks ⟨p, false⟩ = ⟨ks.length, false⟩ := by unfold nextMM; rw [if_neg h]; simp
      have hd := gend_diff ks p hp h
      rw [hn, hd]
      cases f with
      | zero => omega
      | succ f' => simp [reachMM]

theorem filter_range_interval (n a b : Nat) (f : Nat → Bool) (hab : a ≤ b) (hbn : b ≤ n)
    (hf : ∀ q, q < n → (f q = true ↔ a ≤ q ∧ q < b)) :
    (List.range n).filter f = List.range' a (b - a) := by
  have e1 : List.range n = List.range' 0 a ++ (List.range' a (b - a) ++ List.range' b (n - b)) := by
    rw [List.range_eq_range']
    have h2 : List.range' a (b - a) ++ List.range' b (n - b) = List.range' a (n - a) := by
      have := List.range'_append (s := a) (m := b - a) (n := n - b) (step := 1)
      simp only [Nat.one_mul] at this
      rw [show a + (b - a) = b by omega] at this
      rw [this]; congr 1; omega
    rw [h2]
    have := List.range'_append (s := 0) (m := a) (n := n - a) (step := 1)
    simp only [Nat.one_mul, Nat.zero_add] at this
    rw [this]; congr 1; omega
  rw [e1, List.filter_append, List.filter_append]
  have p1 : (List.range' 0 a).filter f = [] := by
    rw [List.filter_eq_nil_iff]
    intro q hq
    simp [List.mem_range'_1] at hq
    have := hf q (by omega)
    intro hfq; have := this.mp hfq; omega
  have p2 : (List.range' a (b - a)).filter f = List.range' a (b - a) := by
    rw [List.filter_eq_self]
    intro q hq
    simp [List.mem_range'_1] at hq
    exact (hf q (by omega)).mpr (by omega)
  have p3 : (List.range' b (n - b)).filter f = [] := by
    rw [List.filter_eq_nil_iff]
    intro q hq
    simp [List.mem_range'_1] at hq
    have := hf q (by omega)
    intro hfq; have := this.mp hfq; omega
  rw [p1, p2, p3]; simp

theorem key_positions (ks : List Nat) (hg : Grouped ks) (p : Nat) (hp : p < ks.length)
    (hs : isRunStart ks p = true) (q : Nat) (hq : q < ks.length) :
    ((ks[q]? == ks[p]?) = true ↔ p ≤ q ∧ q < gend ks p) := by
  have hb := gend_bounds ks p hp
  constructor
  · intro h
    have h : ks[q]? = ks[p]? := by simpa using h
    constructor
    · -- q < p contradicts the run start
      apply Decidable.byContradiction; intro hlt
      have hlt : q < p := by omega
      have hp0 : p ≠ 0 := by omega
      have hs' : ks[p-1]? ≠ ks[p]? := by
        unfold isRunStart at hs
        simp [hp0] at hs; exact hs
      by_cases hqp : q = p - 1
      · subst hqp; exact hs' h
      · have := hg q (p-1) p (by omega) (by omega) hp h
        exact hs' (this.trans h)
    · apply Decidable.byContradiction; intro hge
      have hge : gend ks p ≤ q := by omega
      have hlt : gend ks p < ks.length := by omega
      have hstop := run_stop ks (gend ks p - p) p hp (Nat.le_refl _) hlt
      by_cases hqe : q = gend ks p
      · subst hqe; exact hstop h
      · have := hg p (gend ks p) q hb.1 (by omega) hq h.symm
        exact hstop this
  · intro ⟨h1, h2⟩
    have := run_key ks (q - p) p hp (by omega)
    rw [show p + (q - p) = q by omega] at this
    simp [this]

theorem erased_key (ks : List Nat) (hg : Grouped ks) (p : Nat) (hp : p < ks.length)
    (hs : isRunStart ks p = true) :
    erasedMM ks (.key p) = List.range' p (gend ks p - p) := by
  unfold erasedMM
  have hb := gend_bounds ks p hp
  exact filter_range_interval ks.length p (gend ks p) _ (by omega) hb.2
    (fun q hq => key_positions ks hg p hp hs q hq)

theorem reachMM_here (ks : List Nat) (fuel : Nat) (it last : It) (hf : 0 < fuel) (h : it.pos = last.pos) :
    reachMM ks fuel it last = some [] := by
  cases fuel with
  | zero => omega
  | succ f => simp [reachMM, h]

theorem eraseRangeMM_exact' (ks : List Nat) (hg : Grouped ks) (first last : It)
    (hf : first.pos ≤ ks.length) (hl : last.pos ≤ ks.length)
    (h : eraseRangeMM ks first last ≠ .invalid) :
    reachMM ks (ks.length + 1) first last = some (erasedMM ks (eraseRangeMM ks first last)) := by
  unfold eraseRangeMM at h ⊢
  by_cases h1 : first.pos = last.pos
  · simp [h1, reachMM, erasedMM]
  · rw [if_neg h1] at h ⊢
    by_cases h2 : first.pos ≠ ks.length ∧ (nextMM ks first).pos = last.pos
    · rw [if_pos h2]; simp only [erasedMM]
      have hlt : first.pos < ks.length := by omega
      have hge : ¬ (first.pos ≥ ks.length) := by omega
      unfold reachMM
      simp only [h1, hge, if_false]
      rw [reachMM_here ks ks.length _ _ (by omega) h2.2]; rfl
    · rw [if_neg h2] at h ⊢
      by_cases h3 : first.pos ≠ ks.length ∧ isRunStart ks first.pos = true ∧ last.pos = makeIterEnd ks first
      · rw [if_pos h3]
        obtain ⟨h3a, h3b, h3c⟩ := h3
        have hlt : first.pos < ks.length := by omega
        rw [erased_key ks hg first.pos hlt h3b]
        have hb := gend_bounds ks first.pos hlt
        obtain ⟨fp, fm⟩ := first
        obtain ⟨lp, lm⟩ := last
        simp only at *
        cases fm with
        | true =>
          simp only [makeIterEnd, if_true] at h3c
          subst h3c
          exact reachMM_mv ks _ fp _ lm (by omega) hb.2 (by omega)
        | false =>
          simp only [makeIterEnd] at h3c
          simp only [Bool.false_eq_true, if_false] at h3c
          subst h3c
          exact reachMM_nomv ks _ fp lm hlt (by omega)
      · rw [if_neg h3] at h ⊢
        by_cases h4 : first.pos = 0 ∧ last.pos = ks.length
        · rw [if_pos h4]; simp only [erasedMM]
          obtain ⟨fp, fm⟩ := first
          obtain ⟨lp, lm⟩ := last
          simp only at *
          obtain ⟨rfl, rfl⟩ := h4
          cases fm with
          | true =>
            have := reachMM_mv ks (ks.length+1) 0 ks.length lm (by omega) (by omega) (by omega)
            simpa [List.range_eq_range'] using this
          | false =>
            exfalso; apply h3
            refine ⟨by omega, by simp [isRunStart], by simp [makeIterEnd]⟩
        · rw [if_neg h4] at h; exact absurd rfl h

/-- decidable form of `Grouped` (for concrete layouts) -/
def groupedB (ks : List Nat) : Bool :=
  (List.range ks.length).all fun l => (List.range l).all fun j => (List.range j).all fun i =>
    !(ks[i]? == ks[l]?) || (ks[j]? == ks[i]?)

theorem grouped_of_groupedB (ks : List Nat) (h : groupedB ks = true) : Grouped ks := by
  intro i j l hij hjl hl he
  unfold groupedB at h
  simp only [List.all_eq_true, List.mem_range] at h
  have := h l hl j hjl i hij
  simpa [he] using this

end Momo.StdWrap
