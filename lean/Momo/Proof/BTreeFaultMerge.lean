import Momo.Proof.BTreeFaultBulk
/-!
  C10 for the B-tree family: merges under every fault schedule. `pvMergeTo` (extract one by one, insert by key),
  `pvMergeToLinear`, `pvMergeFast` and the dispatch of `MergeTo(TreeSet&)`: wherever a step throws, both containers are
  well-formed and sorted, source + destination hold exactly the elements they held before (each element in exactly one
  place), the source only lost and the destination only gained elements, and the ledger moved exactly with what the two
  containers own. Without an exception the destination is the reference merge (so only refused elements stay behind).
  Core Lean only.
-/
namespace Momo.BTreeF
open Momo Momo.BTree Momo.BTree.Node
variable {α : Type}

local macro "triv" : tactic => `(tactic| first | rfl | trivial | simp)

/-! ### which state a creator leaves behind -/

theorem relocateCreate_state {σ : Type} (S : Sched) (ic : ICfg α) (r : Reloc) (creator : W → Bool × σ × W) (s0 : σ) (w : W) :
    ((r.relocateCreate S ic creator s0 w).1 = true → (r.relocateCreate S ic creator s0 w).2.1 = s0 ∨
        ∃ w0, (creator w0).1 = true ∧ (r.relocateCreate S ic creator s0 w).2.1 = (creator w0).2.1) ∧
    ((r.relocateCreate S ic creator s0 w).1 = false →
        ∃ w0, (creator w0).1 = false ∧ (r.relocateCreate S ic creator s0 w).2.1 = (creator w0).2.1) := by
  unfold Reloc.relocateCreate
  cases hg : r.src.addBack S w with
  | mk t rest =>
    obtain ⟨a, w1⟩ := rest
    cases t with
    | true => exact ⟨fun _ => Or.inl (by triv), fun hh => (by cases hh)⟩
    | false =>
      simp only
      cases hg2 : r.dst.addBack S w1 with
      | mk t2 rest2 =>
        obtain ⟨b, w2⟩ := rest2
        cases t2 with
        | true => exact ⟨fun _ => Or.inl (by triv), fun hh => (by cases hh)⟩
        | false =>
          simp only
          by_cases hr : ic.reloc = true
          · simp only [hr, if_true]
            cases hcr : creator w2 with
            | mk t3 rest3 =>
              obtain ⟨s, w3⟩ := rest3
              simp only
              exact ⟨fun hh => Or.inr ⟨w2, by rw [hcr]; exact hh, by rw [hcr]⟩, fun hh => ⟨w2, by rw [hcr]; exact hh, by rw [hcr]⟩⟩
          · simp only [hr, Bool.false_eq_true, if_false]
            cases hcl : copyLoop S r.itemCount w2 with
            | mk d rest3 =>
              obtain ⟨t3, w3⟩ := rest3
              cases t3 with
              | true => exact ⟨fun _ => Or.inl (by triv), fun hh => (by cases hh)⟩
              | false =>
                simp only
                cases hcr : creator w3 with
                | mk t4 rest4 =>
                  obtain ⟨s, w4⟩ := rest4
                  simp only
                  exact ⟨fun hh => Or.inr ⟨w3, by rw [hcr]; exact hh, by rw [hcr]⟩, fun hh => ⟨w3, by rw [hcr]; exact hh, by rw [hcr]⟩⟩

theorem addNode_state {σ : Type} (S : Sched) (ic : ICfg α) (cfg : Cfg) (r : Node α) (pos : Pos) (x : α)
    (creator : W → Bool × σ × W) (s0 : σ) (w : W) :
    ((addNode S ic cfg r pos x creator s0 w).1 = true → (addNode S ic cfg r pos x creator s0 w).2.1 = s0 ∨
        ∃ w0, (creator w0).1 = true ∧ (addNode S ic cfg r pos x creator s0 w).2.1 = (creator w0).2.1) ∧
    ((addNode S ic cfg r pos x creator s0 w).1 = false →
        ∃ w0, (creator w0).1 = false ∧ (addNode S ic cfg r pos x creator s0 w).2.1 = (creator w0).2.1) := by
  unfold addNode
  by_cases hnr : needsReloc r (normLeaf r pos) = true
  · simp only [hnr, if_true]
    cases hrun : Reloc.run S (addPlanRoot cfg r (normLeaf r pos).path (normLeaf r pos).idx) {} w with
    | mk t rest =>
      obtain ⟨rl, w1⟩ := rest
      cases t with
      | true => exact ⟨fun _ => Or.inl (by triv), fun hh => (by cases hh)⟩
      | false =>
        simp only
        obtain ⟨a, b⟩ := relocateCreate_state S ic rl creator s0 w1
        cases hrc : rl.relocateCreate S ic creator s0 w1 with
        | mk t2 rest2 =>
          obtain ⟨s, rl', w2⟩ := rest2
          rw [hrc] at a b
          cases t2 with
          | true => exact ⟨fun _ => a rfl, fun hh => (by cases hh)⟩
          | false => exact ⟨fun hh => (by cases hh), fun _ => b rfl⟩
  · simp only [hnr, Bool.false_eq_true, if_false]
    cases hcr : creator w with
    | mk t rest =>
      obtain ⟨s, w1⟩ := rest
      cases t with
      | true => exact ⟨fun _ => Or.inr ⟨w, by rw [hcr], by rw [hcr]⟩, fun hh => (by cases hh)⟩
      | false => exact ⟨fun hh => (by cases hh), fun _ => ⟨w, by rw [hcr], by rw [hcr]⟩⟩

theorem addF_state {σ : Type} (S : Sched) (ic : ICfg α) (cfg : Cfg) (ft : FTree α) (pos : Pos) (x : α)
    (creator : W → Bool × σ × W) (s0 : σ) (w : W) :
    ((addF S ic cfg ft pos x creator s0 w).1 = true → (addF S ic cfg ft pos x creator s0 w).2.1 = s0 ∨
        ∃ w0, (creator w0).1 = true ∧ (addF S ic cfg ft pos x creator s0 w).2.1 = (creator w0).2.1) ∧
    ((addF S ic cfg ft pos x creator s0 w).1 = false →
        ∃ w0, (creator w0).1 = false ∧ (addF S ic cfg ft pos x creator s0 w).2.1 = (creator w0).2.1) := by
  unfold addF
  cases hr : ft.tree.root with
  | some r =>
    simp only
    obtain ⟨a, b⟩ := addNode_state S ic cfg r pos x creator s0 w
    cases hn : addNode S ic cfg r pos x creator s0 w with
    | mk t1 rest =>
      obtain ⟨s1, r1, p1, w1⟩ := rest
      rw [hn] at a b
      cases t1 with
      | true => exact ⟨fun _ => a rfl, fun hh => (by cases hh)⟩
      | false => exact ⟨fun hh => (by cases hh), fun _ => b rfl⟩
  | none =>
    simp only
    cases he : ensureParams S ft w with
    | mk t0 rest0 =>
      obtain ⟨ft1, w1⟩ := rest0
      cases t0 with
      | true => exact ⟨fun _ => Or.inl (by triv), fun hh => (by cases hh)⟩
      | false =>
        simp only
        by_cases hf : S.alloc w1.allocN = true
        · simp only [hf, if_true]
          exact ⟨fun _ => Or.inl (by triv), fun hh => (by cases hh)⟩
        · simp only [hf, Bool.false_eq_true, if_false]
          obtain ⟨a, b⟩ := addNode_state S ic cfg (leaf (leafCap cfg 0 0) []) ⟨[], 0⟩ x creator s0 (w1.tickAlloc.addLeaves 1)
          cases hn : addNode S ic cfg (leaf (leafCap cfg 0 0) []) ⟨[], 0⟩ x creator s0 (w1.tickAlloc.addLeaves 1) with
          | mk t1 rest =>
            obtain ⟨s1, r1, p1, w2⟩ := rest
            rw [hn] at a b
            cases t1 with
            | true => exact ⟨fun _ => a rfl, fun hh => (by cases hh)⟩
            | false => exact ⟨fun hh => (by cases hh), fun _ => b rfl⟩

theorem insertF_state {σ : Type} (S : Sched) (ic : ICfg α) (cfg : Cfg) (lt : α → α → Bool) (ft : FTree α) (x : α)
    (creator : W → Bool × σ × W) (s0 : σ) (w : W) {t : Bool} {s : σ} {ft' : FTree α} {p : Pos} {ins : Bool} {w' : W}
    (h : insertF S ic cfg lt ft x creator s0 w = (t, s, ft', p, ins, w')) :
    (t = true → s = s0 ∨ ∃ w0, (creator w0).1 = true ∧ s = (creator w0).2.1) ∧
    (t = false → ins = true → ∃ w0, (creator w0).1 = false ∧ s = (creator w0).2.1) := by
  have tail : ∀ ub w2, (match addF S ic cfg ft ub x creator s0 w2 with
        | (t, s, ft', p, w2') => (t, s, ft', p, !t, w2')) = (t, s, ft', p, ins, w') →
      (t = true → s = s0 ∨ ∃ w0, (creator w0).1 = true ∧ s = (creator w0).2.1) ∧
      (t = false → ins = true → ∃ w0, (creator w0).1 = false ∧ s = (creator w0).2.1) := by
    intro ub w2 h2
    obtain ⟨a, b⟩ := addF_state S ic cfg ft ub x creator s0 w2
    cases ha : addF S ic cfg ft ub x creator s0 w2 with
    | mk t1 rest =>
      obtain ⟨s1, ft1, p1, w3⟩ := rest
      rw [ha] at h2 a b
      simp only [Prod.mk.injEq] at h2
      obtain ⟨rfl, rfl, rfl, rfl, rfl, rfl⟩ := h2
      exact ⟨fun hh => a hh, fun hh _ => b hh⟩
  unfold insertF at h
  cases hfp : findPosF S cfg.linear (fun y => lt x y) ft.tree w with
  | mk o w1 =>
    rw [hfp] at h
    cases o with
    | none =>
      simp only [Prod.mk.injEq] at h
      obtain ⟨rfl, rfl, rfl, rfl, rfl, rfl⟩ := h
      exact ⟨fun _ => Or.inl (by triv), fun hh => (by cases hh)⟩
    | some ub =>
      simp only at h
      by_cases hcond : (!cfg.multi && decide (ub ≠ ft.tree.beginPos)) = true
      · simp only [hcond, if_true] at h
        cases hel : ft.tree.elemAt? (ft.tree.prev ub) with
        | none => simp only [hel] at h; exact tail _ _ h
        | some y =>
          simp only [hel] at h
          by_cases hf : S.cmp w1.cmpN = true
          · simp only [hf, if_true, Prod.mk.injEq] at h
            obtain ⟨rfl, rfl, rfl, rfl, rfl, rfl⟩ := h
            exact ⟨fun _ => Or.inl (by triv), fun hh => (by cases hh)⟩
          · simp only [hf, Bool.false_eq_true, if_false] at h
            by_cases hnl : (!lt y x) = true
            · simp only [hnl, if_true, Prod.mk.injEq] at h
              obtain ⟨rfl, rfl, rfl, rfl, rfl, rfl⟩ := h
              exact ⟨fun hh => (by cases hh), fun _ hh => (by cases hh)⟩
            · simp only [hnl, Bool.false_eq_true, if_false] at h
              exact tail _ _ h
      · simp only [hcond, Bool.false_eq_true, if_false] at h
        exact tail _ _ h

/-! ### the extracting creator of the merges -/

/-- what one run of `[&iter] (Item* newItem) { iter = pvExtract(iter, newItem); }` does -/
theorem extractCreator_facts (S : Sched) (ic : ICfg α) (hu : ic.unsafeRepl = false) (cfg : Cfg) (src : FTree α)
    (hw : src.WF cfg) (pos : Pos) (hv : src.tree.ValidElem pos) (w0 : W) :
    ((extractCreator S ic cfg src pos w0).1 = true →
        (extractCreator S ic cfg src pos w0).2.1.1 = src ∧ (extractCreator S ic cfg src pos w0).2.2.led = w0.led) ∧
    ((extractCreator S ic cfg src pos w0).1 = false →
        (extractCreator S ic cfg src pos w0).2.1.1.tree.toList = src.tree.toList.eraseIdx (src.tree.idxOf pos) ∧
        (extractCreator S ic cfg src pos w0).2.1.1.WF cfg ∧
        (extractCreator S ic cfg src pos w0).2.1.1.tree.idxOf (extractCreator S ic cfg src pos w0).2.1.2 = src.tree.idxOf pos ∧
        (extractCreator S ic cfg src pos w0).2.1.1.tree.ValidPos (extractCreator S ic cfg src pos w0).2.1.2 ∧
        (extractCreator S ic cfg src pos w0).2.2.led =
          w0.led + ((extractCreator S ic cfg src pos w0).2.1.1.nodeLed - src.nodeLed)) := by
  unfold extractCreator
  cases hrm : removeF S ic cfg .extract src pos w0 with
  | mk t rest =>
    obtain ⟨src', p, w1⟩ := rest
    obtain ⟨a1, a2, _⟩ := removeF_spec S ic cfg .extract src hw pos hv w0 hrm
    simp only
    refine ⟨fun hh => ?_, fun hh => ?_⟩
    · obtain ⟨e1, e2⟩ := a1 hh; exact ⟨e2 hu, e1⟩
    · obtain ⟨b1, b2, b3, b4, b5⟩ := a2 hh
      refine ⟨b1, b2, b3, b4, ?_⟩
      rw [b5]; apply Ledger.ext' <;> simp [itemsDelta]

theorem extractCreator_spec (S : Sched) (ic : ICfg α) (hu : ic.unsafeRepl = false) (cfg : Cfg) (src : FTree α)
    (hw : src.WF cfg) (pos : Pos) (hv : src.tree.ValidElem pos) :
    CreatorSpec (extractCreator S ic cfg src pos) (fun s => s.1.nodeLed - src.nodeLed) := by
  intro w0
  obtain ⟨a, b⟩ := extractCreator_facts S ic hu cfg src hw pos hv w0
  exact ⟨fun hh => (a hh).2, fun hh => (b hh).2.2.2.2⟩

/-! ### the frame rule for two containers, and list facts -/

def Frame2 (w : W) (src dst : FTree α) (w' : W) (src' dst' : FTree α) : Prop :=
  w'.led + src.own + dst.own = w.led + src'.own + dst'.own

theorem Frame2.refl (w : W) (src dst : FTree α) : Frame2 w src dst w src dst := rfl

theorem Frame2.trans {w w1 w2 : W} {s s1 s2 d d1 d2 : FTree α} (h1 : Frame2 w s d w1 s1 d1) (h2 : Frame2 w1 s1 d1 w2 s2 d2) :
    Frame2 w s d w2 s2 d2 := by
  unfold Frame2 at *
  have a1 := congrArg Ledger.leaves h1; have a2 := congrArg Ledger.inners h1; have a3 := congrArg Ledger.items h1
  have a4 := congrArg Ledger.aux h1; have a5 := congrArg Ledger.params h1; have a6 := congrArg Ledger.crews h1
  have b1 := congrArg Ledger.leaves h2; have b2 := congrArg Ledger.inners h2; have b3 := congrArg Ledger.items h2
  have b4 := congrArg Ledger.aux h2; have b5 := congrArg Ledger.params h2; have b6 := congrArg Ledger.crews h2
  simp only [Ledger.add_leaves, Ledger.add_inners, Ledger.add_items, Ledger.add_aux, Ledger.add_params, Ledger.add_crews] at *
  apply Ledger.ext' <;> simp only [Ledger.add_leaves, Ledger.add_inners, Ledger.add_items, Ledger.add_aux, Ledger.add_params,
    Ledger.add_crews] <;> omega

theorem Frame2.of_led_eq {w0 w w' : W} {s d s' d' : FTree α} (he : w0.led = w.led) (h : Frame2 w0 s d w' s' d') :
    Frame2 w s d w' s' d' := by
  unfold Frame2 at *; rw [← he]; exact h

/-- the destination alone moved -/
theorem Frame2.of_dst {w w' : W} {s d d' : FTree α} (h : Frame w d w' d') : Frame2 w s d w' s d' := by
  unfold Frame2 Frame at *
  have a1 := congrArg Ledger.leaves h; have a2 := congrArg Ledger.inners h; have a3 := congrArg Ledger.items h
  have a4 := congrArg Ledger.aux h; have a5 := congrArg Ledger.params h; have a6 := congrArg Ledger.crews h
  simp only [Ledger.add_leaves, Ledger.add_inners, Ledger.add_items, Ledger.add_aux, Ledger.add_params, Ledger.add_crews] at *
  apply Ledger.ext' <;> simp only [Ledger.add_leaves, Ledger.add_inners, Ledger.add_items, Ledger.add_aux, Ledger.add_params,
    Ledger.add_crews] <;> omega

theorem perm_cons_eraseIdx (l : List α) (i : Nat) (x : α) (h : l[i]? = some x) : (x :: l.eraseIdx i).Perm l := by
  have hlt := lt_of_getElem? h
  rw [List.eraseIdx_eq_take_drop_succ]
  have : l = l.take i ++ x :: l.drop (i + 1) := by
    conv => lhs; rw [← List.take_append_drop i l]
    rw [List.drop_eq_getElem_cons hlt]
    congr 2
    rw [List.getElem?_eq_getElem hlt] at h; exact Option.some.inj h
  conv => rhs; rw [this]
  exact List.perm_middle.symm

/-- moving element `i` of `l` to position `j` of `d` conserves the union -/
theorem perm_move (l d : List α) (i j : Nat) (x : α) (h : l[i]? = some x) (hj : j ≤ d.length) :
    (l.eraseIdx i ++ d.insertIdx j x).Perm (l ++ d) := by
  have h1 : (d.insertIdx j x).Perm (x :: d) := List.perm_insertIdx x d hj
  have h2 : (l.eraseIdx i ++ x :: d).Perm (x :: (l.eraseIdx i ++ d)) := List.perm_middle
  have h3 : (x :: (l.eraseIdx i ++ d)).Perm (l ++ d) := by
    have := (perm_cons_eraseIdx l i x h).append_right d
    simpa using this
  exact ((List.Perm.append_left _ h1).trans h2).trans h3

theorem sublist_insertIdx (d : List α) (j : Nat) (x : α) (hj : j ≤ d.length) : d.Sublist (d.insertIdx j x) := by
  rw [insertIdx_eq_take_drop d j x hj]
  conv => lhs; rw [← List.take_append_drop j d]
  exact List.Sublist.append (List.Sublist.refl _) (List.sublist_cons_self _ _)

theorem length_insertIdx' (d : List α) (j : Nat) (x : α) (hj : j ≤ d.length) : (d.insertIdx j x).length = d.length + 1 :=
  List.length_insertIdx_of_le_length hj x

section
variable (lt : α → α → Bool)

/-- what the two containers satisfy between the steps of a merge -/
structure MergeInv (cfg : Cfg) (src dst : FTree α) : Prop where
  ws : src.WF cfg
  wd : dst.WF cfg
  ss : SortedBy lt cfg.multi src.tree.toList
  sd : SortedBy lt cfg.multi dst.tree.toList

/-- the outcome of a (possibly interrupted) merge -/
structure MergeOut (cfg : Cfg) (w : W) (src dst : FTree α) (w' : W) (src' dst' : FTree α) : Prop where
  inv : MergeInv lt cfg src' dst'
  perm : (src'.tree.toList ++ dst'.tree.toList).Perm (src.tree.toList ++ dst.tree.toList)
  subS : src'.tree.toList.Sublist src.tree.toList
  subD : dst.tree.toList.Sublist dst'.tree.toList
  frame : Frame2 w src dst w' src' dst'

theorem MergeOut.refl (cfg : Cfg) (w w' : W) (hl : w'.led = w.led) (src dst : FTree α) (hi : MergeInv lt cfg src dst) :
    MergeOut lt cfg w src dst w' src dst :=
  ⟨hi, List.Perm.refl _, List.Sublist.refl _, List.Sublist.refl _, by unfold Frame2; rw [hl]⟩

theorem MergeOut.trans {cfg : Cfg} {w w1 w2 : W} {s s1 s2 d d1 d2 : FTree α} (h1 : MergeOut lt cfg w s d w1 s1 d1)
    (h2 : MergeOut lt cfg w1 s1 d1 w2 s2 d2) : MergeOut lt cfg w s d w2 s2 d2 :=
  ⟨h2.inv, h2.perm.trans h1.perm, h2.subS.trans h1.subS, h1.subD.trans h2.subD, h1.frame.trans h2.frame⟩

/-- one element goes over by `pvAdd` / `pvInsert` with the extracting creator: from the facts of the two halves -/
theorem moveOne (cfg : Cfg) (w w' : W) (src dst src1 dst1 : FTree α) (hi : MergeInv lt cfg src dst) (i j : Nat) (x : α)
    (hx : src.tree.toList[i]? = some x) (hj : j ≤ dst.tree.toList.length)
    (e1 : src1.tree.toList = src.tree.toList.eraseIdx i) (e2 : dst1.tree.toList = dst.tree.toList.insertIdx j x)
    (hw1 : src1.WF cfg) (hw2 : dst1.WF cfg) (hsd : SortedBy lt cfg.multi dst1.tree.toList)
    (hl : w'.led = w.led + (src1.nodeLed - src.nodeLed) + (dst1.nodeLed - dst.nodeLed)) :
    MergeOut lt cfg w src dst w' src1 dst1 := by
  have hlt := lt_of_getElem? hx
  refine ⟨⟨hw1, hw2, by rw [e1]; exact sortedBy_eraseIdx lt _ _ _ hi.ss, hsd⟩, ?_, ?_, ?_, ?_⟩
  · rw [e1, e2]; exact perm_move _ _ i j x hx hj
  · rw [e1]; exact List.eraseIdx_sublist _ _
  · rw [e2]; exact sublist_insertIdx _ j x hj
  · unfold Frame2
    rw [hl]
    have l1 : (src1.tree.toList.length : Int) = src.tree.toList.length - 1 := by
      rw [e1, List.length_eraseIdx_of_lt hlt]; omega
    have l2 : (dst1.tree.toList.length : Int) = dst.tree.toList.length + 1 := by
      rw [e2, length_insertIdx' _ j x hj]; omega
    apply Ledger.ext' <;> simp <;> omega

/-! ### `pvMergeTo` -/

theorem mergeGenericF_go_spec (S : Sched) (ic : ICfg α) (hu : ic.unsafeRepl = false) (cfg : Cfg) (hmax : 0 < cfg.maxCap)
    (ho : Order lt) (fuel : Nat) (src dst : FTree α) (hi : MergeInv lt cfg src dst) (pos : Pos)
    (hv : src.tree.ValidPos pos) (hf : src.tree.toList.length ≤ src.tree.idxOf pos + fuel) (w : W)
    {t : Bool} {src' dst' : FTree α} {w' : W} (h : mergeGenericF.go S ic cfg lt fuel src dst pos w = (t, src', dst', w')) :
    MergeOut lt cfg w src dst w' src' dst' ∧
    (t = false → dst'.tree.toList =
      (src.tree.toList.drop (src.tree.idxOf pos)).foldl (Spec.insert1 lt cfg.multi) dst.tree.toList) := by
  induction fuel generalizing src dst pos w with
  | zero =>
    have hle := validPos_idx_le_len cfg src.tree hi.ws.tree pos hv
    have hidx : src.tree.idxOf pos = src.tree.toList.length := by omega
    simp only [mergeGenericF.go, Prod.mk.injEq] at h
    obtain ⟨rfl, rfl, rfl, rfl⟩ := h
    exact ⟨MergeOut.refl lt cfg _ _ rfl _ _ hi, fun _ => (by rw [hidx]; simp)⟩
  | succ n ih =>
    simp only [mergeGenericF.go] at h
    by_cases hend : pos = src.tree.endPos
    · rw [if_pos hend] at h
      simp only [Prod.mk.injEq] at h
      obtain ⟨rfl, rfl, rfl, rfl⟩ := h
      have hidx := (tree_pos_eq_end_iff cfg src.tree hi.ws.tree pos hv).mp hend
      exact ⟨MergeOut.refl lt cfg _ _ rfl _ _ hi, fun _ => (by rw [hidx]; simp)⟩
    · rw [if_neg hend] at h
      have hlt : src.tree.idxOf pos < src.tree.toList.length := by
        have h1 := validPos_idx_le_len cfg src.tree hi.ws.tree pos hv
        have h2 := mt (tree_pos_eq_end_iff cfg src.tree hi.ws.tree pos hv).mpr hend
        omega
      have hve := validElem_of_idx_lt cfg src.tree hi.ws.tree pos hv hlt
      obtain ⟨x, hx1, hx2⟩ := tree_elemAt_spec cfg src.tree hi.ws.tree pos hve
      have hdrop : src.tree.toList.drop (src.tree.idxOf pos) = x :: src.tree.toList.drop (src.tree.idxOf pos + 1) := by
        rw [List.drop_eq_getElem_cons hlt]; congr 1
        rw [List.getElem?_eq_getElem hlt] at hx2; exact Option.some.inj hx2
      simp only [hx1] at h
      obtain ⟨j1, j2, j3, j4, _, _⟩ := tree_insert_insert1 lt ho cfg hmax dst.tree hi.wd.tree hi.sd x
      obtain ⟨c1, _⟩ := tree_insert_spec lt ho cfg hmax dst.tree hi.wd.tree hi.sd x
      have hcs := extractCreator_spec S ic hu cfg src hi.ws pos hve
      cases hins : insertF S ic cfg lt dst x (extractCreator S ic cfg src pos) (src, pos) w with
      | mk t1 rest =>
        obtain ⟨st, dst1, p1, ins1, w1⟩ := rest
        obtain ⟨a1, a2, a3⟩ := insertF_spec S ic cfg hmax lt ho dst hi.wd hi.sd x _ (src, pos) _ hcs w hins
        obtain ⟨q1, q2⟩ := insertF_state S ic cfg lt dst x _ (src, pos) w hins
        rw [hins] at h
        obtain ⟨src1, pp⟩ := st
        cases t1 with
        | true =>
          simp only [Prod.mk.injEq] at h
          obtain ⟨rfl, rfl, rfl, rfl⟩ := h
          obtain ⟨e1, e2⟩ := a1 rfl
          have hsrc : src1 = src := by
            rcases q1 rfl with hq | ⟨w0, hq1, hq2⟩
            · exact congrArg Prod.fst hq
            · have := (extractCreator_facts S ic hu cfg src hi.ws pos hve w0).1 hq1
              rw [← hq2] at this; exact this.1
          subst hsrc
          refine ⟨⟨⟨hi.ws, a3, hi.ss, by rw [e1]; exact hi.sd⟩, by rw [e1], List.Sublist.refl _, by rw [e1]; exact List.Sublist.refl _, ?_⟩,
            fun hh => (by cases hh)⟩
          exact Frame2.of_dst (Frame.of_delta 0 (by rw [e2]; apply Ledger.ext' <;> simp) (by rw [e1]; simp))
        | false =>
          obtain ⟨b1, b2, b3, b4, b5⟩ := a2 rfl
          cases ins1 with
          | true =>
            simp only at h
            obtain ⟨w0, hq1, hq2⟩ := q2 rfl rfl
            obtain ⟨f1, f2, f3, f4, _⟩ := (extractCreator_facts S ic hu cfg src hi.ws pos hve w0).2 hq1
            rw [← hq2] at f1 f2 f3 f4
            simp only at f1 f2 f3 f4
            -- the destination got `x` at its upper bound
            have hnot : ¬ (cfg.multi = false ∧ ∃ y ∈ dst.tree.toList, equiv lt y x = true) := by
              intro hc; rw [if_pos hc] at c1; rw [← b3] at c1; cases c1.2.1
            rw [if_neg hnot] at c1
            have hub := (upperIdx_facts lt ho dst.tree.toList x (hi.sd.weak ho)).1
            have hstep : MergeOut lt cfg w src dst w1 src1 dst1 := by
              refine moveOne lt cfg w w1 src dst src1 dst1 hi _ _ x hx2 hub f1 (by rw [b1]; exact c1.1) f2 a3
                (by rw [b1]; exact j4) ?_
              rw [b5 rfl]
            obtain ⟨i1, i2⟩ := ih src1 dst1 hstep.inv pp f4 (by rw [f1, f3, List.length_eraseIdx_of_lt hlt]; omega) w1 h
            refine ⟨hstep.trans lt i1, fun hh => ?_⟩
            rw [i2 hh, f1, f3, b1, j1, hdrop]
            simp only [List.foldl_cons]
            congr 1
            rw [List.eraseIdx_eq_take_drop_succ]
            have h1 : (src.tree.toList.take (src.tree.idxOf pos)).length = src.tree.idxOf pos := by simp; omega
            rw [List.drop_append_of_le_length (by omega), List.drop_of_length_le (by omega)]
            simp
          | false =>
            simp only at h
            obtain ⟨_, e2, e3⟩ := b4 rfl
            subst e2
            obtain ⟨n1, n2⟩ := tree_next_spec cfg src.tree hi.ws.tree pos hve
            obtain ⟨i1, i2⟩ := ih src dst1 hi (src.tree.next pos) n2 (by omega) w1 h
            refine ⟨(MergeOut.refl lt cfg w w1 e3 src dst1 hi).trans lt i1, fun hh => ?_⟩
            have hsame : (Tree.insert lt cfg dst1.tree x).1 = dst1.tree := j2 (by rw [← b3])
            rw [i2 hh, n1, hdrop]
            simp only [List.foldl_cons]
            rw [← j1, hsame]


/-- the whole `pvMergeTo` -/
theorem mergeGenericF_spec (S : Sched) (ic : ICfg α) (hu : ic.unsafeRepl = false) (cfg : Cfg) (hmax : 0 < cfg.maxCap)
    (ho : Order lt) (src dst : FTree α) (hi : MergeInv lt cfg src dst) (w : W)
    {t : Bool} {src' dst' : FTree α} {w' : W} (h : mergeGenericF S ic cfg lt src dst w = (t, src', dst', w')) :
    MergeOut lt cfg w src dst w' src' dst' ∧
    (t = false → dst'.tree.toList = src.tree.toList.foldl (Spec.insert1 lt cfg.multi) dst.tree.toList) := by
  obtain ⟨b1, b2, _, _⟩ := tree_begin_end_spec cfg src.tree hi.ws.tree
  unfold mergeGenericF at h
  have := mergeGenericF_go_spec lt S ic hu cfg hmax ho src.tree.count src dst hi src.tree.beginPos b2
    (by rw [b1, hi.ws.tree.count]; omega) w h
  rw [b1] at this
  simpa using this

/-! ### `pvMergeToLinear` -/

theorem isOrderedF_spec (S : Sched) (cfg : Cfg) (a b : α) (w : W) :
    (isOrderedF S lt cfg a b w).2.led = w.led ∧
    (∀ r, (isOrderedF S lt cfg a b w).1 = some r → r = Tree.isOrderedItems lt cfg a b) := by
  unfold isOrderedF
  by_cases hf : S.cmp w.cmpN = true
  · simp [hf]
  · simp [hf]

theorem skipF_spec (S : Sched) (cfg : Cfg) (dst : Tree α) (x : α) (fuel : Nat) (dpos : Pos) (w : W) :
    (skipF S lt cfg dst x fuel dpos w).2.led = w.led ∧
    (∀ dp, (skipF S lt cfg dst x fuel dpos w).1 = some dp → dp = Tree.mergeLinear.skip lt cfg dst x fuel dpos) := by
  induction fuel generalizing dpos w with
  | zero => simp [skipF, Tree.mergeLinear.skip]
  | succ n ih =>
    simp only [skipF, Tree.mergeLinear.skip]
    by_cases hend : dpos = dst.endPos
    · simp [hend]
    · simp only [hend, if_false]
      cases hy : dst.elemAt? dpos with
      | none => simp
      | some y =>
        simp only
        obtain ⟨a, b⟩ := isOrderedF_spec lt S cfg y x w
        cases hio : isOrderedF S lt cfg y x w with
        | mk o w1 =>
          rw [hio] at a b
          simp only at a b
          cases o with
          | none => exact ⟨a, fun dp hh => (by cases hh)⟩
          | some r =>
            have hr := b r rfl
            subst hr
            cases hb : Tree.isOrderedItems lt cfg y x with
            | true =>
              simp only [if_true]
              obtain ⟨i1, i2⟩ := ih (dst.next dpos) w1
              exact ⟨by rw [i1, a], i2⟩
            | false =>
              simp only [Bool.false_eq_true, if_false]
              exact ⟨a, fun dp hh => (by simpa using hh.symm)⟩

theorem mergeLinearF_go_spec (S : Sched) (ic : ICfg α) (hu : ic.unsafeRepl = false) (cfg : Cfg) (hmax : 0 < cfg.maxCap)
    (ho : Order lt) (fuel : Nat) (src dst : FTree α) (hi : MergeInv lt cfg src dst) (pos dpos : Pos)
    (hv : src.tree.ValidPos pos) (hvd : dst.tree.ValidPos dpos)
    (hf : src.tree.toList.length ≤ src.tree.idxOf pos + fuel)
    (hinv : ∀ j e i s, j < dst.tree.idxOf dpos → dst.tree.toList[j]? = some e → src.tree.idxOf pos ≤ i →
      src.tree.toList[i]? = some s → Ord lt cfg.multi e s) (w : W)
    {t : Bool} {src' dst' : FTree α} {w' : W}
    (h : mergeLinearF.go S ic cfg lt fuel src dst pos dpos w = (t, src', dst', w')) :
    MergeOut lt cfg w src dst w' src' dst' ∧
    (t = false → dst'.tree.toList =
      (src.tree.toList.drop (src.tree.idxOf pos)).foldl (Spec.insert1 lt cfg.multi) dst.tree.toList) := by
  induction fuel generalizing src dst pos dpos w with
  | zero =>
    have hle := validPos_idx_le_len cfg src.tree hi.ws.tree pos hv
    have hidx : src.tree.idxOf pos = src.tree.toList.length := by omega
    simp only [mergeLinearF.go, Prod.mk.injEq] at h
    obtain ⟨rfl, rfl, rfl, rfl⟩ := h
    exact ⟨MergeOut.refl lt cfg _ _ rfl _ _ hi, fun _ => (by rw [hidx]; simp)⟩
  | succ n ih =>
    simp only [mergeLinearF.go] at h
    by_cases hend : pos = src.tree.endPos
    · rw [if_pos hend] at h
      simp only [Prod.mk.injEq] at h
      obtain ⟨rfl, rfl, rfl, rfl⟩ := h
      have hidx := (tree_pos_eq_end_iff cfg src.tree hi.ws.tree pos hv).mp hend
      exact ⟨MergeOut.refl lt cfg _ _ rfl _ _ hi, fun _ => (by rw [hidx]; simp)⟩
    · rw [if_neg hend] at h
      have hws := hi.ws.tree
      have hwd := hi.wd.tree
      have hss := hi.ss
      have hsd := hi.sd
      have hlt : src.tree.idxOf pos < src.tree.toList.length := by
        have h1 := validPos_idx_le_len cfg src.tree hws pos hv
        have h2 := mt (tree_pos_eq_end_iff cfg src.tree hws pos hv).mpr hend
        omega
      have hve := validElem_of_idx_lt cfg src.tree hws pos hv hlt
      obtain ⟨x, hx1, hx2⟩ := tree_elemAt_spec cfg src.tree hws pos hve
      have hdrop : src.tree.toList.drop (src.tree.idxOf pos) = x :: src.tree.toList.drop (src.tree.idxOf pos + 1) := by
        rw [List.drop_eq_getElem_cons hlt]; congr 1
        rw [List.getElem?_eq_getElem hlt] at hx2; exact Option.some.inj hx2
      simp only [hx1] at h
      have hfd : dst.tree.toList.length ≤ dst.tree.idxOf dpos + (dst.tree.count + 1) := by rw [hwd.count]; omega
      obtain ⟨k1, k2, k3, k4⟩ := skip_spec lt cfg dst.tree hwd x (dst.tree.count + 1) dpos hvd hfd
      obtain ⟨sk1, sk2⟩ := skipF_spec lt S cfg dst.tree x (dst.tree.count + 1) dpos w
      cases hsk : skipF S lt cfg dst.tree x (dst.tree.count + 1) dpos w with
      | mk o w1 =>
        rw [hsk] at h sk1 sk2
        simp only at sk1 sk2
        cases o with
        | none =>
          simp only [Prod.mk.injEq] at h
          obtain ⟨rfl, rfl, rfl, rfl⟩ := h
          exact ⟨MergeOut.refl lt cfg _ _ sk1 _ _ hi, fun hh => (by cases hh)⟩
        | some dp =>
          have hdp := sk2 dp rfl
          rw [← hdp] at k1 k2 k3 k4
          simp only at h
          have hbefore : ∀ j y, j < dst.tree.idxOf dp → dst.tree.toList[j]? = some y → Ord lt cfg.multi y x := by
            intro j y hj hy
            by_cases hjq : j < dst.tree.idxOf dpos
            · exact hinv j y (src.tree.idxOf pos) x hjq hy (Nat.le_refl _) hx2
            · exact k3 j y (by omega) hj hy
          have hsrc : ∀ i s, src.tree.idxOf pos < i → src.tree.toList[i]? = some s → Ord lt cfg.multi x s := by
            intro i s hi' hs'
            have hp := (sortedBy_iff_ord lt cfg.multi _).mp hss
            have hil := lt_of_getElem? hs'
            have := List.pairwise_iff_getElem.mp hp (src.tree.idxOf pos) i hlt hil hi'
            rw [List.getElem?_eq_getElem hlt] at hx2
            rw [List.getElem?_eq_getElem hil] at hs'
            cases hx2; cases hs'; exact this
          have hgd := isGreater_spec lt dst.tree cfg hwd dp k1 x
          have hdple := validPos_idx_le_len cfg dst.tree hwd dp k1
          -- the test `multiKey || pvIsGreater(dstIter, key)`
          obtain ⟨g1, g2, _⟩ := isGreaterF_spec S lt dst.tree dp x w1
          have hcondF : ∀ o2 w2, (if cfg.multi then ((some true : Option Bool), w1) else isGreaterF S lt dst.tree dp x w1) = (o2, w2) →
              w2.led = w.led ∧ ∀ b, o2 = some b → b = (cfg.multi || Tree.isGreater lt dst.tree dp x) := by
            intro o2 w2 hh
            by_cases hm : cfg.multi = true
            · simp only [hm, if_true, Prod.mk.injEq] at hh
              obtain ⟨rfl, rfl⟩ := hh
              exact ⟨sk1, fun b hb => (by cases hb; simp [hm])⟩
            · simp only [hm, Bool.false_eq_true, if_false] at hh
              rw [hh] at g1 g2
              refine ⟨by rw [g1, sk1], fun b hb => ?_⟩
              have := g2 b hb
              simp only [Bool.not_eq_true] at hm
              rw [this, hm]; simp
          cases hc : (if cfg.multi then ((some true : Option Bool), w1) else isGreaterF S lt dst.tree dp x w1) with
          | mk o2 w2 =>
            obtain ⟨hw2, hval⟩ := hcondF o2 w2 hc
            rw [hc] at h
            cases o2 with
            | none =>
              simp only [Prod.mk.injEq] at h
              obtain ⟨rfl, rfl, rfl, rfl⟩ := h
              exact ⟨MergeOut.refl lt cfg _ _ hw2 _ _ hi, fun hh => (by cases hh)⟩
            | some bcond =>
              have hb := hval bcond rfl
              cases bcond with
              | true =>
                simp only at h
                have hcond : (cfg.multi || Tree.isGreater lt dst.tree dp x) = true := hb.symm
                have hat : ∀ y, dst.tree.toList[dst.tree.idxOf dp]? = some y → lt x y = true := by
                  intro y hy
                  have hno := k4 y hy
                  rcases Bool.or_eq_true _ _ |>.mp hcond with hm | hgr
                  · unfold BTree.Ord at hno; rw [hm] at hno
                    simp only [if_true] at hno
                    cases hh : lt x y with
                    | true => rfl
                    | false => exact absurd hh hno
                  · rw [hgd, hy] at hgr; exact hgr
                have hins := insert1_at lt ho cfg.multi dst.tree.toList (dst.tree.idxOf dp) x hsd hdple hbefore hat
                obtain ⟨a1, a2, a3, a4⟩ := tree_add_spec cfg hmax dst.tree hwd dp k1 x
                have hsorted : SortedBy lt cfg.multi (dst.tree.add cfg dp x).1.toList := by
                  rw [a1, ← hins]; exact insert1_sorted lt ho cfg.multi _ x hsd
                have hcs := extractCreator_spec S ic hu cfg src hi.ws pos hve
                cases hadd : addF S ic cfg dst dp x (extractCreator S ic cfg src pos) (src, pos) w2 with
                | mk t1 rest =>
                  obtain ⟨st, dst1, q, w3⟩ := rest
                  obtain ⟨c1, c2, c3⟩ := addF_spec S ic cfg hmax dst hi.wd dp k1 x _ (src, pos) _ hcs w2 hadd
                  obtain ⟨q1, q2⟩ := addF_state S ic cfg dst dp x (extractCreator S ic cfg src pos) (src, pos) w2
                  rw [hadd] at h q1 q2
                  simp only at q1 q2
                  obtain ⟨src1, pp⟩ := st
                  cases t1 with
                  | true =>
                    simp only [Prod.mk.injEq] at h
                    obtain ⟨rfl, rfl, rfl, rfl⟩ := h
                    obtain ⟨e1, e2⟩ := c1 rfl
                    have hsrc1 : src1 = src := by
                      rcases q1 rfl with hq | ⟨w0, hq1, hq2⟩
                      · exact congrArg Prod.fst hq
                      · have := (extractCreator_facts S ic hu cfg src hi.ws pos hve w0).1 hq1
                        rw [← hq2] at this; exact this.1
                    subst hsrc1
                    refine ⟨⟨⟨hi.ws, c3, hi.ss, by rw [e1]; exact hi.sd⟩, by rw [e1], List.Sublist.refl _,
                      by rw [e1]; exact List.Sublist.refl _, ?_⟩, fun hh => (by cases hh)⟩
                    exact Frame2.of_led_eq hw2 (Frame2.of_dst (Frame.of_delta 0 (by rw [e2]; apply Ledger.ext' <;> simp) (by rw [e1]; simp)))
                  | false =>
                    simp only at h
                    obtain ⟨d1, d2, d3⟩ := c2 rfl
                    obtain ⟨w0, hq1, hq2⟩ := q2 rfl
                    obtain ⟨f1, f2, f3, f4, _⟩ := (extractCreator_facts S ic hu cfg src hi.ws pos hve w0).2 hq1
                    rw [← hq2] at f1 f2 f3 f4
                    simp only at f1 f2 f3 f4
                    have hstep : MergeOut lt cfg w src dst w3 src1 dst1 := by
                      refine moveOne lt cfg w w3 src dst src1 dst1 hi _ _ x hx2 hdple f1 (by rw [d1]; exact a1) f2 c3
                        (by rw [d1]; exact hsorted) ?_
                      rw [d3, hw2]
                    have hss' : SortedBy lt cfg.multi src1.tree.toList := hstep.inv.ss
                    obtain ⟨m1, m2⟩ := tree_next_spec cfg (dst.tree.add cfg dp x).1 a2 _ a4
                    have hsub : src1.tree.toList.drop (src1.tree.idxOf pp) = src.tree.toList.drop (src.tree.idxOf pos + 1) := by
                      rw [f1, f3, List.eraseIdx_eq_take_drop_succ]
                      have h1 : (src.tree.toList.take (src.tree.idxOf pos)).length = src.tree.idxOf pos := by simp; omega
                      rw [List.drop_append_of_le_length (by omega), List.drop_of_length_le (by omega)]
                      simp
                    obtain ⟨i1, i2⟩ := ih src1 dst1 hstep.inv pp (dst1.tree.next q) f4 (by rw [d1, d2]; exact m2)
                      (by rw [f1, f3, List.length_eraseIdx_of_lt hlt]; omega)
                      (by
                        intro j e i s hj he hi' hs'
                        rw [d1, d2, m1, a3] at hj
                        rw [d1, a1] at he
                        rw [f3] at hi'
                        have hs'' : src.tree.toList[i + 1]? = some s := by
                          rw [f1, List.getElem?_eraseIdx_of_ge hi'] at hs'; exact hs'
                        have hxs := hsrc (i + 1) s (by omega) hs''
                        by_cases hjq : j < dst.tree.idxOf dp
                        · rw [List.getElem?_insertIdx_of_lt hjq] at he
                          exact ord_trans lt ho cfg.multi e x s (hbefore j e hjq he) hxs
                        · have : j = dst.tree.idxOf dp := by omega
                          subst this
                          rw [List.getElem?_insertIdx_self, if_pos hdple] at he
                          cases he; exact hxs) w3 h
                    refine ⟨hstep.trans lt i1, fun hh => ?_⟩
                    rw [i2 hh, hsub, d1, a1, hdrop, List.foldl_cons, hins]
              | false =>
                simp only at h
                have hcond : (cfg.multi || Tree.isGreater lt dst.tree dp x) = false := hb.symm
                simp only [Bool.or_eq_false_iff] at hcond
                obtain ⟨hm, hng⟩ := hcond
                rw [hgd] at hng
                cases hy : dst.tree.toList[dst.tree.idxOf dp]? with
                | none => rw [hy] at hng; cases hng
                | some y =>
                  rw [hy] at hng
                  simp only at hng
                  have hno := k4 y hy
                  have hyx : lt y x = false := by
                    unfold BTree.Ord at hno; rw [hm] at hno
                    simp only [Bool.false_eq_true, if_false] at hno
                    cases hh : lt y x with
                    | false => rfl
                    | true => exact absurd hh hno
                  have hskip : Spec.insert1 lt cfg.multi dst.tree.toList x = dst.tree.toList := by
                    unfold Spec.insert1
                    rw [if_pos ⟨hm, (any_equiv_iff lt _ _).mpr ⟨y, List.mem_of_getElem? hy, by
                      simp only [equiv, Bool.and_eq_true, Bool.not_eq_true']; exact ⟨hyx, hng⟩⟩⟩]
                  obtain ⟨n1, n2⟩ := tree_next_spec cfg src.tree hws pos hve
                  have hdlt : dst.tree.idxOf dp < dst.tree.toList.length := lt_of_getElem? hy
                  have hved := validElem_of_idx_lt cfg dst.tree hwd dp k1 hdlt
                  obtain ⟨d1, d2⟩ := tree_next_spec cfg dst.tree hwd dp hved
                  obtain ⟨i1, i2⟩ := ih src dst hi (src.tree.next pos) (dst.tree.next dp) n2 d2 (by omega)
                    (by
                      intro j e i s hj he hi' hs'
                      rw [d1] at hj; rw [n1] at hi'
                      have hxs := hsrc i s (by omega) hs'
                      by_cases hjq : j < dst.tree.idxOf dp
                      · exact ord_trans lt ho cfg.multi e x s (hbefore j e hjq he) hxs
                      · have : j = dst.tree.idxOf dp := by omega
                        subst this
                        rw [hy] at he; cases he
                        unfold BTree.Ord at hxs ⊢
                        rw [hm] at hxs ⊢
                        simp only [Bool.false_eq_true, if_false] at hxs ⊢
                        cases hh : lt y s with
                        | true => rfl
                        | false =>
                          have := ho.le_trans s y x hh hng
                          rw [this] at hxs; cases hxs) w2 h
                  refine ⟨(MergeOut.refl lt cfg w w2 hw2 src dst hi).trans lt i1, fun hh => ?_⟩
                  rw [i2 hh, n1, hdrop, List.foldl_cons, hskip]

theorem mergeLinearF_spec (S : Sched) (ic : ICfg α) (hu : ic.unsafeRepl = false) (cfg : Cfg) (hmax : 0 < cfg.maxCap)
    (ho : Order lt) (src dst : FTree α) (hi : MergeInv lt cfg src dst) (w : W)
    {t : Bool} {src' dst' : FTree α} {w' : W} (h : mergeLinearF S ic cfg lt src dst w = (t, src', dst', w')) :
    MergeOut lt cfg w src dst w' src' dst' ∧
    (t = false → dst'.tree.toList = src.tree.toList.foldl (Spec.insert1 lt cfg.multi) dst.tree.toList) := by
  obtain ⟨b1, b2, _, _⟩ := tree_begin_end_spec cfg src.tree hi.ws.tree
  obtain ⟨c1, c2, _, _⟩ := tree_begin_end_spec cfg dst.tree hi.wd.tree
  unfold mergeLinearF at h
  have := mergeLinearF_go_spec lt S ic hu cfg hmax ho (src.tree.count + dst.tree.count + 1) src dst hi src.tree.beginPos
    dst.tree.beginPos b2 c2 (by rw [b1, hi.ws.tree.count]; omega) (by intro j e i s hj; rw [c1] at hj; omega) w h
  rw [b1] at this
  simpa using this

end

end Momo.BTreeF
