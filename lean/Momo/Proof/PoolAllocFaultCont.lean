import Momo.Proof.PoolAllocFault
/-!
  C20, layer C with a failing base allocator: the container-level invariant is preserved by calls in which
  allocations throw; every change of the allocator-level state is a history of `FOp`s whose successful
  single-object requests are those of the container calls (so "one node type" transfers).
-/
namespace Momo.PoolAlloc

/-! ### the error state is final; entities are not touched by allocations -/

theorem factStep_of_err {e p : Nat} {cs : CSys} {er : Err} (h : cs.sys.err = some er) (a : FAct) :
    (factStep e p cs a).sys = cs.sys := by
  cases a with
  | ok a => exact actStep_of_err h a
  | allocFail cls n => simp [factStep, fstep_of_err h]

theorem facts_of_err {e p : Nat} {cs : CSys} {er : Err} (h : cs.sys.err = some er) (acts : List FAct) :
    (acts.foldl (factStep e p) cs).sys = cs.sys := by
  induction acts generalizing cs with
  | nil => rfl
  | cons a acts ih =>
    rw [List.foldl_cons, ih (by rw [factStep_of_err h]; exact h), factStep_of_err h]

theorem factStep_ents (e p : Nat) (cs : CSys) (a : FAct) : (factStep e p cs a).ents = cs.ents := by
  cases a with
  | ok a => exact actStep_ents e p cs a
  | allocFail cls n => rfl

theorem facts_ents (e p : Nat) (cs : CSys) (acts : List FAct) : (acts.foldl (factStep e p) cs).ents = cs.ents := by
  induction acts generalizing cs with
  | nil => rfl
  | cons a acts ih => rw [List.foldl_cons, ih, factStep_ents]

/-! ### a failed allocation by an entity -/

theorem allocFail_cinv {cs : CSys} (hc : CInv cs) (h0 : cs.sys.err = none) (p : Nat) (cls : Cls) (n : Nat)
    (hok : (fstep cs.sys (.allocFail p cls n)).err = none) :
    CInv { cs with sys := fstep cs.sys (.allocFail p cls n) } := by
  have hinv := fstep_inv hc.inv (.allocFail p cls n) hok
  rw [fstep_eq_of_ok h0] at hok hinv ⊢
  simp only at hok hinv ⊢
  obtain ⟨st, hl, hn⟩ := doAllocFail_ok hok
  obtain ⟨hst, _⟩ := livePool_eq_some.mp hl
  obtain ⟨hother, hp⟩ := doAllocFail_pools hl cls hn
  obtain ⟨h1, h2⟩ := pools_same_refs hc hst hother ⟨_, hp, rfl⟩
  refine ⟨hinv, hc.nodupE, ?_, h1, h2⟩
  intro b hb
  rw [doAllocFail_blocks] at hb
  exact hc.owned b hb

theorem factStep_cinv {cs : CSys} (hc : CInv cs) {e p : Nat} {en : Ent} (hen : en ∈ cs.ents) (he : en.eid = e)
    (hp : en.pid = p) (a : FAct) (h0 : cs.sys.err = none) (hok : (factStep e p cs a).sys.err = none) :
    CInv (factStep e p cs a) := by
  cases a with
  | ok a => exact actStep_cinv hc hen he hp a h0 hok
  | allocFail cls n => exact allocFail_cinv hc h0 p cls n hok

theorem facts_cinv {cs : CSys} (hc : CInv cs) {e p : Nat} {en : Ent} (hen : en ∈ cs.ents) (he : en.eid = e)
    (hp : en.pid = p) (acts : List FAct) (h0 : cs.sys.err = none)
    (hok : (acts.foldl (factStep e p) cs).sys.err = none) : CInv (acts.foldl (factStep e p) cs) := by
  induction acts generalizing cs with
  | nil => exact hc
  | cons a acts ih =>
    rw [List.foldl_cons] at hok ⊢
    cases h1 : (factStep e p cs a).sys.err with
    | some er => rw [facts_of_err h1, h1] at hok; cases hok
    | none => exact ih (factStep_cinv hc hen he hp a h0 h1) (by rw [factStep_ents]; exact hen) h1 hok

/-- a failed allocation touches only the pool of the allocator it was made through, and no block at all -/
theorem allocFail_frame {cs : CSys} (h0 : cs.sys.err = none) (e p : Nat) (cls : Cls) (n : Nat)
    (hok : (fstep cs.sys (.allocFail p cls n)).err = none) :
    Frame e p cs { cs with sys := fstep cs.sys (.allocFail p cls n) } := by
  rw [fstep_eq_of_ok h0] at hok ⊢
  simp only at hok ⊢
  obtain ⟨st, hl, hn⟩ := doAllocFail_ok hok
  obtain ⟨hother, _⟩ := doAllocFail_pools hl cls hn
  refine ⟨hother, ?_, ?_, ?_⟩
  · intro b hb _
    exact ⟨by rw [doAllocFail_blocks]; exact hb, rfl⟩
  · intro b hb
    rw [doAllocFail_blocks] at hb
    exact Or.inl ⟨hb, rfl⟩
  · intro x hx
    exact ⟨doAllocFail_base_sub _ _ _ _ x, fun h => doAllocFail_base_keep _ _ _ _ x h (Or.inl hx)⟩

theorem factStep_frame {cs : CSys} (hc : CInv cs) (e p : Nat) (a : FAct) (h0 : cs.sys.err = none)
    (hok : (factStep e p cs a).sys.err = none) : Frame e p cs (factStep e p cs a) := by
  cases a with
  | ok a => exact actStep_frame hc e p a h0 hok
  | allocFail cls n => exact allocFail_frame h0 e p cls n hok

/-- **a container touches only its own pool and its own blocks**, also in calls in which allocations throw -/
theorem facts_frame {cs : CSys} (hc : CInv cs) {e p : Nat} {en : Ent} (hen : en ∈ cs.ents) (he : en.eid = e)
    (hp : en.pid = p) (acts : List FAct) (h0 : cs.sys.err = none)
    (hok : (acts.foldl (factStep e p) cs).sys.err = none) : Frame e p cs (acts.foldl (factStep e p) cs) := by
  induction acts generalizing cs with
  | nil => exact Frame.refl e p cs
  | cons a acts ih =>
    rw [List.foldl_cons] at hok ⊢
    cases h1 : (factStep e p cs a).sys.err with
    | some er => rw [facts_of_err h1, h1] at hok; cases hok
    | none =>
      exact Frame.trans (factStep_frame hc e p a h0 h1)
        (ih (factStep_cinv hc hen he hp a h0 h1) (by rw [factStep_ents]; exact hen) h1 hok)

/-! ### every container call with faults preserves the invariant -/

theorem fcstep_of_err {cs : CSys} {e : Err} (h : cs.sys.err = some e) (op : FCOp) : fcstep cs op = cs := by
  simp [fcstep, h]

theorem fcrun_cons (cs : CSys) (op : FCOp) (ops : List FCOp) : fcrun cs (op :: ops) = fcrun (fcstep cs op) ops := rfl

theorem fcrun_of_err {cs : CSys} {e : Err} (h : cs.sys.err = some e) (ops : List FCOp) : fcrun cs ops = cs := by
  induction ops with
  | nil => rfl
  | cons op ops ih => rw [fcrun_cons, fcstep_of_err h]; exact ih

theorem fcstep_ok (cs : CSys) (op : COp) : fcstep cs (.ok op) = cstep cs op := by
  by_cases he : cs.sys.err.isSome = true
  · simp [fcstep, cstep, he]
  · simp [fcstep, he]

/-- a container history without faults is a history of the fault-free machine -/
theorem fcrun_ok (cs : CSys) (ops : List COp) : fcrun cs (ops.map .ok) = crun cs ops := by
  induction ops generalizing cs with
  | nil => rfl
  | cons op ops ih => rw [List.map_cons, fcrun_cons, fcstep_ok, crun_cons, ih]

theorem fcstep_eq_of_ok {cs : CSys} (h0 : cs.sys.err = none) (op : FCOp) :
    fcstep cs op = (match op with
      | .ok o => cstep cs o
      | .newAllocFail e _ => if (findEnt cs e).isSome then cs.cfail else cs
      | .mutateF e acts =>
        match findEnt cs e with
        | none => cs.cfail
        | some en => acts.foldl (factStep e en.pid) cs
      | .copyAssignF d c acts =>
        match findEnt cs d, findEnt cs c with
        | some de, some _ => if pocca then cs.cfail else acts.foldl (factStep d de.pid) cs
        | _, _ => cs.cfail
      | .copyConstructF d c cls cb acts =>
        cstep (acts.foldl (factStep d cs.sys.pools.length)
                 (cstep cs (.copyConstruct d c cls cb []))) (.destroy d [])
      | .copyConstructNewFail d c _ =>
        match findEnt cs c with
        | none => cs.cfail
        | some _ => if (findEnt cs d).isSome then cs.cfail else cs) := by
  cases op with
  | ok o => simp [fcstep, h0]
  | newAllocFail e c => simp [fcstep, h0]
  | mutateF e acts =>
    simp only [fcstep, h0, Option.isSome_none, Bool.false_eq_true, if_false]
    cases findEnt cs e <;> rfl
  | copyAssignF d c acts =>
    simp only [fcstep, h0, Option.isSome_none, Bool.false_eq_true, if_false]
    cases findEnt cs d <;> cases findEnt cs c <;> rfl
  | copyConstructF d c cls cb acts => simp [fcstep, h0]
  | copyConstructNewFail d c cls =>
    simp only [fcstep, h0, Option.isSome_none, Bool.false_eq_true, if_false]
    cases findEnt cs c <;> rfl

/-- the state right after the allocator object of a copy under construction exists -/
theorem copyConstruct_nil_ok {cs : CSys} (h0 : cs.sys.err = none) {d c : Nat} {cls : Cls} {cb : Nat}
    (hok : (cstep cs (.copyConstruct d c cls cb [])).sys.err = none) :
    (∀ x ∈ cs.ents, x.eid ≠ d) ∧
    cstep cs (.copyConstruct d c cls cb []) =
      { cs with sys := step cs.sys (.anew cls cb), ents := ⟨d, cs.sys.pools.length⟩ :: cs.ents } := by
  have he : ¬ cs.sys.err.isSome = true := by simp [h0]
  unfold cstep at hok ⊢
  rw [if_neg he] at hok ⊢
  simp only at hok ⊢
  cases hs : findEnt cs c with
  | none => simp only [hs] at hok; rw [cfail_err cs h0] at hok; cases hok
  | some ce =>
    simp only [hs] at hok ⊢
    by_cases hf : (findEnt cs d).isSome = true
    · rw [if_pos hf] at hok; rw [cfail_err cs h0] at hok; cases hok
    · rw [if_neg hf]
      exact ⟨findEnt_none (by simpa using hf), rfl⟩

theorem fcstep_cinv {cs : CSys} (hc : CInv cs) (op : FCOp) (hok : (fcstep cs op).sys.err = none) :
    CInv (fcstep cs op) := by
  cases h0 : cs.sys.err with
  | some e => rw [fcstep_of_err h0]; exact hc
  | none =>
    have hbad : ∀ {P : Prop}, (cs.cfail).sys.err = none → P := by
      intro P h; rw [cfail_err cs h0] at h; cases h
    rw [fcstep_eq_of_ok h0] at hok ⊢
    cases op with
    | ok o => exact cstep_cinv hc o hok
    | newAllocFail e cls =>
      simp only at hok ⊢
      by_cases hf : (findEnt cs e).isSome = true
      · rw [if_pos hf] at hok; exact hbad hok
      · rw [if_neg hf]; exact hc
    | mutateF e acts =>
      simp only at hok ⊢
      cases hs : findEnt cs e with
      | none => simp only [hs] at hok; exact hbad hok
      | some en =>
        simp only [hs] at hok ⊢
        exact facts_cinv hc (findEnt_some hs).1 (findEnt_some hs).2 rfl acts h0 hok
    | copyAssignF d c acts =>
      simp only at hok ⊢
      cases hs : findEnt cs d with
      | none => simp only [hs] at hok; exact hbad hok
      | some de =>
        cases hs2 : findEnt cs c with
        | none => simp only [hs, hs2] at hok; exact hbad hok
        | some ce =>
          simp only [hs, hs2] at hok ⊢
          by_cases hp : pocca = true
          · rw [if_pos hp] at hok; exact hbad hok
          · rw [if_neg hp] at hok ⊢
            exact facts_cinv hc (findEnt_some hs).1 (findEnt_some hs).2 rfl acts h0 hok
    | copyConstructF d c cls cb acts =>
      simp only at hok ⊢
      -- no error at the end: no error at any stage
      cases h1 : (cstep cs (.copyConstruct d c cls cb [])).sys.err with
      | some er =>
        rw [cstep_of_err (e := er) (by rw [facts_of_err h1]; exact h1), facts_of_err h1, h1] at hok; cases hok
      | none =>
        have hc1 := cstep_cinv hc (.copyConstruct d c cls cb []) h1
        obtain ⟨_, heq⟩ := copyConstruct_nil_ok h0 h1
        cases h2 : (acts.foldl (factStep d cs.sys.pools.length) (cstep cs (.copyConstruct d c cls cb []))).sys.err with
        | some er => rw [cstep_of_err h2, h2] at hok; cases hok
        | none =>
          have hen : (⟨d, cs.sys.pools.length⟩ : Ent) ∈ (cstep cs (.copyConstruct d c cls cb [])).ents := by
            rw [heq]; exact List.mem_cons_self
          have hc2 := facts_cinv hc1 hen rfl rfl acts h1 h2
          exact cstep_cinv hc2 (.destroy d []) hok
    | copyConstructNewFail d c cls =>
      simp only at hok ⊢
      cases hs : findEnt cs c with
      | none => simp only [hs] at hok; exact hbad hok
      | some ce =>
        simp only [hs] at hok ⊢
        by_cases hf : (findEnt cs d).isSome = true
        · rw [if_pos hf] at hok; exact hbad hok
        · rw [if_neg hf]; exact hc

/-- the invariant holds after every container history with faults that ends without an error -/
theorem fcrun_cinv {cs : CSys} (hc : CInv cs) (ops : List FCOp) (hok : (fcrun cs ops).sys.err = none) :
    CInv (fcrun cs ops) := by
  induction ops generalizing cs with
  | nil => exact hc
  | cons op ops ih =>
    rw [fcrun_cons] at hok ⊢
    cases h : (fcstep cs op).sys.err with
    | none => exact ih (fcstep_cinv hc op h) hok
    | some e => rw [fcrun_of_err h, h] at hok; cases hok

/-! ### lowering to allocator-level histories, with the node types that are served -/

/-- every successful single-object request of the history `fops` is for one of the parameter pairs in `L` -/
def fallocsIn (L : List Cls) (fops : List FOp) : Prop :=
  ∀ q cls id ms, FOp.ok (.alloc q cls 1 id ms) ∈ fops → cls ∈ L

theorem fallocsIn_nil (L : List Cls) : fallocsIn L [] := by
  intro q cls id ms h; cases h

theorem fallocsIn_append {L : List Cls} {a b : List FOp} (ha : fallocsIn L a) (hb : fallocsIn L b) : fallocsIn L (a ++ b) := by
  intro q cls id ms h
  rcases List.mem_append.mp h with h | h
  · exact ha q cls id ms h
  · exact hb q cls id ms h

theorem fallocsIn_mono {L L' : List Cls} (hs : ∀ c ∈ L, c ∈ L') {a : List FOp} (ha : fallocsIn L a) : fallocsIn L' a :=
  fun q cls id ms h => hs cls (ha q cls id ms h)

theorem fallocsIn_bad (L : List Cls) : fallocsIn L [.ok .bad] := by
  intro q cls id ms h; simp at h
theorem fallocsIn_anew (L : List Cls) (cls : Cls) (cb : Nat) : fallocsIn L [.ok (.anew cls cb)] := by
  intro q cls id ms h; simp at h
theorem fallocsIn_acopy (L : List Cls) (p : Nat) : fallocsIn L [.ok (.acopy p)] := by
  intro q cls id ms h; simp at h
theorem fallocsIn_adrop (L : List Cls) (p : Nat) : fallocsIn L [.ok (.adrop p)] := by
  intro q cls id ms h; simp at h
theorem fallocsIn_acopy_adrop (L : List Cls) (p q' : Nat) : fallocsIn L [.ok (.acopy p), .ok (.adrop q')] := by
  intro q cls id ms h; simp at h

theorem frun_single_ok (s : Sys) (op : Op) : frun s [.ok op] = step s op := by
  show fstep s (.ok op) = step s op
  exact fstep_ok s op

theorem actStep_flowers (e p : Nat) (cs : CSys) (a : Act) :
    ∃ fops, (actStep e p cs a).sys = frun cs.sys fops ∧ fallocsIn a.singleCls fops := by
  cases a with
  | alloc cls n id mallocs =>
    refine ⟨[.ok (.alloc p cls n id mallocs)], by rw [frun_single_ok]; rfl, ?_⟩
    intro q cls' id' ms h
    simp only [List.mem_singleton, FOp.ok.injEq, Op.alloc.injEq] at h
    obtain ⟨_, rfl, rfl, _, _⟩ := h
    simp [Act.singleCls]
  | free id frees =>
    simp only [actStep]
    cases hf : cs.sys.blocks.find? (fun b => b.id == id) with
    | none => exact ⟨[.ok .bad], by rw [frun_single_ok]; rfl, fallocsIn_bad _⟩
    | some b =>
      simp only
      split
      · refine ⟨[.ok (.dealloc p b.cls b.n id frees)], by rw [frun_single_ok], ?_⟩
        intro q cls id ms h; simp at h
      · exact ⟨[.ok .bad], by rw [frun_single_ok]; rfl, fallocsIn_bad _⟩

theorem factStep_flowers (e p : Nat) (cs : CSys) (a : FAct) :
    ∃ fops, (factStep e p cs a).sys = frun cs.sys fops ∧ fallocsIn a.singleCls fops := by
  cases a with
  | ok a => exact actStep_flowers e p cs a
  | allocFail cls n =>
    refine ⟨[.allocFail p cls n], rfl, ?_⟩
    intro q cls id ms h; simp at h

theorem mem_flatMap_of {α β : Type} {f : α → List β} {l : List α} {a : α} {b : β} (ha : a ∈ l) (hb : b ∈ f a) :
    b ∈ l.flatMap f := List.mem_flatMap.mpr ⟨a, ha, hb⟩

theorem acts_flower (e p : Nat) (cs : CSys) (acts : List Act) :
    ∃ fops, (acts.foldl (actStep e p) cs).sys = frun cs.sys fops ∧ fallocsIn (actsSingleCls acts) fops := by
  induction acts generalizing cs with
  | nil => exact ⟨[], rfl, fallocsIn_nil _⟩
  | cons a acts ih =>
    obtain ⟨f1, h1, g1⟩ := actStep_flowers e p cs a
    obtain ⟨f2, h2, g2⟩ := ih (actStep e p cs a)
    refine ⟨f1 ++ f2, by rw [List.foldl_cons, h2, h1, frun_append], ?_⟩
    refine fallocsIn_append (fallocsIn_mono ?_ g1) (fallocsIn_mono ?_ g2)
    · intro c hc; exact mem_flatMap_of List.mem_cons_self hc
    · intro c hc
      obtain ⟨x, hx, hcx⟩ := List.mem_flatMap.mp hc
      exact mem_flatMap_of (List.mem_cons_of_mem _ hx) hcx

theorem facts_flower (e p : Nat) (cs : CSys) (acts : List FAct) :
    ∃ fops, (acts.foldl (factStep e p) cs).sys = frun cs.sys fops ∧ fallocsIn (factsSingleCls acts) fops := by
  induction acts generalizing cs with
  | nil => exact ⟨[], rfl, fallocsIn_nil _⟩
  | cons a acts ih =>
    obtain ⟨f1, h1, g1⟩ := factStep_flowers e p cs a
    obtain ⟨f2, h2, g2⟩ := ih (factStep e p cs a)
    refine ⟨f1 ++ f2, by rw [List.foldl_cons, h2, h1, frun_append], ?_⟩
    refine fallocsIn_append (fallocsIn_mono ?_ g1) (fallocsIn_mono ?_ g2)
    · intro c hc; exact mem_flatMap_of List.mem_cons_self hc
    · intro c hc
      obtain ⟨x, hx, hcx⟩ := List.mem_flatMap.mp hc
      exact mem_flatMap_of (List.mem_cons_of_mem _ hx) hcx

/-- one container call = a history of the allocator-level machine whose successful single-object requests are those
    the call lists -/
theorem cstep_flowers (cs : CSys) (op : COp) :
    ∃ fops, (cstep cs op).sys = frun cs.sys fops ∧ fallocsIn op.singleCls fops := by
  have B : ∀ L, ∃ fops, (cs.cfail).sys = frun cs.sys fops ∧ fallocsIn L fops :=
    fun L => ⟨[.ok .bad], by rw [frun_single_ok]; rfl, fallocsIn_bad L⟩
  unfold cstep
  split
  · exact ⟨[], rfl, fallocsIn_nil _⟩
  · cases op with
    | newAlloc e cls cb =>
      simp only; split
      · exact B _
      · exact ⟨[.ok (.anew cls cb)], by rw [frun_single_ok], fallocsIn_anew _ _ _⟩
    | newFrom e src =>
      simp only; split
      · exact B _
      · rename_i se _
        split
        · exact B _
        · exact ⟨[.ok (.acopy se.pid)], by rw [frun_single_ok], fallocsIn_acopy _ _⟩
    | mutate e acts =>
      simp only; split
      · exact B _
      · exact acts_flower _ _ _ _
    | copyAssign d c acts =>
      simp only; split
      · split
        · exact B _
        · exact acts_flower _ _ _ _
      · exact B _
    | copyConstruct d c cls cb acts =>
      simp only; split
      · exact B _
      · split
        · exact B _
        · obtain ⟨ops, h, g⟩ := acts_flower d cs.sys.pools.length
            { cs with sys := step cs.sys (.anew cls cb), ents := ⟨d, cs.sys.pools.length⟩ :: cs.ents } acts
          refine ⟨[.ok (.anew cls cb)] ++ ops, by rw [h, frun_append, frun_single_ok], ?_⟩
          exact fallocsIn_append (fallocsIn_anew _ _ _) g
    | moveConstruct d c =>
      simp only; split
      · exact B _
      · rename_i ce _
        split
        · exact B _
        · exact ⟨[.ok (.acopy ce.pid)], by rw [frun_single_ok], fallocsIn_acopy _ _⟩
    | moveAssign d c acts =>
      simp only; split
      · rename_i de ce _ _
        obtain ⟨ops, h, g⟩ := acts_flower d de.pid cs acts
        split
        · exact B _
        · split
          · exact ⟨ops, h, g⟩
          · split
            · refine ⟨ops ++ [.ok .bad], by rw [frun_append, ← h, frun_single_ok]; rfl, ?_⟩
              exact fallocsIn_append g (fallocsIn_bad _)
            · refine ⟨ops ++ [.ok (.acopy ce.pid), .ok (.adrop de.pid)], ?_, ?_⟩
              · rw [frun_append, ← h]
                show _ = fstep (fstep _ (.ok (.acopy ce.pid))) (.ok (.adrop de.pid))
                rw [fstep_ok, fstep_ok]
              · exact fallocsIn_append g (fallocsIn_acopy_adrop _ _ _)
      · exact B _
    | swap d c =>
      simp only; split
      · split
        · exact B _
        · exact ⟨[], rfl, fallocsIn_nil _⟩
      · exact B _
    | splice d c ids =>
      simp only; split
      · split
        · exact B _
        · exact ⟨[], rfl, fallocsIn_nil _⟩
      · exact B _
    | destroy e acts =>
      simp only; split
      · exact B _
      · rename_i en _
        obtain ⟨ops, h, g⟩ := acts_flower e en.pid cs acts
        split
        · exact ⟨ops, h, g⟩
        · split
          · refine ⟨ops ++ [.ok .bad], by rw [frun_append, ← h, frun_single_ok]; rfl, ?_⟩
            exact fallocsIn_append g (fallocsIn_bad _)
          · refine ⟨ops ++ [.ok (.adrop en.pid)], by rw [frun_append, ← h, frun_single_ok], ?_⟩
            exact fallocsIn_append g (fallocsIn_adrop _ _)

theorem fcstep_flowers (cs : CSys) (op : FCOp) :
    ∃ fops, (fcstep cs op).sys = frun cs.sys fops ∧ fallocsIn op.singleCls fops := by
  cases h0 : cs.sys.err with
  | some e => rw [fcstep_of_err h0]; exact ⟨[], rfl, fallocsIn_nil _⟩
  | none =>
    have B : ∀ L, ∃ fops, (cs.cfail).sys = frun cs.sys fops ∧ fallocsIn L fops :=
      fun L => ⟨[.ok .bad], by rw [frun_single_ok]; rfl, fallocsIn_bad L⟩
    rw [fcstep_eq_of_ok h0]
    cases op with
    | ok o => exact cstep_flowers cs o
    | newAllocFail e cls =>
      simp only; split
      · exact B _
      · exact ⟨[], rfl, fallocsIn_nil _⟩
    | mutateF e acts =>
      simp only; split
      · exact B _
      · exact facts_flower _ _ _ _
    | copyAssignF d c acts =>
      simp only; split
      · split
        · exact B _
        · exact facts_flower _ _ _ _
      · exact B _
    | copyConstructF d c cls cb acts =>
      simp only
      obtain ⟨f1, h1, g1⟩ := cstep_flowers cs (.copyConstruct d c cls cb [])
      obtain ⟨f2, h2, g2⟩ := facts_flower d cs.sys.pools.length (cstep cs (.copyConstruct d c cls cb [])) acts
      obtain ⟨f3, h3, g3⟩ := cstep_flowers (acts.foldl (factStep d cs.sys.pools.length)
        (cstep cs (.copyConstruct d c cls cb []))) (.destroy d [])
      refine ⟨f1 ++ (f2 ++ f3), by rw [h3, h2, h1, frun_append, frun_append], ?_⟩
      refine fallocsIn_append (fallocsIn_mono ?_ g1) (fallocsIn_append g2 (fallocsIn_mono ?_ g3))
      · intro c hc; simp [COp.singleCls, actsSingleCls] at hc
      · intro c hc; simp [COp.singleCls, actsSingleCls] at hc
    | copyConstructNewFail d c cls =>
      simp only; split
      · exact B _
      · split
        · exact B _
        · exact ⟨[], rfl, fallocsIn_nil _⟩

theorem fcrun_flowers (cs : CSys) (ops : List FCOp) :
    ∃ fops, (fcrun cs ops).sys = frun cs.sys fops ∧ fallocsIn (ops.flatMap FCOp.singleCls) fops := by
  induction ops generalizing cs with
  | nil => exact ⟨[], rfl, fallocsIn_nil _⟩
  | cons op ops ih =>
    obtain ⟨f1, h1, g1⟩ := fcstep_flowers cs op
    obtain ⟨f2, h2, g2⟩ := ih (fcstep cs op)
    refine ⟨f1 ++ f2, by rw [fcrun_cons, h2, h1, frun_append], ?_⟩
    refine fallocsIn_append (fallocsIn_mono ?_ g1) (fallocsIn_mono ?_ g2)
    · intro c hc; exact mem_flatMap_of List.mem_cons_self hc
    · intro c hc
      obtain ⟨x, hx, hcx⟩ := List.mem_flatMap.mp hc
      exact mem_flatMap_of (List.mem_cons_of_mem _ hx) hcx

/-- histories all of whose successful single-object requests are for one parameter pair `κ0` -/
theorem fallocsIn_oneType {κ0 : Cls} {L : List Cls} (hL : ∀ c ∈ L, c = κ0) {fops : List FOp} (h : fallocsIn L fops) :
    FOneTypePerPool (fun _ => κ0) fops := by
  intro op hop
  cases op with
  | ok o =>
    cases o with
    | alloc p cls n id ms =>
      cases n with
      | zero => trivial
      | succ m =>
        cases m with
        | zero => exact hL cls (h p cls id ms hop)
        | succ k => trivial
    | _ => trivial
  | allocFail p cls n => trivial
  | newFail => trivial

/-- **one node type**: a container history (with faults) all of whose successful single-object requests are for value
    types with the same pool parameters never serves a single object from the memory manager, however the containers
    share, exchange and hand over their pools -/
theorem fcrun_oneNodeType (κ0 : Cls) (ops : List FCOp) (h : ∀ op ∈ ops, ∀ c ∈ op.singleCls, c = κ0) :
    (fcrun CSys.init ops).sys.rawSingle = false := by
  obtain ⟨fops, hf, hg⟩ := fcrun_flowers CSys.init ops
  have hL : ∀ c ∈ ops.flatMap FCOp.singleCls, c = κ0 := by
    intro c hc
    obtain ⟨op, hop, hcop⟩ := List.mem_flatMap.mp hc
    exact h op hop c hcop
  rw [hf]
  exact (frun_oneType (K_init _) rfl fops (fallocsIn_oneType hL hg)).2

/-- container histories with faults: unless a single object was served raw, no provenance error, and the
    container-level invariant holds at the end -/
theorem fcrun_err (ops : List FCOp) (h : (fcrun CSys.init ops).sys.rawSingle = false) :
    ((fcrun CSys.init ops).sys.err = none ∧ CInv (fcrun CSys.init ops)) ∨
    (fcrun CSys.init ops).sys.err = some .illegal := by
  obtain ⟨l, hl, _⟩ := fcrun_flowers CSys.init ops
  have h' : (frun Sys.init l).rawSingle = false := by
    have : CSys.init.sys = Sys.init := rfl
    rw [← this, ← hl]; exact h
  rcases frun_err inv_init rfl l h' with ⟨he, _⟩ | he
  · left
    have he' : (fcrun CSys.init ops).sys.err = none := by rw [hl]; exact he
    exact ⟨he', fcrun_cinv cinv_init ops he'⟩
  · right; rw [hl]; exact he

end Momo.PoolAlloc
