import Momo.Proof.StdWMmRange
/-!
  The C06 history theorem for `unordered_multimap`: the wrapper model works on the native table key -> value array
  (distinct keys, keys without values allowed, key order re-arranged by an oracle after every call); the specification
  keeps the multiset of pairs. Relation `RelM`: the flat traversal of the table is a permutation of the specification's
  pairs. Every legal call gives the same observation and keeps the relation, for every oracle.
-/
namespace Momo.StdW
open Momo.StdWrap List
open Momo.StdSpec hiding Item

structure RelM (w : MSt) (s : St) : Prop where
  a : (MM.pairs w.a).Perm s.a
  b : (MM.pairs w.b).Perm s.b
  na : KeysNodup w.a
  nb : KeysNodup w.b

theorem RelM.get {w : MSt} {s : St} (h : RelM w s) (c : Side) : (MM.pairs (w.get c)).Perm (s.get c) := by
  cases c <;> simp [MSt.get, St.get, h.a, h.b]

theorem RelM.nodup {w : MSt} {s : St} (h : RelM w s) (c : Side) : KeysNodup (w.get c) := by
  cases c <;> simp [MSt.get, h.na, h.nb]

theorem RelM.put {w : MSt} {s : St} (h : RelM w s) (c : Side) (m : MM) (ys : List Item) (hp : (MM.pairs m).Perm ys)
    (hn : KeysNodup m) : RelM (w.put c m) (s.put c ys) := by
  cases c
  · exact ⟨hp, h.b, hn, h.nb⟩
  · exact ⟨h.a, hp, h.na, hn⟩

theorem RelM.put2 {w : MSt} {s : St} (c : Side) (m1 : MM) (y1 : List Item) (m2 : MM) (y2 : List Item)
    (hp1 : (MM.pairs m1).Perm y1) (hn1 : KeysNodup m1) (hp2 : (MM.pairs m2).Perm y2) (hn2 : KeysNodup m2) :
    RelM ((w.put c m1).put c.other m2) ((s.put c y1).put c.other y2) := by
  cases c
  · exact ⟨hp1, hp2, hn1, hn2⟩
  · exact ⟨hp2, hp1, hn2, hn1⟩

theorem MSt.put_get (w : MSt) (c : Side) : w.put c (w.get c) = w := by cases c <;> rfl

theorem mem_of_contains {l : List Item} {x : Item} (h : l.contains x = true) : x ∈ l := by simpa using h

theorem isEmpty_eq_length (l : List Item) : l.isEmpty = decide (l.length = 0) := by cases l <;> simp

/-- **one call, before the oracle acts** -/
theorem wrapMCore_refines (w : MSt) (s : St) (hr : RelM w s) (c : MCall) (hl : c.legal s = true) :
    (wrapMCore w c).2 = (c.spec s).2 ∧ RelM (wrapMCore w c).1 (c.spec s).1 := by
  cases c with
  | insert c x =>
    obtain ⟨h1, h2⟩ := mmAdd_rel _ (hr.nodup c) x
    exact ⟨rfl, hr.put c _ _ (h1.trans (Perm.append_right _ (hr.get c))) h2⟩
  | emplace c x =>
    obtain ⟨h1, h2⟩ := mmAdd_rel _ (hr.nodup c) x
    exact ⟨rfl, hr.put c _ _ (h1.trans (Perm.append_right _ (hr.get c))) h2⟩
  | insertHint c x =>
    obtain ⟨h1, h2⟩ := mmAdd_rel _ (hr.nodup c) x
    exact ⟨rfl, hr.put c _ _ (h1.trans (Perm.append_right _ (hr.get c))) h2⟩
  | emplaceHint c x =>
    obtain ⟨h1, h2⟩ := mmAdd_rel _ (hr.nodup c) x
    exact ⟨rfl, hr.put c _ _ (h1.trans (Perm.append_right _ (hr.get c))) h2⟩
  | insertRange c ys =>
    obtain ⟨h1, h2⟩ := mmAddMany_rel ys _ (hr.nodup c)
    exact ⟨rfl, hr.put c _ _ (h1.trans (Perm.append_right _ (hr.get c))) h2⟩
  | insertList c ys =>
    obtain ⟨h1, h2⟩ := mmAddMany_rel ys _ (hr.nodup c)
    exact ⟨rfl, hr.put c _ _ (h1.trans (Perm.append_right _ (hr.get c))) h2⟩
  | find c k =>
    simp only [wrapMCore, MCall.spec, hasKey_lookup _ (hr.nodup c) k, hasKey_perm (hr.get c) k]
    exact ⟨trivial, hr⟩
  | count c k =>
    simp only [wrapMCore, MCall.spec, count_lookup _ (hr.nodup c) k]
    refine ⟨?_, hr⟩
    unfold countKey; rw [(hr.get c).countP_eq]
  | contains c k =>
    simp only [wrapMCore, MCall.spec, hasKey_lookup _ (hr.nodup c) k, hasKey_perm (hr.get c) k]
    exact ⟨trivial, hr⟩
  | equalRange c k =>
    simp only [wrapMCore, MCall.spec, ← pairs_filter_key _ (hr.nodup c) k, canon_perm ((hr.get c).filter _)]
    exact ⟨trivial, hr⟩
  | eraseKey c k =>
    simp only [wrapMCore, MCall.spec, count_lookup _ (hr.nodup c) k]
    refine ⟨?_, hr.put c _ _ (by rw [pairs_removeKey]; exact (hr.get c).filter _) ((hr.nodup c).filter _)⟩
    unfold countKey; rw [(hr.get c).countP_eq]
  | eraseElem c x =>
    have hx : x ∈ MM.pairs (w.get c) := (hr.get c).symm.subset (mem_of_contains (by simpa [MCall.legal] using hl))
    obtain ⟨h1, h2⟩ := wmEraseElem_rel _ (hr.nodup c) x hx
    exact ⟨rfl, hr.put c _ _ (h1.trans ((hr.get c).erase x)) h2⟩
  | eraseRange c r =>
    cases r with
    | empty =>
      have hd : wmEraseRange (w.get c) .empty = (w.get c, .done) := by simp [wmEraseRange, mRangeIters, eraseRangeMM]
      simp only [wrapMCore, MCall.spec, hd, MSt.put_get]
      exact ⟨trivial, hr⟩
    | single x mv =>
      have hx : x ∈ MM.pairs (w.get c) := (hr.get c).symm.subset (mem_of_contains (by simpa [MCall.legal] using hl))
      obtain ⟨h1, h2⟩ := wmEraseElem_rel _ (hr.nodup c) x hx
      simp only [wrapMCore, MCall.spec, wmEraseRange_single _ x mv hx]
      exact ⟨trivial, hr.put c _ _ (h1.trans ((hr.get c).erase x)) h2⟩
    | wholeKey k mv =>
      have hk : hasKey k (MM.pairs (w.get c)) = true := by
        rw [hasKey_perm (hr.get c)]; simpa [MCall.legal] using hl
      simp only [wrapMCore, MCall.spec, wmEraseRange_key _ (hr.nodup c) k mv hk]
      exact ⟨trivial, hr.put c _ _ (by rw [pairs_removeKey]; exact (hr.get c).filter _) ((hr.nodup c).filter _)⟩
    | whole =>
      obtain ⟨h1, h2, h3⟩ := wmEraseRange_whole _ (hr.nodup c)
      simp only [wrapMCore, MCall.spec, h2]
      exact ⟨trivial, hr.put c _ _ (by rw [h1]) h3⟩
  | eraseIf c m r =>
    obtain ⟨h1, h2⟩ := pairs_removeIf (w.get c) (fun k => !(k % m == r))
    have hn' : KeysNodup ((w.get c).map (fun e => (e.1, e.2.filter (fun _ => !(e.1 % m == r))))) := by
      unfold KeysNodup; rw [h2]; exact hr.nodup c
    have e : ((s.get c).filter fun e => !(e.1 % m == r)) = (s.get c).filter fun e => e.1 % m != r := rfl
    have hp := (hr.get c).filter (fun e => !(e.1 % m == r))
    simp only [wrapMCore, MCall.spec, count_eq_length, h1, hp.length_eq, (hr.get c).length_eq, e]
    exact ⟨trivial, hr.put c _ _ (by rw [h1]; exact hp) hn'⟩
  | clear c => exact ⟨rfl, hr.put c _ _ (Perm.refl _) keysNodup_nil⟩
  | size c =>
    simp only [wrapMCore, MCall.spec, count_eq_length, (hr.get c).length_eq]
    exact ⟨trivial, hr⟩
  | empty c =>
    simp only [wrapMCore, MCall.spec, count_eq_length, (hr.get c).length_eq, isEmpty_eq_length]
    exact ⟨trivial, hr⟩
  | swap => exact ⟨rfl, hr.b, hr.a, hr.nb, hr.na⟩
  | assignCopy c => exact ⟨rfl, hr.put c _ _ (hr.get c.other) (hr.nodup c.other)⟩
  | constructCopy c => exact ⟨rfl, hr.put c _ _ (hr.get c.other) (hr.nodup c.other)⟩
  | assignMove c => exact ⟨rfl, RelM.put2 c _ _ _ _ (hr.get c.other) (hr.nodup c.other) (Perm.refl _) keysNodup_nil⟩
  | constructMove c => exact ⟨rfl, RelM.put2 c _ _ _ _ (hr.get c.other) (hr.nodup c.other) (Perm.refl _) keysNodup_nil⟩
  | assignList c ys =>
    obtain ⟨h1, h2⟩ := mmAddMany_rel ys [] keysNodup_nil
    exact ⟨rfl, hr.put c _ _ (by simpa [pairs_nil] using h1) h2⟩
  | compare =>
    refine ⟨?_, hr⟩
    have : mmEq w.a w.b = s.a.isPerm s.b := by
      rw [Bool.eq_iff_iff, mm_eq_iff' w.a w.b hr.na hr.nb, isPerm_iff]
      exact ⟨fun h => hr.a.symm.trans (h.trans hr.b), fun h => hr.a.trans (h.trans hr.b.symm)⟩
    simp only [wrapMCore, MCall.spec, this]
  | contents c =>
    simp only [wrapMCore, MCall.spec, canon_perm (hr.get c)]
    exact ⟨trivial, hr⟩
  | constructRange c ys =>
    obtain ⟨h1, h2⟩ := mmAddMany_rel ys [] keysNodup_nil
    exact ⟨rfl, hr.put c _ _ (by simpa [pairs_nil] using h1) h2⟩
  | constructList c ys =>
    obtain ⟨h1, h2⟩ := mmAddMany_rel ys [] keysNodup_nil
    exact ⟨rfl, hr.put c _ _ (by simpa [pairs_nil] using h1) h2⟩

/-- an oracle may only re-arrange the key entries of a table -/
def RearrangesM (ρ : Nat → MM → MM) : Prop := ∀ n m, (ρ n m).Perm m

theorem wrapM_refines (ρ : Nat → MM → MM) (hρ : RearrangesM ρ) (n : Nat) (w : MSt) (s : St) (hr : RelM w s) (c : MCall)
    (hl : c.legal s = true) : (wrapM ρ n w c).2 = (c.spec s).2 ∧ RelM (wrapM ρ n w c).1 (c.spec s).1 := by
  obtain ⟨h1, h2⟩ := wrapMCore_refines w s hr c hl
  exact ⟨h1, ⟨(pairs_perm (hρ _ _)).trans h2.a, (pairs_perm (hρ _ _)).trans h2.b, h2.na.perm (hρ _ _), h2.nb.perm (hρ _ _)⟩⟩

theorem runWrapM_eq (ρ : Nat → MM → MM) (hρ : RearrangesM ρ) (cs : List MCall) :
    ∀ (n : Nat) (w : MSt) (s : St), RelM w s → MCall.legalFrom s cs = true →
    runWrapMFrom ρ n w cs = MCall.runSpecFrom s cs := by
  induction cs with
  | nil => intro n w s _ _; rfl
  | cons c t ih =>
    intro n w s hr hl
    simp only [MCall.legalFrom, Bool.and_eq_true] at hl
    obtain ⟨e, hr'⟩ := wrapM_refines ρ hρ n w s hr c hl.1
    simp only [runWrapMFrom, MCall.runSpecFrom, e]
    rw [ih _ _ _ hr' hl.2]

theorem relM_init : RelM {} {} := ⟨Perm.refl _, Perm.refl _, keysNodup_nil, keysNodup_nil⟩

end Momo.StdW
