import Momo.Model.ArrSegFault
import Momo.Proof.ArrFaultDone
import Momo.Proof.ArrSegSqrt
import Momo.Proof.ArrStep
/-!
  C04 / C10, SegmentedArray under faults, lemmas part 1: outcome predicate for `SFM`, primitives, transfer of the
  `Array`-level specifications to the nested pointer array (`onSegs`) and to the item sequence (`onItems`),
  capacity management (`pvIncCapacity / pvDecCapacity / Reserve`).
-/
namespace Momo.ArrF.Seg
open Momo Momo.Arr Momo.Arr.Seg Momo.ArrF
open SFM (throw tryCatch)
set_option linter.unusedSimpArgs false
set_option linter.unusedVariables false
variable {α β γ : Type}

def SPost (m : SFM α β) (x : SSys α) (Q : β → SSys α → Prop) (E : SSys α → Prop) : Prop :=
  match m.run x with
  | (.ok b, y) => Q b y
  | (.threw, y) => E y

theorem SPost.bind' {m : SFM α β} {f : β → SFM α γ} {x : SSys α} {Q : γ → SSys α → Prop} {E : SSys α → Prop}
    (Q' : β → SSys α → Prop) (E' : SSys α → Prop) (h1 : SPost m x Q' E') (hE : ∀ y, E' y → E y)
    (h2 : ∀ b y, Q' b y → SPost (f b) y Q E) : SPost (m >>= f) x Q E := by
  show SPost (SFM.bind m f) x Q E
  unfold SPost SFM.bind at *
  dsimp only
  generalize m.run x = r at *
  obtain ⟨r, y⟩ := r
  cases r
  · exact h2 _ _ h1
  · exact hE _ h1

theorem SPost.tryCatch {m h : SFM α β} {x : SSys α} {Q : β → SSys α → Prop} {E : SSys α → Prop}
    (E' : SSys α → Prop) (h1 : SPost m x Q E') (h2 : ∀ y, E' y → SPost h y Q E) :
    SPost (tryCatch m h) x Q E := by
  unfold SPost SFM.tryCatch at *
  dsimp only
  generalize m.run x = r at *
  obtain ⟨r, y⟩ := r
  cases r
  · exact h1
  · exact h2 _ h1

theorem SPost.mono {m : SFM α β} {x : SSys α} {Q Q' : β → SSys α → Prop} {E E' : SSys α → Prop}
    (h : SPost m x Q E) (hQ : ∀ b y, Q b y → Q' b y) (hE : ∀ y, E y → E' y) : SPost m x Q' E' := by
  unfold SPost at *
  generalize m.run x = r at *
  obtain ⟨r, y⟩ := r
  cases r
  · exact hQ _ _ h
  · exact hE _ h

@[simp] theorem spost_pure (b : β) (x : SSys α) (Q : β → SSys α → Prop) (E : SSys α → Prop) :
    SPost (pure b : SFM α β) x Q E ↔ Q b x := Iff.rfl

@[simp] theorem spost_throw (x : SSys α) (Q : β → SSys α → Prop) (E : SSys α → Prop) :
    SPost (throw : SFM α β) x Q E ↔ E x := Iff.rfl

theorem spost_bind_ok {m : SFM α β} {f : β → SFM α γ} {x y : SSys α} {b : β} (h : m.run x = (.ok b, y))
    (Q : γ → SSys α → Prop) (E : SSys α → Prop) : SPost (m >>= f) x Q E ↔ SPost (f b) y Q E := by
  show SPost (SFM.bind m f) x Q E ↔ _
  unfold SPost SFM.bind
  simp only [h]

@[simp] theorem spost_bind_assoc {δ : Type} (m : SFM α β) (f : β → SFM α γ) (g : γ → SFM α δ) (x : SSys α)
    (Q : δ → SSys α → Prop) (E : SSys α → Prop) :
    SPost ((m >>= f) >>= g) x Q E ↔ SPost (m >>= fun b => f b >>= g) x Q E := by
  show SPost (SFM.bind (SFM.bind m f) g) x Q E ↔ SPost (SFM.bind m (fun b => SFM.bind (f b) g)) x Q E
  unfold SPost SFM.bind
  dsimp only
  generalize m.run x = r
  obtain ⟨r, y⟩ := r
  cases r <;> rfl

@[simp] theorem spost_pure_bind (b : β) (f : β → SFM α γ) (x : SSys α) (Q : γ → SSys α → Prop) (E : SSys α → Prop) :
    SPost (pure b >>= f) x Q E ↔ SPost (f b) x Q E := spost_bind_ok rfl Q E

@[simp] theorem spost_getS_bind (f : SSys α → SFM α γ) (x : SSys α) (Q : γ → SSys α → Prop) (E : SSys α → Prop) :
    SPost (getS >>= f) x Q E ↔ SPost (f x) x Q E := spost_bind_ok rfl Q E

@[simp] theorem spost_modifyCellsS_bind (g : Cells α → Cells α) (f : Unit → SFM α γ) (x : SSys α) (Q : γ → SSys α → Prop)
    (E : SSys α → Prop) :
    SPost (modifyCellsS g >>= f) x Q E ↔ SPost (f ()) { x with cells := g x.cells } Q E := spost_bind_ok rfl Q E

@[simp] theorem spost_modifyCellsS (g : Cells α → Cells α) (x : SSys α) (Q : Unit → SSys α → Prop) (E : SSys α → Prop) :
    SPost (modifyCellsS g) x Q E ↔ Q () { x with cells := g x.cells } := Iff.rfl

@[simp] theorem spost_setSegCells_bind (cs : Cells Nat) (f : Unit → SFM α γ) (x : SSys α) (Q : γ → SSys α → Prop)
    (E : SSys α → Prop) :
    SPost (setSegCells cs >>= f) x Q E ↔ SPost (f ()) { x with segs := { x.segs with cells := cs } } Q E :=
  spost_bind_ok rfl Q E

@[simp] theorem spost_setSegCells (cs : Cells Nat) (x : SSys α) (Q : Unit → SSys α → Prop) (E : SSys α → Prop) :
    SPost (setSegCells cs) x Q E ↔ Q () { x with segs := { x.segs with cells := cs } } := Iff.rfl

@[simp] theorem spost_destroyS_bind (k : Nat) (f : Unit → SFM α γ) (x : SSys α) (Q : γ → SSys α → Prop) (E : SSys α → Prop) :
    SPost (destroyS k >>= f) x Q E ↔
      SPost (f ()) { x with objs := x.objs - k, bad := x.bad || decide (x.objs < k) } Q E := spost_bind_ok rfl Q E

@[simp] theorem spost_destroyS (k : Nat) (x : SSys α) (Q : Unit → SSys α → Prop) (E : SSys α → Prop) :
    SPost (destroyS k) x Q E ↔ Q () { x with objs := x.objs - k, bad := x.bad || decide (x.objs < k) } := Iff.rfl

@[simp] theorem spost_deallocSeg_bind (n : Nat) (f : Unit → SFM α γ) (x : SSys α) (Q : γ → SSys α → Prop) (E : SSys α → Prop) :
    SPost (deallocSeg n >>= f) x Q E ↔
      SPost (f ()) { x with sblocks := x.sblocks.erase n, bad := x.bad || !x.sblocks.contains n,
                            evs := x.evs ++ [.did (.item (.dealloc n))] } Q E := spost_bind_ok rfl Q E

/-- the parts of the state the theorems speak about -/
structure SCore (α : Type) where
  cells : Cells α
  segs : State Nat
  sblocks : List Nat
  pblocks : List Nat
  objs : Nat
  bad : Bool

def SSys.core (x : SSys α) : SCore α := ⟨x.cells, x.segs, x.sblocks, x.pblocks, x.objs, x.bad⟩

theorem score_eq_iff (x y : SSys α) : y.core = x.core ↔
    y.cells = x.cells ∧ y.segs = x.segs ∧ y.sblocks = x.sblocks ∧ y.pblocks = x.pblocks ∧ y.objs = x.objs ∧ y.bad = x.bad := by
  cases x; cases y; simp [SSys.core]

theorem constructS_spec (b : Bool) (x : SSys α) :
    SPost (constructS b) x
      (fun _ y => y.cells = x.cells ∧ y.segs = x.segs ∧ y.sblocks = x.sblocks ∧ y.pblocks = x.pblocks ∧
        y.objs = x.objs + 1 ∧ y.bad = x.bad)
      (fun y => y.core = x.core) := by
  unfold SPost constructS
  by_cases h : (b && (nextFault x.faults).1) = true <;> simp [h, SSys.core]

theorem allocSeg_spec (n : Nat) (x : SSys α) :
    SPost (allocSeg n) x
      (fun _ y => y.cells = x.cells ∧ y.segs = x.segs ∧ y.sblocks = n :: x.sblocks ∧ y.pblocks = x.pblocks ∧
        y.objs = x.objs ∧ y.bad = x.bad)
      (fun y => y.core = x.core) := by
  unfold SPost allocSeg
  by_cases h : (nextFault x.faults).1 = true <;> simp [h, SSys.core]

theorem ctorLoopS_spec (b : Bool) : ∀ (n done : Nat) (x : SSys α),
    SPost (ctorLoopS b n done) x
      (fun r y => done ≤ r.1 ∧ r.1 ≤ done + n ∧ (r.2 = false → r.1 = done + n) ∧
        y.cells = x.cells ∧ y.segs = x.segs ∧ y.sblocks = x.sblocks ∧ y.pblocks = x.pblocks ∧
        y.objs = x.objs + (r.1 - done) ∧ y.bad = x.bad)
      (fun _ => False)
  | 0, done, x => by simp [ctorLoopS, SPost, SFM.pure]
  | n+1, done, x => by
    have hc := constructS_spec b x
    unfold SPost at hc
    unfold ctorLoopS SPost
    dsimp only
    cases hm : (constructS b).run x with
    | mk r y =>
      rw [hm] at hc
      cases r with
      | ok u =>
        simp only at hc ⊢
        obtain ⟨c1, c2, c3, c4, c5, c6⟩ := hc
        have ih := ctorLoopS_spec b n (done + 1) y
        unfold SPost at ih
        cases hz : (ctorLoopS b n (done + 1)).run y with
        | mk r z =>
          rw [hz] at ih
          cases r with
          | ok r =>
            simp only at ih ⊢
            obtain ⟨h1, h2, h3, i1, i2, i3, i4, i5, i6⟩ := ih
            exact ⟨by omega, by omega, fun h => by have := h3 h; omega, i1.trans c1, i2.trans c2, i3.trans c3,
              i4.trans c4, by omega, i6.trans c6⟩
          | threw => exact ih.elim
      | threw =>
        simp only at hc ⊢
        simp only [score_eq_iff] at hc
        exact ⟨Nat.le_refl _, by omega, by simp, hc.1, hc.2.1, hc.2.2.1, hc.2.2.2.1, by have := hc.2.2.2.2.1; omega, hc.2.2.2.2.2⟩

/-! ### transfer from the `Array` fault model -/

/-- the system the pointer array runs in -/
def SSys.segSys (x : SSys α) : Sys Nat :=
  { arr := x.segs, faults := x.faults, blocks := x.pblocks, objs := x.segs.cells.length, bad := x.bad }

/-- write the result of a pointer-array operation back -/
def segsBack (x : SSys α) (y0 : Sys Nat) : SSys α :=
  { x with segs := y0.arr, faults := y0.faults, pblocks := y0.blocks, bad := y0.bad, evs := x.evs ++ y0.evs.map liftEv }

theorem onSegs_run (m : FM Nat β) (x : SSys α) :
    (onSegs m).run x = ((m.run x.segSys).1, segsBack x (m.run x.segSys).2) := rfl

theorem onSegs_spec (m : FM Nat β) (x : SSys α) (Q : β → Sys Nat → Prop) (E : Sys Nat → Prop)
    (h : Post m x.segSys Q E) :
    SPost (onSegs m) x
      (fun b y => ∃ y0, Q b y0 ∧ y.cells = x.cells ∧ y.segs = y0.arr ∧ y.sblocks = x.sblocks ∧ y.pblocks = y0.blocks ∧
        y.objs = x.objs ∧ y.bad = y0.bad)
      (fun y => ∃ y0, E y0 ∧ y.cells = x.cells ∧ y.segs = y0.arr ∧ y.sblocks = x.sblocks ∧ y.pblocks = y0.blocks ∧
        y.objs = x.objs ∧ y.bad = y0.bad) := by
  unfold SPost
  rw [onSegs_run]
  unfold Post at h
  generalize m.run x.segSys = r at *
  obtain ⟨r, y0⟩ := r
  cases r
  · exact ⟨y0, h, rfl, rfl, rfl, rfl, rfl, rfl⟩
  · exact ⟨y0, h, rfl, rfl, rfl, rfl, rfl, rfl⟩

/-- the system the shifter runs in -/
def SSys.itemSys (x : SSys α) (cap : Nat) : Sys α :=
  { arr := { cells := x.cells, cap := cap }, faults := x.faults, blocks := if cap > 0 then [cap] else [],
    objs := x.objs, bad := x.bad }

/-- write the result of a shifter operation back -/
def itemsBack (x : SSys α) (y0 : Sys α) : SSys α :=
  { x with cells := y0.arr.cells, faults := y0.faults, objs := y0.objs, bad := y0.bad }

theorem onItems_run (cap : Nat) (m : FM α β) (x : SSys α) :
    (onItems cap m).run x = ((m.run (x.itemSys cap)).1, itemsBack x (m.run (x.itemSys cap)).2) := rfl

theorem onItems_spec (cap : Nat) (m : FM α β) (x : SSys α) (Q : β → Sys α → Prop) (E : Sys α → Prop)
    (h : Post m (x.itemSys cap) Q E) :
    SPost (onItems cap m) x
      (fun b y => ∃ y0, Q b y0 ∧ y.cells = y0.arr.cells ∧ y.segs = x.segs ∧ y.sblocks = x.sblocks ∧ y.pblocks = x.pblocks ∧
        y.objs = y0.objs ∧ y.bad = y0.bad)
      (fun y => ∃ y0, E y0 ∧ y.cells = y0.arr.cells ∧ y.segs = x.segs ∧ y.sblocks = x.sblocks ∧ y.pblocks = x.pblocks ∧
        y.objs = y0.objs ∧ y.bad = y0.bad) := by
  unfold SPost
  rw [onItems_run]
  unfold Post at h
  generalize m.run (x.itemSys cap) = r at *
  obtain ⟨r, y0⟩ := r
  cases r
  · exact ⟨y0, h, rfl, rfl, rfl, rfl, rfl, rfl⟩
  · exact ⟨y0, h, rfl, rfl, rfl, rfl, rfl, rfl⟩

/-! ### sizing facts -/

theorem segSizes_add (cfg : SCfg) (a f : Nat) :
    segSizes cfg (a + f) = segSizes cfg a ++ (List.range f).map (fun j => cfg.lay.itemCount (a + j)) := by
  unfold segSizes
  rw [List.range_add, List.map_append, List.map_map]
  rfl

theorem segSizes_succ (cfg : SCfg) (a : Nat) : segSizes cfg (a + 1) = segSizes cfg a ++ [cfg.lay.itemCount a] := by
  rw [segSizes_add]; simp

/-- `GetSegItemIndexes(GetIndex(k, 0))` is `(k, 0)`: the number of segments needed for the capacity of `k` segments is `k` -/
theorem segsFor_capOf (cfg : SCfg) (k : Nat) : cfg.lay.segsFor (capOf cfg k) = k := by
  have h := Momo.Seg.sizing_lawful cfg.lay.func cfg.lay.L
  have ok := layout_ok cfg.lay
  unfold capOf
  have hstrict := ok.cap_strict k
  generalize hn : cfg.lay.index k 0 = n at *
  have rt : cfg.lay.index (cfg.lay.segItem n).1 (cfg.lay.segItem n).2 = n := by
    rw [index_eq, segItem_eq]; exact h.roundtrip n
  have af : cfg.lay.index (cfg.lay.segItem n).1 (cfg.lay.segItem n).2 = cfg.lay.index (cfg.lay.segItem n).1 0 + (cfg.lay.segItem n).2 := by
    rw [index_eq, index_eq]; exact h.affine _ _
  have hs : (cfg.lay.segItem n).1 = k := by
    have h1 : (cfg.lay.segItem n).1 < k + 1 := ok.seg_lt _ _ hstrict
    have h2 : ¬ (cfg.lay.segItem n).1 < k := by
      intro hlt
      have := ok.lt_of_seg _ _ hlt
      omega
    omega
  unfold Layout.segsFor
  rw [hs] at rt af ⊢
  split
  · omega
  · rfl

/-! ### the ledger of the segments -/

theorem deallocSegs_spec (cfg : SCfg) : ∀ (f i : Nat) (x : SSys α) (rest : List Nat),
    x.sblocks.Perm (rest ++ (List.range f).map (fun j => cfg.lay.itemCount (i + j))) →
    SPost (deallocSegs cfg i f) x
      (fun _ y => y.cells = x.cells ∧ y.segs = x.segs ∧ y.sblocks.Perm rest ∧ y.pblocks = x.pblocks ∧
        y.objs = x.objs ∧ y.bad = x.bad)
      (fun _ => False)
  | 0, i, x, rest, h => by
    simp only [deallocSegs, spost_pure, true_and]
    simpa using h
  | f+1, i, x, rest, h => by
    unfold deallocSegs
    simp only [spost_deallocSeg_bind]
    have hr : (List.range (f + 1)).map (fun j => cfg.lay.itemCount (i + j))
        = cfg.lay.itemCount i :: (List.range f).map (fun j => cfg.lay.itemCount (i + 1 + j)) := by
      rw [List.range_succ_eq_map, List.map_cons, List.map_map]
      simp only [Nat.add_zero, List.cons.injEq, true_and]
      apply List.map_congr_left
      intro j _
      simp only [Function.comp, Nat.succ_eq_add_one]
      congr 1; omega
    rw [hr] at h
    have hp : (x.sblocks.erase (cfg.lay.itemCount i)).Perm (rest ++ (List.range f).map (fun j => cfg.lay.itemCount (i + 1 + j))) := by
      have h1 := h.erase (cfg.lay.itemCount i)
      have h2 : (rest ++ cfg.lay.itemCount i :: (List.range f).map (fun j => cfg.lay.itemCount (i + 1 + j))).Perm
          (cfg.lay.itemCount i :: (rest ++ (List.range f).map (fun j => cfg.lay.itemCount (i + 1 + j)))) :=
        List.perm_middle
      have h3 := h2.erase (cfg.lay.itemCount i)
      rw [List.erase_cons_head] at h3
      exact h1.trans h3
    have hmem : cfg.lay.itemCount i ∈ x.sblocks := by
      rw [h.mem_iff]; simp
    apply SPost.mono (deallocSegs_spec cfg f (i+1) _ rest hp) _ (fun _ h => h)
    rintro _ y ⟨y1, y2, y3, y4, y5, y6⟩
    refine ⟨y1, y2, y3, y4, y5, ?_⟩
    rw [y6]
    simp [hmem]

/-- the part of the invariant about `mSegments` and the segments -/
structure SegsOK (cfg : SCfg) (x : SSys α) : Prop where
  wf : WF cfg.segs x.segs
  sblocks : x.sblocks.Perm (segSizes cfg x.segs.cells.length)
  pblocks : x.pblocks = ownBlocks cfg.segs x.segs
  good : x.bad = false

/-- `pvDecCapacity(capacity)` (noexcept): the segments beyond the needed ones are returned -/
theorem decCapacityF_spec (cfg : SCfg) (n : Nat) (x : SSys α) (v : SegsOK cfg x) :
    SPost (decCapacityF cfg n) x
      (fun _ y => y.cells = x.cells ∧ y.objs = x.objs ∧ SegsOK cfg y ∧
        y.segs = { x.segs with cells := x.segs.cells.take (x.segs.cells.length - (x.segs.cells.length - cfg.lay.segsFor n)) } ∧
        y.segs.cells.length = min (cfg.lay.segsFor n) x.segs.cells.length)
      (fun _ => False) := by
  unfold decCapacityF
  simp only [spost_getS_bind]
  have hlen : x.segs.cells.length = min (cfg.lay.segsFor n) x.segs.cells.length + (x.segs.cells.length - cfg.lay.segsFor n) := by
    omega
  have hsb : x.sblocks.Perm (segSizes cfg (min (cfg.lay.segsFor n) x.segs.cells.length) ++
      (List.range (x.segs.cells.length - cfg.lay.segsFor n)).map (fun j => cfg.lay.itemCount (cfg.lay.segsFor n + j))) := by
    by_cases hle : cfg.lay.segsFor n ≤ x.segs.cells.length
    · have : min (cfg.lay.segsFor n) x.segs.cells.length = cfg.lay.segsFor n := by omega
      rw [this, ← segSizes_add]
      have : cfg.lay.segsFor n + (x.segs.cells.length - cfg.lay.segsFor n) = x.segs.cells.length := by omega
      rw [this]; exact v.sblocks
    · have h0 : x.segs.cells.length - cfg.lay.segsFor n = 0 := by omega
      have : min (cfg.lay.segsFor n) x.segs.cells.length = x.segs.cells.length := by omega
      rw [h0, this]; simpa using v.sblocks
  apply SPost.bind' _ _ (deallocSegs_spec cfg _ _ x _ hsb) (fun _ h => h)
  rintro _ y ⟨y1, y2, y3, y4, y5, y6⟩
  simp only [spost_setSegCells]
  have hl : (x.segs.cells.take (x.segs.cells.length - (x.segs.cells.length - cfg.lay.segsFor n))).length
      = min (cfg.lay.segsFor n) x.segs.cells.length := by
    simp only [List.length_take]; omega
  refine ⟨y1, y5, ⟨?_, ?_, ?_, y6.trans v.good⟩, by rw [y2], by simp only [hl]⟩
  · rw [y2]; exact wf_with_cells v.wf _ (by rw [hl]; have := v.wf.count_le; omega)
  · simp only [hl]; exact y3
  · simp only [y4, y2]; exact v.pblocks

/-- same contents and same segments; only the capacity of the pointer array may differ -/
def SameSegs (cfg : SCfg) (x y : SSys α) : Prop :=
  y.cells = x.cells ∧ y.objs = x.objs ∧ y.segs.cells = x.segs.cells ∧ SegsOK cfg y

theorem SegsOK.same (cfg : SCfg) (x : SSys α) (v : SegsOK cfg x) : SameSegs cfg x x := ⟨rfl, rfl, rfl, v⟩

theorem segs_owns {cfg : SCfg} {x : SSys α} (v : SegsOK cfg x) : Owns cfg.segs [] 0 x.segSys :=
  ⟨by unfold Frame SSys.segSys; simp [v.pblocks], rfl, v.good⟩

/-- loop body of `pvIncCapacity`: one more segment, or nothing but (possibly) a larger pointer array -/
theorem addSegF_spec (cfg : SCfg) (x : SSys α) (v : SegsOK cfg x) :
    SPost (addSegF cfg) x
      (fun _ y => y.cells = x.cells ∧ y.objs = x.objs ∧ SegsOK cfg y ∧ y.segs = (addSeg cfg x.st).1.segs)
      (fun y => SameSegs cfg x y) := by
  unfold addSegF
  simp only [spost_getS_bind]
  have hr := reserveF_strong cfg.segs noThr [] 0 (x.segs.cells.length + 1) x.segSys v.wf (segs_owns v)
  unfold Strong at hr
  obtain ⟨hcap, hcells, hwf⟩ := reserve_spec cfg.segs x.segs (x.segs.cells.length + 1) v.wf
  apply SPost.bind' _ _ (onSegs_spec _ x _ _ hr)
  · rintro y ⟨y0, h0, y1, y2, y3, y4, y5, y6⟩
    simp only [core_eq_iff] at h0
    refine ⟨y1, y5, by rw [y2, h0.1]; rfl, ?_, ?_, ?_, ?_⟩
    · rw [y2, h0.1]; exact v.wf
    · rw [y3, y2, h0.1]; exact v.sblocks
    · rw [y4, y2, h0.2.1, h0.1]; exact v.pblocks
    · rw [y6, h0.2.2.2]; exact v.good
  · rintro _ y ⟨y0, ⟨ha, hf, ho, hb⟩, y1, y2, y3, y4, y5, y6⟩
    have hseg : y.segs = (reserve cfg.segs x.segs (x.segs.cells.length + 1)).1 := y2.trans ha
    have hy : SegsOK cfg y := by
      refine ⟨hseg ▸ hwf, ?_, ?_, y6.trans hb⟩
      · rw [y3, hseg, hcells]; exact v.sblocks
      · rw [y4, hseg]; unfold Frame at hf; rw [hf, ha]; simp [SSys.segSys]
    apply SPost.bind' _ _ (allocSeg_spec _ y)
    · intro z hz
      simp only [score_eq_iff] at hz
      obtain ⟨z1, z2, z3, z4, z5, z6⟩ := hz
      refine ⟨z1.trans y1, z5.trans y5, by rw [z2, hseg, hcells], ?_, ?_, ?_, z6.trans hy.good⟩
      · rw [z2]; exact hy.wf
      · rw [z3, z2]; exact hy.sblocks
      · rw [z4, z2]; exact hy.pblocks
    · rintro _ z ⟨z1, z2, z3, z4, z5, z6⟩
      simp only [spost_getS_bind, spost_setSegCells]
      have hlen : z.segs.cells.length = x.segs.cells.length := by rw [z2, hseg, hcells]
      refine ⟨z1.trans y1, z5.trans y5, ⟨?_, ?_, ?_, z6.trans hy.good⟩, ?_⟩
      · rw [z2, hseg]
        exact wf_with_cells hwf _ (by simp only [List.length_append, hcells, List.length_cons, List.length_nil]; omega)
      · simp only [List.length_append, hlen, List.length_cons, List.length_nil, z3]
        rw [segSizes_succ]
        have := hy.sblocks
        rw [hseg, hcells] at this
        exact (List.Perm.cons _ this).trans (List.perm_append_singleton _ _).symm
      · simp only [z4, ownBlocks_cells, z2]; exact hy.pblocks
      · rw [z2, hseg]; rfl

theorem st_ext {x : SSys α} {s : SState α} (h1 : x.cells = s.cells) (h2 : x.segs = s.segs) : x.st = s := by
  cases s; simp only [SSys.st] at *; simp [h1, h2]

theorem addSegsF_spec (cfg : SCfg) : ∀ (f : Nat) (x : SSys α), SegsOK cfg x →
    SPost (addSegsF cfg f) x
      (fun _ y => y.cells = x.cells ∧ y.objs = x.objs ∧ SegsOK cfg y ∧ y.st = (addSegs cfg f x.st).1)
      (fun y => y.cells = x.cells ∧ y.objs = x.objs ∧ SegsOK cfg y ∧ x.segs.cells.length ≤ y.segs.cells.length ∧
        y.segs.cells.take x.segs.cells.length = x.segs.cells)
  | 0, x, v => by
    simp only [addSegsF, addSegs, spost_pure, true_and]
    exact ⟨v, trivial⟩
  | f+1, x, v => by
    unfold addSegsF
    apply SPost.bind' _ _ (addSegF_spec cfg x v)
    · rintro y ⟨y1, y2, y3, y4⟩
      exact ⟨y1, y2, y4, by rw [y3]; exact Nat.le_refl _, by rw [y3]; simp⟩
    · rintro _ y ⟨y1, y2, y3, y4⟩
      have hst : y.st = (addSeg cfg x.st).1 := st_ext (by rw [y1]; rfl) y4
      obtain ⟨_, hc, _⟩ := reserve_spec cfg.segs x.segs (x.segs.cells.length + 1) v.wf
      have hyc : y.segs.cells = x.segs.cells ++ [Cell.live x.segs.cells.length] := by
        rw [y4]
        show (reserve cfg.segs x.st.segs (segCount x.st + 1)).1.cells ++ [Cell.live (segCount x.st)] = _
        have : (reserve cfg.segs x.st.segs (segCount x.st + 1)).1.cells = x.segs.cells := hc
        rw [this]; rfl
      have hlen : y.segs.cells.length = x.segs.cells.length + 1 := by rw [hyc]; simp
      have hpre : y.segs.cells.take x.segs.cells.length = x.segs.cells := by rw [hyc]; simp
      apply SPost.mono (addSegsF_spec cfg f y y3)
      · rintro _ z ⟨z1, z2, z3, z4⟩
        refine ⟨z1.trans y1, z2.trans y2, z3, ?_⟩
        rw [z4, hst]; rfl
      · rintro z ⟨z1, z2, z3, z4, z5⟩
        refine ⟨z1.trans y1, z2.trans y2, z3, by omega, ?_⟩
        have : x.segs.cells.length ≤ y.segs.cells.length := by omega
        calc z.segs.cells.take x.segs.cells.length
            = (z.segs.cells.take y.segs.cells.length).take x.segs.cells.length := by
              rw [List.take_take, Nat.min_eq_left this]
          _ = x.segs.cells := by rw [z5, hpre]

theorem incCapacityF_spec (cfg : SCfg) (n : Nat) (x : SSys α) (v : SegsOK cfg x) :
    SPost (incCapacityF cfg (capOf cfg x.segs.cells.length) n) x
      (fun _ y => y.cells = x.cells ∧ y.objs = x.objs ∧ SegsOK cfg y ∧ y.st = (incCapacity cfg x.st n).1)
      (fun y => SameSegs cfg x y) := by
  unfold incCapacityF incCapacity
  simp only [spost_getS_bind]
  apply SPost.tryCatch _ (addSegsF_spec cfg _ x v)
  rintro y ⟨y1, y2, y3, y4, y5⟩
  apply SPost.bind' _ _ (decCapacityF_spec cfg _ y y3) (fun _ h => h.elim)
  rintro _ z ⟨z1, z2, z3, z4, z5⟩
  simp only [spost_throw]
  refine ⟨z1.trans y1, z2.trans y2, ?_, z3⟩
  rw [z4]
  simp only [segsFor_capOf]
  have : y.segs.cells.length - (y.segs.cells.length - x.segs.cells.length) = x.segs.cells.length := by omega
  rw [this, y5]

theorem reserveOpF_spec (cfg : SCfg) (n : Nat) (x : SSys α) (v : SegsOK cfg x) :
    SPost (reserveOpF cfg n) x
      (fun _ y => y.cells = x.cells ∧ y.objs = x.objs ∧ SegsOK cfg y ∧ y.st = (reserveOp cfg x.st n).1)
      (fun y => SameSegs cfg x y) := by
  unfold reserveOpF reserveOp
  simp only [spost_getS_bind]
  split
  · rename_i h
    have : n > Seg.capacity cfg x.st := h
    rw [if_pos this]
    exact incCapacityF_spec cfg n x v
  · rename_i h
    have : ¬ n > Seg.capacity cfg x.st := h
    rw [if_neg this]
    simp only [spost_pure, true_and]
    exact ⟨v, trivial⟩

end Momo.ArrF.Seg
