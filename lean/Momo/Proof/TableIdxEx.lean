import Momo.Proof.TableIdxUpd
import Momo.Proof.MMapHT
/-!
  C07 / F9, bucket level: the bucket description of the DataTable indexes satisfies `SpecOK`; a one-row index that satisfies
  `IdxInv` (non-vacuity of the hypotheses of the `C07_updcol_*` theorems).
-/
namespace Momo.TIdx
open Momo Momo.HT Momo.Table

/-- `BucketOpen2N2<3, part getter>` as the index hash sets use it is a bucket description the C01 theorems cover -/
theorem open2N2part_ok (ls : Nat) : SpecOK (open2N2part ls).sp := by
  have : (open2N2part ls).sp = Driver.HashTable.mkSpec "Open2N2" 3 8 8 true false true 3 ls := rfl
  rw [this]
  exact Momo.MMap.mkSpec_ok_c08 "Open2N2" (Or.inr (Or.inr rfl)) 3 8 8 true false true 3 ls (by decide)

namespace F9one
/-- one row with value 0 in a 4-bucket index on column 0, hash code = the value -/
def bs : BSpec := open2N2part 2
def acc : Acc := fun h _ v => h + v
def st : Store := [⟨0, 0, 0, [0]⟩]
def hs : Nat → Nat := fun _ => 0
def u : UH := { cols := [0], t := (add bs.sp hs emptyTable ⟨0, 0⟩ {}).1, hs := hs, next := 1 }

theorem inv : IdxInv bs acc st u := by
  have hok : (add bs.sp hs emptyTable ⟨0, 0⟩ {}).2 = .ok := by decide +kernel
  obtain ⟨hT, hp⟩ := add_ok bs.sp hs (open2N2part_ok 2) emptyTable ⟨0, 0⟩ {} (emptyTable_inv _ _) (fun _ => rfl)
    (fun x hx => absurd (show x ∈ ([] : List Item) from hx) (by simp)) hok
  have htr : traverse emptyTable = [] := rfl
  rw [htr] at hp
  have hmem : ∀ it ∈ traverse u.t, it = ⟨0, 0⟩ := fun it hit => by simpa using hp.mem_iff.mp hit
  refine ⟨hT, ?_, ?_, by decide, ?_, ?_⟩
  · intro it hit; rw [hmem it hit]; decide
  · exact (hp.map (·.val))
  · intro it hit; rw [hmem it hit]; decide
  · intro r1 h1 r2 h2 _
    have e1 : r1 = ⟨0, 0, 0, [0]⟩ := by simpa [st] using h1
    have e2 : r2 = ⟨0, 0, 0, [0]⟩ := by simpa [st] using h2
    rw [e1, e2]

theorem entry : (⟨0, 0⟩ : Item) ∈ traverse u.t := by decide +kernel

/-- `TryUpdate(row 0, column 0, 4)` completes -/
theorem done : ∃ u' st', updCol bs acc st u 0 0 4 {} = .done u' st' := by
  have h : (match updCol bs acc st u 0 0 4 {} with | .done _ _ => true | _ => false) = true := by decide +kernel
  cases hr : updCol bs acc st u 0 0 4 {} with
  | done u' st' => exact ⟨u', st', rfl⟩
  | dup id => rw [hr] at h; cases h
  | fail o => rw [hr] at h; cases h

end F9one
end Momo.TIdx
