import Momo.Translated.Wave3
import Momo.Proof.SegMachine
/-!
  C12 (third wave, area Wave3, lean/Momo/Translated/Wave3.lean): the class constants the metadata models `Momo.HashMeta.P4` /
  `Momo.HashMeta.O2` read (`hashCodeShift`, `maskEmpty`, `emptyHashProbe`) and `BucketLimP4::WasFull`, as translated from the
  headers, are the model's definitions; `BucketLim4`'s `maxCount` / `pvGetMemPoolIndex()` and `UIntMath::DivByConst` compute the
  plain arithmetic they stand for (no 64-bit wrap under the stated bounds).
  The generated definitions are rewritten by tools/translate.py from the current headers on every check; a changed
  function body makes the equalities below fail to elaborate.
-/
namespace Momo.TrEq
open Momo Momo.Seg

/-- `BucketLimP4::hashCodeShift = sizeof(size_t) * 8 - 7` is the model's `P4.hashCodeShift` -/
theorem tr_limp4_hashCodeShift : Tr.limp4_hashCodeShift = HashMeta.P4.hashCodeShift := by decide
theorem tr_limp4_maskEmpty : Tr.limp4_maskEmpty = HashMeta.P4.maskEmpty := by decide
theorem tr_limp4_emptyHashProbe : Tr.limp4_emptyHashProbe = HashMeta.P4.emptyHashProbe := by decide
/-- `BucketOpen2N2::hashCodeShift = sizeof(size_t) * 8 - sizeof(ShortHash) * 8 + 1` is the model's `O2.hashCodeShift` -/
theorem tr_open2n2_hashCodeShift : Tr.open2n2_hashCodeShift = HashMeta.O2.hashCodeShift := by decide

/-- `BucketLimP4::WasFull` is the model's `Bucket.wasFull` (`pvGetMemPoolIndex()` = the model's `mpi`) -/
theorem tr_limp4_WasFull (b : HashMeta.P4.Bucket) : Tr.limp4_WasFull b.maxCount b.mpi = b.wasFull := by
  unfold Tr.limp4_WasFull HashMeta.P4.Bucket.wasFull
  rw [Bool.eq_iff_iff]; simp

theorem tr_open2n2_WasFull : Tr.open2n2_WasFull = true := rfl

/-- `BucketOne`: `(sizeof(size_t) - stateSize) * 8` for a state of at most 8 bytes -/
theorem tr_one_hashCodeShift (s : Nat) (h : s ≤ 8) : Tr.one_hashCodeShift s = (8 - s) * 8 := by
  unfold Tr.one_hashCodeShift
  rw [sub64_of_le h, mul64_of_lt (by omega)]

/-- `BucketLim4::maxCount = size_t{1} << logMaxCount` -/
theorem tr_lim4_maxCount (L : Nat) (h : L < 64) : Tr.lim4_maxCount L = 2 ^ L := by
  unfold Tr.lim4_maxCount; exact shl64_one h

/-- `BucketLim4::pvGetMemPoolIndex()`: the top `logMaxCount` bits of the 32-bit state, plus one -/
theorem tr_lim4_pvGetMemPoolIndex (L s : Nat) (hL : L ≤ 32) (hs : s < 2 ^ 32) :
    Tr.lim4_pvGetMemPoolIndex L s = s / 2 ^ (32 - L) + 1 := by
  unfold Tr.lim4_pvGetMemPoolIndex
  rw [sub64_of_le hL, Nat.shiftRight_eq_div_pow]
  have : s / 2 ^ (32 - L) ≤ s := Nat.div_le_self _ _
  rw [add64_of_lt (by omega)]

/-- `UIntMath::DivByConst<mod>(value)`: `value - (value / mod) * mod` does not wrap and is the remainder -/
theorem tr_um_DivByConst (v m : Nat) (hv : v < 2 ^ 64) :
    Tr.um_DivByConst_quotient v m = v / m ∧
    Tr.um_DivByConst_remainder v m (Tr.um_DivByConst_quotient v m) = v % m := by
  unfold Tr.um_DivByConst_remainder Tr.um_DivByConst_quotient
  have hle : v / m * m ≤ v := Nat.div_mul_le_self v m
  refine ⟨rfl, ?_⟩
  rw [mul64_of_lt (by omega), sub64_of_le hle, Nat.mod_def, Nat.mul_comm]

end Momo.TrEq
