import Momo.Translated.Wave2
import Momo.Proof.SegMachine
import Momo.Proof.PoolU32
/-!
  C09: the index / address / size arithmetic of `internal::MemPoolUInt32` (MemPool.h 803-939) as translated from the header
  (area Wave2, lean/Momo/Translated/Wave2.lean) is the arithmetic of the model `Momo/Model/PoolU32.lean`:
  the constructor's `mMaxBufferCount` / `mBlockSize` = `mkCfg`, `pvGetBufferSize` = `Cfg.bufferSize`, `GetRealPointer` =
  `realPtr` (index → (buffer number, offset) → address), the pieces of `pvNewBuffer` (limit test, `Reserve` argument, the
  link word and its address for every block, the new head) = `newBuffer` / `addBuffer` / `initLinks`, the test of `Deallocate`
  that gives everything back.
  The generated definitions are rewritten by tools/translate.py from the current headers on every check; a changed
  function body makes the equalities below fail to elaborate.
-/
namespace Momo.TrEq
open Momo Momo.Seg Momo.PoolU32

/-- the constructor: `mMaxBufferCount(maxTotalBlockCount / blockCount)`, `mBlockSize(minmax(blockSize, sizeof(uint32_t)).second)` -/
theorem tr_pool32_mkCfg (blockCount blockSize maxTotal : Nat) :
    (⟨blockCount, Tr.pool32_blockSize blockSize, Tr.pool32_maxBufferCount blockCount maxTotal⟩ : Cfg)
      = mkCfg blockCount blockSize maxTotal := by
  unfold Tr.pool32_blockSize Tr.pool32_maxBufferCount mkCfg
  simp only [decide_eq_true_eq, sizeofU32]
  congr 1
  split <;> split <;> omega

/-- `if (mBlockSize > UIntConst::maxSize / blockCount) throw`: a pool that was constructed has `blockCount * mBlockSize < 2^64` -/
theorem tr_pool32_sizeFits (C : Cfg) (h : Tr.pool32_blockSizeTooBig C.N C.S = false) : C.N * C.S < 2 ^ 64 := by
  unfold Tr.pool32_blockSizeTooBig at h
  simp only [decide_eq_false_iff_not, Nat.not_lt] at h
  have h1 : C.N * C.S ≤ C.N * (18446744073709551615 / C.N) := Nat.mul_le_mul_left _ h
  have h2 : C.N * (18446744073709551615 / C.N) ≤ 18446744073709551615 := Nat.mul_div_le _ _
  omega

/-- `pvGetBufferSize()` = `blockCount * mBlockSize`, no wrap for a constructed pool -/
theorem tr_pool32_bufferSize (C : Cfg) (hfit : C.N * C.S < 2 ^ 64) : Tr.pool32_pvGetBufferSize C.N C.S = C.bufferSize := by
  unfold Tr.pool32_pvGetBufferSize Cfg.bufferSize
  exact mul64_of_lt hfit

/-- `GetRealPointer(block)`: buffer number `block / blockCount`, offset `block % blockCount`, address
    `mBuffers[...] + offset * mBlockSize` — the model's `realPtr`, when the buffer lies inside the 64-bit address space
    (`mb k` = the address in `mBuffers[k]`) -/
theorem tr_pool32_realPtr (C : Cfg) (hC : C.Legal) (st : State) (mb : Nat → Nat) (block : Nat) (b : Int)
    (hb : st.bufs[bufferOf C block]? = some b) (h0 : 0 ≤ b) (hfit : b + C.bufferSize ≤ 2 ^ 64)
    (hmb : mb (bufferOf C block) = b.toNat) :
    realPtr C st block = some ((Tr.pool32_GetRealPointer C.N C.S mb block : Nat) : Int) := by
  unfold realPtr Tr.pool32_GetRealPointer
  rw [hb]
  unfold bufferOf at hmb
  unfold offsetOf
  simp only [Option.map, hmb]
  have hlt : block % C.N < C.N := Nat.mod_lt _ hC.hN
  have h1 : (block % C.N + 1) * C.S ≤ C.N * C.S := Nat.mul_le_mul_right _ hlt
  rw [Nat.add_mul, Nat.one_mul] at h1
  have hS := hC.hS
  simp only [sizeofU32] at hS
  unfold Cfg.bufferSize at hfit
  have hbn : (b.toNat : Int) = b := Int.toNat_of_nonneg h0
  rw [mul64_of_lt (show block % C.N * C.S < 2 ^ 64 by omega), add64_of_lt (show b.toNat + block % C.N * C.S < 2 ^ 64 by omega)]
  congr 1
  omega

/-! ### `pvNewBuffer` -/

theorem tr_pool32_newBuffer_limit (cnt maxBuf : Nat) : (Tr.pool32_newBuffer_limit cnt maxBuf = true) ↔ cnt ≥ maxBuf := by
  simp [Tr.pool32_newBuffer_limit]

theorem tr_pool32_newBuffer_reserve (cnt : Nat) (h : cnt < 2 ^ 64 - 1) : Tr.pool32_newBuffer_reserve cnt = cnt + 1 := by
  unfold Tr.pool32_newBuffer_reserve; rw [add64_of_lt (by omega)]

/-- the link word written into block `i` of the new buffer: the index of the next block reduced to 32 bits, `nullPtr` for the
    last one (`bufferCount * blockCount + blockCount` does not wrap in 64 bits: it is below `2^32` for a legal pool) -/
theorem tr_pool32_nextBlock (N cnt i : Nat) (hi : i < N) (hw : cnt * N + N < 2 ^ 64) :
    Tr.pool32_newBuffer_nextBlock N cnt i = if i + 1 < N then PoolU32.w32 (cnt * N + i + 1) else nullPtr := by
  unfold Tr.pool32_newBuffer_nextBlock PoolU32.w32
  rw [add64_of_lt (show i + 1 < 2 ^ 64 by omega), mul64_of_lt (show cnt * N < 2 ^ 64 by omega),
    add64_of_lt (show cnt * N + i < 2 ^ 64 by omega), add64_of_lt (show cnt * N + i + 1 < 2 ^ 64 by omega)]
  simp only [decide_eq_true_eq]

/-- the address the link word of block `i` goes to: `buffer + mBlockSize * i` -/
theorem tr_pool32_linkAddr (C : Cfg) (base : Int) (i : Nat) (hi : i < C.N) (hS : 0 < C.S) (h0 : 0 ≤ base)
    (hfit : base + C.bufferSize ≤ 2 ^ 64) :
    ((Tr.pool32_newBuffer_linkAddr C.S base.toNat i : Nat) : Int) = base + ((C.S * i : Nat) : Int) := by
  unfold Tr.pool32_newBuffer_linkAddr
  unfold Cfg.bufferSize at hfit
  have h1 : C.S * (i + 1) ≤ C.S * C.N := Nat.mul_le_mul_left _ hi
  rw [Nat.mul_add, Nat.mul_one, Nat.mul_comm C.S C.N] at h1
  have hbn : (base.toNat : Int) = base := Int.toNat_of_nonneg h0
  rw [mul64_of_lt (show C.S * i < 2 ^ 64 by omega), add64_of_lt (show base.toNat + C.S * i < 2 ^ 64 by omega)]
  omega

theorem tr_pool32_head (N cnt : Nat) (hw : cnt * N < 2 ^ 64) : Tr.pool32_newBuffer_head N cnt = PoolU32.w32 (cnt * N) := by
  unfold Tr.pool32_newBuffer_head PoolU32.w32
  rw [mul64_of_lt hw]

/-- the loop of `pvNewBuffer` (model `initLinks`) with the translated link word and the translated address of every block -/
theorem initLinks_translated (C : Cfg) (hC : C.Legal) (cnt : Nat) (base : Int) (h0 : 0 ≤ base) (hfit : base + C.bufferSize ≤ 2 ^ 64)
    (hw : cnt * C.N + C.N < 2 ^ 64) :
    ∀ (is : List Nat) (m : Int → Option Nat), (∀ i ∈ is, i < C.N) →
      initLinks C cnt base is m =
        is.foldl (fun m i => setW m ((Tr.pool32_newBuffer_linkAddr C.S base.toNat i : Nat) : Int)
          (some (Tr.pool32_newBuffer_nextBlock C.N cnt i))) m
  | [], _, _ => rfl
  | i :: is, m, h => by
    have hi : i < C.N := h i (List.mem_cons_self)
    have hS : 0 < C.S := by have := hC.hS; simp only [sizeofU32] at this; omega
    rw [initLinks, List.foldl_cons, tr_pool32_linkAddr C base i hi hS h0 hfit, tr_pool32_nextBlock C.N cnt i hi hw]
    exact initLinks_translated C hC cnt base h0 hfit hw is _ (fun j hj => h j (List.mem_cons_of_mem _ hj))

/-- `if (mAllocCount == 0 && mBuffers.GetCount() > 2) pvClear();` in `Deallocate` (evaluated after `--mAllocCount`) -/
theorem tr_pool32_dealloc_clears (alloc cnt : Nat) : (Tr.pool32_dealloc_clears alloc cnt = true) ↔ (alloc = 0 ∧ cnt > 2) := by
  simp [Tr.pool32_dealloc_clears]

end Momo.TrEq
