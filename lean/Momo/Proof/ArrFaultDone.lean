import Momo.Proof.ArrFaultMain
/-!
  C04 / C10, lemmas part 6: with an exhausted fault schedule (no fault) every operation completes - so the
  "completes with the fault-free state" branch of the theorems is the one taken when nothing fails.
-/
namespace Momo.ArrF
set_option linter.unusedSimpArgs false
set_option linter.unusedVariables false
open Momo Momo.Arr
open FM (throw tryCatch)
variable {α β γ : Type}

/-- with an exhausted schedule the computation completes with a result satisfying `P`, the schedule stays exhausted -/
def CompletesP (m : FM α β) (P : β → Prop) : Prop :=
  ∀ x : Sys α, x.faults = [] → ∃ b y, m.run x = (.ok b, y) ∧ y.faults = [] ∧ P b

abbrev Completes (m : FM α β) : Prop := CompletesP m (fun _ => True)

theorem CompletesP.bind {m : FM α β} {f : β → FM α γ} {P : β → Prop} {Q : γ → Prop}
    (h1 : CompletesP m P) (h2 : ∀ b, P b → CompletesP (f b) Q) : CompletesP (m >>= f) Q := by
  intro x hx
  obtain ⟨b, y, hm, hy, hp⟩ := h1 x hx
  obtain ⟨c, z, hf, hz, hq⟩ := h2 b hp y hy
  refine ⟨c, z, ?_, hz, hq⟩
  show (FM.bind m f).run x = _
  simp only [FM.bind, hm, hf]

theorem CompletesP.weaken {m : FM α β} {P Q : β → Prop} (h : CompletesP m P) (hq : ∀ b, P b → Q b) : CompletesP m Q := by
  intro x hx
  obtain ⟨b, y, hm, hy, hp⟩ := h x hx
  exact ⟨b, y, hm, hy, hq b hp⟩

theorem CompletesP.pure (b : β) (P : β → Prop) (h : P b) : CompletesP (Pure.pure b : FM α β) P :=
  fun x hx => ⟨b, x, rfl, hx, h⟩

theorem CompletesP.tryCatch {m h : FM α β} {P : β → Prop} (h1 : CompletesP m P) : CompletesP (tryCatch m h) P := by
  intro x hx
  obtain ⟨b, y, hm, hy, hp⟩ := h1 x hx
  refine ⟨b, y, ?_, hy, hp⟩
  simp only [FM.tryCatch, hm]

theorem completes_getArr (P : State α → Prop) (h : ∀ s, P s) : CompletesP (getArr : FM α (State α)) P :=
  fun x hx => ⟨x.arr, x, rfl, hx, h _⟩
theorem completes_setArr (s : State α) : Completes (setArr s) := fun x hx => ⟨(), _, rfl, hx, trivial⟩
theorem completes_modifyCells (f : Cells α → Cells α) : Completes (modifyCells f) := fun x hx => ⟨(), _, rfl, hx, trivial⟩
theorem completes_born : Completes (born : FM α Unit) := fun x hx => ⟨(), _, rfl, hx, trivial⟩
theorem completes_destroyObjs (k : Nat) : Completes (destroyObjs k : FM α Unit) := fun x hx => ⟨(), _, rfl, hx, trivial⟩
theorem completes_deallocB (n : Nat) : Completes (deallocB n : FM α Unit) := fun x hx => ⟨(), _, rfl, hx, trivial⟩
theorem completes_inplaceB (o n : Nat) (ok : Bool) : Completes (inplaceB o n ok : FM α Unit) :=
  fun x hx => ⟨(), _, rfl, hx, trivial⟩

theorem completes_tick (b : Bool) : Completes (tick b : FM α Unit) := by
  intro x hx
  cases b
  · exact ⟨(), x, rfl, hx, trivial⟩
  · refine ⟨(), { x with faults := [] }, ?_, rfl, trivial⟩
    simp [tick, hx, nextFault]

theorem completes_allocB (n : Nat) : Completes (allocB n : FM α Unit) := by
  intro x hx
  refine ⟨(), { x with faults := [], blocks := n :: x.blocks, evs := x.evs ++ [.did (.alloc n)] }, ?_, rfl, trivial⟩
  simp only [allocB, hx, nextFault, Bool.false_eq_true, ↓reduceIte]

theorem completes_reallocB (o n : Nat) : Completes (reallocB o n : FM α Unit) := by
  intro x hx
  by_cases h : o = n
  · exact ⟨(), x, by simp [reallocB, h], hx, trivial⟩
  · refine ⟨(), { x with faults := [], blocks := n :: x.blocks.erase o, bad := x.bad || !x.blocks.contains o,
                           evs := x.evs ++ [.did (.realloc o n)] }, ?_, rfl, trivial⟩
    simp only [reallocB, h, hx, nextFault, Bool.false_eq_true, ↓reduceIte]

theorem completes_construct (b : Bool) : Completes (construct b : FM α Unit) :=
  CompletesP.bind (completes_tick b) (fun _ _ => completes_born)

theorem completes_ctorLoop (b : Bool) : ∀ (n done : Nat), CompletesP (ctorLoop b n done : FM α (Nat × Bool)) (fun r => r.2 = false)
  | 0, done => CompletesP.pure _ _ rfl
  | n+1, done => by
    intro x hx
    obtain ⟨u, y, hm, hy, _⟩ := completes_construct b x hx
    obtain ⟨r, z, hz, hzf, hr⟩ := completes_ctorLoop b n (done + 1) y hy
    refine ⟨r, z, ?_, hzf, hr⟩
    simp only [ctorLoop, hm, hz]

/-- discharges `Completes` goals of straight-line code -/
macro "completes" : tactic =>
  `(tactic| repeat (first
    | exact CompletesP.pure _ _ trivial
    | exact completes_setArr _
    | exact completes_modifyCells _
    | exact completes_born
    | exact completes_destroyObjs _
    | exact completes_deallocB _
    | exact completes_inplaceB _ _ _
    | exact completes_tick _
    | exact completes_allocB _
    | exact completes_reallocB _ _
    | exact completes_construct _
    | apply CompletesP.tryCatch
    | (apply CompletesP.bind (completes_getArr (fun _ => True) (fun _ => trivial)); intro _ _)
    | (apply CompletesP.bind (completes_ctorLoop _ _ _); rintro ⟨_, _⟩ hr; simp only at hr; subst hr;
       simp only [Bool.false_eq_true, ↓reduceIte])
    | (apply CompletesP.bind (P := fun _ => True) ?_ (fun _ _ => ?_))
    | split
    | assumption))

theorem completes_reallocateF (cfg : Cfg) (lin exp : Nat) : Completes (reallocateF cfg lin exp : FM α Bool) := by
  unfold reallocateF
  completes

theorem completes_relocateF (cfg : Cfg) (thr : Thr) : Completes (relocateF cfg thr : FM α (Cells α)) := by
  unfold relocateF
  completes

theorem completes_resetF (cfg : Cfg) (newCap : Nat) (creator : FM α (Cells α)) (h : Completes creator) :
    Completes (resetF cfg newCap creator) := by
  unfold resetF
  completes

theorem completes_moveToF (cfg : Cfg) (thr : Thr) (lin exp : Nat) : Completes (moveToF cfg thr lin exp : FM α Unit) := by
  unfold moveToF
  apply CompletesP.bind (completes_reallocateF cfg lin exp)
  intro b _
  split
  · completes
  · exact completes_resetF cfg exp _ (completes_relocateF cfg thr)

theorem completes_growF (cfg : Cfg) (thr : Thr) (n : Nat) (r : Bool) : Completes (growF cfg thr n r : FM α Unit) := by
  unfold growF
  apply CompletesP.bind (completes_getArr (fun _ => True) (fun _ => trivial))
  intro _ _
  exact completes_moveToF cfg thr _ _

theorem completes_undoFree_relocateCreateF (cfg : Cfg) (thr : Thr) (mv : Bool) (item : Ref α) :
    Completes (relocateCreateF cfg thr mv item : FM α (Cells α)) := by
  unfold relocateCreateF
  completes

theorem completes_addBackGrowCrtF (cfg : Cfg) (thr : Thr) (mv : Bool) (item : Ref α) :
    Completes (addBackGrowCrtF cfg thr mv item : FM α Unit) := by
  unfold addBackGrowCrtF
  apply CompletesP.bind (completes_getArr (fun _ => True) (fun _ => trivial))
  intro _ _
  exact completes_resetF cfg _ _ (completes_undoFree_relocateCreateF cfg thr mv item)

theorem completes_addBackNogrowF (b : Bool) (f : Cells α → Cells α) : Completes (addBackNogrowF b f : FM α Unit) := by
  unfold addBackNogrowF
  completes

theorem completes_setCountCreatorF (cfg : Cfg) (thr : Thr) (extra : Nat) (c : Cell α) :
    Completes (setCountCreatorF cfg thr extra c : FM α (Cells α)) := by
  unfold setCountCreatorF
  apply CompletesP.bind (completes_ctorLoop _ _ _)
  rintro ⟨_, _⟩ hr
  simp only at hr; subst hr
  simp only [Bool.false_eq_true, ↓reduceIte]
  apply CompletesP.bind (P := fun _ => True) (CompletesP.tryCatch (completes_relocateF cfg thr))
  intro _ _
  completes

theorem completes_execPrim (cfg : Cfg) (thr : Thr) (p : Prim α) : Completes (execPrim cfg thr p) := by
  unfold execPrim
  completes

theorem completes_execPrims (cfg : Cfg) (thr : Thr) : ∀ ps : List (Prim α), Completes (execPrims cfg thr ps)
  | [] => CompletesP.pure _ _ trivial
  | p :: ps => by
    unfold execPrims
    exact CompletesP.bind (completes_execPrim cfg thr p) (fun _ _ => completes_execPrims cfg thr ps)

theorem completes_shiftNF (cfg : Cfg) (thr : Thr) (index count : Nat) (item : Ref α) :
    Completes (shiftNF cfg thr index count item) := by
  unfold shiftNF
  exact CompletesP.bind (completes_getArr (fun _ => True) (fun _ => trivial)) (fun _ _ => completes_execPrims cfg thr _)

theorem completes_shiftRF (cfg : Cfg) (thr : Thr) (mv : Bool) (index : Nat) (rs : List (Ref α)) :
    Completes (shiftRF cfg thr mv index rs) := by
  unfold shiftRF
  exact CompletesP.bind (completes_getArr (fun _ => True) (fun _ => trivial)) (fun _ _ => completes_execPrims cfg thr _)

theorem completes_removeBackF (count : Nat) : Completes (removeBackF count : FM α Unit) := by
  unfold removeBackF
  completes

theorem completes_loopFiltF (cfg : Cfg) (thr : Thr) (p : Cell α → Bool) : ∀ (f nc i : Nat),
    Completes (loopFiltF cfg thr p nc i f)
  | 0, nc, i => CompletesP.pure _ _ trivial
  | f+1, nc, i => by
    unfold loopFiltF
    apply CompletesP.bind (completes_getArr (fun _ => True) (fun _ => trivial))
    intro _ _
    split
    · exact completes_loopFiltF cfg thr p f nc (i+1)
    · exact CompletesP.bind (completes_execPrim cfg thr _) (fun _ _ => completes_loopFiltF cfg thr p f (nc+1) (i+1))

theorem completes_insertCrtF (cfg : Cfg) (thr : Thr) (index : Nat) (mv : Bool) (item : Ref α) :
    Completes (insertCrtF cfg thr index mv item) := by
  unfold insertCrtF
  apply CompletesP.bind (completes_getArr (fun _ => True) (fun _ => trivial))
  intro s _
  apply CompletesP.bind (completes_construct _)
  intro _ _
  apply CompletesP.bind (completes_modifyCells _)
  intro _ _
  apply CompletesP.bind (P := fun _ => True)
  · apply CompletesP.tryCatch
    dsimp only
    split
    · exact CompletesP.bind (completes_growF cfg thr _ _) (fun _ _ => completes_shiftRF cfg thr _ _ _)
    · exact completes_shiftRF cfg thr _ _ _
  · intro _ _
    completes

theorem completes_copyAllF (thr : Thr) : ∀ cs : List (Cell α), Completes (copyAllF thr cs)
  | [] => CompletesP.pure _ _ trivial
  | c :: cs => by
    unfold copyAllF
    exact CompletesP.bind (completes_addBackNogrowF _ _) (fun _ _ => completes_copyAllF thr cs)

theorem completes_newFromF (cfg : Cfg) (thr : Thr) (cap0 : Nat) (xs : List (Cell α)) :
    Completes (newFromF cfg thr cap0 xs) := by
  unfold newFromF
  apply CompletesP.bind (P := fun _ => True)
  · unfold newCapF
    split
    · completes
    · completes
  · intro _ _
    exact CompletesP.tryCatch (completes_copyAllF thr xs)

theorem completes_onTemp (m : FM α Unit) (h : Completes m) : Completes (onTemp m) := by
  intro x hx
  obtain ⟨b, y, hm, hy, _⟩ := h { x with arr := {} } hx
  refine ⟨y.arr, { y with arr := x.arr }, ?_, hy, trivial⟩
  simp only [onTemp, hm]

/-- **with an exhausted fault schedule every operation completes** -/
theorem completes_stepF (cfg : Cfg) (thr : Thr) (op : FOp α) : Completes (stepF cfg thr op) := by
  cases op with
  | addBackCopy item =>
    unfold stepF addBackCopyF
    apply CompletesP.bind (completes_getArr (fun _ => True) (fun _ => trivial))
    intro s _
    split
    · exact completes_addBackNogrowF _ _
    · split
      · apply CompletesP.bind (completes_construct _)
        intro _ _
        apply CompletesP.bind (P := fun _ => True) (CompletesP.tryCatch (completes_growF cfg thr _ _))
        intro _ _
        completes
      · exact completes_addBackGrowCrtF cfg thr false item
  | addBackMove item =>
    unfold stepF addBackMoveF
    apply CompletesP.bind (completes_getArr (fun _ => True) (fun _ => trivial))
    intro s _
    split
    · exact completes_addBackNogrowF _ _
    · split
      · apply CompletesP.bind (completes_growF cfg thr _ _)
        intro _ _
        completes
      · exact completes_addBackGrowCrtF cfg thr true item
  | addBackCrt mv item =>
    unfold stepF addBackCrtF
    apply CompletesP.bind (completes_getArr (fun _ => True) (fun _ => trivial))
    intro s _
    split
    · exact completes_addBackNogrowF _ _
    · exact completes_addBackGrowCrtF cfg thr mv item
  | setCount count item =>
    unfold stepF setCountF
    apply CompletesP.bind (completes_getArr (fun _ => True) (fun _ => trivial))
    intro s _
    split
    · completes
    · split
      · completes
      · exact completes_resetF cfg _ _ (completes_setCountCreatorF cfg thr _ _)
  | reserve n =>
    unfold stepF reserveF
    apply CompletesP.bind (completes_getArr (fun _ => True) (fun _ => trivial))
    intro s _
    split
    · exact completes_growF cfg thr _ _
    · completes
  | shrink n =>
    unfold stepF shrinkF
    apply CompletesP.bind (completes_getArr (fun _ => True) (fun _ => trivial))
    intro s _
    split
    · completes
    · exact completes_moveToF cfg thr _ _
  | insertCrt index mv item => exact completes_insertCrtF cfg thr index mv item
  | insertMove index item =>
    unfold stepF insertMoveF
    apply CompletesP.bind (completes_getArr (fun _ => True) (fun _ => trivial))
    intro s _
    split
    · exact completes_insertCrtF cfg thr index true item
    · exact completes_shiftRF cfg thr _ _ _
  | insertN index count item =>
    unfold stepF insertNF
    apply CompletesP.bind (completes_getArr (fun _ => True) (fun _ => trivial))
    intro s _
    split
    · apply CompletesP.bind (completes_construct _)
      intro _ _
      apply CompletesP.bind (P := fun _ => True)
      · apply CompletesP.tryCatch
        exact CompletesP.bind (completes_growF cfg thr _ _) (fun _ _ => completes_shiftNF cfg thr _ _ _)
      · intro _ _; completes
    · split
      · apply CompletesP.bind (completes_construct _)
        intro _ _
        apply CompletesP.bind (P := fun _ => True) (CompletesP.tryCatch (completes_shiftNF cfg thr _ _ _))
        intro _ _; completes
      · exact completes_shiftNF cfg thr _ _ _
  | insertRange index xs =>
    unfold stepF insertRangeF
    apply CompletesP.bind (completes_getArr (fun _ => True) (fun _ => trivial))
    intro s _
    dsimp only
    split
    · exact CompletesP.bind (completes_growF cfg thr _ _) (fun _ _ => completes_shiftRF cfg thr _ _ _)
    · exact completes_shiftRF cfg thr _ _ _
  | remove index count =>
    unfold stepF removeF
    apply CompletesP.bind (completes_getArr (fun _ => True) (fun _ => trivial))
    intro s _
    split
    · completes
    · exact CompletesP.bind (completes_execPrims cfg thr _) (fun _ _ => completes_removeBackF _)
  | removeIf p =>
    unfold stepF removeIfF
    apply CompletesP.bind (P := fun _ => True)
    · apply CompletesP.bind (completes_getArr (fun _ => True) (fun _ => trivial))
      intro s _
      apply CompletesP.bind (completes_loopFiltF cfg thr p _ _ _)
      intro _ _
      apply CompletesP.bind (completes_removeBackF _)
      intro _ _
      completes
    · intro _ _; completes
  | copyAssign src =>
    unfold stepF copyAssignF
    apply CompletesP.bind (completes_onTemp _ (completes_newFromF cfg thr _ _))
    intro _ _
    completes

/-- **no fault**: the operation completes, the array is that of the fault-free model `Momo.Arr`, valid, ledger exact -/
theorem nofault_step (cfg : Cfg) (thr : Thr) (rest : List Nat) (k : Nat) (op : FOp α)
    (x : Sys α) (v : Valid cfg rest k x) (hpre : op.pre cfg x.arr) (hf : x.faults = []) :
    ∃ y, (stepF cfg thr op).run x = (.ok (), y) ∧ y.arr = (pureStep cfg x.arr op).1 ∧ Valid cfg rest k y := by
  obtain ⟨_, y, hrun, _, _⟩ := completes_stepF cfg thr op x hf
  have h := basic_step cfg thr rest k op x v hpre
  unfold Post at h
  rw [hrun] at h
  exact ⟨y, hrun, h⟩

end Momo.ArrF
