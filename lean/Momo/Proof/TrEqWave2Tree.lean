import Momo.Translated.Wave2
import Momo.Proof.SegMachine
import Momo.Proof.TrEqMisc
/-!
  C02: the capacity / pool-index arithmetic of `internal::Node` (details/TreeNode.h) and the item-count arithmetic and
  tests of `TreeSet::pvAdd`, `Relocator::GrowLeafNode / pvSplitNode`, `TreeSet::pvRebalance(parentNode, index, savedNode)` and
  the binary search of `pvFindFirst(node, pred)` (TreeSet.h) as translated from the headers (area Wave2,
  lean/Momo/Translated/Wave2.lean) are the functions of the model `Momo/Model/BTree.lean`:
  `lastLeafPool`, `leafCap`, `capOf`, the case analysis and node sizes of `addLeaf` / `addInner`, the test of `tryMerge`,
  `binLoop` / `findBin`.
  The generated definitions are rewritten by tools/translate.py from the current headers on every check; a changed
  function body makes the equalities below fail to elaborate.
-/
namespace Momo.TrEq
open Momo Momo.Seg Momo.BTree Momo.BTree.Node

/-! ### details/TreeNode.h -/

/-- `capacityStep = (tCapacityStep > 0) ? tCapacityStep : tMaxCapacity` — the meaning of `Cfg.step` -/
theorem tr_tree_capacityStep (M s : Nat) : Tr.tree_capacityStep M s = if 0 < s then s else M := by
  unfold Tr.tree_capacityStep
  simp

/-- `leafMemPoolCount = maxCapacity / (2 * capacityStep) + 1` (`2 * capacityStep` must not wrap) -/
theorem tr_tree_leafMemPoolCount (cfg : Cfg) (hs : cfg.step < 2 ^ 63) (hM : cfg.maxCap < 2 ^ 64 - 1) :
    Tr.tree_leafMemPoolCount cfg.maxCap cfg.step = lastLeafPool cfg + 1 := by
  unfold Tr.tree_leafMemPoolCount lastLeafPool
  simp only [Extracted.treeLeafPoolDivisor]
  rw [mul64_of_lt (by omega)]
  have := Nat.div_le_self cfg.maxCap (2 * cfg.step)
  rw [add64_of_lt (by omega)]

/-- `pvGetLeafMemPoolIndex(params, count)` for `count ≤ maxCapacity`: first pool while at most one internal node is alive and
    the pools hold more than one block per buffer, else `(maxCapacity - count) / capacityStep` clamped to the last pool -/
theorem tr_tree_leafPoolIndex (cfg : Cfg) (bc ia count : Nat) (hs : cfg.step < 2 ^ 63) (hM : cfg.maxCap < 2 ^ 64 - 1)
    (hc : count ≤ cfg.maxCap) (hb : cfg.blockGt1 = decide (bc > 1)) :
    Tr.tree_pvGetLeafMemPoolIndex cfg.maxCap cfg.step bc ia count =
      if ia ≤ 1 && cfg.blockGt1 then 0 else min ((cfg.maxCap - count) / cfg.step) (lastLeafPool cfg) := by
  unfold Tr.tree_pvGetLeafMemPoolIndex
  rw [tr_tree_leafMemPoolCount cfg hs hM, hb, sub64_of_le hc, sub64_of_le (by omega)]
  simp only [Bool.and_eq_true, decide_eq_true_eq, Nat.add_sub_cancel, Nat.min_def]
  split
  · rfl
  · split <;> split <;> omega

/-- `GetCapacity()` of a leaf whose `mMemPoolIndex` is `idx` (a legal leaf pool index): `maxCapacity - capacityStep * idx` -/
theorem tr_tree_getCapacity_leaf (cfg : Cfg) (idx : Nat) (hs : cfg.step < 2 ^ 63) (hM : cfg.maxCap < 2 ^ 64 - 1)
    (hi : idx ≤ lastLeafPool cfg) (hle : cfg.step * idx ≤ cfg.maxCap) :
    Tr.tree_GetCapacity cfg.maxCap cfg.step idx = cfg.maxCap - cfg.step * idx := by
  unfold Tr.tree_GetCapacity Tr.tree_IsLeaf
  rw [tr_tree_leafMemPoolCount cfg hs hM]
  have : decide (idx < lastLeafPool cfg + 1) = true := by simp; omega
  simp only [this, if_true]
  rw [mul64_of_lt (by omega), sub64_of_le hle]

/-- the capacity of the leaf `Node::Create(params, true, count)` makes — `pvGetLeafMemPoolIndex`, the constructor's
    `static_cast<uint8_t>`, `GetCapacity()` — is the model's `leafCap` (for `maxCapacity < 256`, the static assertion of the class,
    `capacityStep < 2^63`, `count ≤ maxCapacity`, the assertion of `Create`; `capacityStep = 0` cannot be instantiated) -/
theorem tr_tree_leafCap (cfg : Cfg) (bc ia count : Nat) (hM : cfg.maxCap < 256) (hs : cfg.step < 2 ^ 63)
    (hc : count ≤ cfg.maxCap) (hb : cfg.blockGt1 = decide (bc > 1)) :
    Tr.tree_GetCapacity cfg.maxCap cfg.step
        (Tr.tree_ctorMemPoolIndex (Tr.tree_pvGetLeafMemPoolIndex cfg.maxCap cfg.step bc ia count)) = leafCap cfg ia count := by
  rw [tr_tree_leafPoolIndex cfg bc ia count hs (by omega) hc hb]
  unfold leafCap Tr.tree_ctorMemPoolIndex
  split
  · rw [tr_tree_getCapacity_leaf cfg _ hs (by omega) (by simp) (by simp)]
    simp
  · have h1 : min ((cfg.maxCap - count) / cfg.step) (lastLeafPool cfg) ≤ (cfg.maxCap - count) / cfg.step := Nat.min_le_left _ _
    have h2 : (cfg.maxCap - count) / cfg.step ≤ cfg.maxCap - count := Nat.div_le_self _ _
    have h3 : cfg.step * ((cfg.maxCap - count) / cfg.step) ≤ cfg.maxCap - count := Nat.mul_div_le _ _
    have h4 : cfg.step * min ((cfg.maxCap - count) / cfg.step) (lastLeafPool cfg) ≤ cfg.step * ((cfg.maxCap - count) / cfg.step) :=
      Nat.mul_le_mul_left _ h1
    rw [Nat.mod_eq_of_lt (by omega)]
    exact tr_tree_getCapacity_leaf cfg _ hs (by omega) (Nat.min_le_right _ _) (by omega)

/-- the capacity of an internal node (`Node(leafMemPoolCount, count)` in `Create`): `IsLeaf()` is false and `GetCapacity()` is
    `maxCapacity` — the model's `capOf` of an internal node (`leafMemPoolCount ≤ 128` fits the byte) -/
theorem tr_tree_innerCap (cfg : Cfg) (hM : cfg.maxCap < 256) (hs0 : 0 < cfg.step) (hs : cfg.step < 2 ^ 63) :
    Tr.tree_IsLeaf cfg.maxCap cfg.step (Tr.tree_ctorMemPoolIndex (Tr.tree_internalMemPoolIndex cfg.maxCap cfg.step)) = false ∧
    Tr.tree_GetCapacity cfg.maxCap cfg.step (Tr.tree_ctorMemPoolIndex (Tr.tree_internalMemPoolIndex cfg.maxCap cfg.step))
      = cfg.maxCap := by
  have hL : lastLeafPool cfg ≤ cfg.maxCap / 2 := by
    unfold lastLeafPool
    simp only [Extracted.treeLeafPoolDivisor]
    exact Nat.div_le_div_left (by omega) (by omega)
  have h : Tr.tree_IsLeaf cfg.maxCap cfg.step (Tr.tree_ctorMemPoolIndex (Tr.tree_internalMemPoolIndex cfg.maxCap cfg.step)) = false := by
    unfold Tr.tree_IsLeaf Tr.tree_ctorMemPoolIndex Tr.tree_internalMemPoolIndex
    rw [tr_tree_leafMemPoolCount cfg hs (by omega), Nat.mod_eq_of_lt (by omega)]
    simp
  refine ⟨h, ?_⟩
  unfold Tr.tree_GetCapacity
  rw [h]
  rfl

/-! ### TreeSet.h: `pvAdd`, `Relocator::GrowLeafNode`, `Relocator::pvSplitNode` -/

theorem tr_tree_add_fits (n cap : Nat) : (Tr.tree_add_fits n cap = true) ↔ n < cap := by simp [Tr.tree_add_fits]
theorem tr_tree_add_grows (n M : Nat) : (Tr.tree_add_grows n M = true) ↔ n < M := by simp [Tr.tree_add_grows]
theorem tr_tree_grow_count (n : Nat) (h : n < 2 ^ 64 - 1) : Tr.tree_grow_count n = n + 1 := by
  unfold Tr.tree_grow_count; rw [add64_of_lt (by omega)]
theorem tr_tree_split_left (i s : Nat) : (Tr.tree_split_left i s = true) ↔ i ≤ s := by simp [Tr.tree_split_left]
theorem tr_tree_split_count1L (s : Nat) (h : s < 2 ^ 64 - 1) : Tr.tree_split_count1L s = s + 1 := by
  unfold Tr.tree_split_count1L; rw [add64_of_lt (by omega)]
/-- `itemCount - splitItemIndex - 1` does not wrap because `splitItemIndex < itemCount` (the assertion of `pvSplitNode`) -/
theorem tr_tree_split_count2L (n s : Nat) (h : s < n) : Tr.tree_split_count2L n s = n - s - 1 := by
  unfold Tr.tree_split_count2L; rw [sub64_of_le (show s ≤ n by omega), sub64_of_le (show 1 ≤ n - s by omega)]
theorem tr_tree_split_count1R (s : Nat) : Tr.tree_split_count1R s = s := rfl
theorem tr_tree_split_count2R (n s : Nat) (h : s ≤ n) : Tr.tree_split_count2R n s = n - s := by
  unfold Tr.tree_split_count2R; rw [sub64_of_le h]
/-- `newItemIndex - splitItemIndex - 1` in the branch `newItemIndex > splitItemIndex` -/
theorem tr_tree_split_newIndexR (i s : Nat) (h : s < i) : Tr.tree_split_newIndexR i s = i - s - 1 := by
  unfold Tr.tree_split_newIndexR; rw [sub64_of_le (show s ≤ i by omega), sub64_of_le (show 1 ≤ i - s by omega)]

/-- the split point lies inside a non-empty node -/
theorem splitIdx_lt (n i : Nat) (h : 0 < n) : splitIdx n i < n := by
  unfold splitIdx
  simp only [Extracted.treeSplitModulus, Extracted.treeSplitDivisor]
  split <;> omega

/-- `pvAdd` at a leaf (model `addLeaf`) with every test and every node size replaced by the code translated from the headers:
    in place / `GrowLeafNode` / `pvSplitNode` chosen by the translated tests of `pvAdd`, the split point is the translated
    `GetSplitItemIndex` (base table), the sizes of the new nodes are the translated arguments of `CreateNode`, the position of
    the new item in the right half is the translated `newItemIndex - splitItemIndex - 1` (for a non-empty node of fewer than
    `2^64 - 1` items; `maxCapacity < 256`) -/
theorem addLeaf_translated {α : Type} (cfg : Cfg) (ia cap : Nat) (items : List α) (i : Nat) (x : α)
    (hn : items.length < 2 ^ 64 - 1) :
    addLeaf cfg ia cap items i x =
      if Tr.tree_add_fits items.length cap = true then .ok (leaf cap (items.insertIdx i x)) ⟨[], i⟩
      else if Tr.tree_add_grows items.length cfg.maxCap = true then
        .ok (leaf (leafCap cfg ia (Tr.tree_grow_count items.length)) (items.insertIdx i x)) ⟨[], i⟩
      else if Tr.tree_split_left i (Tr.tree_GetSplitItemIndex items.length i) = true then
        match (items.insertIdx i x)[Tr.tree_GetSplitItemIndex items.length i + 1]? with
        | some sep => .split
            (leaf (leafCap cfg ia (Tr.tree_split_count1L (Tr.tree_GetSplitItemIndex items.length i)))
              ((items.insertIdx i x).take (Tr.tree_GetSplitItemIndex items.length i + 1)))
            sep
            (leaf (leafCap cfg ia (Tr.tree_split_count2L items.length (Tr.tree_GetSplitItemIndex items.length i)))
              ((items.insertIdx i x).drop (Tr.tree_GetSplitItemIndex items.length i + 2)))
            false ⟨[], i⟩
        | none => .ok (leaf cap items) ⟨[], i⟩
      else
        match (items.insertIdx i x)[Tr.tree_GetSplitItemIndex items.length i]? with
        | some sep => .split
            (leaf (leafCap cfg ia (Tr.tree_split_count1R (Tr.tree_GetSplitItemIndex items.length i)))
              ((items.insertIdx i x).take (Tr.tree_GetSplitItemIndex items.length i)))
            sep
            (leaf (leafCap cfg ia (Tr.tree_split_count2R items.length (Tr.tree_GetSplitItemIndex items.length i)))
              ((items.insertIdx i x).drop (Tr.tree_GetSplitItemIndex items.length i + 1)))
            true ⟨[], Tr.tree_split_newIndexR i (Tr.tree_GetSplitItemIndex items.length i)⟩
        | none => .ok (leaf cap items) ⟨[], i⟩ := by
  simp only [tr_splitIdx]
  simp only [tr_tree_add_fits, tr_tree_add_grows, tr_tree_split_left, tr_tree_split_count1R, tr_tree_grow_count _ hn]
  unfold addLeaf
  by_cases h1 : items.length < cap
  · simp only [h1, if_true]
  · by_cases h2 : items.length < cfg.maxCap
    · simp only [h1, h2, if_true, if_false]
    · simp only [h1, h2, if_false]
      by_cases h0 : items.length = 0
      · -- an empty full node (maxCapacity = 0) is outside the class's static assertion; both sides agree anyway
        have : splitIdx items.length i = 0 := by
          rw [h0]; unfold splitIdx; simp [Extracted.treeSplitModulus, Extracted.treeSplitDivisor]
        rw [this, h0]
        by_cases h3 : i ≤ 0
        · simp only [h3, if_true]
          have hl : (items.insertIdx i x).length ≤ 1 := by
            have := @List.length_insertIdx_le_succ _ items x i; omega
          have : (items.insertIdx i x)[0 + 1]? = none := List.getElem?_eq_none (by omega)
          rw [this]
        · simp only [h3, if_false]
          have hi : items.insertIdx i x = items := List.insertIdx_of_length_lt (by omega)
          have : items = [] := List.length_eq_zero_iff.mp h0
          rw [hi, this]
          rfl
      · have hlt := splitIdx_lt items.length i (by omega)
        rw [tr_tree_split_count1L _ (by omega), tr_tree_split_count2L _ _ hlt, tr_tree_split_count2R _ _ (by omega)]
        by_cases h3 : i ≤ splitIdx items.length i
        · simp only [h3, if_true]
          rfl
        · simp only [h3, if_false]
          rw [tr_tree_split_newIndexR _ _ (by omega)]
          rfl

/-! ### TreeSet.h: `pvRebalance(parentNode, index, savedNode)` -/

theorem tr_tree_reb_noPair (index cnt : Nat) : (Tr.tree_reb_noPair index cnt = true) ↔ (index = 0 ∨ cnt < index) := by
  simp [Tr.tree_reb_noPair]
theorem tr_tree_reb_leftIndex (index : Nat) (h : 0 < index) : Tr.tree_reb_leftIndex index = index - 1 := by
  unfold Tr.tree_reb_leftIndex; rw [sub64_of_le (by omega)]
/-- the "cannot merge" test `itemCount1 + itemCount2 + 1 > node1->GetCapacity()` (counts are bytes: nothing wraps) -/
theorem tr_tree_reb_tooBig (c1 c2 cap : Nat) (h : c1 + c2 < 2 ^ 64 - 1) :
    (Tr.tree_reb_tooBig c1 c2 cap = true) ↔ c1 + c2 + 1 > cap := by
  unfold Tr.tree_reb_tooBig
  rw [add64_of_lt (show c1 + c2 < 2 ^ 64 by omega), add64_of_lt (show c1 + c2 + 1 < 2 ^ 64 by omega)]
  simp

/-- `pvRebalance(parentNode, i + 1, savedNode)` (model `tryMerge … i`) with the translated tests: the call made by the loop of
    `pvRebalance(node, savedNode, fast)` for the pair `(i, i + 1)` has `index = i + 1`; it gives up when the translated
    `index == 0 || index > count`, works on the translated `--index`, and merges unless the translated "too big" test holds -/
theorem tryMerge_translated {α : Type} (cfg : Cfg) (items : List α) (cs : List (Node α)) (i : Nat) (saved : Option (List Nat))
    (hi : i < items.length) (hcs : cs.length = items.length + 1) (hcnt : ∀ n ∈ cs, n.count < 2 ^ 63) :
    tryMerge cfg items cs i saved =
      if Tr.tree_reb_noPair (i + 1) items.length = true then none
      else
        match items[Tr.tree_reb_leftIndex (i + 1)]?, cs[Tr.tree_reb_leftIndex (i + 1)]?, cs[Tr.tree_reb_leftIndex (i + 1) + 1]? with
        | some sep, some n1, some n2 =>
          if saved = some [Tr.tree_reb_leftIndex (i + 1) + 1] then none
          else if Tr.tree_reb_tooBig n1.count n2.count (capOf cfg n1) = true then none
          else some (inner (items.eraseIdx (Tr.tree_reb_leftIndex (i + 1)))
                      (cs.take (Tr.tree_reb_leftIndex (i + 1)) ++ mergeNodes n1 sep n2 :: cs.drop (Tr.tree_reb_leftIndex (i + 1) + 2)),
                     saved.map (mergeSaved (Tr.tree_reb_leftIndex (i + 1)) n1.count))
        | _, _, _ => none := by
  have hno : ¬ (Tr.tree_reb_noPair (i + 1) items.length = true) := by rw [tr_tree_reb_noPair]; omega
  rw [if_neg hno, tr_tree_reb_leftIndex _ (by omega), Nat.add_sub_cancel]
  unfold tryMerge
  have h1 : i < cs.length := by omega
  have h2 : i + 1 < cs.length := by omega
  rw [List.getElem?_eq_getElem hi, List.getElem?_eq_getElem h1, List.getElem?_eq_getElem h2]
  simp only
  have hc1 := hcnt _ (List.getElem_mem h1)
  have hc2 := hcnt _ (List.getElem_mem h2)
  have := tr_tree_reb_tooBig cs[i].count cs[i + 1].count (capOf cfg cs[i]) (by omega)
  by_cases hb : cs[i].count + cs[i + 1].count + 1 > capOf cfg cs[i]
  · rw [if_pos hb, if_pos (this.mpr hb)]
  · rw [if_neg hb, if_neg (fun h => hb (this.mp h))]

/-! ### TreeSet.h: the binary search of `pvFindFirst(node, pred)` -/

/-- the loop of the translated binary search written with projections (definitionally the pattern-matching lambdas of the
    generated def) follows the model's `binLoop`: `fuel` iterations suffice for an interval shorter than `2^fuel` -/
theorem while_bin {α : Type} (p : α → Bool) (items : List α) (pred : Nat → Nat)
    (hpred : ∀ i (h : i < items.length), pred i ≠ 0 ↔ p items[i] = true) (hlen : items.length < 2 ^ 63) :
    ∀ (fuel lo hi f2 : Nat), hi ≤ items.length → hi - lo < 2 ^ fuel → hi - lo ≤ f2 →
      (Tr.whileN fuel (fun (x : Nat × Nat) => decide (x.2 < x.1))
        (fun x => if decide (pred (add64 x.2 x.1 / 2) ≠ 0) then (add64 x.2 x.1 / 2, x.2) else (x.1, add64 (add64 x.2 x.1 / 2) 1))
        (hi, lo)).2 = binLoop p items f2 lo hi
  | 0, lo, hi, f2, _, h2, _ => by
    have : ¬ lo < hi := by simp at h2; omega
    cases f2 <;> simp [binLoop, this]
  | f+1, lo, hi, f2, h1, h2, h3 => by
    rw [Tr.whileN_succ]
    by_cases hlt : lo < hi
    · obtain ⟨g, rfl⟩ : ∃ g, f2 = g + 1 := ⟨f2 - 1, by omega⟩
      have hmid : add64 lo hi / 2 = (lo + hi) / 2 := by rw [add64_of_lt (by omega)]
      have hm : (lo + hi) / 2 < items.length := by omega
      simp only [hlt, decide_true, if_true, hmid, binLoop, List.getElem?_eq_getElem hm]
      have hp2 : 2 ^ (f + 1) = 2 * 2 ^ f := by rw [Nat.pow_succ]; omega
      by_cases hpm : pred ((lo + hi) / 2) ≠ 0
      · rw [if_pos (by simpa using hpm), if_pos ((hpred _ hm).mp hpm)]
        exact while_bin p items pred hpred hlen f lo ((lo + hi) / 2) g (by omega) (by omega) (by omega)
      · rw [if_neg (by simpa using hpm), if_neg (fun h => hpm ((hpred _ hm).mpr h))]
        rw [add64_of_lt (by omega)]
        exact while_bin p items pred hpred hlen f ((lo + hi) / 2 + 1) hi g (by omega) (by omega) (by omega)
    · have : (decide (lo < hi)) = false := by simp [hlt]
      simp only [this]
      cases f2 <;> simp [binLoop, hlt]

/-- the binary-search branch of `pvFindFirst(node, pred)` as translated (the whole loop) is the model's `findBin`, for a node of
    fewer than `2^63` items (`maxCapacity < 256`) when `pred i ≠ 0` exactly if the predicate holds for item `i` -/
theorem tr_tree_findFirst_bin {α : Type} (p : α → Bool) (items : List α) (pred : Nat → Nat)
    (hpred : ∀ i (h : i < items.length), pred i ≠ 0 ↔ p items[i] = true) (hlen : items.length < 2 ^ 63) :
    Tr.tree_findFirst_bin pred items.length = findBin p items := by
  unfold findBin
  rw [← while_bin p items pred hpred hlen 64 0 items.length items.length (Nat.le_refl _) (by omega) (by omega)]
  rfl
end Momo.TrEq
