import Momo.Model.ArrSeg
/-!
  C05, part 1 of the lemmas: cell-level reading lemmas and the loops of `ArrayShifter` described pointwise
  (core Lean only).  Style: every loop gets a lemma "length and the cell at every position `k`" proved by
  induction over its fuel; positions are compared with `omega`.
-/
namespace Momo.Arr
variable {α : Type}
theorem cellAt_eq (a : Cells α) (k : Nat) : cellAt a k = (a[k]?).getD .moved := by
  simp [cellAt, List.getD_eq_getElem?_getD]
theorem cellAt_lt (a : Cells α) (k : Nat) (h : k < a.length) : cellAt a k = a[k] := by
  simp [cellAt, List.getD_eq_getElem?_getD, h]
theorem cellAt_ge (a : Cells α) (k : Nat) (h : a.length ≤ k) : cellAt a k = .moved := by
  simp [cellAt, List.getD_eq_getElem?_getD, h]
theorem cellAt_set_eq (a : Cells α) (i : Nat) (c : Cell α) (h : i < a.length) : cellAt (a.set i c) i = c := by
  simp [cellAt_eq, h]
theorem cellAt_set_ne (a : Cells α) (i k : Nat) (c : Cell α) (h : i ≠ k) : cellAt (a.set i c) k = cellAt a k := by
  simp [cellAt_eq, h]
theorem cellAt_append_left (a b : Cells α) (k : Nat) (h : k < a.length) : cellAt (a ++ b) k = cellAt a k := by
  simp [cellAt_eq, List.getElem?_append_left h]
theorem cellAt_append_right (a b : Cells α) (k : Nat) (h : a.length ≤ k) :
    cellAt (a ++ b) k = cellAt b (k - a.length) := by
  simp [cellAt_eq, List.getElem?_append_right h]

theorem addBackMove_length (keeps : Bool) (a : Cells α) (i : Nat) :
    (addBackMove keeps a i).length = a.length + 1 := by simp [addBackMove]

theorem cellAt_addBackMove_src (keeps : Bool) (a : Cells α) (i : Nat) (hi : i < a.length) :
    cellAt (addBackMove keeps a i) i = afterMove keeps (cellAt a i) := by
  unfold addBackMove; rw [cellAt_set_eq]; simp; omega
theorem cellAt_addBackMove_new (keeps : Bool) (a : Cells α) (i : Nat) (hi : i < a.length) :
    cellAt (addBackMove keeps a i) a.length = cellAt a i := by
  unfold addBackMove
  rw [cellAt_set_ne _ _ _ _ (by omega), cellAt_append_right _ _ _ (Nat.le_refl _)]
  simp [cellAt_eq]
theorem cellAt_addBackMove_other (keeps : Bool) (a : Cells α) (i k : Nat) (h1 : k ≠ i) (h2 : k ≠ a.length) :
    cellAt (addBackMove keeps a i) k = cellAt a k := by
  unfold addBackMove
  rw [cellAt_set_ne _ _ _ _ (by omega)]
  by_cases h : k < a.length
  · rw [cellAt_append_left _ _ _ h]
  · rw [cellAt_ge _ _ (by simp; omega), cellAt_ge _ _ (by omega)]

theorem assignMove_length (keeps : Bool) (a : Cells α) (s d : Nat) :
    (assignMove keeps a s d).length = a.length := by
  unfold assignMove; split <;> simp

theorem cellAt_assignMove_src (keeps : Bool) (a : Cells α) (s d : Nat) (hs : s < a.length) (hne : s ≠ d) :
    cellAt (assignMove keeps a s d) s = afterMove keeps (cellAt a s) := by
  unfold assignMove; rw [if_neg hne, cellAt_set_eq]; simp [hs]
theorem cellAt_assignMove_dst (keeps : Bool) (a : Cells α) (s d : Nat) (hd : d < a.length) (hne : s ≠ d) :
    cellAt (assignMove keeps a s d) d = cellAt a s := by
  unfold assignMove; rw [if_neg hne, cellAt_set_ne _ _ _ _ hne, cellAt_set_eq _ _ _ hd]
theorem cellAt_assignMove_other (keeps : Bool) (a : Cells α) (s d k : Nat) (h1 : k ≠ s) (h2 : k ≠ d) :
    cellAt (assignMove keeps a s d) k = cellAt a k := by
  unfold assignMove
  split
  · rw [cellAt_set_ne _ _ _ _ (by omega)]
  · rw [cellAt_set_ne _ _ _ _ (by omega), cellAt_set_ne _ _ _ _ (by omega)]

/-- loop1: sources `[i, i+c)` are moved to the end -/
theorem loop1_spec (keeps : Bool) (c : Nat) : ∀ (a : Cells α) (i : Nat), i + c ≤ a.length →
    (loop1 keeps a i c).length = a.length + c ∧
    (∀ k, k < i → cellAt (loop1 keeps a i c) k = cellAt a k) ∧
    (∀ k, i ≤ k → k < i + c → cellAt (loop1 keeps a i c) k = afterMove keeps (cellAt a k)) ∧
    (∀ k, i + c ≤ k → k < a.length → cellAt (loop1 keeps a i c) k = cellAt a k) ∧
    (∀ k, a.length ≤ k → k < a.length + c → cellAt (loop1 keeps a i c) k = cellAt a (i + (k - a.length))) := by
  induction c with
  | zero =>
    intro a i _
    refine ⟨rfl, fun _ _ => rfl, ?_, fun _ _ _ => rfl, ?_⟩ <;> (intro k h1 h2; omega)
  | succ c ih =>
    intro a i h
    have hi : i < a.length := by omega
    have hl := addBackMove_length keeps a i
    obtain ⟨l, p1, p2, p3, p4⟩ := ih (addBackMove keeps a i) (i+1) (by rw [hl]; omega)
    simp only [loop1]
    refine ⟨by rw [l, hl]; omega, ?_, ?_, ?_, ?_⟩
    · intro k hk
      rw [p1 k (by omega), cellAt_addBackMove_other keeps a i k (by omega) (by omega)]
    · intro k hk1 hk2
      by_cases hki : k = i
      · subst hki
        rw [p1 k (by omega), cellAt_addBackMove_src keeps a k hi]
      · rw [p2 k (by omega) (by omega), cellAt_addBackMove_other keeps a i k hki (by omega)]
    · intro k hk1 hk2
      rw [p3 k (by omega) (by rw [hl]; omega), cellAt_addBackMove_other keeps a i k (by omega) (by omega)]
    · intro k hk1 hk2
      by_cases hka : k = a.length
      · subst hka
        rw [p3 _ (by omega) (by rw [hl]; omega), cellAt_addBackMove_new keeps a i hi]
        simp
      · rw [p4 k (by rw [hl]; omega) (by rw [hl]; omega), hl,
          cellAt_addBackMove_other keeps a i _ (by omega) (by omega)]
        congr 1; omega

/-- loop2: the block `[i - f, i)` is shifted up by `count` -/
theorem loop2_spec (keeps : Bool) (count : Nat) (hc : 0 < count) (f : Nat) : ∀ (a : Cells α) (i : Nat),
    f ≤ i → i + count ≤ a.length →
    (loop2 keeps a count i f).length = a.length ∧
    (∀ k, k < i - f → cellAt (loop2 keeps a count i f) k = cellAt a k) ∧
    (∀ k, i + count ≤ k → cellAt (loop2 keeps a count i f) k = cellAt a k) ∧
    (∀ k, i - f + count ≤ k → k < i + count → cellAt (loop2 keeps a count i f) k = cellAt a (k - count)) := by
  induction f with
  | zero =>
    intro a i _ _
    refine ⟨rfl, fun _ _ => rfl, fun _ _ => rfl, ?_⟩
    intro k h1 h2; omega
  | succ f ih =>
    intro a i hf h
    have hl := assignMove_length keeps a (i-1) (i+count-1)
    obtain ⟨l, p1, p2, p3⟩ := ih (assignMove keeps a (i-1) (i+count-1)) (i-1) (by omega) (by rw [hl]; omega)
    simp only [loop2]
    refine ⟨by rw [l, hl], ?_, ?_, ?_⟩
    · intro k hk
      rw [p1 k (by omega), cellAt_assignMove_other keeps a _ _ k (by omega) (by omega)]
    · intro k hk
      rw [p2 k (by omega), cellAt_assignMove_other keeps a _ _ k (by omega) (by omega)]
    · intro k hk1 hk2
      by_cases hke : k = i + count - 1
      · subst hke
        rw [p2 _ (by omega), cellAt_assignMove_dst keeps a _ _ (by omega) (by omega)]
        congr 1; omega
      · rw [p3 k (by omega) (by omega), cellAt_assignMove_other keeps a _ _ _ (by omega) (by omega)]


theorem cellAt_map_live (xs : List α) (k : Nat) (h : k < xs.length) :
    cellAt (xs.map Cell.live) k = .live xs[k] := by
  simp [cellAt_eq, h]
theorem cellAt_take_lt (a : Cells α) (n k : Nat) (h : k < n) : cellAt (a.take n) k = cellAt a k := by
  simp [cellAt_eq, h]
theorem cellAt_drop (a : Cells α) (n k : Nat) : cellAt (a.drop n) k = cellAt a (n + k) := by
  simp [cellAt_eq, List.getElem?_drop]
theorem cellAt_cons_zero (c : Cell α) (a : Cells α) : cellAt (c :: a) 0 = c := by simp [cellAt_eq]
theorem cellAt_cons_succ (c : Cell α) (a : Cells α) (k : Nat) : cellAt (c :: a) (k+1) = cellAt a k := by
  simp [cellAt_eq]

theorem ext_cellAt {a b : Cells α} (hl : a.length = b.length)
    (h : ∀ k, k < a.length → cellAt a k = cellAt b k) : a = b := by
  apply List.ext_getElem hl
  intro k h1 h2
  have := h k h1
  rw [cellAt_lt a k h1, cellAt_lt b k h2] at this
  exact this

/-- arrays that agree below `index` -/
def AgreeBelow (index : Nat) (a b : Cells α) : Prop := ∀ k, k < index → cellAt b k = cellAt a k

/-- dereferencing `r` yields the cell `v` in every array that agrees with `a` below `index`, and (for a move
    iterator) `r` is not an element of the array -/
def Good (mv : Bool) (index : Nat) (a : Cells α) (r : Ref α) (v : Cell α) : Prop :=
  (∀ b, AgreeBelow index a b → r.read b = v) ∧ (mv = true → ∃ c, r = .ext c)

def GoodAll (mv : Bool) (index : Nat) (a : Cells α) : List (Ref α) → Cells α → Prop
  | [], [] => True
  | r :: rs, v :: vs => Good mv index a r v ∧ GoodAll mv index a rs vs
  | _, _ => False

theorem GoodAll.length_eq {mv : Bool} {index : Nat} {a : Cells α} :
    ∀ {rs : List (Ref α)} {vs : Cells α}, GoodAll mv index a rs vs → rs.length = vs.length
  | [], [], _ => rfl
  | _ :: rs, _ :: vs, h => by simp [GoodAll.length_eq h.2]
  | [], _ :: _, h => by simp [GoodAll] at h
  | _ :: _, [], h => by simp [GoodAll] at h

theorem GoodAll.drop {mv : Bool} {index : Nat} {a : Cells α} :
    ∀ (d : Nat) {rs : List (Ref α)} {vs : Cells α}, GoodAll mv index a rs vs → GoodAll mv index a (rs.drop d) (vs.drop d)
  | 0, _, _, h => by simpa using h
  | _+1, [], [], _ => by simp [GoodAll]
  | d+1, _ :: rs, _ :: vs, h => by simpa using GoodAll.drop d h.2
  | _+1, [], _ :: _, h => by simp [GoodAll] at h
  | _+1, _ :: _, [], h => by simp [GoodAll] at h

theorem assignFrom_good (keeps mv : Bool) (index : Nat) (a b : Cells α) (r : Ref α) (v : Cell α) (i : Nat)
    (hg : Good mv index a r v) (hb : AgreeBelow index a b) :
    assignFrom keeps mv b r i = b.set i v := by
  unfold assignFrom
  cases mv with
  | false => simp [hg.1 b hb]
  | true =>
    obtain ⟨c, rfl⟩ := hg.2 rfl
    have := hg.1 b hb
    simp [Ref.read] at this
    simp [this]

theorem addBackFrom_good (keeps mv : Bool) (index : Nat) (a b : Cells α) (r : Ref α) (v : Cell α)
    (hg : Good mv index a r v) (hb : AgreeBelow index a b) :
    addBackFrom keeps mv b r = b ++ [v] := by
  unfold addBackFrom
  cases mv with
  | false => simp [hg.1 b hb]
  | true =>
    obtain ⟨c, rfl⟩ := hg.2 rfl
    have := hg.1 b hb
    simp [Ref.read] at this
    simp [this]

theorem agree_set (index : Nat) (a b : Cells α) (i : Nat) (c : Cell α) (hb : AgreeBelow index a b) (hi : index ≤ i) :
    AgreeBelow index a (b.set i c) := by
  intro k hk; rw [cellAt_set_ne _ _ _ _ (by omega)]; exact hb k hk

theorem agree_append (index : Nat) (a b c : Cells α) (hb : AgreeBelow index a b) (hi : index ≤ b.length) :
    AgreeBelow index a (b ++ c) := by
  intro k hk; rw [cellAt_append_left _ _ _ (by omega)]; exact hb k hk

/-- loop3R writes the values `vs` to `[i, i + |vs|)` -/
theorem loop3R_spec (keeps mv : Bool) (index : Nat) (a : Cells α) :
    ∀ (rs : List (Ref α)) (vs : Cells α) (b : Cells α) (i : Nat), GoodAll mv index a rs vs → AgreeBelow index a b →
      index ≤ i → i + rs.length ≤ b.length →
      (loop3R keeps mv rs b i).length = b.length ∧
      (∀ k, k < i → cellAt (loop3R keeps mv rs b i) k = cellAt b k) ∧
      (∀ k, i ≤ k → k < i + rs.length → cellAt (loop3R keeps mv rs b i) k = cellAt vs (k - i)) ∧
      (∀ k, i + rs.length ≤ k → cellAt (loop3R keeps mv rs b i) k = cellAt b k)
  | [], [], b, i, _, _, _, _ => by
    refine ⟨rfl, fun _ _ => rfl, ?_, fun _ _ => rfl⟩
    intro k h1 h2; simp at h2; omega
  | r :: rs, v :: vs, b, i, hg, hb, hi, hl => by
    simp only [List.length_cons] at hl ⊢
    simp only [loop3R]
    rw [assignFrom_good keeps mv index a b r v i hg.1 hb]
    obtain ⟨l, p1, p2, p3⟩ := loop3R_spec keeps mv index a rs vs (b.set i v) (i+1) hg.2
      (agree_set index a b i _ hb hi) (by omega) (by simp; omega)
    refine ⟨by rw [l]; simp, ?_, ?_, ?_⟩
    · intro k hk; rw [p1 k (by omega), cellAt_set_ne _ _ _ _ (by omega)]
    · intro k hk1 hk2
      by_cases hki : k = i
      · subst hki
        rw [p1 k (by omega), cellAt_set_eq _ _ _ (by omega)]
        simp [cellAt_cons_zero]
      · rw [p2 k (by omega) (by omega)]
        have : k - i = (k - (i + 1)) + 1 := by omega
        rw [this, cellAt_cons_succ]
    · intro k hk; rw [p3 k (by omega), cellAt_set_ne _ _ _ _ (by omega)]
  | [], _ :: _, _, _, hg, _, _, _ => by simp [GoodAll] at hg
  | _ :: _, [], _, _, hg, _, _, _ => by simp [GoodAll] at hg

/-- loopAR appends the values -/
theorem loopAR_spec (keeps mv : Bool) (index : Nat) (a : Cells α) :
    ∀ (rs : List (Ref α)) (vs : Cells α) (b : Cells α), GoodAll mv index a rs vs → AgreeBelow index a b →
      index ≤ b.length → loopAR keeps mv rs b = b ++ vs
  | [], [], b, _, _, _ => by simp [loopAR]
  | r :: rs, v :: vs, b, hg, hb, hi => by
    simp only [loopAR]
    rw [addBackFrom_good keeps mv index a b r v hg.1 hb,
      loopAR_spec keeps mv index a rs vs _ hg.2 (agree_append index a b _ hb hi) (by simp; omega)]
    simp
  | [], _ :: _, _, hg, _, _ => by simp [GoodAll] at hg
  | _ :: _, [], _, hg, _, _ => by simp [GoodAll] at hg

/-- loopBR: `c` steps from `i`: old cells `[i, i+c)` go to the end, the values take their place -/
theorem loopBR_spec (keeps mv : Bool) (index : Nat) (a : Cells α) :
    ∀ (c : Nat) (rs : List (Ref α)) (vs : Cells α) (b : Cells α) (i : Nat), GoodAll mv index a rs vs →
      AgreeBelow index a b → index ≤ i → i + c ≤ b.length → c ≤ rs.length →
      (loopBR keeps mv c rs b i).length = b.length + c ∧
      (∀ k, k < i → cellAt (loopBR keeps mv c rs b i) k = cellAt b k) ∧
      (∀ k, i ≤ k → k < i + c → cellAt (loopBR keeps mv c rs b i) k = cellAt vs (k - i)) ∧
      (∀ k, i + c ≤ k → k < b.length → cellAt (loopBR keeps mv c rs b i) k = cellAt b k) ∧
      (∀ k, b.length ≤ k → k < b.length + c → cellAt (loopBR keeps mv c rs b i) k = cellAt b (i + (k - b.length)))
  | 0, rs, vs, b, i, _, _, _, _, _ => by
    have : loopBR keeps mv 0 rs b i = b := by cases rs <;> rfl
    rw [this]
    refine ⟨rfl, fun _ _ => rfl, ?_, fun _ _ _ => rfl, ?_⟩ <;> (intro k h1 h2; omega)
  | c+1, r :: rs, v :: vs, b, i, hg, hb, hi, hl, hc => by
    simp only [loopBR]
    have hib : i < b.length := by omega
    have hagree : AgreeBelow index a (addBackMove keeps b i) := by
      intro k hk; rw [cellAt_addBackMove_other keeps b i k (by omega) (by omega)]; exact hb k hk
    rw [assignFrom_good keeps mv index a _ r v i hg.1 hagree]
    have hlen : ((addBackMove keeps b i).set i v).length = b.length + 1 := by
      simp [addBackMove_length]
    obtain ⟨l, p1, p2, p3, p4⟩ := loopBR_spec keeps mv index a c rs vs ((addBackMove keeps b i).set i v) (i+1)
      hg.2 (agree_set index a _ i _ hagree hi) (by omega) (by rw [hlen]; omega) (by simpa using hc)
    refine ⟨by rw [l, hlen]; omega, ?_, ?_, ?_, ?_⟩
    · intro k hk
      rw [p1 k (by omega), cellAt_set_ne _ _ _ _ (by omega), cellAt_addBackMove_other keeps b i k (by omega) (by omega)]
    · intro k hk1 hk2
      by_cases hki : k = i
      · subst hki
        rw [p1 k (by omega), cellAt_set_eq _ _ _ (by rw [addBackMove_length]; omega)]
        simp [cellAt_cons_zero]
      · rw [p2 k (by omega) (by omega)]
        have : k - i = (k - (i + 1)) + 1 := by omega
        rw [this, cellAt_cons_succ]
    · intro k hk1 hk2
      rw [p3 k (by omega) (by rw [hlen]; omega), cellAt_set_ne _ _ _ _ (by omega),
        cellAt_addBackMove_other keeps b i k (by omega) (by omega)]
    · intro k hk1 hk2
      by_cases hkb : k = b.length
      · subst hkb
        rw [p3 _ (by omega) (by rw [hlen]; omega), cellAt_set_ne _ _ _ _ (by omega),
          cellAt_addBackMove_new keeps b i hib]
        simp
      · rw [p4 k (by rw [hlen]; omega) (by rw [hlen]; omega), hlen, cellAt_set_ne _ _ _ _ (by omega),
          cellAt_addBackMove_other keeps b i _ (by omega) (by omega)]
        congr 1; omega
  | _+1, [], _, _, _, _, _, _, _, hc => by simp at hc
  | _+1, _ :: _, [], _, _, hg, _, _, _, _ => by simp [GoodAll] at hg

end Momo.Arr
