import Momo.Proof.HTLedgerCons
/-!
  C04 for the hash family, part 6: the strong guarantee at the level of the system (two containers and a node handle) -
  every strongly exception-safe operation that exits with an exception leaves A, B and the handle as they were.
-/
namespace Momo.HTL
open Momo Momo.HT Momo.Ledger

/-- the operation exited with an exception -/
def Out.failed : Out → Bool
  | .res (.done .ok) => false
  | .res .no => false
  | .res _ => true
  | .num _ t => t
  | .unit => false
  | .threw => true

/-- the operations HashSet.h documents as strongly exception-safe, as far as the system drives them -/
def Op.strong : Op → Bool
  | .ins _ _ _ _ => true
  | .rem _ _ => true
  | .ext _ _ => true
  | .reins _ => true
  | .reserve _ _ => true
  | .copyTo _ => true
  | _ => false

theorem extractKeyL_fail (cfg : Cfg) (hf : Nat → Nat) (st : St) (k : Nat) (f : Flt) (w : W) (FB : List Blk) (FE : List Nat)
    (hb : BooksOK st) (h : Led w (st.blocks cfg ++ FB) (st.elems ++ FE))
    (hne : (extractKeyL cfg hf st k f w).2.2.1 ≠ .done .ok) :
    (extractKeyL cfg hf st k f w).1 = st ∧ (extractKeyL cfg hf st k f w).2.2.2 = none := by
  by_cases hfl : (f.hashThrows || f.eqThrows) = true
  · simp [extractKeyL, hfl]
  · have hfl' : (f.hashThrows || f.eqThrows) = false := by simpa using hfl
    cases hfind : findTable cfg.sp hf st.t k with
    | none => simp [extractKeyL, hfl', hfind]
    | some p =>
      obtain ⟨gi, b, j⟩ := p
      have he := extractAtL_led cfg st gi b j f w FB FE hb h
      simp only [extractKeyL, hfl', Bool.false_eq_true, if_false, hfind] at hne ⊢
      cases hx : itemAt cfg st.t gi b j with
      | none =>
        have hnone : extractAtL cfg st gi b j f w = (st, w, none) := by
          unfold extractAtL; rw [hx]
        simp [hnone]
      | some x =>
        rw [hx] at hne
        generalize extractAtL cfg st gi b j f w = r at he hne ⊢
        obtain ⟨st1, w1, oh⟩ := r
        cases oh with
        | none => exact ⟨he.1, rfl⟩
        | some hhh => simp at hne

theorem step_strong (cfg : Cfg) (hf : Nat → Nat) (s : Sys) (op : Op) (h : SysOK cfg s) (hs : op.strong = true)
    (hfail : (step cfg hf s op).2.failed = true) :
    (step cfg hf s op).1.a = s.a ∧ (step cfg hf s op).1.b = s.b ∧ (step cfg hf s op).1.h = s.h := by
  obtain ⟨hl, ha, hb⟩ := h
  simp only [Sys.blocks, Sys.elems] at hl
  cases op with
  | ins toB k v f =>
    simp only [step] at hfail ⊢
    cases toB with
    | false =>
      simp only [Bool.false_eq_true, if_false] at hfail ⊢
      have h0 : Led s.w (s.a.blocks cfg ++ s.b.blocks cfg) (s.a.elems ++ (s.b.elems ++ (optL s.h).map Prod.snd)) :=
        hl.perm (List.Perm.refl _) (by perm_count)
      obtain ⟨i1, _⟩ := insertL_led cfg hf s.a ⟨k, v⟩ .fresh f s.w _ _ _ ha (crSpec_fresh cfg _) h0
      have hne : (insertL cfg hf s.a ⟨k, v⟩ .fresh f s.w).2.2 ≠ .done .ok := by
        intro hc; rw [hc] at hfail; simp [Out.failed] at hfail
      exact ⟨(i1 hne).1, trivial, trivial⟩
    | true =>
      simp only [if_true] at hfail ⊢
      have h0 : Led s.w (s.b.blocks cfg ++ s.a.blocks cfg) (s.b.elems ++ (s.a.elems ++ (optL s.h).map Prod.snd)) :=
        hl.perm (by perm_count) (by perm_count)
      obtain ⟨i1, _⟩ := insertL_led cfg hf s.b ⟨k, v⟩ .fresh f s.w _ _ _ hb (crSpec_fresh cfg _) h0
      have hne : (insertL cfg hf s.b ⟨k, v⟩ .fresh f s.w).2.2 ≠ .done .ok := by
        intro hc; rw [hc] at hfail; simp [Out.failed] at hfail
      exact ⟨trivial, (i1 hne).1, trivial⟩
  | rem k f =>
    simp only [step] at hfail ⊢
    have h0 : Led s.w (s.a.blocks cfg ++ s.b.blocks cfg) (s.a.elems ++ (s.b.elems ++ (optL s.h).map Prod.snd)) :=
      hl.perm (List.Perm.refl _) (by perm_count)
    obtain ⟨i1, _, _⟩ := removeKeyL_led cfg hf s.a k f s.w _ _ ha h0
    have hne : (removeKeyL cfg hf s.a k f s.w).2.2 ≠ .done .ok := by
      intro hc; rw [hc] at hfail; simp [Out.failed] at hfail
    exact ⟨(i1 hne).1, trivial, trivial⟩
  | reserve c f =>
    simp only [step] at hfail ⊢
    have h0 : Led s.w (s.a.blocks cfg ++ s.b.blocks cfg) (s.a.elems ++ (s.b.elems ++ (optL s.h).map Prod.snd)) :=
      hl.perm (List.Perm.refl _) (by perm_count)
    obtain ⟨i1, _, _⟩ := reserveL_led cfg hf s.a c f s.w _ _ ha h0
    have hne : (reserveL cfg hf s.a c f s.w).2.2 ≠ .ok := by
      intro hc; rw [hc] at hfail; simp [Out.failed] at hfail
    exact ⟨(i1 hne).1, trivial, trivial⟩
  | ext k f =>
    simp only [step] at hfail ⊢
    cases hh : s.h with
    | some p => simp [hh, Out.failed] at hfail
    | none =>
      simp only [hh] at hfail ⊢
      rw [hh] at hl
      have h0 : Led s.w (s.a.blocks cfg ++ s.b.blocks cfg) (s.a.elems ++ s.b.elems) := by simpa [optL] using hl
      have hne : (extractKeyL cfg hf s.a k f s.w).2.2.1 ≠ .done .ok := by
        intro hc; rw [hc] at hfail; simp [Out.failed] at hfail
      obtain ⟨e1, e2⟩ := extractKeyL_fail cfg hf s.a k f s.w _ _ ha h0 hne
      exact ⟨e1, trivial, e2⟩
  | reins f =>
    simp only [step] at hfail ⊢
    cases hh : s.h with
    | none => simp [hh, Out.failed] at hfail
    | some p =>
      obtain ⟨it, e⟩ := p
      simp only [hh] at hfail ⊢
      rw [hh] at hl
      have h0 : Led s.w (s.a.blocks cfg ++ s.b.blocks cfg) (s.a.elems ++ (s.b.elems ++ [e])) := by simpa [optL] using hl
      obtain ⟨i1, _⟩ := insertL_led cfg hf s.a it (.handle e) f s.w _ (s.b.elems ++ [e]) s.b.elems ha
        (crSpec_handle cfg e _ _ (by perm_count)) h0
      have hne : (insertL cfg hf s.a it (.handle e) f s.w).2.2 ≠ .done .ok := by
        intro hc; rw [hc] at hfail; simp [Out.failed] at hfail
      simp only [hne, if_false]
      exact ⟨(i1 hne).1, trivial, trivial⟩
  | copyTo f =>
    simp only [step] at hfail ⊢
    generalize copyL cfg hf s.a f s.w = r at hfail ⊢
    obtain ⟨o, w1⟩ := r
    cases o with
    | none => exact ⟨rfl, rfl, rfl⟩
    | some st => simp [Out.failed] at hfail
  | remIf m r f => simp [Op.strong] at hs
  | clear sh => simp [Op.strong] at hs
  | moveTo f => simp [Op.strong] at hs
  | swap => simp [Op.strong] at hs
  | mergeTo f => simp [Op.strong] at hs
  | dropHandle => simp [Op.strong] at hs

end Momo.HTL
