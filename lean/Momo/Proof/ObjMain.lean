import Momo.Proof.Obj
/-! Main theorems about `RelocateCreate`, `CopyExec`, `MoveExec` (core Lean only). -/
namespace Momo.Obj

/-- what the callers of `RelocateCreate` guarantee: `count` live objects at `src…`, raw storage at
    `dst…` and at `newAddr`, the three regions pairwise disjoint -/
structure Pre (s : St) (src dst count newAddr : Nat) : Prop where
  srcLive : ∀ i, i < count → s.mem (src + i) ≠ .raw
  dstRaw : ∀ i, i < count → s.mem (dst + i) = .raw
  newRaw : s.mem newAddr = .raw
  disj : src + count ≤ dst ∨ dst + count ≤ src
  newSrc : newAddr < src ∨ src + count ≤ newAddr
  newDst : newAddr < dst ∨ dst + count ≤ newAddr

/-- memory after a successful `RelocateCreate` -/
def relocated (m : Mem) (src dst count newAddr v : Nat) : Mem := fun x =>
  if dst ≤ x ∧ x < dst + count then .live (valOf (m (src + (x - dst))))
  else if src ≤ x ∧ x < src + count then .raw
  else if x = newAddr then .live v else m x

theorem relocateCreate_spec {occ0 : Nat → Bool} (c : Cat) (s : St) (src dst count newAddr v : Nat)
    (ht : TraceOK occ0 s) (pre : Pre s src dst count newAddr) :
    TraceOK occ0 (relocateCreate c s src dst count newAddr v).1 ∧
    ((relocateCreate c s src dst count newAddr v).2 = .threw →
        ∀ x, (relocateCreate c s src dst count newAddr v).1.mem x = s.mem x) ∧
    ((relocateCreate c s src dst count newAddr v).2 = .ok →
        ∀ x, (relocateCreate c s src dst count newAddr v).1.mem x = relocated s.mem src dst count newAddr v x) := by
  unfold relocateCreate
  by_cases hc : c.nothrowReloc = true
  · -- exec first, then relocations that cannot fail
    simp only [hc, if_true]
    cases he : execCreate s newAddr v with
    | mk s1 r =>
      cases r with
      | threw =>
        obtain ⟨hm, hev⟩ := execCreate_threw he
        refine ⟨by unfold TraceOK at *; simp only; rw [hev, hm]; exact ht, fun _ x => by simp [hm], fun h => by simp at h⟩
      | ok =>
        obtain ⟨ht1, hm⟩ := execCreate_ok he ht pre.newRaw
        have hl : ∀ i, i < count → s1.mem (src + i) ≠ .raw := by
          intro i hi; rw [hm, Mem.set_ne _ _ _ _ (by have := pre.newSrc; omega)]; exact pre.srcLive i hi
        have hr : ∀ i, i < count → s1.mem (dst + i) = .raw := by
          intro i hi; rw [hm, Mem.set_ne _ _ _ _ (by have := pre.newDst; omega)]; exact pre.dstRaw i hi
        obtain ⟨t, _, m⟩ := relocateRange_spec c count s1 src dst ht1 hl hr pre.disj
        refine ⟨t, fun h => by simp at h, fun _ x => ?_⟩
        simp only
        rw [m x]
        unfold relocated
        by_cases h1 : dst ≤ x ∧ x < dst + count
        · simp only [h1, and_self, if_true]
          rw [hm, Mem.set_ne _ _ _ _ (by have := pre.newSrc; omega)]
        · simp only [h1, if_false]
          by_cases h2 : src ≤ x ∧ x < src + count
          · simp [h2]
          · simp only [h2, if_false]
            by_cases h3 : x = newAddr
            · subst h3; simp [hm]
            · simp only [h3, if_false]; rw [hm, Mem.set_ne _ _ _ _ h3]
  · -- copy everything, exec, destroy the sources; roll back on any failure
    have hc' : c.nothrowReloc = false := by cases h : c.nothrowReloc <;> simp_all
    simp only [hc', Bool.false_eq_true, if_false]
    obtain ⟨t1, hge, hle, hok, m1⟩ := copyLoop_spec (occ0 := occ0) count s src dst 0 ht pre.srcLive pre.dstRaw pre.disj
    cases hcl : copyLoop s src dst count 0 with
    | mk s1 rest =>
      obtain ⟨r1, done⟩ := rest
      rw [hcl] at t1 hge hle hok m1
      simp only at t1 hge hle hok m1
      simp only [Nat.sub_zero, Nat.zero_add] at hle m1
      cases r1 with
      | threw =>
        simp only
        have hocc : ∀ i, i < done → s1.mem (dst + i) ≠ .raw := by
          intro i hi; rw [m1]; have : dst ≤ dst + i ∧ dst + i < dst + done := by omega
          simp [this]
        obtain ⟨t2, _, m2⟩ := destroyRange_spec done s1 dst t1 hocc
        refine ⟨t2, fun _ x => ?_, fun h => by simp at h⟩
        rw [m2 x]
        by_cases h1 : dst ≤ x ∧ x < dst + done
        · simp only [h1, and_self, if_true]
          have := pre.dstRaw (x - dst) (by omega)
          have e : dst + (x - dst) = x := by omega
          rw [e] at this; exact this.symm
        · simp only [h1, if_false]; rw [m1]; simp [h1]
      | ok =>
        have hd : done = count := by have := hok rfl; omega
        subst hd
        simp only
        have hnew1 : s1.mem newAddr = .raw := by
          rw [m1]; have : ¬ (dst ≤ newAddr ∧ newAddr < dst + done) := by have := pre.newDst; omega
          simp [this, pre.newRaw]
        cases he : execCreate s1 newAddr v with
        | mk s2 r2 =>
          cases r2 with
          | threw =>
            obtain ⟨hm2, hev2⟩ := execCreate_threw he
            have t2 : TraceOK occ0 s2 := by unfold TraceOK at *; rw [hev2, hm2]; exact t1
            have hocc : ∀ i, i < done → s2.mem (dst + i) ≠ .raw := by
              intro i hi; rw [hm2, m1]; have : dst ≤ dst + i ∧ dst + i < dst + done := by omega
              simp [this]
            obtain ⟨t3, _, m3⟩ := destroyRange_spec done s2 dst t2 hocc
            refine ⟨t3, fun _ x => ?_, fun h => by simp at h⟩
            simp only
            rw [m3 x]
            by_cases h1 : dst ≤ x ∧ x < dst + done
            · simp only [h1, and_self, if_true]
              have := pre.dstRaw (x - dst) (by omega)
              have e : dst + (x - dst) = x := by omega
              rw [e] at this; exact this.symm
            · simp only [h1, if_false]; rw [hm2, m1]; simp [h1]
          | ok =>
            obtain ⟨t2, hm2⟩ := execCreate_ok he t1 hnew1
            have hocc : ∀ i, i < done → s2.mem (src + i) ≠ .raw := by
              intro i hi
              rw [hm2, Mem.set_ne _ _ _ _ (by have := pre.newSrc; omega), m1]
              have : ¬ (dst ≤ src + i ∧ src + i < dst + done) := by have := pre.disj; omega
              simp only [this, if_false]; exact pre.srcLive i hi
            obtain ⟨t3, _, m3⟩ := destroyRange_spec done s2 src t2 hocc
            refine ⟨t3, fun h => by simp at h, fun _ x => ?_⟩
            simp only
            rw [m3 x]
            unfold relocated
            by_cases h1 : dst ≤ x ∧ x < dst + done
            · have h2 : ¬ (src ≤ x ∧ x < src + done) := by have := pre.disj; omega
              simp only [h1, h2, and_self, if_true, if_false]
              rw [hm2, Mem.set_ne _ _ _ _ (by have := pre.newDst; omega), m1]; simp [h1]
            · simp only [h1, if_false]
              by_cases h2 : src ≤ x ∧ x < src + done
              · simp [h2]
              · simp only [h2, if_false]
                by_cases h3 : x = newAddr
                · subst h3; simp [hm2]
                · simp only [h3, if_false]
                  rw [hm2, Mem.set_ne _ _ _ _ h3, m1]; simp [h1]

end Momo.Obj

namespace Momo.Obj

/-- `CopyExec`: on failure (of the copy or of `exec`) nothing has changed; on success the copy and
    the new object exist; the trace is well-formed either way -/
theorem copyExec_spec {occ0 : Nat → Bool} (s : St) (src dst newAddr v : Nat) (ht : TraceOK occ0 s)
    (hs : s.mem src ≠ .raw) (hd : s.mem dst = .raw) (hn : s.mem newAddr = .raw) (hne : newAddr ≠ dst) :
    TraceOK occ0 (copyExec s src dst newAddr v).1 ∧
    ((copyExec s src dst newAddr v).2 = .threw → ∀ x, (copyExec s src dst newAddr v).1.mem x = s.mem x) ∧
    ((copyExec s src dst newAddr v).2 = .ok → (copyExec s src dst newAddr v).1.mem =
        (s.mem.set dst (.live (valOf (s.mem src)))).set newAddr (.live v)) := by
  unfold copyExec
  cases hc : copy s src dst with
  | mk s1 r =>
    cases r with
    | threw =>
      obtain ⟨hm, hev⟩ := copy_threw hc
      exact ⟨by unfold TraceOK at *; simp only; rw [hev, hm]; exact ht, fun _ x => by simp [hm], fun h => by simp at h⟩
    | ok =>
      obtain ⟨t1, hm1⟩ := copy_ok hc ht hs hd
      have hn1 : s1.mem newAddr = .raw := by rw [hm1, Mem.set_ne _ _ _ _ hne]; exact hn
      simp only
      cases he : execCreate s1 newAddr v with
      | mk s2 r2 =>
        cases r2 with
        | threw =>
          obtain ⟨hm2, hev2⟩ := execCreate_threw he
          have t2 : TraceOK occ0 s2 := by unfold TraceOK at *; rw [hev2, hm2]; exact t1
          have hocc : s2.mem dst ≠ .raw := by rw [hm2, hm1]; simp
          refine ⟨destroy_ok t2 hocc, fun _ x => ?_, fun h => by simp at h⟩
          simp only [destroy]
          by_cases hx : x = dst
          · subst hx; simp [hd]
          · rw [Mem.set_ne _ _ _ _ hx, hm2, hm1, Mem.set_ne _ _ _ _ hx]
        | ok =>
          obtain ⟨t2, hm2⟩ := execCreate_ok he t1 hn1
          exact ⟨t2, fun h => by simp at h, fun _ => by simp only; rw [hm2, hm1]⟩

end Momo.Obj
