import Momo.Model.Val
/-!
  Heap lemmas for the value-semantics model (C14): what `get` answers after `alloc`, `free`, `setItems`,
  `allocCells`, `freeCells`, `emptyCells`.
-/
namespace Momo.Val

theorem lookupH_filter (cs : List (Nat × Cell)) (h h' : Nat) :
    lookupH (cs.filter (fun p => p.1 != h')) h = if h = h' then none else lookupH cs h := by
  induction cs with
  | nil => simp [lookupH]
  | cons p r ih =>
    simp only [List.filter_cons]
    by_cases hp : p.1 = h'
    · have e : (p.1 != h') = false := by simp [hp]
      simp only [e, Bool.false_eq_true, if_false, lookupH]
      rw [ih, hp]
      by_cases hh : h = h' <;> simp [hh]
    · have e : (p.1 != h') = true := by simp [hp]
      simp only [e, if_true, lookupH]
      rw [ih]
      by_cases hh : h = h'
      · have : ¬ h' = p.1 := fun e => hp e.symm
        simp [hh, this]
      · simp [hh]

theorem lookupH_map_set (cs : List (Nat × Cell)) (h h' : Nat) (xs : List Elem) :
    lookupH (cs.map (fun p => if p.1 = h' then (p.1, (⟨p.2.mgr, xs⟩ : Cell)) else p)) h
      = if h = h' then (lookupH cs h).map (fun c => ⟨c.mgr, xs⟩) else lookupH cs h := by
  induction cs with
  | nil => simp [lookupH]
  | cons p r ih =>
    simp only [List.map_cons, lookupH]
    by_cases hp : p.1 = h'
    · simp only [hp, if_true]
      by_cases hh : h = h'
      · simp [hh]
      · simp only [hh, if_false]
        rw [ih]; simp [hh]
    · simp only [hp, if_false]
      by_cases hh : h = p.1
      · have : ¬ h = h' := by rw [hh]; exact hp
        simp [hh, this, hp]
      · simp only [hh, if_false]
        rw [ih]

namespace Heap

@[simp] theorem get_alloc (H : Heap) (m : Mgr) (xs : List Elem) (h : Nat) :
    (H.alloc m xs).get h = if h = H.next then some ⟨m, xs⟩ else H.get h := by
  simp [alloc, get, lookupH]

@[simp] theorem next_alloc (H : Heap) (m : Mgr) (xs : List Elem) : (H.alloc m xs).next = H.next + 1 := rfl

@[simp] theorem get_free (H : Heap) (h' h : Nat) :
    (H.free h').get h = if h = h' then none else H.get h := by
  simp [free, get, lookupH_filter]

@[simp] theorem next_free (H : Heap) (h : Nat) : (H.free h).next = H.next := rfl

@[simp] theorem get_setItems (H : Heap) (h' h : Nat) (xs : List Elem) :
    (H.setItems h' xs).get h = if h = h' then (H.get h).map (fun c => ⟨c.mgr, xs⟩) else H.get h := by
  simp [setItems, get, lookupH_map_set]

@[simp] theorem next_setItems (H : Heap) (h : Nat) (xs : List Elem) : (H.setItems h xs).next = H.next := rfl

end Heap

/-! ### allocCells -/

theorem allocCells_fst (m : Mgr) (ls : List (List Elem)) (H : Heap) :
    (allocCells m ls H).1 = List.range' H.next ls.length := by
  induction ls generalizing H with
  | nil => simp [allocCells]
  | cons xs rest ih =>
    simp only [allocCells, List.length_cons, List.range'_succ]
    rw [ih]; simp

theorem allocCells_next (m : Mgr) (ls : List (List Elem)) (H : Heap) :
    (allocCells m ls H).2.next = H.next + ls.length := by
  induction ls generalizing H with
  | nil => simp [allocCells]
  | cons xs rest ih =>
    simp only [allocCells, List.length_cons]
    rw [ih]; simp only [Heap.next_alloc]; omega

/-- blocks that existed before are untouched -/
theorem allocCells_get_old (m : Mgr) (ls : List (List Elem)) (H : Heap) (h : Nat) (hh : h < H.next) :
    (allocCells m ls H).2.get h = H.get h := by
  induction ls generalizing H with
  | nil => simp [allocCells]
  | cons xs rest ih =>
    simp only [allocCells]
    rw [ih (H.alloc m xs) (by simp only [Heap.next_alloc]; omega)]
    have : ¬ h = H.next := by omega
    simp [this]

/-- the `k`-th new block holds the `k`-th list and is owned by `m` -/
theorem allocCells_get_new (m : Mgr) (ls : List (List Elem)) (H : Heap) (k : Nat) (hk : k < ls.length) :
    (allocCells m ls H).2.get (H.next + k) = some ⟨m, ls[k]⟩ := by
  induction ls generalizing H k with
  | nil => simp at hk
  | cons xs rest ih =>
    simp only [allocCells]
    cases k with
    | zero =>
      rw [allocCells_get_old m rest (H.alloc m xs) (H.next + 0) (by simp only [Heap.next_alloc]; omega)]
      simp
    | succ k =>
      have := ih (H.alloc m xs) k (by simpa using hk)
      simp only [Heap.next_alloc] at this
      have e : H.next + (k + 1) = H.next + 1 + k := by omega
      rw [e, this]; simp

/-- nothing beyond the new `next` -/
theorem allocCells_get_fresh (m : Mgr) (ls : List (List Elem)) (H : Heap)
    (hf : ∀ h, H.next ≤ h → H.get h = none) (h : Nat) (hh : H.next + ls.length ≤ h) :
    (allocCells m ls H).2.get h = none := by
  induction ls generalizing H with
  | nil => simpa [allocCells] using hf h (by simpa using hh)
  | cons xs rest ih =>
    simp only [allocCells]
    apply ih
    · intro h' hh'
      simp only [Heap.next_alloc] at hh'
      simp only [Heap.get_alloc]
      have : ¬ h' = H.next := by omega
      simp [this]; exact hf h' (by omega)
    · simp only [Heap.next_alloc, List.length_cons] at *; omega

theorem mem_allocCells_fst {m : Mgr} {ls : List (List Elem)} {H : Heap} {h : Nat} :
    h ∈ (allocCells m ls H).1 ↔ H.next ≤ h ∧ h < H.next + ls.length := by
  rw [allocCells_fst]
  simp only [List.mem_range', Nat.one_mul]
  constructor
  · rintro ⟨i, hi, rfl⟩; omega
  · intro ⟨h1, h2⟩; exact ⟨h - H.next, by omega, by omega⟩

theorem allocCells_fst_nodup (m : Mgr) (ls : List (List Elem)) (H : Heap) : (allocCells m ls H).1.Nodup := by
  rw [allocCells_fst]; exact List.nodup_range'

/-- a new handle answers with manager `m` -/
theorem allocCells_get_mem (m : Mgr) (ls : List (List Elem)) (H : Heap) (h : Nat)
    (hm : h ∈ (allocCells m ls H).1) : ∃ cell, (allocCells m ls H).2.get h = some cell ∧ cell.mgr = m := by
  obtain ⟨h1, h2⟩ := mem_allocCells_fst.mp hm
  have : h = H.next + (h - H.next) := by omega
  rw [this, allocCells_get_new m ls H (h - H.next) (by omega)]
  exact ⟨_, rfl, rfl⟩

/-- layout of freshly allocated blocks -/
theorem allocCells_items (m : Mgr) (ls : List (List Elem)) (H : Heap) :
    (allocCells m ls H).1.map (itemsAt (allocCells m ls H).2) = ls := by
  rw [allocCells_fst]
  apply List.ext_getElem
  · simp
  · intro i h1 h2
    simp only [List.getElem_map, List.getElem_range', itemsAt]
    have : H.next + 1 * i = H.next + i := by omega
    rw [this, allocCells_get_new m ls H i (by simpa using h2)]

/-! ### freeCells / emptyCells -/

theorem freeCells_get (hs : List Nat) (H : Heap) (h : Nat) :
    (freeCells hs H).get h = if h ∈ hs then none else H.get h := by
  induction hs generalizing H with
  | nil => simp [freeCells]
  | cons a r ih =>
    simp only [freeCells, List.foldl_cons] at *
    rw [ih]
    by_cases h1 : h ∈ r
    · simp [h1]
    · by_cases h2 : h = a
      · simp [h1, h2]
      · simp [h1, h2]

@[simp] theorem freeCells_next (hs : List Nat) (H : Heap) : (freeCells hs H).next = H.next := by
  induction hs generalizing H with
  | nil => rfl
  | cons a r ih => simp only [freeCells, List.foldl_cons] at *; rw [ih]; rfl

theorem emptyCells_get (hs : List Nat) (H : Heap) (h : Nat) :
    (emptyCells hs H).get h = if h ∈ hs then (H.get h).map (fun c => ⟨c.mgr, []⟩) else H.get h := by
  induction hs generalizing H with
  | nil => simp [emptyCells]
  | cons a r ih =>
    simp only [emptyCells, List.foldl_cons] at *
    rw [ih]
    by_cases h2 : h = a
    · subst h2
      by_cases h1 : h ∈ r
      · simp only [h1, if_true, Heap.get_setItems, List.mem_cons, true_or]
        cases H.get h <;> simp
      · simp [h1]
    · by_cases h1 : h ∈ r
      · simp [h1, h2]
      · simp [h1, h2]

@[simp] theorem emptyCells_next (hs : List Nat) (H : Heap) : (emptyCells hs H).next = H.next := by
  induction hs generalizing H with
  | nil => rfl
  | cons a r ih => simp only [emptyCells, List.foldl_cons] at *; rw [ih]; rfl

end Momo.Val
