import Momo.Proof.StdWrapEq
import Momo.Model.StdWrapOps
/-!
  Lemmas for the C06 history theorem, unordered containers with unique keys, part 1: the canonical order does not
  depend on the traversal order; with distinct keys a lookup, an insertion, a removal and a merge give results that do
  not depend on the traversal order either.
-/
namespace Momo.StdW
open Momo.StdWrap List
open Momo.StdSpec hiding Item

/-! ### canonical order -/

theorem itemLt_iff (x y : Item) : itemLt x y = true ↔ x.1 < y.1 ∨ (x.1 = y.1 ∧ x.2 < y.2) := by
  simp [itemLt]

theorem itemLt_false_iff (x y : Item) : itemLt x y = false ↔ ¬ (x.1 < y.1 ∨ (x.1 = y.1 ∧ x.2 < y.2)) := by
  rw [← itemLt_iff]; simp

/-- `a ≤ b` in the canonical order -/
def ItemLe (a b : Item) : Prop := itemLt b a = false

theorem ItemLe.trans {a b c : Item} (h1 : ItemLe a b) (h2 : ItemLe b c) : ItemLe a c := by
  unfold ItemLe at *
  rw [itemLt_false_iff] at *
  omega

theorem ItemLe.antisymm {a b : Item} (h1 : ItemLe a b) (h2 : ItemLe b a) : a = b := by
  unfold ItemLe at *
  rw [itemLt_false_iff] at *
  apply Prod.ext <;> omega

theorem ItemLe.of_lt {a b : Item} (h : itemLt a b = true) : ItemLe a b := by
  unfold ItemLe
  rw [itemLt_iff] at h
  rw [itemLt_false_iff]
  omega

theorem canonIns_perm (x : Item) (l : List Item) : (canonIns x l).Perm (x :: l) := by
  induction l with
  | nil => simp [canonIns]
  | cons y t ih =>
    simp only [canonIns]
    split
    · exact (Perm.cons y ih).trans (Perm.swap x y t)
    · exact Perm.refl _

theorem canon_perm_self (l : List Item) : (canon l).Perm l := by
  induction l with
  | nil => simp [canon]
  | cons x t ih => exact (canonIns_perm x (canon t)).trans (Perm.cons x ih)

theorem canonIns_sorted (x : Item) (l : List Item) (h : l.Pairwise ItemLe) : (canonIns x l).Pairwise ItemLe := by
  induction l with
  | nil => simp [canonIns]
  | cons y t ih =>
    obtain ⟨hy, ht⟩ := pairwise_cons.mp h
    simp only [canonIns]
    split
    · rename_i hlt
      refine pairwise_cons.mpr ⟨?_, ih ht⟩
      intro z hz
      rcases mem_cons.mp ((canonIns_perm x t).subset hz) with rfl | hz
      · exact ItemLe.of_lt hlt
      · exact hy z hz
    · rename_i hlt
      have hxy : ItemLe x y := by simpa [ItemLe] using hlt
      refine pairwise_cons.mpr ⟨?_, h⟩
      intro z hz
      rcases mem_cons.mp hz with rfl | hz
      · exact hxy
      · exact hxy.trans (hy z hz)

theorem canon_sorted (l : List Item) : (canon l).Pairwise ItemLe := by
  induction l with
  | nil => simp [canon]
  | cons x t ih => exact canonIns_sorted x _ ih

/-- the canonical sequence depends on the multiset of elements only -/
theorem canon_perm {xs ys : List Item} (h : xs.Perm ys) : canon xs = canon ys :=
  Perm.eq_of_pairwise (fun _ _ _ _ h1 h2 => ItemLe.antisymm h1 h2) (canon_sorted xs) (canon_sorted ys)
    ((canon_perm_self xs).trans (h.trans (canon_perm_self ys).symm))

/-! ### distinct keys -/

def NodupKeys (xs : List Item) : Prop := (xs.map (·.1)).Nodup

theorem NodupKeys.perm {xs ys : List Item} (h : NodupKeys ys) (hp : xs.Perm ys) : NodupKeys xs :=
  (Perm.nodup_iff (Perm.map (fun e : Item => e.1) hp)).mpr h

theorem nodupKeys_nil : NodupKeys [] := by simp [NodupKeys]

theorem NodupKeys.sublist {xs ys : List Item} (h : NodupKeys ys) (hs : xs.Sublist ys) : NodupKeys xs :=
  Nodup.sublist (hs.map (·.1)) h

theorem NodupKeys.filter {xs : List Item} (h : NodupKeys xs) (p : Item → Bool) : NodupKeys (xs.filter p) :=
  h.sublist filter_sublist

theorem hasKey_perm {xs ys : List Item} (h : xs.Perm ys) (k : Nat) : hasKey k xs = hasKey k ys := by
  rw [Bool.eq_iff_iff, hasKey_mem, hasKey_mem]
  exact ⟨fun ⟨e, he, hk⟩ => ⟨e, h.subset he, hk⟩, fun ⟨e, he, hk⟩ => ⟨e, h.symm.subset he, hk⟩⟩
where
  hasKey_mem {k : Nat} {xs : List Item} : hasKey k xs = true ↔ ∃ e ∈ xs, e.1 = k := by simp [hasKey]

theorem hasKey_iff' (k : Nat) (xs : List Item) : hasKey k xs = true ↔ ∃ e ∈ xs, e.1 = k := by simp [hasKey]

theorem hasKey_false_iff (k : Nat) (xs : List Item) : hasKey k xs = false ↔ ∀ e ∈ xs, e.1 ≠ k := by
  simp [hasKey]

theorem find_key_mem (l : List Item) (hn : NodupKeys l) (e : Item) (he : e ∈ l) : l.find? (fun x => x.1 == e.1) = some e := by
  induction l with
  | nil => simp at he
  | cons y t ih =>
    have hn' : NodupKeys t := by unfold NodupKeys at hn ⊢; simp only [map_cons, nodup_cons] at hn; exact hn.2
    have hy : y.1 ∉ t.map (·.1) := by unfold NodupKeys at hn; simp only [map_cons, nodup_cons] at hn; exact hn.1
    rcases mem_cons.mp he with rfl | het
    · simp
    · have hne : y.1 ≠ e.1 := by
        intro heq; exact hy (heq ▸ mem_map.mpr ⟨e, het, rfl⟩)
      have : (y.1 == e.1) = false := by simpa using hne
      simp only [find?_cons, this]
      exact ih hn' het

theorem hFind_eq_uFind (xs : List Item) (k : Nat) : hFind xs k = uFind k xs := rfl

theorem uFind_some_iff (l : List Item) (hn : NodupKeys l) (k : Nat) (e : Item) : uFind k l = some e ↔ e ∈ l ∧ e.1 = k := by
  constructor
  · intro h
    unfold uFind at h
    have h1 := find?_some h
    have h2 := mem_of_find?_eq_some h
    exact ⟨h2, by simpa using h1⟩
  · intro ⟨he, hk⟩
    subst hk
    exact find_key_mem l hn e he

theorem uFind_none_iff (l : List Item) (k : Nat) : uFind k l = none ↔ hasKey k l = false := by
  unfold uFind
  rw [find?_eq_none, hasKey_false_iff]
  simp

theorem uFind_isSome (l : List Item) (k : Nat) : (uFind k l).isSome = hasKey k l := by
  cases h : uFind k l with
  | none => simp [(uFind_none_iff l k).mp h]
  | some e =>
    simp only [Option.isSome_some]
    cases hh : hasKey k l with
    | true => rfl
    | false => rw [← uFind_none_iff, h] at hh; cases hh

/-- a lookup by key does not depend on the traversal order -/
theorem uFind_perm {xs ys : List Item} (h : xs.Perm ys) (hn : NodupKeys ys) (k : Nat) : uFind k xs = uFind k ys := by
  cases hy : uFind k ys with
  | none =>
    rw [uFind_none_iff] at hy ⊢
    rw [hasKey_perm h]; exact hy
  | some e =>
    obtain ⟨he, hk⟩ := (uFind_some_iff ys hn k e).mp hy
    exact (uFind_some_iff xs (hn.perm h) k e).mpr ⟨h.symm.subset he, hk⟩

theorem countKey_unique (l : List Item) (hn : NodupKeys l) (k : Nat) : countKey k l = if hasKey k l then 1 else 0 := by
  induction l with
  | nil => simp [countKey, hasKey]
  | cons y t ih =>
    have hn' : NodupKeys t := by unfold NodupKeys at hn ⊢; simp only [map_cons, nodup_cons] at hn; exact hn.2
    have hy : y.1 ∉ t.map (·.1) := by unfold NodupKeys at hn; simp only [map_cons, nodup_cons] at hn; exact hn.1
    have ih := ih hn'
    unfold countKey hasKey at ih ⊢
    by_cases hk : y.1 = k
    · have : t.any (fun e => e.1 == k) = false := by
        rw [any_eq_false]; intro e he; simp only [beq_iff_eq]
        intro hek; exact hy (hk ▸ hek ▸ mem_map.mpr ⟨e, he, rfl⟩)
      rw [this] at ih
      simp [hk, ih]
    · have : (y.1 == k) = false := by simpa using hk
      rw [countP_cons, any_cons, this, ih, Bool.false_or]; simp

/-- removing the element a key iterator denotes = removing by key -/
theorem eraseIdx_hPos (l : List Item) (hn : NodupKeys l) (k : Nat) :
    hRemoveAt l (hPos l k) = l.filter (fun e => e.1 != k) := by
  unfold hRemoveAt hPos
  induction l with
  | nil => simp
  | cons y t ih =>
    have hn' : NodupKeys t := by unfold NodupKeys at hn ⊢; simp only [map_cons, nodup_cons] at hn; exact hn.2
    have hy : y.1 ∉ t.map (·.1) := by unfold NodupKeys at hn; simp only [map_cons, nodup_cons] at hn; exact hn.1
    by_cases hk : y.1 = k
    · have hall : t.filter (fun e => e.1 != k) = t := by
        rw [filter_eq_self]; intro e he; simp only [bne_iff_ne, ne_eq]
        intro hek; exact hy (hk ▸ hek ▸ mem_map.mpr ⟨e, he, rfl⟩)
      simp [findIdx_cons, hk, hall]
    · have h1 : (y.1 == k) = false := by simpa using hk
      have h2 : (y.1 != k) = true := by simpa using hk
      simp only [findIdx_cons, h1, cond_false, eraseIdx_cons_succ, filter_cons, h2, if_true]
      rw [ih hn']

theorem getElem?_hPos (l : List Item) (k : Nat) : l[hPos l k]? = uFind k l := by
  unfold hPos uFind
  induction l with
  | nil => simp
  | cons y t ih =>
    by_cases hk : y.1 = k
    · simp [findIdx_cons, hk]
    · have h1 : (y.1 == k) = false := by simpa using hk
      simp only [findIdx_cons, h1, cond_false, find?_cons]
      simpa using ih

theorem filter_ne_of_absent (l : List Item) (k : Nat) (h : hasKey k l = false) : l.filter (fun e => e.1 != k) = l := by
  rw [filter_eq_self]; intro e he
  have := (hasKey_false_iff k l).mp h e he
  simpa using this

end Momo.StdW
