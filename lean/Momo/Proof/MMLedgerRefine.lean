import Momo.Proof.MMLedgerSys
import Momo.Proof.MMapArr
/-!
  C08 / C04 for the ledger layer of `momo::HashMultiMap` (`Momo.MML`): REFINEMENT of the books to the abstract multimap
  `Key → List Value`.

  `St.abs st k` = the values `GetBounds()` shows for key `k` in the C08 state `st.mm` this container stands for
  (`(getArr st.mm.arrs k).bounds`; a key without array shows nothing).  Every fault-free value operation of `MMLedger.lean`
  commutes with the abstract operation on `St.abs` (`++ [v]`, `swapRemove`, `[]`, everything `[]`); an operation that does not
  answer `done ok` leaves `St.abs` as it was.

  Hypotheses: `St.Good` (the keys of the books are distinct, every value array is well-formed: `VArr.WF`, C08) and, for `Add(key, …)`
  / `RemoveValues`, `St.Tied` (a key that is not in the key table has no array on the books).  That every reachable state is `Good` needs the lookup-after-update lemmas of
  the key table and is NOT proved here (`Props/C08.lean`: `C08_multimap_ledger_reachable_good`, a `def … : Prop`).
-/
namespace Momo.MML
open Momo Momo.HT Momo.MMap

/-- the abstract multimap -/
abbrev Spec := Nat → List Nat

def Spec.set (f : Spec) (k : Nat) (l : List Nat) : Spec := fun k' => if k' = k then l else f k'

/-- the abstract contents of the container: what `GetBounds()` shows per key in the C08 state `st.mm` -/
def St.abs (st : St) : Spec := fun k => (getArr st.mm.arrs k).bounds

def keysOf (l : VBs) : List Nat := l.map (·.1)

/-- the keys of the books are distinct, every value array satisfies the representation invariant of C08 -/
structure St.Good (cfg : Cfg) (st : St) : Prop where
  nodup : (keysOf st.vbs).Nodup
  wf : ∀ p ∈ st.vbs, p.2.arr.WF cfg.mf

/-- a key that is not in the key table has no value array on the books -/
def St.Tied (cfg : Cfg) (hf : Nat → Nat) (st : St) (k : Nat) : Prop :=
  findTable cfg.h.sp hf st.kt.t k = none → lookV st.vbs k = none

/-! ### lookup lemmas -/

theorem getArr_map (l : VBs) (k : Nat) : getArr (l.map (fun p => (p.1, p.2.arr))) k = (getV l k).arr := by
  induction l with
  | nil => simp [getArr, getV, lookV]
  | cons p r ih =>
    obtain ⟨k', b⟩ := p
    by_cases h : k' = k
    · subst h; simp [getArr, getV, lookV]
    · have h' : (k == k') = false := by simp; exact fun e => h e.symm
      simp only [getArr, getV, lookV, List.map_cons, List.lookup, h', if_neg h] at ih ⊢
      exact ih

theorem abs_eq (st : St) (k : Nat) : st.abs k = (getV st.vbs k).arr.bounds := by
  simp only [St.abs, St.mm, getArr_map]

theorem abs_of_vbs {st st' : St} (h : st'.vbs = st.vbs) : st'.abs = st.abs := by
  funext k; rw [abs_eq, abs_eq, h]

theorem lookV_drop_ne (l : VBs) {k k' : Nat} (h : k' ≠ k) : lookV (dropV l k) k' = lookV l k' := by
  induction l with
  | nil => rfl
  | cons p r ih =>
    obtain ⟨k1, b⟩ := p
    by_cases h1 : k1 = k
    · subst h1
      have : ¬ k1 = k' := fun e => h e.symm
      simp [dropV, lookV, this]
    · by_cases h2 : k1 = k'
      · subst h2; simp [dropV, lookV, h1]
      · simp [dropV, lookV, h1, h2, ih]

theorem lookV_none_of_not_mem (l : VBs) (k : Nat) (h : k ∉ keysOf l) : lookV l k = none := by
  induction l with
  | nil => rfl
  | cons p r ih =>
    obtain ⟨k1, b⟩ := p
    simp only [keysOf, List.map_cons, List.mem_cons, not_or] at h
    have h1 : ¬ k1 = k := fun e => h.1 e.symm
    simp only [lookV, if_neg h1]
    exact ih h.2

theorem lookV_drop_self (l : VBs) (k : Nat) (h : (keysOf l).Nodup) : lookV (dropV l k) k = none := by
  induction l with
  | nil => rfl
  | cons p r ih =>
    obtain ⟨k1, b⟩ := p
    simp only [keysOf, List.map_cons, List.nodup_cons] at h
    by_cases h1 : k1 = k
    · subst h1; simp only [dropV]; exact lookV_none_of_not_mem r k1 h.1
    · simp only [dropV, if_neg h1, lookV]; exact ih h.2

theorem getV_set (l : VBs) (k : Nat) (b : VB) (k' : Nat) : getV (setV l k b) k' = if k' = k then b else getV l k' := by
  by_cases h : k' = k
  · subst h; simp [getV, setV, lookV]
  · have h' : ¬ k = k' := fun e => h e.symm
    simp only [getV, setV, lookV, if_neg h', if_neg h, lookV_drop_ne l h]

theorem getV_cons (l : VBs) (k : Nat) (b : VB) (k' : Nat) : getV ((k, b) :: l) k' = if k' = k then b else getV l k' := by
  by_cases h : k' = k
  · subst h; simp [getV, lookV]
  · have h' : ¬ k = k' := fun e => h e.symm
    simp only [getV, lookV, if_neg h', if_neg h]

theorem getV_wf {cfg : Cfg} {st : St} (g : st.Good cfg) (k : Nat) : (getV st.vbs k).arr.WF cfg.mf := by
  have : ∀ (l : VBs), (∀ p ∈ l, p.2.arr.WF cfg.mf) → (getV l k).arr.WF cfg.mf := by
    intro l
    induction l with
    | nil => intro _; exact VArr.empty_wf cfg.mf
    | cons p r ih =>
      obtain ⟨k1, b⟩ := p
      intro hw
      by_cases h1 : k1 = k
      · simp only [getV, lookV, if_pos h1, Option.getD_some]; exact hw (k1, b) (List.mem_cons_self ..)
      · simp only [getV, lookV, if_neg h1] at ih ⊢; exact ih (fun p hp => hw p (List.mem_cons_of_mem _ hp))
  exact this st.vbs g.wf

theorem abs_set_vbs (st st' : St) (k : Nat) (b : VB) (h : st'.vbs = setV st.vbs k b) :
    st'.abs = st.abs.set k b.arr.bounds := by
  funext k'
  rw [abs_eq, h, getV_set]
  by_cases e : k' = k
  · simp [Spec.set, e]
  · simp only [Spec.set, if_neg e, abs_eq]

theorem abs_drop_vbs (st st' : St) (k : Nat) (hn : (keysOf st.vbs).Nodup) (h : st'.vbs = dropV st.vbs k) :
    st'.abs = st.abs.set k [] := by
  funext k'
  rw [abs_eq, h]
  by_cases e : k' = k
  · subst e
    simp [Spec.set, getV, lookV_drop_self st.vbs k' hn, VArr.bounds, VArr.empty]
  · simp only [Spec.set, if_neg e, abs_eq, getV, lookV_drop_ne st.vbs e]

/-! ### the value array of the books is the C08 value array -/

theorem vbAdd_arr {cfg : Cfg} {b b1 : VB} {v : Nat} {f : VFlt} {w w1 : W} (h : vbAdd cfg b v f w = (some b1, w1)) :
    b1.arr = b.arr.addBack cfg.mf v := by
  unfold vbAdd at h
  split at h
  · split at h
    · simp at h
    · simp only [Prod.mk.injEq, Option.some.injEq] at h; rw [← h.1]
  · split at h
    · split at h
      · split at h
        · simp at h
        · simp only [Prod.mk.injEq, Option.some.injEq] at h; rw [← h.1]
      · split at h
        · simp at h
        · split at h
          · simp at h
          · simp only [Prod.mk.injEq, Option.some.injEq] at h; rw [← h.1]; rfl
    · split at h
      · simp at h
      · simp only [Prod.mk.injEq, Option.some.injEq] at h; rw [← h.1]
  · split at h
    · split at h
      · simp at h
      · simp only [Prod.mk.injEq, Option.some.injEq] at h; rw [← h.1]
    · split at h
      · simp at h
      · split at h
        · simp at h
        · simp only [Prod.mk.injEq, Option.some.injEq] at h; rw [← h.1]; rfl

theorem vbRemoveBack_arr (cfg : Cfg) (b : VB) (a' : VArr) (f : VFlt) (w : W) : (vbRemoveBack cfg b a' f w).1.arr = a' := by
  unfold vbRemoveBack
  split
  · rfl
  · split
    · rfl
    · split <;> rfl

theorem vbRemoveAt_arr {cfg : Cfg} {b b1 : VB} {i : Nat} {f : VFlt} {w w1 : W} (h : vbRemoveAt cfg b i f w = (some b1, w1)) :
    b1.arr = b.arr.removeAt i f.shrink := by
  unfold vbRemoveAt at h
  split at h
  · simp at h
  · split at h
    · simp only [Prod.mk.injEq, Option.some.injEq] at h; rw [← h.1, vbRemoveBack_arr]
    · simp only [Prod.mk.injEq, Option.some.injEq] at h; rw [← h.1]

/-! ### the operations -/

variable (cfg : Cfg) (hf : Nat → Nat)

theorem addAtL_abs (st : St) (k v : Nat) (f : Flt) (w : W) (h1 : 1 ≤ cfg.mf) (hmf : cfg.mf < Extracted.abMaxFastLimit)
    (g : st.Good cfg) (hok : (addAtL cfg hf st k v f w).2.2 = .done .ok) :
    (addAtL cfg hf st k v f w).1.abs = st.abs.set k (st.abs k ++ [v]) := by
  unfold addAtL at hok ⊢
  split at hok
  · simp at hok
  · split at hok
    · simp at hok
    · rename_i b w1 hv
      simp only
      rw [abs_set_vbs st _ k b rfl, vbAdd_arr hv, VArr.addBack_bounds h1 hmf (getV_wf g k), abs_eq]

theorem addAtL_fault (st : St) (k v : Nat) (f : Flt) (w : W) (hno : (addAtL cfg hf st k v f w).2.2 ≠ .done .ok) :
    (addAtL cfg hf st k v f w).1 = st := by
  unfold addAtL at hno ⊢
  split
  · rfl
  · split
    · rfl
    · simp_all

theorem addL_abs (st : St) (k tg v : Nat) (f : Flt) (w : W) (h1 : 1 ≤ cfg.mf) (hmf : cfg.mf < Extracted.abMaxFastLimit)
    (g : st.Good cfg) (ht : st.Tied cfg hf k) (hok : (addL cfg hf st k tg v f w).2.2 = .done .ok) :
    (addL cfg hf st k tg v f w).1.abs = st.abs.set k (st.abs k ++ [v]) := by
  unfold addL at hok ⊢
  split at hok
  · simp at hok
  · rename_i hfl
    simp only [if_neg hfl]
    split at hok
    · split at hok
      · simp at hok
      · rename_i b w1 hv
        simp only
        rw [abs_set_vbs st _ k b rfl, vbAdd_arr hv, VArr.addBack_bounds h1 hmf (getV_wf g k), abs_eq]
    · rename_i hnone
      have hk : lookV st.vbs k = none := ht hnone
      have hk0 : st.abs k = [] := by rw [abs_eq]; simp [getV, hk, VArr.bounds, VArr.empty]
      split at hok
      · rename_i kt1 w1 ha
        simp only [ha]
        funext k'
        rw [abs_eq]
        simp only [getV_cons]
        by_cases e : k' = k
        · simp only [Spec.set, if_pos e, hk0, List.nil_append]
          rw [VArr.addBack_bounds h1 hmf (VArr.empty_wf cfg.mf)]; simp [VArr.bounds, VArr.empty]
        · simp only [Spec.set, if_neg e, abs_eq]
      · rename_i kt1 w1 o hne ha
        simp_all

theorem addL_fault (st : St) (k tg v : Nat) (f : Flt) (w : W) (hno : (addL cfg hf st k tg v f w).2.2 ≠ .done .ok) :
    (addL cfg hf st k tg v f w).1.vbs = st.vbs := by
  unfold addL at hno ⊢
  split
  · rfl
  · split
    · split
      · rfl
      · simp_all
    · split
      · simp_all
      · rfl

theorem removeValueL_abs (st : St) (k i : Nat) (f : Flt) (w : W) (hmf : cfg.mf < Extracted.abMaxFastLimit)
    (g : st.Good cfg) (hok : (removeValueL cfg hf st k i f w).2.2 = .done .ok) :
    (removeValueL cfg hf st k i f w).1.abs = st.abs.set k (swapRemove (st.abs k) i) := by
  unfold removeValueL at hok ⊢
  split at hok
  · simp at hok
  · split at hok
    · split at hok
      · simp at hok
      · rename_i hi _ b w1 hv
        simp only [if_pos hi]
        rw [abs_set_vbs st _ k b rfl, vbRemoveAt_arr hv, (VArr.removeAt_spec hmf (getV_wf g k) i f.v.shrink).2, abs_eq]
    · simp at hok

theorem removeValueL_fault (st : St) (k i : Nat) (f : Flt) (w : W) (hno : (removeValueL cfg hf st k i f w).2.2 ≠ .done .ok) :
    (removeValueL cfg hf st k i f w).1 = st := by
  unfold removeValueL at hno ⊢
  split
  · rfl
  · split
    · split
      · rfl
      · simp_all
    · rfl

theorem removeValuesL_abs (st : St) (k : Nat) (w : W) (g : st.Good cfg) (ht : st.Tied cfg hf k) :
    (removeValuesL cfg hf st k w).1.abs = st.abs.set k [] := by
  unfold removeValuesL
  split
  · rename_i hnone
    have hk : lookV st.vbs k = none := ht hnone
    funext k'
    by_cases e : k' = k
    · subst e; simp only [Spec.set]; rw [abs_eq]; simp [getV, hk, VArr.bounds, VArr.empty]
    · simp only [Spec.set, if_neg e]
  · exact abs_drop_vbs st _ k g.nodup rfl

theorem removeKeyL_abs (st : St) (k : Nat) (f : Flt) (w : W) (g : st.Good cfg)
    (hok : (removeKeyL cfg hf st k f w).2.2.1 = .done .ok) :
    (removeKeyL cfg hf st k f w).1.abs = st.abs.set k [] := by
  unfold removeKeyL at hok ⊢
  split at hok
  · rename_i kt1 w1 hr
    simp only
    exact abs_drop_vbs st _ k g.nodup rfl
  · rename_i kt1 w1 r hne hr
    simp_all

theorem removeKeyL_fault (st : St) (k : Nat) (f : Flt) (w : W) (hno : (removeKeyL cfg hf st k f w).2.2.1 ≠ .done .ok) :
    (removeKeyL cfg hf st k f w).1.vbs = st.vbs := by
  unfold removeKeyL at hno ⊢
  split
  · rename_i kt1 w1 hr; simp [hr] at hno
  · rfl

theorem clearL_abs (st : St) (w : W) : (clearL cfg st w).1.abs = fun _ => [] := by
  funext k; rw [abs_eq]; simp [clearL, getV, lookV, VArr.bounds, VArr.empty]

theorem insertKeyL_abs (st : St) (k tg : Nat) (f : Flt) (w : W) : (insertKeyL cfg hf st k tg f w).1.abs = st.abs :=
  abs_of_vbs rfl

theorem resetKeyL_abs (st : St) (k tg : Nat) (w : W) : (resetKeyL cfg hf st k tg w).1.abs = st.abs := by
  apply abs_of_vbs
  unfold resetKeyL
  split <;> rfl

/-- the system level: whatever fails among the strongly exception-safe operations, both abstract multimaps stay -/
theorem step_fault_abs (s : Sys) (op : Op) (h : SysOK cfg s) (hs : op.strong = true)
    (hfail : (step cfg hf s op).2.failed = true) :
    (step cfg hf s op).1.a.abs = s.a.abs ∧ (step cfg hf s op).1.b.abs = s.b.abs := by
  obtain ⟨ha, hb⟩ := step_strong cfg hf s op h hs hfail
  rw [ha, hb]; exact ⟨rfl, rfl⟩


/-! ### the system of two multimaps -/

/-- the abstract contents of the two containers -/
def Sys.abs (s : Sys) : Spec × Spec := (s.a.abs, s.b.abs)

/-- the operation answered "done" -/
def Out.ok : Out → Bool
  | .res (.done .ok) => true
  | .num _ false => true
  | .unit => true
  | _ => false

/-- the operations whose abstract counterpart is stated here (`copyTo` and `Remove(pairFilter)` are left out) -/
def Op.plain : Op → Bool
  | .copyTo _ _ => false
  | .removeIf _ _ _ => false
  | _ => true

/-- the abstract step on `(Key → List Value) × (Key → List Value)`, given whether the operation answered "done" -/
def absStep (ok : Bool) (p : Spec × Spec) : Op → Spec × Spec
  | .add toB k _ v _ =>
    if ok then (if toB then (p.1, p.2.set k (p.2 k ++ [v])) else (p.1.set k (p.1 k ++ [v]), p.2)) else p
  | .addAt k v _ => if ok then (p.1.set k (p.1 k ++ [v]), p.2) else p
  | .removeValue k i _ => if ok then (p.1.set k (swapRemove (p.1 k) i), p.2) else p
  | .removeValues k => (p.1.set k [], p.2)
  | .removeKey k _ => if ok then (p.1.set k [], p.2) else p
  | .clear => (fun _ => [], p.2)
  | .moveTo _ => (fun _ => [], p.1)
  | .swap => (p.2, p.1)
  | _ => p

theorem abs_empty_vbs (st : St) (h : st.vbs = []) : st.abs = fun _ => [] := by
  funext k; rw [abs_eq, h]; simp [getV, lookV, VArr.bounds, VArr.empty]

theorem newL_vbs (cfg : Cfg) (f : Flt) (w : W) (st : St) (w1 : W) (h : newL cfg f w = (some st, w1)) : st.vbs = [] := by
  unfold newL at h
  split at h
  · simp at h
  · split at h
    · simp at h
    · simp only [Prod.mk.injEq, Option.some.injEq] at h; rw [← h.1]

theorem step_abs (cfg : Cfg) (hf : Nat → Nat) (s : Sys) (op : Op) (h1 : 1 ≤ cfg.mf) (hmf : cfg.mf < Extracted.abMaxFastLimit)
    (ga : s.a.Good cfg) (gb : s.b.Good cfg) (ta : ∀ k, s.a.Tied cfg hf k) (tb : ∀ k, s.b.Tied cfg hf k) (hp : op.plain = true) :
    (step cfg hf s op).1.abs = absStep (step cfg hf s op).2.ok s.abs op := by
  cases op with
  | add toB k tg v f =>
    cases toB with
    | true =>
      by_cases hok : (addL cfg hf s.b k tg v f s.w).2.2 = .done .ok
      · simp [step, Sys.abs, absStep, Out.ok, hok, addL_abs cfg hf s.b k tg v f s.w h1 hmf gb (tb k) hok]
      · have := abs_of_vbs (addL_fault cfg hf s.b k tg v f s.w hok)
        have ho : Out.ok (.res (addL cfg hf s.b k tg v f s.w).2.2) = false := by
          generalize (addL cfg hf s.b k tg v f s.w).2.2 = r at hok
          rcases r with (_ | _) | _ | _ <;> simp_all [Out.ok]
        simp [step, Sys.abs, absStep, ho, this]
    | false =>
      by_cases hok : (addL cfg hf s.a k tg v f s.w).2.2 = .done .ok
      · simp [step, Sys.abs, absStep, Out.ok, hok, addL_abs cfg hf s.a k tg v f s.w h1 hmf ga (ta k) hok]
      · have := abs_of_vbs (addL_fault cfg hf s.a k tg v f s.w hok)
        have ho : Out.ok (.res (addL cfg hf s.a k tg v f s.w).2.2) = false := by
          generalize (addL cfg hf s.a k tg v f s.w).2.2 = r at hok
          rcases r with (_ | _) | _ | _ <;> simp_all [Out.ok]
        simp [step, Sys.abs, absStep, ho, this]
  | addAt k v f =>
    by_cases hok : (addAtL cfg hf s.a k v f s.w).2.2 = .done .ok
    · simp [step, Sys.abs, absStep, Out.ok, hok, addAtL_abs cfg hf s.a k v f s.w h1 hmf ga hok]
    · have := addAtL_fault cfg hf s.a k v f s.w hok
      have ho : Out.ok (.res (addAtL cfg hf s.a k v f s.w).2.2) = false := by
        generalize (addAtL cfg hf s.a k v f s.w).2.2 = r at hok
        rcases r with (_ | _) | _ | _ <;> simp_all [Out.ok]
      simp [step, Sys.abs, absStep, ho, this]
  | insertKey k tg f => simp [step, Sys.abs, absStep, insertKeyL_abs]
  | removeValue k i f =>
    by_cases hok : (removeValueL cfg hf s.a k i f s.w).2.2 = .done .ok
    · simp [step, Sys.abs, absStep, Out.ok, hok, removeValueL_abs cfg hf s.a k i f s.w hmf ga hok]
    · have := removeValueL_fault cfg hf s.a k i f s.w hok
      have ho : Out.ok (.res (removeValueL cfg hf s.a k i f s.w).2.2) = false := by
        generalize (removeValueL cfg hf s.a k i f s.w).2.2 = r at hok
        rcases r with (_ | _) | _ | _ <;> simp_all [Out.ok]
      simp [step, Sys.abs, absStep, ho, this]
  | removeIf m r fl => simp [Op.plain] at hp
  | removeValues k => simp [step, Sys.abs, absStep, removeValuesL_abs cfg hf s.a k s.w ga (ta k)]
  | removeKey k f =>
    by_cases hok : (removeKeyL cfg hf s.a k f s.w).2.2.1 = .done .ok
    · simp [step, Sys.abs, absStep, Out.ok, hok, removeKeyL_abs cfg hf s.a k f s.w ga hok]
    · have := abs_of_vbs (removeKeyL_fault cfg hf s.a k f s.w hok)
      have ho : Out.ok (.res (removeKeyL cfg hf s.a k f s.w).2.2.1) = false := by
        generalize (removeKeyL cfg hf s.a k f s.w).2.2.1 = r at hok
        rcases r with (_ | _) | _ | _ <;> simp_all [Out.ok]
      simp [step, Sys.abs, absStep, ho, this]
  | resetKey k tg => simp [step, Sys.abs, absStep, resetKeyL_abs]
  | clear => simp [step, Sys.abs, absStep, clearL_abs]
  | copyTo f0 f => simp [Op.plain] at hp
  | moveTo f =>
    simp only [step, absStep, Sys.abs]
    split
    · simp [abs_empty_vbs]
    · rename_i st w2 hn; simp [abs_empty_vbs _ (newL_vbs cfg f _ st w2 hn)]
  | swap => simp [step, Sys.abs, absStep]

theorem poolTraffic_vbs (cfg : Cfg) (st : St) (p : HTL.PoolT) (w : W) : (poolTraffic cfg st p w).1.vbs = st.vbs := by
  unfold poolTraffic; split <;> rfl

/-- the pool traffic booked with an operation changes no contents -/
theorem stepT_abs_eq (cfg : Cfg) (hf : Nat → Nat) (s : Sys) (o : OpT) :
    (stepT cfg hf s o).1.abs = (step cfg hf s o.op).1.abs ∧ (stepT cfg hf s o).2 = (step cfg hf s o.op).2 := by
  refine ⟨?_, rfl⟩
  simp only [stepT, Sys.abs, ktTraffic]
  congr 1 <;> exact (abs_of_vbs (st' := _) (by simp only [poolTraffic_vbs]))

/-- the hypotheses of the step theorems for both containers -/
structure SysGood (cfg : Cfg) (hf : Nat → Nat) (s : Sys) : Prop where
  ga : s.a.Good cfg
  gb : s.b.Good cfg
  ta : ∀ k, s.a.Tied cfg hf k
  tb : ∀ k, s.b.Tied cfg hf k

theorem stepT_abs (cfg : Cfg) (hf : Nat → Nat) (s : Sys) (o : OpT) (h1 : 1 ≤ cfg.mf) (hmf : cfg.mf < Extracted.abMaxFastLimit)
    (g : SysGood cfg hf s) (hp : o.op.plain = true) :
    (stepT cfg hf s o).1.abs = absStep (stepT cfg hf s o).2.ok s.abs o.op := by
  rw [(stepT_abs_eq cfg hf s o).1, (stepT_abs_eq cfg hf s o).2]
  exact step_abs cfg hf s o.op h1 hmf g.ga g.gb g.ta g.tb hp

/-- the abstract history: the abstract steps, told by the concrete run only which operations answered "done" -/
def absRun (cfg : Cfg) (hf : Nat → Nat) : Sys → Spec × Spec → List OpT → Spec × Spec
  | _, p, [] => p
  | s, p, o :: ops => absRun cfg hf (stepT cfg hf s o).1 (absStep (stepT cfg hf s o).2.ok p o.op) ops

/-- whole histories of plain operations, as long as the states passed through are `SysGood` -/
theorem run_abs (cfg : Cfg) (hf : Nat → Nat) (h1 : 1 ≤ cfg.mf) (hmf : cfg.mf < Extracted.abMaxFastLimit) :
    ∀ (ops : List OpT) (s : Sys), (∀ pre, pre <+: ops → SysGood cfg hf (run cfg hf s pre)) → (∀ o ∈ ops, o.op.plain = true) →
      (run cfg hf s ops).abs = absRun cfg hf s s.abs ops := by
  intro ops
  induction ops with
  | nil => intro s _ _; rfl
  | cons o ops ih =>
    intro s hg hp
    have g0 : SysGood cfg hf s := hg [] (List.nil_prefix)
    simp only [run, absRun]
    rw [← stepT_abs cfg hf s o h1 hmf g0 (hp o (List.mem_cons_self ..))]
    exact ih (stepT cfg hf s o).1 (fun pre hpre => hg (o :: pre) (List.cons_prefix_cons.2 ⟨rfl, hpre⟩))
      (fun o' ho' => hp o' (List.mem_cons_of_mem _ ho'))


/-! ### `St.Good` is kept by every plain operation (given `Tied` for the key of an `Add`) -/

theorem mem_drop {l : VBs} {k : Nat} {p : Nat × VB} (h : p ∈ dropV l k) : p ∈ l := by
  induction l with
  | nil => simp [dropV] at h
  | cons q r ih =>
    obtain ⟨k1, b⟩ := q
    by_cases h1 : k1 = k
    · simp only [dropV, if_pos h1] at h; exact List.mem_cons_of_mem _ h
    · simp only [dropV, if_neg h1, List.mem_cons] at h
      rcases h with h | h
      · rw [h]; exact List.mem_cons_self ..
      · exact List.mem_cons_of_mem _ (ih h)

theorem mem_keys_drop {l : VBs} {k k' : Nat} (h : k' ∈ keysOf (dropV l k)) : k' ∈ keysOf l := by
  simp only [keysOf, List.mem_map] at h ⊢
  obtain ⟨p, hp, e⟩ := h
  exact ⟨p, mem_drop hp, e⟩

theorem nodup_drop {l : VBs} (k : Nat) (h : (keysOf l).Nodup) : (keysOf (dropV l k)).Nodup := by
  induction l with
  | nil => simpa [dropV] using h
  | cons q r ih =>
    obtain ⟨k1, b⟩ := q
    simp only [keysOf, List.map_cons, List.nodup_cons] at h
    by_cases h1 : k1 = k
    · simp only [dropV, if_pos h1]; exact h.2
    · simp only [dropV, if_neg h1, keysOf, List.map_cons, List.nodup_cons]
      exact ⟨fun hm => h.1 (mem_keys_drop hm), ih h.2⟩

theorem not_mem_drop_self {l : VBs} (k : Nat) (h : (keysOf l).Nodup) : k ∉ keysOf (dropV l k) := by
  induction l with
  | nil => simp [dropV, keysOf]
  | cons q r ih =>
    obtain ⟨k1, b⟩ := q
    simp only [keysOf, List.map_cons, List.nodup_cons] at h
    by_cases h1 : k1 = k
    · subst h1; simp only [dropV]; exact h.1
    · simp only [dropV, if_neg h1, keysOf, List.map_cons, List.mem_cons, not_or]
      exact ⟨fun e => h1 e.symm, ih h.2⟩

theorem not_mem_of_lookV_none {l : VBs} {k : Nat} (h : lookV l k = none) : k ∉ keysOf l := by
  induction l with
  | nil => simp [keysOf]
  | cons q r ih =>
    obtain ⟨k1, b⟩ := q
    by_cases h1 : k1 = k
    · simp [lookV, h1] at h
    · simp only [lookV, if_neg h1] at h
      simp only [keysOf, List.map_cons, List.mem_cons, not_or]
      exact ⟨fun e => h1 e.symm, ih h⟩

theorem good_of_vbs {cfg : Cfg} {st st' : St} (h : st'.vbs = st.vbs) (g : st.Good cfg) : st'.Good cfg :=
  ⟨by rw [h]; exact g.nodup, by rw [h]; exact g.wf⟩

theorem good_set {cfg : Cfg} {st st' : St} (k : Nat) (b : VB) (h : st'.vbs = setV st.vbs k b) (g : st.Good cfg)
    (hb : b.arr.WF cfg.mf) : st'.Good cfg := by
  refine ⟨?_, ?_⟩
  · rw [h]; simp only [setV, keysOf, List.map_cons, List.nodup_cons]
    exact ⟨not_mem_drop_self k g.nodup, nodup_drop k g.nodup⟩
  · rw [h]; intro p hp
    simp only [setV, List.mem_cons] at hp
    rcases hp with hp | hp
    · rw [hp]; exact hb
    · exact g.wf p (mem_drop hp)

theorem good_drop {cfg : Cfg} {st st' : St} (k : Nat) (h : st'.vbs = dropV st.vbs k) (g : st.Good cfg) : st'.Good cfg :=
  ⟨by rw [h]; exact nodup_drop k g.nodup, by rw [h]; exact fun p hp => g.wf p (mem_drop hp)⟩

theorem good_nil {cfg : Cfg} {st : St} (h : st.vbs = []) : st.Good cfg :=
  ⟨by rw [h]; simp [keysOf], by rw [h]; simp⟩

variable (cfg : Cfg) (hf : Nat → Nat)

theorem addAtL_good (st : St) (k v : Nat) (f : Flt) (w : W) (h1 : 1 ≤ cfg.mf) (hmf : cfg.mf < Extracted.abMaxFastLimit)
    (g : st.Good cfg) : (addAtL cfg hf st k v f w).1.Good cfg := by
  unfold addAtL
  split
  · exact g
  · split
    · exact g
    · rename_i b w1 hv
      exact good_set k b rfl g (by rw [vbAdd_arr hv]; exact VArr.addBack_wf h1 hmf (getV_wf g k) v)

theorem addL_good (st : St) (k tg v : Nat) (f : Flt) (w : W) (h1 : 1 ≤ cfg.mf) (hmf : cfg.mf < Extracted.abMaxFastLimit)
    (g : st.Good cfg) (ht : st.Tied cfg hf k) : (addL cfg hf st k tg v f w).1.Good cfg := by
  unfold addL
  split
  · exact g
  · split
    · split
      · exact g
      · rename_i b w1 hv
        exact good_set k b rfl g (by rw [vbAdd_arr hv]; exact VArr.addBack_wf h1 hmf (getV_wf g k) v)
    · rename_i hnone
      have hk := not_mem_of_lookV_none (ht hnone)
      split
      · refine ⟨?_, ?_⟩
        · simp only [keysOf, List.map_cons, List.nodup_cons]; exact ⟨hk, g.nodup⟩
        · intro p hp
          simp only [List.mem_cons] at hp
          rcases hp with hp | hp
          · rw [hp]; exact VArr.addBack_wf h1 hmf (VArr.empty_wf cfg.mf) v
          · exact g.wf p hp
      · exact good_of_vbs (st := st) rfl g

theorem removeValueL_good (st : St) (k i : Nat) (f : Flt) (w : W) (hmf : cfg.mf < Extracted.abMaxFastLimit)
    (g : st.Good cfg) : (removeValueL cfg hf st k i f w).1.Good cfg := by
  unfold removeValueL
  split
  · exact g
  · split
    · split
      · exact g
      · rename_i b w1 hv
        exact good_set k b rfl g (by rw [vbRemoveAt_arr hv]; exact (VArr.removeAt_spec hmf (getV_wf g k) i f.v.shrink).1)
    · exact g

theorem removeValuesL_good (st : St) (k : Nat) (w : W) (g : st.Good cfg) : (removeValuesL cfg hf st k w).1.Good cfg := by
  unfold removeValuesL
  split
  · exact g
  · exact good_drop k rfl g

theorem removeKeyL_good (st : St) (k : Nat) (f : Flt) (w : W) (g : st.Good cfg) : (removeKeyL cfg hf st k f w).1.Good cfg := by
  unfold removeKeyL
  split
  · exact good_drop k rfl g
  · exact good_of_vbs (st := st) rfl g

theorem resetKeyL_good (st : St) (k tg : Nat) (w : W) (g : st.Good cfg) : (resetKeyL cfg hf st k tg w).1.Good cfg := by
  unfold resetKeyL
  split
  · exact good_of_vbs (st := st) rfl g
  · exact g

theorem step_good (s : Sys) (op : Op) (h1 : 1 ≤ cfg.mf) (hmf : cfg.mf < Extracted.abMaxFastLimit)
    (ga : s.a.Good cfg) (gb : s.b.Good cfg) (ta : ∀ k, s.a.Tied cfg hf k) (tb : ∀ k, s.b.Tied cfg hf k) (hp : op.plain = true) :
    (step cfg hf s op).1.a.Good cfg ∧ (step cfg hf s op).1.b.Good cfg := by
  cases op with
  | add toB k tg v f =>
    cases toB with
    | true => exact ⟨ga, addL_good cfg hf s.b k tg v f s.w h1 hmf gb (tb k)⟩
    | false => exact ⟨addL_good cfg hf s.a k tg v f s.w h1 hmf ga (ta k), gb⟩
  | addAt k v f => exact ⟨addAtL_good cfg hf s.a k v f s.w h1 hmf ga, gb⟩
  | insertKey k tg f => exact ⟨good_of_vbs (st := s.a) rfl ga, gb⟩
  | removeValue k i f => exact ⟨removeValueL_good cfg hf s.a k i f s.w hmf ga, gb⟩
  | removeIf m r fl => simp [Op.plain] at hp
  | removeValues k => exact ⟨removeValuesL_good cfg hf s.a k s.w ga, gb⟩
  | removeKey k f => exact ⟨removeKeyL_good cfg hf s.a k f s.w ga, gb⟩
  | resetKey k tg => exact ⟨resetKeyL_good cfg hf s.a k tg s.w ga, gb⟩
  | clear => exact ⟨good_nil rfl, gb⟩
  | copyTo f0 f => simp [Op.plain] at hp
  | moveTo f =>
    simp only [step]
    split
    · exact ⟨good_nil rfl, ga⟩
    · rename_i st w2 hn; exact ⟨good_nil (newL_vbs cfg f _ st w2 hn), ga⟩
  | swap => exact ⟨gb, ga⟩

theorem stepT_good (s : Sys) (o : OpT) (h1 : 1 ≤ cfg.mf) (hmf : cfg.mf < Extracted.abMaxFastLimit)
    (ga : s.a.Good cfg) (gb : s.b.Good cfg) (ta : ∀ k, s.a.Tied cfg hf k) (tb : ∀ k, s.b.Tied cfg hf k) (hp : o.op.plain = true) :
    (stepT cfg hf s o).1.a.Good cfg ∧ (stepT cfg hf s o).1.b.Good cfg := by
  obtain ⟨h_a, h_b⟩ := step_good cfg hf s o.op h1 hmf ga gb ta tb hp
  simp only [stepT, ktTraffic]
  exact ⟨good_of_vbs (by simp only [poolTraffic_vbs]) h_a, good_of_vbs (by simp only [poolTraffic_vbs]) h_b⟩

theorem init_good : (Sys.init cfg).a.Good cfg ∧ (Sys.init cfg).b.Good cfg := by
  have : ∀ (f : Flt) (w : W), ((newL cfg f w).1.getD {}).vbs = [] := by
    intro f w
    cases h : newL cfg f w with
    | mk o w1 =>
      cases o with
      | none => rfl
      | some st => exact newL_vbs cfg f w st w1 h
  exact ⟨good_nil (this _ _), good_nil (this _ _)⟩

/-- `Tied` for both containers -/
def SysTied (cfg : Cfg) (hf : Nat → Nat) (s : Sys) : Prop := (∀ k, s.a.Tied cfg hf k) ∧ (∀ k, s.b.Tied cfg hf k)

/-- whole histories of plain operations from a `Good` state: only `Tied` is asked of the states passed through -/
theorem run_abs_tied (h1 : 1 ≤ cfg.mf) (hmf : cfg.mf < Extracted.abMaxFastLimit) :
    ∀ (ops : List OpT) (s : Sys), s.a.Good cfg → s.b.Good cfg → (∀ pre, pre <+: ops → SysTied cfg hf (run cfg hf s pre)) →
      (∀ o ∈ ops, o.op.plain = true) → (run cfg hf s ops).abs = absRun cfg hf s s.abs ops := by
  intro ops
  induction ops with
  | nil => intro s _ _ _ _; rfl
  | cons o ops ih =>
    intro s ga gb ht hp
    have t0 : SysTied cfg hf s := ht [] (List.nil_prefix)
    have hpo := hp o (List.mem_cons_self ..)
    obtain ⟨ga', gb'⟩ := stepT_good cfg hf s o h1 hmf ga gb t0.1 t0.2 hpo
    simp only [run, absRun]
    rw [← stepT_abs cfg hf s o h1 hmf ⟨ga, gb, t0.1, t0.2⟩ hpo]
    exact ih (stepT cfg hf s o).1 ga' gb' (fun pre hpre => ht (o :: pre) (List.cons_prefix_cons.2 ⟨rfl, hpre⟩))
      (fun o' ho' => hp o' (List.mem_cons_of_mem _ ho'))

end Momo.MML
