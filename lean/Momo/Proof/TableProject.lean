import Momo.Proof.TableHist
/-!
  C07: `pvProject<distinct>`: the projection of the rows that pass the filter; with `distinct` the first occurrence of
  every tuple (the temporary unique index over all result columns refuses the later ones).
-/
namespace Momo.Table
open List

/-- brute force: first occurrences, in order -/
def dedupFirst : List (List Nat) → List (List Nat) → List (List Nat)
  | out, [] => out
  | out, x :: xs => if out.contains x then dedupFirst out xs else dedupFirst (out ++ [x]) xs

theorem project_all (vis : Vis) (acc : Acc) (t : Table) (cols : List Nat) (filt : Row → Bool) :
    project vis acc t cols false filt = (t.rows.filter filt).map (fun r => cols.map (item r.vals)) := by
  unfold project
  simp only [Bool.false_eq_true, if_false]
  suffices h : ∀ (l : List Row) (rt : Table),
      (l.foldl (projectStep vis acc cols false) rt).rows.map (·.vals) = rt.rows.map (·.vals) ++ l.map (fun r => cols.map (item r.vals)) by
    rw [h]; rfl
  intro l
  induction l with
  | nil => intro rt; simp
  | cons r rs ih =>
    intro rt
    rw [foldl_cons, ih]
    simp [projectStep]

theorem keyEq_range_iff (n : Nat) (v1 v2 : List Nat) (h1 : v1.length = n) (h2 : v2.length = n) :
    keyEq (List.range n) v1 v2 = true ↔ v1 = v2 := by
  rw [keyEq_iff]
  constructor
  · intro h
    apply List.ext_getElem (by rw [h1, h2])
    intro i hi1 hi2
    have := h i (by rw [mem_range]; omega)
    unfold item at this
    rw [getD_eq_getElem?_getD, getD_eq_getElem?_getD, getElem?_eq_getElem hi1, getElem?_eq_getElem hi2] at this
    simpa using this
  · intro h c _; rw [h]

section projectD
variable {vis : Vis} (hc : Complete vis) (acc : Acc)
include hc

/-- the state of the result table of `pvProject<true>` -/
structure ProjInv (n : Nat) (rt : Table) : Prop where
  idsEq : ids rt.rows = List.range rt.rows.length
  uidx : ∃ u, rt.uidx = [u] ∧ UInv acc rt.rows u ∧ u.cols = List.range n
  midx : rt.midx = []
  lens : ∀ x ∈ rt.rows, x.vals.length = n

theorem projectStep_distinct (cols : List Nat) (rt : Table) (hp : ProjInv acc cols.length rt) (r : Row) :
    ProjInv acc cols.length (projectStep vis acc cols true rt r) ∧
    (projectStep vis acc cols true rt r).rows.map (·.vals) =
      if (rt.rows.map (·.vals)).contains (cols.map (item r.vals)) then rt.rows.map (·.vals)
      else rt.rows.map (·.vals) ++ [cols.map (item r.vals)] := by
  obtain ⟨hids, ⟨u, hu1, hu2, hu3⟩, hmid, hlens⟩ := hp
  have hnd : (ids rt.rows).Nodup := by rw [hids]; exact nodup_range
  have hr : (Row.mk rt.rows.length 0 0 (cols.map (item r.vals))).id ∉ ids rt.rows := by
    rw [hids]; simp
  have hU := uAddAll_spec hc acc hnd hr .none [u] 0 (by intro u' hu'; simp at hu'; rw [hu']; exact hu2)
  have hkey : ∀ x ∈ rt.rows, (keyEq u.cols (cols.map (item r.vals)) x.vals = true ↔ cols.map (item r.vals) = x.vals) := by
    intro x hx
    rw [hu3]; exact keyEq_range_iff _ _ _ (by simp) (hlens x hx)
  unfold projectStep
  simp only [if_true]
  unfold addRaw
  rw [hu1, hmid]
  cases hs : (uAddAll vis acc (rt.rows ++ [Row.mk rt.rows.length 0 0 (cols.map (item r.vals))]) rt.rows.length .none 0 [u]).2 with
  | none =>
    rw [hs] at hU
    obtain ⟨_, hU2, hU3⟩ := hU
    have e : uAddAll vis acc (rt.rows ++ [Row.mk rt.rows.length 0 0 (cols.map (item r.vals))]) rt.rows.length .none 0 [u] =
        ((uAddAll vis acc (rt.rows ++ [Row.mk rt.rows.length 0 0 (cols.map (item r.vals))]) rt.rows.length .none 0 [u]).1, Stop.none) := by
      rw [← hs]
    rw [e]
    simp only [mAddAll, map_nil]
    have hnot : (rt.rows.map (·.vals)).contains (cols.map (item r.vals)) = false := by
      rw [Bool.eq_false_iff]
      intro hcon
      simp only [contains_iff_mem, mem_map] at hcon
      obtain ⟨x, hx, hxv⟩ := hcon
      have := hU3 u (by simp) x hx
      rw [(hkey x hx).mpr hxv.symm] at this
      exact absurd this (by simp)
    rw [hnot]
    simp only [Bool.false_eq_true, if_false, map_append, map_cons, map_nil]
    refine ⟨⟨?_, ?_, rfl, ?_⟩, trivial⟩
    · show ids (rt.rows ++ [_]) = _
      rw [ids_append, hids, length_append, length_singleton, range_succ]
    · refine ⟨(uAdded acc u rt.rows.length (cols.map (item r.vals))).acceptAdd, ?_, ?_, hu3⟩
      · show map UIdx.acceptAdd _ = _
        rw [hU2]; rfl
      · exact UInv_add acc hnd hr u hu2 (hU3 u (by simp))
    · intro x hx
      have hx' : x ∈ rt.rows ++ [Row.mk rt.rows.length 0 0 (cols.map (item r.vals))] := hx
      rcases mem_append.mp hx' with h | h
      · exact hlens x h
      · simp at h; rw [h]; simp
  | dup x jj =>
    rw [hs] at hU
    obtain ⟨hU1, i, u', row, _, hget, hrow, _, hk, _⟩ := hU
    have e : uAddAll vis acc (rt.rows ++ [Row.mk rt.rows.length 0 0 (cols.map (item r.vals))]) rt.rows.length .none 0 [u] =
        ((uAddAll vis acc (rt.rows ++ [Row.mk rt.rows.length 0 0 (cols.map (item r.vals))]) rt.rows.length .none 0 [u]).1, Stop.dup x jj) := by
      rw [← hs]
    rw [e]
    simp only [map_nil]
    rw [hU1]
    have hu' : u' = u := by
      cases i with
      | zero => simp at hget; exact hget.symm
      | succ i => simp at hget
    rw [hu'] at hk
    have hyes : (rt.rows.map (·.vals)).contains (cols.map (item r.vals)) = true := by
      simp only [contains_iff_mem, mem_map]
      exact ⟨row, hrow, ((hkey row hrow).mp hk).symm⟩
    rw [hyes]
    simp only [if_true]
    exact ⟨⟨hids, ⟨u, rfl, hu2, hu3⟩, rfl, hlens⟩, trivial⟩
  | fault =>
    rw [hs] at hU
    exact absurd rfl hU.2

/-- **`ProjectDistinct`** = the first occurrence of every projected tuple, in table order -/
theorem project_distinct (t : Table) (cols : List Nat) (filt : Row → Bool) :
    project vis acc t cols true filt = dedupFirst [] ((t.rows.filter filt).map (fun r => cols.map (item r.vals))) := by
  unfold project
  simp only [if_true]
  suffices h : ∀ (l : List Row) (rt : Table), ProjInv acc cols.length rt →
      (l.foldl (projectStep vis acc cols true) rt).rows.map (·.vals) =
        dedupFirst (rt.rows.map (·.vals)) (l.map (fun r => cols.map (item r.vals))) by
    rw [h]
    · rfl
    · exact ⟨rfl, ⟨_, rfl, ⟨nodup_range, ⟨rfl, rfl⟩, by simp [ids], by simp, by simp [ids]⟩, rfl⟩, rfl, by simp⟩
  intro l
  induction l with
  | nil => intro rt _; rfl
  | cons r rs ih =>
    intro rt hp
    obtain ⟨h1, h2⟩ := projectStep_distinct hc acc cols rt hp r
    rw [foldl_cons, ih _ h1, h2, map_cons]
    by_cases hcn : (rt.rows.map (·.vals)).contains (cols.map (item r.vals)) = true
    · rw [if_pos hcn]
      conv_rhs => rw [dedupFirst]
      rw [if_pos hcn]
    · rw [if_neg hcn]
      conv_rhs => rw [dedupFirst]
      rw [if_neg hcn]

end projectD
end Momo.Table
