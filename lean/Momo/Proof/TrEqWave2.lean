import Momo.Proof.TrEqWave2Tree
import Momo.Proof.TrEqWave2Pool
import Momo.Proof.TrEqWave2Bucket
import Momo.Proof.TrEqWave2Seg
import Momo.Proof.TrEqWave2Arr
import Momo.Proof.TrEqWave2MMap
import Momo.Proof.TrEqWave2Col
/-!
  Second wave of the T1b translator (tools/trspecs/Wave2.py → lean/Momo/Translated/Wave2.lean, tools/trspecs/Wave2Meta.py →
  lean/Momo/Translated/Wave2Meta.lean): the equivalence proofs are split by property so that a changed function body only breaks
  the property it belongs to:
    * `TrEqWave2Tree`   — C02: details/TreeNode.h capacities / pool indexes, TreeSet.h pvAdd / GrowLeafNode / pvSplitNode sizes,
                          pvRebalance tests, the binary-search loop of pvFindFirst
    * `TrEqWave2Pool`   — C09: MemPool.h `MemPoolUInt32` (constructor, GetRealPointer, pvGetBufferSize, pvNewBuffer, Deallocate test)
    * `TrEqWave2Bucket` — C12: details/HashBucketLimP4.h `AddCrt` metadata writes, all five paths (area Wave2Meta)
    * `TrEqWave2Seg`    — C16: SegmentedArray.h capacity arithmetic of the container
    * `TrEqWave2Arr`    — C05: Array.h capacity tests (Data::GetCapacity / Reallocate / Reset, Reserve, Shrink)
    * `TrEqWave2MMap`   — C08: details/ArrayBucket.h branch tests of AddBackCrt / RemoveBack
    * `TrEqWave2Col`    — C18: DataColumn.h `pvGetOffset` as a whole
  Each `Props/Cxx.lean` imports only its own file; this module just collects them.
-/
