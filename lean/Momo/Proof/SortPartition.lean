import Momo.Proof.SortRadix
/-!
  C17 lemmas, part 10: the in-place partition of `RadixSorter` (the 5-argument `pvRadixSort`,
  RadixSorter.h:184-208, a cycle-leader / "American flag" permutation) meets `PartSpec`: every swap target lies
  inside the range, the loops terminate, and the result is the range in non-decreasing radix order.
-/
namespace Momo.Sort
variable {σ α : Type}

/-! ### sums of counters -/

def sumTo (g : Nat → Nat) : Nat → Nat
  | 0 => 0
  | n + 1 => sumTo g n + g n

theorem sumTo_le {a b : Nat → Nat} : ∀ (n : Nat), (∀ q, q < n → a q ≤ b q) → sumTo a n ≤ sumTo b n := by
  intro n
  induction n with
  | zero => intro _; exact Nat.le_refl _
  | succ n ih =>
    intro h
    have := ih (fun q hq => h q (by omega))
    have := h n (by omega)
    simp only [sumTo]; omega

theorem sumTo_update {a a' : Nat → Nat} (r : Nat) (h : ∀ q, a' q = if q = r then a r + 1 else a q) :
    ∀ (n : Nat), sumTo a' n = sumTo a n + (if r < n then 1 else 0) := by
  intro n
  induction n with
  | zero => simp [sumTo]
  | succ n ih =>
    simp only [sumTo, ih, h n]
    by_cases h1 : r < n
    · have : ¬ n = r := by omega
      have h2 : r < n + 1 := by omega
      simp [h1, this, h2]; omega
    · by_cases h2 : n = r
      · subst h2; simp; omega
      · have : ¬ r < n + 1 := by omega
        simp [h1, h2, this]

theorem sumTo_shift {st cu : Nat → Nat} (h0 : st 0 = 0) (hs : ∀ q, st (q + 1) = cu q) :
    ∀ (n : Nat), sumTo st (n + 1) = sumTo cu n := by
  intro n
  induction n with
  | zero => simp [sumTo, h0]
  | succ n ih => rw [sumTo, ih, hs n]; rfl

/-! ### counting cells by key -/

section
variable (f : α × Nat → Nat)

/-- number of cells with key `≤ q` -/
def cumC (l : List (α × Nat)) (q : Nat) : Nat := l.countP fun x => decide (f x ≤ q)
/-- number of cells with key `< q` -/
def startC (l : List (α × Nat)) (q : Nat) : Nat := l.countP fun x => decide (f x < q)

/-- key of cell `i` (0 outside) -/
def ky (l : List (α × Nat)) (i : Nat) : Nat := ((l[i]?).map f).getD 0

theorem ky_eq {l : List (α × Nat)} {i : Nat} (hi : i < l.length) : ky f l i = f (l[i]'hi) := by
  simp [ky, List.getElem?_eq_getElem hi]

theorem ky_swapL (l : List (α × Nat)) (i j k : Nat) (hi : i < l.length) (hj : j < l.length) :
    ky f (swapL l i j) k = if k = j then ky f l i else if k = i then ky f l j else ky f l k := by
  simp only [ky, swapL_getElem? l i j k hi hj]
  split
  · rfl
  · split <;> rfl

theorem startC_zero (l : List (α × Nat)) : startC f l 0 = 0 := by simp [startC]

theorem startC_succ (l : List (α × Nat)) (q : Nat) : startC f l (q + 1) = cumC f l q := countP_lt_succ l f q

theorem startC_le_cumC (l : List (α × Nat)) (q : Nat) : startC f l q ≤ cumC f l q := by
  unfold startC cumC
  apply List.countP_mono_left
  intro x _ h
  simp only [decide_eq_true_eq] at h ⊢
  omega

theorem cumC_le_startC (l : List (α × Nat)) {q q' : Nat} (h : q < q') : cumC f l q ≤ startC f l q' := by
  unfold startC cumC
  apply List.countP_mono_left
  intro x _ hx
  simp only [decide_eq_true_eq] at hx ⊢
  omega

theorem cumC_le_length (l : List (α × Nat)) (q : Nat) : cumC f l q ≤ l.length := List.countP_le_length

theorem cumC_sub (l : List (α × Nat)) (q : Nat) :
    cumC f l q = startC f l q + l.countP (fun x => f x == q) := by
  unfold cumC startC
  rw [countP_le_eq, List.countP_eq_length_filter (p := fun x => f x == q)]

theorem cumC_last (l : List (α × Nat)) (n : Nat) (h : ∀ x ∈ l, f x < n + 1) : cumC f l n = l.length := by
  unfold cumC
  rw [List.countP_eq_length]
  intro x hx
  have := h x hx
  simp only [decide_eq_true_eq]; omega

/-- the buckets' index ranges are disjoint -/
theorem region_disjoint (l : List (α × Nat)) {q1 q2 i1 i2 : Nat} (hne : q1 ≠ q2)
    (h1 : startC f l q1 ≤ i1) (h1' : i1 < cumC f l q1) (h2 : startC f l q2 ≤ i2) (h2' : i2 < cumC f l q2) : i1 ≠ i2 := by
  rcases Nat.lt_or_gt_of_ne hne with h | h
  · have := cumC_le_startC f l h; omega
  · have := cumC_le_startC f l h; omega

/-- if all of `[a, b)` and one more cell `p` have key `q` then there are more than `b - a` such cells -/
theorem count_ge (l : List (α × Nat)) (q a b p : Nat) (hab : a ≤ b) (hb : b ≤ l.length)
    (hall : ∀ i, a ≤ i → i < b → ky f l i = q) (hp : p < l.length) (hout : p < a ∨ b ≤ p) (hpq : ky f l p = q) :
    b - a + 1 ≤ l.countP (fun x => f x == q) := by
  have e1 : l = l.take a ++ ((l.drop a).take (b - a) ++ l.drop b) := by
    have : l.drop b = (l.drop a).drop (b - a) := by rw [List.drop_drop]; congr 1; omega
    rw [this, List.take_append_drop, List.take_append_drop]
  have hmid : ((l.drop a).take (b - a)).countP (fun x => f x == q) = b - a := by
    have hl : ((l.drop a).take (b - a)).length = b - a := by simp; omega
    have hall' : ((l.drop a).take (b - a)).countP (fun x => f x == q) = ((l.drop a).take (b - a)).length := by
      rw [List.countP_eq_length]
      intro x hx
      obtain ⟨i, hi, rfl⟩ := List.mem_iff_getElem.1 hx
      rw [hl] at hi
      have := hall (a + i) (by omega) (by omega)
      rw [ky_eq f (by omega)] at this
      simp only [List.getElem_take, List.getElem_drop, beq_iff_eq]
      exact this
    rw [hall', hl]
  have hpx : f (l[p]'hp) = q := by rw [← ky_eq f hp]; exact hpq
  rw [e1, List.countP_append, List.countP_append, hmid]
  rcases hout with h | h
  · have : 0 < (l.take a).countP (fun x => f x == q) := by
      rw [List.countP_pos_iff]
      refine ⟨l[p]'hp, ?_, by simpa using hpx⟩
      apply List.mem_iff_getElem.2
      exact ⟨p, by simp; omega, by simp⟩
    omega
  · have : 0 < (l.drop b).countP (fun x => f x == q) := by
      rw [List.countP_pos_iff]
      refine ⟨l[p]'hp, ?_, by simpa using hpx⟩
      apply List.mem_iff_getElem.2
      exact ⟨p - b, by simp; omega, by simp [show b + (p - b) = p by omega]⟩
    omega

end

/-! ### the invariant of the cycle-leader loops -/

/-- `l` is the current arrangement of the range `seg`, `B` the current `beginIndexes`: each bucket's
cursor lies inside the bucket and everything before a cursor already has the bucket's key -/
structure PInv (f : α × Nat → Nat) (N : Nat) (seg l : List (α × Nat)) (B : Array Nat) : Prop where
  perm : l.Perm seg
  size : B.size = N
  lo : ∀ q, q < N → startC f seg q ≤ cnt B q
  hi : ∀ q, q < N → cnt B q ≤ cumC f seg q
  placed : ∀ q, q < N → ∀ i, startC f seg q ≤ i → i < cnt B q → ky f l i = q

section
variable {f : α × Nat → Nat} {N : Nat} {seg l : List (α × Nat)} {B : Array Nat}

theorem PInv.count_eq (h : PInv f N seg l B) (q : Nat) :
    l.countP (fun x => f x == q) = cumC f seg q - startC f seg q := by
  rw [h.perm.countP_eq, cumC_sub]; omega

/-- the cell under bucket `r`'s cursor belongs to a bucket that still has room -/
theorem PInv.room (h : PInv f N seg l B) (hkeys : ∀ x ∈ seg, f x < N) {r : Nat} (hr : r < N)
    (hbi : cnt B r < cumC f seg r) (hne : ky f l (cnt B r) ≠ r) :
    ky f l (cnt B r) < N ∧ cnt B (ky f l (cnt B r)) < cumC f seg (ky f l (cnt B r)) := by
  have hlen : l.length = seg.length := h.perm.length_eq
  have hbl : cnt B r < l.length := by have := cumC_le_length f seg r; omega
  have hqN : ky f l (cnt B r) < N := by
    rw [ky_eq f hbl]
    exact hkeys _ (h.perm.mem_iff.1 (List.getElem_mem hbl))
  refine ⟨hqN, ?_⟩
  apply Decidable.byContradiction
  intro hfull
  have hfull' : cnt B (ky f l (cnt B r)) = cumC f seg (ky f l (cnt B r)) := by
    have := h.hi _ hqN; omega
  have hout : cnt B r < startC f seg (ky f l (cnt B r)) ∨ cumC f seg (ky f l (cnt B r)) ≤ cnt B r := by
    rcases Nat.lt_or_gt_of_ne hne with hlt | hgt
    · right; have := cumC_le_startC f seg hlt; have := h.lo r hr; omega
    · left; have := cumC_le_startC f seg hgt; omega
  have := count_ge f l (ky f l (cnt B r)) (startC f seg _) (cumC f seg _) (cnt B r) (startC_le_cumC f seg _)
    (by rw [hlen]; exact cumC_le_length f seg _)
    (fun i h1 h2 => h.placed _ hqN i h1 (by omega)) hbl hout rfl
  rw [h.count_eq] at this
  omega

end

section
variable {M : Mem σ α} {abs : σ → List (α × Nat)} {ok : σ → Prop} (L : Lawful M abs ok)
  (pre post : List (α × Nat)) (R shift : Nat) (seg : List (α × Nat))
include L

theorem partInner_spec (r : Nat) (hr : r < 2 ^ R) :
    ∀ (fuel : Nat) (s : σ) (l : List (α × Nat)) (B : Array Nat),
      PInv (rad R shift) (2 ^ R) seg l B → Holds abs ok s (pre ++ l ++ post) →
      sumTo (cumC (rad R shift) seg) (2 ^ R) - sumTo (cnt B) (2 ^ R) < fuel →
      ∃ s' l' B', partInner M R pre.length shift r (cumC (rad R shift) seg r) fuel s B = some (s', B') ∧
        Holds abs ok s' (pre ++ l' ++ post) ∧ PInv (rad R shift) (2 ^ R) seg l' B' ∧
        cnt B' r = cumC (rad R shift) seg r ∧ ∀ q, q < 2 ^ R → cnt B q ≤ cnt B' q := by
  have hkeys : ∀ x ∈ seg, rad R shift x < 2 ^ R := fun x _ => getRadix_lt _ _ _
  intro fuel
  induction fuel with
  | zero => intro s l B _ _ h; omega
  | succ fu ih =>
    intro s l B hinv hh hfuel
    unfold partInner
    have hBr : B[r]? = some (cnt B r) := by
      unfold cnt; rw [Array.getElem?_eq_getElem (by rw [hinv.size]; exact hr)]; rfl
    rw [hBr]
    simp only [Option.bind_some]
    by_cases hbi : cnt B r < cumC (rad R shift) seg r
    · simp only [hbi, if_true]
      have hlen : l.length = seg.length := hinv.perm.length_eq
      have hbl : cnt B r < l.length := by have := cumC_le_length (rad R shift) seg r; omega
      rw [L.code_at hh (cnt B r) hbl]
      simp only [Option.bind_some]
      have hky : getRadix R (l[cnt B r]'hbl).2 shift = ky (rad R shift) l (cnt B r) := by
        rw [ky_eq _ hbl]; rfl
      rw [hky]
      -- the measure strictly decreases with every increment that respects `hi`
      have hmeasure : ∀ (B' : Array Nat) (q : Nat), q < 2 ^ R →
          (∀ x, cnt B' x = if x = q then cnt B q + 1 else cnt B x) →
          (∀ x, x < 2 ^ R → cnt B' x ≤ cumC (rad R shift) seg x) →
          sumTo (cumC (rad R shift) seg) (2 ^ R) - sumTo (cnt B') (2 ^ R) < fu := by
        intro B' q hq hupd hhi
        have h1 := sumTo_update q hupd (2 ^ R)
        have h2 := sumTo_le (2 ^ R) hhi
        simp only [hq, if_true] at h1
        omega
      by_cases hne : ky (rad R shift) l (cnt B r) ≠ r
      · rw [if_pos hne]
        obtain ⟨hqN, hroom⟩ := hinv.room hkeys hr hbi hne
        -- abbreviations: q = key under the cursor, bj = cursor of bucket q
        have hBq : B[ky (rad R shift) l (cnt B r)]? = some (cnt B (ky (rad R shift) l (cnt B r))) := by
          unfold cnt; rw [Array.getElem?_eq_getElem (by rw [hinv.size]; exact hqN)]; rfl
        rw [hBq]
        simp only [Option.bind_some]
        have hbjl : cnt B (ky (rad R shift) l (cnt B r)) < l.length := by
          have := cumC_le_length (rad R shift) seg (ky (rad R shift) l (cnt B r)); omega
        obtain ⟨s', hs', hh'⟩ := L.swap_at hh (cnt B r) (cnt B (ky (rad R shift) l (cnt B r))) hbl hbjl
        rw [hs']
        simp only [Option.bind_some]
        obtain ⟨B', hB', hsz', hget'⟩ := incr_spec B (ky (rad R shift) l (cnt B r)) (by rw [hinv.size]; exact hqN)
        rw [hB']
        simp only [Option.bind_some]
        have hself : cnt B' (ky (rad R shift) l (cnt B r)) = cnt B (ky (rad R shift) l (cnt B r)) + 1 := by
          rw [hget']; simp
        have hother : ∀ x, x ≠ ky (rad R shift) l (cnt B r) → cnt B' x = cnt B x := by
          intro x hx; rw [hget']; simp [hx]
        have hmono : ∀ x, cnt B x ≤ cnt B' x := by
          intro x
          by_cases hx : x = ky (rad R shift) l (cnt B r)
          · rw [hx, hself]; omega
          · rw [hother x hx]; exact Nat.le_refl _
        have hinv' : PInv (rad R shift) (2 ^ R) seg (swapL l (cnt B r) (cnt B (ky (rad R shift) l (cnt B r)))) B' := by
          refine ⟨(swapL_perm _ _ _).trans hinv.perm, by rw [hsz', hinv.size], ?_, ?_, ?_⟩
          · intro x hx
            have := hinv.lo x hx
            have := hmono x
            omega
          · intro x hx
            by_cases hxq : x = ky (rad R shift) l (cnt B r)
            · rw [hxq, hself]; omega
            · rw [hother x hxq]; exact hinv.hi x hx
          · intro q' hq' i hi1 hi2
            rw [ky_swapL _ l _ _ i hbl hbjl]
            rw [hget'] at hi2
            by_cases hib : i = cnt B (ky (rad R shift) l (cnt B r))
            · -- the freshly placed cell
              simp only [hib, if_true]
              by_cases hqq : q' = ky (rad R shift) l (cnt B r)
              · exact hqq.symm
              · exfalso
                simp only [hqq, if_false] at hi2
                have := hinv.hi q' hq'
                exact region_disjoint (rad R shift) seg hqq hi1 (by omega) (hinv.lo _ hqN) hroom hib
            · simp only [hib, if_false]
              have hi2' : i < cnt B q' := by
                by_cases hqq : q' = ky (rad R shift) l (cnt B r)
                · simp only [hqq, if_true] at hi2; rw [hqq]; omega
                · simpa [hqq] using hi2
              have hir : ¬ i = cnt B r := by
                by_cases hqr : q' = r
                · subst hqr; omega
                · have := hinv.hi q' hq'
                  exact region_disjoint (rad R shift) seg hqr hi1 (by omega) (hinv.lo r hr) hbi
              simp only [hir, if_false]
              exact hinv.placed q' hq' i hi1 hi2'
        obtain ⟨s'', l'', B'', g1, g2, g3, g4, g5⟩ := ih s' _ B' hinv' hh' (hmeasure B' _ hqN hget' hinv'.hi)
        refine ⟨s'', l'', B'', g1, g2, g3, g4, ?_⟩
        intro x hx
        have := g5 x hx
        have := hmono x
        omega
      · rw [if_neg hne]
        have hkr : ky (rad R shift) l (cnt B r) = r := Decidable.not_not.mp hne
        obtain ⟨B', hB', hsz', hget'⟩ := incr_spec B r (by rw [hinv.size]; exact hr)
        rw [hB']
        simp only [Option.bind_some]
        have hself : cnt B' r = cnt B r + 1 := by
          rw [hget']; simp
        have hother : ∀ x, x ≠ r → cnt B' x = cnt B x := by
          intro x hx; rw [hget']; simp [hx]
        have hmono : ∀ x, cnt B x ≤ cnt B' x := by
          intro x
          by_cases hx : x = r
          · rw [hx, hself]; omega
          · rw [hother x hx]; exact Nat.le_refl _
        have hinv' : PInv (rad R shift) (2 ^ R) seg l B' := by
          refine ⟨hinv.perm, by rw [hsz', hinv.size], ?_, ?_, ?_⟩
          · intro x hx
            have := hinv.lo x hx
            have := hmono x
            omega
          · intro x hx
            by_cases hxq : x = r
            · rw [hxq, hself]; omega
            · rw [hother x hxq]; exact hinv.hi x hx
          · intro q' hq' i hi1 hi2
            rw [hget'] at hi2
            by_cases hqr : q' = r
            · subst hqr
              simp only [if_true] at hi2
              by_cases hib : i = cnt B q'
              · rw [hib]; exact hkr
              · exact hinv.placed q' hq' i hi1 (by omega)
            · simp only [hqr, if_false] at hi2
              exact hinv.placed q' hq' i hi1 hi2
        obtain ⟨s'', l'', B'', g1, g2, g3, g4, g5⟩ := ih s l B' hinv' hh (hmeasure B' r hr hget' hinv'.hi)
        refine ⟨s'', l'', B'', g1, g2, g3, g4, ?_⟩
        intro x hx
        have := g5 x hx
        have := hmono x
        omega
    · simp only [hbi, if_false]
      refine ⟨s, l, B, rfl, hh, hinv, ?_, fun q _ => Nat.le_refl _⟩
      have := hinv.hi r hr
      omega

end

/-! ### the outer loop and the final arrangement -/

/-- every index lies in some bucket's index range -/
theorem bucket_of_index (f : α × Nat → Nat) (l : List (α × Nat)) (i : Nat) :
    ∀ (m : Nat), i < cumC f l m → ∃ q, q ≤ m ∧ startC f l q ≤ i ∧ i < cumC f l q := by
  intro m
  induction m with
  | zero => intro h; exact ⟨0, Nat.le_refl _, by rw [startC_zero]; omega, h⟩
  | succ m ih =>
    intro h
    by_cases hm : i < cumC f l m
    · obtain ⟨q, h1, h2, h3⟩ := ih hm
      exact ⟨q, by omega, h2, h3⟩
    · exact ⟨m + 1, Nat.le_refl _, by rw [startC_succ]; omega, h⟩

/-- when every bucket's index range holds only cells of that bucket, the list is in key order -/
theorem sorted_of_placed (f : α × Nat → Nat) (l : List (α × Nat)) (N : Nat) (hkeys : ∀ x ∈ l, f x < N + 1)
    (h : ∀ q, q < N + 1 → ∀ i, startC f l q ≤ i → i < cumC f l q → ky f l i = q) :
    l.Pairwise (fun x y => f x ≤ f y) := by
  rw [List.pairwise_iff_getElem]
  intro i j hi hj hij
  have hlast := cumC_last f l N hkeys
  obtain ⟨qi, a1, a2, a3⟩ := bucket_of_index f l i N (by omega)
  obtain ⟨qj, b1, b2, b3⟩ := bucket_of_index f l j N (by omega)
  have e1 := h qi (by omega) i a2 a3
  have e2 := h qj (by omega) j b2 b3
  rw [ky_eq f hi] at e1
  rw [ky_eq f hj] at e2
  rw [e1, e2]
  apply Decidable.byContradiction
  intro hlt
  have := cumC_le_startC f l (show qj < qi by omega)
  omega

section
variable {M : Mem σ α} {abs : σ → List (α × Nat)} {ok : σ → Prop} (L : Lawful M abs ok)
  (pre post : List (α × Nat)) (R shift : Nat) (seg : List (α × Nat)) (E : Array Nat)
  (hEsz : E.size = 2 ^ R) (hEcnt : ∀ q, q < 2 ^ R → cnt E q = cumC (rad R shift) seg q)
include L hEsz hEcnt

theorem partOuter_spec :
    ∀ (n r : Nat) (s : σ) (l : List (α × Nat)) (B : Array Nat), r + n = 2 ^ R →
      PInv (rad R shift) (2 ^ R) seg l B → Holds abs ok s (pre ++ l ++ post) →
      (∀ q, q < r → cnt B q = cumC (rad R shift) seg q) →
      ∃ s' l' B', partOuter M R pre.length shift seg.length E n r s B = some s' ∧
        Holds abs ok s' (pre ++ l' ++ post) ∧ PInv (rad R shift) (2 ^ R) seg l' B' ∧
        ∀ q, q < 2 ^ R → cnt B' q = cumC (rad R shift) seg q := by
  intro n
  induction n with
  | zero =>
    intro r s l B hrn hinv hh hdone
    exact ⟨s, l, B, rfl, hh, hinv, fun q hq => hdone q (by omega)⟩
  | succ n ih =>
    intro r s l B hrn hinv hh hdone
    unfold partOuter
    have hr : r < 2 ^ R := by omega
    have hEr : E[r]? = some (cumC (rad R shift) seg r) := by
      have := hEcnt r hr
      unfold cnt at this
      rw [Array.getElem?_eq_getElem (by omega)] at this ⊢
      simp at this
      rw [this]
    rw [hEr]
    simp only [Option.bind_some]
    -- the fuel `count + 1` exceeds the number of increments still possible
    have hfuel : sumTo (cumC (rad R shift) seg) (2 ^ R) - sumTo (cnt B) (2 ^ R) < seg.length + 1 := by
      obtain ⟨N, hN⟩ : ∃ N, 2 ^ R = N + 1 := ⟨2 ^ R - 1, by omega⟩
      rw [hN]
      have h1 : sumTo (cumC (rad R shift) seg) (N + 1) = sumTo (startC (rad R shift) seg) (N + 1) + seg.length := by
        rw [sumTo, sumTo_shift (startC_zero _ seg) (startC_succ _ seg) N,
          cumC_last (rad R shift) seg N (fun x _ => by rw [← hN]; exact getRadix_lt _ _ _)]
      have h2 := sumTo_le (a := startC (rad R shift) seg) (b := cnt B) (N + 1) (fun q hq => hinv.lo q (by omega))
      omega
    obtain ⟨s', l', B', g1, g2, g3, g4, g5⟩ := partInner_spec L pre post R shift seg r hr (seg.length + 1) s l B hinv hh hfuel
    rw [g1]
    simp only [Option.bind_some]
    apply ih (r + 1) s' l' B' (by omega) g3 g2
    intro q hq
    by_cases hqr : q = r
    · rw [hqr]; exact g4
    · have h1 := hdone q (by omega)
      have h2 := g5 q (by omega)
      have h3 := g3.hi q (by omega)
      omega

end

/-- **the in-place partition meets its contract** -/
theorem partition_spec {M : Mem σ α} {abs : σ → List (α × Nat)} {ok : σ → Prop} (L : Lawful M abs ok) (R : Nat) :
    PartSpec abs ok R (partition M R) := by
  intro s pre seg post shift E hh hEsz hEcnt
  unfold partition
  have hpos : 0 < 2 ^ R := Nat.pos_of_ne_zero (by simp)
  have hB : ∀ q, q < 2 ^ R → cnt (beginIndexes E) q = startC (rad R shift) seg q := by
    intro q hq
    unfold cnt beginIndexes
    rw [Array.getElem?_append]
    by_cases h0 : q = 0
    · subst h0; simp [startC_zero]
    · have : ¬ q < (#[0] : Array Nat).size := by simp; omega
      simp only [this, if_false]
      rw [Array.getElem?_pop]
      have h1 : q - (#[0] : Array Nat).size = q - 1 := by simp
      have h2 : q - 1 < E.size - 1 := by omega
      rw [h1]
      simp only [h2, if_true]
      have := hEcnt (q - 1) (by omega)
      unfold cnt at this
      rw [this]
      have := startC_succ (rad R shift) seg (q - 1)
      rw [show q - 1 + 1 = q by omega] at this
      unfold cumC at this
      exact this.symm
  have hinv : PInv (rad R shift) (2 ^ R) seg seg (beginIndexes E) := by
    refine ⟨List.Perm.refl _, ?_, ?_, ?_, ?_⟩
    · unfold beginIndexes; simp; omega
    · intro q hq; rw [hB q hq]; exact Nat.le_refl _
    · intro q hq; rw [hB q hq]; exact startC_le_cumC _ _ _
    · intro q hq i h1 h2; rw [hB q hq] at h2; omega
  obtain ⟨s', l', B', g1, g2, g3, g4⟩ := partOuter_spec L pre post R shift seg E hEsz
    (fun q hq => by rw [hEcnt q hq]; rfl) (2 ^ R) 0 s seg (beginIndexes E) (by omega) hinv hh (fun q hq => by omega)
  refine ⟨s', l', g1, g2, g3.perm, ?_⟩
  obtain ⟨N, hN⟩ : ∃ N, 2 ^ R = N + 1 := ⟨2 ^ R - 1, by omega⟩
  apply sorted_of_placed (rad R shift) l' N (fun x _ => by rw [← hN]; exact getRadix_lt _ _ _)
  intro q hq i h1 h2
  have e1 : startC (rad R shift) l' q = startC (rad R shift) seg q := g3.perm.countP_eq _
  have e2 : cumC (rad R shift) l' q = cumC (rad R shift) seg q := g3.perm.countP_eq _
  rw [e1] at h1
  rw [e2] at h2
  exact g3.placed q (by omega) i h1 (by rw [g4 q (by omega)]; exact h2)

end Momo.Sort
