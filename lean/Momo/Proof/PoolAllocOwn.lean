import Momo.Proof.PoolAllocCont
/-!
  C20, layer C: a container touches only its own pool and its own blocks; freeing an owned block and the
  final destructor call always succeed; a pool without entities has nothing left in the ledger.
-/
namespace Momo.PoolAlloc

/-- what the operations of entity `e` (allocator -> pool `p`) may change between `cs` and `cs'` -/
structure Frame (e p : Nat) (cs cs' : CSys) : Prop where
  pools : ∀ j, j ≠ p → cs'.sys.pools[j]? = cs.sys.pools[j]?
  keep : ∀ b ∈ cs.sys.blocks, cs.own b.id ≠ e → b ∈ cs'.sys.blocks ∧ cs'.own b.id = cs.own b.id
  fresh : ∀ b ∈ cs'.sys.blocks, (b ∈ cs.sys.blocks ∧ cs'.own b.id = cs.own b.id) ∨ (b.pid = p ∧ cs'.own b.id = e)
  base : ∀ x : Base, x.pid ≠ p → (x ∈ cs'.sys.base ↔ x ∈ cs.sys.base)

theorem Frame.refl (e p : Nat) (cs : CSys) : Frame e p cs cs :=
  ⟨fun _ _ => rfl, fun _ hb _ => ⟨hb, rfl⟩, fun _ hb => Or.inl ⟨hb, rfl⟩, fun _ _ => Iff.rfl⟩

theorem Frame.trans {e p : Nat} {a b c : CSys} (h1 : Frame e p a b) (h2 : Frame e p b c) : Frame e p a c := by
  refine ⟨fun j hj => (h2.pools j hj).trans (h1.pools j hj), ?_, ?_, fun x hx => (h2.base x hx).trans (h1.base x hx)⟩
  · intro x hx hne
    obtain ⟨hxb, hob⟩ := h1.keep x hx hne
    obtain ⟨hxc, hoc⟩ := h2.keep x hxb (by rw [hob]; exact hne)
    exact ⟨hxc, hoc.trans hob⟩
  · intro x hx
    rcases h2.fresh x hx with ⟨hxb, ho⟩ | h
    · rcases h1.fresh x hxb with ⟨hxa, ho'⟩ | ⟨hp, ho'⟩
      · exact Or.inl ⟨hxa, ho.trans ho'⟩
      · exact Or.inr ⟨hp, ho.trans ho'⟩
    · exact Or.inr h

theorem actStep_frame {cs : CSys} (hc : CInv cs) (e p : Nat) (a : Act) (h0 : cs.sys.err = none)
    (hok : (actStep e p cs a).sys.err = none) : Frame e p cs (actStep e p cs a) := by
  cases a with
  | alloc cls n id mallocs =>
    simp only [actStep] at hok ⊢
    rw [step_eq_of_ok h0] at hok ⊢
    simp only at hok ⊢
    obtain ⟨st, prov, _, hfresh, hblocks, hother, _⟩ := doAlloc_ok hok
    refine ⟨hother, ?_, ?_, fun x hx => doAlloc_base_other _ _ _ _ _ _ x hx⟩
    · intro b hb _
      refine ⟨by rw [hblocks]; exact List.mem_cons_of_mem _ hb, ?_⟩
      simp only [hfresh b hb, if_false]
    · intro b hb
      rw [hblocks] at hb
      rcases List.mem_cons.mp hb with rfl | hb
      · right; exact ⟨rfl, by simp⟩
      · left; exact ⟨hb, by simp only [hfresh b hb, if_false]⟩
  | free id frees =>
    simp only [actStep] at hok ⊢
    cases hf : cs.sys.blocks.find? (fun b => b.id == id) with
    | none => simp only [hf] at hok; rw [cfail_err cs h0] at hok; cases hok
    | some b =>
      simp only [hf] at hok ⊢
      obtain ⟨hbm, hbid⟩ := find_id_mem hf
      by_cases ho : cs.own id = e
      · rw [if_pos ho] at hok ⊢
        simp only at hok ⊢
        rw [step_eq_of_ok h0] at hok ⊢
        simp only at hok ⊢
        obtain ⟨st, b', _, _, _, _, hblocks, hother, _⟩ := doDealloc_ok hok
        refine ⟨hother, ?_, ?_, fun x hx => doDealloc_base_other _ _ _ _ _ _ x hx⟩
        · intro x hx hne
          refine ⟨?_, rfl⟩
          rw [hblocks]
          refine List.mem_filter.mpr ⟨hx, ?_⟩
          have : x.id ≠ id := by
            intro h; apply hne; rw [h]; exact ho
          simpa using this
        · intro x hx
          rw [hblocks] at hx
          exact Or.inl ⟨(List.mem_filter.mp hx).1, rfl⟩
      · rw [if_neg ho] at hok; rw [cfail_err cs h0] at hok; cases hok

/-- **a container touches only its own pool and its own blocks** -/
theorem acts_frame {cs : CSys} (hc : CInv cs) {e p : Nat} {en : Ent} (hen : en ∈ cs.ents) (he : en.eid = e)
    (hp : en.pid = p) (acts : List Act) (h0 : cs.sys.err = none)
    (hok : (acts.foldl (actStep e p) cs).sys.err = none) : Frame e p cs (acts.foldl (actStep e p) cs) := by
  induction acts generalizing cs with
  | nil => exact Frame.refl e p cs
  | cons a acts ih =>
    rw [List.foldl_cons] at hok ⊢
    cases h1 : (actStep e p cs a).sys.err with
    | some er => rw [acts_of_err h1, h1] at hok; cases hok
    | none =>
      exact Frame.trans (actStep_frame hc e p a h0 h1)
        (ih (actStep_cinv hc hen he hp a h0 h1) (by rw [actStep_ents]; exact hen) h1 hok)

/-- the pool of a live entity has an owner -/
theorem ent_pool_live {cs : CSys} (hc : CInv cs) {en : Ent} (hen : en ∈ cs.ents) :
    ∃ st, livePool cs.sys en.pid = some st ∧ 1 ≤ st.refs := by
  obtain ⟨st, hst⟩ := hc.entPool en hen
  have hr := hc.refs _ st hst
  have hpos : 0 < cs.ents.countP (fun x => x.pid == en.pid) :=
    List.countP_pos_iff.mpr ⟨en, hen, by simp⟩
  refine ⟨st, livePool_eq_some.mpr ⟨hst, ?_⟩, by omega⟩
  cases hd : st.dead with
  | false => rfl
  | true => have := (hc.inv.refs _ st hst).mp hd; omega

/-- two different live entities on one pool: at least two owners -/
theorem two_ents_refs {cs : CSys} (hc : CInv cs) {x y : Ent} (hx : x ∈ cs.ents) (hy : y ∈ cs.ents) (hne : x.eid ≠ y.eid)
    (hp : x.pid = y.pid) {st : PoolSt} (hst : cs.sys.pools[y.pid]? = some st) : 2 ≤ st.refs := by
  have hcf := countP_filter_key (·.eid) hc.nodupE hy (fun z => z.pid == y.pid)
  have hpos : 0 < (cs.ents.filter (fun z => z.eid != y.eid)).countP (fun z => z.pid == y.pid) :=
    List.countP_pos_iff.mpr ⟨x, List.mem_filter.mpr ⟨hx, by simpa using hne⟩, by simp [hp]⟩
  rw [hc.refs _ st hst]
  simp at hcf
  omega

/-- **freeing a block it holds always succeeds** (unless a single object was served raw earlier): the block goes back
    through the allocator of its holder, to the pool or the raw memory it came from -/
theorem owner_free_succeeds {cs : CSys} (hc : CInv cs) (h0 : cs.sys.err = none) (hrs : cs.sys.rawSingle = false)
    {en : Ent} (hen : en ∈ cs.ents) {b : Block} (hb : b ∈ cs.sys.blocks) (ho : cs.own b.id = en.eid) (frees : List Nat) :
    (actStep en.eid en.pid cs (.free b.id frees)).sys.err = none := by
  have hfind : cs.sys.blocks.find? (fun x => x.id == b.id) = some b := by
    cases hf : cs.sys.blocks.find? (fun x => x.id == b.id) with
    | none =>
      rw [List.find?_eq_none] at hf
      exact absurd (by simp) (hf b hb)
    | some b' =>
      obtain ⟨hm, hid⟩ := find_id_mem hf
      rw [nodup_id_inj hc.inv.nodup hm hb hid]
  obtain ⟨x, hx, hx1, hx2⟩ := hc.owned b hb
  have hxe : x = en := key_inj (·.eid) hc.nodupE hx hen (by rw [hx1, ho])
  have hbp : b.pid = en.pid := by rw [← hx2, hxe]
  obtain ⟨st, hl, _⟩ := ent_pool_live hc hen
  obtain ⟨hst, _⟩ := livePool_eq_some.mp hl
  simp only [actStep, hfind, ho, if_true]
  rw [step_eq_of_ok h0]
  simp only [doDealloc, hl, hfind]
  have hill : ¬ (b.pid ≠ en.pid ∨ b.cls ≠ b.cls ∨ b.n ≠ b.n) := by simp [hbp]
  rw [if_neg hill]
  by_cases hpath : b.n = 1 ∧ b.cls = st.params
  · rw [if_pos hpath]
    cases hpr : b.prov with
    | pool q => exact h0
    | raw => exact absurd hpath.1 (hc.inv.rawN hrs b hb hpr)
  · rw [if_neg hpath]
    cases hpr : b.prov with
    | raw => exact h0
    | pool q =>
      exfalso
      obtain ⟨⟨a, ha, hap⟩, hcq, hn1⟩ := hc.inv.poolBlk b hb q hpr
      rw [hbp, hst] at ha
      have : a = st := (Option.some.inj ha).symm
      subst this
      exact hpath ⟨hn1, by rw [hcq, hap]⟩

/-- **the destructor call of an entity that holds nothing always succeeds**; when it is the last owner, the
    pool has no live block and `GetAllocateCount() == 0` -/
theorem drop_succeeds {cs : CSys} (hc : CInv cs) (h0 : cs.sys.err = none) {en : Ent} (hen : en ∈ cs.ents)
    (hnone : ownsNone cs en.eid = true) : (step cs.sys (.adrop en.pid)).err = none := by
  obtain ⟨st, hl, hr1⟩ := ent_pool_live hc hen
  obtain ⟨hst, _⟩ := livePool_eq_some.mp hl
  rw [step_eq_of_ok h0]
  simp only [doDrop, hl]
  by_cases h2 : 2 ≤ st.refs
  · rw [if_pos h2]; exact h0
  · rw [if_neg h2]
    have hno := ownsNone_iff.mp hnone
    have hnb : ∀ b ∈ cs.sys.blocks, b.pid ≠ en.pid := by
      intro b hb hbp
      obtain ⟨x, hx, hx1, hx2⟩ := hc.owned b hb
      have hne : x.eid ≠ en.eid := by rw [hx1]; exact hno b hb
      have := two_ents_refs hc hx hen hne (hx2.trans hbp) hst
      omega
    have hany : ¬ ((cs.sys.blocks.any fun b => b.pid == en.pid) = true) := by
      simp only [List.any_eq_true, not_exists, not_and]
      intro b hb; simpa using hnb b hb
    rw [if_neg hany]
    have hcnt : ¬ (st.allocCount ≠ 0) := by
      intro hne; apply hne
      rw [hc.inv.count _ st hst]
      apply List.countP_eq_zero.mpr
      intro b hb hpb
      simp only [isPoolBlk, Bool.and_eq_true, beq_iff_eq] at hpb
      exact hnb b hb hpb.1
    rw [if_neg hcnt]; exact h0

/-- **a pool none of whose owners is left has nothing outstanding at the base allocator** -/
theorem no_entity_no_base {cs : CSys} (hc : CInv cs) (p : Nat) (hnoent : ∀ e ∈ cs.ents, e.pid ≠ p) :
    ∀ x ∈ cs.sys.base, x.pid ≠ p := by
  intro x hx hxp
  by_cases hk : x.kind = .raw
  · obtain ⟨b, hb, _, hbp, _⟩ := hc.inv.rawBase x hx hk
    obtain ⟨e, he, _, hep⟩ := hc.owned b hb
    exact hnoent e he (hep.trans (hbp.trans hxp))
  · obtain ⟨st, hst, hd⟩ := hc.inv.ownBase x hx hk
    rw [hxp] at hst
    have hr := hc.refs p st hst
    have h0 : cs.ents.countP (fun e => e.pid == p) = 0 := by
      apply List.countP_eq_zero.mpr
      intro e he; simpa using hnoent e he
    have := (hc.inv.refs p st hst).mpr (by omega)
    rw [hd] at this; cases this

/-- and it is dead: `~MemPool` has run -/
theorem no_entity_pool_dead {cs : CSys} (hc : CInv cs) (p : Nat) (hnoent : ∀ e ∈ cs.ents, e.pid ≠ p)
    {st : PoolSt} (hst : cs.sys.pools[p]? = some st) : st.dead = true ∧ st.refs = 0 := by
  have hr := hc.refs p st hst
  have h0 : cs.ents.countP (fun e => e.pid == p) = 0 := by
    apply List.countP_eq_zero.mpr
    intro e he; simpa using hnoent e he
  exact ⟨(hc.inv.refs p st hst).mpr (by omega), by omega⟩

end Momo.PoolAlloc
