import Momo.Proof.ArrShift
/-!
  C05, part 3 of the lemmas: capacity management of `Array::Data` (GrowCapacity, Reallocate, Reset, pvGrow) —
  relocation never changes a cell, the representation invariant `WF` is kept, the requested capacity is provided.
-/
namespace Momo.Arr
variable {α : Type}

/-! ### capacity management -/

theorem growCapacity_ge (g : Bool) (capacity minNew : Nat) (reserve linear : Bool) :
    minNew ≤ growCapacity g capacity minNew reserve linear := by
  unfold growCapacity
  split
  · exact Nat.le_refl _
  · exact Nat.le_max_right _ _

theorem reallocate_cells (cfg : Cfg) (s : State α) (lin exp : Nat) :
    (reallocate cfg s lin exp).2.1.cells = s.cells := by
  unfold reallocate
  repeat' split
  all_goals rfl

theorem reallocate_internal (cfg : Cfg) (s : State α) (lin exp : Nat) :
    (reallocate cfg s lin exp).2.1.internal = s.internal := by
  unfold reallocate
  repeat' split
  all_goals rfl

theorem reallocate_oracle (cfg : Cfg) (s : State α) (lin exp : Nat) :
    (reallocate cfg s lin exp).2.1.oracle = s.oracle := by
  unfold reallocate
  repeat' split
  all_goals rfl

theorem reset_cells (cfg : Cfg) (s : State α) (newCap : Nat) (newCells : Cells α) (h : newCap = 0 → newCells = []) :
    (reset cfg s newCap newCells).1.cells = newCells := by
  unfold reset
  split
  · rfl
  · split
    · rfl
    · have : newCap = 0 := by omega
      simp [h this]

theorem moveTo_cells (cfg : Cfg) (s : State α) (lin exp : Nat) (h : exp = 0 → s.cells = []) :
    (moveTo cfg s lin exp).1.cells = s.cells := by
  unfold moveTo
  split
  · exact reallocate_cells cfg s lin exp
  · exact reset_cells cfg s exp s.cells h

theorem grow_cells (cfg : Cfg) (s : State α) (minNew : Nat) (r : Bool) (h : 0 < minNew) :
    (grow cfg s minNew r).1.cells = s.cells := by
  unfold grow
  apply moveTo_cells
  intro h0
  have := growCapacity_ge cfg.growOnReserve (capacity cfg s) minNew r false
  omega

/-- an external buffer is strictly larger than the internal one, hence `GetCapacity() >= internalCapacity` -/
theorem WF.cap_ge {cfg : Cfg} {s : State α} (w : WF cfg s) : cfg.intCap ≤ capacity cfg s := by
  unfold capacity
  split
  · exact Nat.le_refl _
  · rename_i hi
    have hi' : s.internal = false := by simpa using hi
    by_cases h0 : s.cap = 0
    · have := w.null_only hi' h0; omega
    · have := w.ext_gt hi' h0; omega

theorem wf_with_cells {cfg : Cfg} {s : State α} (w : WF cfg s) (cs : Cells α) (h : cs.length ≤ capacity cfg s) :
    WF cfg { s with cells := cs } :=
  ⟨h, w.ext_gt, w.int_pos, w.null_only⟩

theorem wf_init (cfg : Cfg) : WF cfg (State.init cfg : State α) := by
  refine ⟨by simp [State.init], ?_, ?_, ?_⟩ <;> simp [State.init]

/-- `Data::Reset` establishes the invariant and provides the requested capacity -/
theorem reset_wf (cfg : Cfg) (s : State α) (newCap : Nat) (newCells : Cells α) (h : newCells.length ≤ newCap) :
    WF cfg (reset cfg s newCap newCells).1 ∧ newCap ≤ capacity cfg (reset cfg s newCap newCells).1 := by
  unfold reset
  split
  · rename_i h1
    refine ⟨⟨by simpa [capacity] using h, ?_, ?_, ?_⟩, by simp [capacity]⟩ <;> simp
    · intro _; exact h1
    · omega
  · split
    · rename_i h1 h2
      refine ⟨⟨by simp [capacity]; omega, ?_, ?_, ?_⟩, by simp [capacity]; omega⟩ <;> simp
      · exact h2
    · rename_i h1 h2
      refine ⟨⟨by simp [capacity], ?_, ?_, ?_⟩, by simp [capacity]; omega⟩ <;> simp
      · omega

/-- the two outcomes of `Data::Reallocate` -/
theorem reallocate_cases (cfg : Cfg) (s : State α) (lin exp : Nat) :
    ((reallocate cfg s lin exp).1 = false ∧ (reallocate cfg s lin exp).2.1 = s) ∨
    ((reallocate cfg s lin exp).1 = true ∧ s.internal = false ∧
      ∃ c, (c = lin ∨ c = exp) ∧ cfg.intCap < c ∧ (reallocate cfg s lin exp).2.1 = { s with cap := c }) := by
  unfold reallocate
  by_cases hc : capacity cfg s = cfg.intCap
  · rw [if_pos hc]; exact Or.inl ⟨rfl, rfl⟩
  rw [if_neg hc]
  have hint : s.internal = false := by
    cases hi : s.internal
    · rfl
    · simp [capacity, hi] at hc
  by_cases hle : (decide (lin ≤ cfg.intCap) || decide (exp ≤ cfg.intCap)) = true
  · rw [if_pos hle]; exact Or.inl ⟨rfl, rfl⟩
  rw [if_neg hle]
  simp only [Bool.or_eq_true, decide_eq_true_eq, not_or, Nat.not_le] at hle
  by_cases h3 : ((!cfg.canRealloc || decide (lin < exp)) && cfg.canInplace) = true
  · rw [if_pos h3]
    by_cases h4 : s.cap = lin
    · rw [if_pos h4]
      refine Or.inr ⟨rfl, hint, lin, Or.inl rfl, hle.1, ?_⟩
      cases s; simp_all
    · rw [if_neg h4]
      by_cases h5 : s.oracle = true
      · rw [if_pos h5]; exact Or.inr ⟨rfl, hint, lin, Or.inl rfl, hle.1, rfl⟩
      · rw [if_neg h5]
        by_cases h6 : cfg.canRealloc = true
        · rw [if_pos h6]; exact Or.inr ⟨rfl, hint, exp, Or.inr rfl, hle.2, rfl⟩
        · rw [if_neg h6]; exact Or.inl ⟨rfl, rfl⟩
  · rw [if_neg h3]
    by_cases h6 : cfg.canRealloc = true
    · rw [if_pos h6]; exact Or.inr ⟨rfl, hint, exp, Or.inr rfl, hle.2, rfl⟩
    · rw [if_neg h6]; exact Or.inl ⟨rfl, rfl⟩

/-- a successful `Data::Reallocate` keeps the invariant and yields one of the two requested capacities -/
theorem reallocate_wf (cfg : Cfg) (s : State α) (lin exp : Nat) (_w : WF cfg s)
    (h1 : s.cells.length ≤ lin) (h2 : s.cells.length ≤ exp) (hs : (reallocate cfg s lin exp).1 = true) :
    WF cfg (reallocate cfg s lin exp).2.1 ∧
    (capacity cfg (reallocate cfg s lin exp).2.1 = lin ∨ capacity cfg (reallocate cfg s lin exp).2.1 = exp) := by
  rcases reallocate_cases cfg s lin exp with ⟨hf, _⟩ | ⟨_, hint, c, hc, hgt, he⟩
  · rw [hf] at hs; cases hs
  · rw [he]
    have hlen : s.cells.length ≤ c := by rcases hc with rfl | rfl <;> assumption
    refine ⟨⟨by simpa [capacity, hint] using hlen, fun _ _ => hgt, ?_, ?_⟩, ?_⟩
    · intro h; simp [hint] at h
    · intro _ h0; simp at h0; omega
    · rcases hc with rfl | rfl
      · left; simp [capacity, hint]
      · right; simp [capacity, hint]

theorem moveTo_wf (cfg : Cfg) (s : State α) (lin exp : Nat) (w : WF cfg s)
    (h1 : s.cells.length ≤ lin) (h2 : s.cells.length ≤ exp) :
    WF cfg (moveTo cfg s lin exp).1 ∧
    (lin ≤ capacity cfg (moveTo cfg s lin exp).1 ∨ exp ≤ capacity cfg (moveTo cfg s lin exp).1) := by
  unfold moveTo
  split
  · rename_i hs
    obtain ⟨w', hc⟩ := reallocate_wf cfg s lin exp w h1 h2 hs
    exact ⟨w', hc.elim (fun h => Or.inl (by omega)) (fun h => Or.inr (by omega))⟩
  · obtain ⟨w', hc⟩ := reset_wf cfg s exp s.cells h2
    exact ⟨w', Or.inr hc⟩

theorem grow_wf (cfg : Cfg) (s : State α) (minNew : Nat) (r : Bool) (w : WF cfg s) (h : s.cells.length ≤ minNew) :
    WF cfg (grow cfg s minNew r).1 ∧ minNew ≤ capacity cfg (grow cfg s minNew r).1 := by
  unfold grow
  have g1 := growCapacity_ge cfg.growOnReserve (capacity cfg s) minNew r true
  have g2 := growCapacity_ge cfg.growOnReserve (capacity cfg s) minNew r false
  obtain ⟨w', hc⟩ := moveTo_wf cfg s (growCapacity cfg.growOnReserve (capacity cfg s) minNew r true)
    (growCapacity cfg.growOnReserve (capacity cfg s) minNew r false) w (by omega) (by omega)
  exact ⟨w', by omega⟩

end Momo.Arr
