import Momo.Proof.HashTableAbs
/-!
  C01/C11, part 10: the per-operation results under the names the design uses, each in one
  statement. `_partial` marks a statement that needs a side condition on the fault value or on the
  table size (visible as a hypothesis); the unrestricted statements are false for the model
  (`Props/C11.lean`, `unrestricted_faults_counterexample`).

  Index of the development:
    `SpecOK`, `GenInv`, `TableCore`, `TableInv`           HashTableInv.lean
    `findGen_iff`, `findGen_none`, `findGen_some`,
    `findTable_spec`, `findTable_none`, `findTable_some`  HashTableInv.lean
    `addNogrowGen_inv`, `addNogrowGen_none_iff`           HashTableAdd.lean
    `removeBkt_inv`, `drainGen_spec`, `relocGens_spec`,
    `relocate_core`, `relocate_inv`, `relocate_complete`  HashTableReloc.lean
    `add_ok`, `add_fail_unchanged`, `add_refused_fallback`,
    `add_nofault_ok`, `add_completes`, `removePos_spec`,
    `reserve_spec`, `clear_spec`                          HashTableOps.lean
    `removePred_spec`, `copyOf_spec`                      HashTableBulk.lean
    `mergeTo_spec`, `mergeTo_inv`                         HashTableMerge.lean
    `findVal_eq`, `lookup_perm`                           HashTableAbs.lean
-/
namespace Momo.HT
open Momo Momo.Probe

/-- `pvAdd` of an absent key, for every `Faults` value allowed by `FaultsOK`: the invariant is
    kept, a failed insertion leaves the table unchanged (strong guarantee), a successful one adds
    exactly the item. PARTIAL: for `sp.nothrowReloc` the fault value must not stop the migration
    (`hF`) — otherwise false, see `unrestricted_faults_counterexample`. -/
theorem add_inv_partial (sp : Spec) (hf : Nat → Nat) (ok : SpecOK sp) (t : Table) (it : Item) (f : Faults)
    (hI : TableInv sp hf t) (hF : FaultsOK sp f) (hk : ∀ x ∈ traverse t, x.key ≠ it.key) :
    TableInv sp hf (add sp hf t it f).1 ∧
    ((add sp hf t it f).2 ≠ .ok → (add sp hf t it f).1 = t) ∧
    ((add sp hf t it f).2 = .ok → (traverse (add sp hf t it f).1).Perm (it :: traverse t)) :=
  ⟨add_keeps_inv sp hf ok t it f hI hF hk, add_fail_unchanged sp hf t it f,
    fun hok => (add_ok sp hf ok t it f hI hF hk hok).2⟩

/-- `pvRemove` at the position `pvFind` returned -/
theorem removePos_inv (sp : Spec) (hf : Nat → Nat) (t : Table) (hI : TableInv sp hf t) (k gi b j : Nat)
    (hfnd : findTable sp hf t k = some (gi, b, j)) :
    TableInv sp hf (removePos sp t gi b j) ∧
    ∃ it, it.key = k ∧ (it :: traverse (removePos sp t gi b j)).Perm (traverse t) := by
  obtain ⟨g, hg, hj, hkey, _⟩ := found_item sp hf t k gi b j hfnd
  obtain ⟨i1, i2⟩ := removePos_spec sp hf t hI gi b j g _ hg hj
  exact ⟨i1, _, hkey, i2⟩

/-- `Reserve`. PARTIAL: same side condition on the fault value as `add_inv_partial`. -/
theorem reserve_inv_partial (sp : Spec) (hf : Nat → Nat) (ok : SpecOK sp) (t : Table) (c : Nat) (f : Faults)
    (hI : TableInv sp hf t) (hF : FaultsOK sp f) :
    TableInv sp hf (reserve sp hf t c f).1 ∧ (traverse (reserve sp hf t c f).1).Perm (traverse t) ∧
    ((reserve sp hf t c f).2 ≠ .ok → (reserve sp hf t c f).1 = t) :=
  reserve_spec sp hf ok t c f hI hF

theorem clear_inv (sp : Spec) (hf : Nat → Nat) (ok : SpecOK sp) (t : Table) (shrink : Bool)
    (hI : TableInv sp hf t) : TableInv sp hf (clear sp t shrink) ∧ traverse (clear sp t shrink) = [] :=
  clear_spec sp hf ok t shrink hI

/-- copy constructor. PARTIAL: the copy's bucket array, whose size the model searches with fuel 64
    from `logStart`, must have a slot for every element (`CopyFits`; implied by
    `count ≤ capacityOf sp (logStart + j)` for some `j < 64`, `copyFits_of_cap`). For larger counts
    the model's copy loop silently skips items that find no slot. -/
theorem copyOf_inv_partial (sp : Spec) (hf : Nat → Nat) (ok : SpecOK sp) (t : Table)
    (hI : TableInv sp hf t) (hfit : CopyFits sp t) :
    TableInv sp hf (copyOf sp hf t) ∧ (traverse (copyOf sp hf t)).Perm (traverse t) :=
  copyOf_spec sp hf ok t hI hfit

theorem removePred_inv (sp : Spec) (hf : Nat → Nat) (t : Table) (pred : Item → Bool)
    (hI : TableInv sp hf t) :
    TableInv sp hf (removePred t pred).1 ∧
    (traverse (removePred t pred).1).Perm ((traverse t).filter (fun x => !pred x)) ∧
    (removePred t pred).2 = ((traverse t).filter pred).length :=
  removePred_spec sp hf t pred hI

end Momo.HT
