import Momo.Proof.BTreeRange
/-!
  C02, the complete history theorem: every operation of `OpFull` follows the reference semantics `Spec.stepFull` and
  keeps the invariants. Core Lean only (the reference semantics of `mergeFrom` tests a proposition, hence classical).
-/
namespace Momo.BTree
open Node
variable {α : Type}

theorem sortedBy_sublist (lt : α → α → Bool) (multi : Bool) {l l' : List α} (h : l'.Sublist l)
    (hs : SortedBy lt multi l) : SortedBy lt multi l' := by
  unfold SortedBy at hs ⊢
  cases multi with
  | true => simp only [if_true] at hs ⊢; exact List.Pairwise.sublist h hs
  | false => simp only [Bool.false_eq_true, if_false] at hs ⊢; exact List.Pairwise.sublist h hs

theorem take_append_drop_sublist (l : List α) (i j : Nat) (h : i ≤ j) : (l.take i ++ l.drop j).Sublist l := by
  have h1 : l = l.take i ++ l.drop i := (List.take_append_drop i l).symm
  have h2 : (l.drop j).Sublist (l.drop i) := by
    have : l.drop j = (l.drop i).drop (j - i) := by rw [List.drop_drop]; congr 1; omega
    rw [this]; exact List.drop_sublist _ _
  conv => rhs; rw [h1]
  exact List.Sublist.append (List.Sublist.refl _) h2

/-- one step of the complete operation set -/
theorem runOpFull_spec (lt : α → α → Bool) (ho : Order lt) (cfg : Cfg) (hmax : 0 < cfg.maxCap) (t : Tree α)
    (hw : t.WF cfg) (hs : SortedBy lt cfg.multi t.toList) (op : OpFull α) (l' : List α)
    (h : Spec.stepFull lt cfg t.toList op = some l') :
    (Tree.runOpFull lt cfg t op).toList = l' ∧ (Tree.runOpFull lt cfg t op).WF cfg ∧
    SortedBy lt cfg.multi (Tree.runOpFull lt cfg t op).toList := by
  cases op with
  | base op => exact runOp_spec lt ho cfg hmax t hw hs op l' (by simpa [Spec.stepFull] using h)
  | removeKey k =>
    simp only [Spec.stepFull] at h; cases h
    obtain ⟨a, b, _⟩ := tree_removeKey_spec lt ho cfg t hw hs k
    simp only [Tree.runOpFull]
    exact ⟨a, b, by rw [a]; exact sortedBy_sublist lt _ (List.filter_sublist) hs⟩
  | removeRange i j =>
    simp only [Spec.stepFull] at h
    split at h
    · rename_i hc
      cases h
      obtain ⟨p1, p2⟩ := posOfIdx_spec cfg t hw i (by omega)
      obtain ⟨q1, q2⟩ := posOfIdx_spec cfg t hw j hc.2
      obtain ⟨a, b, _, _⟩ := tree_removeRange_spec cfg t hw _ _ p2 q2 (by rw [p1, q1]; exact hc.1)
      rw [p1, q1] at a b
      simp only [Tree.runOpFull]
      exact ⟨a, b, by rw [a]; exact sortedBy_sublist lt _ (take_append_drop_sublist _ _ _ hc.1) hs⟩
    · cases h
  | removeIf f =>
    simp only [Spec.stepFull] at h; cases h
    obtain ⟨a, b⟩ := tree_removeIf_spec cfg f t hw
    simp only [Tree.runOpFull]
    exact ⟨a, b, by rw [a]; exact sortedBy_sublist lt _ (List.filter_sublist) hs⟩
  | insertRange xs =>
    simp only [Spec.stepFull] at h; cases h
    simp only [Tree.runOpFull]
    exact tree_insertRange_spec lt ho cfg hmax t hw hs xs
  | mergeFrom src =>
    simp only [Spec.stepFull] at h
    split at h
    · rename_i hc
      cases h
      simp only [Tree.runOpFull]
      obtain ⟨m1, m2, m3, _⟩ := tree_mergeTo_spec lt ho cfg hmax src t hc.1 hc.2 hw hs
      exact ⟨m1, m2, m3⟩
    · cases h
  | copy =>
    simp only [Spec.stepFull] at h; cases h
    obtain ⟨a, b⟩ := tree_copy_spec cfg t hw
    simp only [Tree.runOpFull]
    exact ⟨a, b, by rw [a]; exact hs⟩

/-- histories over the complete operation set, from any state that satisfies the invariants -/
theorem runFull_spec (lt : α → α → Bool) (ho : Order lt) (cfg : Cfg) (hmax : 0 < cfg.maxCap) (ops : List (OpFull α))
    (t : Tree α) (hw : t.WF cfg) (hs : SortedBy lt cfg.multi t.toList) (l' : List α)
    (h : Spec.runFull lt cfg t.toList ops = some l') :
    (ops.foldl (Tree.runOpFull lt cfg) t).toList = l' ∧ (ops.foldl (Tree.runOpFull lt cfg) t).WF cfg ∧
    SortedBy lt cfg.multi (ops.foldl (Tree.runOpFull lt cfg) t).toList := by
  induction ops generalizing t with
  | nil => simp only [Spec.runFull] at h; cases h; exact ⟨rfl, hw, hs⟩
  | cons op ops ih =>
    simp only [Spec.runFull] at h
    cases hstep : Spec.stepFull lt cfg t.toList op with
    | none => simp [hstep] at h
    | some l1 =>
      simp only [hstep] at h
      obtain ⟨a, b, c⟩ := runOpFull_spec lt ho cfg hmax t hw hs op l1 hstep
      simp only [List.foldl_cons]
      exact ih _ b c (by rw [a]; exact h)

end Momo.BTree
