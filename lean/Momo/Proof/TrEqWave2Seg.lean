import Momo.Translated.Wave2
import Momo.Proof.SegMachine
/-!
  C16: the capacity arithmetic of `SegmentedArray` (SegmentedArray.h) — the number of segments `pvIncCapacity` / `pvDecCapacity`
  need for a capacity (`if (itemIndex > 0) ++segIndex`), the loop test and `Reserve` argument of `pvIncCapacity`, the number of
  segments `pvDecCapacity` removes, the tests of `Reserve`, `Shrink(capacity)`, `AddBackCrt`, `pvIncCount` — as translated from the
  header (area Wave2, lean/Momo/Translated/Wave2.lean) is the arithmetic of the container model `Seg.Arr` (`Momo/Model/Seg.lean`:
  `segsFor`, `incCapacity`, `decCapacity`, `reserve`, `shrink`, `addBack`, `setCount`), for every sizing `S`.
  The generated definitions are rewritten by tools/translate.py from the current headers on every check; a changed
  function body makes the equalities below fail to elaborate.
-/
namespace Momo.TrEq
open Momo Momo.Seg

/-- head of `pvIncCapacity`: the number of segments a capacity needs (`segIndex + 1` does not wrap: segment indexes are far below `2^64`) -/
theorem tr_seg_incCap_segCount (S : Sizing) (cap : Nat) (h : (S.getSeg cap).1 < 2 ^ 64 - 1) :
    Tr.seg_incCap_segCount (S.getSeg cap).1 (S.getSeg cap).2 = Arr.segsFor S cap := by
  unfold Tr.seg_incCap_segCount Arr.segsFor
  simp only [decide_eq_true_eq]
  rw [add64_of_lt (by omega)]

/-- head of `pvDecCapacity`: the same rule -/
theorem tr_seg_decCap_segCount (S : Sizing) (cap : Nat) (h : (S.getSeg cap).1 < 2 ^ 64 - 1) :
    Tr.seg_decCap_segCount (S.getSeg cap).1 (S.getSeg cap).2 = Arr.segsFor S cap := by
  unfold Tr.seg_decCap_segCount Arr.segsFor
  simp only [decide_eq_true_eq]
  rw [add64_of_lt (by omega)]

theorem tr_seg_incCap_more (c i : Nat) : (Tr.seg_incCap_more c i = true) ↔ c < i := by simp [Tr.seg_incCap_more]
theorem tr_seg_incCap_reserve (c : Nat) (h : c < 2 ^ 64 - 1) : Tr.seg_incCap_reserve c = c + 1 := by
  unfold Tr.seg_incCap_reserve; rw [add64_of_lt (by omega)]
/-- `segCount - segIndex` in `pvDecCapacity` (`capacity <= GetCapacity()` is asserted, so `segIndex ≤ segCount`) -/
theorem tr_seg_decCap_removed (c i : Nat) (h : i ≤ c) : Tr.seg_decCap_removed c i = c - i := by
  unfold Tr.seg_decCap_removed; rw [sub64_of_le h]
theorem tr_seg_Reserve_grows (cap ini : Nat) : (Tr.seg_Reserve_grows cap ini = true) ↔ cap > ini := by simp [Tr.seg_Reserve_grows]
theorem tr_seg_Shrink_keeps (cur cap : Nat) : (Tr.seg_Shrink_keeps cur cap = true) ↔ cur ≤ cap := by simp [Tr.seg_Shrink_keeps]
theorem tr_seg_Shrink_target (cnt cap : Nat) : Tr.seg_Shrink_target cnt cap = if cap < cnt then cnt else cap := by
  simp [Tr.seg_Shrink_target]
theorem tr_seg_AddBack_hasRoom (i c : Nat) : (Tr.seg_AddBack_hasRoom i c = true) ↔ i < c := by simp [Tr.seg_AddBack_hasRoom]
theorem tr_seg_incCount_grows (n ini : Nat) : (Tr.seg_incCount_grows n ini = true) ↔ n > ini := by simp [Tr.seg_incCount_grows]

/-- the loop `for (segCount = GetCount(); segCount < segIndex; ++segCount)` of `pvIncCapacity` run with the translated test:
    it allocates `segIndex - segCount` segments -/
theorem allocSegs_loop (S : Sizing) : ∀ (n : Nat) (a : Arr) (target : Nat), target - a.segs.length = n →
    Arr.allocSegs S n a =
      (if Tr.seg_incCap_more a.segs.length target = true then
        Arr.allocSegs S (n - 1) { a with segs := a.segs ++ [⟨a.next, S.itemCount a.segs.length⟩], next := a.next + 1 }
       else a)
  | 0, a, target, h => by
    have : ¬ (Tr.seg_incCap_more a.segs.length target = true) := by rw [tr_seg_incCap_more]; omega
    rw [if_neg this]; rfl
  | n+1, a, target, h => by
    have : Tr.seg_incCap_more a.segs.length target = true := by rw [tr_seg_incCap_more]; omega
    rw [if_pos this]; rfl

/-- `Reserve`, `Shrink(capacity)`, `AddBackCrt`, `SetCountCrt` and `pvIncCapacity` / `pvDecCapacity` of the model written with the
    translated tests and segment counts -/
theorem seg_capacity_ops_translated (S : Sizing) (a : Arr) (cap : Nat) (hseg : (S.getSeg cap).1 < 2 ^ 64 - 1) :
    a.incCapacity S cap = Arr.allocSegs S (Tr.seg_incCap_segCount (S.getSeg cap).1 (S.getSeg cap).2 - a.segs.length) a ∧
    a.decCapacity S cap = { a with segs := a.segs.take (Tr.seg_decCap_segCount (S.getSeg cap).1 (S.getSeg cap).2) } ∧
    (Tr.seg_decCap_segCount (S.getSeg cap).1 (S.getSeg cap).2 ≤ a.segs.length →
      (a.decCapacity S cap).segs.length
        = a.segs.length - Tr.seg_decCap_removed a.segs.length (Tr.seg_decCap_segCount (S.getSeg cap).1 (S.getSeg cap).2)) ∧
    a.reserve S cap = (if Tr.seg_Reserve_grows cap (a.capacity S) = true then a.incCapacity S cap else a) ∧
    a.shrink S cap = (if Tr.seg_Shrink_keeps (a.capacity S) cap = true then a
                      else a.decCapacity S (Tr.seg_Shrink_target a.count cap)) ∧
    a.addBack S = (if Tr.seg_AddBack_hasRoom (S.getSeg a.count).1 a.segs.length = true then { a with count := a.count + 1 }
                   else { (Arr.allocSegs S 1 a) with count := a.count + 1 }) ∧
    a.setCount S cap = (if cap < a.count then { a with count := cap }
                        else if cap > a.count then
                          { (if Tr.seg_incCount_grows cap (a.capacity S) = true then a.incCapacity S cap else a) with count := cap }
                        else a) := by
  refine ⟨?_, ?_, ?_, ?_, ?_, ?_, ?_⟩
  · rw [tr_seg_incCap_segCount S cap hseg]; rfl
  · rw [tr_seg_decCap_segCount S cap hseg]; rfl
  · intro hle
    rw [tr_seg_decCap_removed _ _ hle, tr_seg_decCap_segCount S cap hseg] at *
    simp only [Arr.decCapacity, List.length_take]
    omega
  · simp only [tr_seg_Reserve_grows]; rfl
  · simp only [tr_seg_Shrink_keeps, tr_seg_Shrink_target]; rfl
  · simp only [tr_seg_AddBack_hasRoom]; rfl
  · simp only [tr_seg_incCount_grows]; rfl

end Momo.TrEq
