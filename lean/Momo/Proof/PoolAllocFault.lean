import Momo.Proof.PoolAllocMove
import Momo.Model.PoolAllocFault
/-!
  C20, layer A with a failing base allocator: what an `allocate` that throws changes, preservation of the
  invariant, and the provenance theorem for histories with faults.
-/
namespace Momo.PoolAlloc

/-! ### what a failed `allocate` does -/

/-- the re-parameterisation of an idle pool is the only thing an `allocate` that throws can have done -/
def reparamOnFail (st : PoolSt) (cls : Cls) (n : Nat) : Prop := n = 1 ∧ cls ≠ st.params ∧ st.allocCount = 0

instance (st : PoolSt) (cls : Cls) (n : Nat) : Decidable (reparamOnFail st cls n) := by
  unfold reparamOnFail; exact inferInstance

theorem doAllocFail_eq {s : Sys} {p : Nat} {st : PoolSt} (hl : livePool s p = some st) (cls : Cls) {n : Nat} (hn : n ≠ 0) :
    doAllocFail s p cls n =
      if reparamOnFail st cls n then
        { s with pools := s.pools.set p { st with params := cls },
                 base := s.base.filter (fun e => !(e.pid == p && e.kind == .buf)) }
      else s := by
  simp only [doAllocFail, hl, hn, if_false, reparamOnFail]

/-- a failed `allocate` through a pool that is busy, or already has the parameters of the value type, or for an
    array: the state is exactly what it was -/
theorem doAllocFail_same {s : Sys} {p : Nat} {st : PoolSt} (hl : livePool s p = some st) (cls : Cls) {n : Nat} (hn : n ≠ 0)
    (h : n ≠ 1 ∨ cls = st.params ∨ st.allocCount ≠ 0) : doAllocFail s p cls n = s := by
  rw [doAllocFail_eq hl cls hn, if_neg]
  rintro ⟨h1, h2, h3⟩
  rcases h with h | h | h
  · exact h h1
  · exact h2 h
  · exact h h3

theorem doAllocFail_err (s : Sys) (p : Nat) (cls : Cls) (n : Nat) (h0 : s.err = none) :
    (doAllocFail s p cls n).err = none ∨ (doAllocFail s p cls n).err = some .illegal := by
  unfold doAllocFail
  split
  · right; rfl
  · split
    · right; rfl
    · split
      · left; exact h0
      · left; exact h0

/-- a failed `allocate` that does not break a precondition was made through a live pool, for `n ≠ 0` -/
theorem doAllocFail_ok {s : Sys} {p : Nat} {cls : Cls} {n : Nat} (h : (doAllocFail s p cls n).err = none) :
    ∃ st, livePool s p = some st ∧ n ≠ 0 := by
  unfold doAllocFail at h
  cases hl : livePool s p with
  | none => simp [hl, Sys.fail] at h
  | some st =>
    simp only [hl] at h
    by_cases hn : n = 0
    · rw [if_pos hn] at h; simp [Sys.fail] at h
    · exact ⟨st, rfl, hn⟩

theorem doAllocFail_blocks (s : Sys) (p : Nat) (cls : Cls) (n : Nat) : (doAllocFail s p cls n).blocks = s.blocks := by
  unfold doAllocFail
  split
  · rfl
  · split
    · rfl
    · split <;> rfl

theorem doAllocFail_rawSingle (s : Sys) (p : Nat) (cls : Cls) (n : Nat) :
    (doAllocFail s p cls n).rawSingle = s.rawSingle := by
  unfold doAllocFail
  split
  · rfl
  · split
    · rfl
    · split <;> rfl

/-- every ledger entry that is there afterwards was there before: a failed `allocate` obtains nothing -/
theorem doAllocFail_base_sub (s : Sys) (p : Nat) (cls : Cls) (n : Nat) :
    ∀ x ∈ (doAllocFail s p cls n).base, x ∈ s.base := by
  unfold doAllocFail
  split
  · exact fun x h => h
  · split
    · exact fun x h => h
    · split
      · exact fun x h => (List.mem_filter.mp h).1
      · exact fun x h => h

/-- only buffers of pool `p` can have gone back (those of the pool object replaced at line 119) -/
theorem doAllocFail_base_keep (s : Sys) (p : Nat) (cls : Cls) (n : Nat) (x : Base) (hx : x ∈ s.base)
    (h : x.pid ≠ p ∨ x.kind ≠ .buf) : x ∈ (doAllocFail s p cls n).base := by
  unfold doAllocFail
  split
  · exact hx
  · split
    · exact hx
    · split
      · refine List.mem_filter.mpr ⟨hx, ?_⟩
        rcases h with h | h
        · simp [h]
        · simp [h]
      · exact hx

/-- pools: every pool other than `p` is untouched; `p` keeps its count, its owners, its liveness; its parameters
    change exactly in the `reparamOnFail` case -/
theorem doAllocFail_pools {s : Sys} {p : Nat} {st : PoolSt} (hl : livePool s p = some st) (cls : Cls) {n : Nat} (hn : n ≠ 0) :
    (∀ j, j ≠ p → (doAllocFail s p cls n).pools[j]? = s.pools[j]?) ∧
    (doAllocFail s p cls n).pools[p]? =
      some { st with params := if reparamOnFail st cls n then cls else st.params } := by
  obtain ⟨hst, _⟩ := livePool_eq_some.mp hl
  rw [doAllocFail_eq hl cls hn]
  by_cases hr : reparamOnFail st cls n
  · simp only [if_pos hr]
    exact ⟨fun j hj => List.getElem?_set_ne (fun e => hj e.symm), getElem?_set_same hst⟩
  · constructor
    · intro j _; simp only [if_neg hr]
    · simp only [if_neg hr]; exact hst

/-! ### the invariant -/

theorem fail_inv {s : Sys} (hi : Inv s) (e : Err) : Inv (s.fail e) :=
  ⟨hi.nodup, hi.alive, hi.poolBlk, hi.count, hi.rawBase, hi.ownBase, hi.refs, hi.rawN⟩

theorem doAllocFail_inv {s : Sys} (hi : Inv s) (p : Nat) (cls : Cls) (n : Nat) : Inv (doAllocFail s p cls n) := by
  unfold doAllocFail
  cases hl : livePool s p with
  | none => exact fail_inv hi _
  | some st =>
    simp only
    obtain ⟨hst, hd⟩ := livePool_eq_some.mp hl
    by_cases hn : n = 0
    · rw [if_pos hn]; exact fail_inv hi _
    · rw [if_neg hn]
      by_cases hr : n = 1 ∧ cls ≠ st.params ∧ st.allocCount = 0
      · rw [if_pos hr]
        have hcnt := hi.count p st hst
        -- an idle pool has no live pool block
        have hnoblk : ∀ b ∈ s.blocks, b.pid = p → ∀ q, b.prov ≠ .pool q := by
          intro b hb hbp q hq
          rw [hr.2.2] at hcnt
          have := (List.countP_eq_zero.mp hcnt.symm) b hb
          apply this
          simp [isPoolBlk, hbp, hq]
        constructor
        · exact hi.nodup
        · intro b hb
          obtain ⟨a, ha, had⟩ := hi.alive b hb
          obtain ⟨a', ha', h1, h2⟩ := set_pool_lookup (st' := { st with params := cls }) hst ha
          refine ⟨a', ha', ?_⟩
          by_cases hj : b.pid = p
          · rw [(h2 hj).1]; exact hd
          · rw [h1 hj]; exact had
        · intro b hb q hq
          obtain ⟨⟨a, ha, hap⟩, hrest⟩ := hi.poolBlk b hb q hq
          by_cases hj : b.pid = p
          · exact absurd hq (hnoblk b hb hj q)
          · exact ⟨⟨a, getElem?_set_other ha hj, hap⟩, hrest⟩
        · intro j a hj
          rcases getElem?_set_cases hj with ⟨rfl, rfl, _⟩ | ⟨_, h⟩
          · exact hcnt
          · exact hi.count j a h
        · intro e he hk
          exact hi.rawBase e (List.mem_filter.mp he).1 hk
        · intro e he hk
          obtain ⟨a, ha, had⟩ := hi.ownBase e (List.mem_filter.mp he).1 hk
          obtain ⟨a', ha', h1, h2⟩ := set_pool_lookup (st' := { st with params := cls }) hst ha
          refine ⟨a', ha', ?_⟩
          by_cases hj : e.pid = p
          · rw [(h2 hj).1]; exact hd
          · rw [h1 hj]; exact had
        · intro j a hj
          rcases getElem?_set_cases hj with ⟨rfl, rfl, _⟩ | ⟨_, h⟩
          · simpa using hi.refs _ st hst
          · exact hi.refs j a h
        · exact hi.rawN
      · rw [if_neg hr]; exact hi

/-! ### histories with faults -/

theorem fstep_of_err {s : Sys} {e : Err} (h : s.err = some e) (op : FOp) : fstep s op = s := by
  simp [fstep, h]

theorem frun_of_err {s : Sys} {e : Err} (h : s.err = some e) (ops : List FOp) : frun s ops = s := by
  induction ops with
  | nil => rfl
  | cons op ops ih => simp [frun, List.foldl_cons, fstep_of_err h]; exact ih

theorem frun_cons (s : Sys) (op : FOp) (ops : List FOp) : frun s (op :: ops) = frun (fstep s op) ops := rfl

theorem frun_append (s : Sys) (a b : List FOp) : frun s (a ++ b) = frun (frun s a) b := by
  simp [frun, List.foldl_append]

theorem fstep_ok (s : Sys) (op : Op) : fstep s (.ok op) = step s op := by
  by_cases he : s.err.isSome = true
  · simp [fstep, step, he]
  · simp [fstep, he]

/-- a history without faults is a history of the fault-free machine -/
theorem frun_ok (s : Sys) (ops : List Op) : frun s (ops.map .ok) = run s ops := by
  induction ops generalizing s with
  | nil => rfl
  | cons op ops ih => rw [List.map_cons, frun_cons, fstep_ok, run_cons, ih]

theorem fstep_eq_of_ok {s : Sys} (h0 : s.err = none) (op : FOp) :
    fstep s op = (match op with
      | .ok o => step s o
      | .allocFail p cls n => doAllocFail s p cls n
      | .newFail => s) := by
  cases op <;> simp [fstep, h0]

theorem fstep_inv {s : Sys} (hi : Inv s) (op : FOp) (hok : (fstep s op).err = none) : Inv (fstep s op) := by
  cases op with
  | ok o => rw [fstep_ok] at hok ⊢; exact step_inv hi o hok
  | allocFail p cls n =>
    by_cases he : s.err.isSome = true
    · simp only [fstep, he, if_true]; exact hi
    · simp only [fstep, he]; exact doAllocFail_inv hi p cls n
  | newFail =>
    by_cases he : s.err.isSome = true
    · simp only [fstep, he, if_true]; exact hi
    · simp only [fstep, he]; exact hi

theorem fstep_rawSingle_mono (s : Sys) (op : FOp) (h : (fstep s op).rawSingle = false) : s.rawSingle = false := by
  cases op with
  | ok o => rw [fstep_ok] at h; exact step_rawSingle_mono s o h
  | allocFail p cls n =>
    by_cases he : s.err.isSome = true
    · simpa [fstep, he] using h
    · simp only [fstep, he] at h; rw [← doAllocFail_rawSingle s p cls n]; exact h
  | newFail =>
    by_cases he : s.err.isSome = true
    · simpa [fstep, he] using h
    · simpa [fstep, he] using h

theorem frun_rawSingle_mono (s : Sys) (ops : List FOp) (h : (frun s ops).rawSingle = false) : s.rawSingle = false := by
  induction ops generalizing s with
  | nil => exact h
  | cons op ops ih => exact fstep_rawSingle_mono s op (ih (fstep s op) h)

theorem fstep_err {s : Sys} (hi : Inv s) (h0 : s.err = none) (op : FOp) (hrs : (fstep s op).rawSingle = false) :
    (fstep s op).err = none ∨ (fstep s op).err = some .illegal := by
  cases op with
  | ok o => rw [fstep_ok] at hrs ⊢; exact step_err hi h0 o hrs
  | allocFail p cls n => rw [fstep_eq_of_ok h0]; exact doAllocFail_err s p cls n h0
  | newFail => rw [fstep_eq_of_ok h0]; left; exact h0

/-- **every history with faults**: as long as no single object was served from the memory manager, the machine
    never records a provenance error, and the invariant holds while it runs -/
theorem frun_err {s : Sys} (hi : Inv s) (h0 : s.err = none) (ops : List FOp)
    (hrs : (frun s ops).rawSingle = false) :
    ((frun s ops).err = none ∧ Inv (frun s ops)) ∨ (frun s ops).err = some .illegal := by
  induction ops generalizing s with
  | nil => left; exact ⟨h0, hi⟩
  | cons op ops ih =>
    rw [frun_cons] at hrs ⊢
    cases he : (fstep s op).err with
    | none => exact ih (fstep_inv hi op he) he hrs
    | some e =>
      rw [frun_of_err he] at hrs ⊢
      right
      rcases fstep_err hi h0 op hrs with h | h
      · rw [h] at he; cases he
      · exact h

/-! ### one value-type class per pool, faults unrestricted -/

/-- only successful single-object requests are restricted -/
def opOkA (κ : Nat → Cls) : Op → Prop
  | .alloc p cls 1 _ _ => cls = κ p
  | _ => True

/-- `deallocate` keeps "a busy pool has the parameters of its one type" and the flag, whatever its type argument -/
theorem dealloc_K {κ : Nat → Cls} {s : Sys} (hK : K κ s) (q : Nat) (cls : Cls) (n id : Nat) (frees : List Nat) :
    K κ (doDealloc s q cls n id frees) := by
  unfold doDealloc
  cases hl : livePool s q with
  | none => exact hK
  | some st0 =>
    obtain ⟨hst0, _⟩ := livePool_eq_some.mp hl
    simp only
    cases hf : s.blocks.find? (fun b => b.id == id) with
    | none => exact hK
    | some b =>
      simp only
      by_cases hill : b.pid ≠ q ∨ b.cls ≠ cls ∨ b.n ≠ n
      · rw [if_pos hill]; exact hK
      · rw [if_neg hill]
        by_cases hpath : n = 1 ∧ cls = st0.params
        · rw [if_pos hpath]
          cases hpr : b.prov with
          | raw => exact hK
          | pool q' =>
            refine K_set hK hst0 (st' := { st0 with allocCount := st0.allocCount - 1 }) rfl ?_ rfl
            intro h; simp only at h; omega
        · rw [if_neg hpath]
          cases hpr : b.prov with
          | raw => exact K_same hK rfl
          | pool q' => exact hK

theorem step_KA {κ : Nat → Cls} {s : Sys} (hK : K κ s) (op : Op) (hop : opOkA κ op) :
    K κ (step s op) ∧ (s.rawSingle = false → (step s op).rawSingle = false) := by
  cases op with
  | dealloc q cls n id frees =>
    by_cases he : s.err.isSome = true
    · simp only [step, he, if_true]; exact ⟨hK, fun h => h⟩
    · have hs : step s (.dealloc q cls n id frees) = doDealloc s q cls n id frees := by simp [step, he]
      rw [hs]
      exact ⟨dealloc_K hK q cls n id frees, fun h => by rw [doDealloc_rawSingle]; exact h⟩
  | alloc q cls n id mallocs =>
    refine step_K hK _ ?_
    cases n with
    | zero => trivial
    | succ m =>
      cases m with
      | zero => exact hop
      | succ k => trivial
  | anew cls cb => exact step_K hK _ trivial
  | acopy p => exact step_K hK _ trivial
  | adrop p => exact step_K hK _ trivial
  | bad => exact step_K hK _ trivial

theorem doAllocFail_K {κ : Nat → Cls} {s : Sys} (hK : K κ s) (p : Nat) (cls : Cls) (n : Nat) :
    K κ (doAllocFail s p cls n) := by
  unfold doAllocFail
  cases hl : livePool s p with
  | none => exact hK
  | some st =>
    obtain ⟨hst, _⟩ := livePool_eq_some.mp hl
    simp only
    by_cases hn : n = 0
    · rw [if_pos hn]; exact hK
    · rw [if_neg hn]
      by_cases hr : n = 1 ∧ cls ≠ st.params ∧ st.allocCount = 0
      · rw [if_pos hr]
        intro j a hj hne
        rcases getElem?_set_cases hj with ⟨rfl, rfl, _⟩ | ⟨_, h⟩
        · exact absurd hr.2.2 hne
        · exact hK j a h hne
      · rw [if_neg hr]; exact hK

/-- the condition of `FOneTypePerPool` for one operation -/
def fopOk (κ : Nat → Cls) : FOp → Prop
  | .ok o => opOkA κ o
  | _ => True

theorem foneType_cons {κ : Nat → Cls} {op : FOp} {ops : List FOp} (h : FOneTypePerPool κ (op :: ops)) :
    fopOk κ op ∧ FOneTypePerPool κ ops := by
  constructor
  · have := h op List.mem_cons_self
    cases op with
    | ok o =>
      cases o with
      | alloc p cls n id ms =>
        cases n with
        | zero => trivial
        | succ m =>
          cases m with
          | zero => exact this
          | succ k => trivial
      | _ => trivial
    | allocFail p cls n => trivial
    | newFail => trivial
  · intro o ho; exact h o (List.mem_cons_of_mem _ ho)

theorem fstep_K {κ : Nat → Cls} {s : Sys} (hK : K κ s) (op : FOp) (hop : fopOk κ op) :
    K κ (fstep s op) ∧ (s.rawSingle = false → (fstep s op).rawSingle = false) := by
  cases op with
  | ok o => rw [fstep_ok]; exact step_KA hK o hop
  | allocFail p cls n =>
    cases h0 : s.err with
    | some e => rw [fstep_of_err h0]; exact ⟨hK, fun h => h⟩
    | none =>
      rw [fstep_eq_of_ok h0]
      exact ⟨doAllocFail_K hK p cls n, fun h => by rw [doAllocFail_rawSingle]; exact h⟩
  | newFail =>
    cases h0 : s.err with
    | some e => rw [fstep_of_err h0]; exact ⟨hK, fun h => h⟩
    | none => rw [fstep_eq_of_ok h0]; exact ⟨hK, fun h => h⟩

/-- with one value-type class per pool no single object is ever served from the memory manager, wherever the
    base allocator throws -/
theorem frun_oneType {κ : Nat → Cls} {s : Sys} (hK : K κ s) (hrs : s.rawSingle = false) (ops : List FOp)
    (h1 : FOneTypePerPool κ ops) : K κ (frun s ops) ∧ (frun s ops).rawSingle = false := by
  induction ops generalizing s with
  | nil => exact ⟨hK, hrs⟩
  | cons op ops ih =>
    obtain ⟨hop, hrest⟩ := foneType_cons h1
    obtain ⟨hK', hrs'⟩ := fstep_K hK op hop
    rw [frun_cons]
    exact ih hK' (hrs' hrs) hrest

end Momo.PoolAlloc
