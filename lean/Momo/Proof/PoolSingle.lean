import Momo.Proof.PoolCache
/-!
  State machine of `MemPool` (C09) for `blockCount == 1`: every block is its own allocation; with a non-zero
  alignment addend the 16-bit offset stored behind the block leads back to the allocation.
-/
namespace Momo.Pool

/-- size of the allocation behind one block when `blockCount == 1` -/
def Params.singleSize (P : Params) : Int := if P.alignAddend = 0 then P.bufferSize0 else P.bufferSize1

/-- memory a single-block pool holds: one allocation per recorded block -/
def owned1 (P : Params) (sg : List (Int × Int)) : List (Int × Int) := sg.map (fun e => (e.1 - e.2, P.singleSize))

/-- invariant of a pool with `blockCount == 1` -/
structure SingleWF (P : Params) (p : Pool) : Prop where
  noBuffers : p.store = [] ∧ p.pre = [] ∧ p.post = []
  keys : (p.singles.map (·.1)).Nodup
  entries : ∀ e ∈ p.singles, P.allocAlign ∣ (e.1 - e.2) ∧
              (if P.alignAddend = 0 then e.2 = 0 else e = newBlock1 P (e.1 - e.2))
  cacheNodup : p.cache.Nodup
  cacheKeys : ∀ c ∈ p.cache, c ∈ p.singles.map (·.1)
  cacheOff : P.useCache = false → p.cache = []
  count : p.allocCount + p.cache.length = p.singles.length

theorem live1_eq {P : Params} (hN1 : P.N = 1) (p : Pool) :
    p.live P = (p.singles.map (·.1)).filter (fun x => !p.cache.contains x) := by
  unfold Pool.live; rw [if_neg (by omega)]

theorem SingleWF.count_exact {P : Params} (hN1 : P.N = 1) {p : Pool} (h : SingleWF P p) :
    p.allocCount = (p.live P).length := by
  have := length_filter_not_mem h.keys p.cache h.cacheNodup h.cacheKeys
  rw [live1_eq hN1]
  have h2 := h.count
  simp only [List.length_map] at this
  omega

/-- a recorded block lies inside its allocation -/
theorem SingleWF.block_inside {P : Params} (hL : P.Legal) {p : Pool} (h : SingleWF P p) (e : Int × Int) (he : e ∈ p.singles) :
    e.1 - e.2 ≤ e.1 ∧ e.1 < e.1 - e.2 + P.singleSize ∧ e.1 % P.A = 0 := by
  have hA : 0 < P.A := hL.2.2.1
  have hA2 : P.A ≤ 1024 := hL.2.2.2.1
  have hS : 0 < P.S := hL.2.2.2.2.1
  obtain ⟨hal, hent⟩ := h.entries e he
  unfold Params.singleSize
  by_cases h0 : P.alignAddend = 0
  · rw [if_pos h0] at hent ⊢
    have := plain_single_ok P (e.1 - e.2) hA hA2 hal h0
    rw [hent] at this ⊢
    unfold Params.bufferSize0
    simp only [Int.sub_zero] at this ⊢
    refine ⟨by omega, ?_, this⟩
    split <;> omega
  · rw [if_neg h0] at hent ⊢
    obtain ⟨h1, h2, h3, _, _, h6, _⟩ := newBlock1_ok P (e.1 - e.2) hA hA2 hal
    rw [← hent] at h1 h2 h3 h6
    simp only [sizeofU16] at h6
    exact ⟨by omega, by omega, h1⟩

theorem single_split {sg : List (Int × Int)} (hk : (sg.map (·.1)).Nodup) {e : Int × Int} (he : e ∈ sg) :
    ∃ s1 s2, sg = s1 ++ e :: s2 ∧ (∀ x ∈ s1, x.1 ≠ e.1) ∧ (∀ x ∈ s2, x.1 ≠ e.1) := by
  obtain ⟨s1, s2, rfl⟩ := List.append_of_mem he
  simp only [List.map_append, List.map_cons] at hk
  have h1 := (List.nodup_append.mp hk).2.2
  have h2 := (List.nodup_cons.mp (List.nodup_append.mp hk).2.1).1
  refine ⟨s1, s2, rfl, ?_, ?_⟩
  · intro x hx e'; exact h1 x.1 (List.mem_map_of_mem hx) e.1 (by simp) e'
  · intro x hx e'; exact h2 (e' ▸ List.mem_map_of_mem hx)

theorem lookup_split {s1 s2 : List (Int × Int)} {c off : Int} (h1 : ∀ x ∈ s1, x.1 ≠ c) :
    (s1 ++ (c, off) :: s2).lookup c = some off := by
  induction s1 with
  | nil => simp [List.lookup]
  | cons x xs ih =>
    have hx : x.1 ≠ c := h1 x (by simp)
    obtain ⟨x1, x2⟩ := x
    have : (c == x1) = false := by simpa using (fun e => hx e.symm)
    simp only [List.cons_append, List.lookup, this]
    exact ih (fun y hy => h1 y (by simp [hy]))

theorem filter_key_split {s1 s2 : List (Int × Int)} {c off : Int} (h1 : ∀ x ∈ s1, x.1 ≠ c) (h2 : ∀ x ∈ s2, x.1 ≠ c) :
    (s1 ++ (c, off) :: s2).filter (fun e => e.1 != c) = s1 ++ s2 := by
  rw [List.filter_append, List.filter_cons]
  have e1 : s1.filter (fun e => e.1 != c) = s1 := by
    rw [List.filter_eq_self]; intro x hx; simpa using h1 x hx
  have e2 : s2.filter (fun e => e.1 != c) = s2 := by
    rw [List.filter_eq_self]; intro x hx; simpa using h2 x hx
  rw [e1, e2]; simp

/-- events and recorded blocks of a single-block pool stay in step -/
def Ledger1OK (P : Params) (sg : List (Int × Int)) (evs : List Ev) (sg' : List (Int × Int)) : Prop :=
  ∃ L', ledger (owned1 P sg) evs = some L' ∧ L'.Perm (owned1 P sg')

theorem Ledger1OK.nil {P : Params} (sg : List (Int × Int)) : Ledger1OK P sg [] sg := ⟨_, rfl, List.Perm.refl _⟩

theorem Ledger1OK.trans {P : Params} {s1 s2 s3 : List (Int × Int)} {e1 e2 : List Ev}
    (h1 : Ledger1OK P s1 e1 s2) (h2 : Ledger1OK P s2 e2 s3) : Ledger1OK P s1 (e1 ++ e2) s3 := by
  obtain ⟨L1, hl1, hp1⟩ := h1
  obtain ⟨L2, hl2, hp2⟩ := h2
  obtain ⟨M, hm, hpm⟩ := ledger_perm e2 hp1.symm L2 hl2
  exact ⟨M, by rw [ledger_append, hl1]; exact hm, hpm.symm.trans hp2⟩

/-- the part of the invariant that concerns the recorded blocks only -/
structure SinglesOK (P : Params) (sg : List (Int × Int)) : Prop where
  keys : (sg.map (·.1)).Nodup
  entries : ∀ e ∈ sg, P.allocAlign ∣ (e.1 - e.2) ∧
              (if P.alignAddend = 0 then e.2 = 0 else e = newBlock1 P (e.1 - e.2))

/-- **`pvDeleteBlock` for `blockCount == 1`** (470-478, 506-512): the allocation behind a recorded block goes
    back to the manager with the address and size it was obtained with -/
theorem deleteBlock_single {P : Params} (hN1 : P.N = 1) {p : Pool} (h : SinglesOK P p.singles) (c : Int)
    (hc : c ∈ p.singles.map (·.1)) :
    ∃ evs, deleteBlock P p c = .ok () { p with singles := p.singles.filter (fun e => e.1 != c) } evs ∧
      SinglesOK P (p.singles.filter (fun e => e.1 != c)) ∧
      (p.singles.map (·.1)).Perm (c :: (p.singles.filter (fun e => e.1 != c)).map (·.1)) ∧
      Ledger1OK P p.singles evs (p.singles.filter (fun e => e.1 != c)) := by
  obtain ⟨e, he, hec⟩ := List.mem_map.mp hc
  obtain ⟨c', off⟩ := e
  simp only at hec; subst hec
  obtain ⟨s1, s2, hs, h1, h2⟩ := single_split h.keys he
  simp only at h1 h2
  have hfilt : p.singles.filter (fun e => e.1 != c') = s1 ++ s2 := by rw [hs]; exact filter_key_split h1 h2
  have hlook : p.singles.lookup c' = some off := by rw [hs]; exact lookup_split h1
  have hent := (h.entries (c', off) he).2
  have hok' : SinglesOK P (s1 ++ s2) := by
    refine ⟨?_, fun e he' => h.entries e (by rw [hs]; rcases List.mem_append.mp he' with hm | hm <;> simp [hm])⟩
    have := h.keys; rw [hs] at this
    simp only [List.map_append, List.map_cons] at this ⊢
    exact (List.nodup_cons.mp ((List.perm_middle.nodup_iff).mp this)).2
  have hkeysP : (p.singles.map (·.1)).Perm (c' :: (s1 ++ s2).map (·.1)) := by
    rw [hs]; simp only [List.map_append, List.map_cons]; exact List.perm_middle
  have hownP : (owned1 P p.singles).Perm ((c' - off, P.singleSize) :: owned1 P (s1 ++ s2)) := by
    rw [hs]; simp only [owned1, List.map_append, List.map_cons]; exact List.perm_middle
  have hled : Ledger1OK P p.singles [.free (c' - off) P.singleSize] (s1 ++ s2) := by
    have hm : (c' - off, P.singleSize) ∈ owned1 P p.singles := hownP.symm.subset (by simp)
    refine ⟨(owned1 P p.singles).erase (c' - off, P.singleSize), by simp [ledger, hm], ?_⟩
    simpa using hownP.erase (c' - off, P.singleSize)
  rw [hfilt]
  refine ⟨[.free (c' - off) P.singleSize], ?_, hok', hkeysP, hled⟩
  unfold deleteBlock
  rw [if_neg (by omega)]
  by_cases h0 : P.alignAddend = 0
  · rw [if_pos h0] at hent
    simp only at hent
    rw [if_pos h0, hfilt]
    simp only [Params.singleSize, h0, if_true, hent, Int.sub_zero]
  · rw [if_neg h0]
    unfold deleteBlock1
    rw [hlook]; simp only [hfilt, Params.singleSize, h0, if_false]

theorem SingleWF.singlesOK {P : Params} {p : Pool} (h : SingleWF P p) : SinglesOK P p.singles := ⟨h.keys, h.entries⟩

/-- `pvFlushDeallocate` for `blockCount == 1` -/
theorem flushList_single {P : Params} (hN1 : P.N = 1) :
    ∀ (cs : List Int) (p : Pool), SinglesOK P p.singles → cs.Nodup → (∀ c ∈ cs, c ∈ p.singles.map (·.1)) →
    ∃ p' evs, flushList P cs p = .ok () p' evs ∧ SinglesOK P p'.singles ∧
      (p.singles.map (·.1)).Perm (cs ++ p'.singles.map (·.1)) ∧
      p'.store = p.store ∧ p'.pre = p.pre ∧ p'.post = p.post ∧ p'.cache = p.cache ∧ p'.allocCount = p.allocCount ∧
      Ledger1OK P p.singles evs p'.singles := by
  intro cs
  induction cs with
  | nil => intro p h _ _; exact ⟨p, [], rfl, h, by simp, rfl, rfl, rfl, rfl, rfl, Ledger1OK.nil _⟩
  | cons c cs ih =>
    intro p h hnd hsub
    obtain ⟨e1, hd1, hok1, hperm1, hl1⟩ := deleteBlock_single hN1 h c (hsub c (by simp))
    have hsub1 : ∀ x ∈ cs, x ∈ (p.singles.filter (fun e => e.1 != c)).map (·.1) := by
      intro x hx
      have hxp := hperm1.subset (hsub x (by simp [hx]))
      rcases List.mem_cons.mp hxp with e | hm
      · exact absurd (e ▸ hx) (List.nodup_cons.mp hnd).1
      · exact hm
    obtain ⟨p2, e2, hd2, hok2, hperm2, hs2, hp2, hq2, hc2, ha2, hl2⟩ :=
      ih { p with singles := p.singles.filter (fun e => e.1 != c) } hok1 (List.nodup_cons.mp hnd).2 hsub1
    refine ⟨p2, e1 ++ e2, ?_, hok2, ?_, hs2, hp2, hq2, hc2, ha2, hl1.trans hl2⟩
    · simp only [flushList, hd1, Outcome.bind, hd2]
    · exact hperm1.trans (List.Perm.cons c hperm2)

/-- what `Allocate` promises when `blockCount == 1` -/
structure Allocate1Spec (P : Params) (p p' : Pool) (blk : Int) (evs : List Ev) : Prop where
  wf : SingleWF P p'
  fresh : blk ∉ p.live P
  live : (p'.live P).Perm (blk :: p.live P)
  count : p'.allocCount = p.allocCount + 1
  aligned : blk % P.A = 0
  ledger : Ledger1OK P p.singles evs p'.singles

/-- contract of the memory manager towards a single-block pool -/
def Contract1 (P : Params) (p : Pool) (orc : Oracle) : Prop :=
  ∀ j base, orc j = some base → P.allocAlign ∣ base ∧
    ∀ e ∈ p.singles, base + P.singleSize ≤ e.1 - e.2 ∨ e.1 - e.2 + P.singleSize ≤ base

/-- **`Allocate` (285-306), `blockCount == 1`.** -/
theorem allocate_single_ok {P : Params} (hL : P.Legal) (hN1 : P.N = 1) {p : Pool} (h : SingleWF P p)
    {orc : Oracle} (hc : Contract1 P p orc) :
    match allocate P p orc with
    | .ok blk p' evs => Allocate1Spec P p p' blk evs
    | .badAlloc p' evs => p' = p ∧ evs = [] ∧ orc 0 = none
    | .stuck _ => False := by
  have hA : 0 < P.A := hL.2.2.1
  have hA2 : P.A ≤ 1024 := hL.2.2.2.1
  have hS : 0 < P.S := hL.2.2.2.2.1
  unfold allocate
  cases hcc : (if P.useCache = true then p.cache else []) with
  | cons c cs =>
    have huse : P.useCache = true := by
      by_cases hu : P.useCache = true
      · exact hu
      · rw [if_neg hu] at hcc; simp at hcc
    rw [if_pos huse] at hcc
    simp only [Outcome.bind]
    have hcK : c ∈ p.singles.map (·.1) := h.cacheKeys c (by rw [hcc]; simp)
    have hnd : (c :: cs).Nodup := by rw [← hcc]; exact h.cacheNodup
    have hflip := filter_not_mem_cons h.keys c cs hcK (List.nodup_cons.mp hnd).1
    obtain ⟨e, he, hec⟩ := List.mem_map.mp hcK
    refine ⟨⟨h.noBuffers, h.keys, h.entries, (List.nodup_cons.mp hnd).2, fun x hx => h.cacheKeys x (by rw [hcc]; simp [hx]),
      fun e => by rw [huse] at e; simp at e, ?_⟩, ?_, ?_, rfl, ?_, Ledger1OK.nil _⟩
    · have := h.count; rw [hcc] at this; simp only [List.length_cons] at this
      show p.allocCount + 1 + cs.length = p.singles.length
      omega
    · rw [live1_eq hN1, hcc]; simp
    · rw [live1_eq hN1, live1_eq hN1, hcc]; exact hflip
    · rw [← hec]; exact (h.block_inside hL e he).2.2
  | nil =>
    have hcnil : p.cache = [] := by
      by_cases hu : P.useCache = true
      · rw [if_pos hu] at hcc; exact hcc
      · exact h.cacheOff (by simpa using hu)
    simp only
    rw [if_neg (by omega : ¬ P.N > 1)]
    cases horc : orc 0 with
    | none => simp [Outcome.bind]
    | some base =>
      obtain ⟨hal, hdis⟩ := hc 0 base horc
      obtain ⟨n1, n2, n3, _, _, n6, n7⟩ := newBlock1_ok P base hA hA2 hal
      simp only [sizeofU16] at n6
      -- the new entry and its block
      have hmain : ∀ (e0 : Int × Int), e0.1 - e0.2 = base → base ≤ e0.1 → e0.1 < base + P.singleSize →
          e0.1 % P.A = 0 → (if P.alignAddend = 0 then e0.2 = 0 else e0 = newBlock1 P (e0.1 - e0.2)) →
          ∀ evs, evs = [Ev.malloc base P.singleSize] →
          Allocate1Spec P p { p with singles := e0 :: p.singles, allocCount := p.allocCount + 1 } e0.1 evs := by
        intro e0 hb0 hlo hhi hal0 hent0 evs hevs
        have hnew : e0.1 ∉ p.singles.map (·.1) := by
          intro hm
          obtain ⟨e, he, hee⟩ := List.mem_map.mp hm
          obtain ⟨i1, i2, _⟩ := h.block_inside hL e he
          rcases hdis e he with hd | hd <;> omega
        have hlive : p.live P = p.singles.map (·.1) := by rw [live1_eq hN1, hcnil]; simp
        refine ⟨⟨h.noBuffers, ?_, ?_, h.cacheNodup, ?_, h.cacheOff, ?_⟩, by rw [hlive]; exact hnew, ?_, rfl, hal0, ?_⟩
        · simp only [List.map_cons]; exact List.nodup_cons.mpr ⟨hnew, h.keys⟩
        · intro e he
          rcases List.mem_cons.mp he with rfl | he
          · exact ⟨by rw [hb0]; exact hal, hent0⟩
          · exact h.entries e he
        · intro c hc'; have : c ∈ p.cache := hc'; rw [hcnil] at this; simp at this
        · show p.allocCount + 1 + p.cache.length = (e0 :: p.singles).length
          have := h.count; simp only [List.length_cons]; omega
        · rw [live1_eq hN1, hlive]
          show ((e0 :: p.singles).map (·.1)).filter (fun x => !p.cache.contains x) |>.Perm _
          rw [hcnil]; simp
        · refine ⟨(base, P.singleSize) :: owned1 P p.singles, by rw [hevs]; rfl, ?_⟩
          simp [owned1, hb0]
      by_cases h0 : P.alignAddend = 0
      · simp only [h0, if_true, Outcome.bind]
        have hb := plain_single_ok P base hA hA2 hal h0
        have hsz : P.singleSize = P.bufferSize0 := by simp [Params.singleSize, h0]
        have := hmain (base, 0) (by simp) (Int.le_refl _) (by
            show base < base + P.singleSize
            rw [hsz]; unfold Params.bufferSize0; split <;> omega) hb (by rw [if_pos h0])
          ([Ev.malloc base P.bufferSize0] ++ []) (by rw [hsz]; rfl)
        exact this
      · simp only [h0, if_false, Outcome.bind]
        have hsz : P.singleSize = P.bufferSize1 := by simp [Params.singleSize, h0]
        have := hmain (newBlock1 P base) n7 n2 (by rw [hsz]; omega) n1 (by rw [if_neg h0, n7])
          ([Ev.malloc base P.bufferSize1] ++ []) (by rw [hsz]; rfl)
        exact this

/-- what `Deallocate` promises when `blockCount == 1` -/
structure Dealloc1Spec (P : Params) (p p' : Pool) (blk : Int) (evs : List Ev) : Prop where
  wf : SingleWF P p'
  live : (p.live P).Perm (blk :: p'.live P)
  count : p'.allocCount + 1 = p.allocCount
  ledger : Ledger1OK P p.singles evs p'.singles

theorem mem_live1 {P : Params} (hN1 : P.N = 1) (p : Pool) (x : Int) :
    x ∈ p.live P ↔ x ∈ p.singles.map (·.1) ∧ x ∉ p.cache := by
  rw [live1_eq hN1]; simp [List.mem_filter]

/-- flushing the cache of a single-block pool -/
theorem flush_single {P : Params} (hN1 : P.N = 1) {p : Pool} (h : SingleWF P p) :
    ∃ p' evs, flush P p = .ok () p' evs ∧ SingleWF P p' ∧ p'.cache = [] ∧ (p.live P).Perm (p'.live P) ∧
      p'.allocCount = p.allocCount ∧ Ledger1OK P p.singles evs p'.singles ∧
      (∀ x ∈ p'.singles.map (·.1), x ∈ p.singles.map (·.1)) := by
  obtain ⟨p1, e1, hf1, hok1, hperm1, hs1, hp1, hq1, hc1, ha1, hl1⟩ :=
    flushList_single hN1 p.cache { p with cache := [] } h.singlesOK h.cacheNodup h.cacheKeys
  have hc1' : p1.cache = [] := hc1
  have hperm1' : (p.singles.map (·.1)).Perm (p.cache ++ p1.singles.map (·.1)) := hperm1
  have hnd2 : (p.cache ++ p1.singles.map (·.1)).Nodup := hperm1'.nodup_iff.mp h.keys
  have hlive1 : (p.live P).Perm (p1.singles.map (·.1)) := by
    rw [live1_eq hN1]
    refine (hperm1'.filter _).trans ?_
    rw [List.filter_append]
    have e1 : p.cache.filter (fun x => !p.cache.contains x) = [] := by
      rw [List.filter_eq_nil_iff]; intro x hx; simp [hx]
    have e2 : (p1.singles.map (·.1)).filter (fun x => !p.cache.contains x) = p1.singles.map (·.1) := by
      rw [List.filter_eq_self]; intro x hx
      have : x ∉ p.cache := fun hm => (List.nodup_append.mp hnd2).2.2 x hm x hx rfl
      simpa using this
    rw [e1, e2]; simp
  refine ⟨p1, e1, hf1, ⟨⟨hs1.trans h.noBuffers.1, hp1.trans h.noBuffers.2.1, hq1.trans h.noBuffers.2.2⟩, hok1.keys,
    hok1.entries, by rw [hc1']; simp, by rw [hc1']; simp, fun _ => hc1', ?_⟩, hc1', ?_, ha1, hl1, ?_⟩
  · have hl := hperm1'.length_eq
    have hcnt := h.count
    rw [List.length_append] at hl
    simp only [List.length_map] at hl
    have ha1' : p1.allocCount = p.allocCount := ha1
    rw [hc1', ha1']; simp only [List.length_nil]; omega
  · have : p1.live P = p1.singles.map (·.1) := by rw [live1_eq hN1, hc1']; simp
    rw [this]; exact hlive1
  · intro x hx
    exact hperm1'.symm.subset (List.mem_append_right _ hx)

/-- **`Deallocate` (308-325), `blockCount == 1`**, for a live block of this pool -/
theorem deallocate_single_ok {P : Params} (hN1 : P.N = 1) {p : Pool} (h : SingleWF P p) (blk : Int)
    (hblk : blk ∈ p.live P) :
    ∃ p' evs, deallocate P p blk = .ok () p' evs ∧ Dealloc1Spec P p p' blk evs := by
  obtain ⟨hbK, hbC⟩ := (mem_live1 hN1 p blk).mp hblk
  have hcnt := h.count_exact hN1
  have hpos : p.allocCount ≠ 0 := by
    have : 0 < (p.live P).length := List.length_pos_of_mem hblk
    omega
  unfold deallocate
  rw [if_neg hpos]
  by_cases hu : P.useCache = true
  · rw [if_pos hu]
    by_cases hfl : p.cache.length ≥ P.C
    · rw [if_pos hfl]
      obtain ⟨p1, e1, hf1, hwf1, hc1, hlive1, ha1, hl1, _⟩ := flush_single hN1 h
      have hl1' : p1.live P = p1.singles.map (·.1) := by rw [live1_eq hN1, hc1]; simp
      have hb1 : blk ∈ p1.singles.map (·.1) := by rw [← hl1']; exact hlive1.subset hblk
      have hflip := filter_not_mem_cons hwf1.keys blk [] hb1 (by simp)
      simp only [List.contains_nil, Bool.not_false, List.filter_true] at hflip
      refine ⟨{ p1 with cache := [blk], allocCount := p1.allocCount - 1 }, e1 ++ [] ++ [], ?_, ⟨?_, ?_, ?_, by simpa using hl1⟩⟩
      · simp only [hf1, Outcome.bind, List.append_nil, hc1]
      · refine ⟨hwf1.noBuffers, hwf1.keys, hwf1.entries, by simp, ?_, fun e => by rw [hu] at e; simp at e, ?_⟩
        · intro c hc; simp at hc; subst hc; exact hb1
        · show p1.allocCount - 1 + 1 = p1.singles.length
          have := hwf1.count; rw [hc1] at this; simp at this; omega
      · have e : ({ p1 with cache := [blk], allocCount := p1.allocCount - 1 } : Pool).live P =
            (p1.singles.map (·.1)).filter (fun x => !([blk] : List Int).contains x) := by rw [live1_eq hN1]
        rw [e]; exact (hlive1.trans (by rw [hl1'])).trans hflip
      · show p1.allocCount - 1 + 1 = p.allocCount; omega
    · rw [if_neg hfl]
      have hflip := filter_not_mem_cons h.keys blk p.cache hbK hbC
      refine ⟨{ p with cache := blk :: p.cache, allocCount := p.allocCount - 1 }, [], by simp [Outcome.bind], ⟨?_, ?_, ?_, Ledger1OK.nil _⟩⟩
      · refine ⟨h.noBuffers, h.keys, h.entries, List.nodup_cons.mpr ⟨hbC, h.cacheNodup⟩, ?_, fun e => by rw [hu] at e; simp at e, ?_⟩
        · intro c hc
          rcases List.mem_cons.mp hc with rfl | hc
          · exact hbK
          · exact h.cacheKeys c hc
        · show p.allocCount - 1 + (blk :: p.cache).length = p.singles.length
          have := h.count; simp only [List.length_cons]; omega
      · rw [live1_eq hN1, live1_eq hN1]; exact hflip
      · show p.allocCount - 1 + 1 = p.allocCount; omega
  · rw [if_neg hu]
    have hcnil : p.cache = [] := h.cacheOff (by simpa using hu)
    obtain ⟨e1, hd1, hok1, hperm1, hl1⟩ := deleteBlock_single hN1 h.singlesOK blk hbK
    refine ⟨{ p with singles := p.singles.filter (fun e => e.1 != blk), allocCount := p.allocCount - 1 }, e1 ++ [],
      by simp only [hd1, Outcome.bind], ⟨?_, ?_, ?_, by simpa using hl1⟩⟩
    · refine ⟨h.noBuffers, hok1.keys, hok1.entries, h.cacheNodup, ?_, h.cacheOff, ?_⟩
      · intro c hc; have : c ∈ p.cache := hc; rw [hcnil] at this; simp at this
      · show p.allocCount - 1 + p.cache.length = (p.singles.filter (fun e => e.1 != blk)).length
        have hl := hperm1.length_eq
        have hc := h.count
        rw [hcnil] at hc ⊢
        simp only [List.length_map, List.length_cons, List.length_nil] at hl hc ⊢
        omega
    · rw [live1_eq hN1, live1_eq hN1]
      show ((p.singles.map (·.1)).filter (fun x => !p.cache.contains x)).Perm
        (blk :: ((p.singles.filter (fun e => e.1 != blk)).map (·.1)).filter (fun x => !p.cache.contains x))
      rw [hcnil]; simpa using hperm1
    · show p.allocCount - 1 + 1 = p.allocCount; omega

/-- **`~MemPool` (227-234), `blockCount == 1`**: a pool without live blocks gives everything back -/
theorem destroy_single_ok {P : Params} (hN1 : P.N = 1) {p : Pool} (h : SingleWF P p) (h0 : p.allocCount = 0) :
    ∃ p' evs, destroy P p = .ok () p' evs ∧ p'.singles = [] ∧ p'.store = [] ∧ Ledger1OK P p.singles evs [] := by
  unfold destroy
  rw [if_neg (by simpa using h0), if_neg (by omega)]
  by_cases hu : P.useCache = true
  · rw [if_pos hu]
    obtain ⟨p1, e1, hf1, hwf1, hc1, _, ha1, hl1, _⟩ := flush_single hN1 h
    have : p1.singles = [] := by
      have := hwf1.count; rw [hc1, ha1, h0] at this
      exact List.eq_nil_of_length_eq_zero (by simpa using this.symm)
    exact ⟨p1, e1, hf1, this, hwf1.noBuffers.1, by rw [this] at hl1; exact hl1⟩
  · rw [if_neg hu]
    have hcnil : p.cache = [] := h.cacheOff (by simpa using hu)
    have : p.singles = [] := by
      have := h.count; rw [hcnil, h0] at this
      exact List.eq_nil_of_length_eq_zero (by simpa using this.symm)
    exact ⟨p, [], rfl, this, h.noBuffers.1, by rw [this]; exact Ledger1OK.nil _⟩

theorem SingleWF.empty (P : Params) : SingleWF P Pool.empty := by
  refine ⟨⟨rfl, rfl, rfl⟩, ?_, ?_, ?_, ?_, ?_, ?_⟩ <;> simp [Pool.empty]

end Momo.Pool
