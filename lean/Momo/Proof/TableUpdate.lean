import Momo.Proof.TableCreate
/-!
  C07, table level, part 4: `DataIndexes::UpdateRaw(oldRaw, newRaw)` and `TryUpdate(rowNumber, row)`: a unique index
  either re-keys the entry of the old row (same key), refuses (another row has the key) or adds the new entry and removes
  the old one; a multi index adds the new raw and removes the old one; accepted: the invariant holds for the rows with
  the new row in place of the old one; refused / failed: the table is unchanged.
-/
namespace Momo.Table
open List

/-! ### `UniqueHash::Add(raw, oldRaw)` -/

section updU
variable {vis : Vis} (hc : Complete vis) (acc : Acc) {st0 : Store} (hnd : (ids st0).Nodup) {r : Row} (hr : r.id ∉ ids st0)
include hc hnd hr

theorem UIdx.add_upd (u : UIdx) (hu : UInv acc st0 u) (oldId : Nat) (fail : Bool) :
    (∃ x ∈ st0, ∃ p, p < u.ents.length ∧ u.idAt p = x.id ∧ keyEq u.cols r.vals x.vals = true ∧
        u.add vis acc (st0 ++ [r]) r.id (some oldId) fail =
          some (if oldId = x.id then { u with posAdd := some p } else u, x.id)) ∨
    ((∀ x ∈ st0, keyEq u.cols r.vals x.vals = false) ∧
        u.add vis acc (st0 ++ [r]) r.id (some oldId) fail = if fail then none else some (uAdded acc u r.id r.vals, r.id)) := by
  have hvr : valsOf (st0 ++ [r]) r.id = r.vals := valsOf_append_right r hr
  have hmem : ∀ e ∈ u.ents, e.id ∈ ids st0 := fun e he => hu.perm.mem_iff.mp (mem_map_of_mem he)
  have hlook : ∀ e ∈ u.ents, e.h0 = hashVals acc u.cols (valsOf (st0 ++ [r]) e.id) := by
    intro e he; rw [valsOf_append_left _ (hmem e he)]; exact hu.hash e he
  unfold UIdx.add UIdx.findRaw
  rw [hvr]
  cases hf : u.find vis (hashVals acc u.cols r.vals) (fun id => keyEq u.cols r.vals (valsOf (st0 ++ [r]) id)) with
  | some p =>
    left
    obtain ⟨hp, hk⟩ := u.find_some r.vals (valsOf (st0 ++ [r])) _ hf
    have hin : u.idAt p ∈ ids st0 := hu.perm.mem_iff.mp (u.idAt_mem hp)
    obtain ⟨x, hx, hxid⟩ := mem_ids_iff.mp hin
    refine ⟨x, hx, p, hp, hxid.symm, ?_, ?_⟩
    · rw [valsOf_append_left _ hin, ← hxid, valsOf_mem hnd hx] at hk; exact hk
    · simp only [hxid.symm]
      by_cases h : oldId = x.id
      · simp [h]
      · simp [h]
  | none =>
    right
    have hn := UIdx.find_none hc acc u r.vals (valsOf (st0 ++ [r])) hlook hf
    refine ⟨?_, by simp [uAdded]⟩
    intro x hx
    have hxin : x.id ∈ u.ents.map (·.id) := hu.perm.mem_iff.mpr (mem_ids_iff.mpr ⟨x, hx, rfl⟩)
    obtain ⟨e, he, hex⟩ := mem_map.mp hxin
    have := hn e he
    rw [hex, valsOf_append_left _ (mem_ids_iff.mpr ⟨x, hx, rfl⟩), valsOf_mem hnd hx] at this
    exact this

end updU

/-! ### one unique index under `UpdateRaw(oldRaw, newRaw)` -/

/-- `AcceptAdd(newRaw)` + `AcceptRemove()` -/
def UIdx.accUpd (u : UIdx) (new : Nat) : UIdx := (u.acceptAddRaw new).acceptRemove
/-- `RejectAdd(newRaw)` + `RejectRemove()` -/
def UIdx.rejUpd (u : UIdx) (new : Nat) : UIdx := (u.rejectAddRaw new).rejectRemove

theorem UIdx.rejUpd_noPos (u : UIdx) (new : Nat) (h : u.posAdd = none ∧ u.posRem = none) : u.rejUpd new = u := by
  unfold UIdx.rejUpd UIdx.rejectAddRaw UIdx.rejectRemove
  rw [h.1]; cases u; simp_all

/-- the rows after the update, as a store: the old row is gone, the new one is there -/
def updStore (st0 : Store) (r : Row) (oldId : Nat) : Store := keepRows (st0 ++ [r]) (fun x => x != oldId)

theorem ids_updStore (st0 : Store) (r : Row) (oldId : Nat) (hne : r.id ≠ oldId) :
    ids (updStore st0 r oldId) = (ids st0).filter (fun x => x != oldId) ++ [r.id] := by
  unfold updStore
  rw [ids_keepRows, ids_append, filter_append]
  simp [hne]

theorem valsOf_updStore_old (st0 : Store) (r : Row) (oldId : Nat) {x : Nat} (hx : x ∈ ids st0) (hne : x ≠ oldId) :
    valsOf (updStore st0 r oldId) x = valsOf st0 x := by
  unfold updStore
  rw [valsOf_keepRows _ _ (by simpa using hne), valsOf_append_left _ hx]

theorem valsOf_updStore_new (st0 : Store) (r : Row) (oldId : Nat) (hr : r.id ∉ ids st0) (hne : r.id ≠ oldId) :
    valsOf (updStore st0 r oldId) r.id = r.vals := by
  unfold updStore
  rw [valsOf_keepRows _ _ (by simpa using hne), valsOf_append_right r hr]


theorem UIdx.accUpd_added (cols : List Nat) (E : List UEntry) (len : Nat) (F : Option Nat) (new : Nat)
    (hmod : E.modify len (fun e => { e with id := new }) = E) :
    UIdx.accUpd ⟨cols, E, some len, F⟩ new = UIdx.acceptRemove ⟨cols, E, none, F⟩ := by
  simp [UIdx.accUpd, UIdx.acceptAddRaw, hmod]

theorem UIdx.rejUpd_added (cols : List Nat) (ents : List UEntry) (e : UEntry) (F : Option Nat) (new : Nat) (h : e.id = new) :
    UIdx.rejUpd ⟨cols, ents ++ [e], some ents.length, F⟩ new = ⟨cols, ents, none, none⟩ := by
  have : UIdx.idAt ⟨cols, ents ++ [e], some ents.length, F⟩ ents.length = e.id := by
    unfold UIdx.idAt
    simp only
    rw [getD_eq_getElem?_getD, getElem?_append_right (Nat.le_refl _)]; simp
  unfold UIdx.rejUpd UIdx.rejectAddRaw UIdx.rejectRemove
  simp only [this, h, beq_self_eq_true, if_true]
  rw [eraseIdx_append_of_length_le (Nat.le_refl _)]
  simp

theorem UIdx.accUpd_same (cols : List Nat) (ents : List UEntry) (p new : Nat) :
    UIdx.accUpd ⟨cols, ents, some p, none⟩ new = ⟨cols, ents.modify p (fun e => { e with id := new }), none, none⟩ := by
  simp [UIdx.accUpd, UIdx.acceptAddRaw, UIdx.acceptRemove]

theorem UIdx.rejUpd_same (cols : List Nat) (ents : List UEntry) (p new : Nat) (h : (ents.getD p default).id ≠ new) :
    UIdx.rejUpd ⟨cols, ents, some p, none⟩ new = ⟨cols, ents, none, none⟩ := by
  have h' : ¬ ((UIdx.idAt ⟨cols, ents, some p, none⟩ p == new) = true) := by
    unfold UIdx.idAt; simpa using h
  unfold UIdx.rejUpd UIdx.rejectAddRaw UIdx.rejectRemove
  simp only
  rw [if_neg h']

section updU2
variable {vis : Vis} (hc : Complete vis) (acc : Acc) {st0 : Store} (hnd : (ids st0).Nodup) {r : Row} (hr : r.id ∉ ids st0)
  {old : Row} (hold : old ∈ st0)
include hnd hr hold

/-- the new row has the key of the old one in this index: the entry of the old row is re-keyed (`ResetKey`) -/
theorem UIdx.upd_same (u : UIdx) (hu : UInv acc st0 u) (hk : keyEq u.cols r.vals old.vals = true) {p : Nat}
    (hp : p < u.ents.length) (hid : u.idAt p = old.id) :
    UInv acc (updStore st0 r old.id) (UIdx.accUpd { u with posAdd := some p } r.id) ∧
    UIdx.rejUpd { u with posAdd := some p } r.id = u ∧
    ∀ y ∈ st0, y.id ≠ old.id → keyEq u.cols r.vals y.vals = false := by
  have holdin : old.id ∈ ids st0 := mem_ids_iff.mpr ⟨old, hold, rfl⟩
  have hne : r.id ≠ old.id := fun e => hr (e ▸ holdin)
  have hnde : (u.ents.map (·.id)).Nodup := hu.perm.nodup_iff.mpr hnd
  obtain ⟨A, B, hsplit, hA⟩ := split_at u.ents p hp
  subst hA
  have heid : u.ents[A.length].id = old.id := by rw [← u.idAt_lt hp]; exact hid
  have hustruct : u = ⟨u.cols, u.ents, none, none⟩ := by
    have h1 := hu.noPos.1
    have h2 := hu.noPos.2
    cases u with
    | mk c e pa pr => simp only at h1 h2; subst h1 h2; rfl
  refine ⟨?_, ?_, ?_⟩
  · have hacc : UIdx.accUpd { u with posAdd := some A.length } r.id =
        ⟨u.cols, A ++ { u.ents[A.length] with id := r.id } :: B, none, none⟩ := by
      conv_lhs => rw [hustruct]
      show UIdx.accUpd ⟨u.cols, u.ents, some A.length, none⟩ r.id = _
      rw [UIdx.accUpd_same, modify_split u.ents A B _ _ hsplit]
    rw [hacc]
    have hmapid : u.ents.map (·.id) = A.map (·.id) ++ old.id :: B.map (·.id) := by
      conv_lhs => rw [hsplit]
      simp [heid]
    have hnotA : old.id ∉ A.map (·.id) := by
      rw [hmapid, nodup_append] at hnde
      intro h; exact hnde.2.2 _ h _ mem_cons_self rfl
    have hnotB : old.id ∉ B.map (·.id) := by
      rw [hmapid, nodup_append, nodup_cons] at hnde
      exact hnde.2.1.1
    have hAB : (A.map (·.id) ++ B.map (·.id)).Perm ((ids st0).filter (fun x => x != old.id)) := by
      have h1 := hu.perm.filter (fun x => x != old.id)
      rw [hmapid, filter_append, filter_cons_of_neg (by simp)] at h1
      rw [filter_eq_self.mpr (fun x hx => by have : x ≠ old.id := fun e => hnotA (e ▸ hx); simpa using this),
        filter_eq_self.mpr (fun x hx => by have : x ≠ old.id := fun e => hnotB (e ▸ hx); simpa using this)] at h1
      exact h1
    have hother : ∀ e ∈ A ++ B, e ∈ u.ents ∧ e.id ∈ ids st0 ∧ e.id ≠ old.id := by
      intro e he
      have hmem : e ∈ u.ents := by
        rw [hsplit]; rcases mem_append.mp he with h | h
        · exact mem_append_left _ h
        · exact mem_append_right _ (mem_cons_of_mem _ h)
      refine ⟨hmem, hu.perm.mem_iff.mp (mem_map_of_mem hmem), ?_⟩
      rcases mem_append.mp he with h | h
      · exact fun e' => hnotA (e' ▸ mem_map_of_mem h)
      · exact fun e' => hnotB (e' ▸ mem_map_of_mem h)
    refine ⟨hu.colsNodup, ⟨rfl, rfl⟩, ?_, ?_, ?_⟩
    · show ((A ++ { u.ents[A.length] with id := r.id } :: B).map (·.id)).Perm _
      rw [ids_updStore st0 r old.id hne, map_append, map_cons]
      refine perm_middle.trans ?_
      refine (Perm.cons _ hAB).trans ?_
      exact (perm_append_singleton _ _).symm
    · intro e he
      have he' : e ∈ A ++ { u.ents[A.length] with id := r.id } :: B := he
      show e.h0 = hashVals acc u.cols (valsOf (updStore st0 r old.id) e.id)
      rcases mem_append.mp he' with h | h
      · obtain ⟨h1, h2, h3⟩ := hother e (mem_append_left _ h)
        rw [valsOf_updStore_old st0 r old.id h2 h3]; exact hu.hash e h1
      · rcases mem_cons.mp h with h | h
        · subst h
          simp only
          rw [valsOf_updStore_new st0 r old.id hr hne, hu.hash _ (getElem_mem hp), heid, valsOf_mem hnd hold]
          exact (hashVals_congr acc u.cols _ _ hk).symm
        · obtain ⟨h1, h2, h3⟩ := hother e (mem_append_right _ h)
          rw [valsOf_updStore_old st0 r old.id h2 h3]; exact hu.hash e h1
    · -- uniqueness: the new row stands for the old one
      have key : ∀ z ∈ ids (updStore st0 r old.id), ∃ z' ∈ ids st0, (z' = old.id ↔ z = r.id) ∧ (z ≠ r.id → z' = z) ∧
          keyEq u.cols (valsOf (updStore st0 r old.id) z) (valsOf st0 z') = true := by
        intro z hz
        rw [ids_updStore st0 r old.id hne] at hz
        rcases mem_append.mp hz with h | h
        · obtain ⟨h1, h2⟩ := mem_filter.mp h
          have h2' : z ≠ old.id := by simpa using h2
          have hzr : z ≠ r.id := fun e => hr (e ▸ h1)
          refine ⟨z, h1, ⟨fun e => absurd e h2', fun e => absurd e hzr⟩, fun _ => rfl, ?_⟩
          rw [valsOf_updStore_old st0 r old.id h1 h2']; exact keyEq_refl _ _
        · simp at h; subst h
          refine ⟨old.id, holdin, ⟨fun _ => rfl, fun _ => rfl⟩, fun e => absurd rfl e, ?_⟩
          rw [valsOf_updStore_new st0 r old.id hr hne, valsOf_mem hnd hold]; exact hk
      intro x hx y hy hxy
      replace hxy : keyEq u.cols (valsOf (updStore st0 r old.id) x) (valsOf (updStore st0 r old.id) y) = true := hxy
      obtain ⟨x', hx', hx1, hx2, hx3⟩ := key x hx
      obtain ⟨y', hy', hy1, hy2, hy3⟩ := key y hy
      have : x' = y' := hu.uniq x' hx' y' hy'
        (keyEq_trans _ _ _ _ (keyEq_trans _ _ _ _ (by rw [keyEq_symm]; exact hx3) hxy) hy3)
      by_cases hxr : x = r.id
      · have : y' = old.id := by rw [← this]; exact hx1.mpr hxr
        rw [hxr, hy1.mp this]
      · by_cases hyr : y = r.id
        · have : x' = old.id := by rw [this]; exact hy1.mpr hyr
          exact absurd (hx1.mp this) hxr
        · rw [← hx2 hxr, ← hy2 hyr, this]
  · conv_lhs => rw [hustruct]
    show UIdx.rejUpd ⟨u.cols, u.ents, some A.length, none⟩ r.id = _
    rw [UIdx.rejUpd_same _ _ _ _ (by
      have : (u.ents.getD A.length default).id = old.id := hid
      rw [this]; exact hne.symm)]
    exact hustruct.symm
  · intro y hy hyo
    by_contra hcon
    have hky : keyEq u.cols r.vals y.vals = true := by simpa using hcon
    have := hu.uniq old.id holdin y.id (mem_ids_iff.mpr ⟨y, hy, rfl⟩)
      (by rw [valsOf_mem hnd hold, valsOf_mem hnd hy]; exact keyEq_trans _ _ _ _ (by rw [keyEq_symm]; exact hk) hky)
    exact hyo this.symm

include hc

/-- the new row has a key no row has in this index: its entry is added and the entry of the old row removed -/
theorem UIdx.upd_new (u : UIdx) (hu : UInv acc st0 u) (hno : ∀ x ∈ st0, keyEq u.cols r.vals x.vals = false) :
    UInv acc (updStore st0 r old.id) (UIdx.accUpd ((uAdded acc u r.id r.vals).prepareRemove vis acc (st0 ++ [r]) old.id) r.id) ∧
    UIdx.rejUpd ((uAdded acc u r.id r.vals).prepareRemove vis acc (st0 ++ [r]) old.id) r.id = u := by
  have holdin : old.id ∈ ids st0 := mem_ids_iff.mpr ⟨old, hold, rfl⟩
  have hnd1 : (ids (st0 ++ [r])).Nodup := by
    rw [ids_append]
    exact nodup_append.mpr ⟨hnd, by simp, by intro a ha b hb; simp at hb; subst hb; exact fun e => hr (e ▸ ha)⟩
  have hu1 := UInv_add acc hnd hr u hu hno
  have hrem := UIdx.remove_spec hc acc hnd1 _ hu1 (raw := old.id) (by rw [ids_append]; simp [holdin])
  have hustruct : u = ⟨u.cols, u.ents, none, none⟩ := by
    have h1 := hu.noPos.1
    have h2 := hu.noPos.2
    cases u with
    | mk c e pa pr => simp only at h1 h2; subst h1 h2; rfl
  have hadded : uAdded acc u r.id r.vals = ⟨u.cols, u.ents ++ [⟨r.id, hashVals acc u.cols r.vals⟩], some u.ents.length, none⟩ := by
    unfold uAdded; rw [hu.noPos.2]
  constructor
  · have e : UIdx.accUpd ((uAdded acc u r.id r.vals).prepareRemove vis acc (st0 ++ [r]) old.id) r.id =
        ((uAdded acc u r.id r.vals).acceptAdd.prepareRemove vis acc (st0 ++ [r]) old.id).acceptRemove := by
      rw [hadded]
      show UIdx.accUpd ⟨u.cols, u.ents ++ [⟨r.id, hashVals acc u.cols r.vals⟩], some u.ents.length, _⟩ r.id = _
      rw [UIdx.accUpd_added _ _ _ _ _ (modify_split _ u.ents [] ⟨r.id, hashVals acc u.cols r.vals⟩ _ rfl)]
      rfl
    rw [e]; exact hrem
  · rw [hadded]
    show UIdx.rejUpd ⟨u.cols, u.ents ++ [⟨r.id, hashVals acc u.cols r.vals⟩], some u.ents.length, _⟩ r.id = _
    rw [UIdx.rejUpd_added _ _ _ _ _ rfl]
    exact hustruct.symm

end updU2

/-! ### the pass of `UpdateRaw(oldRaw, newRaw)` over the unique indexes -/

section updPassU
variable {vis : Vis} (hc : Complete vis) (acc : Acc) {st0 : Store} (hnd : (ids st0).Nodup) {r : Row} (hr : r.id ∉ ids st0)
  {old : Row} (hold : old ∈ st0)
include hc hnd hr hold

theorem uUpdAll_spec (f : Fault) : ∀ (us : List UIdx) (j : Nat), (∀ u ∈ us, UInv acc st0 u) →
    ((uUpdAll vis acc (st0 ++ [r]) old.id r.id f j us).1.map (fun u => u.rejUpd r.id) = us) ∧
    (match (uUpdAll vis acc (st0 ++ [r]) old.id r.id f j us).2 with
     | .none => (∀ u' ∈ (uUpdAll vis acc (st0 ++ [r]) old.id r.id f j us).1.map (fun u => u.accUpd r.id),
                    UInv acc (updStore st0 r old.id) u') ∧
                ∀ u ∈ us, ∀ y ∈ st0, y.id ≠ old.id → keyEq u.cols r.vals y.vals = false
     | .dup x jj => ∃ i u row, jj = j + i ∧ us[i]? = some u ∧ row ∈ st0 ∧ row.id = x ∧ x ≠ old.id ∧
                keyEq u.cols r.vals row.vals = true ∧
                ∀ i' u', i' < i → us[i']? = some u' → ∀ y ∈ st0, y.id ≠ old.id → keyEq u'.cols r.vals y.vals = false
     | .fault => f ≠ .none) := by
  have holdin : old.id ∈ ids st0 := mem_ids_iff.mpr ⟨old, hold, rfl⟩
  have hne : r.id ≠ old.id := fun e => hr (e ▸ holdin)
  intro us
  induction us with
  | nil => intro j _; simp [uUpdAll]
  | cons u us ih =>
    intro j hus
    have hu := hus u mem_cons_self
    have hrest := ih (j + 1) (fun u' hu' => hus u' (mem_cons_of_mem _ hu'))
    have hidrest : us.map (fun u => u.rejUpd r.id) = us := by
      rw [map_congr_left (fun u' hu' => UIdx.rejUpd_noPos u' r.id (hus u' (mem_cons_of_mem _ hu')).noPos)]; simp
    -- what the rest of the pass contributes once this index went through with the entry `u1`
    have cont : ∀ (u1 : UIdx), u1.rejUpd r.id = u → UInv acc (updStore st0 r old.id) (u1.accUpd r.id) →
        (∀ y ∈ st0, y.id ≠ old.id → keyEq u.cols r.vals y.vals = false) →
        ((Prod.map (u1 :: ·) id (uUpdAll vis acc (st0 ++ [r]) old.id r.id f (j + 1) us)).1.map (fun u => u.rejUpd r.id) = u :: us) ∧
        (match (Prod.map (u1 :: ·) id (uUpdAll vis acc (st0 ++ [r]) old.id r.id f (j + 1) us)).2 with
         | .none => (∀ u' ∈ (Prod.map (u1 :: ·) id (uUpdAll vis acc (st0 ++ [r]) old.id r.id f (j + 1) us)).1.map (fun u => u.accUpd r.id),
                        UInv acc (updStore st0 r old.id) u') ∧
                    ∀ u' ∈ u :: us, ∀ y ∈ st0, y.id ≠ old.id → keyEq u'.cols r.vals y.vals = false
         | .dup x jj => ∃ i u' row, jj = j + i ∧ (u :: us)[i]? = some u' ∧ row ∈ st0 ∧ row.id = x ∧ x ≠ old.id ∧
                    keyEq u'.cols r.vals row.vals = true ∧
                    ∀ i' u'', i' < i → (u :: us)[i']? = some u'' → ∀ y ∈ st0, y.id ≠ old.id → keyEq u''.cols r.vals y.vals = false
         | .fault => f ≠ .none) := by
      intro u1 hrej hacc hno
      simp only [Prod.map_fst, Prod.map_snd, id_eq, map_cons]
      refine ⟨by rw [hrej, hrest.1], ?_⟩
      have h2 := hrest.2
      cases hs : (uUpdAll vis acc (st0 ++ [r]) old.id r.id f (j + 1) us).2 with
      | none =>
        rw [hs] at h2
        simp only at h2 ⊢
        refine ⟨?_, ?_⟩
        · intro u' hu'
          rcases mem_cons.mp hu' with h | h
          · rw [h]; exact hacc
          · exact h2.1 u' h
        · intro u' hu' y hy hyo
          rcases mem_cons.mp hu' with h | h
          · rw [h]; exact hno y hy hyo
          · exact h2.2 u' h y hy hyo
      | dup x jj =>
        rw [hs] at h2
        simp only at h2 ⊢
        obtain ⟨i, u', row, hjj, hget, hrow, hid, hxo, hk, hprev⟩ := h2
        refine ⟨i + 1, u', row, by omega, by simpa using hget, hrow, hid, hxo, hk, ?_⟩
        intro i' u'' hi' hget' y hy hyo
        cases i' with
        | zero => simp at hget'; subst hget'; exact hno y hy hyo
        | succ i' => exact hprev i' u'' (by omega) (by simpa using hget') y hy hyo
      | fault =>
        rw [hs] at h2
        exact h2
    unfold uUpdAll
    rcases UIdx.add_upd hc acc hnd hr u hu old.id (f.hits j) with ⟨x, hx, p, hp, hidp, hk, he⟩ | ⟨hno, he⟩
    · rw [he]
      simp only
      by_cases hxo : x.id = old.id
      · -- the entry of the old row has the key of the new one
        have hxeq : x = old := by
          have h1 := rowOf_mem hnd hx
          have h2 := rowOf_mem hnd hold
          rw [hxo, h2] at h1; exact (Option.some.inj h1).symm
        subst hxeq
        have hc1 : ¬ ((x.id != r.id) = true ∧ (x.id != x.id) = true) := by simp
        rw [if_neg hc1]
        have hc2 : (x.id == r.id) = false := by simpa using hne.symm
        simp only [hc2, Bool.false_eq_true, if_false, if_true]
        obtain ⟨h1, h2, h3⟩ := UIdx.upd_same acc hnd hr hold u hu hk hp hidp
        exact cont _ h2 h1 h3
      · -- another row has the key: refused
        have hxr : x.id ≠ r.id := fun e => hr (e ▸ mem_ids_iff.mpr ⟨x, hx, rfl⟩)
        have hc1 : ((x.id != r.id) = true ∧ (x.id != old.id) = true) := by simp [hxr, hxo]
        rw [if_pos hc1]
        have hc3 : ¬ old.id = x.id := fun e => hxo e.symm
        simp only [if_neg hc3, map_cons]
        refine ⟨by rw [UIdx.rejUpd_noPos u r.id hu.noPos, hidrest], ?_⟩
        exact ⟨0, u, x, by simp, by simp, hx, rfl, hxo, hk, by intro i' u' hi'; omega⟩
    · rw [he]
      by_cases hf : f.hits j = true
      · rw [if_pos hf]
        simp only [map_cons]
        refine ⟨by rw [UIdx.rejUpd_noPos u r.id hu.noPos, hidrest], ?_⟩
        intro e; subst e; simp [Fault.hits] at hf
      · rw [if_neg hf]
        simp only
        have hc1 : ¬ ((r.id != r.id) = true ∧ (r.id != old.id) = true) := by simp
        rw [if_neg hc1]
        simp only [beq_self_eq_true, if_true]
        obtain ⟨h1, h2⟩ := UIdx.upd_new hc acc hnd hr hold u hu hno
        exact cont _ h2 h1 (fun y hy _ => hno y hy)

end updPassU

/-! ### one multi index under `UpdateRaw(oldRaw, newRaw)` -/

/-- `AcceptAdd()` + `AcceptRemove(oldRaw)` -/
def MIdx.accUpd (m : MIdx) (st : Store) (old : Nat) : MIdx := m.acceptAdd.acceptRemove st old
/-- `RejectAdd()` + `RejectRemove()` -/
def MIdx.rejUpd (m : MIdx) : MIdx := m.rejectAdd.rejectRemove

theorem MIdx.rejectAdd_kRem (m : MIdx) : m.rejectAdd.kRem = m.kRem := by
  unfold MIdx.rejectAdd; split
  · rfl
  · split <;> rfl

theorem MIdx.rejUpd_of_kRem (m : MIdx) (h : m.kRem = none) : m.rejUpd = m.rejectAdd := by
  have := m.rejectAdd_kRem
  rw [h] at this
  unfold MIdx.rejUpd MIdx.rejectRemove
  cases hm : m.rejectAdd with
  | mk c g a k => rw [hm] at this; simp only at this; subst this; rfl

theorem MIdx.rejUpd_prepare (vis : Vis) (acc : Acc) (st : Store) (m : MIdx) (raw : Nat) :
    (m.prepareRemove vis acc st raw).rejUpd = m.rejUpd := by
  unfold MIdx.rejUpd MIdx.prepareRemove MIdx.rejectAdd MIdx.rejectRemove
  simp only
  split
  · rfl
  · split <;> rfl

theorem MIdx.rejUpd_noPos (m : MIdx) (h : m.kAdd = none ∧ m.kRem = none) : m.rejUpd = m := by
  rw [m.rejUpd_of_kRem h.2, rejectAdd_noPos_m m h.1]

theorem MIdx.add_kRem (vis : Vis) (acc : Acc) (st : Store) (m : MIdx) (raw : Nat) (fail : Bool) :
    (m.add vis acc st raw fail).1.kRem = m.kRem := by
  unfold MIdx.add MIdx.pvAdd
  split
  · split
    · split <;> rfl
    · rfl
  · split <;> rfl

theorem MIdx.accUpd_prepare (vis : Vis) (acc : Acc) (st : Store) (m : MIdx) (raw : Nat) :
    (m.prepareRemove vis acc st raw).accUpd st raw = (m.acceptAdd.prepareRemove vis acc st raw).acceptRemove st raw := rfl

section updPassM
variable {vis : Vis} (hc : Complete vis) (acc : Acc) {st0 : Store} (hnd : (ids st0).Nodup) (hai : AddrInj st0)
  {r : Row} (hr : r.id ∉ ids st0) (hra : r.addr ∉ st0.map (·.addr)) {old : Row} (hold : old ∈ st0)
include hc hnd hai hr hra hold

theorem mUpdAll_spec (f : Fault) : ∀ (ms : List MIdx) (j : Nat), (∀ m ∈ ms, MInv acc st0 m) →
    Forall₂ MEquiv ms ((mUpdAll vis acc (st0 ++ [r]) old.id r.id f j ms).1.map MIdx.rejUpd) ∧
    (∀ m' ∈ (mUpdAll vis acc (st0 ++ [r]) old.id r.id f j ms).1.map MIdx.rejUpd, MInv acc st0 m') ∧
    (match (mUpdAll vis acc (st0 ++ [r]) old.id r.id f j ms).2 with
     | .none => ∀ m' ∈ (mUpdAll vis acc (st0 ++ [r]) old.id r.id f j ms).1.map (fun m => m.accUpd (st0 ++ [r]) old.id),
                  MInv acc (updStore st0 r old.id) m'
     | .dup _ _ => False
     | .fault => f ≠ .none) := by
  have holdin : old.id ∈ ids st0 := mem_ids_iff.mpr ⟨old, hold, rfl⟩
  have hnd1 : (ids (st0 ++ [r])).Nodup := by
    rw [ids_append]
    exact nodup_append.mpr ⟨hnd, by simp, by intro a ha b hb; simp at hb; subst hb; exact fun e => hr (e ▸ ha)⟩
  have hai1 : AddrInj (st0 ++ [r]) := by
    unfold AddrInj
    rw [map_append]
    exact nodup_append.mpr ⟨hai, by simp, by intro a ha b hb; simp at hb; subst hb; exact fun e => hra (e ▸ ha)⟩
  intro ms
  induction ms with
  | nil => intro j _; simp [mUpdAll]
  | cons m ms ih =>
    intro j hms
    have hm := hms m mem_cons_self
    have hrest := ih (j + 1) (fun m' hm' => hms m' (mem_cons_of_mem _ hm'))
    obtain ⟨hacc, hall⟩ := MIdx.add_spec hc acc hnd hai hr m hm
    obtain ⟨h2, hequiv, hinv⟩ := hall (f.hits j)
    have hkr : (m.add vis acc (st0 ++ [r]) r.id (f.hits j)).1.kRem = none := by
      rw [MIdx.add_kRem]; exact hm.noPos.2
    unfold mUpdAll
    by_cases hf : f.hits j = true
    · have : (m.add vis acc (st0 ++ [r]) r.id (f.hits j)).2 = false := by rw [h2, hf]; rfl
      rw [if_neg (by rw [this]; simp)]
      simp only [map_cons]
      have hid : ms.map MIdx.rejUpd = ms := by
        rw [map_congr_left (fun m' hm' => MIdx.rejUpd_noPos m' (hms m' (mem_cons_of_mem _ hm')).noPos)]; simp
      rw [hid, MIdx.rejUpd_of_kRem _ hkr]
      refine ⟨Forall₂.cons hequiv (forall₂_same.mpr (fun x _ => MEquiv.refl x)), ?_, ?_⟩
      · intro m' hm'
        rcases mem_cons.mp hm' with h | h
        · rw [h]; exact hinv
        · exact hms m' (mem_cons_of_mem _ h)
      · intro e; subst e; simp [Fault.hits] at hf
    · have hff : f.hits j = false := by simpa using hf
      have : (m.add vis acc (st0 ++ [r]) r.id (f.hits j)).2 = true := by rw [h2, hff]; rfl
      rw [if_pos this]
      simp only [Prod.map_fst, Prod.map_snd, id_eq, map_cons]
      rw [MIdx.rejUpd_prepare, MIdx.rejUpd_of_kRem _ hkr]
      refine ⟨Forall₂.cons hequiv hrest.1, ?_, ?_⟩
      · intro m' hm'
        rcases mem_cons.mp hm' with h | h
        · rw [h]; exact hinv
        · exact hrest.2.1 m' h
      · have h3 := hrest.2.2
        cases hs : (mUpdAll vis acc (st0 ++ [r]) old.id r.id f (j + 1) ms).2 with
        | none =>
          rw [hs] at h3
          simp only at h3 ⊢
          intro m' hm'
          rcases mem_cons.mp hm' with h | h
          · rw [h, MIdx.accUpd_prepare, hff]
            exact MIdx.remove_spec hc acc hnd1 hai1 _ hacc (by rw [ids_append]; simp [holdin])
          · exact h3 m' h
        | dup x jj => rw [hs] at h3; exact h3
        | fault => rw [hs] at h3; exact h3

end updPassM

/-! ### `DataIndexes::UpdateRaw(oldRaw, newRaw)`, `TryUpdate(rowNumber, row)` -/

section tryUpdate
variable {vis : Vis} (hc : Complete vis) (acc : Acc) (keep : Bool)
include hc

theorem updateRaw_spec (t : Table) (hinv : Inv acc keep t) (r : Row) (hr : r.id ∉ ids t.rows)
    (hra : r.addr ∉ t.rows.map (·.addr)) (old : Row) (hold : old ∈ t.rows) (f : Fault) :
    match (updateRaw vis acc t (t.rows ++ [r]) old.id r.id f).2 with
    | .none => (∀ u ∈ (updateRaw vis acc t (t.rows ++ [r]) old.id r.id f).1.uidx, UInv acc (updStore t.rows r old.id) u) ∧
               (∀ m ∈ (updateRaw vis acc t (t.rows ++ [r]) old.id r.id f).1.midx, MInv acc (updStore t.rows r old.id) m) ∧
               (∀ u ∈ t.uidx, ∀ y ∈ t.rows, y.id ≠ old.id → keyEq u.cols r.vals y.vals = false)
    | .dup x j => TEquiv t (updateRaw vis acc t (t.rows ++ [r]) old.id r.id f).1 ∧
               Inv acc keep (updateRaw vis acc t (t.rows ++ [r]) old.id r.id f).1 ∧
               ∃ u row, t.uidx[j]? = some u ∧ row ∈ t.rows ∧ row.id = x ∧ x ≠ old.id ∧ keyEq u.cols r.vals row.vals = true ∧
                 ∀ i' u', i' < j → t.uidx[i']? = some u' → ∀ y ∈ t.rows, y.id ≠ old.id → keyEq u'.cols r.vals y.vals = false
    | .fault => TEquiv t (updateRaw vis acc t (t.rows ++ [r]) old.id r.id f).1 ∧
               Inv acc keep (updateRaw vis acc t (t.rows ++ [r]) old.id r.id f).1 ∧ f ≠ .none := by
  have hU := uUpdAll_spec hc acc hinv.idsNodup hr hold f t.uidx 0 hinv.uinv
  have hM := mUpdAll_spec hc acc hinv.idsNodup hinv.addrInj hr hra hold f t.midx t.uidx.length hinv.minv
  have hidm : t.midx.map MIdx.rejUpd = t.midx := by
    rw [map_congr_left (fun m' hm' => MIdx.rejUpd_noPos m' (hinv.minv m' hm').noPos)]; simp
  have hdef : updateRaw vis acc t (t.rows ++ [r]) old.id r.id f =
      match uUpdAll vis acc (t.rows ++ [r]) old.id r.id f 0 t.uidx with
      | (us, .none) =>
        match mUpdAll vis acc (t.rows ++ [r]) old.id r.id f t.uidx.length t.midx with
        | (ms, .none) => ({ t with uidx := us.map (fun u => u.accUpd r.id), midx := ms.map (fun m => m.accUpd (t.rows ++ [r]) old.id) }, .none)
        | (ms, s) => ({ t with uidx := us.map (fun u => u.rejUpd r.id), midx := ms.map MIdx.rejUpd }, s)
      | (us, s) => ({ t with uidx := us.map (fun u => u.rejUpd r.id), midx := t.midx.map MIdx.rejUpd }, s) := rfl
  rw [hdef]
  cases hs : (uUpdAll vis acc (t.rows ++ [r]) old.id r.id f 0 t.uidx).2 with
  | none =>
    rw [hs] at hU
    obtain ⟨hU1, hU2, hU3⟩ := hU
    have e : uUpdAll vis acc (t.rows ++ [r]) old.id r.id f 0 t.uidx =
        ((uUpdAll vis acc (t.rows ++ [r]) old.id r.id f 0 t.uidx).1, Stop.none) := by rw [← hs]
    rw [e]
    simp only
    cases hs2 : (mUpdAll vis acc (t.rows ++ [r]) old.id r.id f t.uidx.length t.midx).2 with
    | none =>
      rw [hs2] at hM
      obtain ⟨_, _, hM3⟩ := hM
      have e2 : mUpdAll vis acc (t.rows ++ [r]) old.id r.id f t.uidx.length t.midx =
          ((mUpdAll vis acc (t.rows ++ [r]) old.id r.id f t.uidx.length t.midx).1, Stop.none) := by rw [← hs2]
      rw [e2]
      exact ⟨hU2, hM3, hU3⟩
    | dup x jj => rw [hs2] at hM; exact absurd hM.2.2 (by simp)
    | fault =>
      rw [hs2] at hM
      obtain ⟨hM1, hM2, hM3⟩ := hM
      have e2 : mUpdAll vis acc (t.rows ++ [r]) old.id r.id f t.uidx.length t.midx =
          ((mUpdAll vis acc (t.rows ++ [r]) old.id r.id f t.uidx.length t.midx).1, Stop.fault) := by rw [← hs2]
      rw [e2]
      simp only
      rw [hU1]
      exact ⟨⟨rfl, rfl, hM1⟩, ⟨hinv.idsNodup, hinv.addrInj, hinv.nums, hinv.uinv, hM2⟩, hM3⟩
  | dup x jj =>
    rw [hs] at hU
    obtain ⟨hU1, i, u, row, hjj, hget, hrow, hid, hxo, hk, hprev⟩ := hU
    have e : uUpdAll vis acc (t.rows ++ [r]) old.id r.id f 0 t.uidx =
        ((uUpdAll vis acc (t.rows ++ [r]) old.id r.id f 0 t.uidx).1, Stop.dup x jj) := by rw [← hs]
    rw [e]
    simp only
    rw [hU1, hidm]
    refine ⟨TEquiv.refl t, hinv, u, row, by rw [hjj]; simpa using hget, hrow, hid, hxo, hk, ?_⟩
    intro i' u' hi' hget' y hy hyo
    exact hprev i' u' (by omega) hget' y hy hyo
  | fault =>
    rw [hs] at hU
    obtain ⟨hU1, hU2⟩ := hU
    have e : uUpdAll vis acc (t.rows ++ [r]) old.id r.id f 0 t.uidx =
        ((uUpdAll vis acc (t.rows ++ [r]) old.id r.id f 0 t.uidx).1, Stop.fault) := by rw [← hs]
    rw [e]
    simp only
    rw [hU1, hidm]
    exact ⟨TEquiv.refl t, hinv, hU2⟩

omit hc in
theorem updStore_perm_set {st : Store} (hnd : (ids st).Nodup) {r : Row} (hr : r.id ∉ ids st) {n : Nat} (hn : n < st.length) :
    (updStore st r st[n].id).Perm (st.set n r) := by
  have hnd1 : (ids (st ++ [r])).Nodup := by
    rw [ids_append]
    exact nodup_append.mpr ⟨hnd, by simp, by intro a ha b hb; simp at hb; subst hb; exact fun e => hr (e ▸ ha)⟩
  have hn1 : n < (st ++ [r]).length := by simp; omega
  have hget : (st ++ [r])[n] = st[n] := getElem_append_left hn
  unfold updStore
  rw [← hget, keepRows_ne_eq_eraseIdx hnd1 hn1, eraseIdx_append_of_lt_length hn, eraseIdx_eq_take_drop_succ,
    set_eq_take_append_cons_drop, if_pos hn, append_assoc]
  exact Perm.append_left _ (perm_append_singleton _ _)

/-- **`TryUpdate(rowNumber, row)`** (new raw: fresh identity, address not in use): the invariant is kept; `ok` only if no
    *other* row has the key of the new row in a unique index, then the new row stands at position `n` with number `n`;
    `dup x j`: table unchanged, `x` is another row with the key of the new one in unique index `j`, the first such
    index; `bad_alloc` only under a fault, table unchanged; no row `n`: `out_of_range`, nothing happens. -/
theorem tryUpdate_spec (t : Table) (hinv : Inv acc keep t) (n : Nat) (r : Row) (hr : r.id ∉ ids t.rows)
    (hra : r.addr ∉ t.rows.map (·.addr)) (f : Fault) :
    Inv acc keep (tryUpdate vis acc keep t n r f).1 ∧
    match t.rows[n]? with
    | none => tryUpdate vis acc keep t n r f = (t, .outOfRange)
    | some old =>
      match (tryUpdate vis acc keep t n r f).2 with
      | .ok => (tryUpdate vis acc keep t n r f).1.rows = t.rows.set n (setNum keep r n) ∧
               (∀ u ∈ t.uidx, ∀ y ∈ t.rows, y.id ≠ old.id → keyEq u.cols r.vals y.vals = false)
      | .dup x j => TEquiv t (tryUpdate vis acc keep t n r f).1 ∧
               ∃ u row, t.uidx[j]? = some u ∧ row ∈ t.rows ∧ row.id = x ∧ x ≠ old.id ∧ keyEq u.cols r.vals row.vals = true ∧
                 ∀ i' u', i' < j → t.uidx[i']? = some u' → ∀ y ∈ t.rows, y.id ≠ old.id → keyEq u'.cols r.vals y.vals = false
      | .badAlloc => TEquiv t (tryUpdate vis acc keep t n r f).1 ∧ f ≠ .none
      | .outOfRange => False := by
  unfold tryUpdate
  cases hro : t.rows[n]? with
  | none => exact ⟨hinv, rfl⟩
  | some old =>
    simp only
    obtain ⟨hn, hrn⟩ := List.getElem?_eq_some_iff.mp hro
    have hold : old ∈ t.rows := hrn ▸ getElem_mem hn
    by_cases hf : f = .pre
    · rw [if_pos hf]
      exact ⟨hinv, TEquiv.refl t, by rw [hf]; simp⟩
    · rw [if_neg hf]
      have h := updateRaw_spec hc acc keep t hinv r hr hra old hold f
      cases hs : (updateRaw vis acc t (t.rows ++ [r]) old.id r.id f).2 with
      | none =>
        rw [hs] at h
        obtain ⟨hu, hm, hno⟩ := h
        have e : updateRaw vis acc t (t.rows ++ [r]) old.id r.id f =
            ((updateRaw vis acc t (t.rows ++ [r]) old.id r.id f).1, Stop.none) := by rw [← hs]
        rw [e]
        simp only
        refine ⟨?_, trivial, hno⟩
        have hnd1 : (ids (t.rows ++ [r])).Nodup := by
          rw [ids_append]
          exact nodup_append.mpr ⟨hinv.idsNodup, by simp, by intro a ha b hb; simp at hb; subst hb; exact fun e => hr (e ▸ ha)⟩
        have hai1 : AddrInj (t.rows ++ [r]) := by
          unfold AddrInj
          rw [map_append]
          exact nodup_append.mpr ⟨hinv.addrInj, by simp, by intro a ha b hb; simp at hb; subst hb; exact fun e => hra (e ▸ ha)⟩
        have hrel : Forall₂ RowRel (t.rows.set n r) (t.rows.set n (setNum keep r n)) := by
          rw [set_eq_take_append_cons_drop, set_eq_take_append_cons_drop, if_pos hn, if_pos hn]
          exact rel_append (forall₂_rowRel_refl _)
            (Forall₂.cons ⟨setNum_id _ _ _, setNum_vals _ _ _, setNum_addr _ _ _⟩ (forall₂_rowRel_refl _))
        refine Inv_of_perm_rel (t := { (updateRaw vis acc t (t.rows ++ [r]) old.id r.id f).1 with rows := t.rows.set n (setNum keep r n) })
          (keepRows_nodup hnd1 _) (addrInj_keepRows hai1 _) (by rw [← hrn]; exact updStore_perm_set hinv.idsNodup hr hn) hrel ?_ hu hm
        intro hk i x hx
        subst hk
        have hx' : (t.rows.set n (setNum true r n))[i]? = some x := hx
        rw [getElem?_set] at hx'
        split at hx'
        · rename_i hni
          simp only [Option.some.injEq] at hx'; rw [← hx', setNum_num, hni]
        · exact hinv.nums rfl i x hx'
      | dup x j =>
        rw [hs] at h
        have e : updateRaw vis acc t (t.rows ++ [r]) old.id r.id f =
            ((updateRaw vis acc t (t.rows ++ [r]) old.id r.id f).1, Stop.dup x j) := by rw [← hs]
        rw [e]
        exact ⟨h.2.1, h.1, h.2.2⟩
      | fault =>
        rw [hs] at h
        have e : updateRaw vis acc t (t.rows ++ [r]) old.id r.id f =
            ((updateRaw vis acc t (t.rows ++ [r]) old.id r.id f).1, Stop.fault) := by rw [← hs]
        rw [e]
        exact ⟨h.2.1, h.1, h.2.2⟩

end tryUpdate
end Momo.Table
