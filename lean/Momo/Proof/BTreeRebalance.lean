import Momo.Proof.BTreeAdd
/-!
  C02, rebalancing: every merge step of `pvRebalance(parentNode, index, savedNode)`, the root collapse and the whole
  loop of `pvRebalance(node, savedNode, fast)` keep the in-order list, the structure and the capacities; the saved
  leaf stays a leaf of the tree (possibly longer to the right) with the same number of elements before it, so the
  iterator `(savedNode, itemIndex)` returned by the removal functions denotes the same in-order index. Core Lean only.
-/
namespace Momo.BTree
open Node
variable {α : Type}

/-! ### merged node -/

theorem inter_append (cs1 cs2 : List (Node α)) (is1 is2 : List α) (sep : α) (h : cs1.length = is1.length + 1) :
    inter (cs1 ++ cs2) (is1 ++ sep :: is2) = inter cs1 is1 ++ sep :: inter cs2 is2 := by
  induction cs1 generalizing is1 with
  | nil => simp at h
  | cons c cs ih =>
    cases is1 with
    | nil =>
      simp at h; subst h; simp
    | cons s is' =>
      simp only [List.cons_append, inter_cons_cons, ih is' (by simpa using h), List.append_assoc]

theorem mergeNodes_toList {d : Nat} (n1 n2 : Node α) (sep : α) (h1 : Bal d n1) (h2 : Bal d n2) :
    toList (mergeNodes n1 sep n2) = toList n1 ++ sep :: toList n2 := by
  cases h1 with
  | leaf cap is =>
    obtain ⟨cap2, is2, rfl⟩ := h2.zero_isLeaf
    simp [mergeNodes, Node.items]
  | inner d' is cs hlen hall =>
    cases h2 with
    | inner _ is2 cs2 hlen2 hall2 =>
      simp [mergeNodes, Node.items, Node.children, inter_append cs cs2 is is2 sep hlen]

theorem mergeNodes_bal {d : Nat} (n1 n2 : Node α) (sep : α) (h1 : Bal d n1) (h2 : Bal d n2) :
    Bal d (mergeNodes n1 sep n2) := by
  cases h1 with
  | leaf cap is => exact Bal.leaf _ _
  | inner d' is cs hlen hall =>
    cases h2 with
    | inner _ is2 cs2 hlen2 hall2 =>
      simp only [mergeNodes, Node.items, Node.children]
      refine Bal.inner d' _ _ (by simp; omega) ?_
      intro c hc
      rcases List.mem_append.mp hc with h | h
      · exact hall c h
      · exact hall2 c h

theorem mergeNodes_size {d : Nat} (n1 n2 : Node α) (sep : α) (h1 : Bal d n1) (h2 : Bal d n2) :
    size (mergeNodes n1 sep n2) = size n1 + 1 + size n2 := by
  simp only [size, mergeNodes_toList n1 n2 sep h1 h2]; simp; omega

theorem mergeNodes_caps (cfg : Cfg) (n1 n2 : Node α) (sep : α) (h1 : Caps cfg.maxCap n1) (h2 : Caps cfg.maxCap n2)
    (hfit : n1.count + n2.count + 1 ≤ capOf cfg n1) : Caps cfg.maxCap (mergeNodes n1 sep n2) := by
  cases h1 with
  | leaf cap is hc1 hc2 =>
    simp only [mergeNodes]
    refine Caps.leaf _ _ ?_ hc2
    cases n2 <;> simp [Node.items, Node.count, capOf] at hfit ⊢ <;> omega
  | inner is cs hc1 hall =>
    simp only [mergeNodes]
    refine Caps.inner _ _ ?_ ?_
    · cases n2 <;> simp [Node.items, Node.count, capOf] at hfit ⊢ <;> omega
    · intro c hc
      rcases List.mem_append.mp hc with h | h
      · exact hall c h
      · cases h2 with
        | leaf _ _ _ _ => simp [Node.children] at h
        | inner _ _ _ hall2 => exact hall2 c (by simpa [Node.children] using h)

/-! ### merging children `i` and `i+1` of an internal node -/

/-- the children after the merge -/
def mergedChildren (cs : List (Node α)) (i : Nat) (m : Node α) : List (Node α) := cs.take i ++ m :: cs.drop (i + 2)

theorem inter_merge (cs : List (Node α)) (is : List α) (i : Nat) (n1 n2 m : Node α) (sep : α)
    (h1 : cs[i]? = some n1) (h2 : cs[i+1]? = some n2) (hs : is[i]? = some sep)
    (hm : toList m = toList n1 ++ sep :: toList n2) :
    inter (mergedChildren cs i m) (is.eraseIdx i) = inter cs is := by
  induction cs generalizing is i with
  | nil => simp at h1
  | cons c cs ih =>
    cases is with
    | nil => simp at hs
    | cons s is' =>
      cases i with
      | zero =>
        cases cs with
        | nil => simp at h2
        | cons c2 cs2 =>
          simp at h1 h2 hs; subst h1; subst h2; subst hs
          cases is' <;> simp [mergedChildren, hm]
      | succ j =>
        have := ih is' j (by simpa using h1) (by simpa using h2) (by simpa using hs)
        simp only [mergedChildren] at this ⊢
        simp only [List.take_succ_cons, List.drop_succ_cons, List.eraseIdx_cons_succ, List.cons_append,
          inter_cons_cons, this]

theorem mergedChildren_length (cs : List (Node α)) (i : Nat) (m : Node α) (h : i + 1 < cs.length) :
    (mergedChildren cs i m).length + 1 = cs.length := by
  simp [mergedChildren]; omega

theorem mergedChildren_mem (cs : List (Node α)) (i : Nat) (m x : Node α) (hx : x ∈ mergedChildren cs i m) :
    x ∈ cs ∨ x = m := by
  simp only [mergedChildren, List.mem_append, List.mem_cons] at hx
  rcases hx with hx | rfl | hx
  · exact Or.inl (List.mem_of_mem_take hx)
  · exact Or.inr rfl
  · exact Or.inl (List.mem_of_mem_drop hx)

theorem mergedChildren_getElem_lt (cs : List (Node α)) (i j : Nat) (m : Node α) (hj : j < i) (hi : i < cs.length) :
    (mergedChildren cs i m)[j]? = cs[j]? := by
  simp only [mergedChildren]
  rw [List.getElem?_append_left (by simp; omega), List.getElem?_take]; simp [hj]

theorem mergedChildren_getElem_at (cs : List (Node α)) (i : Nat) (m : Node α) (hi : i < cs.length) :
    (mergedChildren cs i m)[i]? = some m := by
  have h : (cs.take i).length = i := by simp; omega
  simp only [mergedChildren]
  rw [List.getElem?_append_right (by omega), h]; simp

theorem mergedChildren_getElem_gt (cs : List (Node α)) (i j : Nat) (m : Node α) (hj : i + 1 < j) (hi : i < cs.length) :
    (mergedChildren cs i m)[j - 1]? = cs[j]? := by
  have h : (cs.take i).length = i := by simp; omega
  simp only [mergedChildren]
  rw [List.getElem?_append_right (by omega), h]
  have : j - 1 - i = (j - 2 - i) + 1 := by omega
  rw [this, List.getElem?_cons_succ, List.getElem?_drop]
  congr 1; omega

theorem sum_take_mergedChildren_le (cs : List (Node α)) (i j : Nat) (m : Node α) (hj : j ≤ i) (hi : i < cs.length) :
    (((mergedChildren cs i m).take j).map (fun c => size c)).sum = ((cs.take j).map (fun c => size c)).sum := by
  simp only [mergedChildren]
  rw [List.take_append_of_le_length (by simp; omega), List.take_take]
  congr 3; omega

theorem take_length_add (a b : List α) (k : Nat) : (a ++ b).take (a.length + k) = a ++ b.take k := by
  rw [List.take_append]
  simp [List.take_of_length_le]

theorem sum_take_mergedChildren_gt (cs : List (Node α)) (i j : Nat) (n1 n2 m : Node α) (hj : i + 1 < j)
    (h1 : cs[i]? = some n1) (h2 : cs[i+1]? = some n2) (hm : size m = size n1 + 1 + size n2) :
    (((mergedChildren cs i m).take (j - 1)).map (fun c => size c)).sum = ((cs.take j).map (fun c => size c)).sum + 1 := by
  have hi : i < cs.length := lt_of_getElem? h1
  have h : (cs.take i).length = i := by simp; omega
  have e1 : j - 1 = (cs.take i).length + ((j - 2 - i) + 1) := by omega
  have e2 : j = (i + 2) + (j - 2 - i) := by omega
  have s1 := sum_take_split cs (i + 2) (j - 2 - i)
  rw [← e2] at s1
  have s2 : ((cs.take (i+2)).map (fun c => size c)).sum = ((cs.take (i+1)).map (fun c => size c)).sum + size n2 :=
    sum_take_succ cs (i+1) n2 h2
  have s3 := sum_take_succ cs i n1 h1
  simp only [mergedChildren]
  rw [e1, take_length_add]
  simp only [List.take_succ_cons, List.map_append, List.map_cons, List.sum_append, List.sum_cons]
  omega

/-- relation "the saved leaf survived": it is a leaf of the new tree, at least as long, with the same number of
    elements before it -/
def SavedOk (n : Node α) (saved : Option (List Nat)) (n' : Node α) (saved' : Option (List Nat)) : Prop :=
  ∀ sp cap its, saved = some sp → nodeAt? n sp = some (leaf cap its) →
    ∃ sp' cap' its', saved' = some sp' ∧ nodeAt? n' sp' = some (leaf cap' its') ∧ its.length ≤ its'.length ∧
      offsetOf n' sp' = offsetOf n sp

theorem SavedOk.refl (n : Node α) (saved : Option (List Nat)) : SavedOk n saved n saved := by
  intro sp cap its h1 h2
  exact ⟨sp, cap, its, h1, h2, Nat.le_refl _, rfl⟩

theorem SavedOk.trans {n n1 n2 : Node α} {s s1 s2 : Option (List Nat)} (h1 : SavedOk n s n1 s1)
    (h2 : SavedOk n1 s1 n2 s2) : SavedOk n s n2 s2 := by
  intro sp cap its hs hn
  obtain ⟨sp1, cap1, its1, e1, e2, e3, e4⟩ := h1 sp cap its hs hn
  obtain ⟨sp2, cap2, its2, f1, f2, f3, f4⟩ := h2 sp1 cap1 its1 e1 e2
  exact ⟨sp2, cap2, its2, f1, f2, by omega, by omega⟩

theorem offsetOf_mergeNodes_left (n1 n2 : Node α) (sep : α) (s : List Nat) (cap : Nat) (its : List α)
    (h : nodeAt? n1 s = some (leaf cap its)) :
    ∃ cap' its', nodeAt? (mergeNodes n1 sep n2) s = some (leaf cap' its') ∧ its.length ≤ its'.length ∧
      offsetOf (mergeNodes n1 sep n2) s = offsetOf n1 s := by
  cases n1 with
  | leaf cap1 is1 =>
    cases s with
    | nil =>
      simp at h
      exact ⟨cap1, is1 ++ sep :: n2.items, by simp [mergeNodes], by rw [← h.2]; simp, by simp⟩
    | cons k s' => simp at h
  | inner is1 cs1 =>
    cases s with
    | nil => simp at h
    | cons k s' =>
      simp only [nodeAt?_inner_cons] at h
      cases hk : cs1[k]? with
      | none => simp [hk] at h
      | some ck =>
        simp only [hk] at h
        have hkl := lt_of_getElem? hk
        have hk' : (cs1 ++ n2.children)[k]? = some ck := by rw [List.getElem?_append_left hkl]; exact hk
        refine ⟨cap, its, ?_, Nat.le_refl _, ?_⟩
        · simp only [mergeNodes]; rw [nodeAt?_inner_cons' hk']; exact h
        · simp only [mergeNodes]
          rw [offsetOf_inner_cons' hk', offsetOf_inner_cons' hk, List.take_append_of_le_length (by omega)]

theorem offsetOf_mergeNodes_right {d : Nat} (n1 n2 : Node α) (sep : α) (k : Nat) (s' : List Nat) (cap : Nat)
    (its : List α) (hb1 : Bal d n1) (hb2 : Bal d n2) (h : nodeAt? n2 (k :: s') = some (leaf cap its)) :
    nodeAt? (mergeNodes n1 sep n2) ((k + n1.count + 1) :: s') = some (leaf cap its) ∧
      offsetOf (mergeNodes n1 sep n2) ((k + n1.count + 1) :: s') = size n1 + 1 + offsetOf n2 (k :: s') := by
  cases hb2 with
  | leaf cap2 is2 => simp at h
  | inner d' is2 cs2 hlen2 hall2 =>
    cases hb1 with
    | inner _ is1 cs1 hlen1 hall1 =>
      simp only [nodeAt?_inner_cons] at h
      cases hk : cs2[k]? with
      | none => simp [hk] at h
      | some ck =>
        simp only [hk] at h
        have hk' : (cs1 ++ cs2)[k + is1.length + 1]? = some ck := by
          rw [List.getElem?_append_right (by omega)]
          have : k + is1.length + 1 - cs1.length = k := by omega
          rw [this]; exact hk
        simp only [mergeNodes, Node.count, Node.children]
        refine ⟨by rw [nodeAt?_inner_cons' hk']; exact h, ?_⟩
        rw [offsetOf_inner_cons' hk', offsetOf_inner_cons' hk, size_inner is1 cs1 hlen1]
        have e : k + is1.length + 1 = cs1.length + k := by omega
        rw [e, List.take_append]
        have : cs1.length + k - cs1.length = k := by omega
        rw [this, List.take_of_length_le (by omega : cs1.length ≤ cs1.length + k)]
        simp only [List.map_append, List.sum_append]
        omega

/-- `pvRebalance(parentNode, i + 1, savedNode)` when it merges: same in-order list, same structure, the saved leaf
    survives -/
theorem tryMerge_spec (cfg : Cfg) {d : Nat} (items : List α) (cs : List (Node α)) (i : Nat)
    (saved : Option (List Nat)) (n' : Node α) (saved' : Option (List Nat))
    (hb : Bal (d+1) (inner items cs)) (h : tryMerge cfg items cs i saved = some (n', saved')) :
    toList n' = inter cs items ∧ Bal (d+1) n' ∧ SavedOk (inner items cs) saved n' saved' := by
  have hlen := hb.inner_len
  have hall := hb.inner_child
  unfold tryMerge at h
  split at h
  · rename_i sep n1 n2 hs h1 h2
    split at h
    · cases h
    · rename_i hns
      split at h
      · cases h
      · rename_i hfit
        cases h
        have hi : i < cs.length := lt_of_getElem? h1
        have hi2 : i + 1 < cs.length := lt_of_getElem? h2
        have hb1 := hall n1 (List.mem_of_getElem? h1)
        have hb2 := hall n2 (List.mem_of_getElem? h2)
        have hmt := mergeNodes_toList n1 n2 sep hb1 hb2
        have hms := mergeNodes_size n1 n2 sep hb1 hb2
        have hfold : cs.take i ++ mergeNodes n1 sep n2 :: cs.drop (i + 2) = mergedChildren cs i (mergeNodes n1 sep n2) := rfl
        rw [hfold]
        have hil : i < items.length := lt_of_getElem? hs
        refine ⟨?_, ?_, ?_⟩
        · rw [toList_inner]; exact inter_merge cs items i n1 n2 _ sep h1 h2 hs hmt
        · refine Bal.inner d _ _ ?_ ?_
          · have := mergedChildren_length cs i (mergeNodes n1 sep n2) hi2
            rw [List.length_eraseIdx_of_lt hil]; omega
          · intro x hx
            rcases mergedChildren_mem cs i _ x hx with hx | rfl
            · exact hall x hx
            · exact mergeNodes_bal n1 n2 sep hb1 hb2
        · intro sp cap its hsp hnode
          subst hsp
          cases sp with
          | nil => simp at hnode
          | cons j s =>
            simp only [nodeAt?_inner_cons] at hnode
            cases hj : cs[j]? with
            | none => simp [hj] at hnode
            | some cj =>
              simp only [hj] at hnode
              simp only [Option.map_some, mergeSaved]
              by_cases hji : j ≤ i
              · simp only [hji, if_true]
                by_cases hjlt : j < i
                · have hg := mergedChildren_getElem_lt cs i j (mergeNodes n1 sep n2) hjlt hi
                  rw [hj] at hg
                  refine ⟨j :: s, cap, its, rfl, by rw [nodeAt?_inner_cons' hg]; exact hnode, Nat.le_refl _, ?_⟩
                  rw [offsetOf_inner_cons' hg, offsetOf_inner_cons' hj,
                    sum_take_mergedChildren_le cs i j _ (by omega) hi]
                · have hje : j = i := by omega
                  subst hje
                  rw [h1] at hj; cases hj
                  have hg := mergedChildren_getElem_at cs j (mergeNodes n1 sep n2) hi
                  obtain ⟨cap', its', e1, e2, e3⟩ := offsetOf_mergeNodes_left n1 n2 sep s cap its hnode
                  refine ⟨j :: s, cap', its', rfl, by rw [nodeAt?_inner_cons' hg]; exact e1, e2, ?_⟩
                  rw [offsetOf_inner_cons' hg, offsetOf_inner_cons' h1,
                    sum_take_mergedChildren_le cs j j _ (Nat.le_refl _) hi, e3]
              · simp only [hji, if_false]
                by_cases hje : j = i + 1
                · subst hje
                  simp only [if_true]
                  rw [h2] at hj; cases hj
                  cases s with
                  | nil => exact absurd rfl hns
                  | cons k s' =>
                    have hg := mergedChildren_getElem_at cs i (mergeNodes n1 sep n2) hi
                    obtain ⟨e1, e2⟩ := offsetOf_mergeNodes_right n1 n2 sep k s' cap its hb1 hb2 hnode
                    refine ⟨i :: (k + n1.count + 1) :: s', cap, its, rfl, by rw [nodeAt?_inner_cons' hg]; exact e1,
                      Nat.le_refl _, ?_⟩
                    rw [offsetOf_inner_cons' hg, offsetOf_inner_cons' h2,
                      sum_take_mergedChildren_le cs i i _ (Nat.le_refl _) hi, e2, sum_take_succ cs i n1 h1]
                    omega
                · simp only [hje, if_false]
                  have hgt : i + 1 < j := by omega
                  have hg := mergedChildren_getElem_gt cs i j (mergeNodes n1 sep n2) hgt hi
                  rw [hj] at hg
                  refine ⟨(j - 1) :: s, cap, its, rfl, by rw [nodeAt?_inner_cons' hg]; exact hnode, Nat.le_refl _, ?_⟩
                  rw [offsetOf_inner_cons' hg, offsetOf_inner_cons' hj,
                    sum_take_mergedChildren_gt cs i j n1 n2 _ hgt h1 h2 hms]
                  omega
  · cases h

theorem tryMerge_caps (cfg : Cfg) (items : List α) (cs : List (Node α)) (i : Nat)
    (saved : Option (List Nat)) (n' : Node α) (saved' : Option (List Nat))
    (hc : Caps cfg.maxCap (inner items cs)) (h : tryMerge cfg items cs i saved = some (n', saved')) :
    Caps cfg.maxCap n' := by
  cases hc with
  | inner _ _ hcount hall =>
  unfold tryMerge at h
  split at h
  · rename_i sep n1 n2 hs h1 h2
    split at h
    · cases h
    · split at h
      · cases h
      · rename_i hfit
        cases h
        refine Caps.inner _ _ (by have := List.length_eraseIdx_le items i; omega) ?_
        intro x hx
        have hfold : cs.take i ++ mergeNodes n1 sep n2 :: cs.drop (i + 2) = mergedChildren cs i (mergeNodes n1 sep n2) := rfl
        rw [hfold] at hx
        rcases mergedChildren_mem cs i _ x hx with hx | rfl
        · exact hall x hx
        · exact mergeNodes_caps cfg n1 n2 sep (hall n1 (List.mem_of_getElem? h1)) (hall n2 (List.mem_of_getElem? h2))
            (by omega)
  · cases h

/-- one round of the loop: whatever it does, list, structure, capacities and the saved leaf are kept -/
theorem rebStep_spec (cfg : Cfg) (fast : Bool) {d : Nat} (items : List α) (cs : List (Node α)) (c : Nat)
    (saved : Option (List Nat)) (hb : Bal (d+1) (inner items cs)) :
    toList (rebStep cfg fast items cs c saved).1 = inter cs items ∧
    Bal (d+1) (rebStep cfg fast items cs c saved).1 ∧
    SavedOk (inner items cs) saved (rebStep cfg fast items cs c saved).1 (rebStep cfg fast items cs c saved).2.1 ∧
    (Caps cfg.maxCap (inner items cs) → Caps cfg.maxCap (rebStep cfg fast items cs c saved).1) := by
  unfold rebStep
  cases h1 : tryMerge cfg items cs c saved with
  | some r =>
    obtain ⟨n', saved'⟩ := r
    obtain ⟨a, b, e⟩ := tryMerge_spec cfg items cs c saved n' saved' hb h1
    exact ⟨a, b, e, fun hc => tryMerge_caps cfg items cs c saved n' saved' hc h1⟩
  | none =>
    simp only
    cases h2 : (if c > 0 then tryMerge cfg items cs (c - 1) saved else none) with
    | some r =>
      obtain ⟨n', saved'⟩ := r
      have h2' : tryMerge cfg items cs (c - 1) saved = some (n', saved') := by
        split at h2
        · exact h2
        · cases h2
      obtain ⟨a, b, e⟩ := tryMerge_spec cfg items cs (c-1) saved n' saved' hb h2'
      exact ⟨a, b, e, fun hc => tryMerge_caps cfg items cs (c-1) saved n' saved' hc h2'⟩
    | none => exact ⟨by simp, hb, SavedOk.refl _ _, fun hc => hc⟩

theorem sum_take_set_same_size (cs : List (Node α)) (c j : Nat) (ch ch' : Node α) (hc : cs[c]? = some ch)
    (hs : size ch' = size ch) :
    (((cs.set c ch').take j).map (fun x => size x)).sum = ((cs.take j).map (fun x => size x)).sum := by
  induction cs generalizing c j with
  | nil => simp
  | cons x xs ih =>
    cases j with
    | zero => simp
    | succ j' =>
      cases c with
      | zero => simp at hc; subst hc; simp [hs]
      | succ c' =>
        simp only [List.set_cons_succ, List.take_succ_cons, List.map_cons, List.sum_cons]
        rw [ih c' j' (by simpa using hc)]

/-- replacing child `c` by a tree with the same in-order list and its own saved-leaf bookkeeping -/
theorem savedOk_set_child (items : List α) (cs : List (Node α)) (c : Nat) (ch ch' : Node α)
    (saved savedC : Option (List Nat)) (hc : cs[c]? = some ch) (hsize : size ch' = size ch)
    (hok : SavedOk ch (savedBelow saved c) ch' savedC) :
    SavedOk (inner items cs) saved (inner items (cs.set c ch')) (savedLift saved c savedC) := by
  have hcl := lt_of_getElem? hc
  intro sp cap its hsp hnode
  subst hsp
  cases sp with
  | nil => simp at hnode
  | cons j s =>
    simp only [nodeAt?_inner_cons] at hnode
    cases hj : cs[j]? with
    | none => simp [hj] at hnode
    | some cj =>
      simp only [hj] at hnode
      by_cases hjc : j = c
      · subst hjc
        rw [hc] at hj; cases hj
        obtain ⟨s', cap', its', e1, e2, e3, e4⟩ := hok s cap its (by simp [savedBelow]) hnode
        have hset : (cs.set j ch')[j]? = some ch' := by simp [hcl]
        refine ⟨j :: s', cap', its', by simp [savedLift, e1], by rw [nodeAt?_inner_cons' hset]; exact e2, e3, ?_⟩
        rw [offsetOf_inner_cons' hset, offsetOf_inner_cons' hc, sum_take_set_same_size cs j j ch ch' hc hsize, e4]
      · have hset : (cs.set c ch')[j]? = some cj := by rw [List.getElem?_set_ne (Ne.symm hjc)]; exact hj
        refine ⟨j :: s, cap, its, by simp [savedLift, hjc], by rw [nodeAt?_inner_cons' hset]; exact hnode,
          Nat.le_refl _, ?_⟩
        rw [offsetOf_inner_cons' hset, offsetOf_inner_cons' hj, sum_take_set_same_size cs c j ch ch' hc hsize]

/-- the loop of `pvRebalance(node, savedNode, fast)` below a node -/
theorem rebAux_spec (cfg : Cfg) (fast : Bool) {d : Nat} {n : Node α} (hb : Bal d n) (p : List Nat)
    (saved : Option (List Nat)) :
    toList (rebAux cfg fast n p saved).1 = toList n ∧ Bal d (rebAux cfg fast n p saved).1 ∧
    SavedOk n saved (rebAux cfg fast n p saved).1 (rebAux cfg fast n p saved).2.1 ∧
    (Caps cfg.maxCap n → Caps cfg.maxCap (rebAux cfg fast n p saved).1) := by
  induction p generalizing n d saved with
  | nil => simp only [rebAux]; exact ⟨trivial, hb, SavedOk.refl _ _, fun h => h⟩
  | cons c p ih =>
    cases n with
    | leaf cap is => simp only [rebAux]; exact ⟨trivial, hb, SavedOk.refl _ _, fun h => h⟩
    | inner items cs =>
      obtain ⟨d', rfl, hall⟩ := hb.inner_depth
      have hlen := hb.inner_len
      simp only [rebAux]
      cases hc : cs[c]? with
      | none => exact ⟨rfl, hb, SavedOk.refl _ _, fun h => h⟩
      | some ch =>
        simp only
        have hcl := lt_of_getElem? hc
        obtain ⟨i1, i2, i3, i4⟩ := ih (hall ch (List.mem_of_getElem? hc)) (savedBelow saved c)
        generalize rebAux cfg fast ch p (savedBelow saved c) = R at i1 i2 i3 i4
        obtain ⟨ch', savedC, goOn⟩ := R
        simp only at i1 i2 i3 i4 ⊢
        have hsize : size ch' = size ch := by simp [size, i1]
        have hb1 : Bal (d'+1) (inner items (cs.set c ch')) := Bal.inner d' _ _ (by simpa using hlen) (fun y hy => by
          rcases List.mem_or_eq_of_mem_set hy with h | rfl
          · exact hall y h
          · exact i2)
        have ht1 : inter (cs.set c ch') items = inter cs items := by
          rw [inter_set cs items c ch ch' hc hlen, inter_split cs items c ch hc hlen, i1]
        have hs1 := savedOk_set_child items cs c ch ch' saved savedC hc hsize i3
        have hc1 : Caps cfg.maxCap (inner items cs) → Caps cfg.maxCap (inner items (cs.set c ch')) := by
          intro hcaps
          cases hcaps with
          | inner _ _ h1 h2 =>
            exact Caps.inner _ _ h1 (fun y hy => by
              rcases List.mem_or_eq_of_mem_set hy with h | rfl
              · exact h2 y h
              · exact i4 (h2 ch (List.mem_of_getElem? hc)))
        split
        · obtain ⟨a, b, e, f⟩ := rebStep_spec cfg fast items (cs.set c ch') c (savedLift saved c savedC) hb1
          exact ⟨by rw [a, toList_inner, ht1], b, hs1.trans e, fun h => f (hc1 h)⟩
        · exact ⟨by simp [ht1], hb1, hs1, hc1⟩

/-- the root-collapse loop -/
theorem collapseRoot_spec {d : Nat} {r : Node α} (hb : Bal d r) (saved path : List Nat) :
    toList (collapseRoot r saved path).1 = toList r ∧ (∃ d', Bal d' (collapseRoot r saved path).1) ∧
    (∀ cap its, nodeAt? r saved = some (leaf cap its) →
      nodeAt? (collapseRoot r saved path).1 (collapseRoot r saved path).2.1 = some (leaf cap its) ∧
      offsetOf (collapseRoot r saved path).1 (collapseRoot r saved path).2.1 = offsetOf r saved) ∧
    (∀ maxCap, Caps maxCap r → Caps maxCap (collapseRoot r saved path).1) := by
  induction saved generalizing r d path with
  | nil =>
    have : collapseRoot r [] path = (r, [], path) := by
      unfold collapseRoot; split <;> simp_all
    rw [this]; exact ⟨rfl, ⟨d, hb⟩, fun _ _ h => ⟨h, rfl⟩, fun _ h => h⟩
  | cons j s ih =>
    cases r with
    | leaf cap is =>
      have : collapseRoot (leaf cap is) (j :: s) path = (leaf cap is, j :: s, path) := by
        rw [collapseRoot]; intros; simp_all
      rw [this]; exact ⟨by simp, ⟨d, hb⟩, fun _ _ h => ⟨by simpa using h, by simp⟩, fun _ h => by simpa using h⟩
    | inner items cs =>
      cases items with
      | cons x xs =>
        have : collapseRoot (inner (x :: xs) cs) (j :: s) path = (inner (x :: xs) cs, j :: s, path) := by
          rw [collapseRoot]; intros; simp_all
        rw [this]; exact ⟨by simp, ⟨d, hb⟩, fun _ _ h => ⟨by simpa using h, by simp⟩, fun _ h => by simpa using h⟩
      | nil =>
        obtain ⟨d', rfl, hall⟩ := hb.inner_depth
        have hlen := hb.inner_len
        cases cs with
        | nil => simp at hlen
        | cons c cs' =>
          have hcs' : cs' = [] := by simpa using hlen
          subst hcs'
          have : collapseRoot (inner [] [c]) (j :: s) path = collapseRoot c s path.tail := by
            rw [collapseRoot]
          rw [this]
          obtain ⟨a, b, e, f⟩ := ih (hall c (by simp)) path.tail
          refine ⟨by rw [a]; simp, b, ?_, ?_⟩
          · intro cap its hnode
            simp only [nodeAt?_inner_cons] at hnode
            cases j with
            | zero =>
              simp at hnode
              obtain ⟨e1, e2⟩ := e cap its hnode
              exact ⟨e1, by rw [e2]; simp⟩
            | succ j' => simp at hnode
          · intro maxCap hcaps
            cases hcaps with
            | inner _ _ _ h2 => exact f maxCap (h2 c (by simp))

/-- `pvRebalance(node, savedNode, fast)`: the in-order list, balance and capacities are kept; the saved leaf is
    still a leaf (at least as long) at the reported path with the same number of elements before it -/
theorem rebalance_spec (cfg : Cfg) (fast : Bool) {d : Nat} {r : Node α} (hb : Bal d r) (path saved : List Nat) :
    toList (rebalance cfg fast r path saved).1 = toList r ∧ (∃ d', Bal d' (rebalance cfg fast r path saved).1) ∧
    (∀ cap its, nodeAt? r saved = some (leaf cap its) →
      ∃ cap' its', nodeAt? (rebalance cfg fast r path saved).1 (rebalance cfg fast r path saved).2 = some (leaf cap' its') ∧
        its.length ≤ its'.length ∧
        offsetOf (rebalance cfg fast r path saved).1 (rebalance cfg fast r path saved).2 = offsetOf r saved) ∧
    (Caps cfg.maxCap r → Caps cfg.maxCap (rebalance cfg fast r path saved).1) := by
  obtain ⟨a, ⟨d1, b⟩, e, f⟩ := collapseRoot_spec hb saved path
  unfold rebalance
  generalize collapseRoot r saved path = C at a b e f
  obtain ⟨r1, saved1, path1⟩ := C
  simp only at a b e f ⊢
  obtain ⟨a2, b2, e2, f2⟩ := rebAux_spec cfg fast b path1 (some saved1)
  generalize rebAux cfg fast r1 path1 (some saved1) = R at a2 b2 e2 f2
  obtain ⟨r2, saved2, g⟩ := R
  simp only at a2 b2 e2 f2 ⊢
  refine ⟨by rw [a2, a], ⟨d1, b2⟩, ?_, fun h => f2 (f _ h)⟩
  intro cap its hnode
  obtain ⟨e1a, e1b⟩ := e cap its hnode
  obtain ⟨sp', cap', its', g1, g2, g3, g4⟩ := e2 saved1 cap its rfl e1a
  subst g1
  exact ⟨cap', its', by simpa using g2, g3, by simp only [Option.getD_some]; omega⟩

end Momo.BTree
