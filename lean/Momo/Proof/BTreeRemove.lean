import Momo.Proof.BTreeRebalance
/-!
  C02, removal by iterator: `pvRemove` on a leaf item and `pvRemoveInternal` (predecessor pulled up from the rightmost
  non-empty node of the left subtree, or the empty left subtree destroyed) refine `List.eraseIdx` at the iterator's
  in-order index; the returned iterator denotes the same index (the element that followed). Core Lean only.
-/
namespace Momo.BTree
open Node
variable {α : Type}

/-! ### list lemmas -/

theorem eraseIdx_middle (a b c : List α) (k : Nat) (h : k < b.length) :
    (a ++ b ++ c).eraseIdx (a.length + k) = a ++ b.eraseIdx k ++ c := by
  rw [List.append_assoc, List.eraseIdx_append_of_length_le (by omega), Nat.add_sub_cancel_left,
    List.eraseIdx_append_of_lt_length h, List.append_assoc]

theorem eraseIdx_at_cons (a : List α) (x : α) (c : List α) : (a ++ x :: c).eraseIdx a.length = a ++ c := by
  rw [List.eraseIdx_append_of_length_le (Nat.le_refl _)]; simp

/-! ### `modifyAt` -/

theorem offsetOf_append (r m : Node α) (p q : List Nat) (h : nodeAt? r p = some m) :
    offsetOf r (p ++ q) = offsetOf r p + offsetOf m q := by
  induction p generalizing r with
  | nil => simp at h; subst h; simp
  | cons c p ih =>
    cases r with
    | leaf cap is => simp at h
    | inner is cs =>
      simp only [nodeAt?_inner_cons] at h
      cases hc : cs[c]? with
      | none => simp [hc] at h
      | some ch =>
        simp only [hc] at h
        rw [List.cons_append, offsetOf_inner_cons' hc, offsetOf_inner_cons' hc, ih ch h]; omega

/-- replacing the node at `path` by a node of the same depth: the in-order list changes only in that segment, whose
    position (`offsetOf`) stays -/
theorem modifyAt_spec {d : Nat} {r m : Node α} (hb : Bal d r) (path : List Nat) (hm : nodeAt? r path = some m)
    (f : Node α → Node α) (hbm : Bal (d - path.length) (f m)) :
    ∃ pre post, toList r = pre ++ toList m ++ post ∧ pre.length = offsetOf r path ∧
      toList (modifyAt f r path) = pre ++ toList (f m) ++ post ∧ Bal d (modifyAt f r path) ∧
      nodeAt? (modifyAt f r path) path = some (f m) ∧ offsetOf (modifyAt f r path) path = offsetOf r path ∧
      (∀ maxCap, Caps maxCap r → Caps maxCap (f m) → Caps maxCap (modifyAt f r path)) := by
  induction path generalizing r d with
  | nil =>
    simp at hm; subst hm
    refine ⟨[], [], by simp, by simp, ?_, ?_, ?_, ?_, ?_⟩ <;> cases r <;> simp_all [modifyAt]
  | cons c p ih =>
    cases r with
    | leaf cap is => simp at hm
    | inner is cs =>
      obtain ⟨d', rfl, hall⟩ := hb.inner_depth
      have hlen := hb.inner_len
      simp only [nodeAt?_inner_cons] at hm
      cases hc : cs[c]? with
      | none => simp [hc] at hm
      | some ch =>
        simp only [hc] at hm
        have hcl := lt_of_getElem? hc
        obtain ⟨pre, post, e1, e2, e3, e4, e5, e6, e7⟩ := ih (hall ch (List.mem_of_getElem? hc)) hm
          (by simpa using hbm)
        have hset : (cs.set c (modifyAt f ch p))[c]? = some (modifyAt f ch p) := by simp [hcl]
        have hprelen := preOf_length cs is c (by omega) hlen
        have hmod : modifyAt f (inner is cs) (c :: p) = inner is (cs.set c (modifyAt f ch p)) := by
          simp [modifyAt, hc]
        rw [hmod]
        refine ⟨preOf cs is c ++ pre, post ++ postOf cs is c, ?_, ?_, ?_, ?_, ?_, ?_, ?_⟩
        · rw [toList_inner, inter_split cs is c ch hc hlen, e1]; simp
        · rw [offsetOf_inner_cons' hc, List.length_append, hprelen, e2]
        · rw [toList_inner, inter_set cs is c ch _ hc hlen, e3]; simp
        · exact Bal.inner d' _ _ (by simpa using hlen) (fun y hy => by
            rcases List.mem_or_eq_of_mem_set hy with h | rfl
            · exact hall y h
            · exact e4)
        · rw [nodeAt?_inner_cons' hset]; exact e5
        · rw [offsetOf_inner_cons' hset, offsetOf_inner_cons' hc, e6]; simp [List.take_set_of_le]
        · intro maxCap hcaps hfm
          cases hcaps with
          | inner _ _ h1 h2 =>
            exact Caps.inner _ _ h1 (fun y hy => by
              rcases List.mem_or_eq_of_mem_set hy with h | rfl
              · exact h2 y h
              · exact e7 maxCap (h2 ch (List.mem_of_getElem? hc)) hfm)

/-! ### the common end of both removal paths -/

/-- after the items were taken out (`r1`), `pvRebalance` and `pvMakeIterator(savedNode, j, true)`: if the saved leaf
    slot has in-order index `k` in `r1`, the returned iterator has index `k` in the final tree -/
theorem remove_finish (cfg : Cfg) (fast : Bool) {d : Nat} {r1 : Node α} (hb : Bal d r1) (path saved : List Nat)
    (j cap : Nat) (its : List α) (hs : nodeAt? r1 saved = some (leaf cap its)) (hj : j ≤ its.length) :
    toList (rebalance cfg fast r1 path saved).1 = toList r1 ∧ (∃ d', Bal d' (rebalance cfg fast r1 path saved).1) ∧
    idxOf (rebalance cfg fast r1 path saved).1
        (moveIf (rebalance cfg fast r1 path saved).1 ⟨(rebalance cfg fast r1 path saved).2, j⟩).path
        (moveIf (rebalance cfg fast r1 path saved).1 ⟨(rebalance cfg fast r1 path saved).2, j⟩).idx
      = offsetOf r1 saved + j ∧
    ValidPos (rebalance cfg fast r1 path saved).1
        (moveIf (rebalance cfg fast r1 path saved).1 ⟨(rebalance cfg fast r1 path saved).2, j⟩) ∧
    (Caps cfg.maxCap r1 → Caps cfg.maxCap (rebalance cfg fast r1 path saved).1) := by
  obtain ⟨a, ⟨d', b⟩, e, f⟩ := rebalance_spec cfg fast hb path saved
  obtain ⟨cap', its', e1, e2, e3⟩ := e cap its hs
  obtain ⟨m1, m2⟩ := moveIf_spec b _ j e1 (by simp only [Node.count]; omega)
  refine ⟨a, ⟨d', b⟩, ?_, m2, f⟩
  rw [m1, idxOf_eq_offset _ _ _ j e1, e3]; simp

/-! ### leaf item -/

theorem removeAt_leaf_spec (cfg : Cfg) {d : Nat} {r : Node α} (hb : Bal d r) (pos : Pos) (cap : Nat)
    (items : List α) (hm : nodeAt? r pos.path = some (leaf cap items)) (hi : pos.idx < items.length) :
    toList (removeAt cfg r pos).1 = (toList r).eraseIdx (idxOf r pos.path pos.idx) ∧
    (∃ d', Bal d' (removeAt cfg r pos).1) ∧
    idxOf (removeAt cfg r pos).1 (removeAt cfg r pos).2.path (removeAt cfg r pos).2.idx = idxOf r pos.path pos.idx ∧
    ValidPos (removeAt cfg r pos).1 (removeAt cfg r pos).2 ∧
    (Caps cfg.maxCap r → Caps cfg.maxCap (removeAt cfg r pos).1) := by
  have hbm := (hb.nodeAt hm).1
  have hd0 := hbm.leaf_depth
  obtain ⟨pre, post, e1, e2, e3, e4, e5, e6, e7⟩ := modifyAt_spec hb pos.path hm (removeItem pos.idx)
    (by rw [hd0]; exact Bal.leaf _ _)
  simp only [removeItem] at e3 e5 e7
  obtain ⟨a, b, c, v, f⟩ := remove_finish cfg true e4 pos.path pos.path pos.idx cap (items.eraseIdx pos.idx) e5
    (by rw [List.length_eraseIdx_of_lt hi]; omega)
  unfold removeAt
  simp only [hm]
  refine ⟨?_, b, ?_, v, ?_⟩
  · rw [a, e3, e1, idxOf_eq_offset r _ pos.path pos.idx hm, ← e2]
    simp only [toList_leaf, idxOf_leaf]
    exact (eraseIdx_middle pre items post pos.idx hi).symm
  · rw [c, e6, idxOf_eq_offset r _ pos.path pos.idx hm]; simp
  · intro hcaps
    apply f
    apply e7 _ hcaps
    cases hcm : (capsAt hcaps pos.path hm) with
    | leaf _ _ h1 h2 => exact Caps.leaf _ _ (by have := List.length_eraseIdx_le items pos.idx; omega) h2
where
  capsAt {maxCap : Nat} {r m : Node α} (h : Caps maxCap r) (path : List Nat) (hm : nodeAt? r path = some m) :
      Caps maxCap m := by
    induction path generalizing r with
    | nil => simp at hm; subst hm; exact h
    | cons c p ih =>
      cases h with
      | leaf _ _ _ _ => simp at hm
      | inner is cs h1 h2 =>
        simp only [nodeAt?_inner_cons] at hm
        cases hc : cs[c]? with
        | none => simp [hc] at hm
        | some ch => simp only [hc] at hm; exact ih (h2 ch (List.mem_of_getElem? hc)) hm

/-! ### internal item -/

theorem capsAt {maxCap : Nat} {r m : Node α} (h : Caps maxCap r) (path : List Nat) (hm : nodeAt? r path = some m) :
    Caps maxCap m := removeAt_leaf_spec.capsAt h path hm

theorem dropLast_eq_eraseIdx (l : List α) : l.dropLast = l.eraseIdx (l.length - 1) := by
  induction l with
  | nil => simp
  | cons x xs ih =>
    cases xs with
    | nil => simp
    | cons y ys =>
      simp only [List.dropLast_cons_cons, List.length_cons] at ih ⊢
      have : ys.length + 1 + 1 - 1 = (ys.length + 1 - 1) + 1 := by omega
      rw [this, List.eraseIdx_cons_succ, ih]

/-- the in-order list of an internal node whose last child is empty ends with its last item -/
theorem inter_last_empty (cs : List (Node α)) (is : List α) (x : α) (c : Node α) (hlen : cs.length = is.length + 1)
    (hx : is.getLast? = some x) (hc : cs[is.length]? = some c) (he : toList c = []) :
    inter cs is = inter (cs.eraseIdx is.length) (is.eraseIdx (is.length - 1)) ++ [x] := by
  obtain ⟨is', rfl⟩ := List.getLast?_eq_some_iff.mp hx
  have hcs : cs = cs.dropLast ++ [c] := by
    have hne : cs ≠ [] := by intro h; subst h; simp at hlen
    have h1 := (List.dropLast_concat_getLast hne).symm
    have h2 : cs.getLast hne = c := by
      rw [List.getLast_eq_getElem]
      have : cs.length - 1 = (is' ++ [x]).length := by omega
      have hlt : cs.length - 1 < cs.length := by omega
      have := List.getElem?_eq_getElem hlt
      simp only [‹cs.length - 1 = (is' ++ [x]).length›] at this
      rw [hc] at this
      exact (Option.some.inj this).symm ▸ (by congr 1 <;> omega)
    rw [h2] at h1; exact h1
  have hl : cs.dropLast.length = is'.length + 1 := by simp at hlen ⊢; omega
  have e1 : cs.eraseIdx (is' ++ [x]).length = cs.dropLast := by
    rw [dropLast_eq_eraseIdx]; congr 1; simp at hlen ⊢; omega
  have e2 : (is' ++ [x]).eraseIdx ((is' ++ [x]).length - 1) = is' := by
    rw [← dropLast_eq_eraseIdx]; simp
  rw [e1, e2]
  conv => lhs; rw [hcs]
  rw [inter_append _ _ _ _ _ hl]; simp [he]

theorem toList_nil_of_popLast_none {d : Nat} {n : Node α} (hb : Bal d n) (h : popLast n = none) : toList n = [] := by
  induction hb with
  | leaf cap items =>
    simp only [popLast] at h
    cases hl : items.getLast? with
    | none => simpa using hl
    | some x => simp [hl] at h
  | inner d items cs hlen hall ih =>
    simp only [popLast, popLastAt_eq] at h
    obtain ⟨c, hc⟩ := getElem?_of_lt (l := cs) (i := items.length) (by omega)
    simp only [hc] at h
    cases hp : popLast c with
    | some r => obtain ⟨a, b, e⟩ := r; simp [hp] at h
    | none =>
      simp only [hp] at h
      cases hl : items.getLast? with
      | some x => simp [hl] at h
      | none =>
        have hi : items = [] := by simpa using hl
        subst hi
        have : cs = [c] := by
          cases cs with
          | nil => simp at hlen
          | cons c0 cs' =>
            have : cs' = [] := by simpa using hlen
            subst this; simp at hc; subst hc; rfl
        subst this
        simp [ih c (by simp) hp]

/-- the predecessor search of `pvRemoveInternal`: the subtree loses exactly its last element -/
theorem popLast_spec {d : Nat} {n : Node α} (hb : Bal d n) (n' : Node α) (x : α) (cp : List Nat)
    (h : popLast n = some (n', x, cp)) :
    toList n = toList n' ++ [x] ∧ Bal d n' ∧ (∀ maxCap, Caps maxCap n → Caps maxCap n') := by
  induction hb generalizing n' x cp with
  | leaf cap items =>
    simp only [popLast] at h
    cases hl : items.getLast? with
    | none => simp [hl] at h
    | some y =>
      simp only [hl] at h
      cases h
      obtain ⟨init, rfl⟩ := List.getLast?_eq_some_iff.mp hl
      refine ⟨by simp, Bal.leaf _ _, ?_⟩
      intro maxCap hc
      cases hc with
      | leaf _ _ h1 h2 => exact Caps.leaf _ _ (by simp at h1 ⊢; omega) h2
  | inner d items cs hlen hall ih =>
    simp only [popLast, popLastAt_eq] at h
    obtain ⟨c, hc⟩ := getElem?_of_lt (l := cs) (i := items.length) (by omega)
    have hcl := lt_of_getElem? hc
    simp only [hc] at h
    cases hp : popLast c with
    | some r =>
      obtain ⟨c', y, p⟩ := r
      simp only [hp] at h
      cases h
      obtain ⟨a, b, e⟩ := ih c (List.mem_of_getElem? hc) c' x p hp
      refine ⟨?_, ?_, ?_⟩
      · rw [toList_inner, toList_inner, inter_set cs items _ c c' hc hlen, inter_split cs items _ c hc hlen, a]
        simp [postOf]
      · exact Bal.inner d _ _ (by simpa using hlen) (fun z hz => by
          rcases List.mem_or_eq_of_mem_set hz with h' | rfl
          · exact hall z h'
          · exact b)
      · intro maxCap hcaps
        cases hcaps with
        | inner _ _ h1 h2 =>
          exact Caps.inner _ _ h1 (fun z hz => by
            rcases List.mem_or_eq_of_mem_set hz with h' | rfl
            · exact h2 z h'
            · exact e maxCap (h2 c (List.mem_of_getElem? hc)))
    | none =>
      simp only [hp] at h
      cases hl : items.getLast? with
      | none => simp [hl] at h
      | some y =>
        simp only [hl] at h
        cases h
        have hne : 0 < items.length := by
          cases items with
          | nil => simp at hl
          | cons _ _ => simp
        have hempty := toList_nil_of_popLast_none (hall c (List.mem_of_getElem? hc)) hp
        simp only [destroyInternal, if_true]
        have hidx : items.length - 1 + 1 = items.length := by omega
        rw [hidx]
        refine ⟨?_, ?_, ?_⟩
        · rw [toList_inner, toList_inner]; exact inter_last_empty cs items x c hlen hl hc hempty
        · refine Bal.inner d _ _ ?_ (fun z hz => hall z (List.mem_of_mem_eraseIdx hz))
          rw [List.length_eraseIdx_of_lt hcl, List.length_eraseIdx_of_lt (by omega)]; omega
        · intro maxCap hcaps
          cases hcaps with
          | inner _ _ h1 h2 =>
            exact Caps.inner _ _ (by have := List.length_eraseIdx_le items (items.length - 1); omega)
              (fun z hz => h2 z (List.mem_of_mem_eraseIdx hz))

theorem inter_eraseIdx_empty (cs : List (Node α)) (is : List α) (i : Nat) (c : Node α) (x : α)
    (hc : cs[i]? = some c) (hx : is[i]? = some x) (hlen : cs.length = is.length + 1) (he : toList c = []) :
    inter cs is = preOf cs is i ++ x :: inter (cs.drop (i+1)) (is.drop (i+1)) ∧
    inter (cs.eraseIdx i) (is.eraseIdx i) = preOf cs is i ++ inter (cs.drop (i+1)) (is.drop (i+1)) := by
  induction cs generalizing is i with
  | nil => simp at hc
  | cons c0 cs ih =>
    cases is with
    | nil => simp at hx
    | cons s is' =>
      cases i with
      | zero =>
        simp at hc hx; subst hc; subst hx
        simp [preOf, he]
      | succ k =>
        obtain ⟨a, b⟩ := ih is' k (by simpa using hc) (by simpa using hx) (by simpa using hlen)
        simp only [List.eraseIdx_cons_succ, inter_cons_cons, List.drop_succ_cons, a, b]
        simp [preOf]

theorem inter_set_pred (cs : List (Node α)) (is : List α) (i : Nat) (c c' : Node α) (x y : α)
    (hc : cs[i]? = some c) (hx : is[i]? = some x) (hlen : cs.length = is.length + 1)
    (hp : toList c = toList c' ++ [y]) :
    inter cs is = preOf cs is i ++ toList c' ++ y :: x :: inter (cs.drop (i+1)) (is.drop (i+1)) ∧
    inter (cs.set i c') (is.set i y) = preOf cs is i ++ toList c' ++ y :: inter (cs.drop (i+1)) (is.drop (i+1)) := by
  induction cs generalizing is i with
  | nil => simp at hc
  | cons c0 cs ih =>
    cases is with
    | nil => simp at hx
    | cons s is' =>
      cases i with
      | zero =>
        simp at hc hx; subst hc; subst hx
        simp [preOf, hp]
      | succ k =>
        obtain ⟨a, b⟩ := ih is' k (by simpa using hc) (by simpa using hx) (by simpa using hlen)
        simp only [List.set_cons_succ, inter_cons_cons, List.drop_succ_cons, a, b]
        simp [preOf]

/-- `pvRemove` for an item of an internal node (`pvRemoveInternal`), both branches -/
theorem removeAt_inner_spec (cfg : Cfg) {d : Nat} {r : Node α} (hb : Bal d r) (pos : Pos) (items : List α)
    (cs : List (Node α)) (hm : nodeAt? r pos.path = some (inner items cs)) (hi : pos.idx < items.length) :
    toList (removeAt cfg r pos).1 = (toList r).eraseIdx (idxOf r pos.path pos.idx) ∧
    (∃ d', Bal d' (removeAt cfg r pos).1) ∧
    idxOf (removeAt cfg r pos).1 (removeAt cfg r pos).2.path (removeAt cfg r pos).2.idx = idxOf r pos.path pos.idx ∧
    ValidPos (removeAt cfg r pos).1 (removeAt cfg r pos).2 ∧
    (Caps cfg.maxCap r → Caps cfg.maxCap (removeAt cfg r pos).1) := by
  have hbm := (hb.nodeAt hm).1
  obtain ⟨dm, hdm, hall⟩ := hbm.inner_depth
  rw [hdm] at hbm
  have hlen := hbm.inner_len
  obtain ⟨left, hl⟩ := getElem?_of_lt (l := cs) (i := pos.idx) (by omega)
  obtain ⟨right, hr⟩ := getElem?_of_lt (l := cs) (i := pos.idx + 1) (by omega)
  obtain ⟨x, hx⟩ := getElem?_of_lt hi
  have hbl := hall left (List.mem_of_getElem? hl)
  have hbr := hall right (List.mem_of_getElem? hr)
  obtain ⟨⟨lcap, lits, hlp1⟩, hlp2⟩ := leftPath_spec hbr
  have hlp3 : offsetOf right (leftPath right) = 0 := by
    have := idxOf_eq_offset right _ (leftPath right) 0 hlp1
    rw [hlp2] at this; simp at this; omega
  have hprelen := preOf_length cs items pos.idx (by omega) hlen
  have hidxm : idxOf (inner items cs) [] pos.idx = (preOf cs items pos.idx).length + size left := by
    rw [idxOf_inner_nil, sum_take_succ cs _ left hl, hprelen]; omega
  unfold removeAt
  simp only [hm, hl, hr]
  cases hp : popLast left with
  | none =>
    simp only
    have hempty := toList_nil_of_popLast_none hbl hp
    obtain ⟨t1, t2⟩ := inter_eraseIdx_empty cs items pos.idx left x hl hx hlen hempty
    have hbm' : Bal (d - pos.path.length) (destroyInternal items cs pos.idx false) := by
      rw [hdm]
      simp only [destroyInternal, Bool.false_eq_true, if_false]
      refine Bal.inner dm _ _ ?_ (fun z hz => hall z (List.mem_of_mem_eraseIdx hz))
      rw [List.length_eraseIdx_of_lt (by omega), List.length_eraseIdx_of_lt hi]; omega
    obtain ⟨pre, post, e1, e2, e3, e4, e5, e6, e7⟩ := modifyAt_spec hb pos.path hm
      (fun _ => destroyInternal items cs pos.idx false) hbm'
    -- the saved node: leftmost leaf of the right child, now child `idx`
    have hright' : (cs.eraseIdx pos.idx)[pos.idx]? = some right := by
      rw [List.getElem?_eraseIdx_of_ge (Nat.le_refl _)]; exact hr
    have hsaved : nodeAt? (modifyAt (fun _ => destroyInternal items cs pos.idx false) r pos.path)
        (pos.path ++ pos.idx :: leftPath right) = some (leaf lcap lits) := by
      rw [nodeAt?_append, e5]
      simp only [destroyInternal, Bool.false_eq_true, if_false]
      rw [nodeAt?_inner_cons' hright']; exact hlp1
    have hoff : offsetOf (modifyAt (fun _ => destroyInternal items cs pos.idx false) r pos.path)
        (pos.path ++ pos.idx :: leftPath right) = idxOf r pos.path pos.idx := by
      rw [offsetOf_append _ _ _ _ e5, e6, idxOf_eq_offset r _ pos.path pos.idx hm, hidxm]
      simp only [destroyInternal, Bool.false_eq_true, if_false]
      have ht : (cs.eraseIdx pos.idx).take pos.idx = cs.take pos.idx := by
        rw [List.eraseIdx_eq_take_drop_succ, List.take_append_of_le_length (by simp; omega), List.take_take]; simp
      have : size left = 0 := by simp [size, hempty]
      rw [offsetOf_inner_cons' hright', hlp3, this, hprelen, ht]
    obtain ⟨a, b, c, v, f⟩ := remove_finish cfg true e4 pos.path (pos.path ++ pos.idx :: leftPath right) 0 lcap lits
      hsaved (Nat.zero_le _)
    refine ⟨?_, b, by rw [c, hoff]; simp, v, ?_⟩
    · rw [a, e3, e1, idxOf_eq_offset r _ pos.path pos.idx hm, ← e2, hidxm]
      simp only [destroyInternal, Bool.false_eq_true, if_false, toList_inner, t2]
      rw [t1]
      have hsz : size left = 0 := by simp [size, hempty]
      rw [hsz]
      have h2 : pre ++ (preOf cs items pos.idx ++ x :: inter (cs.drop (pos.idx + 1)) (items.drop (pos.idx + 1))) ++ post =
          (pre ++ preOf cs items pos.idx) ++ x :: (inter (cs.drop (pos.idx + 1)) (items.drop (pos.idx + 1)) ++ post) := by
        simp
      have h3 : pre.length + ((preOf cs items pos.idx).length + 0) = (pre ++ preOf cs items pos.idx).length := by simp
      rw [h2, h3, eraseIdx_at_cons]; simp
    · intro hcaps
      apply f
      apply e7 _ hcaps
      have hcm := capsAt hcaps pos.path hm
      cases hcm with
      | inner _ _ h1 h2 =>
        simp only [destroyInternal]
        exact Caps.inner _ _ (by have := List.length_eraseIdx_le items pos.idx; omega)
          (fun z hz => h2 z (List.mem_of_mem_eraseIdx hz))
  | some res =>
    obtain ⟨left', y, cp⟩ := res
    simp only
    obtain ⟨p1, p2, p3⟩ := popLast_spec hbl left' y cp hp
    obtain ⟨t1, t2⟩ := inter_set_pred cs items pos.idx left left' x y hl hx hlen p1
    have hcl : pos.idx < cs.length := by omega
    have hbm' : Bal (d - pos.path.length) (inner (items.set pos.idx y) (cs.set pos.idx left')) := by
      rw [hdm]
      exact Bal.inner dm _ _ (by simpa using hlen) (fun z hz => by
        rcases List.mem_or_eq_of_mem_set hz with h' | rfl
        · exact hall z h'
        · exact p2)
    obtain ⟨pre, post, e1, e2, e3, e4, e5, e6, e7⟩ := modifyAt_spec hb pos.path hm
      (fun _ => inner (items.set pos.idx y) (cs.set pos.idx left')) hbm'
    have hright' : (cs.set pos.idx left')[pos.idx + 1]? = some right := by
      rw [List.getElem?_set_ne (by omega)]; exact hr
    have hleft' : (cs.set pos.idx left')[pos.idx]? = some left' := by simp [hcl]
    have hsaved : nodeAt? (modifyAt (fun _ => inner (items.set pos.idx y) (cs.set pos.idx left')) r pos.path)
        (pos.path ++ (pos.idx + 1) :: leftPath right) = some (leaf lcap lits) := by
      rw [nodeAt?_append, e5]
      show nodeAt? (inner (items.set pos.idx y) (cs.set pos.idx left')) ((pos.idx + 1) :: leftPath right) = _
      rw [nodeAt?_inner_cons' hright']; exact hlp1
    have hszl : size left = size left' + 1 := by simp [size, p1]
    have hoff : offsetOf (modifyAt (fun _ => inner (items.set pos.idx y) (cs.set pos.idx left')) r pos.path)
        (pos.path ++ (pos.idx + 1) :: leftPath right) = idxOf r pos.path pos.idx := by
      rw [offsetOf_append _ _ _ _ e5, e6, idxOf_eq_offset r _ pos.path pos.idx hm, hidxm]
      rw [offsetOf_inner_cons' hright', hlp3, sum_take_succ _ _ left' hleft', hprelen, hszl]
      simp [List.take_set_of_le] <;> omega
    obtain ⟨a, b, c, v, f⟩ := remove_finish cfg true e4 (pos.path ++ pos.idx :: cp)
      (pos.path ++ (pos.idx + 1) :: leftPath right) 0 lcap lits hsaved (Nat.zero_le _)
    refine ⟨?_, b, by rw [c, hoff]; simp, v, ?_⟩
    · rw [a, e3, e1, idxOf_eq_offset r _ pos.path pos.idx hm, ← e2, hidxm]
      simp only [toList_inner, t2]
      rw [t1, hszl]
      have : pre.length + ((preOf cs items pos.idx).length + (size left' + 1)) =
          (pre ++ (preOf cs items pos.idx ++ toList left' ++ [y])).length := by simp [size] <;> omega
      rw [this]
      have h2 : pre ++ (preOf cs items pos.idx ++ toList left' ++
            y :: x :: inter (cs.drop (pos.idx + 1)) (items.drop (pos.idx + 1))) ++ post =
          (pre ++ (preOf cs items pos.idx ++ toList left' ++ [y])) ++
            x :: (inter (cs.drop (pos.idx + 1)) (items.drop (pos.idx + 1)) ++ post) := by simp
      rw [h2, eraseIdx_at_cons]; simp
    · intro hcaps
      apply f
      apply e7 _ hcaps
      have hcm := capsAt hcaps pos.path hm
      cases hcm with
      | inner _ _ h1 h2 =>
        exact Caps.inner _ _ (by simpa using h1) (fun z hz => by
          rcases List.mem_or_eq_of_mem_set hz with h' | rfl
          · exact h2 z h'
          · exact p3 _ (h2 left (List.mem_of_getElem? hl)))

/-- `pvRemove(iter)` for any element position -/
theorem removeAt_spec (cfg : Cfg) {d : Nat} {r : Node α} (hb : Bal d r) (pos : Pos)
    (hv : ValidElem r pos.path pos.idx) :
    toList (removeAt cfg r pos).1 = (toList r).eraseIdx (idxOf r pos.path pos.idx) ∧
    (∃ d', Bal d' (removeAt cfg r pos).1) ∧
    idxOf (removeAt cfg r pos).1 (removeAt cfg r pos).2.path (removeAt cfg r pos).2.idx = idxOf r pos.path pos.idx ∧
    ValidPos (removeAt cfg r pos).1 (removeAt cfg r pos).2 ∧
    (Caps cfg.maxCap r → Caps cfg.maxCap (removeAt cfg r pos).1) := by
  obtain ⟨m, hm, hi⟩ := hv
  cases m with
  | leaf cap items => exact removeAt_leaf_spec cfg hb pos cap items hm (by simpa [Node.count] using hi)
  | inner items cs => exact removeAt_inner_spec cfg hb pos items cs hm (by simpa [Node.count] using hi)

end Momo.BTree
