import Momo.Translated.OpenBytes
import Momo.Proof.SegMachine
import Momo.Proof.OpenBytesHT
/-!
  C13 / C01: the byte-level functions of `BucketOpenN1` / `BucketOpen8` as translated from the headers (`Momo.Tr.openN1_*`,
  `Momo.Tr.open8_*`, lean/Momo/Translated/OpenBytes.lean, rewritten by tools/translate.py from the current headers on every
  check) compute the model functions of Momo/Model/OpenBytes.lean the byte-level theorems are about. A changed function body
  makes the equalities below fail to elaborate.
  Hypotheses (all true in the C++): `0 < maxCount`, the source's own assertions (`count < maxCount` for AddCrt,
  `index < count` for Remove), 8-byte words `< 2^64`.
-/
namespace Momo.TrEq
open Momo Momo.Seg Momo.OpenB

theorem ob_w32_eq (n : Nat) : Seg.w32 n = n % 4294967296 := by
  unfold Seg.w32; split
  · rename_i h; exact (Nat.mod_eq_of_lt h).symm
  · rfl

theorem ob_shift : Seg.sub64 (Seg.mul64 8 8) 24 = 40 := by decide

theorem ob_upd_eq (a : Nat → Nat) (i v : Nat) : Tr.upd a i v = OpenB.upd a i v := rfl

/-- `ptCalcShortHash` as translated is the model's short hash, for every argument -/
theorem tr_ob_calcShortHash (h : Nat) : Tr.openN1_ptCalcShortHash h = calcShortHash h := by
  unfold Tr.openN1_ptCalcShortHash calcShortHash u8
  simp only [ob_w32_eq, ob_shift, emptyShortHash, Extracted.openN1ShortHashBits, Extracted.openN1ShortHashShift]

theorem tr_ob_stateIndex (b : Bucket) (h0 : 0 < b.maxCount) :
    Tr.openN1_stateIndex b.reverse b.maxCount = b.stateIdx := by
  unfold Tr.openN1_stateIndex Bucket.stateIdx
  rw [sub64_of_le (by omega)]

theorem tr_ob_shortHashIndex (b : Bucket) (i : Nat) (hi : i < b.maxCount) :
    Tr.openN1_shortHashIndex b.reverse b.maxCount i = b.pos i := by
  unfold Tr.openN1_shortHashIndex Bucket.pos phys
  rw [sub64_of_le (a := b.maxCount) (b := 1) (by omega), sub64_of_le (by omega)]

/-- `ptGetItemPtr(index)` addresses the slot the model calls `phys` -/
theorem tr_ob_itemIndex (mc : Nat) (rev : Bool) (i : Nat) (hi : i < mc) :
    Tr.openN1_itemIndex rev mc i = phys mc rev i := by
  unfold Tr.openN1_itemIndex phys
  rw [sub64_of_le (a := mc) (b := 1) (by omega), sub64_of_le (by omega)]

theorem tr_ob_getState (b : Bucket) (h0 : 0 < b.maxCount) :
    Tr.openN1_pvGetState b.data b.reverse b.maxCount = b.state := by
  unfold Tr.openN1_pvGetState Bucket.state Bucket.stateIdx
  rw [sub64_of_le (by omega)]

theorem tr_ob_getCount (b : Bucket) (h0 : 0 < b.maxCount) :
    Tr.openN1_pvGetCount b.data b.reverse b.maxCount = b.count := by
  unfold Tr.openN1_pvGetCount Bucket.count
  rw [tr_ob_getState b h0]
  show (if decide (b.state ≥ Extracted.openN1EmptyShortHash) = true then sub64 b.state Extracted.openN1EmptyShortHash else b.maxCount)
    = if b.state ≥ Extracted.openN1EmptyShortHash then b.state - Extracted.openN1EmptyShortHash else b.maxCount
  by_cases h : b.state ≥ Extracted.openN1EmptyShortHash
  · rw [if_pos h, if_pos (decide_eq_true h)]
    exact sub64_of_le h
  · rw [if_neg h, if_neg (by simpa using h)]

theorem tr_ob_isFull (b : Bucket) (h0 : 0 < b.maxCount) :
    Tr.openN1_IsFull b.data b.reverse b.maxCount = b.isFull := by
  unfold Tr.openN1_IsFull Bucket.isFull
  rw [tr_ob_getState b h0]

theorem tr_ob_wasFull (b : Bucket) : Tr.openN1_WasFull = b.wasFull := rfl

/-- the byte writes of `AddCrt` as translated are the model's (`count < maxCount`: the source's assertion) -/
theorem tr_ob_addCrt (b : Bucket) (h : Nat) (h0 : 0 < b.maxCount) (hc : b.count < b.maxCount) (hm : b.maxCount < 2 ^ 64) :
    Tr.openN1_AddCrt b.data b.reverse b.maxCount h = (b.addCrt h).data := by
  show _ = b.addBytes h
  unfold Tr.openN1_AddCrt Bucket.addBytes
  simp only [tr_ob_getCount b h0, tr_ob_stateIndex b h0, tr_ob_shortHashIndex b _ hc, tr_ob_calcShortHash, ob_upd_eq, u8]
  rw [add64_of_lt (by omega)]
  by_cases c : b.count + 1 < b.maxCount
  · simp only [decide_eq_true c, if_true, if_pos c]
  · simp only [decide_eq_false c, if_neg c]
    rfl

theorem ob_dec_byte (x : Nat) : Int.toNat (((x : Int) - 1) % 256) = (x + 255) % 256 := by omega

/-- the byte writes of `Remove` as translated are the model's (`index < count ≤ maxCount`) -/
theorem tr_ob_remove (b : Bucket) (index : Nat) (h0 : 0 < b.maxCount) (hi : index < b.count) (hc : b.count ≤ b.maxCount) :
    Tr.openN1_Remove b.data b.reverse b.maxCount index = (b.remove index).data := by
  show _ = b.removeBytes index
  unfold Tr.openN1_Remove Bucket.removeBytes Bucket.compact
  have hi' : index < b.maxCount := by omega
  have hl : b.count - 1 < b.maxCount := by omega
  have hs : sub64 b.count 1 = b.count - 1 := sub64_of_le (by omega)
  simp only [tr_ob_getCount b h0, tr_ob_stateIndex b h0, hs, tr_ob_shortHashIndex b _ hi', tr_ob_shortHashIndex b _ hl, ob_upd_eq, u8,
    emptyShortHash]
  by_cases c : b.count < b.maxCount
  · simp only [decide_eq_true c, if_true, if_pos c, ob_dec_byte]
  · simp only [decide_eq_false c, if_neg c, Bool.false_eq_true, if_false]
    have e : ((↑Extracted.openN1EmptyShortHash + ↑b.maxCount % 256 - 1 : Int) % 256).toNat
        = (Extracted.openN1EmptyShortHash + b.maxCount % 256 - 1) % 256 := by
      simp only [Extracted.openN1EmptyShortHash]; omega
    rw [e]

theorem tr_ob_candidate (d : Nat → Nat) (i sh : Nat) : Tr.openN1_Find_candidate d i sh = (d i == sh) := by
  unfold Tr.openN1_Find_candidate
  by_cases h : d i = sh <;> simp [h]

/-! ### BucketOpen8::Find without SSE2 -/

/-- the two statements that compute the SWAR mask, as translated (64-bit multiplication, subtraction and complement), are
    the model's `swarMask` for every byte `shortHash` and every 64-bit word -/
theorem tr_ob_swarMask (sh w : Nat) (hw : w < 2 ^ 64) : Tr.open8_swarMask sh w = swarMask sh w := by
  unfold Tr.open8_swarMask swarMask mul64 Tr.not64
  simp only [Extracted.open8SwarOnes, Extracted.open8SwarOnesSub, Extracted.open8SwarHigh, Seg.w64_eq]
  have hx : (sh * 72340172838076673 % 2 ^ 64) ^^^ w < 2 ^ 64 := Nat.xor_lt_two_pow (Nat.mod_lt _ (by decide)) hw
  generalize (sh * 72340172838076673 % 2 ^ 64) ^^^ w = x at hx
  have e1 : sub64 x 72340172838076673 = (x + 2 ^ 64 - 72340172838076673) % 2 ^ 64 := by
    unfold sub64
    split
    · omega
    · rw [Seg.w64_eq]; rfl
  have e2 : 18446744073709551615 - x % 18446744073709551616 = 2 ^ 64 - 1 - x := by omega
  rw [e1, e2]

theorem ob_ctz_le : ∀ (fuel m : Nat), ctz fuel m ≤ fuel
  | 0, _ => Nat.le_refl _
  | fuel+1, m => by
    unfold ctz
    split
    · omega
    · have := ob_ctz_le fuel (m / 2); omega

theorem tr_ob_swarIndex (mask : Nat) : Tr.open8_swarIndex mask = ctz 64 mask >>> Extracted.open8SwarIndexShift := by
  unfold Tr.open8_swarIndex
  rw [Seg.w64_of_lt (Nat.lt_of_le_of_lt (ob_ctz_le 64 mask) (by decide))]

theorem tr_ob_swarNext (mask : Nat) (h : mask ≠ 0) : Tr.open8_swarNext mask = mask &&& (mask - 1) := by
  unfold Tr.open8_swarNext
  rw [sub64_of_le (by omega)]

theorem tr_ob_swarContinue (mask : Nat) : Tr.open8_swarContinue mask = !(mask == 0) := by
  unfold Tr.open8_swarContinue
  by_cases h : mask = 0 <;> simp [h]

/-- the candidate loop of `BucketOpen8::Find` (`#else` branch) assembled from the TRANSLATED statements: loop test, lane index,
    predicate call, loop step -/
def trSwarLoop (pred : Nat → Bool) : Nat → Nat → Option Nat
  | 0, _ => none
  | fuel+1, mask =>
    if Tr.open8_swarContinue mask then
      if pred (Tr.open8_swarIndex mask) then some (Tr.open8_swarIndex mask)
      else trSwarLoop pred fuel (Tr.open8_swarNext mask)
    else none

/-- `BucketOpen8::Find` without SSE2 over the translated statements: short hash, 8-byte load, mask, loop -/
def trFind8swar (data : Nat → Nat) (h : Nat) (pred : Nat → Bool) : Option Nat :=
  trSwarLoop pred 64 (Tr.open8_swarMask (Tr.openN1_ptCalcShortHash h) (word8 data))

theorem trSwarLoop_eq (pred : Nat → Bool) : ∀ fuel mask, trSwarLoop pred fuel mask = swarLoop pred fuel mask := by
  intro fuel
  induction fuel with
  | zero => intro mask; rfl
  | succ n ih =>
    intro mask
    unfold trSwarLoop swarLoop
    rw [tr_ob_swarContinue, tr_ob_swarIndex]
    by_cases h : mask = 0
    · simp [h]
    · rw [tr_ob_swarNext mask h, ih]
      simp [h]

theorem ob_word8_lt (d : Nat → Nat) (hd : ∀ j, j < 8 → d j < 256) : word8 d < 2 ^ 64 := by
  unfold word8
  have h0 := hd 0 (by decide); have h1 := hd 1 (by decide); have h2 := hd 2 (by decide); have h3 := hd 3 (by decide)
  have h4 := hd 4 (by decide); have h5 := hd 5 (by decide); have h6 := hd 6 (by decide); have h7 := hd 7 (by decide)
  omega

theorem trFind8swar_eq (b : Bucket) (h : Nat) (pred : Nat → Bool) (hd : ∀ j, j < 8 → b.data j < 256) :
    trFind8swar b.data h pred = b.find8swar h pred := by
  unfold trFind8swar Bucket.find8swar
  rw [trSwarLoop_eq, tr_ob_calcShortHash, tr_ob_swarMask _ _ (ob_word8_lt _ hd)]

/-- the table variant of `pvCountTrailingZeros15` as translated is count-trailing-zeros on its whole domain `0 < mask < 128` -/
theorem tr_ob_ctz15_table : ∀ m, m < 128 → 0 < m → Tr.open8_ctz15_table m = ctz 32 m := by
  decide +kernel

/-! ### histories over the translated byte writes -/

/-- one operation on the raw bytes, performed by the TRANSLATED `AddCrt` / `Remove` -/
def trObStep (rev : Bool) (mc : Nat) (d : Nat → Nat) : OpenB.Op → Nat → Nat
  | .add h => Tr.openN1_AddCrt d rev mc h
  | .rem index => Tr.openN1_Remove d rev mc index

theorem trObStep_eq (b : Bucket) (hs : List Nat) (op : OpenB.Op) (hI : b.Inv hs) (hop : op.legal b.maxCount hs) :
    trObStep b.reverse b.maxCount b.data op = (b.step op).data := by
  have hc := inv_count_eq hI
  have h0 := hI.1
  have h8 : b.maxCount < 2 ^ 64 := Nat.lt_trans hI.2.1 (by decide)
  cases op with
  | add h => exact tr_ob_addCrt b h h0 (by rw [hc]; exact hop.1) h8
  | rem index => exact tr_ob_remove b index h0 (by rw [hc]; exact hop) (by rw [hc]; exact hI.2.2.1)

theorem trObRun_eq (ops : List OpenB.Op) : ∀ (b : Bucket) (hs : List Nat), b.Inv hs → legalHist b.maxCount hs ops →
    ops.foldl (trObStep b.reverse b.maxCount) b.data = (ops.foldl Bucket.step b).data := by
  induction ops with
  | nil => intro b hs _ _; rfl
  | cons op rest ih =>
    intro b hs hI hl
    simp only [List.foldl_cons]
    rw [trObStep_eq b hs op hI hl.1]
    have := ih (b.step op) (absStep hs op) (step_inv b hs op hI hl.1) (by rw [step_maxCount]; exact hl.2)
    rw [step_maxCount, step_reverse] at this
    exact this

end Momo.TrEq
