import Momo.Model.PoolWorld
import Momo.Proof.PoolHist
import Momo.Proof.PoolSingleMerge
/-!
  `MemPool` objects with their memory managers (C09): `Swap`, move construction, move assignment as operations of a world
  of pool objects. Every call to a manager is tagged with the manager called; the invariant keeps, for every manager, an
  exact ledger of the memory held by the objects that hold this manager NOW - so a block stays freeable, through the
  right manager, by whichever object took over its buffer.
-/
namespace Momo.Pool

/-- no event asks the manager for memory -/
def NoMalloc (evs : List Ev) : Prop := ∀ e ∈ evs, ∃ a s, e = Ev.free a s

theorem NoMalloc.nil : NoMalloc [] := fun _ h => by simp at h
theorem NoMalloc.append {e1 e2 : List Ev} (h1 : NoMalloc e1) (h2 : NoMalloc e2) : NoMalloc (e1 ++ e2) := by
  intro e he
  rcases List.mem_append.mp he with h | h
  · exact h1 e h
  · exact h2 e h
theorem NoMalloc.single (a s : Int) : NoMalloc [Ev.free a s] := by
  intro e he; simp only [List.mem_singleton] at he; exact ⟨a, s, he⟩

/-- whatever the outcome, the events contain no `malloc` -/
def Outcome.NM {α : Type} : Outcome α → Prop
  | .ok _ _ e => NoMalloc e
  | .badAlloc _ e => NoMalloc e
  | .stuck _ => True

theorem NM_bind {α β : Type} {o : Outcome α} {f : α → Pool → Outcome β} (ho : o.NM) (hf : ∀ v p, (f v p).NM) :
    (o.bind f).NM := by
  cases o with
  | stuck w => trivial
  | badAlloc p e => exact ho
  | ok v p e =>
    simp only [Outcome.bind]
    have := hf v p
    cases hfp : f v p with
    | stuck w => trivial
    | badAlloc p' e' => rw [hfp] at this; exact NoMalloc.append ho this
    | ok v' p' e' => rw [hfp] at this; exact NoMalloc.append ho this

theorem NM_map {α β : Type} {o : Outcome α} {f : α → β} (ho : o.NM) : (o.map f).NM := by
  cases o <;> exact ho

theorem deleteBuffer_NM (P : Params) (p : Pool) (a : Int) : (deleteBuffer P p a).NM := by
  unfold deleteBuffer
  split
  · trivial
  · split
    · trivial
    · exact NoMalloc.single _ _

theorem deleteBlockAt_NM (P : Params) (p : Pool) (a i : Int) : (deleteBlockAt P p a i).NM := by
  unfold deleteBlockAt
  split
  · trivial
  · split
    · trivial
    · split
      · split
        · exact deleteBuffer_NM _ _ _
        · split
          · split
            · exact NoMalloc.nil
            · exact deleteBuffer_NM _ _ _
          · exact deleteBuffer_NM _ _ _
      · exact NoMalloc.nil

theorem deleteBlock_NM (P : Params) (p : Pool) (blk : Int) : (deleteBlock P p blk).NM := by
  unfold deleteBlock
  split
  · unfold deleteBlockN; split
    · trivial
    · exact deleteBlockAt_NM _ _ _ _
  · split
    · exact NoMalloc.single _ _
    · unfold deleteBlock1; split
      · trivial
      · exact NoMalloc.single _ _

theorem flushList_NM (P : Params) : ∀ (cs : List Int) (p : Pool), (flushList P cs p).NM := by
  intro cs
  induction cs with
  | nil => intro p; exact NoMalloc.nil
  | cons c cs ih => intro p; exact NM_bind (deleteBlock_NM P p c) (fun _ p' => ih p')

theorem flush_NM (P : Params) (p : Pool) : (flush P p).NM := flushList_NM P _ _

theorem ok_NM {α : Type} (v : α) (p : Pool) : (Outcome.ok v p []).NM := NoMalloc.nil

theorem deallocate_NM (P : Params) (p : Pool) (blk : Int) : (deallocate P p blk).NM := by
  unfold deallocate
  split
  · trivial
  · apply NM_bind
    · split
      · apply NM_bind
        · split
          · exact flush_NM _ _
          · exact ok_NM _ _
        · intro _ _; exact ok_NM _ _
      · exact deleteBlock_NM _ _ _
    · intro _ _; exact ok_NM _ _

theorem deleteAllPre_NM (P : Params) : ∀ (f : Nat) (p : Pool), (deleteAllPre P f p).NM := by
  intro f
  induction f with
  | zero => intro p; exact NoMalloc.nil
  | succ f ih =>
    intro p
    unfold deleteAllPre
    split
    · exact NoMalloc.nil
    · exact NM_bind (deleteBuffer_NM _ _ _) (fun _ p' => ih p')

theorem deleteAllPost_NM (P : Params) : ∀ (f : Nat) (p : Pool), (deleteAllPost P f p).NM := by
  intro f
  induction f with
  | zero => intro p; exact NoMalloc.nil
  | succ f ih =>
    intro p
    unfold deleteAllPost
    split
    · exact NoMalloc.nil
    · exact NM_bind (deleteBuffer_NM _ _ _) (fun _ p' => ih p')

theorem deallocateAll_NM (P : Params) (p : Pool) : (deallocateAll P p).NM := by
  unfold deallocateAll
  split
  · trivial
  · split
    · exact NoMalloc.nil
    · exact NM_bind (deleteAllPre_NM _ _ _) (fun _ p1 => NM_bind (deleteAllPost_NM _ _ _) (fun _ _ => ok_NM _ _))

theorem destroy_NM (P : Params) (p : Pool) : (destroy P p).NM := by
  unfold destroy
  split
  · trivial
  · split
    · exact deallocateAll_NM _ _
    · split
      · exact flush_NM _ _
      · exact NoMalloc.nil

theorem deleteBlocksLoop_NM (P : Params) (a buf first : Int) (wf : List Int) (f : Int → Bool) :
    ∀ (is : List Nat) (p : Pool), (deleteBlocksLoop P a buf first wf f is p).NM := by
  intro is
  induction is with
  | nil => intro p; exact NoMalloc.nil
  | cons i is ih =>
    intro p
    unfold deleteBlocksLoop
    split
    · exact ih p
    · split
      · exact NM_bind (deleteBlockAt_NM _ _ _ _) (fun _ p' => NM_map (ih _))
      · exact NM_map (ih p)

theorem deleteBlocks_NM (P : Params) (p : Pool) (a : Int) (f : Int → Bool) : (deleteBlocks P p a f).NM := by
  unfold deleteBlocks
  split
  · trivial
  · split
    · trivial
    · exact deleteBlocksLoop_NM _ _ _ _ _ _ _ _

theorem difForward_NM (P : Params) (f : Int → Bool) : ∀ (n : Nat) (b : Int) (p : Pool), (difForward P f n b p).NM := by
  intro n
  induction n with
  | zero => intro b p; trivial
  | succ n ih =>
    intro b p
    unfold difForward
    apply NM_bind (deleteBlocks_NM _ _ _ _)
    intro tr p'
    split
    · exact ok_NM _ _
    · exact NM_map (ih _ _)

theorem difBackward_NM (P : Params) (f : Int → Bool) : ∀ (n : Nat) (b : Option Int) (p : Pool), (difBackward P f n b p).NM := by
  intro n
  induction n with
  | zero =>
    intro b p
    cases b with
    | none => exact NoMalloc.nil
    | some b => trivial
  | succ n ih =>
    intro b p
    cases b with
    | none => exact NoMalloc.nil
    | some b =>
      unfold difBackward
      exact NM_bind (deleteBlocks_NM _ _ _ _) (fun _ p' => NM_map (ih _ _))

theorem deallocateIf_NM (P : Params) (p : Pool) (f : Int → Bool) : (deallocateIf P p f).NM := by
  unfold deallocateIf
  split
  · trivial
  · apply NM_bind
    · split
      · exact flush_NM _ _
      · exact ok_NM _ _
    · intro _ p0
      split
      · exact ok_NM _ _
      · split
        · trivial
        · apply NM_bind (difForward_NM _ _ _ _ _)
          intro tr1 p1
          split
          · trivial
          · exact NM_map (difBackward_NM _ _ _ _ _)

theorem mergeFrom_NM (P : Params) (a b : Pool) : (mergeFrom P a b).NM := by
  unfold mergeFrom
  apply NM_bind
  · split
    · exact flush_NM _ _
    · exact ok_NM _ _
  · intro _ b1
    split
    · exact NoMalloc.nil
    · split
      · exact NoMalloc.nil
      · exact NoMalloc.nil

/-- a property of the events of an outcome, whatever the outcome -/
def Outcome.All {α : Type} (Q : List Ev → Prop) : Outcome α → Prop
  | .ok _ _ e => Q e
  | .badAlloc _ e => Q e
  | .stuck _ => True

theorem Outcome.All.mono {α : Type} {Q R : List Ev → Prop} {o : Outcome α} (h : o.All Q) (hqr : ∀ e, Q e → R e) : o.All R := by
  cases o <;> first | exact hqr _ h | trivial

/-- every event asks the manager for memory, and the answer is one of the oracle's -/
def FromOrc (orc : Oracle) (sz : Int) (evs : List Ev) : Prop :=
  ∀ x ∈ evs, ∃ j base, orc j = some base ∧ x = Ev.malloc base sz

theorem FromOrc.snoc {orc : Oracle} {sz : Int} {evs : List Ev} (h : FromOrc orc sz evs) (j : Nat) (base : Int)
    (hj : orc j = some base) : FromOrc orc sz (evs ++ [Ev.malloc base sz]) := by
  intro x hx
  rcases List.mem_append.mp hx with hm | hm
  · exact h x hm
  · simp only [List.mem_singleton] at hm; exact ⟨j, base, hj, hm⟩

theorem takeFromHead_All (P : Params) (p : Pool) (evs : List Ev) (Q : List Ev → Prop) (hQ : Q evs) :
    (takeFromHead P p evs).All Q := by
  unfold takeFromHead
  split
  · trivial
  · split
    · trivial
    · split
      · trivial
      · split <;> exact hQ

theorem newBlockHead_from (P : Params) (p : Pool) (evs : List Ev) (orc : Oracle) (k : Nat)
    (h : FromOrc orc P.bufferSize evs) : (newBlockHead P p evs orc k).All (FromOrc orc P.bufferSize) := by
  unfold newBlockHead
  split
  · trivial
  · split
    · trivial
    · split
      · split
        · exact h
        · next base hb => exact takeFromHead_All _ _ _ _ (h.snoc k base hb)
      · exact takeFromHead_All _ _ _ _ h

theorem newBlock_from (P : Params) (p : Pool) (orc : Oracle) : (newBlock P p orc).All (FromOrc orc P.bufferSize) := by
  unfold newBlock
  split
  · split
    · exact fun _ hx => by simp at hx
    · next base hb =>
      apply newBlockHead_from
      intro x hx
      simp only [List.mem_singleton] at hx
      exact ⟨0, base, hb, hx⟩
  · exact newBlockHead_from _ _ _ _ _ (fun _ hx => by simp at hx)

/-- **the calls of a successful `Allocate` (`blockCount > 1`)**: none, or one request whose answer is one of the oracle's -/
theorem allocate_events_multi {P : Params} {k : Int} (hM : Multi P k) (hN2 : 2 ≤ P.N) {p : Pool} (h : PoolWF P p)
    {orc : Oracle} (horc : OrcOK P p orc) {blk : Int} {p' : Pool} {evs : List Ev}
    (he : allocate P p orc = .ok blk p' evs) :
    evs = [] ∨ ∃ j base, orc j = some base ∧ evs = [Ev.malloc base P.bufferSize] := by
  unfold allocate at he
  cases hc : (if P.useCache = true then p.cache else []) with
  | cons c cs =>
    rw [hc] at he
    simp only [Outcome.bind] at he
    cases he; exact Or.inl rfl
  | nil =>
    rw [hc] at he
    simp only at he
    rw [if_pos (by omega : P.N > 1)] at he
    have hnb := newBlock_ok hM hN2 h.core horc
    have hfo := newBlock_from P p orc
    cases hres : newBlock P p orc with
    | stuck w => rw [hres] at he; simp [Outcome.bind] at he
    | badAlloc p1 e1 => rw [hres] at he; simp [Outcome.bind] at he
    | ok b1 p1 e1 =>
      rw [hres] at he hnb hfo
      simp only [Outcome.bind] at he
      cases he
      rcases hnb.events with ⟨rfl, _⟩ | ⟨base, rfl, _⟩
      · exact Or.inl rfl
      · right
        obtain ⟨j, b2, hj, hb2⟩ := hfo (Ev.malloc base P.bufferSize) (by simp)
        cases hb2
        exact ⟨j, base, hj, by simp⟩

/-- **the calls of a successful `Allocate` (`blockCount == 1`)** -/
theorem allocate_events_single {P : Params} (hN1 : P.N = 1) {p : Pool} {orc : Oracle} {blk : Int} {p' : Pool}
    {evs : List Ev} (he : allocate P p orc = .ok blk p' evs) :
    evs = [] ∨ ∃ base, orc 0 = some base ∧ evs = [Ev.malloc base P.singleSize] := by
  unfold allocate at he
  cases hc : (if P.useCache = true then p.cache else []) with
  | cons c cs =>
    rw [hc] at he
    simp only [Outcome.bind] at he
    cases he; exact Or.inl rfl
  | nil =>
    rw [hc] at he
    simp only at he
    rw [if_neg (by omega : ¬ P.N > 1)] at he
    cases ho : orc 0 with
    | none => rw [ho] at he; simp [Outcome.bind] at he
    | some base =>
      rw [ho] at he
      simp only at he
      right
      by_cases h0 : P.alignAddend = 0
      · rw [if_pos h0] at he; simp only [Outcome.bind, Outcome.ok.injEq] at he
        refine ⟨base, rfl, ?_⟩
        rw [← he.2.2]; simp [Params.singleSize, h0]
      · rw [if_neg h0] at he; simp only [Outcome.bind, Outcome.ok.injEq] at he
        refine ⟨base, rfl, ?_⟩
        rw [← he.2.2]; simp [Params.singleSize, h0]


/-! ## a world of pool objects and memory managers -/

def DisjP (r s : Int × Int) : Prop := Disj r.1 r.2 s.1 s.2

theorem DisjP.symm {r s : Int × Int} (h : DisjP r s) : DisjP s r := by
  unfold DisjP Disj at *; omega

/-- the memory a pool object holds, as (address, size) of the allocations -/
def PoolObj.mem (o : PoolObj) : List (Int × Int) :=
  if 2 ≤ o.P.N then owned o.P o.pool.store else owned1 o.P o.pool.singles

/-- the size of every request of a pool object to its manager -/
def PoolObj.size (o : PoolObj) : Int := if 2 ≤ o.P.N then o.P.bufferSize else o.P.singleSize

/-- invariant of one pool object; a moved-from object (its manager is gone) is empty -/
structure ObjWF (o : PoolObj) : Prop where
  legal : o.P.Legal
  multi : 2 ≤ o.P.N → PoolWF o.P o.pool
  single : o.P.N = 1 → SingleWF o.P o.pool
  movedFrom : o.mgr = none → o.pool = Pool.empty

/-- the memory held by the objects whose manager is `m` -/
def memOf (m : Nat) (w : List PoolObj) : List (Int × Int) :=
  w.flatMap fun o => if o.mgr = some m then o.mem else []

/-- the calls made to manager `m` -/
def evsOf (m : Nat) (es : List WEv) : List Ev := (es.filter fun e => e.1 == some m).map (·.2)

/-- invariant of the world: every object is well formed; for every manager the calls made to it so far form an exact
    ledger of the memory held by the objects that hold this manager now, and that memory is pairwise disjoint; no call was
    made through a moved-from manager -/
structure WInv (w : List PoolObj) (es : List WEv) : Prop where
  objs : ∀ o ∈ w, ObjWF o
  ledgers : ∀ m, ∃ L, ledger [] (evsOf m es) = some L ∧ L.Perm (memOf m w) ∧ L.Pairwise DisjP
  called : ∀ e ∈ es, e.1 ≠ none

theorem memOf_append (m : Nat) (a b : List PoolObj) : memOf m (a ++ b) = memOf m a ++ memOf m b := by
  unfold memOf; rw [List.flatMap_append]

theorem memOf_all (m : Nat) (os : List PoolObj) (h : ∀ o ∈ os, o.mgr = some m) : memOf m os = os.flatMap PoolObj.mem := by
  unfold memOf
  induction os with
  | nil => rfl
  | cons o os ih =>
    simp only [List.flatMap_cons]
    rw [if_pos (h o (by simp)), ih (fun x hx => h x (by simp [hx]))]

theorem memOf_none (m : Nat) (os : List PoolObj) (h : ∀ o ∈ os, o.mgr ≠ some m) : memOf m os = [] := by
  unfold memOf
  induction os with
  | nil => rfl
  | cons o os ih =>
    simp only [List.flatMap_cons]
    rw [if_neg (h o (by simp)), ih (fun x hx => h x (by simp [hx]))]; rfl

theorem evsOf_append (m : Nat) (a b : List WEv) : evsOf m (a ++ b) = evsOf m a ++ evsOf m b := by
  unfold evsOf; rw [List.filter_append, List.map_append]

theorem evsOf_tag_same (m : Nat) (evs : List Ev) : evsOf m (tagEvs (some m) evs) = evs := by
  unfold evsOf tagEvs
  induction evs with
  | nil => rfl
  | cons e es ih => simp only [List.map_cons, List.filter_cons]; simp [ih]

theorem evsOf_tag_other (m : Nat) (t : Option Nat) (evs : List Ev) (h : t ≠ some m) : evsOf m (tagEvs t evs) = [] := by
  unfold evsOf tagEvs
  induction evs with
  | nil => rfl
  | cons e es ih => simp only [List.map_cons, List.filter_cons]; simp [h, ih]

theorem ledger_pairwise_nomalloc {R : Int × Int → Int × Int → Prop} : ∀ (evs : List Ev) (L M : List (Int × Int)),
    NoMalloc evs → L.Pairwise R → ledger L evs = some M → M.Pairwise R := by
  intro evs
  induction evs with
  | nil => intro L M _ hp h; simp only [ledger] at h; cases h; exact hp
  | cons e es ih =>
    intro L M hn hp h
    obtain ⟨a, s, rfl⟩ := hn e (by simp)
    simp only [ledger] at h
    split at h
    · exact ih _ M (fun x hx => hn x (by simp [hx])) (hp.erase _) h
    · cases h

/-- one operation on the objects `os`, all holding manager `m`, that turns them into `os'` -/
theorem WInv.step {os w : List PoolObj} {es : List WEv} (h : WInv (os ++ w) es) (m : Nat) (os' : List PoolObj)
    (evs : List Ev) (hm : ∀ o ∈ os, o.mgr = some m) (hm' : ∀ o ∈ os', o.mgr = some m) (hwf' : ∀ o ∈ os', ObjWF o)
    (hl : ∃ L', ledger (os.flatMap PoolObj.mem) evs = some L' ∧ L'.Perm (os'.flatMap PoolObj.mem))
    (hev : NoMalloc evs ∨ ∃ base sz, evs = [Ev.malloc base sz] ∧ ∀ r ∈ memOf m (os ++ w), Disj base sz r.1 r.2) :
    WInv (os' ++ w) (es ++ tagEvs (some m) evs) := by
  refine ⟨?_, ?_, ?_⟩
  · intro o ho
    rcases List.mem_append.mp ho with h1 | h1
    · exact hwf' o h1
    · exact h.objs o (List.mem_append_right _ h1)
  · intro m'
    obtain ⟨L, hL, hperm, hpw⟩ := h.ledgers m'
    by_cases hmm : m' = m
    · subst hmm
      rw [evsOf_append, evsOf_tag_same, ledger_append, hL]
      simp only [Option.bind]
      obtain ⟨L', hl1, hl2⟩ := hl
      have hframe := ledger_frame (memOf m' w) evs _ _ hl1
      rw [memOf_append, memOf_all m' os hm] at hperm
      obtain ⟨M, hM, hMp⟩ := ledger_perm evs hperm.symm _ hframe
      refine ⟨M, hM, ?_, ?_⟩
      · rw [memOf_append, memOf_all m' os' hm']
        exact hMp.symm.trans (List.Perm.append_right _ hl2)
      · rcases hev with hn | ⟨base, sz, rfl, hd⟩
        · exact ledger_pairwise_nomalloc evs L M hn hpw hM
        · simp only [ledger] at hM; cases hM
          refine List.pairwise_cons.mpr ⟨?_, hpw⟩
          intro r hr
          have := hd r (by rw [memOf_append, memOf_all m' os hm]; exact hperm.subset hr)
          exact this
    · have hne : (some m : Option Nat) ≠ some m' := fun e => hmm (Option.some.inj e).symm
      rw [evsOf_append, evsOf_tag_other m' (some m) evs hne, List.append_nil]
      refine ⟨L, hL, ?_, hpw⟩
      rw [memOf_append, memOf_none m' os' (fun o ho => by rw [hm' o ho]; exact hne)]
      rw [memOf_append, memOf_none m' os (fun o ho => by rw [hm o ho]; exact hne)] at hperm
      exact hperm
  · intro e he
    rcases List.mem_append.mp he with h1 | h1
    · exact h.called e h1
    · unfold tagEvs at h1
      obtain ⟨x, _, rfl⟩ := List.mem_map.mp h1
      simp

theorem WInv.perm {w w' : List PoolObj} {es : List WEv} (h : WInv w es) (hp : w.Perm w') : WInv w' es := by
  refine ⟨fun o ho => h.objs o (hp.symm.subset ho), ?_, h.called⟩
  intro m
  obtain ⟨L, h1, h2, h3⟩ := h.ledgers m
  exact ⟨L, h1, h2.trans (List.Perm.flatMap_right _ hp), h3⟩

theorem mem_empty (P : Params) (m : Option Nat) : (PoolObj.mk P m Pool.empty).mem = [] := by
  unfold PoolObj.mem; split <;> rfl

/-- an object that holds nothing joins or leaves the world -/
theorem WInv.addEmpty {w : List PoolObj} {es : List WEv} (h : WInv w es) (o : PoolObj) (hwf : ObjWF o) (he : o.mem = []) :
    WInv (o :: w) es := by
  refine ⟨?_, ?_, h.called⟩
  · intro x hx
    rcases List.mem_cons.mp hx with rfl | hx
    · exact hwf
    · exact h.objs x hx
  · intro m
    obtain ⟨L, h1, h2, h3⟩ := h.ledgers m
    refine ⟨L, h1, ?_, h3⟩
    show L.Perm (memOf m ([o] ++ w))
    rw [memOf_append]
    have : memOf m [o] = [] := by unfold memOf; simp [he]
    rw [this]; exact h2

theorem WInv.dropEmpty {w : List PoolObj} {es : List WEv} {o : PoolObj} (h : WInv (o :: w) es) (he : o.mem = []) :
    WInv w es := by
  refine ⟨fun x hx => h.objs x (by simp [hx]), ?_, h.called⟩
  intro m
  obtain ⟨L, h1, h2, h3⟩ := h.ledgers m
  refine ⟨L, h1, ?_, h3⟩
  have e : memOf m (o :: w) = memOf m ([o] ++ w) := rfl
  rw [e, memOf_append] at h2
  have : memOf m [o] = [] := by unfold memOf; simp [he]
  rw [this] at h2; exact h2


/-! ## object-level facts about `Swap`, move construction and move assignment -/

/-- **`Swap` exchanges everything**: params, memory manager, count, buffer list and cache -/
theorem swapObjs_eq (a b : PoolObj) : swapObjs a b = (b, a) := rfl

/-- **move construction**: the new object is what the source was - with the source's memory manager; the source is left
    empty, holding a moved-from manager -/
theorem moveCtor_eq (a : PoolObj) : moveCtor a = (a, ⟨a.P, none, Pool.empty⟩) := rfl

/-- destroying an empty pool calls no memory manager -/
theorem destroy_empty (P : Params) : destroy P Pool.empty = .ok () Pool.empty [] := by
  unfold destroy
  rw [if_neg (by simp [Pool.empty])]
  split
  · unfold deallocateAll
    rw [if_neg (by omega)]; rfl
  · split
    · rfl
    · rfl

theorem moveAssign_eq (d s : PoolObj) :
    moveAssign d s = match destroy d.P d.pool with
      | .ok _ _ evs => .ok s ⟨s.P, none, Pool.empty⟩ d.mgr evs
      | .badAlloc _ _ => .stuck "~MemPool: the memory manager threw"
      | .stuck w => .stuck w := rfl

theorem ObjWF.movedFrom_wf (P : Params) (hL : P.Legal) : ObjWF ⟨P, none, Pool.empty⟩ :=
  ⟨hL, fun _ => PoolWF.empty P, fun _ => SingleWF.empty P, fun _ => rfl⟩

theorem ObjWF.N_cases {o : PoolObj} (h : ObjWF o) : 2 ≤ o.P.N ∨ o.P.N = 1 := by
  have := h.legal.1; omega

/-- the count of an object is the number of its live blocks -/
theorem ObjWF.count_exact {o : PoolObj} (h : ObjWF o) : o.pool.allocCount = (o.pool.live o.P).length := by
  rcases h.N_cases with h2 | h1
  · obtain ⟨hM, _⟩ := Legal.multi h.legal h2
    exact (h.multi h2).count_exact hM h2
  · exact (h.single h1).count_exact h1

/-- **destruction** of an object without live blocks gives all its memory back, with frees only -/
theorem ObjWF.destroy_ok {o : PoolObj} (h : ObjWF o) (h0 : o.pool.allocCount = 0) :
    ∃ p' evs, destroy o.P o.pool = .ok () p' evs ∧ ledger o.mem evs = some [] ∧ NoMalloc evs := by
  rcases h.N_cases with h2 | h1
  · obtain ⟨hM, hA2⟩ := Legal.multi h.legal h2
    obtain ⟨evs, he, L, hl, hp⟩ := Pool.destroy_ok hM h2 hA2 (h.multi h2) h0
    have hn := destroy_NM o.P o.pool
    rw [he] at hn
    refine ⟨_, evs, he, ?_, hn⟩
    unfold PoolObj.mem; rw [if_pos h2, hl]
    simp only [owned, List.map_nil] at hp
    rw [List.perm_nil.mp hp]
  · obtain ⟨p', evs, he, _, _, L, hl, hp⟩ := destroy_single_ok h1 (h.single h1) h0
    have hn := destroy_NM o.P o.pool
    rw [he] at hn
    refine ⟨_, evs, he, ?_, hn⟩
    unfold PoolObj.mem; rw [if_neg (by omega), hl]
    simp only [owned1, List.map_nil] at hp
    rw [List.perm_nil.mp hp]

/-- a moved-from object is destroyed without any call to a manager -/
theorem ObjWF.destroy_movedFrom {o : PoolObj} (h : ObjWF o) (hm : o.mgr = none) {p' : Pool} {evs : List Ev}
    (he : destroy o.P o.pool = .ok () p' evs) : evs = [] := by
  rw [h.movedFrom hm, destroy_empty] at he
  cases he; rfl

/-! ## legal histories of a world -/

/-- contract of manager `m` towards object `o` in world `w`: an answer is aligned as the pool assumes and overlaps no
    memory that is outstanding with this manager (whoever holds it) -/
def WContract (m : Nat) (w : List PoolObj) (o : PoolObj) (orc : Oracle) : Prop :=
  ∀ j base, orc j = some base → o.P.allocAlign ∣ base ∧ ∀ r ∈ memOf m w, Disj base o.size r.1 r.2

/-- legal histories of a world of pool objects (the objects have no order: `perm`). Objects are created with a manager,
    allocate / free / bulk-free / merge through the manager they hold NOW, are swapped, move-constructed, move-assigned
    and destroyed. `Deallocate` is applied to blocks live in that object; `MergeFrom` to objects with equal parameters and
    equal managers (the source's checks); managers honour `WContract`. Every call is recorded with the manager called. -/
inductive WReach : List PoolObj → List WEv → Prop
  | init : WReach [] []
  | perm {w w' es} : WReach w es → w.Perm w' → WReach w' es
  | new {w es} (P : Params) (m : Nat) : WReach w es → P.Legal → WReach (⟨P, some m, Pool.empty⟩ :: w) es
  | alloc {o w es m orc blk p' evs} : WReach (o :: w) es → o.mgr = some m → WContract m (o :: w) o orc →
      allocate o.P o.pool orc = .ok blk p' evs → WReach ({ o with pool := p' } :: w) (es ++ tagEvs (some m) evs)
  | allocFail {o w es m orc p' evs} : WReach (o :: w) es → o.mgr = some m → WContract m (o :: w) o orc →
      allocate o.P o.pool orc = .badAlloc p' evs → WReach ({ o with pool := p' } :: w) (es ++ tagEvs (some m) evs)
  | dealloc {o w es m blk p' evs} : WReach (o :: w) es → o.mgr = some m → blk ∈ o.pool.live o.P →
      deallocate o.P o.pool blk = .ok () p' evs → WReach ({ o with pool := p' } :: w) (es ++ tagEvs (some m) evs)
  | deallocIf {o w es m f tr p' evs} : WReach (o :: w) es → o.mgr = some m → 2 ≤ o.P.N →
      deallocateIf o.P o.pool f = .ok tr p' evs → WReach ({ o with pool := p' } :: w) (es ++ tagEvs (some m) evs)
  | deallocAll {o w es m p' evs} : WReach (o :: w) es → o.mgr = some m → 2 ≤ o.P.N →
      deallocateAll o.P o.pool = .ok () p' evs → WReach ({ o with pool := p' } :: w) (es ++ tagEvs (some m) evs)
  | merge {a b w es m b' a' evs} : WReach (a :: b :: w) es → a.mgr = some m → b.mgr = some m → b.P = a.P →
      mergeFrom a.P a.pool b.pool = .ok b' a' evs →
      WReach ({ a with pool := a' } :: { b with pool := b' } :: w) (es ++ tagEvs (some m) evs)
  | swap {a b w es} : WReach (a :: b :: w) es → WReach ((swapObjs a b).1 :: (swapObjs a b).2 :: w) es
  | moveCtor {a w es} : WReach (a :: w) es → WReach ((moveCtor a).1 :: (moveCtor a).2 :: w) es
  | moveAssign {d s w es d' s' mg evs} : WReach (d :: s :: w) es → moveAssign d s = .ok d' s' mg evs →
      WReach (d' :: s' :: w) (es ++ tagEvs mg evs)
  | destroy {o w es p' evs} : WReach (o :: w) es → destroy o.P o.pool = .ok () p' evs →
      WReach w (es ++ tagEvs o.mgr evs)

theorem mem_sub_memOf {m : Nat} {o : PoolObj} {w : List PoolObj} (hm : o.mgr = some m) :
    ∀ r ∈ o.mem, r ∈ memOf m (o :: w) := by
  intro r hr
  show r ∈ memOf m ([o] ++ w)
  rw [memOf_append, memOf_all m [o] (by simp [hm])]
  simp [hr]

/-- the world contract implies the pool-level contracts -/
theorem WContract.multi {m : Nat} {o : PoolObj} {w : List PoolObj} {orc : Oracle} (hc : WContract m (o :: w) o orc)
    (hm : o.mgr = some m) (h2 : 2 ≤ o.P.N) : Contract o.P o.pool orc := by
  intro j base hj
  obtain ⟨h1, hd⟩ := hc j base hj
  refine ⟨h1, fun b hb => ?_⟩
  have hr : (b.base, o.P.bufferSize) ∈ o.mem := by
    unfold PoolObj.mem; rw [if_pos h2]; unfold owned; exact List.mem_map_of_mem hb
  have := hd _ (mem_sub_memOf hm _ hr)
  unfold PoolObj.size at this; rw [if_pos h2] at this
  unfold Disj at this; simpa using this

theorem WContract.single {m : Nat} {o : PoolObj} {w : List PoolObj} {orc : Oracle} (hc : WContract m (o :: w) o orc)
    (hm : o.mgr = some m) (h1 : o.P.N = 1) : Contract1 o.P o.pool orc := by
  intro j base hj
  obtain ⟨ha, hd⟩ := hc j base hj
  refine ⟨ha, fun e he => ?_⟩
  have hr : (e.1 - e.2, o.P.singleSize) ∈ o.mem := by
    unfold PoolObj.mem; rw [if_neg (by omega)]; unfold owned1
    exact List.mem_map_of_mem (f := fun e => (e.1 - e.2, o.P.singleSize)) he
  have := hd _ (mem_sub_memOf hm _ hr)
  unfold PoolObj.size at this; rw [if_neg (by omega)] at this
  unfold Disj at this; simpa using this

/-- an operation on the first object of the world -/
theorem WInv.step1 {o : PoolObj} {w : List PoolObj} {es : List WEv} (h : WInv (o :: w) es) (m : Nat) (p' : Pool)
    (evs : List Ev) (hm : o.mgr = some m) (hwf' : ObjWF { o with pool := p' })
    (hl : ∃ L', ledger o.mem evs = some L' ∧ L'.Perm ({ o with pool := p' } : PoolObj).mem)
    (hev : NoMalloc evs ∨ ∃ base sz, evs = [Ev.malloc base sz] ∧ ∀ r ∈ memOf m (o :: w), Disj base sz r.1 r.2) :
    WInv ({ o with pool := p' } :: w) (es ++ tagEvs (some m) evs) := by
  have := WInv.step (os := [o]) (w := w) h m [{ o with pool := p' }] evs (by simp [hm]) (by simp [hm])
    (by simpa using hwf') (by simpa using hl) hev
  exact this

theorem ObjWF.withPool {o : PoolObj} (h : ObjWF o) {m : Nat} (hm : o.mgr = some m) (p' : Pool)
    (h2 : 2 ≤ o.P.N → PoolWF o.P p') (h1 : o.P.N = 1 → SingleWF o.P p') : ObjWF { o with pool := p' } :=
  ⟨h.legal, h2, h1, fun e => by rw [hm] at e; cases e⟩

theorem mem_multi {o : PoolObj} (h2 : 2 ≤ o.P.N) : o.mem = owned o.P o.pool.store := by
  unfold PoolObj.mem; rw [if_pos h2]
theorem mem_single {o : PoolObj} (h1 : o.P.N = 1) : o.mem = owned1 o.P o.pool.singles := by
  unfold PoolObj.mem; rw [if_neg (by omega)]

/-- memory of two different objects of one manager does not overlap -/
theorem WInv.two_disjoint {a b : PoolObj} {w : List PoolObj} {es : List WEv} (h : WInv (a :: b :: w) es) (m : Nat)
    (ha : a.mgr = some m) (hb : b.mgr = some m) : ∀ r ∈ a.mem, ∀ s ∈ b.mem, DisjP r s := by
  obtain ⟨L, _, hp, hpw⟩ := h.ledgers m
  have hpw' := hpw.perm hp (fun h => DisjP.symm h)
  have e : memOf m (a :: b :: w) = memOf m ([a] ++ ([b] ++ w)) := rfl
  rw [e, memOf_append, memOf_append, memOf_all m [a] (by simp [ha]), memOf_all m [b] (by simp [hb])] at hpw'
  simp only [List.flatMap_cons, List.flatMap_nil, List.append_nil] at hpw'
  intro r hr s hs
  exact (List.pairwise_append.mp hpw').2.2 r hr s (List.mem_append_left _ hs)

theorem WReach.inv {w : List PoolObj} {es : List WEv} (h : WReach w es) : WInv w es := by
  induction h with
  | init => exact ⟨fun _ h => by simp at h, fun m => ⟨[], rfl, by simp [memOf], List.Pairwise.nil⟩, fun _ h => by simp at h⟩
  | perm _ hp ih => exact ih.perm hp
  | new P m _ hL ih =>
    exact ih.addEmpty _ ⟨hL, fun _ => PoolWF.empty P, fun _ => SingleWF.empty P, fun e => by cases e⟩ (mem_empty P _)
  | @alloc o w es m orc blk p' evs _ hm hc he ih =>
    have hwf := ih.objs o (by simp)
    rcases hwf.N_cases with h2 | h1
    · obtain ⟨hM, hA2⟩ := Legal.multi hwf.legal h2
      have horc := orcOK_of_disjoint hM hA2 (hwf.multi h2).core orc (hc.multi hm h2)
      have hs := allocate_ok hM h2 (hwf.multi h2) horc
      rw [he] at hs
      refine ih.step1 m p' evs hm (hwf.withPool hm p' (fun _ => hs.wf) (fun e => by omega)) ?_ ?_
      · rw [mem_multi h2, mem_multi (o := { o with pool := p' }) h2]; exact hs.ledger
      · rcases allocate_events_multi hM h2 (hwf.multi h2) horc he with rfl | ⟨j, base, hj, rfl⟩
        · exact Or.inl NoMalloc.nil
        · refine Or.inr ⟨base, _, rfl, ?_⟩
          have := (hc j base hj).2
          unfold PoolObj.size at this; rw [if_pos h2] at this; exact this
    · have hs := allocate_single_ok hwf.legal h1 (hwf.single h1) (hc.single hm h1)
      rw [he] at hs
      refine ih.step1 m p' evs hm (hwf.withPool hm p' (fun e => by omega) (fun _ => hs.wf)) ?_ ?_
      · rw [mem_single h1, mem_single (o := { o with pool := p' }) h1]; exact hs.ledger
      · rcases allocate_events_single h1 he with rfl | ⟨base, hj, rfl⟩
        · exact Or.inl NoMalloc.nil
        · refine Or.inr ⟨base, _, rfl, ?_⟩
          have := (hc 0 base hj).2
          unfold PoolObj.size at this; rw [if_neg (by omega)] at this; exact this
  | @allocFail o w es m orc p' evs _ hm hc he ih =>
    have hwf := ih.objs o (by simp)
    have hsame : p' = o.pool ∧ evs = [] := by
      rcases hwf.N_cases with h2 | h1
      · obtain ⟨hM, hA2⟩ := Legal.multi hwf.legal h2
        have hs := allocate_ok hM h2 (hwf.multi h2) (orcOK_of_disjoint hM hA2 (hwf.multi h2).core orc (hc.multi hm h2))
        rw [he] at hs; exact ⟨hs.1, hs.2.1⟩
      · have hs := allocate_single_ok hwf.legal h1 (hwf.single h1) (hc.single hm h1)
        rw [he] at hs; exact ⟨hs.1, hs.2.1⟩
    obtain ⟨rfl, rfl⟩ := hsame
    simpa [tagEvs] using ih
  | @dealloc o w es m blk p' evs _ hm hb he ih =>
    have hwf := ih.objs o (by simp)
    have hn := deallocate_NM o.P o.pool blk
    rw [he] at hn
    rcases hwf.N_cases with h2 | h1
    · obtain ⟨hM, hA2⟩ := Legal.multi hwf.legal h2
      obtain ⟨p2, e2, h2', hs⟩ := deallocate_ok hM h2 hA2 (hwf.multi h2) blk hb
      rw [he] at h2'; cases h2'
      refine ih.step1 m p' evs hm (hwf.withPool hm p' (fun _ => hs.wf) (fun e => by omega)) ?_ (Or.inl hn)
      rw [mem_multi h2, mem_multi (o := { o with pool := p' }) h2]; exact hs.ledger
    · obtain ⟨p2, e2, h2', hs⟩ := deallocate_single_ok h1 (hwf.single h1) blk hb
      rw [he] at h2'; cases h2'
      refine ih.step1 m p' evs hm (hwf.withPool hm p' (fun e => by omega) (fun _ => hs.wf)) ?_ (Or.inl hn)
      rw [mem_single h1, mem_single (o := { o with pool := p' }) h1]; exact hs.ledger
  | @deallocIf o w es m f tr p' evs _ hm h2 he ih =>
    have hwf := ih.objs o (by simp)
    have hn := deallocateIf_NM o.P o.pool f
    rw [he] at hn
    obtain ⟨hM, hA2⟩ := Legal.multi hwf.legal h2
    obtain ⟨tr2, p2, e2, h2', hwf2, _, _, hl⟩ := deallocateIf_ok hM h2 hA2 (hwf.multi h2) f
    rw [he] at h2'; cases h2'
    refine ih.step1 m p' evs hm (hwf.withPool hm p' (fun _ => hwf2) (fun e => by omega)) ?_ (Or.inl hn)
    rw [mem_multi h2, mem_multi (o := { o with pool := p' }) h2]; exact hl
  | @deallocAll o w es m p' evs _ hm h2 he ih =>
    have hwf := ih.objs o (by simp)
    have hn := deallocateAll_NM o.P o.pool
    rw [he] at hn
    obtain ⟨hM, hA2⟩ := Legal.multi hwf.legal h2
    obtain ⟨p2, e2, h2', hemp, hl⟩ := deallocateAll_ok hM h2 hA2 (hwf.multi h2)
    rw [he] at h2'; cases h2'
    refine ih.step1 m p' evs hm (hwf.withPool hm p' (fun _ => by rw [hemp]; exact PoolWF.empty _) (fun e => by omega)) ?_ (Or.inl hn)
    rw [mem_multi h2, mem_multi (o := { o with pool := p' }) h2, hemp]; exact hl
  | @merge a b w es m b' a' evs _ hma hmb hP he ih =>
    have hwa := ih.objs a (by simp)
    have hwb := ih.objs b (by simp)
    have hn := mergeFrom_NM a.P a.pool b.pool
    rw [he] at hn
    have hdisj := ih.two_disjoint m hma hmb
    rcases hwa.N_cases with h2 | h1
    · obtain ⟨hM, hA2⟩ := Legal.multi hwa.legal h2
      have h2b : 2 ≤ b.P.N := by rw [hP]; exact h2
      have hbwf : PoolWF a.P b.pool := by rw [← hP]; exact hwb.multi h2b
      have hdis : ∀ x ∈ bufs a.pool.store, x ∉ bufs b.pool.store := by
        intro x hxa hxb
        obtain ⟨ba, hba, rfl⟩ := List.mem_map.mp hxa
        obtain ⟨bb, hbb, hbe⟩ := List.mem_map.mp hxb
        have i1 := ((hwa.multi h2).core.bufwf ba hba).buf_inside hM hA2
        have i2 := (hbwf.core.bufwf bb hbb).buf_inside hM hA2
        have hra : (ba.base, a.P.bufferSize) ∈ a.mem := by
          rw [mem_multi h2]; exact List.mem_map_of_mem (f := fun b => (b.base, a.P.bufferSize)) hba
        have hrb : (bb.base, a.P.bufferSize) ∈ b.mem := by
          rw [mem_multi h2b, hP]; exact List.mem_map_of_mem (f := fun b => (b.base, a.P.bufferSize)) hbb
        have := hdisj _ hra _ hrb
        unfold DisjP Disj at this
        simp only at this
        omega
      obtain ⟨a2, e2, h2', hwf2, _, _, hl⟩ := mergeFrom_ok hM h2 hA2 (hwa.multi h2) hbwf hdis
      rw [he] at h2'; cases h2'
      have := WInv.step (os := [a, b]) (w := w) ih m [{ a with pool := a' }, { b with pool := Pool.empty }] evs
        (by simp [hma, hmb]) (by simp [hma, hmb])
        (by
          intro o ho
          simp only [List.mem_cons, List.mem_nil_iff, or_false] at ho
          rcases ho with rfl | rfl
          · exact hwa.withPool hma _ (fun _ => hwf2) (fun e => by omega)
          · exact hwb.withPool hmb _ (fun _ => PoolWF.empty _) (fun _ => SingleWF.empty _))
        (by
          simp only [List.flatMap_cons, List.flatMap_nil, List.append_nil]
          have e : ({ b with pool := Pool.empty } : PoolObj).mem = [] := mem_empty _ _
          rw [e, List.append_nil, mem_multi h2, mem_multi h2b, mem_multi (o := { a with pool := a' }) h2, hP]
          unfold LedgerOK at hl
          simp only [owned, List.map_append] at hl ⊢
          exact hl)
        (Or.inl hn)
      exact this
    · have h1b : b.P.N = 1 := by rw [hP]; exact h1
      have hbwf : SingleWF a.P b.pool := by rw [← hP]; exact hwb.single h1b
      have hdis : ∀ x ∈ a.pool.singles.map (·.1), x ∉ b.pool.singles.map (·.1) := by
        intro x hxa hxb
        obtain ⟨ea, hea, rfl⟩ := List.mem_map.mp hxa
        obtain ⟨eb, heb, hbe⟩ := List.mem_map.mp hxb
        have i1 := (hwa.single h1).block_inside hwa.legal ea hea
        have i2 := hbwf.block_inside hwa.legal eb heb
        have hra : (ea.1 - ea.2, a.P.singleSize) ∈ a.mem := by
          rw [mem_single h1]; exact List.mem_map_of_mem (f := fun e => (e.1 - e.2, a.P.singleSize)) hea
        have hrb : (eb.1 - eb.2, a.P.singleSize) ∈ b.mem := by
          rw [mem_single h1b, hP]; exact List.mem_map_of_mem (f := fun e => (e.1 - e.2, a.P.singleSize)) heb
        have := hdisj _ hra _ hrb
        unfold DisjP Disj at this
        simp only at this hbe
        omega
      obtain ⟨a2, e2, h2', hwf2, _, _, _, hl, _⟩ := mergeFrom_single_ok h1 (hwa.single h1) hbwf hdis
      rw [he] at h2'; cases h2'
      have := WInv.step (os := [a, b]) (w := w) ih m [{ a with pool := a' }, { b with pool := Pool.empty }] evs
        (by simp [hma, hmb]) (by simp [hma, hmb])
        (by
          intro o ho
          simp only [List.mem_cons, List.mem_nil_iff, or_false] at ho
          rcases ho with rfl | rfl
          · exact hwa.withPool hma _ (fun e => by omega) (fun _ => hwf2)
          · exact hwb.withPool hmb _ (fun _ => PoolWF.empty _) (fun _ => SingleWF.empty _))
        (by
          simp only [List.flatMap_cons, List.flatMap_nil, List.append_nil]
          have e : ({ b with pool := Pool.empty } : PoolObj).mem = [] := mem_empty _ _
          rw [e, List.append_nil, mem_single h1, mem_single h1b, mem_single (o := { a with pool := a' }) h1, hP]
          unfold Ledger1OK at hl
          simp only [owned1, List.map_append] at hl ⊢
          exact hl)
        (Or.inl hn)
      exact this
  | @swap a b w es _ ih =>
    rw [swapObjs_eq]
    exact ih.perm (List.Perm.swap b a w)
  | @moveCtor a w es _ ih =>
    rw [moveCtor_eq]
    have hwf := ih.objs a (by simp)
    have := ih.addEmpty ⟨a.P, none, Pool.empty⟩ (ObjWF.movedFrom_wf a.P hwf.legal) (mem_empty _ _)
    exact this.perm (List.Perm.swap _ _ _)
  | @moveAssign d s w es d' s' mg evs _ he ih =>
    rw [moveAssign_eq] at he
    have hwd := ih.objs d (by simp)
    have hws := ih.objs s (by simp)
    cases hd : Pool.destroy d.P d.pool with
    | stuck _ => rw [hd] at he; cases he
    | badAlloc _ _ => rw [hd] at he; cases he
    | ok u p1 e1 =>
      rw [hd] at he; cases he
      -- first the old contents of `*this` are destroyed through the manager it held …
      have hstep : WInv (s :: w) (es ++ tagEvs d.mgr evs) := by
        cases hm : d.mgr with
        | none =>
          have : evs = [] := hwd.destroy_movedFrom hm hd
          subst this
          have hme : d.mem = [] := by rw [show d = ⟨d.P, d.mgr, d.pool⟩ from rfl, hwd.movedFrom hm]; exact mem_empty _ _
          simpa [tagEvs] using ih.dropEmpty hme
        | some m =>
          have h0 : d.pool.allocCount = 0 := by
            unfold Pool.destroy at hd
            by_cases hz : d.pool.allocCount = 0
            · exact hz
            · rw [if_pos hz] at hd; cases hd
          obtain ⟨p2, e2, h2', hl, hn⟩ := hwd.destroy_ok h0
          rw [hd] at h2'; cases h2'
          have := WInv.step (os := [d]) (w := s :: w) ih m [] evs (by simp [hm]) (by simp) (by simp)
            ⟨[], by simpa using hl, by simp⟩ (Or.inl hn)
          simpa using this
      -- … then `*this` takes over the source, which is left moved-from
      have := hstep.addEmpty ⟨s.P, none, Pool.empty⟩ (ObjWF.movedFrom_wf s.P hws.legal) (mem_empty _ _)
      exact this.perm (List.Perm.swap _ _ _)
  | @destroy o w es p' evs _ he ih =>
    have hwo := ih.objs o (by simp)
    cases hm : o.mgr with
    | none =>
      have : evs = [] := hwo.destroy_movedFrom hm he
      subst this
      have hme : o.mem = [] := by rw [show o = ⟨o.P, o.mgr, o.pool⟩ from rfl, hwo.movedFrom hm]; exact mem_empty _ _
      simpa [tagEvs] using ih.dropEmpty hme
    | some m =>
      have h0 : o.pool.allocCount = 0 := by
        unfold Pool.destroy at he
        by_cases hz : o.pool.allocCount = 0
        · exact hz
        · rw [if_pos hz] at he; cases he
      obtain ⟨p2, e2, h2', hl, hn⟩ := hwo.destroy_ok h0
      rw [he] at h2'; cases h2'
      have := WInv.step (os := [o]) (w := w) ih m [] evs (by simp [hm]) (by simp) (by simp)
        ⟨[], by simpa using hl, by simp⟩ (Or.inl hn)
      simpa using this

end Momo.Pool
