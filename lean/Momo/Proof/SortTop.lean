import Momo.Proof.SortFind
import Momo.Proof.SortIsSorted
import Momo.Proof.SortGroup
import Momo.Proof.SortPartition
/-!
  C17 lemmas, part 11: the list-level statements.  The sequence is the list of cells `(item, code)` that a
  lawful memory holds; the index-function statements of parts 1-3 and the frame statements of parts 4-10 are
  restated for it.
-/
namespace Momo.Sort
variable {σ α : Type}

/-- equal items are contiguous: between two equal items every item is equal to them -/
def GroupedCells (eq : α → α → Bool) (l : List (α × Nat)) : Prop :=
  ∀ i j k (_ : i < j) (_ : j < k) (hk : k < l.length), eq (l[i]).1 (l[k]).1 = true → eq (l[i]).1 (l[j]).1 = true

/-- equal items carry equal codes -/
def ConsL (eq : α → α → Bool) (l : List (α × Nat)) : Prop :=
  ∀ x ∈ l, ∀ y ∈ l, eq x.1 y.1 = true → x.2 = y.2

/-! ### bridges between the three forms of "grouped" / "sorted" -/

theorem getD_eq {l : List (α × Nat)} {d : α × Nat} {i : Nat} (hi : i < l.length) : l.getD i d = l[i]'hi := by
  simp [List.getD, List.getElem?_eq_getElem hi]

theorem groupedCells_iff_contigF (eq : α → α → Bool) (l : List (α × Nat)) (d : α × Nat) :
    GroupedCells eq l ↔ ContigF eq (fun i => l.getD i d) l.length := by
  constructor
  · intro h i j k hij hjk hk hik
    simp only [getD_eq (show i < l.length by omega), getD_eq (show j < l.length by omega), getD_eq hk] at hik ⊢
    exact h i j k hij hjk hk hik
  · intro h i j k hij hjk hk hik
    have := h i j k hij hjk hk
    simp only [getD_eq (show i < l.length by omega), getD_eq (show j < l.length by omega), getD_eq hk] at this
    exact this hik

theorem groupedCells_iff_contigL (eq : α → α → Bool) (l : List (α × Nat)) : GroupedCells eq l ↔ ContigL eq l := by
  constructor
  · intro h a b c hab hbc hac
    have hc := hac.lt_right
    obtain ⟨x, z, hx, hz, hxz⟩ := hac
    rw [List.getElem?_eq_getElem (by omega)] at hx
    rw [List.getElem?_eq_getElem hc] at hz
    cases hx; cases hz
    exact eqAt_of_getElem (by omega) (by omega) (h a b c hab hbc hc hxz)
  · intro h i j k hij hjk hk hik
    have := h i j k hij hjk (eqAt_of_getElem (by omega) hk hik)
    obtain ⟨x, y, hx, hy, hxy⟩ := this
    rw [List.getElem?_eq_getElem (by omega)] at hx
    rw [List.getElem?_eq_getElem (by omega)] at hy
    cases hx; cases hy
    exact hxy

theorem sortedL_iff_sortedF (l : List (α × Nat)) (d : α × Nat) : SortedL l ↔ SortedF (fun i => l.getD i d) l.length := by
  rw [sortedL_iff]
  constructor
  · intro h i j hij hj
    by_cases he : i = j
    · subst he; exact Nat.le_refl _
    · have := h i j (by omega) hj
      rw [cd_eq (by omega), cd_eq hj] at this
      simpa only [getD_eq (show i < l.length by omega), getD_eq hj] using this
  · intro h a b hab hb
    have := h a b (by omega) hb
    simp only [getD_eq (show a < l.length by omega), getD_eq hb] at this
    rw [cd_eq (by omega), cd_eq hb]
    exact this

section
variable {M : Mem σ α} {abs : σ → List (α × Nat)} {ok : σ → Prop} (L : Lawful M abs ok)
include L

theorem Lawful.mrepr (s : σ) (hok : ok s) (d : α × Nat) : MRepr M s (fun i => (abs s).getD i d) (abs s).length := by
  intro i hi
  rw [L.item s hok, L.code s hok, List.getElem?_eq_getElem hi]
  simp only [getD_eq hi]
  exact ⟨rfl, rfl⟩

/-- **Find on a sorted-and-grouped sequence = linear scan.** -/
theorem find_list {eq : α → α → Bool} (he : IsEqv eq) (s : σ) (hok : ok s) (hs : SortedL (abs s))
    (hg : GroupedCells eq (abs s)) (item : α) (itemHash : Nat) (hh : itemHash < 2 ^ 64)
    (hcons : ∀ x ∈ abs s, eq x.1 item = true → x.2 = itemHash) :
    ∃ idx found, find M eq s (abs s).length item itemHash = some (idx, found) ∧ idx ≤ (abs s).length ∧
      (found = true ↔ ∃ x ∈ abs s, eq x.1 item = true) ∧
      (found = true → ∃ x, (abs s)[idx]? = some x ∧ eq x.1 item = true) := by
  cases hl : abs s with
  | nil =>
    refine ⟨0, false, ?_, by simp, by simp, by simp⟩
    simp [find, findHash]
  | cons d t =>
    rw [← hl]
    have hr := L.mrepr s hok d
    obtain ⟨res, hres, hpost⟩ := find_spec M eq s _ _ hr he ((sortedL_iff_sortedF _ d).1 hs)
      ((groupedCells_iff_contigF eq _ d).1 hg) item itemHash hh
      (fun i hi h => by simp only [getD_eq hi] at h ⊢; exact hcons _ (List.getElem_mem hi) h)
    refine ⟨res.1, res.2, hres, ?_, ?_, ?_⟩
    · cases hf : res.2 with
      | true => have := (hpost.1 hf).1; omega
      | false => exact (hpost.2 hf).1
    · constructor
      · intro hf
        obtain ⟨h1, h2⟩ := hpost.1 hf
        simp only [getD_eq h1] at h2
        exact ⟨_, List.getElem_mem h1, h2⟩
      · intro ⟨x, hx, hxe⟩
        cases hf : res.2 with
        | true => rfl
        | false =>
          obtain ⟨i, hi, rfl⟩ := List.mem_iff_getElem.1 hx
          have := (hpost.2 hf).2 i hi
          simp only [getD_eq hi, hxe] at this
          cases this
    · intro hf
      obtain ⟨h1, h2⟩ := hpost.1 hf
      simp only [getD_eq h1] at h2
      exact ⟨_, List.getElem?_eq_getElem h1, h2⟩

/-- **GetBounds on a sorted-and-grouped sequence = exactly the cells a linear scan finds equal.** -/
theorem getBounds_list {eq : α → α → Bool} (he : IsEqv eq) (s : σ) (hok : ok s) (hs : SortedL (abs s))
    (hg : GroupedCells eq (abs s)) (item : α) (itemHash : Nat) (hh : itemHash < 2 ^ 64)
    (hcons : ∀ x ∈ abs s, eq x.1 item = true → x.2 = itemHash) :
    ∃ b e, getBounds M eq s (abs s).length item itemHash = some (b, e) ∧ b ≤ e ∧ e ≤ (abs s).length ∧
      ∀ k (hk : k < (abs s).length), eq ((abs s)[k]).1 item = true ↔ b ≤ k ∧ k < e := by
  cases hl : abs s with
  | nil =>
    refine ⟨0, 0, ?_, by simp, by simp, by simp⟩
    simp [getBounds, findHash]
  | cons d t =>
    rw [← hl]
    have hr := L.mrepr s hok d
    obtain ⟨res, hres, h1, h2, h3⟩ := getBounds_spec M eq s _ _ hr he ((sortedL_iff_sortedF _ d).1 hs)
      ((groupedCells_iff_contigF eq _ d).1 hg) item itemHash hh
      (fun i hi h => by simp only [getD_eq hi] at h ⊢; exact hcons _ (List.getElem_mem hi) h)
    refine ⟨res.1, res.2, hres, h1, h2, ?_⟩
    intro k hk
    have := h3 k hk
    simpa only [getD_eq hk] using this

/-- **IsSorted = the linear-scan specification, on every sequence.** -/
theorem isSorted_list {eq : α → α → Bool} (he : IsEqv eq) (s : σ) (hok : ok s) (hcons : ConsL eq (abs s)) :
    ∃ b, isSorted M eq s (abs s).length = some b ∧ (b = true ↔ SortedL (abs s) ∧ GroupedCells eq (abs s)) := by
  cases hl : abs s with
  | nil =>
    refine ⟨true, by simp [isSorted], ?_⟩
    simp only [true_iff]
    exact ⟨List.Pairwise.nil, fun i j k _ _ hk => by simp at hk⟩
  | cons d t =>
    rw [← hl]
    have hr := L.mrepr s hok d
    obtain ⟨b, hb, hbi⟩ := isSorted_spec M eq he s _ _ hr
      (fun i j hi hj h => by
        simp only [getD_eq hi, getD_eq hj] at h ⊢
        exact hcons _ (List.getElem_mem hi) _ (List.getElem_mem hj) h)
    refine ⟨b, hb, ?_⟩
    rw [hbi, ← sortedL_iff_sortedF _ d, ← groupedCells_iff_contigF eq _ d]

end

/-! ### the group function of HashSorter -/

/-- a code function that respects `eq` and reproduces the codes of a consistent list -/
theorem exists_codeFn {eq : α → α → Bool} (he : IsEqv eq) (l : List (α × Nat)) (hc : ConsL eq l) :
    ∃ H : α → Nat, (∀ a b, eq a b = true → H a = H b) ∧ ∀ x ∈ l, x.2 = H x.1 := by
  refine ⟨fun a => match l.find? (fun x => eq x.1 a) with | some x => x.2 | none => 0, ?_, ?_⟩
  · intro a b hab
    have : (fun x : α × Nat => eq x.1 a) = (fun x : α × Nat => eq x.1 b) := by
      funext x
      cases h1 : eq x.1 a with
      | true => exact (he.trans _ _ _ h1 hab).symm
      | false =>
        cases h2 : eq x.1 b with
        | false => rfl
        | true => rw [he.trans _ _ _ h2 (he.symm _ _ hab)] at h1; cases h1
    simp only [this]
  · intro x hx
    show x.2 = match l.find? (fun y => eq y.1 x.1) with | some y => y.2 | none => 0
    cases hf : l.find? (fun y => eq y.1 x.1) with
    | none =>
      have := List.find?_eq_none.1 hf x hx
      simp [he.refl] at this
    | some y =>
      have h1 := List.find?_some hf
      have h2 := List.mem_of_find?_eq_some hf
      exact (hc y h2 x hx h1).symm

theorem contigL_goodP {eq : α → α → Bool} (H : α → Nat) (hH : ∀ a b, eq a b = true → H a = H b) :
    GoodP (fun x : α × Nat => x.2 = H x.1) (ContigL eq) where
  small := by
    intro l hl a b c hab hbc hac
    have := hac.lt_right
    omega
  append := by
    intro l1 l2 hQ1 hQ2 h1 h2 hsep a b c hab hbc hac
    obtain ⟨x, z, hx, hz, hxz⟩ := hac
    have hcl : c < (l1 ++ l2).length := (List.getElem?_eq_some_iff.1 hz).1
    rw [List.getElem?_append] at hx hz
    by_cases hc1 : c < l1.length
    · -- all three indices in the first block
      simp only [hc1, show a < l1.length by omega, if_true] at hx hz
      obtain ⟨x', y', hx', hy', hxy'⟩ := h1 a b c hab hbc ⟨x, z, hx, hz, hxz⟩
      refine ⟨x', y', ?_, ?_, hxy'⟩
      · rw [List.getElem?_append]; simp only [show a < l1.length by omega, if_true]; exact hx'
      · rw [List.getElem?_append]; simp only [show b < l1.length by omega, if_true]; exact hy'
    · simp only [hc1, if_false] at hz
      by_cases ha1 : a < l1.length
      · -- a in the first, c in the second block: their codes differ, so the items cannot be equal
        exfalso
        simp only [ha1, if_true] at hx
        have hxm : x ∈ l1 := List.mem_of_getElem? hx
        have hzm : z ∈ l2 := List.mem_of_getElem? hz
        have := hsep x hxm z hzm
        have e1 := hQ1 x hxm
        have e2 := hQ2 z hzm
        have := hH _ _ hxz
        omega
      · simp only [ha1, if_false] at hx
        obtain ⟨x', y', hx', hy', hxy'⟩ := h2 (a - l1.length) (b - l1.length) (c - l1.length) (by omega) (by omega) ⟨x, z, hx, hz, hxz⟩
        refine ⟨x', y', ?_, ?_, hxy'⟩
        · rw [List.getElem?_append]; simp only [ha1, if_false]; exact hx'
        · rw [List.getElem?_append]; simp only [show ¬ b < l1.length by omega, if_false]; exact hy'

theorem hsGroupFn_spec {M : Mem σ α} {abs : σ → List (α × Nat)} {ok : σ → Prop} (L : Lawful M abs ok)
    {eq : α → α → Bool} (he : IsEqv eq) (Q : α × Nat → Prop) :
    GroupSpec abs ok Q (ContigL eq) (hsGroupFn M eq) := by
  intro s pre seg post hh _ _
  unfold hsGroupFn
  by_cases h2 : seg.length > 2
  · simp only [h2, if_true]
    exact group_spec L he pre post s seg hh
  · simp only [h2, if_false]
    refine ⟨s, seg, rfl, hh, List.Perm.refl _, ?_⟩
    intro a b c hab hbc hac
    have := hac.lt_right
    omega

theorem noGroupFn_spec {abs : σ → List (α × Nat)} {ok : σ → Prop} :
    GroupSpec abs ok (fun _ => True) (fun _ => True) (noGroupFn (σ := σ)) := by
  intro s pre seg post hh _ _
  exact ⟨s, seg, rfl, hh, List.Perm.refl _, trivial⟩

theorem trivial_goodP : GoodP (fun _ : α × Nat => True) (fun _ => True) where
  small := fun _ _ => trivial
  append := fun _ _ _ _ _ _ _ => trivial

section
variable {M : Mem σ α} {abs : σ → List (α × Nat)} {ok : σ → Prop} (L : Lawful M abs ok)
include L

/-- **HashSorter::Sort / SortPrehashed**: the cells become a permutation of themselves with non-decreasing
codes and contiguous equal items; no access leaves the sequence. -/
theorem hashSort_list {eq : α → α → Bool} (he : IsEqv eq) (s : σ) (hok : ok s) (hcons : ConsL eq (abs s))
    (h64 : ∀ x ∈ abs s, x.2 < 2 ^ 64) :
    ∃ s', hashSort M eq s (abs s).length = some s' ∧ ok s' ∧ (abs s').Perm (abs s) ∧
      SortedL (abs s') ∧ GroupedCells eq (abs s') := by
  obtain ⟨H, hH1, hH2⟩ := exists_codeFn he (abs s) hcons
  unfold hashSort radixSorterSort
  obtain ⟨s', l', h1, h2, h3, h4, h5⟩ := radixSorterSortWith_spec L (hsGroupFn_spec L he _) (contigL_goodP H hH1)
    (partition_spec L Extracted.rsDefaultRadixSize) (by decide) 64 s (abs s) ⟨hok, rfl⟩ hH2 h64
  refine ⟨s', h1, h2.1, ?_, ?_, ?_⟩
  · rw [h2.2]; exact h3
  · rw [h2.2]; exact h4
  · rw [h2.2, groupedCells_iff_contigL]; exact h5

/-- **RadixSorter<R>::Sort(begin, count, codeGetter)** for every radix size `R ≥ 1` and every code width `W`:
a permutation with non-decreasing codes; no access leaves the sequence. -/
theorem radixSort_list (R W : Nat) (hR : 0 < R) (s : σ) (hok : ok s) (hW : ∀ x ∈ abs s, x.2 < 2 ^ W) :
    ∃ s', radixSorterSort M R W noGroupFn s (abs s).length = some s' ∧ ok s' ∧ (abs s').Perm (abs s) ∧ SortedL (abs s') := by
  unfold radixSorterSort
  obtain ⟨s', l', h1, h2, h3, h4, _⟩ := radixSorterSortWith_spec L noGroupFn_spec trivial_goodP
    (partition_spec L R) hR W s (abs s) ⟨hok, rfl⟩ (fun _ _ => trivial) hW
  refine ⟨s', h1, h2.1, ?_, ?_⟩
  · rw [h2.2]; exact h3
  · rw [h2.2]; exact h4

end

end Momo.Sort
