import Momo.Translated
import Momo.Proof.SegMachine
import Momo.Model.Arr
import Momo.Model.BTree
import Momo.Model.Sort
/-!
  C05 `ArraySettings::GrowCapacity`, C02 `TreeNode::GetSplitItemIndex`, C17 `HashSorter::pvGetStepCount` as translated
  from the headers are the model functions `Arr.growCapacity`, `BTree.splitIdx`, `Sort.stepCount`.
  The generated definitions (`Momo.Tr.*`, lean/Momo/Translated.lean) are rewritten by tools/translate.py from the current
  headers on every check; a changed function body makes the equalities below fail to elaborate.
-/
namespace Momo.TrEq
open Momo Momo.Seg

/-! ### C05 growth rule, C02 split rule, C17 step count -/

theorem tr_growCapacity (gor : Bool) (cap minNew : Nat) (reserve linear : Bool) (hc : cap < 2 ^ 62) :
    Tr.arr_GrowCapacity gor cap minNew reserve linear = Arr.growCapacity gor cap minNew reserve linear := by
  unfold Tr.arr_GrowCapacity Arr.growCapacity
  simp only [Extracted.arrGrowTinyLimit, Extracted.arrGrowTinyCap, Extracted.arrGrowDoubleLimit, Extracted.arrGrowFactor,
    Extracted.arrGrowLinLimit, Extracted.arrGrowLinStep, Extracted.arrGrowExpDiv, Extracted.arrGrowExpMul]
  have hm : mul64 cap 2 = cap * 2 := mul64_of_lt (by omega)
  have ha : add64 cap 64 = cap + 64 := add64_of_lt (by omega)
  have hm2 : mul64 (cap / 50) 23 = cap / 50 * 23 := mul64_of_lt (by omega)
  have ha2 : add64 cap (cap / 50 * 23) = cap + cap / 50 * 23 := add64_of_lt (by omega)
  rw [hm, ha, hm2, ha2]
  cases reserve <;> cases gor <;> cases linear <;> simp <;>
    (repeat' split) <;> simp_all [Nat.max_def] <;> omega

theorem tr_splitIdx (n i : Nat) : Tr.tree_GetSplitItemIndex n i = BTree.splitIdx n i := by
  unfold Tr.tree_GetSplitItemIndex BTree.splitIdx
  simp only [Extracted.treeSplitModulus, Extracted.treeSplitDivisor, Bool.and_eq_true, decide_eq_true_eq]
  split
  · rename_i h; rw [sub64_of_le (by omega)]
  · rfl

theorem tr_stepCount (count : Nat) : Tr.hs_pvGetStepCount count = Sort.stepCount count := by
  unfold Tr.hs_pvGetStepCount Sort.stepCount
  simp only [Extracted.hsStepLog1, Extracted.hsStepLog2, Extracted.hsStepLog3, decide_eq_true_eq, Nat.one_shiftLeft]
  (repeat' split) <;> first | rfl | omega | (exact w64_of_lt (by decide))


end Momo.TrEq
