import Momo.Proof.SortSel
/-!
  C17 lemmas, part 7: the counting pass of `RadixSorter::pvRadixSort` (RadixSorter.h:137-162):
  histogram of radixes, `singleCode`, `singleRadix`, prefix sums; arithmetic of `pvGetRadix`.
-/
namespace Momo.Sort
variable {σ α : Type}

/-! ### pvGetRadix -/

theorem getRadix_eq (R c shift : Nat) : getRadix R c shift = (c / 2 ^ shift) % 2 ^ R := by
  unfold getRadix
  rw [Nat.shiftRight_eq_div_pow, Nat.and_two_pow_sub_one_eq_mod]

theorem getRadix_lt (R c shift : Nat) : getRadix R c shift < 2 ^ R := by
  rw [getRadix_eq]; exact Nat.mod_lt _ (Nat.pos_of_ne_zero (by simp))

/-- `code >> shift` = (`code >> (shift + R)`) · 2^R + radix -/
theorem shift_split (R c shift : Nat) : c / 2 ^ shift = (c / 2 ^ (shift + R)) * 2 ^ R + getRadix R c shift := by
  rw [getRadix_eq, Nat.pow_add, ← Nat.div_div_eq_div_mul, Nat.mul_comm]
  exact (Nat.div_add_mod _ _).symm

/-- radix of a cell at `shift` -/
def rad (R shift : Nat) (x : α × Nat) : Nat := getRadix R x.2 shift

/-! ### arrays of counters -/

/-- counter `q` of an `endIndexes` / `beginIndexes` array (0 outside) -/
def cnt (E : Array Nat) (q : Nat) : Nat := E[q]?.getD 0

theorem cnt_set (E : Array Nat) (r v q : Nat) (h : r < E.size) : cnt (E.set r v h) q = if q = r then v else cnt E q := by
  unfold cnt
  rw [Array.getElem?_set]
  by_cases hq : q = r
  · subst hq; simp
  · simp [hq, Ne.symm hq]

theorem incr_spec (E : Array Nat) (r : Nat) (h : r < E.size) :
    ∃ E', incr E r = some E' ∧ E'.size = E.size ∧ ∀ q, cnt E' q = if q = r then cnt E r + 1 else cnt E q := by
  refine ⟨E.set r (E[r] + 1) h, by simp [incr, h], by simp, ?_⟩
  intro q
  rw [cnt_set]
  by_cases hq : q = r
  · simp [hq, cnt, Array.getElem?_eq_getElem h]
  · simp [hq]

theorem cnt_replicate (n q : Nat) : cnt (Array.replicate n 0) q = 0 := by
  unfold cnt
  by_cases h : q < n
  · simp [h]
  · simp [h]

section
variable {M : Mem σ α} {abs : σ → List (α × Nat)} {ok : σ → Prop} (L : Lawful M abs ok)
  (pre post : List (α × Nat))
include L

theorem countLoop_spec (R shift code0 radix0 : Nat) (s : σ) (seg : List (α × Nat))
    (hh : Holds abs ok s (pre ++ seg ++ post)) :
    ∀ (n i : Nat) (E : Array Nat) (sc sr : Bool), i + n = seg.length → E.size = 2 ^ R →
      (∀ q, cnt E q = (seg.take i).countP (fun x => rad R shift x == q)) →
      (sc = true ↔ ∀ x ∈ seg.take i, x.2 = code0) → (sr = true ↔ ∀ x ∈ seg.take i, rad R shift x = radix0) →
      ∃ E' sc' sr', countLoop M s R pre.length shift code0 radix0 n i E sc sr = some (E', sc', sr') ∧ E'.size = 2 ^ R ∧
        (∀ q, cnt E' q = seg.countP (fun x => rad R shift x == q)) ∧
        (sc' = true ↔ ∀ x ∈ seg, x.2 = code0) ∧ (sr' = true ↔ ∀ x ∈ seg, rad R shift x = radix0) := by
  intro n
  induction n with
  | zero =>
    intro i E sc sr hin hE hcnt hsc hsr
    have : seg.take i = seg := List.take_of_length_le (by omega)
    rw [this] at hcnt hsc hsr
    exact ⟨E, sc, sr, rfl, hE, hcnt, hsc, hsr⟩
  | succ n ih =>
    intro i E sc sr hin hE hcnt hsc hsr
    unfold countLoop
    have hi : i < seg.length := by omega
    rw [L.code_at hh i hi]
    simp only [Option.bind_some]
    obtain ⟨E', hE', hsz, hget⟩ := incr_spec E (getRadix R (seg[i]'hi).2 shift) (by rw [hE]; exact getRadix_lt _ _ _)
    rw [hE']
    simp only [Option.bind_some]
    have htake : seg.take (i + 1) = seg.take i ++ [seg[i]'hi] := by
      rw [List.take_add_one, List.getElem?_eq_getElem hi]; rfl
    apply ih (i + 1) E' _ _ (by omega) (by rw [hsz, hE])
    · intro q
      rw [hget, htake, List.countP_append, hcnt, hcnt]
      by_cases hq : q = getRadix R (seg[i]'hi).2 shift
      · subst hq; simp [rad]
      · have : ¬ (rad R shift (seg[i]'hi) == q) = true := by simp [rad]; exact fun h => hq h.symm
        simp [hq, this]
    · rw [htake]
      simp only [Bool.and_eq_true, beq_iff_eq, hsc, List.mem_append, List.mem_singleton]
      constructor
      · intro ⟨h1, h2⟩ x hx
        rcases hx with hx | hx
        · exact h1 x hx
        · rw [hx]; exact h2
      · intro h
        exact ⟨fun x hx => h x (Or.inl hx), h _ (Or.inr rfl)⟩
    · rw [htake]
      simp only [Bool.and_eq_true, beq_iff_eq, hsr, List.mem_append, List.mem_singleton]
      constructor
      · intro ⟨h1, h2⟩ x hx
        rcases hx with hx | hx
        · exact h1 x hx
        · rw [hx]; exact h2
      · intro h
        exact ⟨fun x hx => h x (Or.inl hx), h _ (Or.inr rfl)⟩

end

/-! ### prefix sums -/

theorem countP_le_succ (l : List (α × Nat)) (f : α × Nat → Nat) (q : Nat) :
    l.countP (fun x => decide (f x ≤ q + 1)) = l.countP (fun x => decide (f x ≤ q)) + l.countP (fun x => f x == q + 1) := by
  induction l with
  | nil => simp
  | cons a t ih =>
    simp only [List.countP_cons, ih]
    by_cases h1 : f a ≤ q
    · have h2 : f a ≤ q + 1 := by omega
      have h3 : ¬ f a = q + 1 := by omega
      simp [h1, h2, h3]; omega
    · by_cases h3 : f a = q + 1
      · have h1' : ¬ q + 1 ≤ q := by omega
        simp [h3, h1']; omega
      · have h2 : ¬ f a ≤ q + 1 := by omega
        simp [h1, h2, h3]

theorem countP_le_zero (l : List (α × Nat)) (f : α × Nat → Nat) :
    l.countP (fun x => decide (f x ≤ 0)) = l.countP (fun x => f x == 0) := by
  congr 1
  funext x
  by_cases h : f x = 0 <;> simp [h]

/-- after the loop `endIndexes[r] += endIndexes[r-1]` every counter holds the number of cells whose
radix is at most its index -/
theorem prefixSums_spec (seg : List (α × Nat)) (f : α × Nat → Nat) (size : Nat) :
    ∀ (n r : Nat) (E : Array Nat), 1 ≤ r → r + n = size → E.size = size →
      (∀ q, q < r → cnt E q = seg.countP (fun x => decide (f x ≤ q))) →
      (∀ q, r ≤ q → cnt E q = seg.countP (fun x => f x == q)) →
      ∃ E', prefixSums n r E = some E' ∧ E'.size = size ∧
        ∀ q, q < size → cnt E' q = seg.countP (fun x => decide (f x ≤ q)) := by
  intro n
  induction n with
  | zero =>
    intro r E _ hrn hE h1 _
    exact ⟨E, rfl, hE, fun q hq => h1 q (by omega)⟩
  | succ n ih =>
    intro r E hr hrn hE h1 h2
    unfold prefixSums
    have hrs : r < E.size := by omega
    have hrs' : r - 1 < E.size := by omega
    simp only [Array.getElem?_eq_getElem hrs, Array.getElem?_eq_getElem hrs', Option.bind_some, hrs, dite_true]
    apply ih (r + 1) _ (by omega) (by omega) (by simp [hE])
    · intro q hq
      rw [cnt_set]
      by_cases hqr : q = r
      · subst hqr
        simp only [if_true]
        have e1 : E[q] = cnt E q := by simp [cnt, Array.getElem?_eq_getElem hrs]
        have e2 : E[q - 1] = cnt E (q - 1) := by simp [cnt, Array.getElem?_eq_getElem hrs']
        rw [e1, e2, h2 q (Nat.le_refl _), h1 (q - 1) (by omega)]
        have := countP_le_succ seg f (q - 1)
        rw [show q - 1 + 1 = q by omega] at this
        omega
      · simp only [hqr, if_false]
        exact h1 q (by omega)
    · intro q hq
      rw [cnt_set]
      have : ¬ q = r := by omega
      simp only [this, if_false]
      exact h2 q (by omega)

end Momo.Sort
