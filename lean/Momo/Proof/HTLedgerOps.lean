import Momo.Proof.HTLedgerReloc
/-!
  C03 / C04 for the hash family, part 3: the single-element operations and `Reserve` on the ledger.

  For every configuration, hash function, table, item, creator, fault record: the monitor follows the books through
  `pvAdd` (growth, its fallback, its roll-back, the migration), `pvRemove`, `pvExtract`, `Reserve`; an operation that
  fails returns the very same container (table and books) and a ledger that holds exactly what it held.
-/
namespace Momo.HTL
open Momo Momo.HT Momo.Ledger

/-- well-formedness of the books alone: one bucket-array block per generation; without a bucket array there is nothing but the
    crew -/
structure BooksOK (st : St) : Prop where
  len : st.arrs.length = st.t.gens.length
  nil : st.arrs = [] → st.params = none ∧ st.bufs = [] ∧ st.els = []

theorem BooksOK.init : BooksOK ({} : St) := ⟨rfl, fun _ => ⟨rfl, rfl, rfl⟩⟩

theorem BooksOK.arrs_nil {st : St} (h : BooksOK st) (hg : st.t.gens.isEmpty = true) : st.arrs = [] := by
  have := h.len
  rw [List.isEmpty_iff.mp hg] at this
  exact List.eq_nil_of_length_eq_zero this

theorem BooksOK.arrs_ne {st : St} (h : BooksOK st) {g : Gen} {rest : List Gen} (hg : st.t.gens = g :: rest) : st.arrs ≠ [] := by
  intro hc
  have := h.len
  rw [hc, hg] at this
  simp at this

/-! ### `pvAdd` -/

theorem blocks_consArr (cfg : Cfg) (st : St) (t : Table) (a n : Nat) :
    (({ st with t := t, arrs := (a, n) :: st.arrs } : St).blocks cfg).Perm ((a, cfg.mgr, n) :: st.blocks cfg) := by
  simp only [St.blocks_eq, List.map_cons, blkOf]
  perm_count

theorem blocks_consArrParams (cfg : Cfg) (st : St) (t : Table) (a n p : Nat) (hp : st.params = none) :
    (({ st with t := t, arrs := (a, n) :: st.arrs, params := some p } : St).blocks cfg).Perm
      ((p, cfg.mgr, cfg.psz) :: (a, cfg.mgr, n) :: st.blocks cfg) := by
  simp only [St.blocks_eq, List.map_cons, blkOf, hp, optL, List.map_nil]
  perm_count

/-- what `addPrepL` does to the ledger: a failure returns the container unchanged and the ledger with what it held; otherwise
    the new bucket array (and `BucketParams` block) are on the books -/
def PrepPost (cfg : Cfg) (st : St) (crT : Bool) (FB : List Blk) (E : List Nat) : (St × W × Outcome) ⊕ (St × W) → Prop
  | .inl r => r.1 = st ∧ Led r.2.1 (st.blocks cfg ++ FB) E ∧ r.2.2 ≠ .ok
  | .inr r => Led r.2 (r.1.blocks cfg ++ FB) E ∧ r.1.els = st.els ∧ r.1.crew = st.crew ∧ r.1.bufs = st.bufs ∧
      r.1.arrs ≠ [] ∧ r.1.arrs.length = r.1.t.gens.length ∧ crT = false

theorem addPrepL_led (cfg : Cfg) (hf : Nat → Nat) (st : St) (it : Item) (crT : Bool) (f : Flt) (w : W) (FB : List Blk)
    (E : List Nat) (hb : BooksOK st) (h : Led w (st.blocks cfg ++ FB) E) :
    PrepPost cfg st crT FB E (addPrepL cfg hf st it crT f w) := by
  unfold addPrepL
  split
  · -- the check of the sizing loop fails: nothing has happened
    exact ⟨rfl, h, by simp⟩
  split
  · -- pvAddNogrow on the existing head
    cases hg : st.t.gens with
    | nil => exact ⟨rfl, h, by simp⟩
    | cons g rest =>
      simp only
      cases crT with
      | true => exact ⟨rfl, h, by simp⟩
      | false =>
        simp only [Bool.false_eq_true, if_false]
        cases hadd : addNogrowGen cfg.sp g (hf it.key) it with
        | none => exact ⟨rfl, h, by simp⟩
        | some r =>
          obtain ⟨g', idx⟩ := r
          exact ⟨h, rfl, rfl, rfl, hb.arrs_ne hg, by simpa [hg] using hb.len, rfl⟩
  · split
    · exact ⟨rfl, h, by simp⟩
    · split
      · -- the params block is refused: the array goes back
        obtain ⟨h1, h2⟩ := h.alloc cfg.mgr (cfg.arrSize (growLogD cfg.sp st.t))
        refine ⟨rfl, ?_, by simp⟩
        rw [h2]
        exact h1.free
      · rename_i hpar
        simp only
        obtain ⟨h1, h2⟩ := h.alloc cfg.mgr (cfg.arrSize (growLogD cfg.sp st.t))
        cases hfirst : st.t.gens.isEmpty with
        | false =>
          simp only [Bool.false_eq_true, if_false]
          split
          · rename_i hnone
            refine ⟨rfl, ?_, ?_⟩
            · rw [h2]; exact h1.free
            · split <;> simp
          · rename_i g' idx hsome
            have hcr : crT = false := by
              cases crT with
              | false => rfl
              | true => simp at hsome
            refine ⟨?_, rfl, rfl, rfl, by simp, by simpa using hb.len, hcr⟩
            rw [h2]
            exact h1.perm ((blocks_consArr cfg st _ _ _).append_right FB).symm (List.Perm.refl _)
        | true =>
          simp only [if_true]
          obtain ⟨g1, g2⟩ := h1.alloc cfg.mgr cfg.psz
          split
          · rename_i hnone
            refine ⟨rfl, ?_, ?_⟩
            · rw [h2, g2]; exact g1.free.free
            · split <;> simp
          · rename_i g' idx hsome
            have hcr : crT = false := by
              cases crT with
              | false => rfl
              | true => simp at hsome
            have hpn := (hb.nil (hb.arrs_nil hfirst)).1
            refine ⟨?_, rfl, rfl, rfl, by simp, by simpa using hb.len, hcr⟩
            rw [h2, g2]
            exact g1.perm ((blocks_consArrParams cfg st _ _ _ _ hpn).append_right FB).symm (List.Perm.refl _)

/-- what a creator does to the ledger: a new element object appears, the frame changes from `FE` to `FE'` -/
def CrSpec (crRun : W → Nat × W) (FE FE' : List Nat) : Prop :=
  ∀ (w : W) (B : List Blk) (E0 : List Nat), Led w B (E0 ++ FE) → Led (crRun w).2 B ((crRun w).1 :: (E0 ++ FE'))

theorem crSpec_fresh (cfg : Cfg) (FE : List Nat) : CrSpec (Creator.fresh.run cfg) FE FE := by
  intro w B E0 h
  obtain ⟨h1, h2⟩ := h.ctor
  simp only [Creator.run]
  rw [h2]; exact h1

theorem crSpec_handle (cfg : Cfg) (e : Nat) (FE FE' : List Nat) (hp : FE.Perm (e :: FE')) :
    CrSpec ((Creator.handle e).run cfg) FE FE' := by
  intro w B E0 h
  have h0 : Led w B (e :: (E0 ++ FE')) :=
    h.perm (List.Perm.refl _) ((hp.append_left E0).trans (by perm_count))
  obtain ⟨h1, h2⟩ := h0.reloc cfg.cat
  simp only [Creator.run]
  rw [h2]; exact h1

theorem relocGens_length (sp : Spec) (hf : Nat → Nat) (head : Gen) (stop : Option Nat) :
    ∀ (olds : List Gen) (moved : Nat), (relocGens sp hf head olds moved stop).2.1.length ≤ olds.length := by
  intro olds
  induction olds with
  | nil => intro moved; simp [relocGens]
  | cons g rest ih =>
    intro moved
    simp only [relocGens]
    have := ih moved
    generalize relocGens sp hf head rest moved stop = r1 at this ⊢
    obtain ⟨head1, rest1, moved1, stopped1⟩ := r1
    simp only at this ⊢
    split
    · simp; omega
    · generalize drainGen sp hf (genCount g + 1) head1 g moved1 stop = r2
      obtain ⟨head2, g2, moved2, stopped2⟩ := r2
      simp only
      split <;> simp

theorem relocate_length (sp : Spec) (hf : Nat → Nat) (t : Table) (stop : Option Nat) :
    (relocate sp hf t stop).gens.length ≤ t.gens.length ∧ (t.gens ≠ [] → 1 ≤ (relocate sp hf t stop).gens.length) := by
  unfold relocate
  cases hg : t.gens with
  | nil => simp [hg]
  | cons head olds =>
    simp only
    have := relocGens_length sp hf head stop olds 0
    generalize relocGens sp hf head olds 0 stop = r at this ⊢
    obtain ⟨head', olds', moved', stopped'⟩ := r
    simp only at this ⊢
    simp; omega

theorem relocL_books (cfg : Cfg) (hf : Nat → Nat) (st : St) (stop : Option Nat) (w : W) (hb : BooksOK st)
    (hne : st.t.gens ≠ []) : BooksOK (relocL cfg hf st stop w).1 ∧ (relocL cfg hf st stop w).1.t.gens ≠ [] ∧
      (relocL cfg hf st stop w).1.crew = st.crew ∧ (relocL cfg hf st stop w).1.params = st.params ∧
      (relocL cfg hf st stop w).1.bufs = st.bufs ∧
      (relocL cfg hf st stop w).1.t = relocate cfg.sp hf st.t (if cfg.sp.nothrowReloc then none else stop) := by
  unfold relocL
  simp only
  obtain ⟨l1, l2⟩ := relocate_length cfg.sp hf st.t (if cfg.sp.nothrowReloc = true then none else stop)
  have l3 := l2 hne
  refine ⟨⟨?_, ?_⟩, ?_, trivial, trivial, trivial, trivial⟩
  · simp only [List.length_take]; rw [hb.len]; omega
  · intro hc
    exfalso
    have h0 := congrArg List.length hc
    simp only [List.length_take, List.length_nil] at h0
    rw [hb.len] at h0
    have : 0 < st.t.gens.length := List.length_pos_iff.mpr hne
    omega
  · intro hc
    rw [hc] at l3; simp at l3

theorem finishL_led (cfg : Cfg) (hf : Nat → Nat) (st : St) (f : Flt) (w : W) (FB : List Blk) (FE : List Nat)
    (hb : BooksOK st) (hne : st.t.gens ≠ []) (h : Led w (st.blocks cfg ++ FB) (st.elems ++ FE)) :
    Led (finishL cfg hf st f w).2 ((finishL cfg hf st f w).1.blocks cfg ++ FB) ((finishL cfg hf st f w).1.elems ++ FE) ∧
    BooksOK (finishL cfg hf st f w).1 ∧ (finishL cfg hf st f w).1.t.gens ≠ [] ∧
    (finishL cfg hf st f w).1.els.map Prod.fst = st.els.map Prod.fst := by
  unfold finishL
  split
  · obtain ⟨h1, h2⟩ := relocL_led cfg hf st f.mig w FB FE hne h
    obtain ⟨b1, b2, _⟩ := relocL_books cfg hf st f.mig w hb hne
    exact ⟨h1, b1, b2, h2⟩
  · exact ⟨h, hb, hne, rfl⟩

/-- `pvAdd` before the migration, any creator -/
theorem addCoreG_led (cfg : Cfg) (hf : Nat → Nat) (st : St) (it : Item) (crT : Bool) (crRun : W → Nat × W) (f : Flt) (w : W)
    (FB : List Blk) (FE FE' : List Nat) (hb : BooksOK st) (hcr : CrSpec crRun FE FE')
    (h : Led w (st.blocks cfg ++ FB) (st.elems ++ FE)) :
    ((addCoreG cfg hf st it crT crRun f w).2.2 ≠ .ok →
      (addCoreG cfg hf st it crT crRun f w).1 = st ∧
      Led (addCoreG cfg hf st it crT crRun f w).2.1 (st.blocks cfg ++ FB) (st.elems ++ FE)) ∧
    ((addCoreG cfg hf st it crT crRun f w).2.2 = .ok →
      Led (addCoreG cfg hf st it crT crRun f w).2.1 ((addCoreG cfg hf st it crT crRun f w).1.blocks cfg ++ FB)
        ((addCoreG cfg hf st it crT crRun f w).1.elems ++ FE') ∧
      BooksOK (addCoreG cfg hf st it crT crRun f w).1 ∧ (addCoreG cfg hf st it crT crRun f w).1.t.gens ≠ [] ∧
      crT = false) := by
  have hp := addPrepL_led cfg hf st it crT f w FB (st.elems ++ FE) hb h
  unfold addCoreG
  cases hprep : addPrepL cfg hf st it crT f w with
  | inl r =>
    rw [hprep] at hp
    obtain ⟨p1, p2, p3⟩ := hp
    simp only
    exact ⟨fun _ => ⟨p1, p2⟩, fun hc => absurd hc p3⟩
  | inr r =>
    rw [hprep] at hp
    obtain ⟨st1, w1⟩ := r
    obtain ⟨p1, p2, p3, p4, p5, p6, p7⟩ := hp
    simp only at p1 p2 p3 p4 p5 p6 ⊢
    refine ⟨fun hc => absurd rfl hc, fun _ => ⟨?_, ⟨p6, fun hc => absurd hc p5⟩, ?_, p7⟩⟩
    · have h1 : Led w1 (st1.blocks cfg ++ FB) (st1.elems ++ FE) := by
        simp only [St.elems, p2]; exact p1
      have h2 := hcr w1 _ _ h1
      simpa [St.elems, St.blocks_eq] using h2
    · intro hc
      rw [hc] at p6
      exact p5 (List.eq_nil_of_length_eq_zero p6)

/-- **`pvAdd` on the ledger.** A failure (refused bucket array without fallback, refused `BucketParams`, throwing creator, full
    table) returns the same container and a ledger holding exactly what it held; a success - whatever happens to the migration -
    leaves the ledger holding exactly the new books. -/
theorem addL_led (cfg : Cfg) (hf : Nat → Nat) (st : St) (it : Item) (cr : Creator) (f : Flt) (w : W)
    (FB : List Blk) (FE FE' : List Nat) (hb : BooksOK st) (hcr : CrSpec (cr.run cfg) FE FE')
    (h : Led w (st.blocks cfg ++ FB) (st.elems ++ FE)) :
    ((addL cfg hf st it cr f w).2.2 ≠ .ok →
      (addL cfg hf st it cr f w).1 = st ∧ Led (addL cfg hf st it cr f w).2.1 (st.blocks cfg ++ FB) (st.elems ++ FE)) ∧
    ((addL cfg hf st it cr f w).2.2 = .ok →
      Led (addL cfg hf st it cr f w).2.1 ((addL cfg hf st it cr f w).1.blocks cfg ++ FB)
        ((addL cfg hf st it cr f w).1.elems ++ FE') ∧ BooksOK (addL cfg hf st it cr f w).1) := by
  obtain ⟨c1, c2⟩ := addCoreG_led cfg hf st it (cr.throws cfg f) (cr.run cfg) f w FB FE FE' hb hcr h
  unfold addL addCoreL
  generalize addCoreG cfg hf st it (cr.throws cfg f) (cr.run cfg) f w = r at c1 c2 ⊢
  obtain ⟨st1, w1, out⟩ := r
  cases out with
  | ok =>
    simp only at c1 c2 ⊢
    obtain ⟨d1, d2, d3, _⟩ := c2 trivial
    obtain ⟨e1, e2, _, _⟩ := finishL_led cfg hf st1 f w1 FB FE' d2 d3 d1
    exact ⟨fun hc => absurd rfl hc, fun _ => ⟨e1, e2⟩⟩
  | full =>
    simp only at c1 c2 ⊢
    exact ⟨fun _ => c1 (by simp), fun hc => by cases hc⟩
  | badAlloc =>
    simp only at c1 c2 ⊢
    exact ⟨fun _ => c1 (by simp), fun hc => by cases hc⟩
  | invalid =>
    simp only at c1 c2 ⊢
    exact ⟨fun _ => c1 (by simp), fun hc => by cases hc⟩

/-- **`pvInsert` on the ledger** (Insert / InsertVar / emplace / map insertion / subscript insertion, `Insert(ExtractedItem&&)`) -/
theorem insertL_led (cfg : Cfg) (hf : Nat → Nat) (st : St) (it : Item) (cr : Creator) (f : Flt) (w : W)
    (FB : List Blk) (FE FE' : List Nat) (hb : BooksOK st) (hcr : CrSpec (cr.run cfg) FE FE')
    (h : Led w (st.blocks cfg ++ FB) (st.elems ++ FE)) :
    ((insertL cfg hf st it cr f w).2.2 ≠ .done .ok →
      (insertL cfg hf st it cr f w).1 = st ∧ Led (insertL cfg hf st it cr f w).2.1 (st.blocks cfg ++ FB) (st.elems ++ FE)) ∧
    ((insertL cfg hf st it cr f w).2.2 = .done .ok →
      Led (insertL cfg hf st it cr f w).2.1 ((insertL cfg hf st it cr f w).1.blocks cfg ++ FB)
        ((insertL cfg hf st it cr f w).1.elems ++ FE') ∧ BooksOK (insertL cfg hf st it cr f w).1) := by
  unfold insertL
  split
  · exact ⟨fun _ => ⟨rfl, h⟩, fun hc => by cases hc⟩
  · split
    · exact ⟨fun _ => ⟨rfl, h⟩, fun hc => by cases hc⟩
    · obtain ⟨a1, a2⟩ := addL_led cfg hf st it cr f w FB FE FE' hb hcr h
      simp only
      refine ⟨fun hc => a1 (fun hk => hc (by rw [hk])), fun hc => a2 ?_⟩
      injection hc

/-! ### `pvRemove`, `pvExtract` -/

theorem lookE_dropE_ne {els : Els} {k k' : Nat} (hne : k ≠ k') : lookE (dropE els k) k' = lookE els k' := by
  induction els with
  | nil => rfl
  | cons p r ih =>
    obtain ⟨k0, e0⟩ := p
    by_cases h1 : k0 = k
    · subst h1
      simp only [dropE, if_true, lookE, hne, if_false]
    · simp only [dropE, h1, if_false, lookE]
      by_cases h2 : k0 = k'
      · simp [h2]
      · simp only [h2, if_false]; exact ih

theorem removePos_gens_length (sp : Spec) (t : Table) (gi b j : Nat) :
    (removePos sp t gi b j).gens.length = t.gens.length := by
  simp [removePos]

theorem dropE_nil (k : Nat) : dropE [] k = [] := rfl
theorem setE_nil (k e : Nat) : setE [] k e = [] := rfl

/-- `Replace(last, removed)` on the books: the removed key goes; when another item was the bucket's last one, its key now
    belongs to the surviving object -/
theorem replace_led {w : W} {B : List Blk} {FE : List Nat} {els : Els} {xk lk d s : Nat} (isLast : Bool)
    (h : Led w B (els.map Prod.snd ++ FE)) (hd : lookE els xk = some d) (hs : lookE els lk = some s)
    (hl : isLast = false → xk ≠ lk) :
    Led (w.replaceE (if isLast then d else s) d) B
      ((if isLast then dropE els xk else setE (dropE els xk) lk d).map Prod.snd ++ FE) := by
  obtain ⟨l1, l2, h1, _, h3, _⟩ := lookE_split hd
  have hE : (els.map Prod.snd ++ FE).Perm (d :: ((l1 ++ l2).map Prod.snd ++ FE)) := by
    rw [h1]; simp only [List.map_append, List.map_cons]; perm_count
  cases isLast with
  | true =>
    simp only [if_true]
    rw [h3]
    exact (h.perm (List.Perm.refl _) hE).replace (by simp)
  | false =>
    simp only [Bool.false_eq_true, if_false]
    have hne := hl rfl
    have hs' : lookE (dropE els xk) lk = some s := by rw [lookE_dropE_ne hne]; exact hs
    obtain ⟨m1, m2, g1, g2, _, _⟩ := lookE_split hs'
    rw [g2 d]
    rw [h3] at g1
    have hE2 : (els.map Prod.snd ++ FE).Perm (s :: (d :: ((m1 ++ m2).map Prod.snd ++ FE))) := by
      refine hE.trans ?_
      rw [g1]; simp only [List.map_append, List.map_cons]; perm_count
    have := (h.perm (List.Perm.refl _) hE2).replace (d := d) (by simp)
    exact this.perm (List.Perm.refl _) (by simp only [List.map_append, List.map_cons]; perm_count)

theorem removeAtL_led (cfg : Cfg) (st : St) (gi b j : Nat) (f : Flt) (w : W) (FB : List Blk) (FE : List Nat)
    (hb : BooksOK st) (h : Led w (st.blocks cfg ++ FB) (st.elems ++ FE)) :
    ((removeAtL cfg st gi b j f w).2.2 = true → (removeAtL cfg st gi b j f w).1 = st ∧ (removeAtL cfg st gi b j f w).2.1 = w) ∧
    Led (removeAtL cfg st gi b j f w).2.1 ((removeAtL cfg st gi b j f w).1.blocks cfg ++ FB)
      ((removeAtL cfg st gi b j f w).1.elems ++ FE) ∧ BooksOK (removeAtL cfg st gi b j f w).1 := by
  unfold removeAtL
  split
  · rename_i x l hx hl
    split
    · rename_i d s hd hs
      split
      · exact ⟨fun _ => ⟨rfl, rfl⟩, h, hb⟩
      · refine ⟨fun hc => by simp at hc, ?_, ⟨by simpa [removePos_gens_length] using hb.len, fun ha => ?_⟩⟩
        · have := replace_led (decide (j + 1 = lenAt cfg st.t gi b) || x.key == l.key) h hd hs (by
            intro hc; simp only [Bool.or_eq_false_iff] at hc; intro he; rw [he] at hc; simp at hc)
          simpa [St.blocks_eq, St.elems] using this
        · obtain ⟨p1, p2, p3⟩ := hb.nil ha
          refine ⟨p1, p2, ?_⟩
          simp only [p3]
          split <;> rfl
    · exact ⟨fun hc => by simp at hc, by simpa [St.blocks_eq, St.elems] using h,
        ⟨by simpa [removePos_gens_length] using hb.len, hb.nil⟩⟩
  · exact ⟨fun _ => ⟨rfl, rfl⟩, h, hb⟩

/-- what `pvExtract` does to the ledger -/
def ExtPost (cfg : Cfg) (st : St) (_w : W) (FB : List Blk) (FE : List Nat) : St × W × Option Nat → Prop
  | (st', w', some h) => Led w' (st'.blocks cfg ++ FB) (st'.elems ++ h :: FE) ∧ BooksOK st' ∧
      st'.t.gens.length = st.t.gens.length ∧ st'.arrs = st.arrs ∧ st'.params = st.params ∧ st'.crew = st.crew ∧ st'.bufs = st.bufs
  | (st', w', none) => st' = st ∧ Led w' (st.blocks cfg ++ FB) (st.elems ++ FE)

theorem extractAtL_led (cfg : Cfg) (st : St) (gi b j : Nat) (f : Flt) (w : W) (FB : List Blk) (FE : List Nat)
    (hb : BooksOK st) (h : Led w (st.blocks cfg ++ FB) (st.elems ++ FE)) :
    ExtPost cfg st w FB FE (extractAtL cfg st gi b j f w) := by
  have hbooks : ∀ els', (st.els = [] → els' = []) →
      BooksOK ({ st with t := removePos cfg.sp st.t gi b j, els := els' } : St) := by
    intro els' he
    refine ⟨by simpa [removePos_gens_length] using hb.len, fun ha => ?_⟩
    obtain ⟨p1, p2, p3⟩ := hb.nil ha
    exact ⟨p1, p2, he p3⟩
  unfold extractAtL
  split
  · rename_i x l hx hl
    split
    · rename_i d s hd hs
      obtain ⟨l1, l2, h1, _, h3, _⟩ := lookE_split hd
      have hE : (st.els.map Prod.snd ++ FE).Perm (d :: ((l1 ++ l2).map Prod.snd ++ FE)) := by
        rw [h1]; simp only [List.map_append, List.map_cons]; perm_count
      split
      · -- the removed item is the bucket's last one
        split
        · exact ⟨rfl, h⟩
        · obtain ⟨g1, g2⟩ := (h.perm (List.Perm.refl _) hE).reloc cfg.cat
          refine ⟨?_, hbooks _ (fun he => by rw [he]; rfl), by simp [removePos_gens_length], rfl, rfl, rfl, rfl⟩
          rw [g2]
          simp only [St.elems, h3]
          exact g1.perm (by simp [St.blocks_eq]) (by simp only [List.map_append]; perm_count)
      · rename_i hsame
        have hne : x.key ≠ l.key := by
          intro he; apply hsame; simp [he]
        have hs' : lookE (dropE st.els x.key) l.key = some s := by rw [lookE_dropE_ne hne]; exact hs
        obtain ⟨m1, m2, g1, g2, _, _⟩ := lookE_split hs'
        rw [h3] at g1
        have hE2 : (st.els.map Prod.snd ++ FE).Perm (d :: (s :: ((m1 ++ m2).map Prod.snd ++ FE))) := by
          refine hE.trans ?_
          rw [g1]; simp only [List.map_append, List.map_cons]; perm_count
        split
        · -- nothrow relocatable: Relocate(mid, dst); Relocate(src, &mid)
          obtain ⟨r1, r2⟩ := (h.perm (List.Perm.refl _) hE2).reloc cfg.cat
          have r3 : Led (w.relocE cfg.cat d).2 (st.blocks cfg ++ FB) (s :: (w.nextE :: ((m1 ++ m2).map Prod.snd ++ FE))) :=
            r1.perm (List.Perm.refl _) (List.Perm.swap _ _ _)
          obtain ⟨q1, q2⟩ := r3.reloc cfg.cat
          refine ⟨?_, hbooks _ (fun he => by rw [he]; rfl), by simp [removePos_gens_length], rfl, rfl, rfl, rfl⟩
          rw [r2]
          simp only [St.elems]
          rw [g2, q2]
          refine q1.perm (by simp [St.blocks_eq]) ?_
          simp only [List.map_append, List.map_cons]
          have : (w.relocE cfg.cat d).2.nextE = w.nextE + 1 := by cases cfg.cat <;> rfl
          rw [this]
          perm_count
        · -- copy-only: Copy(mid, dst), then Replace(src, mid)
          split
          · exact ⟨rfl, h⟩
          · have hdm : d ∈ st.els.map Prod.snd ++ FE := hE.mem_iff.mpr (by simp)
            have hsm : s ∈ st.els.map Prod.snd ++ FE := hE2.mem_iff.mpr (by simp)
            obtain ⟨c1, c2⟩ := h.copy hdm
            split
            · -- the assignment throws: the copy in the handle is destroyed
              refine ⟨rfl, ?_⟩
              rw [c2]
              exact (c1.use (List.mem_cons_of_mem _ hsm)).dtor
            · refine ⟨?_, hbooks _ (fun he => by rw [he]; rfl), by simp [removePos_gens_length], rfl, rfl, rfl, rfl⟩
              rw [c2]
              simp only [St.elems]
              rw [g2 d]
              have c3 : Led (w.copyE d).2 (st.blocks cfg ++ FB) (s :: (w.nextE :: d :: ((m1 ++ m2).map Prod.snd ++ FE))) :=
                c1.perm (List.Perm.refl _) ((hE2.cons _).trans (by perm_count))
              have c4 := c3.replace (d := d) (by simp)
              refine c4.perm (by simp [St.blocks_eq]) ?_
              simp only [List.map_append, List.map_cons]
              perm_count
    · exact ⟨rfl, h⟩
  · exact ⟨rfl, h⟩

theorem removeKeyL_led (cfg : Cfg) (hf : Nat → Nat) (st : St) (k : Nat) (f : Flt) (w : W) (FB : List Blk) (FE : List Nat)
    (hb : BooksOK st) (h : Led w (st.blocks cfg ++ FB) (st.elems ++ FE)) :
    ((removeKeyL cfg hf st k f w).2.2 ≠ .done .ok → (removeKeyL cfg hf st k f w).1 = st ∧ (removeKeyL cfg hf st k f w).2.1 = w) ∧
    Led (removeKeyL cfg hf st k f w).2.1 ((removeKeyL cfg hf st k f w).1.blocks cfg ++ FB)
      ((removeKeyL cfg hf st k f w).1.elems ++ FE) ∧ BooksOK (removeKeyL cfg hf st k f w).1 := by
  unfold removeKeyL
  split
  · exact ⟨fun _ => ⟨rfl, rfl⟩, h, hb⟩
  · split
    · exact ⟨fun _ => ⟨rfl, rfl⟩, h, hb⟩
    · rename_i gi b j _
      obtain ⟨a1, a2, a3⟩ := removeAtL_led cfg st gi b j f w FB FE hb h
      simp only
      refine ⟨fun hc => a1 ?_, a2, a3⟩
      cases hr : (removeAtL cfg st gi b j f w).2.2 with
      | true => rfl
      | false => rw [hr] at hc; simp at hc

/-- `Remove(filter)`: every removal keeps the ledger on the books; a throwing assignment stops the loop -/
theorem removeIfGo_led (cfg : Cfg) (pred : Item → Bool) (f : Nat → Flt) (FB : List Blk) (FE : List Nat) :
    ∀ (ps : List (Nat × Nat × Nat)) (st : St) (w : W) (n : Nat), BooksOK st → Led w (st.blocks cfg ++ FB) (st.elems ++ FE) →
      Led (removeIfGo cfg pred f ps st w n).2.1 ((removeIfGo cfg pred f ps st w n).1.blocks cfg ++ FB)
        ((removeIfGo cfg pred f ps st w n).1.elems ++ FE) ∧ BooksOK (removeIfGo cfg pred f ps st w n).1 := by
  intro ps
  induction ps with
  | nil => intro st w n hb h; exact ⟨h, hb⟩
  | cons p r ih =>
    intro st w n hb h
    obtain ⟨gi, b, j⟩ := p
    simp only [removeIfGo]
    split
    · exact ih st w n hb h
    · split
      · obtain ⟨a1, a2, a3⟩ := removeAtL_led cfg st gi b j (f n) w FB FE hb h
        split
        · exact ⟨a2, a3⟩
        · exact ih _ _ _ a3 a2
      · exact ih st w n hb h

/-! ### `Reserve` -/

/-- a new generation has been put in front (its array, and for the first table the `BucketParams` block, are on the ledger):
    the migration keeps the ledger on the books -/
theorem growFinish_led (cfg : Cfg) (hf : Nat → Nat) (st : St) (f : Flt) (w : W) (FB : List Blk) (FE : List Nat)
    (t1 : Table) (a n : Nat) (po : Option Nat) (hb : BooksOK st) (ht : t1.gens.length = st.t.gens.length + 1)
    (h : Led w (({ st with t := t1, arrs := (a, n) :: st.arrs, params := po } : St).blocks cfg ++ FB) (st.elems ++ FE)) :
    Led (finishL cfg hf { st with t := t1, arrs := (a, n) :: st.arrs, params := po } f w).2
      ((finishL cfg hf { st with t := t1, arrs := (a, n) :: st.arrs, params := po } f w).1.blocks cfg ++ FB)
      ((finishL cfg hf { st with t := t1, arrs := (a, n) :: st.arrs, params := po } f w).1.elems ++ FE) ∧
    BooksOK (finishL cfg hf { st with t := t1, arrs := (a, n) :: st.arrs, params := po } f w).1 := by
  have hb1 : BooksOK ({ st with t := t1, arrs := (a, n) :: st.arrs, params := po } : St) :=
    ⟨by simp [ht, hb.len], fun hc => by simp at hc⟩
  have hne : ({ st with t := t1, arrs := (a, n) :: st.arrs, params := po } : St).t.gens ≠ [] := by
    intro hc; simp only at hc; rw [hc] at ht; simp at ht
  obtain ⟨e1, e2, _, _⟩ := finishL_led cfg hf _ f w FB FE hb1 hne h
  exact ⟨e1, e2⟩

theorem reserveL_led (cfg : Cfg) (hf : Nat → Nat) (st : St) (c : Nat) (f : Flt) (w : W) (FB : List Blk) (FE : List Nat)
    (hb : BooksOK st) (h : Led w (st.blocks cfg ++ FB) (st.elems ++ FE)) :
    ((reserveL cfg hf st c f w).2.2 ≠ .ok →
      (reserveL cfg hf st c f w).1 = st ∧ Led (reserveL cfg hf st c f w).2.1 (st.blocks cfg ++ FB) (st.elems ++ FE)) ∧
    Led (reserveL cfg hf st c f w).2.1 ((reserveL cfg hf st c f w).1.blocks cfg ++ FB)
      ((reserveL cfg hf st c f w).1.elems ++ FE) ∧ BooksOK (reserveL cfg hf st c f w).1 := by
  unfold reserveL
  split
  · exact ⟨fun _ => ⟨rfl, h⟩, h, hb⟩
  · split
    · exact ⟨fun _ => ⟨rfl, h⟩, h, hb⟩
    · simp only
      generalize reserve.grow cfg.sp c 64 (newLog cfg.sp st.t) = nl
      obtain ⟨h1, h2⟩ := h.alloc cfg.mgr (cfg.arrSize nl)
      split
      · have : Led ((w.allocB cfg.mgr (cfg.arrSize nl)).2.freeB cfg.mgr (w.allocB cfg.mgr (cfg.arrSize nl)).1 (cfg.arrSize nl))
            (st.blocks cfg ++ FB) (st.elems ++ FE) := by
          rw [h2]; exact h1.free
        exact ⟨fun _ => ⟨rfl, this⟩, this, hb⟩
      · cases hfirst : st.t.gens.isEmpty with
        | false =>
          simp only [Bool.false_eq_true, if_false]
          have hl : Led (w.allocB cfg.mgr (cfg.arrSize nl)).2
              (({ st with t := { gens := emptyGen cfg.sp nl :: st.t.gens, count := st.t.count, cap := capacityOf cfg.sp nl },
                          arrs := ((w.allocB cfg.mgr (cfg.arrSize nl)).1, cfg.arrSize nl) :: st.arrs, params := st.params } : St).blocks cfg ++ FB)
              (st.elems ++ FE) := by
            rw [h2]
            exact h1.perm ((blocks_consArr cfg st _ _ _).append_right FB).symm (List.Perm.refl _)
          obtain ⟨e1, e2⟩ := growFinish_led cfg hf st f _ FB FE _ _ _ _ hb (by simp) hl
          exact ⟨fun hc => absurd rfl hc, e1, e2⟩
        | true =>
          simp only [if_true]
          obtain ⟨g1, g2⟩ := h1.alloc cfg.mgr cfg.psz
          have hpn := (hb.nil (hb.arrs_nil hfirst)).1
          have hl : Led ((w.allocB cfg.mgr (cfg.arrSize nl)).2.allocB cfg.mgr cfg.psz).2
              (({ st with t := { gens := emptyGen cfg.sp nl :: st.t.gens, count := st.t.count, cap := capacityOf cfg.sp nl },
                          arrs := ((w.allocB cfg.mgr (cfg.arrSize nl)).1, cfg.arrSize nl) :: st.arrs,
                          params := some ((w.allocB cfg.mgr (cfg.arrSize nl)).2.allocB cfg.mgr cfg.psz).1 } : St).blocks cfg ++ FB)
              (st.elems ++ FE) := by
            rw [h2, g2]
            exact g1.perm ((blocks_consArrParams cfg st _ _ _ _ hpn).append_right FB).symm (List.Perm.refl _)
          obtain ⟨e1, e2⟩ := growFinish_led cfg hf st f _ FB FE _ _ _ _ hb (by simp) hl
          exact ⟨fun hc => absurd rfl hc, e1, e2⟩

end Momo.HTL
