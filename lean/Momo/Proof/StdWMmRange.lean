import Momo.Proof.StdWMmBase
import Momo.Proof.StdWrapErase
/-!
  Lemmas for the C06 history theorem, `unordered_multimap`, part 2: what `erase(first, last)` decides
  (`eraseRangeMM` on the flat traversal) for each documented range, and what the action does to the table.
-/
namespace Momo.StdW
open Momo.StdWrap List
open Momo.StdSpec hiding Item

theorem mmKeys_length (m : MM) : (mmKeys m).length = (MM.pairs m).length := by simp [mmKeys]

theorem nextMM_mv_pos (ks : List Nat) (p : Nat) : (nextMM ks ⟨p, true⟩).pos = p + 1 := by
  unfold nextMM; split <;> simp

theorem nextMM_pos_cases (ks : List Nat) (it : It) : (nextMM ks it).pos = it.pos + 1 ∨ (nextMM ks it).pos = ks.length := by
  unfold nextMM; split
  · left; rfl
  · split
    · left; rfl
    · right; rfl

theorem runLen_head_ne (k : Nat) (l : List Nat) (h : l.head? ≠ some k) : runLen k l = 0 := by
  cases l with
  | nil => rfl
  | cons x t =>
    have : x ≠ k := by intro hx; apply h; simp [hx]
    simp [runLen, this]

theorem runLen_full (k : Nat) (l : List Nat) (h : runLen k l = l.length) : ∀ y ∈ l, y = k := by
  induction l with
  | nil => simp
  | cons x t ih =>
    simp only [runLen] at h
    by_cases hx : x = k
    · subst hx
      simp only [if_true, length_cons, Nat.add_right_cancel_iff] at h
      intro y hy
      rcases mem_cons.mp hy with rfl | hy
      · rfl
      · exact ih h y hy
    · simp [hx] at h

/-! ### single element -/

theorem findIdx_eq_spec (l : List Item) (x : Item) (hx : x ∈ l) :
    l.findIdx (· == x) < l.length ∧ l[l.findIdx (· == x)]? = some x := by
  have hlt : l.findIdx (· == x) < l.length := findIdx_lt_length.mpr ⟨x, hx, by simp⟩
  refine ⟨hlt, ?_⟩
  rw [getElem?_eq_getElem hlt]
  have := findIdx_getElem (w := hlt)
  simp only [beq_iff_eq] at this
  rw [this]

theorem wmEraseRange_single (m : MM) (x : Item) (mv : Bool) (hx : x ∈ MM.pairs m) :
    wmEraseRange m (.single x mv) = (wmEraseElem m x, .done) := by
  obtain ⟨hlt, hget⟩ := findIdx_eq_spec (MM.pairs m) x hx
  have hd : eraseRangeMM (mmKeys m) ⟨(MM.pairs m).findIdx (· == x), mv⟩
      (nextMM (mmKeys m) ⟨(MM.pairs m).findIdx (· == x), mv⟩) = .one ((MM.pairs m).findIdx (· == x)) := by
    unfold eraseRangeMM
    have hl := mmKeys_length m
    have h1 : ¬ ((⟨(MM.pairs m).findIdx (· == x), mv⟩ : It).pos
        = (nextMM (mmKeys m) ⟨(MM.pairs m).findIdx (· == x), mv⟩).pos) := by
      rcases nextMM_pos_cases (mmKeys m) ⟨(MM.pairs m).findIdx (· == x), mv⟩ with h | h <;> rw [h] <;> simp <;> omega
    rw [if_neg h1, if_pos ⟨by simp; omega, rfl⟩]
  simp only [wmEraseRange, mRangeIters, hd, hget]

/-! ### whole container -/

theorem wmEraseRange_whole (m : MM) (hn : KeysNodup m) :
    MM.pairs (wmEraseRange m .whole).1 = [] ∧ (wmEraseRange m .whole).2 = .done ∧ KeysNodup (wmEraseRange m .whole).1 := by
  have hl := mmKeys_length m
  by_cases h0 : (MM.pairs m).length = 0
  · have hd : eraseRangeMM (mmKeys m) ⟨0, true⟩ ⟨(MM.pairs m).length, true⟩ = .unchanged := by
      unfold eraseRangeMM; simp [h0]
    have : MM.pairs m = [] := length_eq_zero_iff.mp h0
    simp only [wmEraseRange, mRangeIters, hd]
    exact ⟨this, trivial, hn⟩
  · have hne : ¬ ((⟨0, true⟩ : It).pos = (⟨(MM.pairs m).length, true⟩ : It).pos) := by simp; omega
    by_cases h1 : (MM.pairs m).length = 1
    · have hd : eraseRangeMM (mmKeys m) ⟨0, true⟩ ⟨(MM.pairs m).length, true⟩ = .one 0 := by
        unfold eraseRangeMM
        rw [if_neg hne, if_pos ⟨by simp [hl]; omega, by simp [nextMM_mv_pos, h1]⟩]
      obtain ⟨x, hx⟩ := length_eq_one_iff.mp h1
      have hmem : x ∈ MM.pairs m := by rw [hx]; simp
      obtain ⟨p1, p2⟩ := wmEraseElem_rel m hn x hmem
      simp only [wmEraseRange, mRangeIters, hd]
      simp only [hx, getElem?_cons_zero]
      rw [hx] at p1
      simp only [erase_cons_head] at p1
      exact ⟨perm_nil.mp p1, trivial, p2⟩
    · have h2 : ¬ ((⟨0, true⟩ : It).pos ≠ (mmKeys m).length ∧
          (nextMM (mmKeys m) ⟨0, true⟩).pos = (⟨(MM.pairs m).length, true⟩ : It).pos) := by
        rw [nextMM_mv_pos]; simp; omega
      by_cases h3 : (⟨0, true⟩ : It).pos ≠ (mmKeys m).length ∧ isRunStart (mmKeys m) (⟨0, true⟩ : It).pos = true ∧
          (⟨(MM.pairs m).length, true⟩ : It).pos = makeIterEnd (mmKeys m) ⟨0, true⟩
      · -- RemoveKey of the first key: the whole traversal is one run of that key
        have hd : eraseRangeMM (mmKeys m) ⟨0, true⟩ ⟨(MM.pairs m).length, true⟩ = .key 0 := by
          unfold eraseRangeMM; rw [if_neg hne, if_neg h2, if_pos h3]
        obtain ⟨_, _, h3⟩ := h3
        simp only [makeIterEnd, if_true] at h3
        have hlt : 0 < (MM.pairs m).length := by omega
        have hget : (MM.pairs m)[0]? = some (MM.pairs m)[0] := getElem?_eq_getElem hlt
        have hk : (mmKeys m)[0]? = some (MM.pairs m)[0].1 := by simp [mmKeys, hget]
        have hrun : runLen (MM.pairs m)[0].1 (mmKeys m) = (mmKeys m).length := by
          simp only [gend, hk, drop_zero, Nat.zero_add] at h3; omega
        have hall := runLen_full _ _ hrun
        simp only [wmEraseRange, mRangeIters, hd, hget]
        refine ⟨?_, trivial, hn.filter _⟩
        rw [pairs_removeKey, filter_eq_nil_iff]
        intro y hy
        have : y.1 = (MM.pairs m)[0].1 := hall y.1 (by simp only [mmKeys]; exact mem_map.mpr ⟨y, hy, rfl⟩)
        simp [this]
      · have hd : eraseRangeMM (mmKeys m) ⟨0, true⟩ ⟨(MM.pairs m).length, true⟩ = .all := by
          unfold eraseRangeMM; rw [if_neg hne, if_neg h2, if_neg h3, if_pos ⟨rfl, by simp [hl]⟩]
        simp only [wmEraseRange, mRangeIters, hd]
        exact ⟨rfl, trivial, keysNodup_nil⟩

/-! ### one whole key -/

theorem wmEraseRange_key (m : MM) (hn : KeysNodup m) (k : Nat) (mv : Bool) (hk : hasKey k (MM.pairs m) = true) :
    wmEraseRange m (.wholeKey k mv) = (mmRemoveKey m k, .done) := by
  -- the entry of `k` and its position in the flat traversal
  have hpos : 0 < ((m.lookup k).getD []).length := by
    have := hasKey_lookup m hn k; rw [hk] at this; exact of_decide_eq_true this
  cases hlk : m.lookup k with
  | none => rw [hlk] at hpos; simp at hpos
  | some vs =>
    rw [hlk] at hpos
    simp only [Option.getD_some] at hpos
    obtain ⟨m1, m2, e1, e2, e3⟩ := lookup_split m hn k vs hlk
    obtain ⟨v0, vs', rfl⟩ : ∃ v0 vs', vs = v0 :: vs' := by
      cases vs with
      | nil => simp at hpos
      | cons a b => exact ⟨a, b, rfl⟩
    have hP : MM.pairs m = MM.pairs m1 ++ ((k, v0) :: (vs'.map (fun v => (k, v)) ++ MM.pairs m2)) := by
      rw [e1, pairs_split]; simp
    have hgs : (MM.pairs m).findIdx (fun e => e.1 == k) = (MM.pairs m1).length := by
      rw [hP, findIdx_append]
      have hno : ∀ x ∈ MM.pairs m1, ¬ (x.1 == k) = true := by
        intro x hx hxk; exact no_key_pairs m1 k e2 x hx (by simpa using hxk)
      have h1 : (MM.pairs m1).findIdx (fun e => e.1 == k) = (MM.pairs m1).length := by
        rw [findIdx_eq_length]; intro x hx; simpa using hno x hx
      have h2 : ¬ ((MM.pairs m1).findIdx (fun e => e.1 == k) < (MM.pairs m1).length) := by omega
      simp [h2, findIdx_cons]
    have hK : mmKeys m = (MM.pairs m1).map (·.1) ++ (k :: (vs'.map (fun _ => k) ++ (MM.pairs m2).map (·.1))) := by
      simp [mmKeys, hP, map_append, Function.comp_def]
    have hK1len : ((MM.pairs m1).map (·.1)).length = (MM.pairs m1).length := by simp
    have hklen : (mmKeys m).length = (MM.pairs m1).length + 1 + vs'.length + (MM.pairs m2).length := by
      rw [hK]; simp; omega
    have hkat : (mmKeys m)[(MM.pairs m1).length]? = some k := by
      rw [hK, getElem?_append_right (by simp)]; simp
    have hget : (MM.pairs m)[(MM.pairs m1).length]? = some (k, v0) := by
      rw [hP, getElem?_append_right (Nat.le_refl _)]; simp
    have hstart : isRunStart (mmKeys m) (MM.pairs m1).length = true := by
      unfold isRunStart
      by_cases h0 : (MM.pairs m1).length = 0
      · simp [h0]
      · have hprev : (mmKeys m)[(MM.pairs m1).length - 1]? ≠ some k := by
          rw [hK, getElem?_append_left (by simp; omega)]
          intro hh
          have hmem := mem_of_getElem? hh
          obtain ⟨x, hx, hxk⟩ := mem_map.mp hmem
          exact no_key_pairs m1 k e2 x hx hxk
        simp only [hkat, Bool.or_eq_true, decide_eq_true_eq, bne_iff_ne, ne_eq]
        exact Or.inr hprev
    have hdrop : (mmKeys m).drop (MM.pairs m1).length = k :: (vs'.map (fun _ => k) ++ (MM.pairs m2).map (·.1)) := by
      rw [hK, ← hK1len, drop_left]
    have hhead2 : ((MM.pairs m2).map (·.1)).head? ≠ some k := by
      intro hh
      have hmem := mem_of_mem_head? hh
      obtain ⟨x, hx, hxk⟩ := mem_map.mp hmem
      exact no_key_pairs m2 k e3 x hx hxk
    have hgend : gend (mmKeys m) (MM.pairs m1).length = (MM.pairs m1).length + 1 + vs'.length := by
      have hrl : ∀ (l : List Nat), runLen k (l.map (fun _ => k) ++ (MM.pairs m2).map (·.1)) = l.length := by
        intro l
        induction l with
        | nil => simpa using runLen_head_ne k _ hhead2
        | cons a t ih => simp [runLen, ih]
      simp only [gend, hkat, hdrop, runLen, if_true, hrl]; omega
    unfold wmEraseRange
    simp only [mRangeIters, hgs]
    unfold eraseRangeMM
    have hlastpos : makeIterEnd (mmKeys m) ⟨(MM.pairs m1).length, mv⟩ =
        if mv then (MM.pairs m1).length + 1 + vs'.length else (mmKeys m).length := by
      unfold makeIterEnd; cases mv <;> simp [hgend]
    have hne1 : ¬ ((⟨(MM.pairs m1).length, mv⟩ : It).pos = (⟨makeIterEnd (mmKeys m) ⟨(MM.pairs m1).length, mv⟩, mv⟩ : It).pos) := by
      rw [hlastpos]; cases mv <;> simp <;> omega
    rw [if_neg hne1]
    cases vs' with
    | nil =>
      -- one value: `next(first) == last`, `erase(first)` removes the key because it has a single value
      have hnext : (nextMM (mmKeys m) ⟨(MM.pairs m1).length, mv⟩).pos =
          (⟨makeIterEnd (mmKeys m) ⟨(MM.pairs m1).length, mv⟩, mv⟩ : It).pos := by
        rw [hlastpos]
        have hno : ¬ ((MM.pairs m1).length + 1 < (mmKeys m).length ∧ (mmKeys m)[(MM.pairs m1).length + 1]? = (mmKeys m)[(MM.pairs m1).length]?) := by
          intro ⟨_, hh⟩
          rw [hkat, hK, getElem?_append_right (by simp)] at hh
          simp only [length_map, Nat.add_sub_cancel_left, map_nil, nil_append, getElem?_cons_succ, getElem?_cons_zero] at hh
          apply hhead2; rw [head?_eq_getElem?]; simpa using hh
        unfold nextMM
        simp only [hno, if_false]
        cases mv <;> simp
      rw [if_pos ⟨by simp [hklen]; omega, hnext⟩]
      simp only [hget, wmEraseElem, hlk, Option.getD_some, length_singleton, if_true]
    | cons v1 rest =>
      have hnext : ¬ ((nextMM (mmKeys m) ⟨(MM.pairs m1).length, mv⟩).pos =
          (⟨makeIterEnd (mmKeys m) ⟨(MM.pairs m1).length, mv⟩, mv⟩ : It).pos) := by
        rw [hlastpos]
        have hyes : (MM.pairs m1).length + 1 < (mmKeys m).length ∧ (mmKeys m)[(MM.pairs m1).length + 1]? = (mmKeys m)[(MM.pairs m1).length]? := by
          refine ⟨by rw [hklen]; simp; omega, ?_⟩
          rw [hkat, hK, getElem?_append_right (by simp)]
          simp
        unfold nextMM
        simp only [hyes, and_self, if_true]
        cases mv <;> simp [hklen] <;> omega
      rw [if_neg (fun hh => hnext hh.2)]
      rw [if_pos ⟨by simp [hklen]; omega, hstart, rfl⟩]
      simp only [hget]

end Momo.StdW
