import Momo.Model.Ver
/-!
  Lemmas about `VersionKeeper` (C15): a snapshot passes its checks exactly as long as its cell was not
  incremented (fewer than 2^64 times); increments never decrease the ghost counters.
  Core Lean only.
-/
namespace Momo.Ver

theorem W_pos : 0 < W := by decide

theorem chk_eq_some {b : Bool} : chk b = some () ↔ b = true := by
  cases b <;> simp [chk]

theorem chk_eq_none {b : Bool} : chk b = none ↔ b = false := by
  cases b <;> simp [chk]

@[simp] theorem chk_true : chk true = some () := rfl
@[simp] theorem chk_false : chk false = none := rfl

/-! ### arithmetic: distinct counters closer than 2^64 have distinct residues -/

theorem mod_ne_of_lt_add {n0 n : Nat} (h1 : n0 < n) (h2 : n < n0 + W) : n % W ≠ n0 % W := by
  intro h
  have hd : (n - n0) % W = 0 := Nat.sub_mod_eq_zero_of_mod_eq h
  have hlt : n - n0 < W := by omega
  rw [Nat.mod_eq_of_lt hlt] at hd
  omega

/-! ### bump -/

@[simp] theorem bump_same (cs : Cells) (c : Nat) : bump cs c c = cs c + 1 := by simp [bump]
theorem bump_other (cs : Cells) {c i : Nat} (h : i ≠ c) : bump cs c i = cs i := by simp [bump, h]
theorem le_bump (cs : Cells) (c i : Nat) : cs i ≤ bump cs c i := by
  unfold bump; split <;> omega
@[simp] theorem bumpN_same (cs : Cells) (c n : Nat) : bumpN cs c n c = cs c + n := by simp [bumpN]
theorem bumpN_other (cs : Cells) {c i : Nat} (n : Nat) (h : i ≠ c) : bumpN cs c n i = cs i := by simp [bumpN, h]
theorem le_bumpN (cs : Cells) (c n i : Nat) : cs i ≤ bumpN cs c n i := by
  unfold bumpN; split <;> omega
theorem bumpN_zero (cs : Cells) (c : Nat) : bumpN cs c 0 = cs := by
  funext i; simp [bumpN]
theorem bumpN_one (cs : Cells) (c : Nat) : bumpN cs c 1 = bump cs c := rfl
theorem bumpN_succ (cs : Cells) (c n : Nat) : bumpN cs c (n + 1) = bump (bumpN cs c n) c := by
  funext i; simp only [bumpN, bump]; split <;> omega

/-! ### snapshots -/

/-- a fresh snapshot passes `Check()` -/
theorem snap_check (cs : Cells) (c : Nat) : (snap cs c).check cs = true := by
  simp [snap, Keeper.check]

/-- a fresh snapshot passes `Check(version, allowEmpty)` of its own container -/
theorem snap_checkAt (cs : Cells) (c : Nat) (ae : Bool) : (snap cs c).checkAt cs c ae = true := by
  simp [snap, Keeper.checkAt]

/-- a snapshot keeps passing while its cell is not incremented, whatever happens to other cells -/
theorem check_of_cell_eq {cs cs' : Cells} {c : Nat} (h : cs' c = cs c) : (snap cs c).check cs' = true := by
  simp [snap, Keeper.check, stored, h]

theorem checkAt_of_cell_eq {cs cs' : Cells} {c : Nat} (ae : Bool) (h : cs' c = cs c) :
    (snap cs c).checkAt cs' c ae = true := by
  simp [snap, Keeper.checkAt, stored, h]

/-- **stale**: the cell was incremented at least once and fewer than 2^64 times since the snapshot -/
def Stale (k : Keeper) (cs : Cells) : Prop :=
  ∃ c n0, k.cell = some c ∧ k.ver = n0 % W ∧ n0 < cs c ∧ cs c < n0 + W

theorem Stale.check {k : Keeper} {cs : Cells} (h : Stale k cs) : k.check cs = false := by
  obtain ⟨c, n0, hc, hv, h1, h2⟩ := h
  simp only [Keeper.check, hc, stored, hv]
  have := mod_ne_of_lt_add h1 h2
  simp [this]

theorem Stale.checkAt {k : Keeper} {cs : Cells} (h : Stale k cs) (c : Nat) (ae : Bool) : k.checkAt cs c ae = false := by
  obtain ⟨c', n0, hc, hv, h1, h2⟩ := h
  simp only [Keeper.checkAt, hc, stored, hv]
  by_cases hcc : c' = c
  · subst hcc
    have := mod_ne_of_lt_add h1 h2
    have h' : ¬ (n0 % W = cs c' % W) := fun e => this e.symm
    simp [h']
  · simp [hcc]

/-- a snapshot of `cs0` is stale in `cs` when its cell advanced by 1 … 2^64-1 -/
theorem snap_stale {cs0 cs : Cells} {c : Nat} (h1 : cs0 c < cs c) (h2 : cs c < cs0 c + W) : Stale (snap cs0 c) cs :=
  ⟨c, cs0 c, rfl, rfl, h1, h2⟩

/-- **foreign**: a keeper of another container's cell never passes `Check(version, allowEmpty)` -/
theorem foreign_checkAt {k : Keeper} {cs : Cells} {c c' : Nat} (hc : k.cell = some c') (hne : c' ≠ c) (ae : Bool) :
    k.checkAt cs c ae = false := by
  simp [Keeper.checkAt, hc, hne]

/-- **null** keeper (default-constructed iterator): fails `Check()`, passes `Check(version, allowEmpty)` only when empty is allowed -/
theorem null_check {k : Keeper} (cs : Cells) (hc : k.cell = none) : k.check cs = false := by
  simp [Keeper.check, hc]
theorem null_checkAt {k : Keeper} (cs : Cells) (c : Nat) (ae : Bool) (hc : k.cell = none) : k.checkAt cs c ae = ae := by
  simp [Keeper.checkAt, hc]

/-- passing `Check(version, false)` means: same cell, same stored version -/
theorem checkAt_false_iff {k : Keeper} {cs : Cells} {c : Nat} :
    k.checkAt cs c false = true ↔ k.cell = some c ∧ k.ver = stored cs c := by
  unfold Keeper.checkAt
  cases hk : k.cell with
  | none => simp
  | some c' => simp

theorem checkAt_false_imp_check {k : Keeper} {cs : Cells} {c : Nat} (h : k.checkAt cs c false = true) : k.check cs = true := by
  obtain ⟨h1, h2⟩ := checkAt_false_iff.mp h
  simp [Keeper.check, h1, h2]

/-- the wrap-around that the theorems exclude is real: after exactly 2^64 increments an old snapshot passes again -/
theorem wrap_accepts (cs0 : Cells) (c : Nat) : (snap cs0 c).check (bumpN cs0 c W) = true := by
  simp [snap, Keeper.check, stored]

end Momo.Ver
