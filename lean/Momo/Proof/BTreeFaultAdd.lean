import Momo.Proof.BTreeFaultReloc
import Momo.Proof.BTreeOps
/-!
  C04 for the B-tree family: `pvAdd` / `pvAddFirst` / `pvInsert` under every fault schedule.
  * the Relocator plan of an insertion creates and retires exactly the nodes by which the fault-free result differs from the
    old tree (`addRoot_counts`);
  * `addNode` / `addF` / `insertF`: when they throw, the tree is the old tree and the ledger is the old ledger (only the
    node-params block of a container that had none may have come into being); when they return, tree and iterator are those
    of the fault-free model and the ledger moved by exactly the node difference plus what the creator did; a schedule without
    faults makes them return.
  Core Lean only.
-/
namespace Momo.BTreeF
open Momo Momo.BTree Momo.BTree.Node
variable {α : Type}

local macro "triv" : tactic => `(tactic| first | rfl | trivial | simp)

/-! ### node counts of lists of children -/

theorem leafCountL_eq (cs : List (Node α)) : leafCountL cs = (cs.map leafCount).sum := by
  induction cs with
  | nil => simp [leafCountL]
  | cons c cs ih => simp [leafCountL, ih]

theorem innerCountL_eq (cs : List (Node α)) : innerCountL cs = (cs.map innerCount).sum := by
  induction cs with
  | nil => simp [innerCountL]
  | cons c cs ih => simp [innerCountL, ih]

@[simp] theorem leafCount_leaf (cap : Nat) (items : List α) : leafCount (leaf cap items) = 1 := by simp [leafCount]
@[simp] theorem leafCount_inner (items : List α) (cs : List (Node α)) : leafCount (inner items cs) = (cs.map leafCount).sum := by
  simp [leafCount, leafCountL_eq]
@[simp] theorem innerCount_leaf (cap : Nat) (items : List α) : innerCount (leaf cap items) = 0 := by simp [innerCount]
@[simp] theorem innerCount_inner (items : List α) (cs : List (Node α)) :
    innerCount (inner items cs) = (cs.map innerCount).sum + 1 := by
  simp [innerCount, innerCountL_eq]

theorem sum_map_set (f : Node α → Nat) (cs : List (Node α)) (c : Nat) (ch ch' : Node α) (hc : cs[c]? = some ch) :
    ((cs.set c ch').map f).sum + f ch = (cs.map f).sum + f ch' := by
  induction cs generalizing c with
  | nil => simp at hc
  | cons x xs ih =>
    cases c with
    | zero => simp at hc; subst hc; simp; omega
    | succ c =>
      simp only [List.getElem?_cons_succ] at hc
      have := ih c hc
      simp only [List.set_cons_succ, List.map_cons, List.sum_cons]; omega

theorem sum_map_split2 (f : Node α → Nat) (cs : List (Node α)) (c : Nat) (ch l r : Node α) (hc : cs[c]? = some ch) :
    ((cs.take c ++ l :: r :: cs.drop (c + 1)).map f).sum + f ch = (cs.map f).sum + f l + f r := by
  induction cs generalizing c with
  | nil => simp at hc
  | cons x xs ih =>
    cases c with
    | zero => simp at hc; subst hc; simp; omega
    | succ c => simp at hc; have := ih c hc; simp at this ⊢; omega

theorem sum_map_take_drop (f : Node α → Nat) (cs : List (Node α)) (k : Nat) :
    ((cs.take k).map f).sum + ((cs.drop k).map f).sum = (cs.map f).sum := by
  rw [← List.sum_append, ← List.map_append, List.take_append_drop]

/-! ### the plan and the result -/

def _root_.Momo.BTree.AddRes.leaves : AddRes α → Nat
  | .ok n _ => leafCount n
  | .split l _ r _ _ => leafCount l + leafCount r

def _root_.Momo.BTree.AddRes.inners : AddRes α → Nat
  | .ok n _ => innerCount n
  | .split l _ r _ _ => innerCount l + innerCount r

def _root_.Momo.BTree.AddRes.isSplit : AddRes α → Bool
  | .ok _ _ => false
  | .split _ _ _ _ _ => true

theorem splitSteps_counts (lf : Bool) (n i : Nat) :
    planNew lf (splitSteps lf n i) = 2 ∧ planOld lf (splitSteps lf n i) = 1 ∧
    planNew (!lf) (splitSteps lf n i) = 0 ∧ planOld (!lf) (splitSteps lf n i) = 0 := by
  unfold splitSteps
  split <;> cases lf <;> simp [planNew, planOld]

theorem addLeaf_counts (cfg : Cfg) (ia cap : Nat) (items : List α) (i : Nat) (x : α) (hi : i ≤ items.length)
    (hmax : 0 < cfg.maxCap) :
    (addLeaf cfg ia cap items i x).leaves + planOld true (addPlan cfg (leaf cap items) [] i).1 =
        1 + planNew true (addPlan cfg (leaf cap items) [] i).1 ∧
    (addLeaf cfg ia cap items i x).inners + planOld false (addPlan cfg (leaf cap items) [] i).1 =
        planNew false (addPlan cfg (leaf cap items) [] i).1 ∧
    (addLeaf cfg ia cap items i x).isSplit = (addPlan cfg (leaf cap items) [] i).2 := by
  have hlenall : (items.insertIdx i x).length = items.length + 1 := List.length_insertIdx_of_le_length hi x
  unfold addLeaf
  simp only [addPlan]
  split
  · simp [AddRes.leaves, AddRes.inners, AddRes.isSplit, planNew, planOld]
  · split
    · simp [AddRes.leaves, AddRes.inners, AddRes.isSplit, planNew, planOld]
    · rename_i hfull1 hfull2
      have hcount : 0 < items.length := by omega
      have hs := splitIdx_lt items.length i hcount
      obtain ⟨s1, s2, s3, s4⟩ := splitSteps_counts true items.length i
      simp only [Bool.not_true] at s3 s4
      split
      · obtain ⟨sep, hsep⟩ := getElem?_of_lt (l := items.insertIdx i x) (i := splitIdx items.length i + 1) (by omega)
        simp only [hsep]
        simp [AddRes.leaves, AddRes.inners, AddRes.isSplit, s1, s2, s3, s4]
      · obtain ⟨sep, hsep⟩ := getElem?_of_lt (l := items.insertIdx i x) (i := splitIdx items.length i) (by omega)
        simp only [hsep]
        simp [AddRes.leaves, AddRes.inners, AddRes.isSplit, s1, s2, s3, s4]

theorem addAt_counts (cfg : Cfg) (ia : Nat) (x : α) (hmax : 0 < cfg.maxCap) {d : Nat} {n : Node α} (hb : Bal d n)
    (path : List Nat) (i cap : Nat) (items : List α) (hm : nodeAt? n path = some (leaf cap items))
    (hi : i ≤ items.length) :
    (addAt cfg ia x n path i).leaves + planOld true (addPlan cfg n path i).1 =
        leafCount n + planNew true (addPlan cfg n path i).1 ∧
    (addAt cfg ia x n path i).inners + planOld false (addPlan cfg n path i).1 =
        innerCount n + planNew false (addPlan cfg n path i).1 ∧
    (addAt cfg ia x n path i).isSplit = (addPlan cfg n path i).2 := by
  induction path generalizing n d with
  | nil =>
    simp at hm; subst hm
    simpa [addAt] using addLeaf_counts cfg ia cap items i x hi hmax
  | cons c p ih =>
    cases n with
    | leaf cap' is => simp at hm
    | inner is cs =>
      obtain ⟨d', rfl, hall⟩ := hb.inner_depth
      have hlen := hb.inner_len
      simp only [nodeAt?_inner_cons] at hm
      cases hc : cs[c]? with
      | none => simp [hc] at hm
      | some ch =>
        simp only [hc] at hm
        have hcl := lt_of_getElem? hc
        have hbch := hall ch (List.mem_of_getElem? hc)
        obtain ⟨h1, h2, h3⟩ := ih hbch hm
        simp only [addAt, addPlan, hc]
        cases hres : addAt cfg ia x ch p i with
        | ok ch' q =>
          rw [hres] at h1 h2 h3
          simp only [AddRes.leaves, AddRes.inners, AddRes.isSplit] at h1 h2 h3
          cases hpl : addPlan cfg ch p i with
          | mk st up =>
            rw [hpl] at h1 h2 h3
            simp only at h1 h2 h3
            subst h3
            simp only [liftRes, AddRes.leaves, AddRes.inners, AddRes.isSplit, leafCount_inner, innerCount_inner]
            have e1 := sum_map_set leafCount cs c ch ch' hc
            have e2 := sum_map_set innerCount cs c ch ch' hc
            refine ⟨by omega, by omega, (by triv)⟩
        | split l sep r right q =>
          rw [hres] at h1 h2 h3
          simp only [AddRes.leaves, AddRes.inners, AddRes.isSplit] at h1 h2 h3
          cases hpl : addPlan cfg ch p i with
          | mk st up =>
            rw [hpl] at h1 h2 h3
            simp only at h1 h2 h3
            subst h3
            simp only [liftRes]
            have e1 := sum_map_split2 leafCount cs c ch l r hc
            have e2 := sum_map_split2 innerCount cs c ch l r hc
            have hci : c ≤ is.length := by omega
            have hlenI : (is.insertIdx c sep).length = is.length + 1 := List.length_insertIdx_of_le_length hci sep
            unfold addInner
            split
            · simp only [AddRes.leaves, AddRes.inners, AddRes.isSplit, leafCount_inner, innerCount_inner,
                planNew_append, planOld_append, planNew, planOld]
              refine ⟨by omega, by omega, (by triv)⟩
            · rename_i hfull
              have hcount : 0 < is.length := by omega
              have hs := splitIdx_lt is.length c hcount
              obtain ⟨s1, s2, s3, s4⟩ := splitSteps_counts false is.length c
              simp only [Bool.not_false] at s3 s4
              split
              · obtain ⟨sep', hsep⟩ := getElem?_of_lt (l := is.insertIdx c sep) (i := splitIdx is.length c + 1) (by omega)
                simp only [hsep]
                have t1 := sum_map_take_drop leafCount (cs.take c ++ l :: r :: cs.drop (c + 1)) (splitIdx is.length c + 2)
                have t2 := sum_map_take_drop innerCount (cs.take c ++ l :: r :: cs.drop (c + 1)) (splitIdx is.length c + 2)
                simp only [AddRes.leaves, AddRes.inners, AddRes.isSplit, leafCount_inner, innerCount_inner,
                  planNew_append, planOld_append, planNew, planOld, s1, s2, s3, s4]
                refine ⟨by omega, by omega, (by triv)⟩
              · obtain ⟨sep', hsep⟩ := getElem?_of_lt (l := is.insertIdx c sep) (i := splitIdx is.length c) (by omega)
                simp only [hsep]
                have t1 := sum_map_take_drop leafCount (cs.take c ++ l :: r :: cs.drop (c + 1)) (splitIdx is.length c + 1)
                have t2 := sum_map_take_drop innerCount (cs.take c ++ l :: r :: cs.drop (c + 1)) (splitIdx is.length c + 1)
                simp only [AddRes.leaves, AddRes.inners, AddRes.isSplit, leafCount_inner, innerCount_inner,
                  planNew_append, planOld_append, planNew, planOld, s1, s2, s3, s4]
                refine ⟨by omega, by omega, (by triv)⟩

/-- **the plan accounts for the result**: the nodes `CreateNode` makes and the nodes that end up in `mOldNodes` are exactly
    the difference between the fault-free result of `pvAdd` and the old tree -/
theorem addRoot_counts (cfg : Cfg) (x : α) (hmax : 0 < cfg.maxCap) {d : Nat} {r m : Node α} (hb : Bal d r)
    (pos : Pos) (hm : nodeAt? r pos.path = some m) (hi : pos.idx ≤ m.count) :
    leafCount (addRoot cfg x r pos).1 + planOld true (addPlanRoot cfg r (normLeaf r pos).path (normLeaf r pos).idx) =
      leafCount r + planNew true (addPlanRoot cfg r (normLeaf r pos).path (normLeaf r pos).idx) ∧
    innerCount (addRoot cfg x r pos).1 + planOld false (addPlanRoot cfg r (normLeaf r pos).path (normLeaf r pos).idx) =
      innerCount r + planNew false (addPlanRoot cfg r (normLeaf r pos).path (normLeaf r pos).idx) := by
  obtain ⟨_, cap, items, hn2, hn3⟩ := normLeaf_spec hb pos.path pos.idx hm hi
  have hpp : (⟨pos.path, pos.idx⟩ : Pos) = pos := rfl
  rw [hpp] at hn2 hn3
  obtain ⟨h1, h2, h3⟩ := addAt_counts cfg (innerCount r) x hmax hb (normLeaf r pos).path (normLeaf r pos).idx cap items hn2 hn3
  unfold addRoot addPlanRoot
  cases hres : addAt cfg (innerCount r) x r (normLeaf r pos).path (normLeaf r pos).idx with
  | ok n q =>
    rw [hres] at h1 h2 h3
    cases hpl : addPlan cfg r (normLeaf r pos).path (normLeaf r pos).idx with
    | mk st up =>
      rw [hpl] at h1 h2 h3
      simp only [AddRes.leaves, AddRes.inners, AddRes.isSplit] at h1 h2 h3
      subst h3
      exact ⟨h1, h2⟩
  | split l sep rr right q =>
    rw [hres] at h1 h2 h3
    cases hpl : addPlan cfg r (normLeaf r pos).path (normLeaf r pos).idx with
    | mk st up =>
      rw [hpl] at h1 h2 h3
      simp only [AddRes.leaves, AddRes.inners, AddRes.isSplit] at h1 h2 h3
      subst h3
      simp only [leafCount_inner, innerCount_inner, planNew_append, planOld_append, planNew, planOld]
      simp
      omega

/-- no Relocator is needed (and the plan is empty) exactly when the leaf has room -/
theorem addPlan_nil (cfg : Cfg) (n : Node α) (path : List Nat) (i cap : Nat) (items : List α)
    (hm : nodeAt? n path = some (leaf cap items)) (hroom : items.length < cap) : addPlan cfg n path i = ([], false) := by
  induction path generalizing n with
  | nil => simp at hm; subst hm; simp [addPlan, hroom]
  | cons c p ih =>
    cases n with
    | leaf cap' is => simp at hm
    | inner is cs =>
      simp only [nodeAt?_inner_cons] at hm
      cases hc : cs[c]? with
      | none => simp [hc] at hm
      | some ch =>
        simp only [hc] at hm
        simp [addPlan, hc, ih ch hm]

/-! ### pvAdd on a non-null root -/

/-- the node difference between two trees as a ledger -/
def nodeDelta (r r' : Node α) : Ledger :=
  { leaves := (leafCount r' : Int) - leafCount r, inners := (innerCount r' : Int) - innerCount r }

theorem addNode_spec {σ : Type} (S : Sched) (ic : ICfg α) (cfg : Cfg) (hmax : 0 < cfg.maxCap) {d : Nat} {r m : Node α}
    (hb : Bal d r) (pos : Pos) (hm : nodeAt? r pos.path = some m) (hi : pos.idx ≤ m.count) (x : α)
    (creator : W → Bool × σ × W) (s0 : σ) (f : σ → Ledger) (hc : CreatorSpec creator f) (w : W) :
    ((addNode S ic cfg r pos x creator s0 w).1 = true →
        (addNode S ic cfg r pos x creator s0 w).2.2.1 = r ∧ (addNode S ic cfg r pos x creator s0 w).2.2.2.2.led = w.led) ∧
    ((addNode S ic cfg r pos x creator s0 w).1 = false →
        (addNode S ic cfg r pos x creator s0 w).2.2.1 = (addRoot cfg x r pos).1 ∧
        (addNode S ic cfg r pos x creator s0 w).2.2.2.1 = (addRoot cfg x r pos).2 ∧
        (addNode S ic cfg r pos x creator s0 w).2.2.2.2.led =
          w.led + f (addNode S ic cfg r pos x creator s0 w).2.1 + nodeDelta r (addRoot cfg x r pos).1) := by
  obtain ⟨_, cap, items, hn2, hn3⟩ := normLeaf_spec hb pos.path pos.idx hm hi
  have hpp : (⟨pos.path, pos.idx⟩ : Pos) = pos := rfl
  rw [hpp] at hn2 hn3
  obtain ⟨k1, k2⟩ := addRoot_counts cfg x hmax hb pos hm hi
  unfold addNode
  by_cases hnr : needsReloc r (normLeaf r pos) = true
  · simp only [hnr, if_true]
    obtain ⟨a, b, _⟩ := Reloc.run_spec S (addPlanRoot cfg r (normLeaf r pos).path (normLeaf r pos).idx) {} w w.led (RInv.fresh _)
    cases hrun : Reloc.run S (addPlanRoot cfg r (normLeaf r pos).path (normLeaf r pos).idx) {} w with
    | mk t rest =>
      obtain ⟨rl, w1⟩ := rest
      rw [hrun] at a b
      simp only at a b
      cases t with
      | true => simp only; exact ⟨fun _ => ⟨(by triv), a.destroy⟩, fun hh => (by cases hh)⟩
      | false =>
        simp only
        obtain ⟨b1, b2, b3, b4, _⟩ := b rfl
        obtain ⟨c1, c2, c3, c4, c5, c6⟩ := Reloc.relocateCreate_spec S ic rl creator s0 w1 w.led f hc a
        cases hrc : rl.relocateCreate S ic creator s0 w1 with
        | mk t2 rest2 =>
          obtain ⟨s, rl', w2⟩ := rest2
          rw [hrc] at c1 c2 c3 c4 c5 c6
          simp only at c1 c2 c3 c4 c5 c6
          cases t2 with
          | true => simp only; exact ⟨fun _ => ⟨(by triv), (c1 rfl).destroy⟩, fun hh => (by cases hh)⟩
          | false =>
            simp only
            refine ⟨fun hh => (by cases hh), fun _ => ⟨(by triv), (by triv), ?_⟩⟩
            rw [(c2 rfl).commit_destroy, c3, c4, c5, c6, b1, b2, b3, b4]
            apply Ledger.ext' <;> simp [nodeDelta] <;> omega
  · simp only [hnr, Bool.false_eq_true, if_false]
    have hroom : items.length < cap := by
      simp only [needsReloc, hn2, decide_eq_true_eq] at hnr; omega
    have hplan : addPlanRoot cfg r (normLeaf r pos).path (normLeaf r pos).idx = [] := by
      unfold addPlanRoot; rw [addPlan_nil cfg r _ _ cap items hn2 hroom]
    rw [hplan] at k1 k2
    simp only [planNew, planOld] at k1 k2
    obtain ⟨c1, c2⟩ := hc w
    cases hcr : creator w with
    | mk t rest =>
      obtain ⟨s, w1⟩ := rest
      rw [hcr] at c1 c2
      simp only at c1 c2
      cases t with
      | true => simp only; exact ⟨fun _ => ⟨(by triv), c1 rfl⟩, fun hh => (by cases hh)⟩
      | false =>
        simp only
        refine ⟨fun hh => (by cases hh), fun _ => ⟨(by triv), (by triv), ?_⟩⟩
        rw [c2 rfl]
        apply Ledger.ext' <;> simp [nodeDelta] <;> omega

/-- a creator that cannot throw under the schedule -/
def CreatorOk {σ : Type} (creator : W → Bool × σ × W) : Prop := ∀ w0, (creator w0).1 = false

theorem addNode_ok {σ : Type} (S : Sched) (hn : S.NoAlloc) (hct : S.NoCtor) (ic : ICfg α) (cfg : Cfg) (r : Node α) (pos : Pos) (x : α)
    (creator : W → Bool × σ × W) (s0 : σ) (hok : CreatorOk creator) (w : W) :
    (addNode S ic cfg r pos x creator s0 w).1 = false := by
  unfold addNode
  by_cases hnr : needsReloc r (normLeaf r pos) = true
  · simp only [hnr, if_true]
    obtain ⟨_, _, c⟩ := Reloc.run_spec S (addPlanRoot cfg r (normLeaf r pos).path (normLeaf r pos).idx) {} w w.led (RInv.fresh _)
    cases hrun : Reloc.run S (addPlanRoot cfg r (normLeaf r pos).path (normLeaf r pos).idx) {} w with
    | mk t rest =>
      obtain ⟨rl, w1⟩ := rest
      rw [hrun] at c
      have ht : t = false := by simpa using c hn
      subst ht
      simp only
      -- RelocateCreate without faults
      have hrc : (rl.relocateCreate S ic creator s0 w1).1 = false := by
        unfold Reloc.relocateCreate
        have h1 := IArr.addBack_ok S hn rl.src w1
        cases hg : rl.src.addBack S w1 with
        | mk t1 rest1 =>
          obtain ⟨a, w2⟩ := rest1
          rw [hg] at h1; simp only at h1; subst h1
          simp only
          have h2 := IArr.addBack_ok S hn rl.dst w2
          cases hg2 : rl.dst.addBack S w2 with
          | mk t2 rest2 =>
            obtain ⟨b, w3⟩ := rest2
            rw [hg2] at h2; simp only at h2; subst h2
            simp only
            split
            · have := hok w3
              cases hcr : creator w3 with
              | mk t3 rest3 => obtain ⟨s, w4⟩ := rest3; rw [hcr] at this; simpa using this
            · obtain ⟨_, _, k3⟩ := copyLoop_spec S rl.itemCount w3
              cases hcl : copyLoop S rl.itemCount w3 with
              | mk dd rest3 =>
                obtain ⟨t3, w4⟩ := rest3
                rw [hcl] at k3
                have : t3 = false := by simpa using k3 hct
                subst this
                simp only
                have := hok w4
                cases hcr : creator w4 with
                | mk t4 rest4 => obtain ⟨s, w5⟩ := rest4; rw [hcr] at this; simpa using this
      cases hrcc : rl.relocateCreate S ic creator s0 w1 with
      | mk t2 rest2 =>
        obtain ⟨s, rl', w2⟩ := rest2
        rw [hrcc] at hrc; simp only at hrc; subst hrc; rfl
  · simp only [hnr, Bool.false_eq_true, if_false]
    have := hok w
    cases hcr : creator w with
    | mk t rest => obtain ⟨s, w1⟩ := rest; rw [hcr] at this; simp only at this; subst this; rfl

end Momo.BTreeF
