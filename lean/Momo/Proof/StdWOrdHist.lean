import Momo.Proof.StdWOrdOps
/-!
  The C06 history theorem for the ordered containers: every legal call gives the same new state and the same
  observation on the wrapper model and on the specification, and keeps the order invariant; by induction over the
  call list every legal history gives the same list of observations.
  The abstraction relation is equality of the two sequences together with the order invariant `InvO`
  (the wrapper's native tree is represented by its in-order list, C02).
-/
namespace Momo.StdW
open Momo.StdWrap List
open Momo.StdSpec hiding Item

/-- both containers are sorted by key (strictly for `set` / `map`) -/
def InvO (kd : Kind) (s : St) : Prop := SortedK kd.multi s.a ∧ SortedK kd.multi s.b

theorem InvO.get {kd : Kind} {s : St} (hi : InvO kd s) (c : Side) : SortedK kd.multi (s.get c) := by
  cases c <;> simp [St.get, hi.1, hi.2]

theorem InvO.put {kd : Kind} {s : St} (hi : InvO kd s) (c : Side) (xs : List Item) (h : SortedK kd.multi xs) :
    InvO kd (s.put c xs) := by
  cases c <;> simp [St.put, InvO, hi.1, hi.2, h]

theorem InvO.node {kd : Kind} {s : St} (hi : InvO kd s) (n : Option Item) : InvO kd { s with node := n } := hi

theorem InvO.put2 {kd : Kind} {s : St} (c : Side) (xs ys : List Item) (h1 : SortedK kd.multi xs)
    (h2 : SortedK kd.multi ys) : InvO kd ((s.put c xs).put c.other ys) := by
  cases c <;> simp [St.put, Side.other, InvO, h1, h2]

theorem St.put_get (s : St) (c : Side) : s.put c (s.get c) = s := by
  cases c <;> rfl

theorem sortedK_filter {multi : Bool} {xs : List Item} (h : SortedK multi xs) (p : Item → Bool) :
    SortedK multi (xs.filter p) := sortedK_sublist h filter_sublist

theorem sortedK_eraseIdx {multi : Bool} {xs : List Item} (h : SortedK multi xs) (i : Nat) :
    SortedK multi (xs.eraseIdx i) := sortedK_sublist h (eraseIdx_sublist _ _)

/-- **one call**: equal result (state and observation), invariant kept -/
theorem wrapO_refines (kd : Kind) (s : St) (hi : InvO kd s) (c : OCall) (hl : c.legal kd s = true) :
    wrapO kd s c = c.spec kd s ∧ InvO kd (c.spec kd s).1 := by
  cases c with
  | insert c x =>
    have hs := hi.get c
    simp only [wrapO, OCall.spec, wInsert_eq kd _ hs x]
    exact ⟨by first | trivial | rfl, hi.put c _ (sInsert_sorted _ _ hs x)⟩
  | emplace c x =>
    have hs := hi.get c
    simp only [wrapO, OCall.spec, wInsert_eq kd _ hs x]
    exact ⟨by first | trivial | rfl, hi.put c _ (sInsert_sorted _ _ hs x)⟩
  | insertHint c h x =>
    have hs := hi.get c
    have hl' : h ≤ (s.get c).length := by simpa [OCall.legal] using hl
    simp only [wrapO, OCall.spec, wInsertHint_eq kd _ hs h hl' x]
    exact ⟨by first | trivial | rfl, hi.put c _ (sInsertHint_sorted _ _ hs h x)⟩
  | emplaceHint c h x =>
    have hs := hi.get c
    have hl' : h ≤ (s.get c).length := by simpa [OCall.legal] using hl
    simp only [wrapO, OCall.spec, wInsertHint_eq kd _ hs h hl' x]
    exact ⟨by first | trivial | rfl, hi.put c _ (sInsertHint_sorted _ _ hs h x)⟩
  | insertRange c ys =>
    have hs := hi.get c
    obtain ⟨e, h2⟩ := insertMany_eq kd true ys _ hs
    simp only [wrapO, OCall.spec, e]
    exact ⟨by first | trivial | rfl, hi.put c _ h2⟩
  | insertList c ys =>
    have hs := hi.get c
    obtain ⟨e, h2⟩ := insertMany_eq kd false ys _ hs
    simp only [wrapO, OCall.spec, e]
    exact ⟨by first | trivial | rfl, hi.put c _ h2⟩
  | tryEmplace c h x =>
    have hs := hi.get c
    simp only [OCall.legal, Bool.and_eq_true, Bool.not_eq_true'] at hl
    obtain ⟨⟨hm, hmu⟩, hh⟩ := hl
    rw [hmu] at hs
    have hl' : ∀ h', h = some h' → h' ≤ (s.get c).length := by
      intro h' e; subst e; simpa using hh
    simp only [wrapO, OCall.spec, mapInsert_unique _ hs.strict h hl' x]
    refine ⟨by first | trivial | rfl, hi.put c _ ?_⟩
    rw [hmu]; exact sInsert_sorted false _ hs x
  | insertOrAssign c h x =>
    have hs := hi.get c
    simp only [OCall.legal, Bool.and_eq_true, Bool.not_eq_true'] at hl
    obtain ⟨⟨hm, hmu⟩, hh⟩ := hl
    rw [hmu] at hs
    have hl' : ∀ h', h = some h' → h' ≤ (s.get c).length := by
      intro h' e; subst e; simpa using hh
    simp only [wrapO, OCall.spec, mapInsertOrAssign_eq _ hs.strict h hl' x]
    refine ⟨by first | trivial | rfl, hi.put c _ ?_⟩
    rw [hmu]; exact sInsertOrAssign_sorted _ hs x
  | index c k =>
    have hs := hi.get c
    simp only [OCall.legal, Bool.and_eq_true, Bool.not_eq_true'] at hl
    rw [hl.2] at hs
    obtain ⟨e1, e2⟩ := wIndex_eq _ hs.strict k
    simp only [wrapO, OCall.spec, e1, e2]
    refine ⟨by first | trivial | rfl, hi.put c _ ?_⟩
    rw [hl.2]; exact sInsert_sorted false _ hs (k, 0)
  | indexAssign c k v =>
    have hs := hi.get c
    simp only [OCall.legal, Bool.and_eq_true, Bool.not_eq_true'] at hl
    rw [hl.2] at hs
    simp only [wrapO, OCall.spec, wIndexAssign_eq _ hs.strict k v]
    refine ⟨by first | trivial | rfl, hi.put c _ ?_⟩
    rw [hl.2]; exact sInsertOrAssign_sorted _ hs (k, v)
  | «at» c k =>
    simp only [wrapO, OCall.spec, mapAt_eq _ (hi.get c).sorted k]
    exact ⟨by first | trivial | rfl, hi⟩
  | find c k =>
    have hs := (hi.get c).sorted
    simp only [wrapO, OCall.spec, ordFind_spec _ hs k, findPos_eq _ hs k]
    exact ⟨by first | trivial | rfl, hi⟩
  | count c k =>
    simp only [wrapO, OCall.spec, natKeyCount_eq _ _ (hi.get c) k]
    exact ⟨by first | trivial | rfl, hi⟩
  | contains c k =>
    simp only [wrapO, OCall.spec, natContains_eq _ (hi.get c).sorted k]
    exact ⟨by first | trivial | rfl, hi⟩
  | lowerBound c k => simp only [wrapO, OCall.spec, lowerPos_eq]; exact ⟨by first | trivial | rfl, hi⟩
  | upperBound c k => simp only [wrapO, OCall.spec, upperPos_eq]; exact ⟨by first | trivial | rfl, hi⟩
  | equalRange c k =>
    simp only [wrapO, OCall.spec, ordEqualRange_eq _ _ (hi.get c) k]
    exact ⟨by first | trivial | rfl, hi⟩
  | eraseKey c k =>
    simp only [wrapO, OCall.spec, natRemoveKey, sEraseKey, countKey_eq _ (hi.get c).sorted k]
    exact ⟨by first | trivial | rfl, hi.put c _ (sortedK_filter (hi.get c) _)⟩
  | eraseAt c p =>
    simp only [wrapO, OCall.spec, natRemoveAt]
    exact ⟨by first | trivial | rfl, hi.put c _ (sortedK_eraseIdx (hi.get c) p)⟩
  | eraseRange c p q =>
    have hpq : p ≤ q := by simp only [OCall.legal, Bool.and_eq_true, decide_eq_true_eq] at hl; exact hl.1
    simp only [wrapO, OCall.spec, natRemoveRange]
    exact ⟨by first | trivial | rfl, hi.put c _ (sortedK_sublist (hi.get c) (take_drop_sublist _ p q hpq))⟩
  | eraseIf c m r =>
    have e : ((s.get c).filter fun e => !(e.1 % m == r)) = (s.get c).filter fun e => e.1 % m != r := rfl
    simp only [wrapO, OCall.spec, natRemoveIf, e]
    exact ⟨by first | trivial | rfl, hi.put c _ (sortedK_filter (hi.get c) _)⟩
  | extractKey c k =>
    simp only [wrapO, OCall.spec, wExtractKey_eq _ (hi.get c).sorted k]
    by_cases hk : hasKey k (s.get c) = true
    · simp only [hk, if_true]
      exact ⟨by first | trivial | rfl, (hi.put c _ (sortedK_eraseIdx (hi.get c) _)).node _⟩
    · simp only [hk, Bool.false_eq_true, if_false, St.put_get]
      exact ⟨by first | trivial | rfl, hi.node _⟩
  | extractAt c p =>
    simp only [wrapO, OCall.spec, natRemoveAt]
    exact ⟨by first | trivial | rfl, (hi.put c _ (sortedK_eraseIdx (hi.get c) p)).node _⟩
  | insertNode c =>
    have hs := hi.get c
    simp only [wrapO, OCall.spec]
    cases hn : s.node with
    | none => simp only [wInsertNode, insertNode, St.put_get]; exact ⟨by cases s; simp_all, hi⟩
    | some x =>
      simp only [wInsertNode_eq kd _ hs x]
      exact ⟨by first | trivial | rfl, (hi.put c _ (sInsert_sorted _ _ hs x)).node _⟩
  | insertNodeHint c h =>
    have hs := hi.get c
    have hl' : h ≤ (s.get c).length := by simpa [OCall.legal] using hl
    simp only [wrapO, OCall.spec]
    cases hn : s.node with
    | none =>
      refine ⟨?_, hi⟩
      simp only [wInsertNodeHint, mapInsertNodeHint, setInsertNodeHint, ite_self, Option.isSome_none, Bool.false_and,
        St.put_get]
      cases s; simp_all
    | some x =>
      simp only [wInsertNodeHint_eq kd _ hs h hl' x]
      refine ⟨?_, (hi.put c _ (sInsertHint_sorted _ _ hs h x)).node _⟩
      by_cases hin : (kd.multi || !hasKey x.1 (s.get c)) = true
      · simp [hin]
      · simp [hin]
  | dropNode => simp only [wrapO, OCall.spec]; exact ⟨by first | trivial | rfl, hi.node _⟩
  | merge c =>
    obtain ⟨e, h1, h2⟩ := natMergeFrom_eq kd.multi _ _ (hi.get c) (hi.get c.other)
    simp only [wrapO, OCall.spec, e]
    exact ⟨by first | trivial | rfl, InvO.put2 c _ _ h1 h2⟩
  | clear c => simp only [wrapO, OCall.spec]; exact ⟨by first | trivial | rfl, hi.put c _ (sortedK_nil _)⟩
  | size c => simp only [wrapO, OCall.spec]; exact ⟨by first | trivial | rfl, hi⟩
  | empty c => simp only [wrapO, OCall.spec]; exact ⟨by first | trivial | rfl, hi⟩
  | swap => simp only [wrapO, OCall.spec]; exact ⟨by first | trivial | rfl, hi.2, hi.1⟩
  | assignCopy c => simp only [wrapO, OCall.spec]; exact ⟨by first | trivial | rfl, hi.put c _ (hi.get c.other)⟩
  | constructCopy c => simp only [wrapO, OCall.spec]; exact ⟨by first | trivial | rfl, hi.put c _ (hi.get c.other)⟩
  | assignMove c => simp only [wrapO, OCall.spec]; exact ⟨by first | trivial | rfl, InvO.put2 c _ _ (hi.get c.other) (sortedK_nil _)⟩
  | constructMove c => simp only [wrapO, OCall.spec]; exact ⟨by first | trivial | rfl, InvO.put2 c _ _ (hi.get c.other) (sortedK_nil _)⟩
  | assignList c ys =>
    obtain ⟨e, h2⟩ := insertMany_eq kd false ys [] (sortedK_nil _)
    simp only [wInsertMany, Bool.false_eq_true, if_false] at e
    simp only [wrapO, OCall.spec, e]
    exact ⟨by first | trivial | rfl, hi.put c _ h2⟩
  | compare => simp only [wrapO, OCall.spec, wCmp_eq]; exact ⟨by first | trivial | rfl, hi⟩
  | contents c => simp only [wrapO, OCall.spec]; exact ⟨by first | trivial | rfl, hi⟩
  | rcontents c => simp only [wrapO, OCall.spec]; exact ⟨by first | trivial | rfl, hi⟩
  | constructRange c ys =>
    obtain ⟨e, h2⟩ := insertMany_eq kd true ys [] (sortedK_nil _)
    simp only [wrapO, OCall.spec, e]
    exact ⟨by first | trivial | rfl, hi.put c _ h2⟩
  | constructList c ys =>
    obtain ⟨e, h2⟩ := insertMany_eq kd false ys [] (sortedK_nil _)
    simp only [wInsertMany, Bool.false_eq_true, if_false] at e
    simp only [wrapO, OCall.spec, e]
    exact ⟨by first | trivial | rfl, hi.put c _ h2⟩

/-- **whole histories**, from any pair of sorted containers -/
theorem runWrapO_eq (kd : Kind) (cs : List OCall) : ∀ (s : St), InvO kd s → OCall.legalFrom kd s cs = true →
    runWrapOFrom kd s cs = OCall.runSpecFrom kd s cs := by
  induction cs with
  | nil => intro s _ _; rfl
  | cons c t ih =>
    intro s hi hl
    simp only [OCall.legalFrom, Bool.and_eq_true] at hl
    obtain ⟨e, hi'⟩ := wrapO_refines kd s hi c hl.1
    simp only [runWrapOFrom, OCall.runSpecFrom, e]
    rw [ih _ hi' hl.2]

theorem invO_init (kd : Kind) : InvO kd {} := ⟨sortedK_nil _, sortedK_nil _⟩

end Momo.StdW
