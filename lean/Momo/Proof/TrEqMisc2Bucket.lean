import Momo.Translated.Misc
import Momo.Proof.SegMachine
import Momo.Proof.MMapArr
/-!
  C08: the state-byte and sizing arithmetic of `internal::ArrayBucket` (the value array of `HashMultiMap`) as translated
  from details/ArrayBucket.h (area Misc, lean/Momo/Translated/Misc.lean) is the arithmetic of the model
  `Momo/Model/MMap.lean`: `pvMakeState = mkState`, `pvGetMemPoolIndex = statePool`, `pvGetFastCount = stateCount`,
  `pvGetFastMemPoolIndex = id`, the in-place state updates of `AddBackCrt` / `RemoveBack`, the first heap capacity and the
  shrink rule of `RemoveBack`; `VArr.addBack` / `VArr.removeBack` are restated with the translated pieces.
  The generated definitions are rewritten by tools/translate.py from the current headers on every check; a changed
  function body makes the equalities below fail to elaborate.
-/
namespace Momo.TrEq
open Momo Momo.Seg Momo.MMap

/-- `pvMakeState(memPoolIndex, count)`: the 64-bit wrap of `memPoolIndex << 4` is invisible in the low byte — no hypothesis -/
theorem tr_mkState (pool count : Nat) : Tr.ab_pvMakeState pool count = mkState pool count := by
  unfold Tr.ab_pvMakeState mkState toByte shl64
  simp only [Extracted.abStateShift]
  have e : (256 : Nat) = 2 ^ 8 := by decide
  rw [e, Nat.or_mod_two_pow, Nat.or_mod_two_pow, w64_eq, Nat.mod_mod_of_dvd _ (Nat.pow_dvd_pow 2 (by decide : 8 ≤ 64))]

theorem tr_statePool (s : Nat) : Tr.ab_pvGetMemPoolIndex s = statePool s := rfl
theorem tr_stateCount (s : Nat) : Tr.ab_pvGetFastCount s = stateCount s := rfl
theorem tr_fastPoolIndex (count : Nat) : Tr.ab_pvGetFastMemPoolIndex count = count := rfl

/-- `pvSetState(pvGetState() + uint8_t{1})`: promoted to `int`, converted back to a byte -/
theorem tr_incState (s : Nat) : Tr.ab_AddBack_incState s = toByte (s + 1) := rfl

/-- `pvSetState(pvGetState() - uint8_t{1})`: `int` subtraction (possibly -1), converted back to a byte: the model's `+ 255` -/
theorem tr_decState (s : Nat) : Tr.ab_RemoveBack_decState s = toByte (s + 255) := by
  unfold Tr.ab_RemoveBack_decState toByte
  omega

theorem tr_heapCap (mf : Nat) (h : mf < 2 ^ 63) : Tr.ab_AddBack_heapCap mf = mf * Extracted.abHeapCapMul := by
  unfold Tr.ab_AddBack_heapCap
  simp only [Extracted.abHeapCapMul]
  rw [mul64_of_lt (by omega)]

theorem tr_shrinkCond (count cap : Nat) :
    (Tr.ab_RemoveBack_shrinkCond count cap = true) ↔ (Extracted.abShrinkMinCount < count ∧ count ≤ cap / Extracted.abShrinkDiv) := by
  unfold Tr.ab_RemoveBack_shrinkCond
  simp [Extracted.abShrinkMinCount, Extracted.abShrinkDiv]

theorem tr_shrinkCap (count : Nat) (h : count < 2 ^ 63) : Tr.ab_RemoveBack_shrinkCap count = count * Extracted.abShrinkMul := by
  unfold Tr.ab_RemoveBack_shrinkCap
  simp only [Extracted.abShrinkMul]
  rw [mul64_of_lt (by omega)]

/-- `ArrayBucket::AddBackCrt` (model `VArr.addBack`) with every piece of state / size arithmetic replaced by the code translated
    from the header (`maxFastCount < 2^63`; the header asserts `< 16`) -/
theorem addBack_translated (mf : Nat) (hmf : mf < 2 ^ 63) (a : VArr) (v : Nat) :
    VArr.addBack mf a v =
      match a.rep with
      | .none => ⟨.fast (Tr.ab_pvMakeState (Tr.ab_pvGetFastMemPoolIndex 1) 1), [v]⟩
      | .fast s =>
        if Tr.ab_pvGetFastCount s = Tr.ab_pvGetMemPoolIndex s then
          if Tr.ab_pvGetFastCount s + 1 ≤ mf then
            ⟨.fast (Tr.ab_pvMakeState (Tr.ab_pvGetFastMemPoolIndex (Tr.ab_pvGetFastCount s + 1)) (Tr.ab_pvGetFastCount s + 1)),
              a.items.take (Tr.ab_pvGetFastCount s) ++ [v]⟩
          else ⟨.heap (Tr.ab_AddBack_heapCap mf), a.items.take (Tr.ab_pvGetFastCount s) ++ [v]⟩
        else ⟨.fast (Tr.ab_AddBack_incState s), a.items.take (Tr.ab_pvGetFastCount s) ++ [v]⟩
      | .heap cap =>
        if a.items.length < cap then ⟨.heap cap, a.items ++ [v]⟩
        else ⟨.heap (growCap cap (a.items.length + 1)), a.items ++ [v]⟩ := by
  simp only [tr_mkState, tr_fastPoolIndex, tr_stateCount, tr_statePool, tr_incState, tr_heapCap mf hmf]
  rfl

/-- `ArrayBucket::RemoveBack` (model `VArr.removeBack`) with the translated state decrement and shrink rule -/
theorem removeBack_translated (a : VArr) (shrinkFails : Bool) (hlen : a.items.length < 2 ^ 63) :
    VArr.removeBack a shrinkFails =
      if a.count = 1 then VArr.empty
      else
        match a.rep with
        | .none => a
        | .fast s => ⟨.fast (Tr.ab_RemoveBack_decState s), a.items.take (Tr.ab_pvGetFastCount s - 1)⟩
        | .heap cap =>
          if Tr.ab_RemoveBack_shrinkCond a.items.length cap = true ∧ shrinkFails = false then
            ⟨.heap (shrinkCap cap (a.items.length - 1) (Tr.ab_RemoveBack_shrinkCap a.items.length)), a.items.dropLast⟩
          else ⟨.heap cap, a.items.dropLast⟩ := by
  simp only [tr_decState, tr_stateCount, tr_shrinkCond, tr_shrinkCap _ hlen, and_assoc]
  rfl

end Momo.TrEq
