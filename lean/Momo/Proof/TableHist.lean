import Momo.Proof.TableUpdCol
/-!
  C07: histories. The operations of a table as a data type, the run of a list of operations, the invariant after every
  valid history from the empty table.
-/
namespace Momo.Table
open List

/-- the operations of the model (`f` = where `std::bad_alloc` strikes, `.none` = nowhere) -/
inductive Op
  | add (r : Row) (f : Fault)
  | insert (n : Nat) (r : Row) (f : Fault)
  | update (n : Nat) (r : Row) (f : Fault)
  | updateCol (n col v : Nat) (f : Fault)
  | extract (n : Nat) (keepOrder : Bool)
  | extractRef (id : Nat)
  | removeRows (ids : List Nat)
  | removePred (p : Row → Bool)
  | assign (ids : List Nat)
  | clear
  /-- the table is replaced by a filtered copy of itself whose raws get the addresses `addrs` -/
  | copy (p : Row → Bool) (addrs : List Nat)
  | createUnique (cols : List Nat)
  | createMulti (cols : List Nat)
  | dropUnique
  | dropMulti

/-- the raws a copy imports: the rows that pass the filter, at new addresses -/
def copyRows (t : Table) (p : Row → Bool) (addrs : List Nat) : List Row :=
  ((t.rows.filter p).zip addrs).map (fun x => { x.1 with addr := x.2 })

def applyOp (vis : Vis) (acc : Acc) (keep : Bool) (t : Table) : Op → Table
  | .add r f => (tryAdd vis acc keep t r f).1
  | .insert n r f => (tryInsert vis acc keep t n r f).1
  | .update n r f => (tryUpdate vis acc keep t n r f).1
  | .updateCol n col v f => (tryUpdateCol vis acc t n col v f).1
  | .extract n ko => (extract vis acc keep t n ko).1
  | .extractRef id => (extractRef vis acc keep t id).1
  | .removeRows ids => removeRows keep t ids
  | .removePred p => removePred keep t p
  | .assign ids => assign keep t ids
  | .clear => clear t
  | .copy p addrs => copyOf vis acc keep t (copyRows t p addrs)
  | .createUnique cols => (createUnique vis acc t cols).1
  | .createMulti cols => (createMulti vis acc t cols).1
  | .dropUnique => dropUnique t
  | .dropMulti => dropMulti t

/-- what the environment guarantees for an operation: a new raw has an identity and an address no row of the table has,
    copies get distinct addresses, index columns are distinct and - for the single-column update only - `NoF9` -/
def Op.Ok (vis : Vis) (acc : Acc) (t : Table) : Op → Prop
  | .add r _ => r.id ∉ ids t.rows ∧ r.addr ∉ t.rows.map (·.addr)
  | .insert _ r _ => r.id ∉ ids t.rows ∧ r.addr ∉ t.rows.map (·.addr)
  | .update _ r _ => r.id ∉ ids t.rows ∧ r.addr ∉ t.rows.map (·.addr)
  | .updateCol n col v _ => (∀ r, t.rows[n]? = some r → col < r.vals.length) ∧
                            (∀ r, t.rows[n]? = some r → NoF9 vis acc t r.id col v)
  | .copy _ addrs => addrs.Nodup
  | .createUnique cols => cols.Nodup
  | .createMulti cols => cols.Nodup
  | _ => True

/-- the same without the hypothesis `NoF9` (what the property asks for) -/
def Op.OkFull (t : Table) : Op → Prop
  | .add r _ => r.id ∉ ids t.rows ∧ r.addr ∉ t.rows.map (·.addr)
  | .insert _ r _ => r.id ∉ ids t.rows ∧ r.addr ∉ t.rows.map (·.addr)
  | .update _ r _ => r.id ∉ ids t.rows ∧ r.addr ∉ t.rows.map (·.addr)
  | .updateCol n col _ _ => ∀ r, t.rows[n]? = some r → col < r.vals.length
  | .copy _ addrs => addrs.Nodup
  | .createUnique cols => cols.Nodup
  | .createMulti cols => cols.Nodup
  | _ => True

def run (vis : Vis) (acc : Acc) (keep : Bool) : Table → List Op → Table
  | t, [] => t
  | t, op :: ops => run vis acc keep (applyOp vis acc keep t op) ops

/-- every operation of the history meets its environment condition in the state it is applied to -/
def ValidHist (vis : Vis) (acc : Acc) (keep : Bool) : Table → List Op → Prop
  | _, [] => True
  | t, op :: ops => op.Ok vis acc t ∧ ValidHist vis acc keep (applyOp vis acc keep t op) ops

def ValidHistFull (vis : Vis) (acc : Acc) (keep : Bool) : Table → List Op → Prop
  | _, [] => True
  | t, op :: ops => op.OkFull t ∧ ValidHistFull vis acc keep (applyOp vis acc keep t op) ops

theorem zip_map_fst_sublist {α β : Type} : ∀ (l1 : List α) (l2 : List β), ((l1.zip l2).map (·.1)).Sublist l1
  | [], _ => by simp
  | a :: as, [] => by simp
  | a :: as, b :: bs => by simp only [zip_cons_cons, map_cons]; exact (zip_map_fst_sublist as bs).cons₂ a

theorem zip_map_snd_sublist {α β : Type} : ∀ (l1 : List α) (l2 : List β), ((l1.zip l2).map (·.2)).Sublist l2
  | [], _ => by simp
  | a :: as, [] => by simp
  | a :: as, b :: bs => by simp only [zip_cons_cons, map_cons]; exact (zip_map_snd_sublist as bs).cons₂ b

theorem copyRows_ok {acc : Acc} {keep : Bool} {t : Table} (hinv : Inv acc keep t) (p : Row → Bool) (addrs : List Nat)
    (ha : addrs.Nodup) :
    (ids (copyRows t p addrs)).Nodup ∧ AddrInj (copyRows t p addrs) ∧
    ∀ u ∈ t.uidx, (copyRows t p addrs).Pairwise (fun a b => keyEq u.cols a.vals b.vals = false) := by
  have hsub : (((t.rows.filter p).zip addrs).map (·.1)).Sublist t.rows := by
    exact (zip_map_fst_sublist _ _).trans filter_sublist
  refine ⟨?_, ?_, ?_⟩
  · unfold ids copyRows
    rw [map_map]
    have : ((fun r : Row => r.id) ∘ fun x : Row × Nat => ({ x.1 with addr := x.2 } : Row)) = (fun r : Row => r.id) ∘ (·.1) := rfl
    rw [this, ← map_map]
    exact (hsub.map _).nodup hinv.idsNodup
  · unfold AddrInj copyRows
    rw [map_map]
    have : ((fun r : Row => r.addr) ∘ fun x : Row × Nat => ({ x.1 with addr := x.2 } : Row)) = (·.2) := rfl
    rw [this]
    exact (zip_map_snd_sublist _ _).nodup ha
  · intro u hu
    unfold copyRows
    rw [pairwise_map]
    have h1 := (rows_pairwise_distinct hinv hu).sublist hsub
    rw [pairwise_map] at h1
    exact h1

section hist
variable {vis : Vis} (hc : Complete vis) (acc : Acc) (keep : Bool)
include hc

/-- every operation keeps the invariant -/
theorem applyOp_inv (t : Table) (hinv : Inv acc keep t) (op : Op) (hok : op.Ok vis acc t) :
    Inv acc keep (applyOp vis acc keep t op) := by
  cases op with
  | add r f => exact (tryAdd_spec hc acc keep t hinv r hok.1 hok.2 f).1
  | insert n r f => exact (tryInsert_spec hc acc keep t hinv n r hok.1 hok.2 f).1
  | update n r f => exact (tryUpdate_spec hc acc keep t hinv n r hok.1 hok.2 f).1
  | updateCol n col v f => exact (tryUpdateCol_partial hc acc keep t hinv n col v f hok.1 hok.2).1
  | extract n ko => exact (extract_spec hc acc keep t hinv n ko).1
  | extractRef id => exact (extractRef_spec hc acc keep t hinv id).1
  | removeRows rm => exact (removeRows_spec acc keep t hinv rm).1
  | removePred p => exact (removePred_spec acc keep t hinv p).1
  | assign named => exact (assign_spec acc keep t hinv named).1
  | clear => exact (clear_spec acc keep t hinv).1
  | copy p addrs =>
    obtain ⟨h1, h2, h3⟩ := copyRows_ok hinv p addrs hok
    exact (copyOf_spec hc acc keep t hinv _ h1 h2 h3).1
  | createUnique cols => exact (createUnique_spec hc acc keep t hinv cols hok).1
  | createMulti cols => exact (createMulti_spec hc acc keep t hinv cols hok).1
  | dropUnique => exact ⟨hinv.idsNodup, hinv.addrInj, hinv.nums, (by intro u hu; change u ∈ [] at hu; cases hu), hinv.minv⟩
  | dropMulti => exact ⟨hinv.idsNodup, hinv.addrInj, hinv.nums, hinv.uinv, (by intro m hm; change m ∈ [] at hm; cases hm)⟩

theorem run_inv : ∀ (ops : List Op) (t : Table), Inv acc keep t → ValidHist vis acc keep t ops → Inv acc keep (run vis acc keep t ops)
  | [], _, hinv, _ => hinv
  | op :: ops, t, hinv, hv => run_inv ops _ (applyOp_inv hc acc keep t hinv op hv.1) hv.2

end hist
end Momo.Table
