import Momo.Model.Seg
/-!
  `UIntMath::pvLog2` (de Bruijn) computes `⌊log2 v⌋` — for every `0 < v < 2^64` (8-byte variant) and every
  `0 < v < 2^32` (4-byte variant). Core Lean only.

  Proof: the `value |= value >> s` lines turn `v` into `2^(⌊log2 v⌋+1) - 1` (bit extensionality with a
  "window" invariant that doubles at every line), `value -= value >> 1` leaves `2^⌊log2 v⌋`, and the 64 (32)
  table rows are checked by evaluation in the kernel.
-/
namespace Momo.Seg
open Momo

theorem two_pow_64 : (18446744073709551616 : Nat) = 2 ^ 64 := by decide
theorem two_pow_32 : (4294967296 : Nat) = 2 ^ 32 := by decide

theorem w64_eq (n : Nat) : w64 n = n % 2 ^ 64 := by
  unfold w64
  split
  · rename_i h; rw [two_pow_64] at h; exact (Nat.mod_eq_of_lt h).symm
  · rw [two_pow_64]

theorem w32_eq (n : Nat) : w32 n = n % 2 ^ 32 := by
  unfold w32
  split
  · rename_i h; rw [two_pow_32] at h; exact (Nat.mod_eq_of_lt h).symm
  · rw [two_pow_32]

theorem w64_of_lt {n : Nat} (h : n < 2 ^ 64) : w64 n = n := by
  rw [w64_eq]; exact Nat.mod_eq_of_lt h

theorem w32_of_lt {n : Nat} (h : n < 2 ^ 32) : w32 n = n := by
  rw [w32_eq]; exact Nat.mod_eq_of_lt h

theorem log2_bounds (n : Nat) (hn : n ≠ 0) : 2 ^ Nat.log2 n ≤ n ∧ n < 2 ^ (Nat.log2 n + 1) :=
  ⟨Nat.log2_self_le hn, Nat.lt_log2_self⟩

theorem log2_eq_of (n k : Nat) (h1 : 2 ^ k ≤ n) (h2 : n < 2 ^ (k + 1)) : Nat.log2 n = k := by
  have hn : n ≠ 0 := by have := Nat.two_pow_pos k; omega
  have a : Nat.log2 n < k + 1 := (Nat.log2_lt hn).mpr h2
  have b : ¬ Nat.log2 n < k := by
    intro hlt
    have := (Nat.log2_lt hn).mp hlt
    omega
  omega

/-! ### the machine-word code equals a formula over naturals -/

/-- `value |= value >> s` for every `s`, over naturals -/
def smear (shifts : List Nat) (v : Nat) : Nat := shifts.foldl (fun x s => x ||| (x >>> s)) v

/-- `log2db64` with every `UInt64` operation replaced by its meaning on naturals -/
def log2nat64 (value : Nat) : Nat :=
  tab64.getD (w64 ((smear Extracted.log2Smear64 (w64 value) - (smear Extracted.log2Smear64 (w64 value) >>> 1))
    * Extracted.log2Mul64) >>> Extracted.log2Shift64) 0

def log2nat32 (value : Nat) : Nat :=
  tab32.getD (w32 (smear Extracted.log2Smear32 (w32 value) * Extracted.log2Mul32) >>> Extracted.log2Shift32) 0

theorem smearU64_toNat (shifts : List Nat) (hs : ∀ s ∈ shifts, s < 64) (v : UInt64) :
    (smearU64 shifts v).toNat = smear shifts v.toNat := by
  induction shifts generalizing v with
  | nil => rfl
  | cons s ss ih =>
    have h1 : s < 64 := hs s (by simp)
    show (smearU64 ss (v ||| (v >>> UInt64.ofNat s))).toNat = smear ss (v.toNat ||| (v.toNat >>> s))
    rw [ih (fun x hx => hs x (by simp [hx]))]
    congr 1
    rw [UInt64.toNat_or, UInt64.toNat_shiftRight]
    have : (UInt64.ofNat s).toNat % 64 = s := by
      rw [UInt64.toNat_ofNat']
      omega
    rw [this]

theorem smearU32_toNat (shifts : List Nat) (hs : ∀ s ∈ shifts, s < 32) (v : UInt32) :
    (smearU32 shifts v).toNat = smear shifts v.toNat := by
  induction shifts generalizing v with
  | nil => rfl
  | cons s ss ih =>
    have h1 : s < 32 := hs s (by simp)
    show (smearU32 ss (v ||| (v >>> UInt32.ofNat s))).toNat = smear ss (v.toNat ||| (v.toNat >>> s))
    rw [ih (fun x hx => hs x (by simp [hx]))]
    congr 1
    rw [UInt32.toNat_or, UInt32.toNat_shiftRight]
    have : (UInt32.ofNat s).toNat % 32 = s := by
      rw [UInt32.toNat_ofNat']
      omega
    rw [this]

theorem log2db64_eq_nat (value : Nat) : log2db64 value = log2nat64 value := by
  unfold log2db64 log2nat64
  congr 1
  have hsh : ∀ s ∈ Extracted.log2Smear64, s < 64 := by decide
  generalize hS : smearU64 Extracted.log2Smear64 (UInt64.ofNat value) = S
  have hSn : S.toNat = smear Extracted.log2Smear64 (w64 value) := by
    rw [← hS, smearU64_toNat _ hsh, UInt64.toNat_ofNat', w64_eq]
  have h1 : (S >>> 1).toNat = S.toNat >>> 1 := by
    rw [UInt64.toNat_shiftRight]; rfl
  have hle : S >>> 1 ≤ S := by
    rw [UInt64.le_iff_toNat_le, h1]; exact Nat.shiftRight_le _ _
  rw [UInt64.toNat_shiftRight, UInt64.toNat_mul, UInt64.toNat_sub_of_le _ _ hle, h1, hSn, w64_eq, w64_eq]
  have hm : (UInt64.ofNat Extracted.log2Mul64).toNat = Extracted.log2Mul64 := by decide
  have hs : (UInt64.ofNat Extracted.log2Shift64).toNat % 64 = Extracted.log2Shift64 := by decide
  rw [hm, hs]

theorem log2db32_eq_nat (value : Nat) : log2db32 value = log2nat32 value := by
  unfold log2db32 log2nat32
  congr 1
  have hsh : ∀ s ∈ Extracted.log2Smear32, s < 32 := by decide
  rw [UInt32.toNat_shiftRight, UInt32.toNat_mul, smearU32_toNat _ hsh, UInt32.toNat_ofNat', w32_eq, w32_eq]
  have hm : (UInt32.ofNat Extracted.log2Mul32).toNat = Extracted.log2Mul32 := by decide
  have hs : (UInt32.ofNat Extracted.log2Shift32).toNat % 32 = Extracted.log2Shift32 := by decide
  rw [hm, hs]

/-- bit `i` of `x` is set iff one of the `w` bits `i … i+w-1` of `v` is set -/
def Win (v x w : Nat) : Prop := ∀ i, x.testBit i = true ↔ ∃ j, j < w ∧ v.testBit (i + j) = true

theorem Win.base (v : Nat) : Win v v 1 := by
  intro i
  constructor
  · intro h; exact ⟨0, by omega, by simpa using h⟩
  · rintro ⟨j, hj, h⟩
    have : j = 0 := by omega
    subst this; simpa using h

/-- one line `value |= value >> s` with `s ≤ w` widens the window from `w` to `w + s` -/
theorem Win.step {v x w : Nat} (s : Nat) (h : Win v x w) (hs : s ≤ w) : Win v (x ||| (x >>> s)) (w + s) := by
  intro i
  rw [Nat.testBit_or, Nat.testBit_shiftRight, Bool.or_eq_true]
  constructor
  · rintro (h1 | h1)
    · obtain ⟨j, hj, hb⟩ := (h i).mp h1
      exact ⟨j, by omega, hb⟩
    · obtain ⟨j, hj, hb⟩ := (h (s + i)).mp h1
      refine ⟨s + j, by omega, ?_⟩
      have : i + (s + j) = s + i + j := by omega
      rw [this]; exact hb
  · rintro ⟨j, hj, hb⟩
    by_cases hjw : j < w
    · exact Or.inl ((h i).mpr ⟨j, hjw, hb⟩)
    · refine Or.inr ((h (s + i)).mpr ⟨j - s, by omega, ?_⟩)
      have : s + i + (j - s) = i + j := by omega
      rw [this]; exact hb

/-- a full window over a number below `2^w` is the all-ones number up to its top bit -/
theorem Win.full {v x w : Nat} (h : Win v x w) (hv0 : v ≠ 0) (hv : v < 2 ^ w) :
    x = 2 ^ (Nat.log2 v + 1) - 1 := by
  obtain ⟨lo, hi⟩ := log2_bounds v hv0
  have hkw : Nat.log2 v < w := (Nat.log2_lt hv0).mpr hv
  have htop : v.testBit (Nat.log2 v) = true := by
    rw [Nat.testBit_eq_decide_div_mod_eq]
    have h1 : v / 2 ^ Nat.log2 v = 1 := by
      apply Nat.div_eq_of_lt_le
      · simpa using lo
      · rw [Nat.pow_succ] at hi; omega
    simp [h1]
  apply Nat.eq_of_testBit_eq
  intro i
  rw [Nat.testBit_two_pow_sub_one]
  by_cases hi' : i < Nat.log2 v + 1
  · have : x.testBit i = true := (h i).mpr ⟨Nat.log2 v - i, by omega, by
      have : i + (Nat.log2 v - i) = Nat.log2 v := by omega
      rw [this]; exact htop⟩
    simp [this, hi']
  · have : ¬ x.testBit i = true := by
      intro hx
      obtain ⟨j, _, hb⟩ := (h i).mp hx
      have hlt : v < 2 ^ (i + j) := Nat.lt_of_lt_of_le hi (Nat.pow_le_pow_right (by decide) (by omega))
      rw [Nat.testBit_lt_two_pow hlt] at hb
      exact absurd hb (by decide)
    simp [hi']
    simpa using this

theorem smear64_eq (v : Nat) (hv0 : v ≠ 0) (hv : v < 2 ^ 64) :
    smear Extracted.log2Smear64 v = 2 ^ (Nat.log2 v + 1) - 1 := by
  have h := (((((Win.base v).step 1 (by decide)).step 2 (by decide)).step 4 (by decide)).step 8 (by decide)).step 16
    (by decide) |>.step 32 (by decide)
  exact Win.full h hv0 hv

theorem smear32_eq (v : Nat) (hv0 : v ≠ 0) (hv : v < 2 ^ 32) :
    smear Extracted.log2Smear32 v = 2 ^ (Nat.log2 v + 1) - 1 := by
  have h := ((((Win.base v).step 1 (by decide)).step 2 (by decide)).step 4 (by decide)).step 8 (by decide) |>.step 16
    (by decide)
  exact Win.full h hv0 hv

/-- the 64 rows of `tab64`: the product with the de Bruijn constant, reduced mod 2^64 and shifted, selects
    the row that holds `k` -/
theorem tab64_rows : ∀ k, k < 64 →
    tab64.getD (w64 (2 ^ k * Extracted.log2Mul64) >>> Extracted.log2Shift64) 0 = k := by
  decide +kernel

/-- the 32 rows of `tab32` (indexed with the smeared value `2^(k+1) - 1` itself) -/
theorem tab32_rows : ∀ k, k < 32 →
    tab32.getD (w32 ((2 ^ (k + 1) - 1) * Extracted.log2Mul32) >>> Extracted.log2Shift32) 0 = k := by
  decide +kernel

/-- **de Bruijn `Log2`, 8-byte variant**: `pvLog2(v) = ⌊log2 v⌋` for every `0 < v < 2^64` -/
theorem log2db64_eq (v : Nat) (hv0 : v ≠ 0) (hv : v < 2 ^ 64) : log2db64 v = Nat.log2 v := by
  rw [log2db64_eq_nat]
  unfold log2nat64
  rw [w64_of_lt hv, smear64_eq v hv0 hv]
  have hk : Nat.log2 v < 64 := (Nat.log2_lt hv0).mpr hv
  have e : 2 ^ (Nat.log2 v + 1) - 1 - ((2 ^ (Nat.log2 v + 1) - 1) >>> 1) = 2 ^ Nat.log2 v := by
    rw [Nat.shiftRight_eq_div_pow, Nat.pow_succ]
    have := Nat.two_pow_pos (Nat.log2 v)
    omega
  rw [e]
  exact tab64_rows _ hk

/-- **de Bruijn `Log2`, 4-byte variant**: `pvLog2(v) = ⌊log2 v⌋` for every `0 < v < 2^32` -/
theorem log2db32_eq (v : Nat) (hv0 : v ≠ 0) (hv : v < 2 ^ 32) : log2db32 v = Nat.log2 v := by
  rw [log2db32_eq_nat]
  unfold log2nat32
  rw [w32_of_lt hv, smear32_eq v hv0 hv]
  have hk : Nat.log2 v < 32 := (Nat.log2_lt hv0).mpr hv
  exact tab32_rows _ hk

/-- what the code answers for 0 (no top bit): `tab64[0]` / `tab32[0]` -/
theorem log2db64_zero : log2db64 0 = 63 := by decide +kernel
theorem log2db32_zero : log2db32 0 = 0 := by decide +kernel

end Momo.Seg
