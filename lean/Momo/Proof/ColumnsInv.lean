import Momo.Proof.ColumnsGraph
/-!
# The invariant of `DataColumnList` under `Add` — lemmas for C18

* `Lay`: the column records lie one after another (aligned, positive size, no overlap) between the
  row-number slot and `mTotalSize`.
* `Inv`: layout + every column can be looked up (`Looks`) + code set = codes of the columns +
  alignment + function records tile the columns.
* `fillAddends_spec`, `tryParams_spec`, `add_spec`: complete case analysis of `pvAdd`.
* `add_duplicate_refused`, `runFrom_spec` (histories), `contains_added` / `contains_not_added`.
-/
namespace Momo.Col

/-! ## Ceil and the sequential layout -/

theorem le_ceil (off a : Nat) (ha : 0 < a) : off ≤ ceil off a := by
  unfold ceil
  have h := Nat.div_add_mod (off + a - 1) a
  have hr := Nat.mod_lt (off + a - 1) ha
  rw [Nat.mul_comm] at h
  omega

theorem ceil_mod (off a : Nat) : ceil off a % a = 0 := by
  unfold ceil; exact Nat.mul_mod_left _ _

theorem ceil_lt (off a : Nat) (ha : 0 < a) : ceil off a < off + a := by
  unfold ceil
  have h := Nat.div_add_mod (off + a - 1) a
  rw [Nat.mul_comm] at h
  omega

/-- the records lie one after another from `s` to `e`: aligned, positive size, no overlap -/
def Lay : Nat → List ColRec → Nat → Prop
  | s, [], e => s ≤ e
  | s, r :: rs, e => s ≤ r.offset ∧ r.offset % r.align = 0 ∧ 0 < r.size ∧ 0 < r.align ∧ Lay (r.offset + r.size) rs e

def ItemsOK (items : List Item) : Prop := ∀ it ∈ items, 0 < it.size ∧ 0 < it.align

theorem Lay.start_le {s s' e : Nat} {rs : List ColRec} (h : Lay s rs e) (hs : s' ≤ s) : Lay s' rs e := by
  cases rs with
  | nil => exact Nat.le_trans hs h
  | cons r rs => exact ⟨Nat.le_trans hs h.1, h.2⟩

theorem Lay.le {s e : Nat} {rs : List ColRec} (h : Lay s rs e) : s ≤ e := by
  induction rs generalizing s with
  | nil => exact h
  | cons r rs ih => have := ih h.2.2.2.2; have := h.1; omega

theorem Lay.append {s e e' : Nat} {rs ss : List ColRec} (h1 : Lay s rs e) (h2 : Lay e ss e') : Lay s (rs ++ ss) e' := by
  induction rs generalizing s with
  | nil => exact h2.start_le h1
  | cons r rs ih => exact ⟨h1.1, h1.2.1, h1.2.2.1, h1.2.2.2.1, ih h1.2.2.2.2⟩

theorem Lay.mem {s e : Nat} {rs : List ColRec} (h : Lay s rs e) {r : ColRec} (hr : r ∈ rs) :
    s ≤ r.offset ∧ r.offset % r.align = 0 ∧ r.offset + r.size ≤ e ∧ 0 < r.size ∧ 0 < r.align := by
  induction rs generalizing s with
  | nil => cases hr
  | cons r' rs ih =>
    rcases List.mem_cons.mp hr with rfl | hr
    · exact ⟨h.1, h.2.1, h.2.2.2.2.le, h.2.2.1, h.2.2.2.1⟩
    · have h3 := ih h.2.2.2.2 hr
      have h4 := h.1
      exact ⟨by omega, h3.2.1, h3.2.2.1, h3.2.2.2⟩

theorem Lay.pairwise {s e : Nat} {rs : List ColRec} (h : Lay s rs e) :
    rs.Pairwise (fun r1 r2 => r1.offset + r1.size ≤ r2.offset) := by
  induction rs generalizing s with
  | nil => exact List.Pairwise.nil
  | cons r rs ih =>
    refine List.Pairwise.cons ?_ (ih h.2.2.2.2)
    intro r2 hr2
    exact (h.2.2.2.2.mem hr2).1

theorem lay_place (items : List Item) (off : Nat) (h : ItemsOK items) :
    Lay off (place items off) (endOf items off) := by
  induction items generalizing off with
  | nil => exact Nat.le_refl _
  | cons it its ih =>
    have hi := h it (by simp)
    exact ⟨le_ceil off it.align hi.2, ceil_mod _ _, hi.1, hi.2, ih _ (fun x hx => h x (by simp [hx]))⟩

/-- bytes requested by an `Add` call, padding included -/
def weight (items : List Item) : Nat := (items.map (fun it => it.size + it.align)).sum

theorem endOf_le (items : List Item) (off : Nat) (h : ItemsOK items) : endOf items off ≤ off + weight items := by
  induction items generalizing off with
  | nil => simp [endOf, weight]
  | cons it its ih =>
    have hi := h it (by simp)
    have := ih (ceil off it.align + it.size) (fun x hx => h x (by simp [hx]))
    have := ceil_lt off it.align hi.2
    simp only [endOf, weight, List.map_cons, List.sum_cons] at *
    omega


/-! ## The state invariant -/

/-- looking the record's code up with `(param, a)` finds two non-zero addends that sum to its offset -/
def Looks (c : Cfg) (param : Nat) (a : Array Nat) (r : ColRec) : Prop :=
  a.getD (getVertices c r.code param).1 0 ≠ 0 ∧ a.getD (getVertices c r.code param).2 0 ≠ 0 ∧
  getOffsetWith c param a r.code = r.offset

/-- the function records tile the columns: record `i` starts where record `i-1` ended -/
def Tiles : Nat → List FuncRec → Nat → Prop
  | s, [], e => s = e
  | s, fr :: frs, e => fr.columnIndex = s ∧ Tiles (s + fr.count) frs e

theorem Tiles.snoc {s e k : Nat} {frs : List FuncRec} (h : Tiles s frs e) : Tiles s (frs ++ [⟨e, k⟩]) (e + k) := by
  induction frs generalizing s with
  | nil => cases h; exact ⟨rfl, rfl⟩
  | cons fr frs ih => exact ⟨h.1, ih h.2⟩

structure Inv (c : Cfg) (st : State) : Prop where
  param_le : st.codeParam ≤ Extracted.colMaxCodeParam
  size : st.addends.size = c.N
  lay : Lay c.rowSlot st.columns st.totalSize
  looks : ∀ r ∈ st.columns, Looks c st.codeParam st.addends r
  codes : st.codeSet = st.columns.map (·.code)
  align : st.alignment = alignOf (st.columns.map (fun r => (⟨r.code, r.size, r.align, false⟩ : Item))) 1
  funcs : Tiles 0 st.funcRecs st.columns.length
  count_le : st.columns.length ≤ c.maxColumns

theorem init_inv (c : Cfg) : Inv c (init c) :=
  { param_le := Nat.zero_le _
    size := by simp [init]
    lay := Nat.le_refl _
    looks := by intro r hr; cases hr
    codes := rfl
    align := rfl
    funcs := rfl
    count_le := Nat.zero_le _ }

/-- what one attempt of the retry loop establishes -/
theorem fillAddends_spec (c : Cfg) (st : State) (items : List Item) (param : Nat)
    (hinv : Inv c st) (hitems : ItemsOK items) (hL : Extracted.colLogVertexMin ≤ c.L)
    (hp : param ≤ Extracted.colMaxCodeParam) (hB : (c.N + 1) * endOf items st.totalSize < H) :
    (fillAddends c st items param).1 ≠ .fuel ∧
    ∀ a off al, fillAddends c st items param = (.ok a, off, al) →
      off = endOf items st.totalSize ∧ al = alignOf items st.alignment ∧ a.size = c.N ∧
      ∀ r ∈ st.columns ++ place items st.totalSize, Looks c param a r := by
  have hlay : Lay c.rowSlot (st.columns ++ place items st.totalSize) (endOf items st.totalSize) :=
    hinv.lay.append (lay_place items _ hitems)
  have hg := graph_ok c param hL hp (st.columns ++ place items st.totalSize) (endOf items st.totalSize)
    (fun r hr => by have := (hlay.mem hr).2.2.1; omega)
  have hf := fill_spec _ c.N (endOf items st.totalSize) hB hg
  unfold fillAddends
  rw [buildGraph_eq]
  refine ⟨hf.1, ?_⟩
  intro a off al h
  simp only [Prod.mk.injEq] at h
  obtain ⟨h1, h2, h3⟩ := h
  obtain ⟨hsz, _, hsat⟩ := hf.2 a h1
  refine ⟨h2.symm, h3.symm, hsz, ?_⟩
  intro r hr
  have hmem : (⟨(getVertices c r.code param).2, r.offset⟩ : Edge) ∈
      (oldEdges c param (st.columns ++ place items st.totalSize) (Array.replicate c.N [])).getD
        (getVertices c r.code param).1 [] := by
    rw [oldEdges_mem c param hL hp _ _ (by simp)]
    exact Or.inr ⟨r, hr, Or.inl ⟨rfl, rfl⟩⟩
  exact hsat _ _ hmem

theorem tryParams_spec (c : Cfg) (st : State) (items : List Item)
    (hinv : Inv c st) (hitems : ItemsOK items) (hL : Extracted.colLogVertexMin ≤ c.L)
    (hB : (c.N + 1) * endOf items st.totalSize < H) :
    ∀ n p, p + n ≤ Extracted.colMaxCodeParam + 1 →
      tryParams c st items n p ≠ .fuel ∧
      (∀ param a off al, tryParams c st items n p = .found param a off al →
        p ≤ param ∧ param ≤ Extracted.colMaxCodeParam ∧ fillAddends c st items param = (.ok a, off, al)) ∧
      (tryParams c st items n p = .none →
        ∀ param, p ≤ param → param < p + n → (fillAddends c st items param).1 = .bad) := by
  intro n
  induction n with
  | zero =>
    intro p _
    exact ⟨by simp [tryParams], (by intro _ _ _ _ h; simp [tryParams] at h), (by intro _ param h1 h2; omega)⟩
  | succ n ih =>
    intro p hp
    have hp' : p ≤ Extracted.colMaxCodeParam := by omega
    have hs := fillAddends_spec c st items p hinv hitems hL hp' hB
    unfold tryParams
    rcases hfa : fillAddends c st items p with ⟨r, off, al⟩
    rw [hfa] at hs
    cases r with
    | ok a =>
      simp only
      refine ⟨by simp, ?_, (by intro h; cases h)⟩
      intro param a' off' al' h
      simp only [Try.found.injEq] at h
      obtain ⟨rfl, rfl, rfl, rfl⟩ := h
      exact ⟨Nat.le_refl _, hp', hfa⟩
    | fuel => exact absurd rfl hs.1
    | bad =>
      simp only
      by_cases hc : p + 1 > Extracted.colMaxCodeParam
      · rw [if_pos hc]
        refine ⟨by simp, (by intro _ _ _ _ h; cases h), ?_⟩
        intro _ param h1 h2
        have : param = p := by omega
        subst this; rw [hfa]
      · rw [if_neg hc]
        have := ih (p + 1) (by omega)
        refine ⟨this.1, ?_, ?_⟩
        · intro param a off al h
          have := this.2.1 param a off al h
          exact ⟨by omega, this.2⟩
        · intro hn param h1 h2
          by_cases hpp : param = p
          · subst hpp; rw [hfa]
          · exact this.2.2 hn param (by omega) (by omega)

theorem addColumns_eq_place (c : Cfg) (param : Nat) (a : Array Nat) (items : List Item) (off : Nat)
    (h : ∀ r ∈ place items off, Looks c param a r) : addColumns c param a items = place items off := by
  induction items generalizing off with
  | nil => rfl
  | cons it its ih =>
    simp only [addColumns, place]
    have h0 := h ⟨it.code, ceil off it.align, it.size, it.align⟩ (by simp [place])
    rw [h0.2.2, ih (ceil off it.align + it.size) (fun r hr => h r (by simp [place, hr]))]

theorem alignOf_append (xs ys : List Item) (al : Nat) : alignOf (xs ++ ys) al = alignOf ys (alignOf xs al) := by
  induction xs generalizing al with
  | nil => rfl
  | cons x xs ih => simp only [List.cons_append, alignOf]; exact ih _

theorem place_items (items : List Item) (off : Nat) :
    (place items off).map (fun r => (⟨r.code, r.size, r.align, false⟩ : Item)) = items.map (fun it => ⟨it.code, it.size, it.align, false⟩) := by
  induction items generalizing off with
  | nil => rfl
  | cons it its ih => simp only [place, List.map_cons]; rw [ih]

theorem alignOf_congr (items : List Item) (al : Nat) :
    alignOf (items.map (fun it => (⟨it.code, it.size, it.align, false⟩ : Item))) al = alignOf items al := by
  induction items generalizing al with
  | nil => rfl
  | cons it its ih => simp only [List.map_cons, alignOf]; exact ih _

theorem place_length (items : List Item) (off : Nat) : (place items off).length = items.length := by
  induction items generalizing off with
  | nil => rfl
  | cons it its ih => simp only [place, List.length_cons]; rw [ih]

theorem place_codes (items : List Item) (off : Nat) : (place items off).map (·.code) = items.map (·.code) := by
  induction items generalizing off with
  | nil => rfl
  | cons it its ih => simp only [place, List.map_cons]; rw [ih]

theorem Lay.pairwise_lt {s e : Nat} {rs : List ColRec} (h : Lay s rs e) :
    rs.Pairwise (fun r1 r2 => r1.offset < r2.offset) := by
  induction rs generalizing s with
  | nil => exact List.Pairwise.nil
  | cons r rs ih =>
    refine List.Pairwise.cons ?_ (ih h.2.2.2.2)
    intro r2 hr2
    have := (h.2.2.2.2.mem hr2).1
    have := h.2.2.1
    omega

/-- records laid out one after another that can all be looked up have pairwise different codes:
a second record with the same code would be looked up at the first one's offset -/
theorem codes_nodup {c : Cfg} {param : Nat} {a : Array Nat} {s e : Nat} {rs : List ColRec}
    (hlay : Lay s rs e) (hl : ∀ r ∈ rs, Looks c param a r) : (rs.map (·.code)).Nodup := by
  rw [List.nodup_iff_pairwise_ne, List.pairwise_map]
  refine List.Pairwise.imp_of_mem ?_ hlay.pairwise_lt
  intro r1 r2 h1 h2 hlt heq
  have e1 := (hl r1 h1).2.2
  have e2 := (hl r2 h2).2.2
  rw [heq, e2] at e1
  omega

/-- the state after a successful `pvAdd` -/
def added (c : Cfg) (st : State) (items : List Item) (param : Nat) (a : Array Nat) : State :=
  { codeParam := param, addends := a, totalSize := endOf items st.totalSize,
    alignment := alignOf items st.alignment,
    codeSet := st.codeSet ++ items.map (·.code),
    columns := st.columns ++ place items st.totalSize,
    funcRecs := st.funcRecs ++ [⟨st.columns.length, items.length⟩],
    mutCount := mutBytes (endOf items st.totalSize),
    mutBits := st.mutBits ++ ((items.filter (·.mutable)).map (fun it => getOffsetWith c param a it.code)) }

/-- the retry loop stopped at `param` with addends `a` -/
def FoundAt (c : Cfg) (st : State) (items : List Item) (param : Nat) (a : Array Nat) : Prop :=
  st.codeParam ≤ param ∧ param ≤ Extracted.colMaxCodeParam ∧ (fillAddends c st items param).1 = .ok a

/-- complete case analysis of `pvAdd` on a state that satisfies the invariant -/
theorem add_spec (c : Cfg) (st : State) (items : List Item) (fault : Fault)
    (hinv : Inv c st) (hitems : ItemsOK items) (hL : Extracted.colLogVertexMin ≤ c.L)
    (hB : (c.N + 1) * endOf items st.totalSize < H) :
    (∃ param a, add c st items fault = (added c st items param a, .ok) ∧ fault = .none ∧
        items.length + st.columns.length ≤ c.maxColumns ∧
        st.codeParam ≤ param ∧ Inv c (added c st items param a) ∧ FoundAt c st items param a) ∨
    (add c st items fault = (st, .tooMany) ∧ items.length + st.columns.length > c.maxColumns) ∨
    (add c st items fault = (st, .cannot) ∧ items.length + st.columns.length ≤ c.maxColumns ∧
        ∀ param, st.codeParam ≤ param → param ≤ Extracted.colMaxCodeParam → (fillAddends c st items param).1 = .bad) ∨
    (add c st items fault = (st, .badAlloc) ∧ fault = .reserve ∧
        ((st.columns ++ place items st.totalSize).map (·.code)).Nodup ∧ ∃ param a, FoundAt c st items param a) ∨
    (add c st items fault = ({ st with mutCount := mutBytes (endOf items st.totalSize) }, .badAlloc) ∧ fault = .insert ∧
        ((st.columns ++ place items st.totalSize).map (·.code)).Nodup ∧ ∃ param a, FoundAt c st items param a) := by
  unfold add
  by_cases hmany : items.length + st.columns.length > c.maxColumns
  · rw [if_pos hmany]; exact Or.inr (Or.inl ⟨rfl, hmany⟩)
  · rw [if_neg hmany]
    have hts := tryParams_spec c st items hinv hitems hL hB
      (Extracted.colMaxCodeParam + 1 - st.codeParam) st.codeParam (by have := hinv.param_le; omega)
    cases htr : tryParams c st items (Extracted.colMaxCodeParam + 1 - st.codeParam) st.codeParam with
    | none =>
      refine Or.inr (Or.inr (Or.inl ⟨rfl, by omega, ?_⟩))
      intro param h1 h2
      exact hts.2.2 htr param h1 (by have := hinv.param_le; omega)
    | fuel => exact absurd htr hts.1
    | found param a off al =>
      obtain ⟨hge, hle, hfa⟩ := hts.2.1 param a off al htr
      have hfound : FoundAt c st items param a := ⟨hge, hle, by rw [hfa]⟩
      obtain ⟨rfl, rfl, hsz, hlooks⟩ := (fillAddends_spec c st items param hinv hitems hL hle hB).2 a off al hfa
      have hnd := codes_nodup (hinv.lay.append (lay_place items _ hitems)) hlooks
      cases fault with
      | reserve => exact Or.inr (Or.inr (Or.inr (Or.inl ⟨rfl, rfl, hnd, param, a, hfound⟩)))
      | insert => exact Or.inr (Or.inr (Or.inr (Or.inr ⟨rfl, rfl, hnd, param, a, hfound⟩)))
      | none =>
        left
        refine ⟨param, a, ?_, rfl, by omega, hge, ?_, hfound⟩
        · simp only [added]
          rw [addColumns_eq_place c param a items st.totalSize (fun r hr => hlooks r (by simp [hr]))]
        · exact
            { param_le := hle
              size := hsz
              lay := hinv.lay.append (lay_place items _ hitems)
              looks := hlooks
              codes := by simp only [added]; rw [hinv.codes, List.map_append, place_codes]
              align := by
                simp only [added]
                rw [List.map_append, alignOf_append, ← hinv.align, place_items, alignOf_congr]
              funcs := by
                simp only [added, List.length_append, place_length]
                exact hinv.funcs.snoc
              count_le := by
                simp only [added, List.length_append, place_length]; omega }


theorem Inv.nodup {c : Cfg} {st : State} (h : Inv c st) : (st.columns.map (·.code)).Nodup :=
  codes_nodup h.lay h.looks

theorem Inv.mutCount {c : Cfg} {st : State} (h : Inv c st) (x : Nat) : Inv c { st with mutCount := x } :=
  { param_le := h.param_le, size := h.size, lay := h.lay, looks := h.looks, codes := h.codes,
    align := h.align, funcs := h.funcs, count_le := h.count_le }

/-- **A column whose code is already present (or occurs twice in the call) is always refused.** -/
theorem add_duplicate_refused (c : Cfg) (st : State) (items : List Item) (fault : Fault)
    (hinv : Inv c st) (hitems : ItemsOK items) (hL : Extracted.colLogVertexMin ≤ c.L)
    (hB : (c.N + 1) * endOf items st.totalSize < H)
    (hdup : ¬ (st.codeSet ++ items.map (·.code)).Nodup) :
    add c st items fault = (st, .tooMany) ∨ add c st items fault = (st, .cannot) := by
  have hnd : ¬ ((st.columns ++ place items st.totalSize).map (·.code)).Nodup := by
    rw [List.map_append, place_codes, ← hinv.codes]; exact hdup
  rcases add_spec c st items fault hinv hitems hL hB with ⟨p, a, _, _, _, _, hi, _⟩ | h | h | h | h
  · exact absurd hi.nodup hnd
  · exact Or.inl h.1
  · exact Or.inr h.1
  · exact absurd h.2.2.1 hnd
  · exact absurd h.2.2.1 hnd

/-! ## Histories -/

def histWeight (ops : List (List Item × Fault)) : Nat := (ops.map (fun op => weight op.1)).sum

def OpsOK (ops : List (List Item × Fault)) : Prop := ∀ op ∈ ops, ItemsOK op.1

def runFrom (c : Cfg) (st : State) (ops : List (List Item × Fault)) : State :=
  ops.foldl (fun st op => (add c st op.1 op.2).1) st

theorem run_eq (c : Cfg) (ops : List (List Item × Fault)) : run c ops = runFrom c (init c) ops := rfl

/-- the items of the calls that succeeded, in order -/
def addedItems (c : Cfg) : List (List Item × Fault) → State → List Item
  | [], _ => []
  | op :: ops, st =>
    (if (add c st op.1 op.2).2 = .ok then op.1 else []) ++ addedItems c ops (add c st op.1 op.2).1

def sigR (r : ColRec) : Nat × Nat × Nat := (r.code, r.size, r.align)
def sigI (it : Item) : Nat × Nat × Nat := (it.code, it.size, it.align)

theorem place_sig (items : List Item) (off : Nat) : (place items off).map sigR = items.map sigI := by
  induction items generalizing off with
  | nil => rfl
  | cons it its ih => simp only [place, List.map_cons]; rw [ih]; rfl

theorem runFrom_spec (c : Cfg) (hL : Extracted.colLogVertexMin ≤ c.L) :
    ∀ (ops : List (List Item × Fault)) (st : State), Inv c st → OpsOK ops →
      (c.N + 1) * (st.totalSize + histWeight ops) < H →
      Inv c (runFrom c st ops) ∧
      (∃ more, (runFrom c st ops).columns = st.columns ++ more ∧ more.map sigR = (addedItems c ops st).map sigI) ∧
      (runFrom c st ops).totalSize ≤ st.totalSize + histWeight ops := by
  intro ops
  induction ops with
  | nil => intro st h _ _; exact ⟨h, ⟨[], by simp [runFrom], rfl⟩, by simp [runFrom]⟩
  | cons op ops ih =>
    intro st hinv hok hB
    have hitems : ItemsOK op.1 := hok op (by simp)
    have hok' : OpsOK ops := fun o ho => hok o (by simp [ho])
    have hw : histWeight (op :: ops) = weight op.1 + histWeight ops := by simp [histWeight]
    have hend := endOf_le op.1 st.totalSize hitems
    have hB1 : (c.N + 1) * endOf op.1 st.totalSize < H :=
      Nat.lt_of_le_of_lt (Nat.mul_le_mul_left _ (by omega)) hB
    have hstep : runFrom c st (op :: ops) = runFrom c (add c st op.1 op.2).1 ops := rfl
    rw [hstep]
    simp only [addedItems]
    have hB2 : (c.N + 1) * (st.totalSize + histWeight ops) < H :=
      Nat.lt_of_le_of_lt (Nat.mul_le_mul_left _ (by omega)) hB
    -- a refused call: the state is `st` up to `mutCount`
    have refused : ∀ (st1 : State) (out : AddOut), add c st op.1 op.2 = (st1, out) → out ≠ .ok →
        Inv c st1 → st1.columns = st.columns → st1.totalSize = st.totalSize →
        Inv c (runFrom c (add c st op.1 op.2).1 ops) ∧
        (∃ more, (runFrom c (add c st op.1 op.2).1 ops).columns = st.columns ++ more ∧
          more.map sigR = ((if (add c st op.1 op.2).2 = .ok then op.1 else []) ++
            addedItems c ops (add c st op.1 op.2).1).map sigI) ∧
        (runFrom c (add c st op.1 op.2).1 ops).totalSize ≤ st.totalSize + histWeight (op :: ops) := by
      intro st1 out he hne hi1 hc1 ht1
      rw [he]
      simp only [hne, if_false, List.nil_append]
      obtain ⟨h1, ⟨more, h2, h3⟩, h4⟩ := ih st1 hi1 hok' (by rw [ht1]; exact hB2)
      exact ⟨h1, ⟨more, by rw [h2, hc1], h3⟩, by omega⟩
    rcases add_spec c st op.1 op.2 hinv hitems hL hB1 with ⟨p, a, he, _, _, _, hi, _⟩ | h | h | h | h
    · rw [he]
      simp only [if_true]
      have hts : (added c st op.1 p a).totalSize = endOf op.1 st.totalSize := rfl
      have hcs : (added c st op.1 p a).columns = st.columns ++ place op.1 st.totalSize := rfl
      have hB3 : (c.N + 1) * ((added c st op.1 p a).totalSize + histWeight ops) < H :=
        Nat.lt_of_le_of_lt (Nat.mul_le_mul_left _ (by rw [hts]; omega)) hB
      obtain ⟨h1, ⟨more, h2, h3⟩, h4⟩ := ih _ hi hok' hB3
      refine ⟨h1, ⟨place op.1 st.totalSize ++ more, ?_, ?_⟩, ?_⟩
      · rw [h2, hcs, List.append_assoc]
      · rw [List.map_append, List.map_append, place_sig, h3]
      · rw [hts] at h4; omega
    · exact refused _ _ h.1 (by decide) hinv rfl rfl
    · exact refused _ _ h.1 (by decide) hinv rfl rfl
    · exact refused _ _ h.1 (by decide) hinv rfl rfl
    · exact refused _ _ h.1 (by decide) (hinv.mutCount _) rfl rfl

theorem runFrom_append (c : Cfg) (st : State) (ops more : List (List Item × Fault)) :
    runFrom c st (ops ++ more) = runFrom c (runFrom c st ops) more := by
  simp [runFrom, List.foldl_append]

theorem histWeight_append (ops more : List (List Item × Fault)) :
    histWeight (ops ++ more) = histWeight ops + histWeight more := by
  simp [histWeight]

/-- every item type has positive size and alignment (`sizeof ≥ 1`; `ObjectAlignmenter::Check`) -/
abbrev WellTyped (ops : List (List Item × Fault)) : Prop := OpsOK ops

/-- all bytes requested by the history (padding included) stay far below `2^63` -/
def Small (c : Cfg) (ops : List (List Item × Fault)) : Prop :=
  (c.N + 1) * (c.rowSlot + histWeight ops) < H

/-- the reachable states satisfy the invariant (used by all theorems below) -/
theorem run_inv (c : Cfg) (hL : Extracted.colLogVertexMin ≤ c.L) (ops : List (List Item × Fault))
    (hok : WellTyped ops) (hs : Small c ops) : Inv c (run c ops) :=
  (runFrom_spec c hL ops (init c) (init_inv c) hok hs).1

/-! ## Lookups and membership -/

theorem lookup_spec {c : Cfg} {st : State} (h : Inv c st) {r : ColRec} (hr : r ∈ st.columns) :
    getOffset c st r.code = r.offset := (h.looks r hr).2.2

theorem contains_added {c : Cfg} {st : State} (h : Inv c st) {r : ColRec} (hr : r ∈ st.columns) :
    contains c st r.code = some r.offset := by
  have hl := h.looks r hr
  unfold contains
  have h1 : ¬ (st.addends.getD (getVertices c r.code st.codeParam).1 0 = 0
      ∨ st.addends.getD (getVertices c r.code st.codeParam).2 0 = 0) := by
    intro hh; rcases hh with hh | hh
    · exact hl.1 hh
    · exact hl.2.1 hh
  rw [if_neg h1]
  have h2 : st.codeSet.contains r.code = true := by
    rw [List.contains_iff_mem, h.codes]; exact List.mem_map_of_mem hr
  rw [if_pos h2, lookup_spec h hr]

theorem contains_not_added {c : Cfg} {st : State} (h : Inv c st) {code : Nat}
    (hc : code ∉ st.columns.map (·.code)) : contains c st code = none := by
  unfold contains
  split
  · rfl
  · have : ¬ st.codeSet.contains code = true := by
      rw [List.contains_iff_mem, h.codes]; exact hc
    rw [if_neg this]

/-! ## Alignment -/

theorem le_alignOf (items : List Item) (al : Nat) : al ≤ alignOf items al := by
  induction items generalizing al with
  | nil => exact Nat.le_refl _
  | cons it its ih => exact Nat.le_trans (Nat.le_max_left _ _) (ih _)

theorem mem_le_alignOf (items : List Item) (al : Nat) {it : Item} (h : it ∈ items) : it.align ≤ alignOf items al := by
  induction items generalizing al with
  | nil => cases h
  | cons x xs ih =>
    rcases List.mem_cons.mp h with rfl | h
    · exact Nat.le_trans (Nat.le_max_right _ _) (le_alignOf _ _)
    · exact ih _ h

theorem alignOf_cases (items : List Item) (al : Nat) :
    alignOf items al = al ∨ ∃ it ∈ items, alignOf items al = it.align := by
  induction items generalizing al with
  | nil => exact Or.inl rfl
  | cons x xs ih =>
    rcases ih (max al x.align) with h | ⟨it, hit, h⟩
    · rcases Nat.le_total al x.align with hle | hle
      · right; exact ⟨x, by simp, by simp only [alignOf]; rw [h, Nat.max_eq_right hle]⟩
      · left; simp only [alignOf]; rw [h, Nat.max_eq_left hle]
    · right; exact ⟨it, by simp [hit], by simpa [alignOf] using h⟩

end Momo.Col
