import Momo.Proof.PoolOps
/-!
  State machine of `MemPool` (C09), `blockCount > 1`: `Allocate` / `Deallocate` with the cache, and the
  accounting invariant (`allocCount` = number of live blocks).
-/
namespace Momo.Pool

/-- `pvDeleteBlock(Byte*)` (540-545) on a handed-out block: `pvGetBlockIndex` finds its buffer and index -/
theorem deleteBlockN_ok {P : Params} {k : Int} (hM : Multi P k) (hN2 : 2 ≤ P.N) (hA2 : P.A ≤ 1024)
    {p : Pool} (h : CoreWF P p) (blk : Int) (hblk : blk ∈ p.taken P) :
    ∃ p' evs, deleteBlockN P p blk = .ok () p' evs ∧ FreeSpec P p p' blk evs := by
  have hN : 0 ≤ P.N := by omega
  obtain ⟨b, hb, hxb⟩ := (mem_takenOf p.store blk).mp hblk
  obtain ⟨i, hi, hli, hie⟩ := (mem_taken hN blk).mp hxb
  obtain ⟨okb, f1, f2⟩ := (h.bufwf b hb).ok hM
  have hrec : blockIdx P (getBlock P b.buf i) = i ∧ blockBuf P (getBlock P b.buf i) = b.buf := by
    by_cases h0 : 0 ≤ i
    · exact hM.recover_nonneg b.buf i okb h0 (by omega)
    · exact hM.recover_neg b.buf i okb (by omega) (by omega)
  have hal : blk % P.A = 0 := by rw [← hie]; exact hM.getBlock_aligned b.buf i okb.aligned
  unfold deleteBlockN
  rw [if_neg (by simpa using hal)]
  rw [← hie, hrec.1, hrec.2]
  obtain ⟨p', evs, h1, h2, _⟩ := deleteBlockAt_ok hM hN2 hA2 h hb i hi hli
  exact ⟨p', evs, h1, h2⟩

/-- the complete invariant of a pool with `blockCount > 1` -/
structure PoolWF (P : Params) (p : Pool) : Prop where
  core : CoreWF P p
  cacheNodup : p.cache.Nodup
  cacheTaken : ∀ c ∈ p.cache, c ∈ p.taken P
  cacheOff : P.useCache = false → p.cache = []
  count : p.allocCount + p.cache.length = (p.taken P).length
  singlesNil : p.singles = []

theorem filter_not_mem_cons {l : List Int} (hl : l.Nodup) (c : Int) (cs : List Int) (hc : c ∈ l) (hcs : c ∉ cs) :
    (l.filter (fun x => !cs.contains x)).Perm (c :: l.filter (fun x => !(c :: cs).contains x)) := by
  apply filter_flip l c _ _ hl hc
  · simp
  · simpa using hcs
  · intro x hx; simp [hx]

theorem length_filter_not_mem {l : List Int} (hl : l.Nodup) : ∀ (cs : List Int), cs.Nodup → (∀ c ∈ cs, c ∈ l) →
    (l.filter (fun x => !cs.contains x)).length + cs.length = l.length := by
  intro cs
  induction cs with
  | nil => intro _ _; simp
  | cons c cs ih =>
    intro hnd hsub
    have h1 := (filter_not_mem_cons hl c cs (hsub c (by simp)) (List.nodup_cons.mp hnd).1).length_eq
    have h2 := ih (List.nodup_cons.mp hnd).2 (fun x hx => hsub x (by simp [hx]))
    simp only [List.length_cons] at h1 ⊢
    omega

theorem PoolWF.taken_nodup {P : Params} {k : Int} (hM : Multi P k) {p : Pool} (h : PoolWF P p) : (p.taken P).Nodup :=
  takenOf_nodup hM p.store h.core.bufwf h.core.nodup

theorem live_eq {P : Params} (hN2 : 2 ≤ P.N) (p : Pool) :
    p.live P = (p.taken P).filter (fun x => !p.cache.contains x) := by
  unfold Pool.live; rw [if_pos (by omega)]

/-- **the reported count is the number of live blocks** -/
theorem PoolWF.count_exact {P : Params} {k : Int} (hM : Multi P k) (hN2 : 2 ≤ P.N) {p : Pool} (h : PoolWF P p) :
    p.allocCount = (p.live P).length := by
  have := length_filter_not_mem (h.taken_nodup hM) p.cache h.cacheNodup h.cacheTaken
  rw [live_eq hN2]
  have := h.count
  omega

theorem deleteBlock_eq_N {P : Params} (hN2 : 2 ≤ P.N) (p : Pool) (blk : Int) :
    deleteBlock P p blk = deleteBlockN P p blk := by
  unfold deleteBlock; rw [if_pos (by omega)]

/-- the store/list invariant does not look at cache, count and singles -/
theorem CoreWF.congr {P : Params} {p q : Pool} (h : CoreWF P p) (hs : q.store = p.store) (hpre : q.pre = p.pre)
    (hpost : q.post = p.post) : CoreWF P q := by
  refine ⟨?_, ?_, ?_, ?_, ?_, ?_⟩
  · rw [hs]; exact h.bufwf
  · rw [hs]; exact h.nodup
  · rw [hs, hpre, hpost]; exact h.lists
  · rw [hs, hpre]; exact h.preFull
  · rw [hs, hpost]; exact h.postFree
  · rw [hpre, hpost]; exact h.headNull

/-- concatenated effect of several `pvDeleteBlock` calls on the ledger of the manager -/
def FreesOnly (P : Params) (evs : List Ev) : Prop := ∀ e ∈ evs, ∃ a, e = .free a P.bufferSize

/-- `pvFlushDeallocate` (459-468): every cached block goes back into its buffer -/
theorem flushList_ok {P : Params} {k : Int} (hM : Multi P k) (hN2 : 2 ≤ P.N) (hA2 : P.A ≤ 1024) :
    ∀ (cs : List Int) (p : Pool), CoreWF P p → cs.Nodup → (∀ c ∈ cs, c ∈ p.taken P) →
    ∃ p' evs, flushList P cs p = .ok () p' evs ∧ CoreWF P p' ∧ (p.taken P).Perm (cs ++ p'.taken P) ∧
      p'.cache = p.cache ∧ p'.allocCount = p.allocCount ∧ p'.singles = p.singles ∧
      LedgerOK P p.store evs p'.store ∧ (∀ x ∈ bufs p'.store, x ∈ bufs p.store) := by
  intro cs
  induction cs with
  | nil => intro p h _ _; exact ⟨p, [], rfl, h, by simp, rfl, rfl, rfl, LedgerOK.nil rfl, fun _ hx => hx⟩
  | cons c cs ih =>
    intro p h hnd hsub
    obtain ⟨p1, e1, hd1, hs1⟩ := deleteBlockN_ok hM hN2 hA2 h c (hsub c (by simp))
    have hsub1 : ∀ x ∈ cs, x ∈ p1.taken P := by
      intro x hx
      have hxp := hs1.perm.subset (hsub x (by simp [hx]))
      rcases List.mem_cons.mp hxp with e | hm
      · exact absurd (e ▸ hx) (List.nodup_cons.mp hnd).1
      · exact hm
    obtain ⟨p2, e2, hd2, hwf2, hperm2, hc2, ha2, hsg2, hl2, hsb2⟩ := ih p1 hs1.wf (List.nodup_cons.mp hnd).2 hsub1
    refine ⟨p2, e1 ++ e2, ?_, hwf2, ?_, hc2.trans hs1.same.1, ha2.trans hs1.same.2.1, hsg2.trans hs1.same.2.2,
      hs1.ledgerOK.trans hl2, fun x hx => hs1.sub x (hsb2 x hx)⟩
    · simp only [flushList, deleteBlock_eq_N hN2, hd1, Outcome.bind, hd2]
    · exact hs1.perm.trans (List.Perm.cons c hperm2)

/-- what `Allocate` promises -/
structure AllocateSpec (P : Params) (p p' : Pool) (blk : Int) (evs : List Ev) : Prop where
  wf : PoolWF P p'
  fresh : blk ∉ p.live P
  live : (p'.live P).Perm (blk :: p.live P)
  count : p'.allocCount = p.allocCount + 1
  block : ∃ b ∈ p'.store, ∃ i, (b.first ≤ i ∧ i < b.first + P.N) ∧ blk = getBlock P b.buf i
  ledger : LedgerOK P p.store evs p'.store

/-- **`Allocate` (285-306), `blockCount > 1`.** -/
theorem allocate_ok {P : Params} {k : Int} (hM : Multi P k) (hN2 : 2 ≤ P.N) {p : Pool} (h : PoolWF P p)
    {orc : Oracle} (horc : OrcOK P p orc) :
    match allocate P p orc with
    | .ok blk p' evs => AllocateSpec P p p' blk evs
    | .badAlloc p' evs => p' = p ∧ evs = [] ∧ orc 0 = none
    | .stuck _ => False := by
  have hN : 0 ≤ P.N := by omega
  have hTnd := h.taken_nodup hM
  unfold allocate
  cases hc : (if P.useCache = true then p.cache else []) with
  | cons c cs =>
    -- a cached block is handed out again
    have huse : P.useCache = true := by
      by_cases hu : P.useCache = true
      · exact hu
      · rw [if_neg hu] at hc; simp at hc
    rw [if_pos huse] at hc
    simp only [Outcome.bind]
    have hcT : c ∈ p.taken P := h.cacheTaken c (by rw [hc]; simp)
    have hnd : (c :: cs).Nodup := by rw [← hc]; exact h.cacheNodup
    have hflip := filter_not_mem_cons hTnd c cs hcT (List.nodup_cons.mp hnd).1
    obtain ⟨b, hb, hxb⟩ := (mem_takenOf p.store c).mp hcT
    obtain ⟨i, hi, _, hie⟩ := (mem_taken hN c).mp hxb
    refine ⟨⟨h.core.congr rfl rfl rfl, (List.nodup_cons.mp hnd).2, fun x hx => h.cacheTaken x (by rw [hc]; simp [hx]),
      fun e => by rw [huse] at e; simp at e, ?_, h.singlesNil⟩, ?_, ?_, rfl, ⟨b, hb, i, hi, hie.symm⟩,
      LedgerOK.nil rfl⟩
    · have := h.count; rw [hc] at this; simp only [List.length_cons] at this
      show p.allocCount + 1 + cs.length = (p.taken P).length
      omega
    · rw [live_eq hN2, hc]; simp
    · rw [live_eq hN2, live_eq hN2, hc]; exact hflip
  | nil =>
    have hcache : P.useCache = true → p.cache = [] := by
      intro hu; rw [if_pos hu] at hc; exact hc
    have hcnil : p.cache = [] := by
      by_cases hu : P.useCache = true
      · exact hcache hu
      · exact h.cacheOff (by simpa using hu)
    simp only
    rw [if_pos (by omega : P.N > 1)]
    have hnb := newBlock_ok hM hN2 h.core horc
    cases hres : newBlock P p orc with
    | stuck w => rw [hres] at hnb; exact hnb.elim
    | badAlloc p' evs => rw [hres] at hnb; simpa [Outcome.bind] using hnb
    | ok blk p' evs =>
      rw [hres] at hnb
      simp only [Outcome.bind]
      obtain ⟨hc1, ha1, hs1⟩ := hnb.same
      have hlive : p.live P = p.taken P := by rw [live_eq hN2, hcnil]; simp
      refine ⟨⟨hnb.wf.congr rfl rfl rfl, by show p'.cache.Nodup; rw [hc1]; exact h.cacheNodup, ?_, ?_, ?_, by show p'.singles = []; rw [hs1]; exact h.singlesNil⟩,
        by rw [hlive]; exact hnb.fresh, ?_, by show p'.allocCount + 1 = _; rw [ha1], hnb.block,
        by simpa using hnb.ledgerOK⟩
      · intro x hx
        have hx' : x ∈ p'.cache := hx
        rw [hc1, hcnil] at hx'; simp at hx'
      · intro _; show p'.cache = []; rw [hc1]; exact hcnil
      · show p'.allocCount + 1 + p'.cache.length = (takenOf P p'.store).length
        have hl := hnb.perm.length_eq
        have hcnt := h.count
        simp only [Pool.taken_eq] at hl hcnt
        rw [ha1, hc1, hl]; simp only [List.length_cons]; omega
      · have e1 : ({ p' with allocCount := p'.allocCount + 1 } : Pool).live P = p'.taken P := by
          rw [live_eq hN2]; show (p'.taken P).filter (fun x => !p'.cache.contains x) = _
          rw [hc1, hcnil]; simp
        rw [e1, hlive]; exact hnb.perm

/-- what `Deallocate` promises -/
structure DeallocSpec (P : Params) (p p' : Pool) (blk : Int) (evs : List Ev) : Prop where
  wf : PoolWF P p'
  live : (p.live P).Perm (blk :: p'.live P)
  count : p'.allocCount + 1 = p.allocCount
  ledger : LedgerOK P p.store evs p'.store

theorem mem_live {P : Params} (hN2 : 2 ≤ P.N) (p : Pool) (x : Int) :
    x ∈ p.live P ↔ x ∈ p.taken P ∧ x ∉ p.cache := by
  rw [live_eq hN2]; simp [List.mem_filter]

theorem filter_not_mem_nil (l : List Int) : l.filter (fun x => !([] : List Int).contains x) = l := by simp

/-- **`Deallocate` (308-325), `blockCount > 1`**, for a live block of this pool -/
theorem deallocate_ok {P : Params} {k : Int} (hM : Multi P k) (hN2 : 2 ≤ P.N) (hA2 : P.A ≤ 1024) {p : Pool}
    (h : PoolWF P p) (blk : Int) (hblk : blk ∈ p.live P) :
    ∃ p' evs, deallocate P p blk = .ok () p' evs ∧ DeallocSpec P p p' blk evs := by
  have hTnd := h.taken_nodup hM
  obtain ⟨hbT, hbC⟩ := (mem_live hN2 p blk).mp hblk
  have hcnt := h.count_exact hM hN2
  have hpos : p.allocCount ≠ 0 := by
    have : 0 < (p.live P).length := List.length_pos_of_mem hblk
    omega
  unfold deallocate
  rw [if_neg hpos]
  by_cases hu : P.useCache = true
  · rw [if_pos hu]
    by_cases hfl : p.cache.length ≥ P.C
    · -- the cache is full: flush, then cache the block
      rw [if_pos hfl]
      obtain ⟨p1, e1, hf1, hwf1, hperm1, hc1, ha1, hs1, hl1, _⟩ :=
        flushList_ok hM hN2 hA2 p.cache { p with cache := [] } (h.core.congr rfl rfl rfl) h.cacheNodup h.cacheTaken
      have hc1' : p1.cache = [] := hc1
      have ha1' : p1.allocCount = p.allocCount := ha1
      have hperm1' : (p.taken P).Perm (p.cache ++ p1.taken P) := hperm1
      have hnd2 : (p.cache ++ p1.taken P).Nodup := hperm1'.nodup_iff.mp hTnd
      have hb1 : blk ∈ p1.taken P := by
        rcases List.mem_append.mp (hperm1'.subset hbT) with hm | hm
        · exact absurd hm hbC
        · exact hm
      have hT1nd : (p1.taken P).Nodup := (List.nodup_append.mp hnd2).2.1
      -- live p ~ taken p1
      have hlive1 : (p.live P).Perm (p1.taken P) := by
        rw [live_eq hN2]
        refine (hperm1'.filter _).trans ?_
        rw [List.filter_append]
        have e1 : p.cache.filter (fun x => !p.cache.contains x) = [] := by
          rw [List.filter_eq_nil_iff]; intro x hx; simp [hx]
        have e2 : (p1.taken P).filter (fun x => !p.cache.contains x) = p1.taken P := by
          rw [List.filter_eq_self]; intro x hx
          have : x ∉ p.cache := fun hm => (List.nodup_append.mp hnd2).2.2 x hm x hx rfl
          simpa using this
        rw [e1, e2]; simp
      have hflip := filter_not_mem_cons hT1nd blk [] hb1 (by simp)
      rw [filter_not_mem_nil] at hflip
      refine ⟨{ p1 with cache := [blk], allocCount := p1.allocCount - 1 }, e1 ++ [] ++ [], ?_, ⟨?_, ?_, ?_, by simpa using hl1⟩⟩
      · simp only [flush, hf1, Outcome.bind, List.append_nil, hc1']
      · refine ⟨hwf1.congr rfl rfl rfl, by simp, ?_, fun e => by rw [hu] at e; simp at e, ?_, hs1.trans h.singlesNil⟩
        · intro c hc; simp at hc; subst hc; exact hb1
        · show p1.allocCount - 1 + 1 = (p1.taken P).length
          have hl := hperm1'.length_eq
          have hc := h.count
          rw [List.length_append] at hl
          omega
      · have e : ({ p1 with cache := [blk], allocCount := p1.allocCount - 1 } : Pool).live P =
            (p1.taken P).filter (fun x => !([blk] : List Int).contains x) := by rw [live_eq hN2]; rfl
        rw [e]; exact hlive1.trans hflip
      · show p1.allocCount - 1 + 1 = p.allocCount
        omega
    · rw [if_neg hfl]
      have hflip := filter_not_mem_cons hTnd blk p.cache hbT hbC
      refine ⟨{ p with cache := blk :: p.cache, allocCount := p.allocCount - 1 }, [], by simp [Outcome.bind], ⟨?_, ?_, ?_, LedgerOK.nil rfl⟩⟩
      · refine ⟨h.core.congr rfl rfl rfl, List.nodup_cons.mpr ⟨hbC, h.cacheNodup⟩, ?_, fun e => by rw [hu] at e; simp at e, ?_, h.singlesNil⟩
        · intro c hc
          rcases List.mem_cons.mp hc with rfl | hc
          · exact hbT
          · exact h.cacheTaken c hc
        · show p.allocCount - 1 + (blk :: p.cache).length = (p.taken P).length
          have := h.count; simp only [List.length_cons]; omega
      · rw [live_eq hN2, live_eq hN2]; exact hflip
      · show p.allocCount - 1 + 1 = p.allocCount; omega
  · rw [if_neg hu]
    have hcnil : p.cache = [] := h.cacheOff (by simpa using hu)
    obtain ⟨p1, e1, hd1, hs1⟩ := deleteBlockN_ok hM hN2 hA2 h.core blk hbT
    obtain ⟨hc1, ha1, hsg1⟩ := hs1.same
    refine ⟨{ p1 with allocCount := p1.allocCount - 1 }, e1 ++ [], ?_, ⟨?_, ?_, ?_, by simpa using hs1.ledgerOK⟩⟩
    · simp only [deleteBlock_eq_N hN2, hd1, Outcome.bind]
    · refine ⟨hs1.wf.congr rfl rfl rfl, by show p1.cache.Nodup; rw [hc1]; exact h.cacheNodup, ?_, ?_, ?_, hsg1.trans h.singlesNil⟩
      · intro c hc; have hc' : c ∈ p1.cache := hc; rw [hc1, hcnil] at hc'; simp at hc'
      · intro _; show p1.cache = []; rw [hc1]; exact hcnil
      · show p1.allocCount - 1 + p1.cache.length = (p1.taken P).length
        have hl := hs1.perm.length_eq
        have hc := h.count
        rw [hc1, ha1, hcnil]; rw [hcnil] at hc; simp only [List.length_cons, List.length_nil] at hl hc ⊢
        omega
    · have e1 : p.live P = p.taken P := by rw [live_eq hN2, hcnil]; simp
      have e2 : ({ p1 with allocCount := p1.allocCount - 1 } : Pool).live P = p1.taken P := by
        rw [live_eq hN2]; show (p1.taken P).filter (fun x => !p1.cache.contains x) = _
        rw [hc1, hcnil]; simp
      rw [e1, e2]; exact hs1.perm
    · show p1.allocCount - 1 + 1 = p.allocCount; rw [ha1]; omega

theorem Legal.multi {P : Params} (hL : P.Legal) (hN2 : 2 ≤ P.N) : Multi P (P.S / P.A) ∧ P.A ≤ 1024 := by
  obtain ⟨h1, h2, h3, h4, h5, h6⟩ := hL
  simp only [Extracted.poolMaxBlockAlignment, Extracted.poolMinSizeRatio] at h4 h6
  rcases h6 with h6 | ⟨h6, h7⟩
  · omega
  · refine ⟨⟨h3, by omega, by omega, ?_⟩, by omega⟩
    have := Int.emod_add_mul_ediv P.S P.A
    omega

/-- a buffer pointer lies inside the memory of its buffer -/
theorem BufWF.buf_inside {P : Params} {k : Int} (hM : Multi P k) (hA2 : P.A ≤ 1024) {b : Buffer} (h : BufWF P b) :
    b.base ≤ b.buf ∧ b.buf < b.base + P.bufferSize := by
  obtain ⟨h1, h2, _⟩ := hM.newBuffer_inside b.base hA2 h.aligned
  obtain ⟨_, f1, f2⟩ := h.ok hM
  rw [← h.layout.1, ← h.layout.2.1] at h1 h2
  have hS := hM.S_pos; have hA := hM.hA
  have hE := hM.blocksEnd_ge b.buf b.first f1
  have m : b.first * P.S ≤ 0 * P.S := Int.mul_le_mul_of_nonneg_right f2 (by omega)
  simp only [metaEnd, beginOffPos, nextPos, prevPos, sizeofPtr, sizeofU16, sizeofBufferBytes] at h2
  constructor
  · omega
  · split at h2 <;> omega

/-- the memory manager's contract in its usual form - the new memory is aligned as the pool assumes and
    overlaps none of the buffers the pool holds - implies `OrcOK` -/
theorem orcOK_of_disjoint {P : Params} {k : Int} (hM : Multi P k) (hA2 : P.A ≤ 1024) {p : Pool} (h : CoreWF P p)
    (orc : Oracle)
    (hc : ∀ j base, orc j = some base → P.allocAlign ∣ base ∧
       ∀ b ∈ p.store, base + P.bufferSize ≤ b.base ∨ b.base + P.bufferSize ≤ base) :
    OrcOK P p orc := by
  intro j base hj
  obtain ⟨hal, hdis⟩ := hc j base hj
  refine ⟨hal, ?_⟩
  intro hm
  obtain ⟨b, hb, hbe⟩ := List.mem_map.mp hm
  obtain ⟨hwf, _, _⟩ := fresh_wf hM base hal
  have h1 := (h.bufwf b hb).buf_inside hM hA2
  have h2 := hwf.buf_inside hM hA2
  have h3 : (Buffer.fresh P base).base = base := rfl
  rw [h3] at h2
  rcases hdis b hb with hd | hd <;> omega

theorem PoolWF.empty (P : Params) : PoolWF P Pool.empty := by
  refine ⟨⟨?_, ?_, ?_, ?_, ?_, ?_⟩, ?_, ?_, ?_, ?_, ?_⟩ <;> simp [Pool.empty, bufs, Pool.taken]

end Momo.Pool
