import Momo.Proof.PoolAllocInv
/-!
  C20, layer A: under the invariant a `deallocate` can only go wrong when a single object was served
  from the memory manager earlier (`rawSingle`); one value-type class per pool excludes that.
-/
namespace Momo.PoolAlloc

theorem fail_err (s : Sys) (e : Err) : (s.fail e).err = some e := rfl
theorem fail_rawSingle (s : Sys) (e : Err) : (s.fail e).rawSingle = s.rawSingle := rfl

theorem doCopy_rawSingle (s : Sys) (p : Nat) : (doCopy s p).rawSingle = s.rawSingle := by
  unfold doCopy; split <;> rfl

theorem doDrop_rawSingle (s : Sys) (p : Nat) : (doDrop s p).rawSingle = s.rawSingle := by
  unfold doDrop
  split
  · rfl
  · split
    · rfl
    · split
      · rfl
      · split <;> rfl

theorem doDealloc_rawSingle (s : Sys) (p : Nat) (cls : Cls) (n id : Nat) (frees : List Nat) :
    (doDealloc s p cls n id frees).rawSingle = s.rawSingle := by
  unfold doDealloc
  split
  · rfl
  · split
    · rfl
    · split
      · rfl
      · split
        · split <;> rfl
        · split <;> rfl

theorem doAlloc_rawSingle (s : Sys) (p : Nat) (cls : Cls) (n id : Nat) (mallocs : List Nat)
    (h : (doAlloc s p cls n id mallocs).rawSingle = false) : s.rawSingle = false := by
  unfold doAlloc at h
  split at h
  · exact h
  · split at h
    · exact h
    · split at h
      · exact h
      · simp only [Bool.or_eq_false_iff] at h; exact h.1

/-- the ghost flag is never reset -/
theorem step_rawSingle_mono (s : Sys) (op : Op) (h : (step s op).rawSingle = false) : s.rawSingle = false := by
  by_cases he : s.err.isSome = true
  · simpa [step, he] using h
  · cases op with
    | anew cls cb => simpa [step, he, doNew] using h
    | acopy p => simp only [step, he] at h; rw [← doCopy_rawSingle s p]; exact h
    | adrop p => simp only [step, he] at h; rw [← doDrop_rawSingle s p]; exact h
    | alloc p cls n id mallocs => simp only [step, he] at h; exact doAlloc_rawSingle s p cls n id mallocs h
    | dealloc p cls n id frees => simp only [step, he] at h; rw [← doDealloc_rawSingle s p cls n id frees]; exact h
    | bad => simpa [step, he, Sys.fail] using h

theorem run_rawSingle_mono (s : Sys) (ops : List Op) (h : (run s ops).rawSingle = false) : s.rawSingle = false := by
  induction ops generalizing s with
  | nil => exact h
  | cons op ops ih => exact step_rawSingle_mono s op (ih (step s op) h)

/-- one step from a state satisfying the invariant: without a raw single the only possible error is a
    violated precondition of the call -/
theorem step_err {s : Sys} (hi : Inv s) (h0 : s.err = none) (op : Op)
    (hrs : (step s op).rawSingle = false) :
    (step s op).err = none ∨ (step s op).err = some .illegal := by
  have hrs0 := step_rawSingle_mono s op hrs
  unfold step
  simp only [h0, Option.isSome_none, Bool.false_eq_true, if_false]
  cases op with
  | anew cls cb => left; exact h0
  | acopy p =>
    simp only [doCopy]
    split
    · right; rfl
    · left; exact h0
  | bad => right; rfl
  | adrop p =>
    simp only [doDrop]
    cases hl : livePool s p with
    | none => right; rfl
    | some st =>
      obtain ⟨hst, _⟩ := livePool_eq_some.mp hl
      simp only
      split
      · left; exact h0
      · split
        · right; rfl
        · rename_i hany
          split
          · rename_i hc
            exfalso
            apply hc
            rw [hi.count p st hst]
            apply List.countP_eq_zero.mpr
            intro b hb hbp
            apply hany
            simp only [List.any_eq_true]
            simp only [isPoolBlk, Bool.and_eq_true, beq_iff_eq] at hbp
            exact ⟨b, hb, by simp [hbp.1]⟩
          · left; exact h0
  | alloc p cls n id mallocs =>
    simp only [doAlloc]
    split
    · right; rfl
    · split
      · right; rfl
      · split <;> (left; exact h0)
  | dealloc p cls n id frees =>
    simp only [doDealloc]
    cases hl : livePool s p with
    | none => right; rfl
    | some st =>
      obtain ⟨hst, _⟩ := livePool_eq_some.mp hl
      simp only
      cases hf : s.blocks.find? (fun b => b.id == id) with
      | none => right; rfl
      | some b =>
        obtain ⟨hbm, hbid⟩ := find_id_mem hf
        simp only
        by_cases hill : b.pid ≠ p ∨ b.cls ≠ cls ∨ b.n ≠ n
        · rw [if_pos hill]; right; rfl
        · rw [if_neg hill]
          have hbp : b.pid = p := Decidable.byContradiction fun h => hill (Or.inl h)
          have hbc : b.cls = cls := Decidable.byContradiction fun h => hill (Or.inr (Or.inl h))
          have hbn : b.n = n := Decidable.byContradiction fun h => hill (Or.inr (Or.inr h))
          by_cases hpath : n = 1 ∧ cls = st.params
          · rw [if_pos hpath]
            cases hpr : b.prov with
            | pool q => left; exact h0
            | raw =>
              exfalso
              exact hi.rawN hrs0 b hbm hpr (hbn.trans hpath.1)
          · rw [if_neg hpath]
            cases hpr : b.prov with
            | raw => left; exact h0
            | pool q =>
              exfalso
              obtain ⟨⟨a, ha, hap⟩, hcq, hn1⟩ := hi.poolBlk b hbm q hpr
              rw [hbp, hst] at ha
              have : a = st := (Option.some.inj ha).symm
              subst this
              apply hpath
              exact ⟨hbn ▸ hn1, by rw [← hbc, hcq, hap]⟩

/-- **every history**: as long as no single object was served from the memory manager, the machine
    never records a provenance error, and the invariant holds while it runs -/
theorem run_err {s : Sys} (hi : Inv s) (h0 : s.err = none) (ops : List Op)
    (hrs : (run s ops).rawSingle = false) :
    ((run s ops).err = none ∧ Inv (run s ops)) ∨ (run s ops).err = some .illegal := by
  induction ops generalizing s with
  | nil => left; exact ⟨h0, hi⟩
  | cons op ops ih =>
    rw [run_cons] at hrs ⊢
    cases he : (step s op).err with
    | none => exact ih (step_inv hi op he) he hrs
    | some e =>
      rw [run_of_err he] at hrs ⊢
      right
      rcases step_err hi h0 op hrs with h | h
      · rw [h] at he; cases he
      · exact h

/-! ### one value-type class per pool -/

/-- the condition of `OneTypePerPool` for one operation -/
def opOk (κ : Nat → Cls) : Op → Prop
  | .alloc p cls 1 _ _ => cls = κ p
  | .dealloc p cls 1 _ _ => cls = κ p
  | _ => True

theorem oneType_cons {κ : Nat → Cls} {op : Op} {ops : List Op} (h : OneTypePerPool κ (op :: ops)) :
    opOk κ op ∧ OneTypePerPool κ ops := by
  constructor
  · have := h op List.mem_cons_self
    cases op <;> first | exact this | trivial
  · intro o ho; exact h o (List.mem_cons_of_mem _ ho)

/-- a busy pool has the parameters of its one type -/
def K (κ : Nat → Cls) (s : Sys) : Prop :=
  ∀ (p : Nat) (st : PoolSt), s.pools[p]? = some st → st.allocCount ≠ 0 → st.params = κ p

theorem K_set {κ : Nat → Cls} {s : Sys} (hK : K κ s) {q : Nat} {st0 st' : PoolSt} (hst0 : s.pools[q]? = some st0)
    (hp : st'.params = st0.params) (hc : st'.allocCount ≠ 0 → st0.allocCount ≠ 0) {s' : Sys}
    (hs' : s'.pools = s.pools.set q st') : K κ s' := by
  intro p st hst hne
  rw [hs'] at hst
  rcases getElem?_set_cases hst with ⟨rfl, rfl, _⟩ | ⟨_, h⟩
  · rw [hp]; exact hK _ st0 hst0 (hc hne)
  · exact hK p st h hne

theorem K_same {κ : Nat → Cls} {s s' : Sys} (hK : K κ s) (hs' : s'.pools = s.pools) : K κ s' := by
  intro p st hst hne; rw [hs'] at hst; exact hK p st hst hne

theorem step_K {κ : Nat → Cls} {s : Sys} (hK : K κ s) (op : Op) (hop : opOk κ op) :
    K κ (step s op) ∧ (s.rawSingle = false → (step s op).rawSingle = false) := by
  by_cases he : s.err.isSome = true
  · simp only [step, he, if_true]; exact ⟨hK, fun h => h⟩
  · cases op with
    | bad =>
      have hs : step s .bad = s.fail .illegal := by simp [step, he]
      rw [hs]; exact ⟨hK, fun h => h⟩
    | anew cls cb =>
      have hs : step s (.anew cls cb) = doNew s cls cb := by simp [step, he]
      rw [hs]
      simp only [doNew]
      refine ⟨?_, fun h => h⟩
      intro p st hst hne
      rcases getElem?_snoc hst with h | ⟨_, rfl⟩
      · exact hK p st h hne
      · exact absurd rfl hne
    | acopy q =>
      have hs : step s (.acopy q) = doCopy s q := by simp [step, he]
      rw [hs]
      refine ⟨?_, fun h => by rw [doCopy_rawSingle]; exact h⟩
      unfold doCopy
      cases hl : livePool s q with
      | none => exact hK
      | some st0 =>
        obtain ⟨hst0, _⟩ := livePool_eq_some.mp hl
        exact K_set hK hst0 (st' := { st0 with refs := st0.refs + 1 }) rfl (fun h => h) rfl
    | adrop q =>
      have hs : step s (.adrop q) = doDrop s q := by simp [step, he]
      rw [hs]
      refine ⟨?_, fun h => by rw [doDrop_rawSingle]; exact h⟩
      unfold doDrop
      cases hl : livePool s q with
      | none => exact hK
      | some st0 =>
        obtain ⟨hst0, _⟩ := livePool_eq_some.mp hl
        simp only
        by_cases h2 : 2 ≤ st0.refs
        · rw [if_pos h2]
          exact K_set hK hst0 (st' := { st0 with refs := st0.refs - 1 }) rfl (fun h => h) rfl
        · rw [if_neg h2]
          by_cases hb : (s.blocks.any fun b => b.pid == q) = true
          · rw [if_pos hb]; exact hK
          · rw [if_neg hb]
            by_cases hc : st0.allocCount ≠ 0
            · rw [if_pos hc]; exact hK
            · rw [if_neg hc]
              exact K_set hK hst0 (st' := { st0 with refs := 0, dead := true }) rfl (fun h => h) rfl
    | dealloc q cls n id frees =>
      have hs : step s (.dealloc q cls n id frees) = doDealloc s q cls n id frees := by simp [step, he]
      rw [hs]
      refine ⟨?_, fun h => by rw [doDealloc_rawSingle]; exact h⟩
      unfold doDealloc
      cases hl : livePool s q with
      | none => exact hK
      | some st0 =>
        obtain ⟨hst0, _⟩ := livePool_eq_some.mp hl
        simp only
        cases hf : s.blocks.find? (fun b => b.id == id) with
        | none => exact hK
        | some b =>
          simp only
          by_cases hill : b.pid ≠ q ∨ b.cls ≠ cls ∨ b.n ≠ n
          · rw [if_pos hill]; exact hK
          · rw [if_neg hill]
            by_cases hpath : n = 1 ∧ cls = st0.params
            · rw [if_pos hpath]
              cases hpr : b.prov with
              | raw => exact hK
              | pool q' =>
                refine K_set hK hst0 (st' := { st0 with allocCount := st0.allocCount - 1 }) rfl ?_ rfl
                intro h; simp only at h; omega
            · rw [if_neg hpath]
              cases hpr : b.prov with
              | raw => exact K_same hK rfl
              | pool q' => exact hK
    | alloc q cls n id mallocs =>
      have hs : step s (.alloc q cls n id mallocs) = doAlloc s q cls n id mallocs := by simp [step, he]
      rw [hs]
      unfold doAlloc
      cases hl : livePool s q with
      | none => exact ⟨hK, fun h => h⟩
      | some st0 =>
        obtain ⟨hst0, _⟩ := livePool_eq_some.mp hl
        simp only
        by_cases hill : n = 0 ∨ (s.blocks.any fun b => b.id == id) = true
        · rw [if_pos hill]; exact ⟨hK, fun h => h⟩
        · rw [if_neg hill]
          by_cases hpath : n = 1 ∧ (cls = st0.params ∨ st0.allocCount = 0)
          · rw [if_pos hpath]
            refine ⟨?_, fun h => h⟩
            intro p st hst hne
            rcases getElem?_set_cases hst with ⟨rfl, rfl, _⟩ | ⟨_, h⟩
            · obtain ⟨rfl, _⟩ := hpath
              exact hop
            · exact hK p st h hne
          · rw [if_neg hpath]
            refine ⟨K_same hK rfl, ?_⟩
            intro hrs
            simp only [hrs, Bool.false_or, beq_eq_false_iff_ne]
            intro hn1
            subst hn1
            apply hpath
            refine ⟨rfl, ?_⟩
            by_cases hz : st0.allocCount = 0
            · exact Or.inr hz
            · left; rw [hK q st0 hst0 hz]; exact hop

/-- with one value-type class per pool no single object is ever served from the memory manager -/
theorem run_oneType {κ : Nat → Cls} {s : Sys} (hK : K κ s) (hrs : s.rawSingle = false) (ops : List Op)
    (h1 : OneTypePerPool κ ops) : (run s ops).rawSingle = false := by
  induction ops generalizing s with
  | nil => exact hrs
  | cons op ops ih =>
    obtain ⟨hop, hrest⟩ := oneType_cons h1
    obtain ⟨hK', hrs'⟩ := step_K hK op hop
    rw [run_cons]
    exact ih hK' (hrs' hrs) hrest

theorem K_init (κ : Nat → Cls) : K κ Sys.init := by
  intro p st h; simp [Sys.init] at h

end Momo.PoolAlloc
