import Momo.Model.HTLedger
import Momo.Proof.Ledger
import Mathlib.Data.List.Perm.Basic
import Mathlib.Data.List.Nodup
/-!
  C03 / C04 for the hash family, part 1: the algebra of the ledger.

  `Led w B E` — the verified monitor `Ledger.run` has accepted every event the world `w` has emitted so far, and what it
  holds is exactly: the blocks `B` (id, manager class, size) and the element objects `E`; all ids are below the world's
  serial numbers (so the next ids are fresh) and occur once. Each primitive of the model (`allocB`, `freeB`, `ctorE`,
  `dtorE`, `useE`, `copyE`, `relocE`, `replaceE`) transforms `Led` in the obvious way; the operations of the model are
  sequences of primitives.
-/
namespace Momo.HTL
open Momo Momo.HT Momo.Ledger

abbrev Blk := Nat × Nat × Nat

/-- what the monitor state holds -/
def Holds (s : Ledger.St Nat) (B : List Blk) (E : List Nat) : Prop :=
  (∀ b m n, findB b s.blocks = some (m, n) ↔ (b, m, n) ∈ B) ∧ (∀ e, memE e s.elems = true ↔ e ∈ E)

structure Led (w : W) (B : List Blk) (E : List Nat) : Prop where
  acc : ∃ s, Ledger.run Ledger.St.init w.evs = some s ∧ Holds s B E
  freshB : ∀ x ∈ B, x.1 < w.nextB
  freshE : ∀ e ∈ E, e < w.nextE
  ndB : (B.map (·.1)).Nodup
  ndE : E.Nodup

theorem Holds.perm {s : Ledger.St Nat} {B B' : List Blk} {E E' : List Nat} (h : Holds s B E) (hB : B.Perm B')
    (hE : E.Perm E') : Holds s B' E' :=
  ⟨fun b m n => (h.1 b m n).trans hB.mem_iff, fun e => (h.2 e).trans hE.mem_iff⟩

theorem Led.perm {w : W} {B B' : List Blk} {E E' : List Nat} (h : Led w B E) (hB : B.Perm B') (hE : E.Perm E') :
    Led w B' E' := by
  obtain ⟨s, hr, hh⟩ := h.acc
  exact ⟨⟨s, hr, hh.perm hB hE⟩, fun x hx => h.freshB x (hB.mem_iff.mpr hx), fun e he => h.freshE e (hE.mem_iff.mpr he),
    ((hB.map _).nodup_iff).mp h.ndB, (hE.nodup_iff).mp h.ndE⟩

theorem Led.init : Led ({} : W) [] [] :=
  ⟨⟨Ledger.St.init, rfl, by constructor <;> intros <;> simp [Ledger.St.init, findB, memE]⟩,
    by simp, by simp, by simp, by simp⟩

/-- one more event: the monitor's verdict so far, then one step -/
theorem run_emit {evs : List LEv} {s s1 : Ledger.St Nat} {ev : LEv} (h : Ledger.run Ledger.St.init evs = some s)
    (hs : Ledger.step s ev = .ok s1) : Ledger.run Ledger.St.init (evs ++ [ev]) = some s1 :=
  run_snoc.mpr ⟨s, h, hs⟩

theorem findB_fresh {s : Ledger.St Nat} {B : List Blk} {E : List Nat} (h : Holds s B E) {b : Nat}
    (hb : ∀ x ∈ B, x.1 ≠ b) : findB b s.blocks = none := by
  cases hf : findB b s.blocks with
  | none => rfl
  | some p =>
    obtain ⟨m, n⟩ := p
    exact absurd rfl (hb _ ((h.1 b m n).mp hf))

theorem memE_fresh {s : Ledger.St Nat} {B : List Blk} {E : List Nat} (h : Holds s B E) {e : Nat} (he : e ∉ E) :
    memE e s.elems = false := by
  cases hm : memE e s.elems with
  | false => rfl
  | true => exact absurd ((h.2 e).mp hm) he

/-! ### the monitor's steps on `Holds` -/

theorem holds_alloc {s : Ledger.St Nat} {B : List Blk} {E : List Nat} (h : Holds s B E) (b m n : Nat)
    (hb : ∀ x ∈ B, x.1 ≠ b) :
    ∃ s1, Ledger.step s (.alloc m b n) = .ok s1 ∧ Holds s1 ((b, m, n) :: B) E := by
  refine ⟨{ s with blocks := (b, m, n) :: s.blocks }, ?_, ?_, h.2⟩
  · simp only [Ledger.step, findB_fresh h hb]
  · intro b' m' n'
    simp only [findB, List.mem_cons, Prod.mk.injEq]
    by_cases hbb : b = b'
    · subst hbb
      simp only [if_true, Option.some.injEq, Prod.mk.injEq, true_and]
      constructor
      · rintro ⟨rfl, rfl⟩; exact Or.inl ⟨rfl, rfl⟩
      · rintro (⟨rfl, rfl⟩ | hm)
        · exact ⟨rfl, rfl⟩
        · exact absurd rfl (hb _ hm)
    · simp only [hbb, if_false]
      rw [h.1 b' m' n']
      constructor
      · exact Or.inr
      · rintro (⟨rfl, _⟩ | hm)
        · exact absurd rfl hbb
        · exact hm

theorem holds_free {s : Ledger.St Nat} {B : List Blk} {E : List Nat} (b m n : Nat) (h : Holds s ((b, m, n) :: B) E)
    (hnd : (((b, m, n) :: B).map (·.1)).Nodup) :
    ∃ s1, Ledger.step s (.dealloc m b n) = .ok s1 ∧ Holds s1 B E := by
  have hf : findB b s.blocks = some (m, n) := (h.1 b m n).mpr (by simp)
  refine ⟨{ s with blocks := eraseB b s.blocks }, ?_, ?_, h.2⟩
  · simp [Ledger.step, hf]
  · intro b' m' n'
    simp only [findB_eraseB]
    simp only [List.map_cons, List.nodup_cons, List.mem_map, not_exists, not_and] at hnd
    by_cases hbb : b = b'
    · subst hbb
      simp only [if_true]
      constructor
      · intro hc; cases hc
      · intro hm; exact absurd rfl (hnd.1 _ hm)
    · simp only [hbb, if_false]
      rw [h.1 b' m' n']
      simp only [List.mem_cons, Prod.mk.injEq]
      constructor
      · rintro (⟨rfl, _⟩ | hm)
        · exact absurd rfl hbb
        · exact hm
      · exact Or.inr

theorem holds_ctor {s : Ledger.St Nat} {B : List Blk} {E : List Nat} (h : Holds s B E) (e : Nat) (he : e ∉ E) :
    ∃ s1, Ledger.step s (.construct e) = .ok s1 ∧ Holds s1 B (e :: E) := by
  refine ⟨{ s with elems := e :: s.elems }, ?_, h.1, ?_⟩
  · simp [Ledger.step, memE_fresh h he]
  · intro e'
    simp only [memE, List.mem_cons]
    by_cases hee : e = e'
    · subst hee; simp
    · simp only [hee, if_false]
      rw [h.2 e']
      constructor
      · exact Or.inr
      · rintro (rfl | hm)
        · exact absurd rfl hee
        · exact hm

theorem holds_dtor {s : Ledger.St Nat} {B : List Blk} {E : List Nat} (e : Nat) (h : Holds s B (e :: E))
    (hnd : (e :: E).Nodup) :
    ∃ s1, Ledger.step s (.destroy e) = .ok s1 ∧ Holds s1 B E := by
  have hm : memE e s.elems = true := (h.2 e).mpr (by simp)
  refine ⟨{ s with elems := eraseE e s.elems }, ?_, h.1, ?_⟩
  · simp [Ledger.step, hm]
  · intro e'
    simp only [memE_eraseE]
    simp only [List.nodup_cons] at hnd
    by_cases hee : e = e'
    · subst hee
      simp only [if_true]
      constructor
      · intro hc; cases hc
      · intro hm'; exact absurd hm' hnd.1
    · simp only [hee, if_false]
      rw [h.2 e']
      simp only [List.mem_cons]
      constructor
      · rintro (rfl | hm')
        · exact absurd rfl hee
        · exact hm'
      · exact Or.inr

theorem holds_use {s : Ledger.St Nat} {B : List Blk} {E : List Nat} (h : Holds s B E) (e : Nat) (he : e ∈ E) :
    Ledger.step s (.use e) = .ok s := by
  simp [Ledger.step, (h.2 e).mpr he]

theorem holds_reloc {s : Ledger.St Nat} {B : List Blk} {E : List Nat} (a d : Nat) (h : Holds s B (a :: E))
    (hnd : (a :: E).Nodup) (hd : d ∉ a :: E) :
    ∃ s1, Ledger.step s (.relocate a d) = .ok s1 ∧ Holds s1 B (d :: E) := by
  have hma : memE a s.elems = true := (h.2 a).mpr (by simp)
  have hmd : memE d s.elems = false := memE_fresh h hd
  have hne : a ≠ d := by intro hc; subst hc; exact hd (by simp)
  refine ⟨{ s with elems := d :: eraseE a s.elems }, ?_, h.1, ?_⟩
  · simp [Ledger.step, hne, hma, hmd]
  · intro e'
    simp only [memE, memE_eraseE, List.mem_cons]
    simp only [List.nodup_cons] at hnd
    by_cases hde : d = e'
    · subst hde; simp
    · have hde' : ¬ e' = d := fun hc => hde hc.symm
      simp only [hde, if_false, hde', false_or]
      by_cases hae : a = e'
      · subst hae
        simp only [if_true]
        constructor
        · intro hc; cases hc
        · intro hm'; exact absurd hm' hnd.1
      · simp only [hae, if_false]
        rw [h.2 e']
        simp only [List.mem_cons]
        constructor
        · rintro (rfl | hm')
          · exact absurd rfl hae
          · exact hm'
        · exact Or.inr

/-! ### the primitives of the model on `Led` -/

theorem Led.alloc {w : W} {B : List Blk} {E : List Nat} (h : Led w B E) (m n : Nat) :
    Led (w.allocB m n).2 ((w.nextB, m, n) :: B) E ∧ (w.allocB m n).1 = w.nextB := by
  obtain ⟨s, hr, hh⟩ := h.acc
  have hb : ∀ x ∈ B, x.1 ≠ w.nextB := fun x hx => Nat.ne_of_lt (h.freshB x hx)
  obtain ⟨s1, hs, hh1⟩ := holds_alloc hh w.nextB m n hb
  refine ⟨⟨⟨s1, run_emit hr hs, hh1⟩, ?_, h.freshE, ?_, h.ndE⟩, rfl⟩
  · intro x hx
    simp only [W.allocB]
    rcases List.mem_cons.mp hx with rfl | hx
    · exact Nat.lt_succ_self _
    · exact Nat.lt_succ_of_lt (h.freshB x hx)
  · simp only [List.map_cons, List.nodup_cons, List.mem_map, not_exists, not_and]
    exact ⟨fun x hx hc => hb x hx hc, h.ndB⟩

theorem Led.free {w : W} {B : List Blk} {E : List Nat} {b m n : Nat} (h : Led w ((b, m, n) :: B) E) :
    Led (w.freeB m b n) B E := by
  obtain ⟨s, hr, hh⟩ := h.acc
  obtain ⟨s1, hs, hh1⟩ := holds_free b m n hh h.ndB
  exact ⟨⟨s1, run_emit hr hs, hh1⟩, fun x hx => h.freshB x (List.mem_cons_of_mem _ hx), h.freshE,
    (List.nodup_cons.mp h.ndB).2, h.ndE⟩

theorem Led.ctor {w : W} {B : List Blk} {E : List Nat} (h : Led w B E) :
    Led w.ctorE.2 B (w.nextE :: E) ∧ w.ctorE.1 = w.nextE := by
  obtain ⟨s, hr, hh⟩ := h.acc
  have he : w.nextE ∉ E := fun hc => Nat.lt_irrefl _ (h.freshE _ hc)
  obtain ⟨s1, hs, hh1⟩ := holds_ctor hh w.nextE he
  refine ⟨⟨⟨s1, run_emit hr hs, hh1⟩, h.freshB, ?_, h.ndB, List.nodup_cons.mpr ⟨he, h.ndE⟩⟩, rfl⟩
  intro e hx
  simp only [W.ctorE]
  rcases List.mem_cons.mp hx with rfl | hx
  · exact Nat.lt_succ_self _
  · exact Nat.lt_succ_of_lt (h.freshE e hx)

theorem Led.dtor {w : W} {B : List Blk} {E : List Nat} {e : Nat} (h : Led w B (e :: E)) : Led (w.dtorE e) B E := by
  obtain ⟨s, hr, hh⟩ := h.acc
  obtain ⟨s1, hs, hh1⟩ := holds_dtor e hh h.ndE
  exact ⟨⟨s1, run_emit hr hs, hh1⟩, h.freshB, fun x hx => h.freshE x (List.mem_cons_of_mem _ hx), h.ndB,
    (List.nodup_cons.mp h.ndE).2⟩

theorem Led.use {w : W} {B : List Blk} {E : List Nat} {e : Nat} (h : Led w B E) (he : e ∈ E) : Led (w.useE e) B E := by
  obtain ⟨s, hr, hh⟩ := h.acc
  exact ⟨⟨s, run_emit hr (holds_use hh e he), hh⟩, h.freshB, h.freshE, h.ndB, h.ndE⟩

theorem Led.copy {w : W} {B : List Blk} {E : List Nat} {src : Nat} (h : Led w B E) (hs : src ∈ E) :
    Led (w.copyE src).2 B (w.nextE :: E) ∧ (w.copyE src).1 = w.nextE := by
  have h1 := h.use hs
  have h2 := (h1.ctor (w := w.useE src)).1
  have : (w.copyE src).2 = (w.useE src).ctorE.2 := by simp [W.copyE, W.useE, W.ctorE]
  rw [this]
  exact ⟨h2, rfl⟩

theorem Led.reloc {w : W} {B : List Blk} {E : List Nat} {e : Nat} (c : Obj.Cat) (h : Led w B (e :: E)) :
    Led (w.relocE c e).2 B (w.nextE :: E) ∧ (w.relocE c e).1 = w.nextE := by
  have hfr : w.nextE ∉ e :: E := fun hc => Nat.lt_irrefl _ (h.freshE _ hc)
  have hfrE : w.nextE ∉ E := fun hc => hfr (List.mem_cons_of_mem _ hc)
  have hfresh' : ∀ x ∈ w.nextE :: E, x < w.nextE + 1 := by
    intro x hx
    rcases List.mem_cons.mp hx with rfl | hx
    · exact Nat.lt_succ_self _
    · exact Nat.lt_succ_of_lt (h.freshE x (List.mem_cons_of_mem _ hx))
  cases c with
  | triv =>
    obtain ⟨s, hr, hh⟩ := h.acc
    obtain ⟨s1, hs, hh1⟩ := holds_reloc e w.nextE hh h.ndE hfr
    exact ⟨⟨⟨s1, run_emit hr hs, hh1⟩, h.freshB, hfresh', h.ndB,
      List.nodup_cons.mpr ⟨hfrE, (List.nodup_cons.mp h.ndE).2⟩⟩, rfl⟩
  | nmove =>
    have h1 := (h.copy (src := e) (by simp)).1
    have h2 : Led (w.copyE e).2 B (e :: w.nextE :: E) := h1.perm (List.Perm.refl _) (List.Perm.swap _ _ _)
    have h3 := h2.dtor
    have : (w.relocE .nmove e).2 = (w.copyE e).2.dtorE e := by simp [W.relocE, W.copyE, W.dtorE]
    rw [this]; exact ⟨h3, rfl⟩
  | copyOnly =>
    have h1 := (h.copy (src := e) (by simp)).1
    have h2 : Led (w.copyE e).2 B (e :: w.nextE :: E) := h1.perm (List.Perm.refl _) (List.Perm.swap _ _ _)
    have h3 := h2.dtor
    have : (w.relocE .copyOnly e).2 = (w.copyE e).2.dtorE e := by simp [W.relocE, W.copyE, W.dtorE]
    rw [this]; exact ⟨h3, rfl⟩

/-- `Replace(src, dst)`: both alive (possibly the same object); afterwards `src` is gone -/
theorem Led.replace {w : W} {B : List Blk} {E : List Nat} {s d : Nat} (h : Led w B (s :: E)) (hd : d ∈ s :: E) :
    Led (w.replaceE s d) B E := by
  have h1 := h.use (e := s) (by simp)
  have h2 := h1.use hd
  have h3 := h2.dtor
  have : w.replaceE s d = ((w.useE s).useE d).dtorE s := by simp [W.replaceE, W.useE, W.dtorE]
  rw [this]; exact h3

/-! ### the books -/

theorem lookE_split {els : Els} {k e : Nat} (h : lookE els k = some e) :
    ∃ l1 l2, els = l1 ++ (k, e) :: l2 ∧ (∀ e', setE els k e' = l1 ++ (k, e') :: l2) ∧ dropE els k = l1 ++ l2 ∧
      lookE l1 k = none := by
  induction els with
  | nil => simp [lookE] at h
  | cons p r ih =>
    obtain ⟨k', e0⟩ := p
    by_cases hk : k' = k
    · subst hk
      simp only [lookE, if_true, Option.some.injEq] at h
      subst h
      exact ⟨[], r, rfl, fun e' => by simp [setE], by simp [dropE], rfl⟩
    · simp only [lookE, hk, if_false] at h
      obtain ⟨l1, l2, h1, h2, h3, h4⟩ := ih h
      refine ⟨(k', e0) :: l1, l2, by rw [h1]; rfl, fun e' => ?_, ?_, ?_⟩
      · simp only [setE, hk, if_false, h2 e']; rfl
      · simp only [dropE, hk, if_false, h3]; rfl
      · simp only [lookE, hk, if_false, h4]

theorem lookE_mem {els : Els} {k e : Nat} (h : lookE els k = some e) : (k, e) ∈ els := by
  obtain ⟨l1, l2, h1, _⟩ := lookE_split h
  rw [h1]; simp

theorem lookE_none_iff {els : Els} {k : Nat} : lookE els k = none ↔ k ∉ els.map Prod.fst := by
  induction els with
  | nil => simp [lookE]
  | cons p r ih =>
    obtain ⟨k', e0⟩ := p
    by_cases hk : k' = k
    · subst hk; simp [lookE]
    · simp only [lookE, hk, if_false, ih, List.map_cons, List.mem_cons]
      constructor
      · intro h1 h2; rcases h2 with h2 | h2
        · exact hk h2.symm
        · exact h1 h2
      · intro h1 h2; exact h1 (Or.inr h2)

theorem lookE_isSome_of_mem {els : Els} {k : Nat} (h : k ∈ els.map Prod.fst) : ∃ e, lookE els k = some e := by
  cases hl : lookE els k with
  | none => exact absurd h (lookE_none_iff.mp hl)
  | some e => exact ⟨e, rfl⟩

/-- `l1 ++ x :: l2` with the middle element in front -/
theorem perm_mid {α : Type} (l1 l2 : List α) (x : α) : (l1 ++ x :: l2).Perm (x :: (l1 ++ l2)) :=
  List.perm_middle

end Momo.HTL
